(* C05: proofs about Model/FootprintCore.v.
   1. race_free_sound: the ownership discipline excludes data races.
   2. conforms_disciplined / table_sound: executions that conform to a table the
      checker accepts obey the discipline, hence have no data race.
   3. the engine as merged sequential loop histories: callbacks_confined,
      callbacks_serial, loops_overlap. *)
From Coq Require Import List ZArith String Bool Arith Lia.
From GV Require Import Lib.Trace Model.Loop Model.FootprintCore Model.Footprint.
Import ListNotations.
Open Scope string_scope.
Open Scope list_scope.
Open Scope nat_scope.

(* ================================================================== *)
(* 1. the discipline excludes races *)

Section Sound.
  Variable loc : Type.
  Variable loc_dec : forall a b : loc, {a = b} + {a <> b}.
  Variable ex : list (event loc).
  Variable own : nat -> loc -> ostate.

  Notation at_ := (at_ loc ex).
  Notation hb := (hb loc ex).

  Lemma hb_lt : forall i j, hb i j -> i < j.
  Proof. induction 1; lia. Qed.

  (* how the state of a location accounts for an earlier access i (by t1, kind k1) *)
  Definition post_atom (k1 : akind) : Prop := is_atomic k1 = true.
  Definition post_aown (t0 t1 : nat) (k1 : akind) : Prop :=
    (is_atomic k1 = true /\ (is_write k1 = true -> t1 = t0)) \/ (t1 = t0 /\ k1 = Rd).

  Definition cover (s : ostate) (n i t1 : nat) (k1 : akind) : Prop :=
    match s with
    | Own t => forall j x, n <= j -> at_ j = Some x -> thr loc x = t -> hb i j
    | Released r => r < n /\ hb i r
    | Frozen r => r < n /\ (hb i r \/ (r < i /\ is_write k1 = false))
    | Atom None => post_atom k1
    | Atom (Some r) => r < n /\ (hb i r \/ (r < i /\ post_atom k1))
    | AtomOwned None t0 => post_aown t0 t1 k1
    | AtomOwned (Some r) t0 => r < n /\ (hb i r \/ (r < i /\ post_aown t0 t1 k1))
    end.

  Definition Inv (n : nat) : Prop :=
    forall i t1 l k1, i < n -> at_ i = Some (Acc t1 l k1) -> cover (own n l) n i t1 k1.

  Lemma cover_mono : forall s n i t1 k1, cover s n i t1 k1 -> cover s (S n) i t1 k1.
  Proof.
    intros s n i t1 k1 H. destruct s as [t|r|r|[r|]|[r|] t0]; cbn in *.
    - intros j x Hj. apply H. lia.
    - destruct H; split; [lia|assumption].
    - destruct H; split; [lia|assumption].
    - destruct H; split; [lia|assumption].
    - exact H.
    - destruct H; split; [lia|assumption].
    - exact H.
  Qed.

  Hypothesis Hdisc : disciplined loc ex own.

  Lemma inv_step : forall n, n < List.length ex -> Inv n -> Inv (S n).
  Proof.
    intros n Hn HI i t1 l k1 Hi Hat.
    destruct (nth_error ex n) as [e|] eqn:En; [|apply nth_error_None in En; lia].
    pose proof (Hdisc n e En) as Hd.
    destruct e as [t l0 k|t s|t s].
    - (* access *)
      destruct Hd as [Hacc Hoth].
      destruct (loc_dec l l0) as [->|Hne].
      + (* the accessed location *)
        assert (Hnew : forall j x, S n <= j -> at_ j = Some x -> thr loc x = t -> hb n j).
        { intros j x Hj Hx Ht. eapply hb_po; [lia|exact En|exact Hx|cbn; congruence]. }
        destruct (Nat.eq_dec i n) as [->|Hin].
        * (* the new access itself *)
          unfold at_ in Hat. rewrite En in Hat. inversion Hat; subst t1 k1. clear Hat.
          unfold access_allowed in Hacc.
          destruct (own n l0) as [t0|r|r|[r|]|[r|] t0] eqn:Eo.
          -- destruct Hacc as [_ ->]. cbn. exact Hnew.
          -- destruct Hacc as [_ ->]. cbn. exact Hnew.
          -- destruct Hacc as [Hr [Hw ->]]. cbn. split; [apply hb_lt in Hr; lia|]. right. split; [apply hb_lt in Hr; lia|exact Hw].
          -- destruct Hacc as [Hr [Ha ->]]. cbn in *. split; [apply hb_lt in Hr; lia|]. right. split; [apply hb_lt in Hr; lia|exact Ha].
          -- destruct Hacc as [_ [Ha ->]]. cbn. exact Ha.
          -- destruct Hacc as [Hr [-> Ha]]. cbn in *. split; [apply hb_lt in Hr; lia|]. right. split; [apply hb_lt in Hr; lia|exact Ha].
          -- destruct Hacc as [_ [-> Ha]]. cbn. exact Ha.
        * assert (Hi' : i < n) by lia.
          specialize (HI i t1 l0 k1 Hi' Hat).
          unfold access_allowed in Hacc.
          destruct (own n l0) as [t0|r|r|[r|]|[r|] t0] eqn:Eo.
          -- destruct Hacc as [-> ->]. apply cover_mono in HI. exact HI.
          -- destruct Hacc as [Hr ->]. cbn in *. destruct HI as [_ Hir].
             intros j x Hj Hx Ht. eapply hb_tr; [exact Hir|]. eapply hb_tr; [exact Hr|]. eapply Hnew; eauto.
          -- destruct Hacc as [_ [_ ->]]. apply cover_mono in HI. exact HI.
          -- destruct Hacc as [_ [_ ->]]. apply cover_mono in HI. exact HI.
          -- destruct Hacc as [_ [_ ->]]. exact HI.
          -- destruct Hacc as [_ [-> _]]. apply cover_mono in HI. exact HI.
          -- destruct Hacc as [_ [-> _]]. exact HI.
      + rewrite (Hoth l Hne).
        destruct (Nat.eq_dec i n) as [->|Hin].
        * unfold at_ in Hat. rewrite En in Hat. inversion Hat. congruence.
        * apply cover_mono. apply HI; [lia|exact Hat].
    - (* release *)
      assert (Hi' : i < n).
      { destruct (Nat.eq_dec i n) as [->|]; [unfold at_ in Hat; rewrite En in Hat; discriminate|lia]. }
      specialize (HI i t1 l k1 Hi' Hat). specialize (Hd l).
      destruct Hd as [->|[Eo Hs]]; [apply cover_mono; exact HI|].
      rewrite Eo in HI. cbn in HI.
      assert (Hin : hb i n) by (eapply HI; [apply Nat.le_refl|exact En|reflexivity]).
      destruct Hs as [->|[->|[->|[t0 ->]]]]; cbn; (split; [lia|]); auto.
    - (* acquire *)
      assert (Hi' : i < n).
      { destruct (Nat.eq_dec i n) as [->|]; [unfold at_ in Hat; rewrite En in Hat; discriminate|lia]. }
      rewrite (Hd l). apply cover_mono. apply HI; assumption.
  Qed.

  Lemma inv_all : forall n, n <= List.length ex -> Inv n.
  Proof.
    induction n as [|n IH]; intro Hn.
    - intros i t1 l k1 Hi. lia.
    - apply inv_step; [lia|apply IH; lia].
  Qed.

  Theorem no_race_of_disciplined : ~ race loc ex.
  Proof.
    intros [i [j [t1 [t2 [l [k1 [k2 [Hij [Hi [Hj [Hne [Hc Hnhb]]]]]]]]]]]].
    apply Hnhb. clear Hnhb.
    assert (Hjl : j < List.length ex) by (apply nth_error_Some; unfold FootprintCore.at_ in Hj; congruence).
    pose proof (inv_all j (Nat.lt_le_incl _ _ Hjl) i t1 l k1 Hij Hi) as Hcov.
    destruct (Hdisc j _ Hj) as [Hacc _].
    unfold access_allowed in Hacc. unfold conflict in Hc.
    destruct (own j l) as [t0|r|r|[r|]|[r|] t0] eqn:Eo; cbn in Hcov.
    - destruct Hacc as [-> _]. eapply Hcov; [apply Nat.le_refl|exact Hj|reflexivity].
    - destruct Hacc as [Hr _]. destruct Hcov as [_ Hir]. eapply hb_tr; eauto.
    - destruct Hacc as [Hr [Hw _]]. destruct Hcov as [_ [Hir|[_ Hw1]]]; [eapply hb_tr; eauto|].
      rewrite Hw, Hw1 in Hc. discriminate.
    - destruct Hacc as [Hr [Ha _]]. cbn in Hr. destruct Hcov as [_ [Hir|[_ Ha1]]]; [eapply hb_tr; eauto|].
      unfold post_atom in Ha1. rewrite Ha, Ha1 in Hc. rewrite andb_false_r in Hc. discriminate.
    - destruct Hacc as [_ [Ha _]]. unfold post_atom in Hcov. rewrite Ha, Hcov in Hc. rewrite andb_false_r in Hc. discriminate.
    - destruct Hacc as [Hr [_ Ha]]. cbn in Hr. destruct Hcov as [_ [Hir|[_ Ha1]]]; [eapply hb_tr; eauto|].
      exfalso. unfold post_aown in Ha1.
      destruct Ha as [[Ha Hw]|[-> ->]]; destruct Ha1 as [[Ha1 Hw1]|[-> ->]].
      + rewrite Ha, Ha1 in Hc. rewrite andb_false_r in Hc. discriminate.
      + cbn in Hc. destruct (is_write k2) eqn:Ew; [apply Hne; symmetry; apply Hw; reflexivity|].
        cbn in Hc. discriminate.
      + cbn in Hc. destruct (is_write k1) eqn:Ew; [apply Hne; apply Hw1; reflexivity|].
        cbn in Hc. discriminate.
      + apply Hne; reflexivity.
    - destruct Hacc as [_ [_ Ha]].
      exfalso. unfold post_aown in Hcov.
      destruct Ha as [[Ha Hw]|[-> ->]]; destruct Hcov as [[Ha1 Hw1]|[-> ->]].
      + rewrite Ha, Ha1 in Hc. rewrite andb_false_r in Hc. discriminate.
      + cbn in Hc. destruct (is_write k2) eqn:Ew; [apply Hne; symmetry; apply Hw; reflexivity|].
        cbn in Hc. discriminate.
      + cbn in Hc. destruct (is_write k1) eqn:Ew; [apply Hne; apply Hw1; reflexivity|].
        cbn in Hc. discriminate.
      + apply Hne; reflexivity.
  Qed.
End Sound.

(* If every non-atomic access is by the current owner, and ownership changes only
   at synchronisation releases, the execution has no data race. *)
Theorem race_free_sound :
  forall (loc : Type) (loc_dec : forall a b : loc, {a = b} + {a <> b})
         (ex : list (event loc)) (own : nat -> loc -> ostate),
    disciplined loc ex own -> ~ race loc ex.
Proof. intros loc loc_dec ex own H. eapply no_race_of_disciplined; eauto. Qed.

(* ================================================================== *)
(* 2. a table the checker accepts: conforming executions obey the discipline *)

Lemma akind_eqb_eq : forall a b, akind_eqb a b = true -> a = b.
Proof. destruct a, b; cbn; congruence. Qed.

Lemma akind_eqb_refl : forall a, akind_eqb a a = true.
Proof. destruct a; reflexivity. Qed.

Lemma role_eqb_eq : forall a b, role_eqb a b = true -> a = b.
Proof. destruct a, b; cbn; congruence. Qed.

Lemma role_eqb_refl : forall a, role_eqb a a = true.
Proof. destruct a; reflexivity. Qed.

Lemma cloc_eqb_eq : forall a b, cloc_eqb a b = true <-> a = b.
Proof.
  intros [o f] [o' f']. unfold cloc_eqb. cbn. rewrite andb_true_iff, Nat.eqb_eq, String.eqb_eq.
  split; [intros [-> ->]; reflexivity|intro H; inversion H; auto].
Qed.

Lemma cloc_dec : forall a b : cloc, {a = b} + {a <> b}.
Proof. intros a b. destruct (cloc_eqb a b) eqn:E; [left; apply cloc_eqb_eq; exact E|right; intro H; apply cloc_eqb_eq in H; congruence]. Qed.

Lemma has_guard_In : forall g v gs, has_guard g v gs = true -> In (g, v) gs.
Proof.
  intros g v gs H. unfold has_guard in H. apply existsb_exists in H. destruct H as [[g' v'] [Hin H]].
  cbn in H. apply andb_true_iff in H. destruct H as [Hg Hv]. apply String.eqb_eq in Hg. apply Bool.eqb_prop in Hv.
  subst. exact Hin.
Qed.

Lemma In_has_guard : forall g v gs, In (g, v) gs -> has_guard g v gs = true.
Proof.
  intros g v gs H. unfold has_guard. apply existsb_exists. exists (g, v). split; [exact H|].
  cbn. rewrite String.eqb_refl, Bool.eqb_reflx. reflexivity.
Qed.

Lemma guards_eqb_sub : forall a b g v, guards_eqb a b = true -> has_guard g v a = true -> In (g, v) b.
Proof.
  intros a b g v H Hg. unfold guards_eqb in H. apply andb_true_iff in H. destruct H as [H _].
  apply andb_true_iff in H. destruct H as [_ H]. rewrite forallb_forall in H.
  apply has_guard_In in Hg. specialize (H _ Hg). cbn in H. apply has_guard_In. exact H.
Qed.

Section ClassFacts.
  Variables (xs : list exc) (ws : list writer).

  Lemma class_imm_live : forall f, class_of xs ws f = CImmutable -> live xs ws f = [].
  Proof.
    intros f H. unfold class_of in H. destruct (live xs ws f) as [|w rest]; [reflexivity|].
    destruct (forallb _ (w :: rest)); destruct (forallb _ rest && _); discriminate.
  Qed.

  Lemma class_ao_single : forall f r, class_of xs ws f = CAtomicOwned r -> single_threaded r = true.
  Proof.
    intros f r H. unfold class_of in H. destruct (live xs ws f) as [|w rest]; [discriminate|].
    destruct (forallb _ (w :: rest)); destruct (forallb _ rest && single_threaded (w_role w)) eqn:E; try discriminate.
    inversion H; subst. apply andb_true_iff in E. apply E.
  Qed.

  Lemma class_ob_single : forall f r, class_of xs ws f = COwnedBy r -> single_threaded r = true.
  Proof.
    intros f r H. unfold class_of in H. destruct (live xs ws f) as [|w rest]; [discriminate|].
    destruct (forallb _ (w :: rest)); destruct (forallb _ rest && single_threaded (w_role w)) eqn:E; try discriminate.
    inversion H; subst. apply andb_true_iff in E. apply E.
  Qed.

  Lemma live_intro : forall w f,
    In w ws -> w_loc w = f -> w_init w = false -> w_role w <> ROut ->
    existsb (fun x => exc_match x (w_role w) (w_fn w) (w_loc w) (w_kind w)) xs = false ->
    In w (live xs ws f).
  Proof.
    intros w f Hin Hl Hi Hr Hx. unfold live, writers_of. apply filter_In. split.
    - apply filter_In. split; [exact Hin|]. rewrite Hl. apply String.eqb_refl.
    - rewrite Hi, Hx. cbn. destruct (w_role w); cbn; try reflexivity. exfalso; apply Hr; reflexivity.
  Qed.
End ClassFacts.

Lemma cover_write : forall ws t rw a,
  writers_cover ws t = true -> In rw t -> In a (r_acc rw) -> is_write (a_kind a) = true -> a_owned a = false ->
  r_role rw <> ROut /\
  exists w, In w ws /\ w_loc w = a_loc a /\ w_kind w = a_kind a /\ w_init w = false /\
            w_role w = r_role rw /\ w_fn w = a_via a /\ guards_eqb (w_guards w) (a_guards a) = true.
Proof.
  intros ws t rw a H Hrw Ha Hw Ho. unfold writers_cover in H. rewrite forallb_forall in H.
  specialize (H rw Hrw). apply andb_true_iff in H. destruct H as [Hr H].
  split; [intro E; rewrite E in Hr; discriminate|].
  rewrite forallb_forall in H. specialize (H a Ha). rewrite Hw, Ho in H. cbn in H.
  apply existsb_exists in H. destruct H as [w [Hin H]].
  repeat (apply andb_true_iff in H; destruct H as [H ?]).
  exists w. repeat split; auto.
  - apply String.eqb_eq; assumption.
  - apply akind_eqb_eq; assumption.
  - apply negb_true_iff; assumption.
  - apply role_eqb_eq; assumption.
  - apply String.eqb_eq; assumption.
Qed.

Section Table.
  Variable L : layout.
  Variable xs : list exc.
  Variable ws : list writer.
  Variable t : list row.
  Variable ex : list (event cloc).

  Notation at_ := (at_ cloc ex).
  Notation hb := (hb cloc ex).

  Hypothesis Htab : race_free_table ws xs t = true.
  Hypothesis Hcov : writers_cover ws t = true.
  Hypothesis Hconf : conforms L xs t ex.

  Definition all_guards : guards := flat_map (fun rw => flat_map a_guards (r_acc rw)) t.

  (* the field is never written on this object after publication *)
  Definition frozen_obj (o : nat) (f : string) : bool :=
    match class_of xs ws f with CImmutable => true | _ => false end ||
    existsb (fun p =>
      match class_of xs ws (fst p) with
      | CImmutable => forallb (fun w => has_guard (fst p) (negb (snd p)) (w_guards w)) (live xs ws f) &&
                      Bool.eqb (gval L o (fst p)) (snd p)
      | _ => false
      end) all_guards.

  Definition hit (l : cloc) (m : nat) : bool :=
    match nth_error ex m with Some (Acc _ l' _) => cloc_eqb l' l | _ => false end.

  (* accessed at some step strictly between r and n *)
  Definition touched (r n : nat) (l : cloc) : bool := existsb (hit l) (seq (S r) (n - S r)).

  Definition post_state (r n o : nat) (f : string) : ostate :=
    if frozen_obj o f then Frozen r else
    match class_of xs ws f with
    | CAtomic => Atom (Some r)
    | CAtomicOwned r' => AtomOwned (Some r) (home L o r')
    | COwnedBy r' => if touched r n (o, f) then Own (home L o r') else Released r
    | _ => Own (creator L o)
    end.

  (* the ghost owner of every location at every step *)
  Definition own_of (n : nat) (l : cloc) : ostate :=
    match pub L (fst l) with
    | Some r => if n <=? r then Own (creator L (fst l)) else post_state r n (fst l) (snd l)
    | None => Own (creator L (fst l))
    end.

  Lemma touched_S : forall r n l, r < n -> touched r (S n) l = touched r n l || hit l n.
  Proof.
    intros r n l H. unfold touched.
    replace (S n - S r) with (S (n - S r)) by lia.
    rewrite seq_S, existsb_app. cbn [existsb]. rewrite orb_false_r.
    replace (S r + (n - S r)) with n by lia. reflexivity.
  Qed.

  Lemma touched_now : forall n l, touched n (S n) l = false.
  Proof. intros. unfold touched. replace (S n - S n) with 0 by lia. reflexivity. Qed.

  Lemma pub_is_rel : forall o r, pub L o = Some r -> exists s, at_ r = Some (Rel (creator L o) s).
  Proof. destruct Hconf as [H _]. exact H. Qed.

  (* own_of does not change across a step that is not the publication of the object
     and does not access the location *)
  Lemma own_same : forall n l, (forall r, pub L (fst l) = Some r -> r <> n) -> hit l n = false ->
    own_of (S n) l = own_of n l.
  Proof.
    intros n [o f] Hp Hh. unfold own_of. cbn [fst snd] in *.
    destruct (pub L o) as [r|] eqn:Ep; [|reflexivity].
    specialize (Hp r eq_refl).
    destruct (Nat.leb_spec n r) as [E1|E1]; destruct (Nat.leb_spec (S n) r) as [E2|E2]; try lia; try reflexivity.
    unfold post_state. rewrite touched_S by lia. rewrite Hh, orb_false_r. reflexivity.
  Qed.

  Lemma table_access_ok : forall rw a r, In rw t -> In a (r_acc rw) -> r_role rw = r ->
    excepted xs r a = false -> access_ok xs ws r a = true.
  Proof.
    intros rw a r Hrw Ha Hr Hx. unfold race_free_table in Htab. rewrite forallb_forall in Htab.
    specialize (Htab rw Hrw). unfold row_ok in Htab. rewrite forallb_forall in Htab.
    specialize (Htab a Ha). rewrite Hr, Hx, orb_false_r in Htab. exact Htab.
  Qed.

  Lemma guard_in_all : forall rw a p, In rw t -> In a (r_acc rw) -> In p (a_guards a) -> In p all_guards.
  Proof.
    intros rw a p Hrw Ha Hp. unfold all_guards. apply in_flat_map. exists rw. split; [exact Hrw|].
    apply in_flat_map. exists a. split; assumption.
  Qed.

  (* a non-owned write access that really happens on object o: o is not frozen for that field *)
  Lemma write_not_frozen : forall rw a th o,
    In rw t -> In a (r_acc rw) -> r_role rw = trole L th -> excepted xs (trole L th) a = false ->
    a_owned a = false -> is_write (a_kind a) = true ->
    (forall g v, In (g, v) (a_guards a) -> gval L o g = v) ->
    frozen_obj o (a_loc a) = false.
  Proof.
    intros rw a th o Hrw Ha Hr Hx Ho Hw Hg.
    destruct (cover_write ws t rw a Hcov Hrw Ha Hw Ho) as [Hnot [w [Hin [Hl [Hk [Hi [Hwr [Hfn Hgs]]]]]]]].
    assert (Hlive : In w (live xs ws (a_loc a))).
    { apply live_intro; auto.
      - rewrite Hwr. exact Hnot.
      - unfold excepted in Hx. rewrite Hwr, Hfn, Hl, Hk, Hr. exact Hx. }
    unfold frozen_obj. apply orb_false_iff. split.
    - destruct (class_of xs ws (a_loc a)) eqn:Ec; try reflexivity.
      apply class_imm_live in Ec. rewrite Ec in Hlive. destruct Hlive.
    - destruct (existsb _ all_guards) eqn:E; [|reflexivity]. exfalso.
      apply existsb_exists in E. destruct E as [[g v] [_ E]]. cbn [fst snd] in E.
      destruct (class_of xs ws g); try discriminate.
      apply andb_true_iff in E. destruct E as [Hall Hv].
      rewrite forallb_forall in Hall. specialize (Hall w Hlive).
      pose proof (guards_eqb_sub _ _ _ _ Hgs Hall) as Hina.
      specialize (Hg _ _ Hina). apply Bool.eqb_prop in Hv. rewrite Hg in Hv.
      destruct v; discriminate.
  Qed.

  Lemma guard_ok_frozen : forall rw a o,
    In rw t -> In a (r_acc rw) -> guard_ok xs ws a = true ->
    (forall g v, In (g, v) (a_guards a) -> gval L o g = v) ->
    frozen_obj o (a_loc a) = true.
  Proof.
    intros rw a o Hrw Ha Hg Hv. unfold guard_ok in Hg. apply andb_true_iff in Hg. destruct Hg as [_ Hg].
    apply existsb_exists in Hg. destruct Hg as [[g v] [Hin Hg]]. cbn [fst snd] in Hg.
    unfold frozen_obj. apply orb_true_iff. right. apply existsb_exists. exists (g, v).
    split; [eapply guard_in_all; eauto|]. cbn [fst snd].
    destruct (class_of xs ws g); try discriminate. rewrite Hg. cbn.
    rewrite (Hv _ _ Hin). apply Bool.eqb_reflx.
  Qed.

  Theorem conforms_disciplined : disciplined cloc ex own_of.
  Proof.
    intros n e En. destruct Hconf as [Hpub Hacc].
    destruct e as [th [o f] k|th s|th s].
    - (* access *)
      split.
      2:{ intros l' Hne. apply own_same.
          - intros r Hp ->. destruct (Hpub _ _ Hp) as [s Hs]. unfold FootprintCore.at_ in *. congruence.
          - unfold hit. unfold FootprintCore.at_ in En. rewrite En.
            destruct (cloc_eqb (o, f) l') eqn:E; [apply cloc_eqb_eq in E; congruence|reflexivity]. }
      destruct (Hacc n th o f k En) as [rw [a [Hrw [Ha [Hr [Hl [Hk [Hx Hcase]]]]]]]].
      unfold own_of. cbn [fst snd].
      destruct Hcase as [[Hc Hun]|[Ho [[r [Hp Hrn]] [Hhome Hgv]]]].
      + (* construction *)
        unfold unpublished in Hun. destruct (pub L o) as [r|] eqn:Ep.
        * specialize (Hun r eq_refl).
          replace (n <=? r) with true by (symmetry; apply Nat.leb_le; lia).
          replace (S n <=? r) with true by (symmetry; apply Nat.leb_le; lia).
          cbn. split; congruence.
        * cbn. split; congruence.
      + (* after publication *)
        rewrite Hp. pose proof (hb_lt _ _ _ _ Hrn) as Hlt.
        replace (n <=? r) with false by (symmetry; apply Nat.leb_gt; lia).
        replace (S n <=? r) with false by (symmetry; apply Nat.leb_gt; lia).
        pose proof (table_access_ok rw a (trole L th) Hrw Ha Hr Hx) as Hok.
        unfold access_ok in Hok. rewrite Ho in Hok. cbn in Hok.
        unfold post_state. subst f k.
        destruct (frozen_obj o (a_loc a)) eqn:Ef.
        * (* frozen: it must be a read *)
          cbn. split; [exact Hrn|]. split; [|reflexivity].
          destruct (is_write (a_kind a)) eqn:Ew; [|reflexivity].
          rewrite (write_not_frozen rw a th o Hrw Ha Hr Hx Ho Ew Hgv) in Ef. discriminate.
        * assert (Hg : guard_ok xs ws a = false).
          { destruct (guard_ok xs ws a) eqn:Eg; [|reflexivity].
            rewrite (guard_ok_frozen rw a o Hrw Ha Eg Hgv) in Ef. discriminate. }
          rewrite Hg, orb_false_r in Hok.
          assert (Hhit : hit (o, a_loc a) n = true).
          { unfold hit. unfold FootprintCore.at_ in En. rewrite En. apply cloc_eqb_eq. reflexivity. }
          destruct (class_of xs ws (a_loc a)) eqn:Ec; cbn in Hok.
          -- unfold frozen_obj in Ef. rewrite Ec in Ef. discriminate.
          -- cbn. split; [exact Hrn|]. split; [exact Hok|reflexivity].
          -- cbn. split; [exact Hrn|]. split; [reflexivity|].
             pose proof (class_ao_single _ _ _ _ Ec) as Hs.
             apply orb_true_iff in Hok. destruct Hok as [Hok|Hok]; apply andb_true_iff in Hok; destruct Hok as [H1 H2].
             ++ left. split; [exact H1|]. intro Hw. rewrite Hw in H2. cbn in H2.
                apply role_eqb_eq in H2. subst r0. apply Hhome. exact Hs.
             ++ right. apply role_eqb_eq in H1. apply akind_eqb_eq in H2. subst r0.
                split; [apply Hhome; exact Hs|exact H2].
          -- pose proof (class_ob_single _ _ _ _ Ec) as Hs.
             apply role_eqb_eq in Hok. subst r0. specialize (Hhome Hs).
             rewrite touched_S by lia. rewrite Hhit, orb_true_r.
             destruct (touched r n (o, a_loc a)); cbn.
             ++ split; congruence.
             ++ split; [exact Hrn|congruence].
          -- discriminate.
    - (* release *)
      intros [o f].
      destruct (pub L o) as [r|] eqn:Ep.
      + destruct (Nat.eq_dec r n) as [->|Hne].
        * (* this step publishes o *)
          destruct (Hpub _ _ Ep) as [s' Hs']. unfold FootprintCore.at_ in *. rewrite En in Hs'.
          inversion Hs'; subst th s'. clear Hs'.
          unfold own_of. cbn [fst snd]. rewrite Ep, Nat.leb_refl.
          replace (S n <=? n) with false by (symmetry; apply Nat.leb_gt; lia).
          unfold post_state. unfold release_allowed.
          destruct (frozen_obj o f); [right; split; [reflexivity|]; right; left; reflexivity|].
          destruct (class_of xs ws f).
          -- left; reflexivity.
          -- right; split; [reflexivity|]. right; right; left; reflexivity.
          -- right; split; [reflexivity|]. right; right; right. eexists; reflexivity.
          -- rewrite touched_now. right; split; [reflexivity|]. left; reflexivity.
          -- left; reflexivity.
        * left. apply own_same; cbn [fst].
          -- intros r' Hp'. congruence.
          -- unfold hit. unfold FootprintCore.at_ in En. rewrite En. reflexivity.
      + left. apply own_same; cbn [fst].
        * intros r' Hp'. congruence.
        * unfold hit. unfold FootprintCore.at_ in En. rewrite En. reflexivity.
    - (* acquire *)
      intro l. apply own_same.
      + intros r Hp ->. destruct (Hpub _ _ Hp) as [s' Hs']. unfold FootprintCore.at_ in *. congruence.
      + unfold hit. unfold FootprintCore.at_ in En. rewrite En. reflexivity.
  Qed.

  Lemma own_of_init : init_ok cloc own_of.
  Proof.
    intros [o f]. left. exists (creator L o). unfold own_of. cbn [fst snd].
    destruct (pub L o); reflexivity.
  Qed.

  Theorem table_no_race : ~ race cloc ex.
  Proof. eapply race_free_sound; [exact cloc_dec|exact conforms_disciplined]. Qed.
End Table.

(* The table theorem in one statement. *)
Theorem table_sound : forall L xs ws t ex,
  race_free_table ws xs t = true -> writers_cover ws t = true -> conforms L xs t ex ->
  disciplined cloc ex (own_of L xs ws t ex) /\ ~ race cloc ex.
Proof.
  intros L xs ws t ex H1 H2 H3. split.
  - apply conforms_disciplined; assumption.
  - eapply table_no_race; eassumption.
Qed.

(* A field all of whose writers run before publication is never written afterwards:
   in particular a connection never changes loops (conn.loop). *)
Theorem immutable_not_written : forall L xs ws t ex f,
  race_free_table ws xs t = true -> writers_cover ws t = true -> conforms L xs t ex ->
  class_of xs ws f = CImmutable ->
  forall n th o k, at_ cloc ex n = Some (Acc th (o, f) k) ->
    (exists r, pub L o = Some r /\ r < n) -> is_write k = false.
Proof.
  intros L xs ws t ex f Htab Hcov Hconf Hc n th o k En [r [Hp Hrn]].
  pose proof (conforms_disciplined L xs ws t ex Htab Hcov Hconf n _ En) as [Hacc _].
  unfold own_of in Hacc. cbn [fst snd] in Hacc. rewrite Hp in Hacc.
  replace (n <=? r) with false in Hacc by (symmetry; apply Nat.leb_gt; lia).
  unfold post_state, frozen_obj in Hacc. rewrite Hc in Hacc. cbn in Hacc. apply Hacc.
Qed.

(* ================================================================== *)
(* 3. the engine: merged histories of independent sequential loops *)

Lemma upd_length : forall A (l : list A) k x, List.length (upd l k x) = List.length l.
Proof. induction l as [|y l IH]; intros [|k] x; cbn; auto. Qed.

Lemma nth_upd_same : forall A (l : list A) k x d, k < List.length l -> nth k (upd l k x) d = x.
Proof. induction l as [|y l IH]; intros [|k] x d H; cbn in *; try lia; auto. apply IH. lia. Qed.

Lemma nth_upd_other : forall A (l : list A) k j x d, j <> k -> nth j (upd l k x) d = nth j l d.
Proof.
  induction l as [|y l IH]; intros [|k] [|j] x d H; cbn; auto; try congruence.
Qed.

Lemma nth_error_nth' : forall A (l : list A) k x d, nth_error l k = Some x -> nth k l d = x.
Proof. induction l as [|y l IH]; intros [|k] x d H; cbn in *; try discriminate; [congruence|auto]. Qed.

Lemma nth_all_nil : forall (hs : list (list ev)) k, (forall h, In h hs -> h = []) -> nth k hs [] = [].
Proof.
  intros hs k H. destruct (Nat.lt_ge_cases k (List.length hs)) as [Hk|Hk].
  - apply H. apply nth_In. exact Hk.
  - apply nth_overflow. exact Hk.
Qed.

(* the events a loop's goroutine takes, in the order it takes them, are exactly the
   history of its one sequential polling run *)
Lemma merge_proj : forall hs g, merge hs g -> forall k, proj k g = nth k hs [].
Proof.
  induction 1 as [hs Hn|hs k e rest g Hk Hm IH]; intro j.
  - cbn. symmetry. apply nth_all_nil. exact Hn.
  - unfold proj. cbn [filter fst]. destruct (Nat.eqb k j) eqn:E.
    + apply Nat.eqb_eq in E. subst j. cbn [map snd]. fold (proj k g). rewrite IH.
      assert (Hlt : k < List.length hs) by (apply nth_error_Some; congruence).
      rewrite nth_upd_same by exact Hlt. symmetry. eapply nth_error_nth'. exact Hk.
    + apply Nat.eqb_neq in E. fold (proj j g). rewrite IH. apply nth_upd_other. congruence.
Qed.

Lemma proj_In : forall k e g, In (k, e) g -> In e (proj k g).
Proof.
  intros k e g H. unfold proj. apply in_map_iff. exists (k, e). split; [reflexivity|].
  apply filter_In. split; [exact H|]. cbn. apply Nat.eqb_refl.
Qed.

(* Every event -- in particular every OnOpen/OnTraffic/OnClose callback, every
   asynchronous-write/Wake/Close callback and every Execute runnable -- that the
   execution attributes to goroutine k was produced by the polling run of loop k on
   loop k's own input; nothing else emits it. *)
Theorem callbacks_confined : forall ins g k e,
  engine_exec ins g -> In (k, e) g -> is_callback e = true ->
  In e (loop_history (nth k ins [])) /\ k < List.length ins.
Proof.
  intros ins g k e Hm Hin _. unfold engine_exec in Hm.
  pose proof (merge_proj _ _ Hm k) as Hp. apply proj_In in Hin. rewrite Hp in Hin.
  destruct (Nat.lt_ge_cases k (List.length ins)) as [Hk|Hk].
  - split; [|exact Hk]. rewrite <- (map_nth loop_history). exact Hin.
  - rewrite nth_overflow in Hin by (rewrite map_length; exact Hk). destruct Hin.
Qed.

(* One at a time: what goroutine k does during the execution is, event for event and
   in the same order, the history of one sequential function call (polling); the
   callbacks of a loop are therefore totally ordered and never overlap one another
   (a handler runs from its `cb` line to the `hret` it consumes, and the only
   callbacks in between are the ones that handler itself causes by calling
   EventLoop.Close). *)
Theorem callbacks_serial : forall ins g k,
  engine_exec ins g -> proj k g = loop_history (nth k ins []).
Proof.
  intros ins g k Hm. unfold engine_exec in Hm. rewrite (merge_proj _ _ Hm k).
  destruct (Nat.lt_ge_cases k (List.length ins)) as [Hk|Hk].
  - rewrite <- (map_nth loop_history). reflexivity.
  - rewrite !nth_overflow; try (rewrite ?map_length; exact Hk). reflexivity.
Qed.

(* the per-loop callback sequence does not depend on how the loops interleave *)
Corollary callbacks_schedule_independent : forall ins g g' k,
  engine_exec ins g -> engine_exec ins g' -> proj k g = proj k g'.
Proof. intros. rewrite !(callbacks_serial ins) by assumption. reflexivity. Qed.

(* callbacks of DIFFERENT loops may overlap: an execution of a two-loop engine in
   which loop 1 runs an Execute runnable between the start of loop 0's OnOpen
   handler and its return *)
Open Scope Z_scope.
Definition ov_in0 : list line := [
  ("cfg", [AInt 0; AInt 0; AInt 1024; AInt 3; AInt 1024; AInt 256]);
  ("accepted", [AInt 5]);
  ("wait", [AInt 3; AInt 1]);
  ("r", [ASym "epctl"; AInt 0]);
  ("hret", [ASym "none"])].
Definition ov_in1 : list line := [
  ("cfg", [AInt 0; AInt 0; AInt 1024; AInt 3; AInt 1024; AInt 256]);
  ("async", [ASym "exec"; AInt 0]);
  ("wait", [AInt 3; AInt 1])].
Close Scope Z_scope.

Definition ov_sched : list nat := [0; 0; 0; 0; 0; 0; 1; 1; 1; 1; 1; 0; 0; 0].

(* run a schedule: take the next event of the chosen loop *)
Fixpoint run_sched (hs : list (list ev)) (s : list nat) : list (nat * ev) :=
  match s with
  | [] => []
  | k :: s' => match nth k hs [] with
               | [] => run_sched hs s'
               | e :: rest => (k, e) :: run_sched (upd hs k rest) s'
               end
  end.

Lemma upd_nth_same : forall (hs : list (list ev)) k, nth k hs [] = [] -> upd hs k [] = hs.
Proof. induction hs as [|h hs IH]; intros [|k] E; cbn in *; try congruence. f_equal. apply IH. exact E. Qed.

Lemma nth_cons_error : forall (hs : list (list ev)) k e rest, nth k hs [] = e :: rest -> nth_error hs k = Some (e :: rest).
Proof. induction hs as [|h hs IH]; intros [|k] e rest E; cbn in *; try discriminate; try congruence. apply IH. exact E. Qed.

Lemma run_sched_merge : forall s hs,
  (forall h, In h (fold_left (fun hs k => upd hs k (tl (nth k hs []))) s hs) -> h = []) ->
  (forall k, In k s -> k < List.length hs) ->
  merge hs (run_sched hs s).
Proof.
  induction s as [|k s IH]; intros hs Hend Hk; cbn in *.
  - apply merge_done. exact Hend.
  - assert (Hlt : k < List.length hs) by (apply Hk; left; reflexivity).
    destruct (nth k hs []) as [|e rest] eqn:E.
    + cbn in Hend. rewrite (upd_nth_same hs k E) in Hend.
      apply IH; [exact Hend|intros; apply Hk; right; assumption].
    + cbn in Hend. eapply merge_step.
      * apply nth_cons_error. exact E.
      * apply IH; [exact Hend|]. intros k' Hk'. rewrite upd_length. apply Hk. right. exact Hk'.
Qed.

Example loops_overlap :
  exists g pre mid post,
    engine_exec [ov_in0; ov_in1] g /\
    g = pre ++ [(0, EOut ("cb", [ASym "open"; AInt 0%Z]))] ++ mid ++ [(0, EIn ("hret", [ASym "none"]))] ++ post /\
    In (1, EOut ("exec", [])) mid.
Proof.
  exists (run_sched (map loop_history [ov_in0; ov_in1]) ov_sched).
  eexists. eexists. eexists. split; [|split].
  - apply run_sched_merge.
    + vm_compute. intros h [<-|[<-|[]]]; reflexivity.
    + vm_compute. intros k H. repeat (destruct H as [<-|H]; [lia|]). destruct H.
  - vm_compute.
    match goal with |- ?a :: ?b :: ?c :: ?d :: ?e :: ?rest = _ =>
      instantiate (3 := [a; b; c; d; e]) end.
    cbn [app]. do 6 f_equal.
    match goal with |- ?a :: ?b :: ?c :: ?d :: ?e :: ?rest = _ =>
      instantiate (2 := [a; b; c; d; e]) end.
    cbn [app]. reflexivity.
  - vm_compute. right. right. right. left. reflexivity.
Qed.

(* ------------------------------------------------------------------ *)
(* Non-vacuity of table_sound: a small table and an execution that conforms to it
   (a worker creates connection 7 and hands it to loop 0 through the task queue; the
   loop opens it and hands it to a user goroutine, which calls Fd() while the loop
   goes on writing its own fields). *)
Definition ex_ws : list writer := [
  mkWr "conn.fd" Wr true RWorker "newStreamConn" [];
  mkWr "conn.opened" Wr false RLoop "eventloop.open" []].

Definition ex_table : list row := [
  mkRow "enroll$1" RWorker [mkAcc "conn.fd" Wr true [] "newStreamConn"];
  mkRow "loop" RLoop [mkAcc "conn.opened" Wr false [] "eventloop.open"; mkAcc "conn.fd" Rd false [] "eventloop.read"];
  mkRow "conn.Fd" RUser [mkAcc "conn.fd" Rd false [] "conn.Fd"]].

Definition ex_layout : layout :=
  mkLayout (fun th => match th with 0 => RLoop | 1 => RWorker | _ => RUser end)
           (fun _ => 1) (fun o => if Nat.eqb o 7 then Some 1 else None) (fun _ _ => 0) (fun _ _ => false).

Definition ex_exec : list (event cloc) := [
  Acc 1 (7, "conn.fd") Wr;
  Rel 1 100;
  Acq 0 100;
  Acc 0 (7, "conn.opened") Wr;
  Acc 0 (7, "conn.fd") Rd;
  Rel 0 101;
  Acq 2 101;
  Acc 2 (7, "conn.fd") Rd;
  Acc 0 (7, "conn.opened") Wr].

Example ex_table_ok : race_free_table ex_ws [] ex_table = true /\ writers_cover ex_ws ex_table = true.
Proof. split; vm_compute; reflexivity. Qed.

Example ex_conforms : conforms ex_layout [] ex_table ex_exec.
Proof.
  assert (H12 : hb cloc ex_exec 1 2) by (eapply hb_sw; [lia|reflexivity|reflexivity]).
  assert (H23 : hb cloc ex_exec 2 3) by (eapply hb_po; [lia|reflexivity|reflexivity|reflexivity]).
  assert (H24 : hb cloc ex_exec 2 4) by (eapply hb_po; [lia|reflexivity|reflexivity|reflexivity]).
  assert (H25 : hb cloc ex_exec 2 5) by (eapply hb_po; [lia|reflexivity|reflexivity|reflexivity]).
  assert (H28 : hb cloc ex_exec 2 8) by (eapply hb_po; [lia|reflexivity|reflexivity|reflexivity]).
  assert (H56 : hb cloc ex_exec 5 6) by (eapply hb_sw; [lia|reflexivity|reflexivity]).
  assert (H67 : hb cloc ex_exec 6 7) by (eapply hb_po; [lia|reflexivity|reflexivity|reflexivity]).
  split.
  - intros o r H. cbn in H. destruct (Nat.eqb o 7) eqn:E; [|discriminate]. inversion H; subst.
    exists 100. reflexivity.
  - intros n th o f k H.
    destruct n as [|[|[|[|[|[|[|[|[|n]]]]]]]]]; cbn in H; try (destruct n; discriminate); try discriminate;
      inversion H; subst; clear H.
    + exists (nth 0 ex_table (mkRow "" RUser [])), (mkAcc "conn.fd" Wr true [] "newStreamConn").
      cbn. repeat split; auto. left. split; [reflexivity|]. intros r Hr. inversion Hr. lia.
    + exists (nth 1 ex_table (mkRow "" RUser [])), (mkAcc "conn.opened" Wr false [] "eventloop.open").
      cbn. repeat split; auto. right. repeat split; auto.
      * exists 1. split; [reflexivity|]. eapply hb_tr; eauto.
      * intros g v [].
    + exists (nth 1 ex_table (mkRow "" RUser [])), (mkAcc "conn.fd" Rd false [] "eventloop.read").
      cbn. repeat split; auto. right. repeat split; auto.
      * exists 1. split; [reflexivity|]. eapply hb_tr; eauto.
      * intros g v [].
    + exists (nth 2 ex_table (mkRow "" RUser [])), (mkAcc "conn.fd" Rd false [] "conn.Fd").
      cbn. repeat split; auto. right. repeat split; auto.
      * exists 1. split; [reflexivity|]. eapply hb_tr; [exact H12|]. eapply hb_tr; [exact H25|]. eapply hb_tr; eauto.
      * discriminate.
      * intros g v [].
    + exists (nth 1 ex_table (mkRow "" RUser [])), (mkAcc "conn.opened" Wr false [] "eventloop.open").
      cbn. repeat split; auto. right. repeat split; auto.
      * exists 1. split; [reflexivity|]. eapply hb_tr; eauto.
      * intros g v [].
Qed.

Example ex_no_race : ~ race cloc ex_exec.
Proof. eapply table_no_race; [apply ex_table_ok|apply ex_table_ok|apply ex_conforms]. Qed.

(* ... and the definition of a race is not vacuous: the defect recorded as finding
   cc-during-start, as an execution.  Thread 0 runs gnet.Run: it has handed the Engine
   to user code in OnBoot (step 0 publishes the load balancer, object 1) and then
   registers an event loop; thread 1, started by OnBoot, calls CountConnections. *)
Definition racy_exec : list (event cloc) := [
  Rel 0 100;
  Acq 1 100;
  Acc 0 (1, "baseLoadBalancer.eventLoops") Wr;
  Acc 1 (1, "baseLoadBalancer.eventLoops") Rd].

Lemma racy_hb_shape : forall i j, hb cloc racy_exec i j ->
  (i = 2 /\ j = 3 -> False).
Proof.
  intros i j H. induction H as [i j x y Hlt Hi Hj Ht|i j t t' s Hlt Hi Hj|i k j H1 IH1 H2 IH2]; intros [-> ->].
  - cbn in Hi, Hj. inversion Hi; inversion Hj; subst. discriminate.
  - cbn in Hi. discriminate.
  - pose proof (hb_lt _ _ _ _ H1). pose proof (hb_lt _ _ _ _ H2). lia.
Qed.

Example cc_during_start_refuted : race cloc racy_exec.
Proof.
  exists 2, 3, 0, 1, (1, "baseLoadBalancer.eventLoops"), Wr, Rd.
  repeat split; try reflexivity; try lia.
  intro H. eapply racy_hb_shape; eauto.
Qed.

(* ------------------------------------------------------------------ *)
(* the real tables *)

(* a connection's loop: every writer of conn.loop is a constructor write *)
Lemma conn_loop_class : class_of exceptions justified_writers "conn.loop" = CImmutable /\
                        forallb w_init (writers_of "conn.loop" justified_writers) = true /\
                        writers_of "conn.loop" justified_writers <> [].
Proof.
  split. { vm_compute. reflexivity. }
  split. { vm_compute. reflexivity. }
  vm_compute. discriminate.
Qed.

Theorem conn_loop_fixed : forall L t ex,
  race_free_table justified_writers exceptions t = true -> writers_cover justified_writers t = true ->
  conforms L exceptions t ex ->
  forall n th o k, at_ cloc ex n = Some (Acc th (o, "conn.loop") k) ->
    (exists r, pub L o = Some r /\ r < n) -> is_write k = false.
Proof.
  intros L t ex H1 H2 H3. eapply immutable_not_written; [exact H1|exact H2|exact H3|apply conn_loop_class].
Qed.

(* the classification the real writers give to the fields the property names *)
Lemma key_classes :
  map (class_of exceptions justified_writers)
      ["conn.fd"; "conn.loop"; "conn.isDatagram"; "conn.proto"; "eventloop.poller"; "eventloop.engine";
       "conn.safeCtx"; "engine.inShutdown"; "netpoll.Poller.wakeupCall"; "connMatrix.connCount"; "connMatrix.connCounts[]";
       "conn.opened"; "conn.outboundBuffer"; "conn.remote"; "roundRobinLoadBalancer.nextIndex"] =
  [CImmutable; CImmutable; CImmutable; CImmutable; CImmutable; CImmutable;
   CAtomic; CAtomicOwned REngine; CAtomic; CAtomicOwned RLoop; CAtomicOwned RLoop;
   COwnedBy RLoop; COwnedBy RLoop; COwnedBy RLoop; COwnedBy RAcceptor].
Proof. vm_compute. reflexivity. Qed.

Lemma findings_listed : map x_loc (findings exceptions) = ["baseLoadBalancer.eventLoops"; "baseLoadBalancer.eventLoops[]"].
Proof. vm_compute. reflexivity. Qed.

(* the runner on a well-behaved run and on a run with a foreign goroutine *)
Example run_footprint_ok :
  run_footprint [("b", [AInt 0; AInt 7; AInt 1]); ("b", [AInt 1; AInt 9; AInt 2]); ("e", [AInt 0; AInt 7; AInt 1]);
                 ("e", [AInt 1; AInt 9; AInt 2]); ("b", [AInt 0; AInt 7; AInt 1]); ("b", [AInt 0; AInt 7; AInt 1]);
                 ("e", [AInt 0; AInt 7; AInt 1]); ("e", [AInt 0; AInt 7; AInt 1])]%Z
  = [obs "verdict" [AInt 0; AInt 0; AInt 0]]%Z.
Proof. vm_compute. reflexivity. Qed.

Example run_footprint_bad :
  run_footprint [("b", [AInt 0; AInt 7; AInt 1]); ("b", [AInt 0; AInt 8; AInt 1]); ("e", [AInt 0; AInt 8; AInt 1]);
                 ("e", [AInt 0; AInt 7; AInt 1]); ("b", [AInt 1; AInt 9; AInt 1]); ("e", [AInt 1; AInt 9; AInt 1])]%Z
  = [obs "verdict" [AInt 1; AInt 1; AInt 1]]%Z.
Proof. vm_compute. reflexivity. Qed.
