//go:build verif

//verif:target export_verif_engine.go

package gnet

import "time"

// VerifEngState exposes the hidden life-cycle state of an engine handle for
// the C06/C19 harness: whether the handle points to an engine, whether the root
// context has been cancelled (turnOff), whether inShutdown is set, and how
// many event loops are registered.
func VerifEngState(e Engine) (alloc, cancelled, inShutdown bool, loops int) {
	if e.eng == nil {
		return false, false, false, 0
	}
	alloc = true
	if e.eng.concurrency.ctx != nil {
		cancelled = e.eng.concurrency.ctx.Err() != nil
	}
	inShutdown = e.eng.isShutdown()
	if e.eng.eventLoops != nil {
		loops = e.eng.eventLoops.len()
	}
	return
}

// VerifEngSetShutdownPollInterval replaces the poll interval of Engine.Stop / gnet.Stop
// (a package variable) and returns the previous value.
func VerifEngSetShutdownPollInterval(d time.Duration) time.Duration {
	old := shutdownPollInterval
	shutdownPollInterval = d
	return old
}

// VerifEngInAllEngines tells whether the package-level registry holds an engine for the address.
func VerifEngInAllEngines(protoAddr string) bool {
	_, ok := allEngines.Load(protoAddr)
	return ok
}
