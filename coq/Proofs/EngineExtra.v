(* Every documented source of shutdown raises `requested`; the registration that is
   stranded when its loop exits (the refuted part of one_result); what a waiting
   registration waits for; non-vacuity examples. *)
From GV Require Import Lib.Trace Lib.Interleave Model.Engine Proofs.EngineBase Proofs.EngineInv Proofs.EngineHist
  Proofs.EngineConns Proofs.EngineWorkers Proofs.EngineProgress Proofs.EngineProofs.
From Coq Require Import Lia List Bool Arith ZArith.
Import ListNotations.
Open Scope list_scope.
Local Arguments upd {A} _ _ _ : simpl nomatch.

(* ------------------------------------------------------------------ *)
(* sources of shutdown *)

(* the handler asked for a shutdown in a callback of a connection: Shutdown returned from
   OnOpen / OnTraffic, or from the OnClose that the callback caused *)
Definition cb_asks (h : hres) : bool := let '(_, sentinel, off) := after_cb h in sentinel || off.

Definition io_asks (e : ioev) : bool :=
  match e with
  | IoOpen h | IoTraffic _ h => cb_asks h
  | IoPeerClose _ ca => act_shut ca
  | IoDatagram a => act_shut a
  end.

Lemma existsb_upd_const : forall (f : loop -> bool) l i x y,
  nth_error l i = Some x -> f y = true -> existsb f (upd i (fun _ => y) l) = true.
Proof.
  induction l as [|z r IH]; intros [|i] x y H Hy; cbn in *; try discriminate.
  - rewrite Hy. reflexivity.
  - rewrite (IH _ _ _ H Hy). apply orb_true_r.
Qed.

Lemma requested_by_loop : forall s i l y, get_loop s i = Some l -> loop_unwinding y = true ->
  forall s', e_loops s' = upd i (fun _ => y) (e_loops s) -> requested s' = true.
Proof.
  intros s i l y Hl Hy s' E. unfold requested. rewrite E.
  rewrite (existsb_upd_const loop_unwinding _ _ _ _ Hl Hy). rewrite orb_true_r. reflexivity.
Qed.

Lemma apply_cb_asks : forall t l cid h l2 evs d, apply_cb t l cid h = (l2, evs, d) -> cb_asks h = true ->
  loop_unwinding l2 = true \/ d = true.
Proof.
  intros t l cid h l2 evs d H Ha. unfold apply_cb in H. unfold cb_asks in Ha.
  destruct (after_cb h) as [[cl se] off]. injection H as <- <- <-.
  destruct se; [left; destruct cl; reflexivity|right; exact Ha].
Qed.

Lemma requested_cancel : forall s, e_cancel s = true -> requested s = true.
Proof. intros s H. unfold requested. rewrite H. reflexivity. Qed.

Theorem io_shutdown_requests : forall i s e s' evs,
  lstep i s (CIo e) = Some (s', evs) -> io_asks e = true -> requested s' = true.
Proof.
  intros i s e s' evs H Ha. unfold lstep in H.
  destruct (get_loop s i) as [l|] eqn:Hl; [|discriminate H].
  destruct (l_pc l) eqn:Epc; try (unfold loop_common in H; rewrite Epc in H; discriminate H).
  destruct e; cbn in Ha; cbv beta iota in H; step_cases H.
  all: try match goal with E : apply_cb _ _ _ _ = _ |- _ => destruct (apply_cb_asks _ _ _ _ _ _ _ E Ha) as [Hu| ->] end.
  all: try (apply requested_cancel; reflexivity).
  all: try (destruct b; [apply requested_cancel; reflexivity|]).
  all: try (eapply requested_by_loop; [exact Hl|exact Hu|reflexivity]).
  all: rewrite Ha; eapply requested_by_loop; [exact Hl| |reflexivity]; reflexivity.
Qed.

Theorem register_shutdown_requests : forall i s k h s' evs l cid o,
  lstep i s (CRun k h) = Some (s', evs) -> get_loop s i = Some l -> nth_error (l_q l) k = Some (TReg cid o) ->
  cb_asks h = true -> requested s' = true.
Proof.
  intros i s k h s' evs l cid o H Hl Hk Ha. unfold lstep in H. rewrite Hl in H.
  destruct (l_pc l) eqn:Epc; try (unfold loop_common in H; rewrite Epc in H; discriminate H).
  cbv beta iota in H. rewrite Hk in H.
  destruct (apply_cb (TL i) (l_set_conns (l_set_q l (remove_nth k (l_q l))) (l_conns (l_set_q l (remove_nth k (l_q l))) ++ [cid])) cid h)
    as [[l2 ev2] d] eqn:E.
  injection H as <- <-.
  destruct (apply_cb_asks _ _ _ _ _ _ _ E Ha) as [Hu| ->].
  - assert (forall s0 o0, requested s0 = true -> requested (signal s0 o0) = true) as Hs by (intros s0 [| |] X; exact X).
    apply Hs. destruct d; cbn [cancel_if]; [apply requested_cancel; reflexivity|].
    eapply requested_by_loop; [exact Hl|exact Hu|reflexivity].
  - assert (forall s0 o0, e_cancel s0 = true -> requested (signal s0 o0) = true) as Hs
      by (intros s0 [| |] X; apply requested_cancel; exact X).
    apply Hs. reflexivity.
Qed.

(* OnTick: the exit task goes to the ticker's loop; it counts as a request as long as that
   loop has not exited (if it has, the engine is already cancelled: see exited_cancelled) *)
Lemma has_shut_enq : forall q, has_shut (q ++ [TShut]) = true.
Proof. intros. rewrite has_shut_app. apply orb_true_r. Qed.

Lemma unwinding_enq : forall l, l_pc l <> LIdle -> l_pc l <> LExited -> loop_unwinding (enq_loop l TShut) = true.
Proof.
  intros l H1 H2. unfold loop_unwinding, enq_loop; cbn. destruct (l_pc l); try congruence. apply has_shut_enq.
Qed.

Lemma existsb_upd_f : forall (f : loop -> bool) g l i x,
  nth_error l i = Some x -> f (g x) = true -> existsb f (upd i g l) = true.
Proof.
  induction l as [|z r IH]; intros [|i] x H Hy; cbn in *; try discriminate.
  - injection H as ->. rewrite Hy. reflexivity.
  - rewrite (IH _ _ H Hy). apply orb_true_r.
Qed.

Theorem tick_shutdown_requests : forall s s' evs, Inv_pc s ->
  tstep s (CTick AShut) = Some (s', evs) ->
  (if c_reactor (e_cfg s) then l_pc (e_ing s) <> LExited
   else exists l, get_loop s 0 = Some l /\ l_pc l <> LExited) ->
  requested s' = true.
Proof.
  intros s s' evs HI H Hne. unfold tstep in H. destruct (e_t s) eqn:Et; try discriminate H.
  injection H as <- <-. cbn [act_shut].
  assert (Hst : e_started s = true).
  { destruct (e_started s) eqn:Es; [reflexivity|]. destruct (ip_unstarted _ HI Es) as [_ [_ [Hx _]]]. congruence. }
  destruct (ip_started _ HI Hst) as [Hl [Hi _]].
  destruct (c_reactor (e_cfg s)) eqn:Ere.
  - unfold requested, trigger_ing; cbn. rewrite (unwinding_enq _ (Hi eq_refl) Hne). rewrite orb_true_r. reflexivity.
  - destruct Hne as [l [Hg Hne]]. unfold requested, trigger; cbn. unfold get_loop in Hg.
    rewrite (existsb_upd_f loop_unwinding _ _ _ _ Hg); [rewrite orb_true_r; reflexivity|].
    apply unwinding_enq; [|exact Hne]. exact (Forall_nth_error _ _ _ _ _ Hl Hg).
Qed.

(* Engine.Stop, gnet.Stop and Client.Stop *)
Theorem stop_requests :
  (forall s g e s' evs, get_user s g = Some UIdle -> stop_entry (phase_s s) = None ->
     estep_opt s (TU g) (CCall (KStop e)) = Some (s', evs) -> requested s' = true) /\
  (forall s g e s' evs, get_user s g = Some UIdle -> e_inall s = true ->
     estep_opt s (TU g) (CCall (KPkgStop true e)) = Some (s', evs) -> requested s' = true) /\
  (forall s s' evs, rstep s CClientStop = Some (s', evs) -> requested s' = true /\ stop_pending s' = true).
Proof.
  splits.
  - intros s g e s' evs Hu Hp H. destruct (stop_starts_shutdown _ _ _ _ _ Hu Hp H) as [Hc _]. apply requested_cancel; exact Hc.
  - intros s g e s' evs Hu Hi H. cbn [estep_opt] in H. unfold ustep in H. rewrite Hu in H. unfold do_call in H.
    rewrite Hi in H. cbn in H. destruct (e_insd s); injection H as <- <-; apply requested_cancel; reflexivity.
  - intros s s' evs H. unfold rstep in H. destruct (e_r s); try discriminate H. destruct (c_client (e_cfg s)); [|discriminate H].
    injection H as <- <-. split; [apply requested_cancel|]; reflexivity.
Qed.

(* ------------------------------------------------------------------ *)
(* the stranded registration (one_result is refuted in its "exactly one" reading) *)

Definition refute_cfg : config := mkCfg false 1 true false 1.

Definition refute_sched : list (tid * choice) :=
  [ (TR, CBoot ANone); (TR, CNone); (TR, CNone);
    (TU 0, CCall (KStop true)); (TU 0, CPollCtx);
    (TR, CNone); (TR, CNone); (TR, CNone);
    (TL 0, CRun 0 h_none); (TL 0, CNone); (TL 0, CNone);
    (TA, CRun 0 h_none); (TA, CNone); (TA, CNone);
    (TR, CNone);
    (* every loop has exited and Wait has returned; inShutdown is not yet set: Register is accepted *)
    (TU 1, CCall (KRegister TgtAddr 0)); (TW 0, CDial true); (TW 0, CTrig false);
    (TR, CNone); (TR, CNone); (TR, CNone) ].

Definition refute_state : estate := fst (run estep (einit refute_cfg 2) refute_sched).

Lemma refute_reachable : ereachable refute_state.
Proof. apply run_reachable. exists refute_cfg, 2%nat. reflexivity. Qed.

(* the state in which a registration can never complete *)
Definition stranded (s : estate) : Prop :=
  e_r s = RReturned /\
  Forall (fun l => l_pc l <> LPoll) (e_loops s) /\
  exists w, nth_error (e_workers s) 0 = Some w /\ w_pc w = WWait /\ w_opened w = false.

Lemma refute_stranded : stranded refute_state /\ returned refute_state = true /\
  e_insd refute_state = true /\ count_results 0 (e_hist refute_state) = 0%Z /\
  In (TU 1, KRes RNil) (e_hist refute_state).
Proof.
  unfold stranded. vm_compute. splits; auto.
  - repeat constructor; discriminate.
  - eexists; splits; reflexivity.
Qed.

Local Arguments nth_error : simpl never.

Lemma stranded_step : forall s t c s' evs, stranded s -> estep_opt s t c = Some (s', evs) -> stranded (push evs s').
Proof.
  intros s t c s' evs [Hr [Hl [w [Hw [Hp Ho]]]]] H. unfold stranded. cbn [push set_hist e_r e_loops e_workers].
  destruct t; cbn in H.
  - unfold rstep in H. rewrite Hr in H. destruct c; discriminate H.
  - unfold lstep in H. destruct (get_loop s i) as [l|] eqn:Hg; [|discriminate H].
    pose proof (Forall_nth_error _ _ _ _ _ Hl Hg) as Hnp.
    destruct (l_pc l) eqn:Epc; try congruence.
    all: destruct (loop_common (TL i) l c) as [[[l' e'] off]|] eqn:E; [|discriminate H].
    all: injection H as <- <-.
    all: unfold loop_common in E; rewrite Epc in E; step_cases E.
    all: try match goal with X : false = ?b |- _ => subst b end; try match goal with X : true = ?b |- _ => subst b end.
    all: cbn [e_r e_loops e_workers set_cancel set_loops]; splits; auto.
    all: try (apply Forall_upd_nth; [exact Hl|]; intros; cbn; rewrite ?Epc; discriminate).
    all: eauto.
  - unfold astep in H. step_cases H; frame_fin; splits; auto; try (eexists; splits; eauto).
    all: try (apply Forall_upd_nth; [exact Hl|]; intros x Hx Hnx; exact Hnx).
    all: try match goal with X : false = ?b |- _ => subst b end; try match goal with X : true = ?b |- _ => subst b end; cbn; splits; auto; eauto.
  - unfold tstep in H. step_cases H; frame_fin; splits; auto; try (eexists; splits; eauto).
    all: try (apply Forall_upd_nth; [exact Hl|]; intros x Hx Hnx; exact Hnx).
  - unfold ustep in H. destruct (get_user s g); [|discriminate].
    destruct u as [|ex pk|op].
    + destruct c; try discriminate H. unfold do_call in H. destruct c; step_cases H; unfold new_worker; frame_fin; splits; auto.
      all: try (apply Forall_upd_nth; [exact Hl|]; intros x Hx Hnx; exact Hnx).
      all: try (eexists; splits; [|exact Hp|exact Ho]; try exact Hw).
      all: try (rewrite nth_error_app1; [exact Hw|apply nth_error_Some; congruence]).
      all: try (destruct (e_workers s); [discriminate Hw|exact Hw]).
    + destruct c; try discriminate H; step_cases H; frame_fin; splits; auto; eauto.
    + step_cases H; frame_fin; splits; auto; eauto.
  - unfold wstep in H. destruct (nth_error (e_workers s) k) as [wk|] eqn:Ek; [|discriminate H].
    destruct (Nat.eqb_spec k 0) as [->|Hk0].
    + rewrite Hw in Ek. injection Ek as <-. rewrite Hp in H. destruct c; try discriminate H. rewrite Ho in H. discriminate H.
    + step_cases H; frame_fin; splits; auto.
      all: try (apply Forall_upd_nth; [exact Hl|]; intros x Hx Hnx; exact Hnx).
      all: eexists; splits; [|exact Hp|exact Ho]; rewrite nth_error_upd_other; auto.
Qed.

(* an accepted Register whose worker never delivers a result, in no continuation *)
Theorem one_result_refuted : exists s, ereachable s /\ returned s = true /\
  In (TU 1, KRes RNil) (e_hist s) /\
  (exists w, nth_error (e_workers s) 0 = Some w) /\
  forall tr s', exec (fun_step estep) s tr s' -> count_results 0 (e_hist s') = 0%Z.
Proof.
  exists refute_state. destruct refute_stranded as [Hst [Hret [_ [_ Hin]]]].
  splits; auto; [apply refute_reachable| |].
  - destruct Hst as [_ [_ [w [Hw _]]]]. eauto.
  - intros tr s' He. pose proof refute_reachable as Hre.
    assert (stranded s' /\ ereachable s') as [[_ [_ [w [Hw [Hp _]]]]] Hr'].
    { clear Hret Hin. induction He as [s|s tr s1 [[t c] o] s2 He IH Hs].
      - split; [exact Hst|exact Hre].
      - specialize (IH Hst Hre). destruct IH as [I1 I2].
        unfold fun_step, estep in Hs; cbn in Hs.
        destruct (estep_opt s1 t c) as [[s3 evs]|] eqn:E; injection Hs as <- _; [|auto].
        split; [eapply stranded_step; eauto|eapply ereachable_step; eauto]. }
    destruct (one_result _ _ _ Hr' Hw) as [A [B C]]. rewrite A.
    destruct B as [B|B]; [exact B|]. apply C in B. congruence.
Qed.

(* ------------------------------------------------------------------ *)
(* what a waiting registration waits for *)

Definition Inv_q (s : estate) : Prop := forall k w,
  nth_error (e_workers s) k = Some w -> w_pc w = WWait -> w_opened w = false ->
  exists l cid, get_loop s (w_loop w) = Some l /\ In (TReg cid (OWorker k)) (l_q l).

(* queues only grow, except for the task a loop runs *)
Definition q_pres (s s' : estate) : Prop := forall li l,
  get_loop s li = Some l -> exists l', get_loop s' li = Some l' /\ forall t, In t (l_q l) -> In t (l_q l').

Lemma q_pres_refl : forall s s', e_loops s' = e_loops s -> q_pres s s'.
Proof. intros s s' E li l H. exists l. unfold get_loop in *. rewrite E. auto. Qed.

Lemma q_pres_upd : forall s s' i f, e_loops s' = upd i f (e_loops s) ->
  (forall l t, In t (l_q l) -> In t (l_q (f l))) -> q_pres s s'.
Proof.
  intros s s' i f E Hf li l H. unfold get_loop in *. rewrite E, nth_error_upd.
  destruct (Nat.eqb i li); rewrite H; cbn; eauto.
Qed.

Lemma q_pres_map : forall s s' f, e_loops s' = map f (e_loops s) ->
  (forall l, l_q (f l) = l_q l) -> q_pres s s'.
Proof.
  intros s s' f E Hf li l H. unfold get_loop in *. rewrite E, nth_error_map, H. cbn.
  eexists; split; [reflexivity|]. intros t Ht. rewrite Hf. exact Ht.
Qed.

(* workers unchanged up to w_opened going true, extended at the end by workers that do not wait *)
Definition w_pres (s s' : estate) : Prop := forall k w',
  nth_error (e_workers s') k = Some w' -> w_pc w' = WWait -> w_opened w' = false ->
  exists w, nth_error (e_workers s) k = Some w /\ w_pc w = WWait /\ w_opened w = false /\ w_loop w = w_loop w'.

Lemma Inv_q_pres : forall s s', Inv_q s -> q_pres s s' -> w_pres s s' -> Inv_q s'.
Proof.
  intros s s' HI Hq Hw k w' Hk Hp Ho.
  destruct (Hw k w' Hk Hp Ho) as [w [H1 [H2 [H3 H4]]]].
  destruct (HI k w H1 H2 H3) as [l [cid [Hl Hin]]]. rewrite H4 in Hl.
  destruct (Hq _ _ Hl) as [l' [Hl' Hsub]]. exists l', cid. auto.
Qed.

Lemma w_pres_same : forall s s', e_workers s' = e_workers s -> w_pres s s'.
Proof. intros s s' E k w' H Hp Ho. rewrite E in H. eauto. Qed.

Lemma w_pres_new : forall s s' w0, e_workers s' = e_workers s ++ [w0] -> w_pc w0 <> WWait -> w_pres s s'.
Proof.
  intros s s' w0 E Hn k w' H Hp Ho. rewrite E in H.
  destruct (Nat.ltb_spec k (List.length (e_workers s))).
  - rewrite nth_error_app1 in H by assumption. eauto.
  - rewrite nth_error_app2 in H by assumption. destruct (k - List.length (e_workers s))%nat as [|m]; cbn in H.
    + injection H as <-. congruence.
    + destruct m; discriminate.
Qed.

Lemma w_pres_signal : forall s s' o, e_workers s' = e_workers (signal s o) -> w_pres s s'.
Proof.
  intros s s' o E k w' H Hp Ho. rewrite E in H. destruct o as [|j|g]; cbn in H; eauto.
  rewrite nth_error_upd in H. destruct (Nat.eqb j k).
  - destruct (nth_error (e_workers s) k); cbn in H; [|discriminate]. injection H as <-. cbn in Ho. discriminate.
  - eauto.
Qed.

Lemma In_remove_nth : forall (q : list task) k t t', nth_error q k = Some t' -> In t q -> t <> t' -> In t (remove_nth k q).
Proof.
  induction q as [|x r IH]; intros [|k] t t' Hn Hi Hne; cbn in *; try discriminate.
  - injection Hn as ->. destruct Hi as [->|Hi]; [congruence|exact Hi].
  - destruct Hi as [->|Hi]; [left; reflexivity|right; eapply IH; eauto].
Qed.

Ltac qw_fin := frame_fin;
  first [ apply q_pres_refl; reflexivity
        | (eapply q_pres_upd; [reflexivity|]; intros; cbn; rewrite ?in_app_iff; auto)
        | (eapply q_pres_map; [reflexivity|]; intros; reflexivity)
        | apply w_pres_same; reflexivity
        | (eapply w_pres_new; [reflexivity|]; discriminate)
        | idtac ].

Lemma Inv_q_init : forall cfg nu, Inv_q (einit cfg nu).
Proof. intros cfg nu k w H. destruct k; discriminate H. Qed.

Lemma Inv_q_step : forall s t c s' evs, Inv_q s -> estep_opt s t c = Some (s', evs) -> Inv_q (push evs s').
Proof.
  intros s t c s' evs HI H.
  assert (G : Inv_q s'); [|exact G].
  destruct t; cbn in H.
  - unfold rstep in H. destruct (e_r s); destruct c; try discriminate H; cbv beta iota in H; step_cases H.
    all: eapply Inv_q_pres; [exact HI| |]; qw_fin.
  - (* a loop: the task it runs may be a registration, whose owner is then signalled *)
    unfold lstep in H. destruct (get_loop s i) as [l|] eqn:Hl; [|discriminate H].
    destruct (l_pc l) eqn:Epc.
    2: destruct c as [| | | | |io|k h| | | | | | |]; try (destruct io).
    all: step_cases H.
    all: try match goal with E : apply_cb _ _ _ _ = _ |- _ => apply apply_cb_spec in E; destruct E as [Eq _]; cbn in Eq end.
    all: try match goal with E : loop_common _ _ _ = Some _ |- _ => unfold loop_common in E; rewrite Epc in E; step_cases E end.
    all: try (eapply Inv_q_pres; [exact HI| |];
              [frame_fin; eapply q_pres_upd; [reflexivity|]; intros lx tx Htx; cbn; rewrite ?Eq; cbn; auto
              |frame_fin; apply w_pres_same; reflexivity]; fail).
    all: try match goal with E : nth_error (l_q l) ?k = Some ?tk |- _ => rename E into Enth end.
    + (* exit task *)
      intros j w Hj Hp Ho. cbn [e_workers set_loops] in Hj.
      destruct (HI j w Hj Hp Ho) as [lw [cid [Hlw Hin]]].
      unfold get_loop in *. cbn [e_loops set_loops]. rewrite nth_error_upd. destruct (Nat.eqb_spec i (w_loop w)) as [->|Hne].
      * rewrite Hl in Hlw. injection Hlw as <-. rewrite Hl. cbn. eexists _, cid. split; [reflexivity|].
        cbn. eapply In_remove_nth; eauto. discriminate.
      * eauto.
    + (* a registration task *)
      intros j w Hj Hp Ho.
      assert (Hw0 : exists w0, nth_error (e_workers s) j = Some w0 /\ w_pc w0 = WWait /\ w_opened w0 = false /\ w_loop w0 = w_loop w /\ o <> OWorker j).
      { destruct o as [|jo|g]; destruct b; cbn [signal cancel_if e_workers set_workers set_users set_cancel set_loops] in Hj;
          try (exists w; splits; auto; discriminate).
        all: rewrite nth_error_upd in Hj; destruct (Nat.eqb_spec jo j) as [->|Hne].
        all: try (destruct (nth_error (e_workers s) j); cbn in Hj; [|discriminate]; injection Hj as <-; cbn in Ho; discriminate).
        all: exists w; splits; auto; congruence. }
      destruct Hw0 as [w0 [Hj0 [Hp0 [Ho0 [Hlo Hno]]]]].
      destruct (HI j w0 Hj0 Hp0 Ho0) as [lw [cidw [Hlw Hin]]]. rewrite Hlo in Hlw.
      assert (Hloops : e_loops (signal (cancel_if b (set_loops s (upd i (fun _ => l0) (e_loops s)))) o) = upd i (fun _ => l0) (e_loops s)).
      { destruct o; destruct b; reflexivity. }
      unfold get_loop in *. rewrite Hloops, nth_error_upd. destruct (Nat.eqb_spec i (w_loop w)) as [Hi|Hne].
      * rewrite <- Hi in Hlw. rewrite Hl in Hlw. injection Hlw as <-. rewrite <- Hi, Hl. cbn. eexists _, cidw. split; [reflexivity|].
        rewrite Eq. cbn. eapply In_remove_nth; eauto. congruence.
      * eauto.
    + (* a runnable *)
      intros j w Hj Hp Ho. cbn [e_workers set_loops] in Hj.
      destruct (HI j w Hj Hp Ho) as [lw [cid [Hlw Hin]]].
      unfold get_loop in *. cbn [e_loops set_loops]. rewrite nth_error_upd. destruct (Nat.eqb_spec i (w_loop w)) as [->|Hne].
      * rewrite Hl in Hlw. injection Hlw as <-. rewrite Hl. cbn. eexists _, cid. split; [reflexivity|].
        cbn. eapply In_remove_nth; eauto. discriminate.
      * eauto.
  - unfold astep in H. step_cases H.
    all: eapply Inv_q_pres; [exact HI| |]; qw_fin.
  - unfold tstep in H. step_cases H.
    all: eapply Inv_q_pres; [exact HI| |]; qw_fin.
  - unfold ustep in H. destruct (get_user s g); [|discriminate].
    destruct u as [|ex pk|op].
    + destruct c; try discriminate H. unfold do_call in H. destruct c; step_cases H; unfold new_worker.
      all: eapply Inv_q_pres; [exact HI| |]; qw_fin.
      all: try (destruct b; qw_fin).
    + destruct c; try discriminate H; step_cases H.
      all: eapply Inv_q_pres; [exact HI| |]; qw_fin.
    + step_cases H. eapply Inv_q_pres; [exact HI| |]; qw_fin.
  - (* a worker *)
    unfold wstep in H. destruct (nth_error (e_workers s) k) as [wk|] eqn:Ek; [|discriminate H].
    step_cases H.
    all: intros j w Hj Hp Ho; cbn [e_workers set_workers set_next trigger set_loops e_loops] in *.
    all: rewrite nth_error_upd in Hj; destruct (Nat.eqb_spec k j) as [Hkj|Hkj];
         [subst j; rewrite Ek in Hj; cbn in Hj; injection Hj as <-; cbn in Hp, Ho; try discriminate Hp|].
    all: try (destruct (HI j w Hj Hp Ho) as [lw [cid [Hlw Hin]]]; unfold get_loop in *; cbn [e_loops set_loops set_workers set_next];
              try (rewrite nth_error_upd; destruct (Nat.eqb (w_loop wk) (w_loop w)); rewrite Hlw; cbn;
                   eexists _, cid; split; [reflexivity|]; cbn; rewrite ?in_app_iff; auto);
              eauto).
    (* the worker that has just triggered its registration *)
    cbn [w_loop]. unfold get_loop in *. cbn [e_loops set_loops set_workers set_next]. rewrite nth_error_upd, Nat.eqb_refl.
    match goal with E : nth_error (e_loops s) (w_loop wk) = Some ?lx |- _ => rewrite E end. cbn.
    eexists _, (e_next s). split; [reflexivity|]. cbn. rewrite in_app_iff. right. left. reflexivity.
Qed.

Theorem inv_q_reachable : forall s, ereachable s -> Inv_q s.
Proof.
  apply engine_invariant; [apply Inv_q_init|]. intros s t c s' evs _ HI H. eapply Inv_q_step; eauto.
Qed.
