LOOP_SWAP = ["eventloop_unix.go", "connection_unix.go", "connection_linux.go", "acceptor_unix.go",
             "listener_unix.go", "pkg/netpoll/poller_epoll_default.go", "pkg/io/io_linux.go",
             "pkg/socket/sock_cloexec.go", "pkg/socket/fd_unix.go"]

PROP = dict(
    drivers=[dict(cmd="drv-loop", family="loop", unix_swap=LOOP_SWAP, shrink=False)],
    rule="WIP",
    trusted=[], assumptions=[],
)
