(* Link between the event-loop model (Model/Loop.v, C01/C02) and the wake-up protocol
   (Model/Wakeup.v, C03).

   Model/Loop.v keeps the wake-up bookkeeping of a poller as the triple (l_urgent, l_low,
   l_flag) and works on it in three COARSE, atomic operations:
     Loop.trigger     (Poller.Trigger called on the loop thread)  enqueue; if the flag is set
                      nothing more, else flag := true and the loop thread writes the eventfd;
     Loop.apply_async (Poller.Trigger called by another goroutine)  enqueue; flag := true; the
                      eventfd write of the other goroutine is invisible to the loop thread;
     end of Loop.chores  flag := false; if a queue is non-empty, flag := true and write.
   Model/Wakeup.v has the FINE-grained protocol: one atomic operation / linearization point /
   system call per step, any number of producers, the eventfd as counter + readiness edge.
   This file shows that every coarse operation is one of the schedules the fine model allows --
   the one in which the thread concerned runs alone -- and transports no_lost_wakeup:

     wrep / wrel          the shared words of a Wakeup state, read through nm, are the triple of
                          an lstate; wrel p: no Trigger call in flight, the loop at point p (idle
                          / about to drain / after the batch), counters = queue lengths
     wrel_init, wrel_intro, counted_reachable   ... the counters come from wake_inv (K)
     trigger_run          a complete Trigger call on any thread, scheduling point by scheduling
                          point (start; [load]; link; count; CAS; [write | EAGAIN, read, write])
     link_async           producer S t' runs Trigger alone = coarse_trigger (Loop.apply_async);
                          it writes the eventfd iff l_flag was false
     link_trigger         the loop thread runs its own Trigger alone = coarse_trigger
                          (Loop.trigger): flag set -> no write, flag clear -> flag := 1, one write
     link_batch_end       store 0; re-check; [CAS; write] = coarse_batch_end (tail of Loop.chores);
                          the loop writes iff a queue is non-empty
     link_wait            idle -> about to drain: epoll_wait reports the eventfd
     link_about_to_block  idle and nothing for epoll_wait to report -> both lists empty and
                          l_flag = false; l_flag = true or a task queued -> the eventfd is reported
                                                      -- instances of no_lost_wakeup / wake_inv (I1)
     loop_trigger_eq, loop_trigger_state, loop_async_state, loop_chores_eq, loop_chores_state,
     efd_write_asyncs, loop_efd_write_ok/_again
                          Loop.trigger, Loop.apply_async and the tail of Loop.chores ARE
                          coarse_trigger / coarse_batch_end (up to requests of other goroutines
                          absorbed while the loop thread is in its eventfd write), and
                          Loop.efd_write issues the system calls the fine model has
     flag_ok_*            the loop model's own "flag clear -> nothing queued"
     batch_end_flag, fine_only_state
                          the converse direction fails, as it must: a foreign Trigger is not
                          atomic, and the fine model reaches idle states (flag set, nothing
                          queued, edge pending) that no sequence of coarse operations produces

   Tasks: nm maps a task of the Wakeup model to the task of the loop model (any map; the
   lemmas hold for every nm).  Nothing about the protocol is re-proved: wake_inv,
   no_lost_wakeup, winv_reachable, resume_frame / resume_shape are used as they are. *)
From Coq Require Import Lia ZArith List Bool Arith ZifyBool.
From GV Require Import Lib.Trace Lib.Interleave Model.Wakeup
  Proofs.WakeupBase Proofs.WakeupInv Proofs.WakeupProofs Proofs.WakeupGhost Proofs.WakeupOnce.
From GV Require Model.Loop Proofs.LoopDataLib.
Import ListNotations.
Open Scope Z_scope.
Open Scope list_scope.

(* ------------------------------------------------------------------ *)
(* 0. one Trigger call, scheduling point by scheduling point            *)

(* what a scheduling point of the Trigger call on thread t leaves alone *)
Record tframe (t : tid) (s s' : wstate) : Prop := mkTF {
  tf_con : con s' = con s;
  tf_env : w_env s' = w_env s;
  tf_oth : forall t', t' <> t -> get_trig (trigs s') t' = get_trig (trigs s) t';
  tf_ovf : g_ovf (w_gh s') = g_ovf (w_gh s);
  tf_flt : g_fault (w_gh s') = g_fault (w_gh s);
  tf_acc : forall i, In i (g_acc (w_gh s)) -> In i (g_acc (w_gh s')) }.

Lemma tframe_refl : forall t s, tframe t s s.
Proof. intros. constructor; auto. Qed.

Lemma tframe_trans : forall t a b c, tframe t a b -> tframe t b c -> tframe t a c.
Proof.
  intros t a b c [A1 A2 A3 A4 A5 A6] [B1 B2 B3 B4 B5 B6]. constructor; try congruence.
  - intros t' Hne. rewrite (B3 t' Hne). apply A3. exact Hne.
  - auto.
Qed.

Lemma gh_link_acc : forall g q x, g_acc (gh_link g q x) = g_acc g.
Proof. intros g [] x; reflexivity. Qed.

Ltac tf_solve :=
  constructor;
  cbn [con w_env trigs w_gh set_trig set_trigs set_sh set_gh g_ovf g_fault g_acc gh_ret gh_ovf];
  rewrite ?gh_link_ovf, ?gh_link_fault, ?gh_link_acc;
  try reflexivity; try (intros; apply get_put_other; congruence); auto.

Lemma ts_len : forall s t x, get_trig (trigs s) t = mkTrig TLen x ->
  exists s1, trig_step s t (CStep []) = (s1, [EvLd t QU (lenU (w_sh s))], false) /\
    get_trig (trigs s1) t = mkTrig (TEnq (if lenU (w_sh s) >=? e_thr (w_env s) then QL else QU)) x /\
    w_sh s1 = w_sh s /\ tframe t s s1.
Proof.
  intros s t x H. eexists. split; [unfold trig_step; rewrite H; reflexivity|].
  splits; [apply get_put_same|reflexivity|tf_solve].
Qed.

Lemma ts_enq : forall s t q x, get_trig (trigs s) t = mkTrig (TEnq q) x ->
  exists s1, trig_step s t (CStep []) = (s1, [EvLink t q (tk_id x)], false) /\
    get_trig (trigs s1) t = mkTrig (TCnt q) x /\
    w_sh s1 = sh_items (w_sh s) q (items q (w_sh s) ++ [x]) /\ tframe t s s1.
Proof.
  intros s t q x H. eexists. split; [unfold trig_step; rewrite H; reflexivity|].
  splits; [apply get_put_same|reflexivity|tf_solve].
Qed.

Lemma ts_cnt : forall s t q x, get_trig (trigs s) t = mkTrig (TCnt q) x ->
  in_i32 (qlen q (w_sh s) + 1) = true ->
  exists s1, trig_step s t (CStep []) = (s1, [EvAdd t q 1 (qlen q (w_sh s) + 1)], false) /\
    get_trig (trigs s1) t = mkTrig TCas x /\
    w_sh s1 = sh_qlen (w_sh s) q (qlen q (w_sh s) + 1) /\ tframe t s s1.
Proof.
  intros s t q x H Hb. eexists.
  split; [unfold trig_step; rewrite H; cbn [t_pc t_task]; unfold add_len; rewrite (wrap32_small _ Hb); reflexivity|].
  splits; [apply get_put_same|reflexivity|].
  constructor; cbn [con w_env trigs w_gh set_trig set_trigs set_sh set_gh g_ovf g_fault g_acc gh_ovf];
    try reflexivity; try (intros; apply get_put_other; congruence); auto.
  rewrite Hb. apply orb_false_r.
Qed.

Lemma ts_cas_win : forall s t x, get_trig (trigs s) t = mkTrig TCas x -> flag (w_sh s) = 0 ->
  exists s1, trig_step s t (CStep []) = (s1, [EvCas t true], false) /\
    get_trig (trigs s1) t = mkTrig TWr x /\
    w_sh s1 = sh_flag (w_sh s) 1 /\ tframe t s s1.
Proof.
  intros s t x H F. eexists. split; [unfold trig_step; rewrite H; cbn [t_pc t_task]; rewrite F; reflexivity|].
  splits; [apply get_put_same|reflexivity|tf_solve].
Qed.

Lemma ts_cas_lose : forall s t x, get_trig (trigs s) t = mkTrig TCas x -> flag (w_sh s) = 1 ->
  exists s1, trig_step s t (CStep []) = (s1, [EvCas t false; EvRet t true], true) /\
    get_trig (trigs s1) t = idle_trig /\
    w_sh s1 = w_sh s /\ tframe t s s1 /\ In (tk_id x) (g_acc (w_gh s1)).
Proof.
  intros s t x H F. eexists.
  split; [unfold trig_step, ret_trig; rewrite H; cbn [t_pc t_task]; rewrite F; reflexivity|].
  splits; [apply get_put_same|reflexivity|tf_solve|].
  - intros i Hi. apply in_or_app. left. exact Hi.
  - cbn. apply in_or_app. right. left. reflexivity.
Qed.

Lemma ts_wr_ok : forall s t x, get_trig (trigs s) t = mkTrig TWr x ->
  (efd_cnt (w_sh s) + 1 >? efd_max) = false ->
  exists s1, trig_step s t (CStep []) = (s1, [EvWrite t WOk; EvRet t true], true) /\
    get_trig (trigs s1) t = idle_trig /\
    w_sh s1 = sh_efd (w_sh s) (efd_cnt (w_sh s) + 1) true /\ tframe t s s1 /\ In (tk_id x) (g_acc (w_gh s1)).
Proof.
  intros s t x H F. eexists.
  split; [unfold trig_step, ret_trig, efd_write; rewrite H; cbn [t_pc t_task]; rewrite F; reflexivity|].
  splits; [apply get_put_same|reflexivity|tf_solve|].
  - intros i Hi. apply in_or_app. left. exact Hi.
  - cbn [w_gh set_trig set_trigs set_gh set_sh trigs g_acc gh_ret]. rewrite H.
    apply in_or_app. right. left. reflexivity.
Qed.

Lemma ts_wr_again : forall s t x, get_trig (trigs s) t = mkTrig TWr x ->
  (efd_cnt (w_sh s) + 1 >? efd_max) = true ->
  exists s1, trig_step s t (CStep []) = (s1, [EvWrite t WAgain], false) /\
    get_trig (trigs s1) t = mkTrig TRd x /\
    w_sh s1 = w_sh s /\ tframe t s s1.
Proof.
  intros s t x H F. eexists.
  split; [unfold trig_step, efd_write; rewrite H; cbn [t_pc t_task]; rewrite F; reflexivity|].
  splits; [apply get_put_same|reflexivity|tf_solve].
Qed.

Lemma ts_rd : forall s t x, get_trig (trigs s) t = mkTrig TRd x ->
  (efd_cnt (w_sh s) =? 0) = false ->
  exists s1, trig_step s t (CStep []) = (s1, [EvRead t (efd_cnt (w_sh s))], false) /\
    get_trig (trigs s1) t = mkTrig TWr x /\
    w_sh s1 = sh_efd (w_sh s) 0 (edge (w_sh s)) /\ tframe t s s1.
Proof.
  intros s t x H F. eexists.
  split; [unfold trig_step, efd_read; rewrite H; cbn [t_pc t_task]; rewrite F; reflexivity|].
  splits; [apply get_put_same|reflexivity|tf_solve].
Qed.

(* non-returning scheduling points of the Trigger call on thread t, in sequence *)
Inductive trun (t : tid) : wstate -> list wobs -> wstate -> Prop :=
| tr_nil : forall s, trun t s [] s
| tr_cons : forall s o s1 os s2,
    trig_step s t (CStep []) = (s1, o, false) -> trun t s1 os s2 -> trun t s (o :: os) s2.

Lemma trun_app : forall t a os1 b os2 c, trun t a os1 b -> trun t b os2 c -> trun t a (os1 ++ os2) c.
Proof.
  intros t a os1 b os2 c H1 H2. induction H1; [exact H2|].
  cbn [app]. eapply tr_cons; [eassumption|]. apply IHtrun. exact H2.
Qed.

(* the eventfd writes among the observations: who, with which result *)
Definition writes (o : wobs) : list (tid * wres) :=
  flat_map (fun e => match e with EvWrite t r => [(t, r)] | _ => [] end) o.

Lemma writes_app : forall a b, writes (a ++ b) = writes a ++ writes b.
Proof. intros. unfold writes. apply flat_map_app. Qed.

(* a Trigger call that finds the flag clear writes the eventfd, successfully, once (after one
   EAGAIN and a read when the counter is at its maximum); one that finds it set does not write *)
Definition expected_writes (t : tid) (x : shared) : list (tid * wres) :=
  if flag x =? 0 then (if efd_cnt x + 1 >? efd_max then [(t, WAgain); (t, WOk)] else [(t, WOk)]) else [].

(* the length counters agree with the contents: nobody between link and count, the loop
   not between unlink and decount *)
Definition counted (s : wstate) : Prop :=
  lenU (w_sh s) = zlen (itemsU (w_sh s)) /\ lenL (w_sh s) = zlen (itemsL (w_sh s)).

Definition oq (q : qid) : qid := match q with QU => QL | QL => QU end.

(* the queue Trigger chooses *)
Definition chosen (s : wstate) (sp : tspec) : qid :=
  if sp_high sp then QU else if lenU (w_sh s) >=? e_thr (w_env s) then QL else QU.

Ltac shq :=
  cbn [items qlen oq itemsU itemsL lenU lenL flag efd_cnt edge sh_items sh_qlen sh_flag sh_efd].

(* a complete Trigger call on thread t, no other thread taking a step in between *)
Lemma trigger_run : forall s t x,
  get_trig (trigs s) t = mkTrig (pc0 (tk_spec x)) x ->
  counted s -> (flag (w_sh s) = 0 \/ flag (w_sh s) = 1) -> 0 <= efd_cnt (w_sh s) ->
  zlen (itemsU (w_sh s)) < 2147483647 -> zlen (itemsL (w_sh s)) < 2147483647 ->
  let q := chosen s (tk_spec x) in
  exists os s0 o s1,
    trun t s os s0 /\ trig_step s0 t (CStep []) = (s1, o, true) /\
    tframe t s s1 /\ get_trig (trigs s1) t = idle_trig /\ In (tk_id x) (g_acc (w_gh s1)) /\
    items q (w_sh s1) = items q (w_sh s) ++ [x] /\ qlen q (w_sh s1) = qlen q (w_sh s) + 1 /\
    items (oq q) (w_sh s1) = items (oq q) (w_sh s) /\ qlen (oq q) (w_sh s1) = qlen (oq q) (w_sh s) /\
    flag (w_sh s1) = 1 /\
    (flag (w_sh s) = 1 -> efd_cnt (w_sh s1) = efd_cnt (w_sh s) /\ edge (w_sh s1) = edge (w_sh s)) /\
    (flag (w_sh s) = 0 -> eff_edge (w_sh s1) = true) /\ 0 <= efd_cnt (w_sh s1) /\
    writes (List.concat (os ++ [o])) = expected_writes t (w_sh s).
Proof.
  intros s t x H [CU CL] F Hc BU BL q.
  assert (A : exists osa sa, trun t s osa sa /\ get_trig (trigs sa) t = mkTrig (TEnq q) x /\
                w_sh sa = w_sh s /\ tframe t s sa /\ writes (List.concat osa) = []).
  { unfold q, chosen. unfold pc0 in H. destruct (sp_high (tk_spec x)).
    - exists [], s. splits; [apply tr_nil|exact H|reflexivity|apply tframe_refl|reflexivity].
    - destruct (ts_len s t x H) as (s1 & E & G & W & T). exists [[EvLd t QU (lenU (w_sh s))]], s1.
      splits; [eapply tr_cons; [exact E|apply tr_nil]|exact G|exact W|exact T|reflexivity]. }
  clearbody q.
  destruct A as (osa & sa & Ra & Ga & Wa & Ta & Oa).
  destruct (ts_enq sa t q x Ga) as (sb & Eb & Gb & Wb & Tb).
  assert (Hb : in_i32 (qlen q (w_sh sb) + 1) = true).
  { rewrite Wb, Wa. unfold in_i32. unfold zlen in *. destruct q; shq; lia. }
  destruct (ts_cnt sb t q x Gb Hb) as (sc & Ec & Gc & Wc & Tc).
  assert (Fc : flag (w_sh sc) = flag (w_sh s)) by (rewrite Wc, Wb, Wa; destruct q; reflexivity).
  assert (Cc : efd_cnt (w_sh sc) = efd_cnt (w_sh s)) by (rewrite Wc, Wb, Wa; destruct q; reflexivity).
  destruct F as [F|F].
  - (* the flag is clear: the CAS wins *)
    destruct (ts_cas_win sc t x Gc (eq_trans Fc F)) as (sd & Ed & Gd & Wd & Td).
    destruct (efd_cnt (w_sh s) + 1 >? efd_max) eqn:Full.
    + (* counter at its maximum: EAGAIN, read, write *)
      assert (Fd : (efd_cnt (w_sh sd) + 1 >? efd_max) = true).
      { rewrite Wd. cbn [efd_cnt sh_flag]. rewrite Cc. exact Full. }
      destruct (ts_wr_again sd t x Gd Fd) as (se & Ee & Ge & We & Te).
      assert (Ne : (efd_cnt (w_sh se) =? 0) = false).
      { rewrite We, Wd. cbn [efd_cnt sh_flag]. rewrite Cc. unfold efd_max in Full. lia. }
      destruct (ts_rd se t x Ge Ne) as (sf & Ef & Gf & Wf & Tf).
      assert (Ff : (efd_cnt (w_sh sf) + 1 >? efd_max) = false).
      { rewrite Wf. cbn [efd_cnt sh_efd]. reflexivity. }
      destruct (ts_wr_ok sf t x Gf Ff) as (s1 & E1 & G1 & W1 & T1 & A1).
      eexists _, sf, _, s1. split.
      { eapply trun_app; [exact Ra|].
        eapply tr_cons; [exact Eb|]. eapply tr_cons; [exact Ec|]. eapply tr_cons; [exact Ed|].
        eapply tr_cons; [exact Ee|]. eapply tr_cons; [exact Ef|]. apply tr_nil. }
      split; [exact E1|].
      split; [repeat (eapply tframe_trans; [eassumption|]); apply tframe_refl|].
      split; [exact G1|]. split; [exact A1|].
      rewrite W1, Wf, We, Wd, Wc, Wb, Wa.
      splits; try (destruct q; shq; reflexivity).
      * intro X. rewrite X in F. discriminate.
      * destruct q; shq; lia.
      * rewrite !concat_app, !writes_app, Oa. unfold expected_writes. rewrite F, Full. reflexivity.
    + (* the usual case: one write *)
      assert (Fd : (efd_cnt (w_sh sd) + 1 >? efd_max) = false).
      { rewrite Wd. cbn [efd_cnt sh_flag]. rewrite Cc. exact Full. }
      destruct (ts_wr_ok sd t x Gd Fd) as (s1 & E1 & G1 & W1 & T1 & A1).
      eexists _, sd, _, s1. split.
      { eapply trun_app; [exact Ra|].
        eapply tr_cons; [exact Eb|]. eapply tr_cons; [exact Ec|]. eapply tr_cons; [exact Ed|]. apply tr_nil. }
      split; [exact E1|].
      split; [repeat (eapply tframe_trans; [eassumption|]); apply tframe_refl|].
      split; [exact G1|]. split; [exact A1|].
      rewrite W1, Wd, Wc, Wb, Wa.
      splits; try (destruct q; shq; reflexivity).
      * intro X. rewrite X in F. discriminate.
      * intros _. unfold eff_edge. destruct q; shq; cbn [andb]; lia.
      * destruct q; shq; lia.
      * rewrite !concat_app, !writes_app, Oa. unfold expected_writes. rewrite F, Full. reflexivity.
  - (* the flag is set: the CAS fails, Trigger returns *)
    destruct (ts_cas_lose sc t x Gc (eq_trans Fc F)) as (s1 & E1 & G1 & W1 & T1 & A1).
    eexists _, sc, _, s1. split.
    { eapply trun_app; [exact Ra|].
      eapply tr_cons; [exact Eb|]. eapply tr_cons; [exact Ec|]. apply tr_nil. }
    split; [exact E1|].
    split; [repeat (eapply tframe_trans; [eassumption|]); apply tframe_refl|].
    split; [exact G1|]. split; [exact A1|].
    rewrite W1, Wc, Wb, Wa.
    splits; try (destruct q; shq; reflexivity).
    * destruct q; shq; exact F.
    * intros _. destruct q; split; reflexivity.
    * intro X. rewrite X in F. discriminate.
    * destruct q; shq; exact Hc.
    * rewrite !concat_app, !writes_app, Oa. unfold expected_writes. rewrite F. reflexivity.
Qed.

(* ------------------------------------------------------------------ *)
(* 1. schedules of the transition system in which one thread runs alone  *)

Inductive texec (t : tid) : wstate -> list wobs -> wstate -> Prop :=
| te_nil : forall s, texec t s [] s
| te_cons : forall s o s1 os s2,
    wstep s t (CStep []) = (s1, o) -> texec t s1 os s2 -> texec t s (o :: os) s2.

Lemma texec_app : forall t a os1 b os2 c, texec t a os1 b -> texec t b os2 c -> texec t a (os1 ++ os2) c.
Proof.
  intros t a os1 b os2 c H1 H2. induction H1; [exact H2|].
  cbn [app]. eapply te_cons; [eassumption|]. apply IHtexec. exact H2.
Qed.

Lemma texec_one : forall t s s1 o, wstep s t (CStep []) = (s1, o) -> texec t s [o] s1.
Proof. intros. eapply te_cons; [eassumption|apply te_nil]. Qed.

(* the scheduler's choices: thread t takes one step; producer t calls Trigger *)
Definition stp (t : tid) : tid * choice := (t, CStep []).
Definition start (t : tid) (sp : tspec) : tid * choice := (t, CStart sp).

Lemma run_cons : forall s a r s1 o, wk_fstep s a = (s1, o) ->
  run wk_fstep s (a :: r) = (fst (run wk_fstep s1 r), o :: snd (run wk_fstep s1 r)).
Proof.
  intros s a r s1 o H.
  change (run wk_fstep s (a :: r)) with
    (let '(s1, o) := wk_fstep s a in let '(s2, os) := run wk_fstep s1 r in (s2, o :: os)).
  rewrite H. destruct (run wk_fstep s1 r). reflexivity.
Qed.

(* ... as a run of the step function: n consecutive choices (t, CStep []) *)
Lemma texec_run : forall t s os s', texec t s os s' ->
  run wk_fstep s (repeat (stp t) (List.length os)) = (s', os).
Proof.
  intros t s os s' H. induction H; [reflexivity|].
  cbn [List.length repeat]. rewrite (run_cons s (stp t) _ s1 o H), IHtexec. reflexivity.
Qed.

Lemma run_wk_reachable : forall s sched, wk_reachable s -> wk_reachable (fst (run wk_fstep s sched)).
Proof.
  intros s sched R. unfold wk_reachable in *.
  eapply reachable_exec_closed; [exact R|].
  exact (run_exec wstate (tid * choice) wobs wk_fstep sched s).
Qed.

Lemma trun_producer : forall t' s os s0, trun (S t') s os s0 -> texec (S t') s os s0.
Proof.
  intros t' s os s0 H. induction H; [apply te_nil|].
  eapply te_cons; [|exact IHtrun]. unfold wstep. rewrite H. reflexivity.
Qed.

Lemma trig_step_con : forall s t c s1 o d, trig_step s t c = (s1, o, d) -> con s1 = con s.
Proof.
  intros s t c s1 o d H. unfold trig_step in H.
  destruct (get_trig (trigs s) t) as [p x]. cbn [t_pc t_task] in H.
  destruct p as [| |q|q| | |]; destruct c as [order| | |sp|v|k sc|k l]; try (inv H; reflexivity).
  all: try (unfold add_len in H; inv H; reflexivity).
  all: try (destruct (flag (w_sh s) =? 0); inv H; reflexivity).
  all: try (destruct (efd_write (w_sh s)) as [x1 []]; inv H; reflexivity).
  all: try (destruct (efd_read (w_sh s)) as [x1 v]; inv H; reflexivity).
Qed.

(* the loop thread inside a Trigger call it makes itself (from a task or an I/O callback) *)
Lemma trun_loop : forall s os s0, trun O s os s0 -> c_pc (con s) = CTrig ->
  texec O s os s0 /\ con s0 = con s.
Proof.
  intros s os s0 H. induction H; intro Hpc; [split; [apply te_nil|reflexivity]|].
  pose proof (trig_step_con _ _ _ _ _ _ H) as Ec.
  destruct IHtrun as [IH1 IH2]; [rewrite Ec; exact Hpc|].
  split; [|congruence]. eapply te_cons; [|exact IH1].
  unfold wstep, cons_step. rewrite Hpc, H. reflexivity.
Qed.

Lemma loop_trig_return : forall s s1 o, c_pc (con s) = CTrig -> trig_step s O (CStep []) = (s1, o, true) ->
  wstep s O (CStep []) = (fst (resume s1), o ++ snd (resume s1)).
Proof. intros s s1 o H H0. unfold wstep, cons_step. rewrite H, H0. destruct (resume s1); reflexivity. Qed.

(* what the loop does after its own Trigger returned (the rest of the body, the next
   callback, ... up to its next scheduling point) writes no eventfd and touches no shared word *)
Lemma run_evs_writes : forall evs s, writes (snd (run_evs evs s)) = [].
Proof.
  induction evs as [|e r IH]; intro s.
  - cbn [run_evs]. destruct (c_chores (c_set_evs (con s) [])); reflexivity.
  - destruct e as [|k sc]; cbn [run_evs]; [apply IH|].
    destruct (lookup_script (scripts (w_env s)) sc) as [|sp todo].
    + specialize (IH s). destruct (run_evs r s) as [s1 o]. exact IH.
    + reflexivity.
Qed.

Lemma resume_writes : forall s, writes (snd (resume s)) = [].
Proof.
  intro s. unfold resume. destruct (c_todo (con s)); [|reflexivity].
  destruct (c_phase (con s)); [apply run_evs_writes|reflexivity|].
  destruct (c_low (con s) <? e_max (w_env s)); reflexivity.
Qed.

Lemma resume_link : forall s, loop_idle s -> (c_chores (con s) = true -> c_phase (con s) = PhEvents) ->
  let s' := fst (resume s) in
  w_sh s' = w_sh s /\ w_env s' = w_env s /\
  g_ovf (w_gh s') = g_ovf (w_gh s) /\ g_fault (w_gh s') = g_fault (w_gh s) /\
  g_acc (w_gh s') = g_acc (w_gh s) /\
  (forall t', get_trig (trigs s') (S t') = get_trig (trigs s) (S t')) /\
  (t_pc (get_trig (trigs s') O) = TIdle \/ exists x', get_trig (trigs s') O = mkTrig (pc0 (tk_spec x')) x').
Proof.
  intros s Hi Hc s'.
  destruct (resume_frame s Hi Hc) as (_ & A & B & C & D & _).
  fold s' in A, B, C, D.
  pose proof (resume_shape s) as Sh. fold s' in Sh.
  splits; try assumption.
  - destruct Sh as [G _ _ _|sp G _ _ _]; rewrite G; reflexivity.
  - intro t'. destruct Sh as [_ T _ _|sp _ T _ _]; rewrite T; [reflexivity|].
    apply get_put_other. discriminate.
  - destruct Sh as [_ T _ _|sp _ T _ _]; rewrite T.
    + left. exact Hi.
    + right. exists (mkTask (g_next (w_gh s)) O sp). rewrite get_put_same. reflexivity.
Qed.

(* ------------------------------------------------------------------ *)
(* 2. the coarse operations of the loop model on (l_urgent, l_low, l_flag) *)

Definition b2z (b : bool) : Z := if b then 1 else 0.

(* Poller.Trigger as the loop model performs it, in one piece: enqueue; wakeupCall := 1.
   [Loop.trigger] (a call on the loop thread) and every [Loop.apply_async] (a call on another
   goroutine) have this effect on the queues and the flag: section 9 *)
Definition coarse_trigger (st : Loop.lstate) (is_low : bool) (t : Loop.task) : Loop.lstate :=
  Loop.set_flag (Loop.enqueue st is_low t) true.

Definition queues_empty (st : Loop.lstate) : bool :=
  match Loop.l_urgent st, Loop.l_low st with [], [] => true | _, _ => false end.

(* the end of [Loop.chores]: wakeupCall := 0; re-check; wakeupCall := 1 if something is queued *)
Definition coarse_batch_end (st : Loop.lstate) : Loop.lstate :=
  Loop.set_flag st (negb (queues_empty st)).

Section WakeupLink.
Variable nm : task -> Loop.task.

(* the shared words of the protocol, read as the triple of the loop model *)
Definition wrep (s : wstate) (st : Loop.lstate) : Prop :=
  map nm (itemsU (w_sh s)) = Loop.l_urgent st /\
  map nm (itemsL (w_sh s)) = Loop.l_low st /\
  flag (w_sh s) = b2z (Loop.l_flag st) /\
  e_thr (w_env s) = Loop.l_thr st.

Lemma wrep_lens : forall s st, wrep s st ->
  zlen (itemsU (w_sh s)) = Loop.zlen (Loop.l_urgent st) /\ zlen (itemsL (w_sh s)) = Loop.zlen (Loop.l_low st).
Proof.
  intros s st (RU & RL & _). rewrite <- RU, <- RL. unfold zlen, Loop.zlen. rewrite !map_length. auto.
Qed.

Lemma wrep_flag01 : forall s st, wrep s st -> flag (w_sh s) = 0 \/ flag (w_sh s) = 1.
Proof. intros s st (_ & _ & RF & _). rewrite RF. destruct (Loop.l_flag st); auto. Qed.

(* the effect of a complete Trigger call is the coarse operation *)
Lemma wrep_trigger : forall s st s1 x,
  wrep s st -> counted s ->
  items (chosen s (tk_spec x)) (w_sh s1) = items (chosen s (tk_spec x)) (w_sh s) ++ [x] ->
  qlen (chosen s (tk_spec x)) (w_sh s1) = qlen (chosen s (tk_spec x)) (w_sh s) + 1 ->
  items (oq (chosen s (tk_spec x))) (w_sh s1) = items (oq (chosen s (tk_spec x))) (w_sh s) ->
  qlen (oq (chosen s (tk_spec x))) (w_sh s1) = qlen (oq (chosen s (tk_spec x))) (w_sh s) ->
  flag (w_sh s1) = 1 -> w_env s1 = w_env s ->
  wrep s1 (coarse_trigger st (negb (sp_high (tk_spec x))) (nm x)) /\ counted s1.
Proof.
  intros s st s1 x Rp (CU & CL) I1 L1 I2 L2 F1 E1.
  destruct (wrep_lens s st Rp) as (ZU & ZL). destruct Rp as (RU & RL & RF & RT).
  unfold coarse_trigger, Loop.enqueue. rewrite <- ZU, <- CU, <- RT.
  unfold chosen in *. destruct (sp_high (tk_spec x)); cbn [negb andb].
  - cbn [items qlen oq] in *. split.
    + unfold wrep. cbn [Loop.set_flag Loop.set_queues Loop.l_urgent Loop.l_low Loop.l_flag Loop.l_thr b2z].
      rewrite I1, I2, map_app, RU, RL, F1, E1, RT. auto.
    + unfold counted. rewrite L1, I1, L2, I2, zlen_app1, CU, CL. auto.
  - destruct (lenU (w_sh s) >=? e_thr (w_env s)); cbn [items qlen oq] in *; split.
    + unfold wrep. cbn [Loop.set_flag Loop.set_queues Loop.l_urgent Loop.l_low Loop.l_flag Loop.l_thr b2z].
      rewrite I1, I2, map_app, RU, RL, F1, E1, RT. auto.
    + unfold counted. rewrite L1, I1, L2, I2, zlen_app1, CU, CL. auto.
    + unfold wrep. cbn [Loop.set_flag Loop.set_queues Loop.l_urgent Loop.l_low Loop.l_flag Loop.l_thr b2z].
      rewrite I1, I2, map_app, RU, RL, F1, E1, RT. auto.
    + unfold counted. rewrite L1, I1, L2, I2, zlen_app1, CU, CL. auto.
Qed.

(* ------------------------------------------------------------------ *)
(* 3. a request of another goroutine: [Loop.apply_async]                  *)

(* Producer S t', idle, calls Trigger and runs it to completion before anybody else takes a
   step: the schedule start; [load of urgent.length]; link; count; CAS; [write | write(EAGAIN);
   read; write].  The loop may be anywhere (the counters must agree with the queues: it is
   not between an unlink and its decount).  Afterwards the shared words represent
   [coarse_trigger]; the eventfd was written iff the loop model's flag was clear -- the write
   the loop model does not see -- and then epoll_wait will report it. *)
Lemma link_async : forall s st t' sp,
  wk_reachable s -> sane s -> counted s -> wrep s st ->
  t_pc (get_trig (trigs s) (S t')) = TIdle ->
  Loop.zlen (Loop.l_urgent st) < 2147483647 -> Loop.zlen (Loop.l_low st) < 2147483647 ->
  exists n, let r := run wk_fstep s (start (S t') sp :: repeat (stp (S t')) n) in
    wk_reachable (fst r) /\ sane (fst r) /\ counted (fst r) /\
    wrep (fst r) (coarse_trigger st (negb (sp_high sp)) (nm (mkTask (g_next (w_gh s)) (S t') sp))) /\
    con (fst r) = con s /\ w_env (fst r) = w_env s /\
    (forall u, u <> S t' -> get_trig (trigs (fst r)) u = get_trig (trigs s) u) /\
    get_trig (trigs (fst r)) (S t') = idle_trig /\
    In (g_next (w_gh s)) (g_acc (w_gh (fst r))) /\
    writes (List.concat (snd r)) =
      (if Loop.l_flag st then []
       else if efd_cnt (w_sh s) + 1 >? efd_max then [(S t', WAgain); (S t', WOk)] else [(S t', WOk)]) /\
    (Loop.l_flag st = false -> eff_edge (w_sh (fst r)) = true) /\
    (Loop.l_flag st = true ->
       efd_cnt (w_sh (fst r)) = efd_cnt (w_sh s) /\ edge (w_sh (fst r)) = edge (w_sh s)).
Proof.
  intros s st t' sp R Sn Cn Rp Hid BU BL.
  destruct (winv_reachable s R Sn) as (Hc & _ & _). unfold cnt_ok in Hc.
  destruct (wrep_lens s st Rp) as (ZU & ZL).
  pose proof (wrep_flag01 s st Rp) as F01.
  set (x := mkTask (g_next (w_gh s)) (S t') sp).
  set (s0 := fst (start_trig s (S t') sp)).
  assert (E0 : wstep s (S t') (CStart sp) = (s0, [EvBegin (S t') (g_next (w_gh s))])).
  { unfold wstep. rewrite Hid. reflexivity. }
  assert (G0 : get_trig (trigs s0) (S t') = mkTrig (pc0 (tk_spec x)) x).
  { unfold s0, start_trig. cbn [fst trigs set_trig set_trigs set_gh]. rewrite get_put_same. reflexivity. }
  destruct (trigger_run s0 (S t') x G0 Cn F01 Hc)
    as (os & sA & o & s1 & Tr & Fin & TF & Gi & Acc & I1 & L1 & I2 & L2 & F1 & Funch & Fedge & C1 & Wr).
  { change (w_sh s0) with (w_sh s). lia. }
  { change (w_sh s0) with (w_sh s). lia. }
  change (chosen s0 (tk_spec x)) with (chosen s (tk_spec x)) in *.
  change (w_sh s0) with (w_sh s) in *.
  assert (TX : texec (S t') s0 (os ++ [o]) s1).
  { eapply texec_app; [apply trun_producer; exact Tr|]. apply texec_one.
    unfold wstep. rewrite Fin. reflexivity. }
  exists (List.length (os ++ [o])).
  assert (Er : run wk_fstep s (start (S t') sp :: repeat (stp (S t')) (List.length (os ++ [o]))) =
               (s1, [EvBegin (S t') (g_next (w_gh s))] :: os ++ [o])).
  { rewrite (run_cons s (start (S t') sp) _ _ _ E0), (texec_run _ _ _ _ TX). reflexivity. }
  pose proof (run_wk_reachable s (start (S t') sp :: repeat (stp (S t')) (List.length (os ++ [o]))) R) as R1.
  cbv zeta. rewrite Er in *. cbn [fst snd] in *.
  destruct TF as [T1 T2 T3 T4 T5 T6].
  destruct (wrep_trigger s st s1 x Rp Cn I1 L1 I2 L2 F1 T2) as (Rp1 & Cn1).
  destruct Rp as (RU & RL & RF & RT).
  splits.
  - exact R1.
  - destruct Sn as [So Sf]. split; [rewrite T4|rewrite T5]; assumption.
  - exact Cn1.
  - exact Rp1.
  - exact T1.
  - exact T2.
  - intros u Hu. rewrite (T3 u Hu). unfold s0, start_trig. cbn [fst trigs set_trig set_trigs set_gh].
    apply get_put_other. congruence.
  - exact Gi.
  - exact Acc.
  - cbn [List.concat]. rewrite writes_app, Wr. unfold expected_writes. rewrite RF.
    destruct (Loop.l_flag st); reflexivity.
  - intro X. apply Fedge. rewrite RF, X. reflexivity.
  - intro X. apply Funch. rewrite RF, X. reflexivity.
Qed.

Lemma wrep_ext : forall s s' st, w_sh s' = w_sh s -> w_env s' = w_env s -> wrep s st -> wrep s' st.
Proof. intros s s' st A B H. unfold wrep in *. rewrite A, B. exact H. Qed.

Lemma counted_ext : forall s s', w_sh s' = w_sh s -> counted s -> counted s'.
Proof. intros s s' A H. unfold counted in *. rewrite A. exact H. Qed.

Lemma concat_snoc : forall (A : Type) (l : list (list A)) a, List.concat (l ++ [a]) = List.concat l ++ a.
Proof. intros. rewrite concat_app. cbn [List.concat]. rewrite app_nil_r. reflexivity. Qed.

(* ------------------------------------------------------------------ *)
(* 4. Trigger on the loop thread: [Loop.trigger]                          *)

(* The loop is inside a Trigger call it makes itself (c_pc = CTrig: from a task body or an
   I/O callback; slot 0 holds the call, at its first scheduling point) and runs it to
   completion, nobody else taking a step.  Both branches of [Loop.trigger]: flag set -- no
   eventfd write; flag clear -- flag := 1 and the loop thread writes the eventfd. *)
Lemma link_trigger : forall s st x,
  wk_reachable s -> sane s -> counted s -> wrep s st ->
  c_pc (con s) = CTrig -> get_trig (trigs s) O = mkTrig (pc0 (tk_spec x)) x ->
  Loop.zlen (Loop.l_urgent st) < 2147483647 -> Loop.zlen (Loop.l_low st) < 2147483647 ->
  exists n, let r := run wk_fstep s (repeat (stp O) n) in
    wk_reachable (fst r) /\ sane (fst r) /\ counted (fst r) /\
    wrep (fst r) (coarse_trigger st (negb (sp_high (tk_spec x))) (nm x)) /\
    w_env (fst r) = w_env s /\
    (forall t', get_trig (trigs (fst r)) (S t') = get_trig (trigs s) (S t')) /\
    (t_pc (get_trig (trigs (fst r)) O) = TIdle \/
     exists x', get_trig (trigs (fst r)) O = mkTrig (pc0 (tk_spec x')) x') /\
    In (tk_id x) (g_acc (w_gh (fst r))) /\
    writes (List.concat (snd r)) =
      (if Loop.l_flag st then []
       else if efd_cnt (w_sh s) + 1 >? efd_max then [(O, WAgain); (O, WOk)] else [(O, WOk)]) /\
    (Loop.l_flag st = false -> eff_edge (w_sh (fst r)) = true) /\
    (Loop.l_flag st = true ->
       efd_cnt (w_sh (fst r)) = efd_cnt (w_sh s) /\ edge (w_sh (fst r)) = edge (w_sh s)).
Proof.
  intros s st x R Sn Cn Rp Hpc G0 BU BL.
  destruct (winv_reachable s R Sn) as (Hc & Lk & _). unfold cnt_ok in Hc.
  destruct (wrep_lens s st Rp) as (ZU & ZL).
  pose proof (wrep_flag01 s st Rp) as F01.
  destruct (trigger_run s O x G0 Cn F01 Hc)
    as (os & sA & o & s1 & Tr & Fin & TF & Gi & Acc & I1 & L1 & I2 & L2 & F1 & Funch & Fedge & C1 & Wr);
    [lia|lia|].
  destruct (trun_loop s os sA Tr Hpc) as (TXa & EcA).
  assert (HpcA : c_pc (con sA) = CTrig) by (rewrite EcA; exact Hpc).
  pose proof (loop_trig_return sA s1 o HpcA Fin) as Efin.
  destruct TF as [T1 T2 T3 T4 T5 T6].
  assert (Hi1 : loop_idle s1) by (unfold loop_idle; rewrite Gi; reflexivity).
  assert (Hc1 : c_chores (con s1) = true -> c_phase (con s1) = PhEvents).
  { rewrite T1. intro X. destruct Lk as [_ Ck]. destruct (Ck X) as [_ P]. exact P. }
  destruct (resume_link s1 Hi1 Hc1) as (A & B & C & D & E & F & G).
  assert (TX : texec O s (os ++ [o ++ snd (resume s1)]) (fst (resume s1))).
  { eapply texec_app; [exact TXa|]. apply texec_one. exact Efin. }
  exists (List.length (os ++ [o ++ snd (resume s1)])).
  pose proof (run_wk_reachable s (repeat (stp O) (List.length (os ++ [o ++ snd (resume s1)]))) R) as R1.
  cbv zeta. rewrite (texec_run _ _ _ _ TX) in *. cbn [fst snd] in *.
  destruct (wrep_trigger s st s1 x Rp Cn I1 L1 I2 L2 F1 T2) as (Rp1 & Cn1).
  destruct Rp as (RU & RL & RF & RT).
  splits.
  - exact R1.
  - destruct Sn as [So Sf]. split; [rewrite C, T4|rewrite D, T5]; assumption.
  - exact (counted_ext _ _ A Cn1).
  - exact (wrep_ext _ _ _ A B Rp1).
  - rewrite B. exact T2.
  - intro t'. rewrite F. apply T3. discriminate.
  - exact G.
  - rewrite E. exact Acc.
  - rewrite concat_snoc, writes_app in Wr.
    rewrite concat_snoc, !writes_app, resume_writes, app_nil_r, Wr.
    unfold expected_writes. rewrite RF. destruct (Loop.l_flag st); reflexivity.
  - intro X. rewrite A. apply Fedge. rewrite RF, X. reflexivity.
  - intro X. rewrite A. apply Funch. rewrite RF, X. reflexivity.
Qed.

(* ------------------------------------------------------------------ *)
(* 5. the end of a batch: the tail of [Loop.chores]                       *)

(* the loop's own steps from the store of 0 on *)
Lemma cs_store : forall s, c_pc (con s) = CStore ->
  wstep s O (CStep []) = (set_cpc (set_sh s (sh_flag (w_sh s) 0)) CChkL, [EvStore]).
Proof. intros s H. unfold wstep, cons_step. rewrite H. reflexivity. Qed.

Lemma cs_chkL : forall s, c_pc (con s) = CChkL ->
  wstep s O (CStep []) = (set_cpc s (if lenL (w_sh s) =? 0 then CChkU else CCas), [EvLd O QL (lenL (w_sh s))]).
Proof. intros s H. unfold wstep, cons_step. rewrite H. reflexivity. Qed.

Lemma cs_chkU : forall s, c_pc (con s) = CChkU ->
  wstep s O (CStep []) = (set_cpc s (if lenU (w_sh s) =? 0 then CWait else CCas), [EvLd O QU (lenU (w_sh s))]).
Proof. intros s H. unfold wstep, cons_step. rewrite H. reflexivity. Qed.

Lemma cs_cas_win : forall s, c_pc (con s) = CCas -> flag (w_sh s) = 0 ->
  wstep s O (CStep []) = (set_cpc (set_sh s (sh_flag (w_sh s) 1)) CWr, [EvCas O true]).
Proof. intros s H F. unfold wstep, cons_step. rewrite H, F. reflexivity. Qed.

Lemma cs_wr_ok : forall s, c_pc (con s) = CWr -> (efd_cnt (w_sh s) + 1 >? efd_max) = false ->
  wstep s O (CStep []) = (set_cpc (set_sh s (sh_efd (w_sh s) (efd_cnt (w_sh s) + 1) true)) CWait, [EvWrite O WOk]).
Proof. intros s H F. unfold wstep, cons_step, efd_write. rewrite H, F. reflexivity. Qed.

Lemma cs_wr_again : forall s, c_pc (con s) = CWr -> (efd_cnt (w_sh s) + 1 >? efd_max) = true ->
  wstep s O (CStep []) = (set_cpc s CRd, [EvWrite O WAgain]).
Proof. intros s H F. unfold wstep, cons_step, efd_write. rewrite H, F. reflexivity. Qed.

Lemma cs_rd : forall s, c_pc (con s) = CRd -> (efd_cnt (w_sh s) =? 0) = false ->
  wstep s O (CStep []) = (set_cpc (set_sh s (sh_efd (w_sh s) 0 (edge (w_sh s)))) CWr, [EvRead O (efd_cnt (w_sh s))]).
Proof. intros s H F. unfold wstep, cons_step, efd_read. rewrite H, F. reflexivity. Qed.

(* what these steps leave alone *)
Definition lframe (s s' : wstate) : Prop :=
  trigs s' = trigs s /\ w_env s' = w_env s /\ w_gh s' = w_gh s /\
  itemsU (w_sh s') = itemsU (w_sh s) /\ itemsL (w_sh s') = itemsL (w_sh s) /\
  lenU (w_sh s') = lenU (w_sh s) /\ lenL (w_sh s') = lenL (w_sh s).

(* store 0; load async.length; [load urgent.length]: the loop is back at epoll_wait when both
   are 0, at its CAS otherwise *)
Lemma loop_recheck : forall s, c_pc (con s) = CStore ->
  exists os s', texec O s os s' /\ lframe s s' /\ flag (w_sh s') = 0 /\
    efd_cnt (w_sh s') = efd_cnt (w_sh s) /\ edge (w_sh s') = edge (w_sh s) /\
    writes (List.concat os) = [] /\
    c_pc (con s') = (if (lenL (w_sh s) =? 0) && (lenU (w_sh s) =? 0) then CWait else CCas).
Proof.
  intros s H. pose proof (cs_store s H) as E1.
  set (s1 := set_cpc (set_sh s (sh_flag (w_sh s) 0)) CChkL) in *.
  pose proof (cs_chkL s1 eq_refl) as E2. change (lenL (w_sh s1)) with (lenL (w_sh s)) in E2.
  destruct (lenL (w_sh s) =? 0) eqn:EL.
  - set (s2 := set_cpc s1 CChkU) in *.
    pose proof (cs_chkU s2 eq_refl) as E3. change (lenU (w_sh s2)) with (lenU (w_sh s)) in E3.
    eexists _, _. split; [eapply te_cons; [exact E1|]; eapply te_cons; [exact E2|]; apply texec_one; exact E3|].
    cbn [andb]. destruct (lenU (w_sh s) =? 0); unfold lframe; splits; reflexivity.
  - eexists _, _. split; [eapply te_cons; [exact E1|]; apply texec_one; exact E2|].
    cbn [andb]. unfold lframe; splits; reflexivity.
Qed.

(* CAS 0 -> 1; write (or write(EAGAIN); read; write) *)
Lemma loop_rearm : forall s, c_pc (con s) = CCas -> flag (w_sh s) = 0 -> 0 <= efd_cnt (w_sh s) ->
  exists os s', texec O s os s' /\ lframe s s' /\ flag (w_sh s') = 1 /\ eff_edge (w_sh s') = true /\
    c_pc (con s') = CWait /\
    writes (List.concat os) = (if efd_cnt (w_sh s) + 1 >? efd_max then [(O, WAgain); (O, WOk)] else [(O, WOk)]).
Proof.
  intros s H F Hc. pose proof (cs_cas_win s H F) as E1.
  set (s1 := set_cpc (set_sh s (sh_flag (w_sh s) 1)) CWr) in *.
  destruct (efd_cnt (w_sh s) + 1 >? efd_max) eqn:Full.
  - pose proof (cs_wr_again s1 eq_refl Full) as E2.
    set (s2 := set_cpc s1 CRd) in *.
    assert (Ne : (efd_cnt (w_sh s2) =? 0) = false).
    { change (efd_cnt (w_sh s2)) with (efd_cnt (w_sh s)). unfold efd_max in Full. lia. }
    pose proof (cs_rd s2 eq_refl Ne) as E3.
    set (s3 := set_cpc (set_sh s2 (sh_efd (w_sh s2) 0 (edge (w_sh s2)))) CWr) in *.
    pose proof (cs_wr_ok s3 eq_refl eq_refl) as E4.
    eexists _, _. split.
    { eapply te_cons; [exact E1|]. eapply te_cons; [exact E2|]. eapply te_cons; [exact E3|].
      apply texec_one. exact E4. }
    unfold lframe; splits; reflexivity.
  - pose proof (cs_wr_ok s1 eq_refl Full) as E2.
    eexists _, _. split; [eapply te_cons; [exact E1|]; apply texec_one; exact E2|].
    unfold lframe; splits; try reflexivity.
    unfold eff_edge. cbn. lia.
Qed.

Lemma queues_empty_len : forall s st, wrep s st -> counted s ->
  queues_empty st = (lenL (w_sh s) =? 0) && (lenU (w_sh s) =? 0).
Proof.
  intros s st (RU & RL & _) (CU & CL). unfold queues_empty. rewrite <- RU, <- RL, CU, CL.
  unfold zlen. destruct (itemsU (w_sh s)), (itemsL (w_sh s)); cbn [map List.length]; lia.
Qed.

(* The loop has finished draining (c_pc = CStore) and runs the end of the batch alone:
   store 0; load async.length; [load urgent.length]; and, when one of them is not 0,
   CAS 0 -> 1; write.  Afterwards it is at epoll_wait and the shared words represent
   [coarse_batch_end]; the loop wrote the eventfd iff the loop model does
   ([Loop.chores] calls [Loop.efd_write] iff a queue is non-empty). *)
Lemma link_batch_end : forall s st,
  wk_reachable s -> sane s -> counted s -> wrep s st -> c_pc (con s) = CStore ->
  exists n, let r := run wk_fstep s (repeat (stp O) n) in
    wk_reachable (fst r) /\ sane (fst r) /\ counted (fst r) /\
    wrep (fst r) (coarse_batch_end st) /\
    c_pc (con (fst r)) = CWait /\ trigs (fst r) = trigs s /\ w_env (fst r) = w_env s /\
    writes (List.concat (snd r)) =
      (if queues_empty st then []
       else if efd_cnt (w_sh s) + 1 >? efd_max then [(O, WAgain); (O, WOk)] else [(O, WOk)]) /\
    (queues_empty st = false -> eff_edge (w_sh (fst r)) = true) /\
    (queues_empty st = true ->
       efd_cnt (w_sh (fst r)) = efd_cnt (w_sh s) /\ edge (w_sh (fst r)) = edge (w_sh s)).
Proof.
  intros s st R Sn Cn Rp Hpc.
  destruct (winv_reachable s R Sn) as (Hc & _ & _). unfold cnt_ok in Hc.
  pose proof (queues_empty_len s st Rp Cn) as QE.
  destruct (loop_recheck s Hpc) as (os1 & s1 & X1 & (A1 & A2 & A3 & A4 & A5 & A6 & A7) & F1 & C1 & D1 & W1 & P1).
  rewrite <- QE in P1.
  destruct Rp as (RU & RL & RF & RT). destruct Cn as (CU & CL).
  destruct (queues_empty st) eqn:Q.
  - (* both empty: back at epoll_wait with the flag clear *)
    exists (List.length os1).
    pose proof (run_wk_reachable s (repeat (stp O) (List.length os1)) R) as R1.
    cbv zeta. rewrite (texec_run _ _ _ _ X1) in *. cbn [fst snd] in *.
    splits; try assumption.
    + unfold sane. rewrite A3. exact Sn.
    + unfold counted. rewrite A4, A5, A6, A7. auto.
    + unfold wrep, coarse_batch_end. rewrite Q, A2, A4, A5, F1.
      cbn [Loop.set_flag Loop.set_queues Loop.l_urgent Loop.l_low Loop.l_flag Loop.l_thr b2z negb]. auto.
    + discriminate.
    + auto.
  - (* something is queued: the loop re-arms and writes *)
    assert (Hc1 : 0 <= efd_cnt (w_sh s1)) by (rewrite C1; exact Hc).
    destruct (loop_rearm s1 P1 F1 Hc1) as (os2 & s2 & X2 & (B1 & B2 & B3 & B4 & B5 & B6 & B7) & F2 & E2 & P2 & W2).
    pose proof (texec_app _ _ _ _ _ _ X1 X2) as X.
    exists (List.length (os1 ++ os2)).
    pose proof (run_wk_reachable s (repeat (stp O) (List.length (os1 ++ os2))) R) as R1.
    cbv zeta. rewrite (texec_run _ _ _ _ X) in *. cbn [fst snd] in *.
    splits; try assumption.
    + unfold sane. rewrite B3, A3. exact Sn.
    + unfold counted. rewrite B4, B5, B6, B7, A4, A5, A6, A7. auto.
    + unfold wrep, coarse_batch_end. rewrite Q, B2, A2, B4, B5, A4, A5, F2.
      cbn [Loop.set_flag Loop.set_queues Loop.l_urgent Loop.l_low Loop.l_flag Loop.l_thr b2z negb]. auto.
    + congruence.
    + congruence.
    + rewrite concat_app, writes_app, W1, W2, C1. reflexivity.
    + auto.
    + discriminate.
Qed.

(* ------------------------------------------------------------------ *)
(* 6. the points of the loop at which the loop model's state is read      *)

(* nobody is between link and count *)
Definition no_p1 (s : wstate) : Prop := forall t q, w_p1 q (get_trig (trigs s) t) = 0.

Lemma tot_zero : forall w ths, (forall t, w (get_trig ths t) = 0) -> tot w ths = 0.
Proof.
  intros w ths. induction ths as [|th r IH]; intro H; [reflexivity|].
  cbn. pose proof (H O) as H0. unfold get_trig in H0. cbn in H0. rewrite H0.
  unfold tot in IH. rewrite IH; [reflexivity|]. intro t. exact (H (S t)).
Qed.

(* instance of wake_inv (K): in a reachable state the length counters are the lengths of the
   queues, unless a Trigger call is between its link and its count or the loop between an
   unlink and its decount *)
Lemma counted_reachable : forall s, wk_reachable s -> sane s -> no_p1 s ->
  (forall q, c_pc (con s) <> CDec q) -> counted s.
Proof.
  intros s R Sn N D. destruct (wake_inv s R Sn) as (_ & KU & KL & _).
  assert (PU : n_p1 QU s = 0) by (apply tot_zero; intro t; apply N).
  assert (PL : n_p1 QL s = 0) by (apply tot_zero; intro t; apply N).
  assert (DU : d_q QU s = 0 /\ d_q QL s = 0).
  { unfold d_q. destruct (c_pc (con s)) as [ |q|q|q| | | | | | | ]; auto. exfalso. exact (D q eq_refl). }
  destruct DU as [DU DL]. unfold counted, zlen. lia.
Qed.

Lemma all_idle_no_p1 : forall s, all_idle s -> no_p1 s.
Proof.
  intros s H t q. specialize (H t). unfold w_p1. rewrite H. reflexivity.
Qed.

(* the loop at the beginning of a Trigger call of its own, no producer in flight *)
Lemma trig_start_no_p1 : forall s x, (forall t', t_pc (get_trig (trigs s) (S t')) = TIdle) ->
  get_trig (trigs s) O = mkTrig (pc0 (tk_spec x)) x -> no_p1 s.
Proof.
  intros s x H G [|t'] q.
  - rewrite G. unfold w_p1, pc0. cbn [t_pc]. destruct (sp_high (tk_spec x)), q; reflexivity.
  - unfold w_p1. rewrite H. reflexivity.
Qed.

(* idle: at (or about to call) epoll_wait; about to drain: at the first Dequeue of the
   urgent queue; after the batch: at the store of 0 *)
Inductive lpoint := PIdle | PDrain | PBatchEnd.

Definition point_pc (p : lpoint) : cpc :=
  match p with PIdle => CWait | PDrain => CDeq QU | PBatchEnd => CStore end.

(* no Trigger call in flight (producers and the loop itself), the loop at point p *)
Definition at_point (p : lpoint) (s : wstate) : Prop := all_idle s /\ c_pc (con s) = point_pc p.

(* the representation relation *)
Definition wrel (p : lpoint) (s : wstate) (st : Loop.lstate) : Prop :=
  at_point p s /\ counted s /\ wrep s st.

Lemma wrel_intro : forall p s st, wk_reachable s -> sane s -> at_point p s -> wrep s st -> wrel p s st.
Proof.
  intros p s st R Sn [Hid Hpc] Rp. split; [split; assumption|]. split; [|exact Rp].
  apply counted_reachable; [exact R|exact Sn|apply all_idle_no_p1; exact Hid|].
  intros q E. rewrite Hpc in E. destruct p; discriminate.
Qed.

(* a new poller *)
Lemma wrel_init : forall thr max st,
  Loop.l_urgent st = [] -> Loop.l_low st = [] -> Loop.l_flag st = false -> Loop.l_thr st = thr ->
  wrel PIdle (init_state thr max) st.
Proof.
  intros thr max st HU HL HF HT. unfold wrel, at_point, counted, wrep.
  rewrite HU, HL, HF, HT. splits; try reflexivity.
  intro t. unfold init_state. cbn [trigs]. rewrite get_nil. reflexivity.
Qed.

(* ------------------------------------------------------------------ *)
(* 7. about to block                                                      *)

(* Fine model: no Trigger call in flight, the loop at epoll_wait.  epoll_wait reports the
   eventfd iff eff_edge (readiness edge pending and counter > 0); with eff_edge = false (and no
   I/O) the loop blocks: this is [quiescent].  Then nothing is queued and the flag is clear
   (no_lost_wakeup, and I1 of wake_inv for the flag).  Contrapositive, in the vocabulary of the
   loop model: l_flag = true or a task queued -> the eventfd will be reported. *)
Lemma link_about_to_block : forall s st,
  wk_reachable s -> sane s -> wrep s st -> all_idle s -> c_pc (con s) = CWait ->
  (eff_edge (w_sh s) = false ->
     Loop.l_urgent st = [] /\ Loop.l_low st = [] /\ Loop.l_flag st = false) /\
  (Loop.l_flag st = true \/ Loop.l_urgent st <> [] \/ Loop.l_low st <> [] -> eff_edge (w_sh s) = true).
Proof.
  intros s st R Sn (RU & RL & RF & RT) Hid Hpc.
  assert (A : eff_edge (w_sh s) = false ->
     Loop.l_urgent st = [] /\ Loop.l_low st = [] /\ Loop.l_flag st = false).
  { intro HE.
    destruct (no_lost_wakeup s R Sn (conj Hid (conj Hpc HE))) as (IU & IL).
    rewrite <- RU, <- RL, IU, IL. splits; try reflexivity.
    destruct (wake_inv s R Sn) as (_ & _ & _ & _ & I1 & _).
    destruct (idle_counts s Hid) as (_ & _ & _ & P3).
    destruct (Loop.l_flag st); [|reflexivity]. exfalso.
    destruct (I1 RF) as [X|[X|[X|X]]].
    - congruence.
    - lia.
    - unfold cons_wr in X. rewrite Hpc in X. discriminate.
    - unfold cons_B in X. rewrite Hpc in X. discriminate. }
  split; [exact A|].
  intro H. destruct (eff_edge (w_sh s)) eqn:HE; [reflexivity|].
  destruct (A eq_refl) as (U & L & F). destruct H as [H|[H|H]]; congruence.
Qed.

(* ------------------------------------------------------------------ *)
(* 8. the same, from point to point                                       *)

Lemma link_async_point : forall p s st t' sp,
  wk_reachable s -> sane s -> wrel p s st ->
  Loop.zlen (Loop.l_urgent st) < 2147483647 -> Loop.zlen (Loop.l_low st) < 2147483647 ->
  exists n, let r := run wk_fstep s (start (S t') sp :: repeat (stp (S t')) n) in
    wk_reachable (fst r) /\ sane (fst r) /\
    wrel p (fst r) (coarse_trigger st (negb (sp_high sp)) (nm (mkTask (g_next (w_gh s)) (S t') sp))) /\
    In (g_next (w_gh s)) (g_acc (w_gh (fst r))) /\
    writes (List.concat (snd r)) =
      (if Loop.l_flag st then []
       else if efd_cnt (w_sh s) + 1 >? efd_max then [(S t', WAgain); (S t', WOk)] else [(S t', WOk)]) /\
    (Loop.l_flag st = false -> eff_edge (w_sh (fst r)) = true).
Proof.
  intros p s st t' sp R Sn ((Hid & Hpc) & Cn & Rp) BU BL.
  destruct (link_async s st t' sp R Sn Cn Rp (Hid (S t')) BU BL) as (n & H).
  exists n. cbv zeta in *.
  destruct H as (R1 & Sn1 & Cn1 & Rp1 & Ec & _ & Oth & Gi & Acc & Wr & Ed & _).
  splits; try assumption.
  split; [|split; assumption]. split; [|rewrite Ec; exact Hpc].
  intro u. destruct (Nat.eq_dec u (S t')) as [->|Hne].
  - rewrite Gi. reflexivity.
  - rewrite (Oth u Hne). apply Hid.
Qed.

Lemma link_batch_end_point : forall s st,
  wk_reachable s -> sane s -> wrel PBatchEnd s st ->
  exists n, let r := run wk_fstep s (repeat (stp O) n) in
    wk_reachable (fst r) /\ sane (fst r) /\
    wrel PIdle (fst r) (coarse_batch_end st) /\
    writes (List.concat (snd r)) =
      (if queues_empty st then []
       else if efd_cnt (w_sh s) + 1 >? efd_max then [(O, WAgain); (O, WOk)] else [(O, WOk)]) /\
    (queues_empty st = false -> eff_edge (w_sh (fst r)) = true) /\
    (queues_empty st = true ->
       efd_cnt (w_sh (fst r)) = efd_cnt (w_sh s) /\ edge (w_sh (fst r)) = edge (w_sh s)).
Proof.
  intros s st R Sn ((Hid & Hpc) & Cn & Rp).
  destruct (link_batch_end s st R Sn Cn Rp Hpc) as (n & H).
  exists n. cbv zeta in *.
  destruct H as (R1 & Sn1 & Cn1 & Rp1 & Ec & Et & _ & Wr & Ed & Eu).
  splits; try assumption.
  split; [|split; assumption]. split; [|exact Ec].
  unfold all_idle. rewrite Et. exact Hid.
Qed.

(* idle -> about to drain: epoll_wait reports the eventfd (and nothing else): the `wait`
   line of the loop model carrying the eventfd; the shared words other than the readiness
   edge do not move *)
Lemma link_wait : forall s st, wrel PIdle s st -> eff_edge (w_sh s) = true -> io_pend (w_env s) = [] ->
  let r := run wk_fstep s [stp O] in
  wrel PDrain (fst r) st /\ snd r = [[EvWait (c_msec (con s)) [-1]]] /\
  eff_edge (w_sh (fst r)) = false /\ g_ovf (w_gh (fst r)) = g_ovf (w_gh s) /\ g_fault (w_gh (fst r)) = g_fault (w_gh s).
Proof.
  intros s st ((Hid & Hpc) & (CU & CL) & (RU & RL & RF & RT)) He Hio.
  assert (E : exists s1, wstep s O (CStep []) = (s1, [EvWait (c_msec (con s)) [-1]]) /\
                trigs s1 = trigs s /\ c_pc (con s1) = CDeq QU /\
                w_sh s1 = sh_efd (w_sh s) (efd_cnt (w_sh s)) false /\ e_thr (w_env s1) = e_thr (w_env s) /\
                w_gh s1 = w_gh s).
  { eexists. split.
    - unfold wstep, cons_step. cbn [point_pc] in Hpc. rewrite Hpc, Hio, He. cbn. reflexivity.
    - cbn. auto. }
  destruct E as (s1 & E & Et & Ep & Es & Ee & Eg).
  cbv zeta. rewrite (run_cons s (stp O) [] s1 _ E). cbn [run fst snd].
  splits; try reflexivity.
  - split; [split|split].
    + unfold all_idle. rewrite Et. exact Hid.
    + exact Ep.
    + unfold counted. rewrite Es. cbn [sh_efd itemsU itemsL lenU lenL]. auto.
    + unfold wrep. rewrite Es, Ee. cbn [sh_efd itemsU itemsL flag]. auto.
  - rewrite Es. reflexivity.
  - rewrite Eg. reflexivity.
  - rewrite Eg. reflexivity.
Qed.

End WakeupLink.

(* ------------------------------------------------------------------ *)
(* 9. the loop model performs exactly these coarse operations             *)

Lemma st_emit : forall l w, Loop.st (Loop.emit l w) = Loop.st w.
Proof. intros. unfold Loop.emit. destruct (Loop.halt w); reflexivity. Qed.

Lemma st_desync : forall what w, Loop.st (Loop.desync what w) = Loop.st w.
Proof. intros. unfold Loop.desync, Loop.stop. cbn [Loop.st]. apply st_emit. Qed.

(* requests of other goroutines absorbed while the loop thread waits for the result of a
   system call: zero or more [Loop.apply_async] *)
Inductive asyncs : Loop.lstate -> Loop.lstate -> Prop :=
| as_refl : forall s, asyncs s s
| as_step : forall s l s1 s2, Loop.apply_async s l = Some s1 -> asyncs s1 s2 -> asyncs s s2.

Lemma asyncs_trans : forall a b c, asyncs a b -> asyncs b c -> asyncs a c.
Proof. intros a b c H1 H2. induction H1; [exact H2|]. eapply as_step; [eassumption|auto]. Qed.

Lemma pull_from_asyncs : forall picks i s lg s' lg' o r,
  Loop.pull_from picks s lg i = (s', lg', o, r) -> asyncs s s'.
Proof.
  induction i as [|l i IH]; intros s lg s' lg' o r H; cbn [Loop.pull_from] in H.
  - inv H. apply as_refl.
  - destruct (Loop.apply_async s l) as [s1|] eqn:E.
    + eapply as_step; [exact E|]. eapply IH. exact H.
    + destruct (negb picks && Loop.is_pick l); [eapply IH; exact H|]. inv H. apply as_refl.
Qed.

Lemma pull_asyncs : forall w, asyncs (Loop.st w) (Loop.st (snd (Loop.pull w))).
Proof.
  intro w. unfold Loop.pull, Loop.pull_gen. destruct (Loop.halt w); [apply as_refl|].
  destruct (Loop.pull_from false (Loop.st w) (Loop.log w) (Loop.inp w)) as [[[s lg] o] r] eqn:E.
  apply pull_from_asyncs in E. destruct o; exact E.
Qed.

Lemma sysret_st : forall name w, Loop.st (snd (Loop.sysret name w)) = Loop.st (snd (Loop.pull w)).
Proof.
  intros name w. rewrite LoopDataLib.sysret_eq.
  destruct (Loop.pull w) as [[[n0 args]|] w']; [|reflexivity].
  repeat match goal with
  | |- context [match ?x with _ => _ end] => destruct x
  end; cbn [snd]; rewrite ?st_desync; reflexivity.
Qed.

Lemma sys_asyncs : forall name args w, asyncs (Loop.st w) (Loop.st (snd (Loop.sys name args w))).
Proof.
  intros name args w. unfold Loop.sys. rewrite sysret_st.
  pose proof (pull_asyncs (Loop.emit (obs "sys" (ASym name :: args)) w)) as H.
  rewrite st_emit in H. exact H.
Qed.

(* the eventfd write of the loop thread (with its EAGAIN/read retries) leaves the loop-model
   state alone, except for the requests of other goroutines that arrive meanwhile *)
Lemma efd_write_asyncs : forall fuel w, asyncs (Loop.st w) (Loop.st (snd (Loop.efd_write fuel w))).
Proof.
  induction fuel as [|f IH]; intro w; cbn [Loop.efd_write].
  - cbn [snd]. rewrite st_desync. apply as_refl.
  - pose proof (sys_asyncs "write" [AInt (Loop.l_efd (Loop.st w))] w) as H1.
    destruct (Loop.sys "write" [AInt (Loop.l_efd (Loop.st w))] w) as [[n extra|e|] w1]; cbn [snd] in *; try exact H1.
    destruct (Loop.is_eagain e); [|exact H1].
    pose proof (sys_asyncs "read" [AInt (Loop.l_efd (Loop.st w1))] w1) as H2.
    destruct (Loop.sys "read" [AInt (Loop.l_efd (Loop.st w1))] w1) as [k2 w2]. cbn [snd] in H2.
    eapply asyncs_trans; [exact H1|]. eapply asyncs_trans; [exact H2|]. apply IH.
Qed.

Lemma enqueue_flag : forall st b t, Loop.l_flag (Loop.enqueue st b t) = Loop.l_flag st.
Proof. intros. unfold Loop.enqueue. destruct (b && _); reflexivity. Qed.

Lemma coarse_trigger_flag_set : forall st b t, Loop.l_flag st = true -> coarse_trigger st b t = Loop.enqueue st b t.
Proof.
  intros st b t H. unfold coarse_trigger, Loop.set_flag, Loop.enqueue.
  destruct (b && _); cbn [Loop.set_queues Loop.l_urgent Loop.l_low]; rewrite H; reflexivity.
Qed.

(* Loop.trigger: the two branches *)
Lemma loop_trigger_eq : forall is_low t w,
  Loop.trigger is_low t w =
  if Loop.l_flag (Loop.st w)
  then (Loop.RNil, Loop.with_st w (Loop.enqueue (Loop.st w) is_low t))
  else Loop.efd_write (S (List.length (Loop.inp w))) (Loop.with_st w (coarse_trigger (Loop.st w) is_low t)).
Proof. intros. unfold Loop.trigger. rewrite enqueue_flag. reflexivity. Qed.

(* ... its effect on the loop-model state is [coarse_trigger] (followed by whatever other
   goroutines request while the loop thread is in its eventfd write) *)
Lemma loop_trigger_state : forall is_low t w,
  asyncs (coarse_trigger (Loop.st w) is_low t) (Loop.st (snd (Loop.trigger is_low t w))).
Proof.
  intros. rewrite loop_trigger_eq. destruct (Loop.l_flag (Loop.st w)) eqn:F.
  - cbn [snd Loop.with_st Loop.st]. rewrite (coarse_trigger_flag_set _ _ _ F). apply as_refl.
  - exact (efd_write_asyncs _ (Loop.with_st w (coarse_trigger (Loop.st w) is_low t))).
Qed.

(* Loop.apply_async: a request of another goroutine is [coarse_trigger] (on a state that
   differs from the current one at most by the connection table) *)
Lemma loop_async_state : forall s l s', Loop.apply_async s l = Some s' ->
  exists s0 is_low t, s' = coarse_trigger s0 is_low t /\
    Loop.l_urgent s0 = Loop.l_urgent s /\ Loop.l_low s0 = Loop.l_low s /\
    Loop.l_flag s0 = Loop.l_flag s /\ Loop.l_thr s0 = Loop.l_thr s.
Proof.
  intros s l s' H.
  destruct (LoopDataLib.apply_async_cases _ _ _ H) as [(b & t & _ & ->)|(b & c & cb & _ & ->)];
    eexists _, _, _; (split; [reflexivity|]); cbn; auto.
Qed.

(* Loop.chores after the two drains *)
Definition batch_end (w2 : Loop.world) : Loop.world :=
  if queues_empty (Loop.st w2)
  then Loop.with_st w2 (coarse_batch_end (Loop.st w2))
  else snd (Loop.efd_write (S (List.length (Loop.inp w2))) (Loop.with_st w2 (coarse_batch_end (Loop.st w2)))).

Lemma loop_chores_eq : forall fuel w r1 w1 r2 w2,
  Loop.drain_urgent fuel w = (r1, w1) -> r1 <> Loop.RShutdown ->
  Loop.drain_low fuel (Loop.l_maxlow (Loop.st w1)) w1 = (r2, w2) -> r2 <> Loop.RShutdown ->
  Loop.chores fuel w = (Loop.RNil, batch_end w2).
Proof.
  intros fuel w r1 w1 r2 w2 H1 N1 H2 N2. unfold Loop.chores. rewrite H1.
  assert (E : forall (A : Type) (a b : A), match r1 with Loop.RShutdown => a | _ => b end = b)
    by (intros; destruct r1; congruence).
  rewrite E, H2.
  assert (E' : forall (A : Type) (a b : A), match r2 with Loop.RShutdown => a | _ => b end = b)
    by (intros; destruct r2; congruence).
  rewrite E'. unfold batch_end, coarse_batch_end, queues_empty.
  cbn [Loop.set_flag Loop.set_queues Loop.l_urgent Loop.l_low].
  assert (P : forall p : Loop.res * Loop.world, (let '(_, w3) := p in (Loop.RNil, w3)) = (Loop.RNil, snd p))
    by (intros [a b]; reflexivity).
  destruct (Loop.l_urgent (Loop.st w2)), (Loop.l_low (Loop.st w2)); cbn [negb]; try reflexivity;
    rewrite P; reflexivity.
Qed.

Lemma loop_chores_state : forall w2, asyncs (coarse_batch_end (Loop.st w2)) (Loop.st (batch_end w2)).
Proof.
  intro w2. unfold batch_end. destruct (queues_empty (Loop.st w2)); [apply as_refl|].
  exact (efd_write_asyncs _ (Loop.with_st w2 (coarse_batch_end (Loop.st w2)))).
Qed.

(* the loop model's own version of "no lost wake-up": whenever the flag is clear both queues
   are empty.  Every coarse operation re-establishes it, the drains keep it. *)
Definition flag_ok (st : Loop.lstate) : Prop :=
  Loop.l_flag st = false -> Loop.l_urgent st = [] /\ Loop.l_low st = [].

Lemma flag_ok_trigger : forall st b t, flag_ok (coarse_trigger st b t).
Proof. intros st b t H. discriminate H. Qed.

Lemma flag_ok_batch_end : forall st, flag_ok (coarse_batch_end st).
Proof.
  intros st H. unfold coarse_batch_end, queues_empty in *.
  cbn [Loop.set_flag Loop.set_queues Loop.l_urgent Loop.l_low Loop.l_flag] in *.
  destruct (Loop.l_urgent st), (Loop.l_low st); try discriminate H. auto.
Qed.

Lemma flag_ok_asyncs : forall s s', asyncs s s' -> flag_ok s -> flag_ok s'.
Proof.
  intros s s' H. induction H; [auto|]. intros _. apply IHasyncs.
  destruct (loop_async_state _ _ _ H) as (s0 & b & t & -> & _). apply flag_ok_trigger.
Qed.

Lemma flag_ok_pop : forall st u lo, flag_ok st -> Loop.l_flag st = true \/ (u = [] /\ lo = []) ->
  flag_ok (Loop.set_queues st u lo (Loop.l_flag st)).
Proof.
  intros st u lo H [F|[-> ->]] X; cbn [Loop.set_queues Loop.l_flag Loop.l_urgent Loop.l_low] in *; [congruence|auto].
Qed.

(* the system calls: when the kernel's answers on the input of the loop model are the ones the
   fine model produces ([(O, WOk)], or [(O, WAgain); (O, WOk)] with the read in between),
   [Loop.efd_write] issues exactly those calls on the loop thread and nothing else moves *)
Lemma loop_efd_write_ok : forall f w n rest,
  Loop.halt w = false -> Loop.inp w = ("r"%string, [ASym "write"; AInt n]) :: rest -> 0 <= n ->
  Loop.efd_write (S f) w =
    (Loop.RNil, Loop.mkW (Loop.st w) rest
       (Loop.EIn ("r"%string, [ASym "write"; AInt n]) ::
        Loop.EOut (obs "sys" [ASym "write"; AInt (Loop.l_efd (Loop.st w))]) :: Loop.log w) false).
Proof.
  intros f w n rest Hh Hi Hn. assert (Hlt : (n <? 0) = false) by lia.
  cbn [Loop.efd_write]. unfold Loop.sys, Loop.emit. rewrite Hh.
  unfold Loop.sysret, Loop.pull, Loop.pull_gen. cbn [Loop.halt Loop.inp Loop.st Loop.log]. rewrite Hi.
  cbn -[Z.ltb]. rewrite Hlt. reflexivity.
Qed.

Lemma loop_efd_write_again : forall f w v n rest,
  Loop.halt w = false ->
  Loop.inp w = ("r"%string, [ASym "write"; AInt (-1); ASym "eagain"]) ::
               ("r"%string, [ASym "read"; AInt v]) ::
               ("r"%string, [ASym "write"; AInt n]) :: rest -> 0 <= n ->
  Loop.efd_write (S (S f)) w =
    (Loop.RNil, Loop.mkW (Loop.st w) rest
       (Loop.EIn ("r"%string, [ASym "write"; AInt n]) ::
        Loop.EOut (obs "sys" [ASym "write"; AInt (Loop.l_efd (Loop.st w))]) ::
        Loop.EIn ("r"%string, [ASym "read"; AInt v]) ::
        Loop.EOut (obs "sys" [ASym "read"; AInt (Loop.l_efd (Loop.st w))]) ::
        Loop.EIn ("r"%string, [ASym "write"; AInt (-1); ASym "eagain"]) ::
        Loop.EOut (obs "sys" [ASym "write"; AInt (Loop.l_efd (Loop.st w))]) :: Loop.log w) false).
Proof.
  intros f w v n rest Hh Hi Hn. assert (Hlt : (n <? 0) = false) by lia.
  cbn [Loop.efd_write]. unfold Loop.sys, Loop.emit. rewrite Hh.
  unfold Loop.sysret, Loop.pull, Loop.pull_gen. cbn [Loop.halt Loop.inp Loop.st Loop.log]. rewrite Hi.
  cbn -[Z.ltb]. change (-1 <? 0) with true. cbn -[Z.ltb].
  destruct (v <? 0); cbn -[Z.ltb]; rewrite Hlt; reflexivity.
Qed.

(* ------------------------------------------------------------------ *)
(* 10. what the coarse model cannot do                                     *)

(* After the end of a batch the loop model has l_flag = true exactly when something is queued *)
Lemma batch_end_flag : forall st,
  Loop.l_flag (coarse_batch_end st) = negb (queues_empty (coarse_batch_end st)).
Proof. intro st. unfold coarse_batch_end, queues_empty. reflexivity. Qed.

(* ... but the fine model reaches idle states with the flag set, both queues empty and a
   readiness edge pending: a Trigger call of another goroutine is not one atomic step.  Here the
   request of producer 1 is linked and counted while the loop drains, the loop runs it in the
   same batch and stores 0, and only then does producer 1 reach its CAS: it wins, and writes the
   eventfd for a request that has already run (a spurious wake-up; harmless for C03).  No
   placement of one atomic [coarse_trigger] among the loop model's operations yields this
   triple at the head of an iteration of Polling; until the next batch ends, a Trigger on the
   loop thread (from an I/O callback) finds the flag set and does not write, where
   [Loop.trigger] on the triple ([], [], false) would. *)
Definition ex_hi : tspec := mkSpec true KPlain false O.
Definition ex_late_cas : list (tid * choice) :=
  [start 2%nat ex_hi; stp 2%nat; stp 2%nat; stp 2%nat; stp 2%nat;   (* request 0 of producer 2, complete: flag 1, eventfd written *)
   stp 0%nat;                                       (* epoll_wait reports the eventfd *)
   stp 0%nat; stp 0%nat;                                (* unlink; decount and run request 0 *)
   start 1%nat ex_hi; stp 1%nat; stp 1%nat;                 (* request 1 of producer 1: linked, counted; next: its CAS *)
   stp 0%nat; stp 0%nat;                                (* the loop runs request 1 in the same batch *)
   stp 0%nat; (O, CTau); stp 0%nat; (O, CTau);          (* urgent empty; low empty *)
   stp 0%nat;                                       (* store 0 *)
   stp 1%nat;                                       (* producer 1: CAS 0 -> 1 wins *)
   stp 0%nat; stp 0%nat;                                (* re-check: both lengths 0; back to epoll_wait *)
   stp 1%nat].                                      (* producer 1 writes the eventfd *)

Example fine_only_state :
  let s := fst (run wk_fstep (init_state 1024 256) ex_late_cas) in
  wk_reachable s /\ g_ovf (w_gh s) = false /\ g_fault (w_gh s) = false /\
  map t_pc (trigs s) = [TIdle; TIdle; TIdle] /\ c_pc (con s) = CWait /\
  flag (w_sh s) = 1 /\ itemsU (w_sh s) = [] /\ itemsL (w_sh s) = [] /\
  lenU (w_sh s) = 0 /\ lenL (w_sh s) = 0 /\ eff_edge (w_sh s) = true /\
  map (fun e => tk_id (snd e)) (g_exec (w_gh s)) = [0%nat; 1%nat] /\ g_acc (w_gh s) = [0%nat; 1%nat].
Proof. split; [apply wk_run_reachable|]. vm_compute. repeat split; reflexivity. Qed.

(* the hypothesis [counted] of link_trigger, from reachability *)
Lemma counted_trig_start : forall s x, wk_reachable s -> sane s ->
  (forall t', t_pc (get_trig (trigs s) (S t')) = TIdle) -> c_pc (con s) = CTrig ->
  get_trig (trigs s) O = mkTrig (pc0 (tk_spec x)) x -> counted s.
Proof.
  intros s x R Sn Hid Hpc G. apply counted_reachable; [exact R|exact Sn|exact (trig_start_no_p1 s x Hid G)|].
  intros q E. rewrite Hpc in E. discriminate.
Qed.

(* ====================================================================== *)

Theorem loop_wakeup_link : forall nm : task -> Loop.task,
  (* 1. the representation relation: a new poller; the counters, from reachability (wake_inv, K) *)
  (forall thr max st,
     Loop.l_urgent st = [] -> Loop.l_low st = [] -> Loop.l_flag st = false -> Loop.l_thr st = thr ->
     wrel nm PIdle (init_state thr max) st) /\
  (forall p s st, wk_reachable s -> sane s -> at_point p s -> wrep nm s st -> wrel nm p s st) /\
  (forall s x, wk_reachable s -> sane s ->
     (forall t', t_pc (get_trig (trigs s) (S t')) = TIdle) -> c_pc (con s) = CTrig ->
     get_trig (trigs s) O = mkTrig (pc0 (tk_spec x)) x -> counted s) /\
  (* 2a. a request of another goroutine (Loop.apply_async) = one producer's Trigger, run alone *)
  (forall s st t' sp,
     wk_reachable s -> sane s -> counted s -> wrep nm s st ->
     t_pc (get_trig (trigs s) (S t')) = TIdle ->
     Loop.zlen (Loop.l_urgent st) < 2147483647 -> Loop.zlen (Loop.l_low st) < 2147483647 ->
     exists n, let r := run wk_fstep s (start (S t') sp :: repeat (stp (S t')) n) in
       wk_reachable (fst r) /\ sane (fst r) /\ counted (fst r) /\
       wrep nm (fst r) (coarse_trigger st (negb (sp_high sp)) (nm (mkTask (g_next (w_gh s)) (S t') sp))) /\
       con (fst r) = con s /\ w_env (fst r) = w_env s /\
       (forall u, u <> S t' -> get_trig (trigs (fst r)) u = get_trig (trigs s) u) /\
       get_trig (trigs (fst r)) (S t') = idle_trig /\
       In (g_next (w_gh s)) (g_acc (w_gh (fst r))) /\
       writes (List.concat (snd r)) =
         (if Loop.l_flag st then []
          else if efd_cnt (w_sh s) + 1 >? efd_max then [(S t', WAgain); (S t', WOk)] else [(S t', WOk)]) /\
       (Loop.l_flag st = false -> eff_edge (w_sh (fst r)) = true) /\
       (Loop.l_flag st = true ->
          efd_cnt (w_sh (fst r)) = efd_cnt (w_sh s) /\ edge (w_sh (fst r)) = edge (w_sh s))) /\
  (forall p s st t' sp,
     wk_reachable s -> sane s -> wrel nm p s st ->
     Loop.zlen (Loop.l_urgent st) < 2147483647 -> Loop.zlen (Loop.l_low st) < 2147483647 ->
     exists n, let r := run wk_fstep s (start (S t') sp :: repeat (stp (S t')) n) in
       wk_reachable (fst r) /\ sane (fst r) /\
       wrel nm p (fst r) (coarse_trigger st (negb (sp_high sp)) (nm (mkTask (g_next (w_gh s)) (S t') sp))) /\
       In (g_next (w_gh s)) (g_acc (w_gh (fst r))) /\
       writes (List.concat (snd r)) =
         (if Loop.l_flag st then []
          else if efd_cnt (w_sh s) + 1 >? efd_max then [(S t', WAgain); (S t', WOk)] else [(S t', WOk)]) /\
       (Loop.l_flag st = false -> eff_edge (w_sh (fst r)) = true)) /\
  (* 2b. Trigger on the loop thread (Loop.trigger), both branches *)
  (forall s st x,
     wk_reachable s -> sane s -> counted s -> wrep nm s st ->
     c_pc (con s) = CTrig -> get_trig (trigs s) O = mkTrig (pc0 (tk_spec x)) x ->
     Loop.zlen (Loop.l_urgent st) < 2147483647 -> Loop.zlen (Loop.l_low st) < 2147483647 ->
     exists n, let r := run wk_fstep s (repeat (stp O) n) in
       wk_reachable (fst r) /\ sane (fst r) /\ counted (fst r) /\
       wrep nm (fst r) (coarse_trigger st (negb (sp_high (tk_spec x))) (nm x)) /\
       w_env (fst r) = w_env s /\
       (forall t', get_trig (trigs (fst r)) (S t') = get_trig (trigs s) (S t')) /\
       (t_pc (get_trig (trigs (fst r)) O) = TIdle \/
        exists x', get_trig (trigs (fst r)) O = mkTrig (pc0 (tk_spec x')) x') /\
       In (tk_id x) (g_acc (w_gh (fst r))) /\
       writes (List.concat (snd r)) =
         (if Loop.l_flag st then []
          else if efd_cnt (w_sh s) + 1 >? efd_max then [(O, WAgain); (O, WOk)] else [(O, WOk)]) /\
       (Loop.l_flag st = false -> eff_edge (w_sh (fst r)) = true) /\
       (Loop.l_flag st = true ->
          efd_cnt (w_sh (fst r)) = efd_cnt (w_sh s) /\ edge (w_sh (fst r)) = edge (w_sh s))) /\
  (* 3. the end of a batch (the tail of Loop.chores) *)
  (forall s st,
     wk_reachable s -> sane s -> counted s -> wrep nm s st -> c_pc (con s) = CStore ->
     exists n, let r := run wk_fstep s (repeat (stp O) n) in
       wk_reachable (fst r) /\ sane (fst r) /\ counted (fst r) /\
       wrep nm (fst r) (coarse_batch_end st) /\
       c_pc (con (fst r)) = CWait /\ trigs (fst r) = trigs s /\ w_env (fst r) = w_env s /\
       writes (List.concat (snd r)) =
         (if queues_empty st then []
          else if efd_cnt (w_sh s) + 1 >? efd_max then [(O, WAgain); (O, WOk)] else [(O, WOk)]) /\
       (queues_empty st = false -> eff_edge (w_sh (fst r)) = true) /\
       (queues_empty st = true ->
          efd_cnt (w_sh (fst r)) = efd_cnt (w_sh s) /\ edge (w_sh (fst r)) = edge (w_sh s))) /\
  (forall s st,
     wk_reachable s -> sane s -> wrel nm PBatchEnd s st ->
     exists n, let r := run wk_fstep s (repeat (stp O) n) in
       wk_reachable (fst r) /\ sane (fst r) /\
       wrel nm PIdle (fst r) (coarse_batch_end st) /\
       writes (List.concat (snd r)) =
         (if queues_empty st then []
          else if efd_cnt (w_sh s) + 1 >? efd_max then [(O, WAgain); (O, WOk)] else [(O, WOk)]) /\
       (queues_empty st = false -> eff_edge (w_sh (fst r)) = true) /\
       (queues_empty st = true ->
          efd_cnt (w_sh (fst r)) = efd_cnt (w_sh s) /\ edge (w_sh (fst r)) = edge (w_sh s))) /\
  (* idle -> about to drain: epoll_wait reports the eventfd *)
  (forall s st, wrel nm PIdle s st -> eff_edge (w_sh s) = true -> io_pend (w_env s) = [] ->
     let r := run wk_fstep s [stp O] in
     wrel nm PDrain (fst r) st /\ snd r = [[EvWait (c_msec (con s)) [-1]]] /\
     eff_edge (w_sh (fst r)) = false /\
     g_ovf (w_gh (fst r)) = g_ovf (w_gh s) /\ g_fault (w_gh (fst r)) = g_fault (w_gh s)) /\
  (* 4. about to block (no_lost_wakeup and I1 of wake_inv, in the vocabulary of the loop model) *)
  (forall s st,
     wk_reachable s -> sane s -> wrep nm s st -> all_idle s -> c_pc (con s) = CWait ->
     (eff_edge (w_sh s) = false ->
        Loop.l_urgent st = [] /\ Loop.l_low st = [] /\ Loop.l_flag st = false) /\
     (Loop.l_flag st = true \/ Loop.l_urgent st <> [] \/ Loop.l_low st <> [] -> eff_edge (w_sh s) = true)) /\
  (* 5. the loop model performs exactly these coarse operations *)
  (forall is_low t w,
     Loop.trigger is_low t w =
     if Loop.l_flag (Loop.st w)
     then (Loop.RNil, Loop.with_st w (Loop.enqueue (Loop.st w) is_low t))
     else Loop.efd_write (S (List.length (Loop.inp w))) (Loop.with_st w (coarse_trigger (Loop.st w) is_low t))) /\
  (forall is_low t w,
     asyncs (coarse_trigger (Loop.st w) is_low t) (Loop.st (snd (Loop.trigger is_low t w)))) /\
  (forall s l s', Loop.apply_async s l = Some s' ->
     exists s0 is_low t, s' = coarse_trigger s0 is_low t /\
       Loop.l_urgent s0 = Loop.l_urgent s /\ Loop.l_low s0 = Loop.l_low s /\
       Loop.l_flag s0 = Loop.l_flag s /\ Loop.l_thr s0 = Loop.l_thr s) /\
  (forall fuel w r1 w1 r2 w2,
     Loop.drain_urgent fuel w = (r1, w1) -> r1 <> Loop.RShutdown ->
     Loop.drain_low fuel (Loop.l_maxlow (Loop.st w1)) w1 = (r2, w2) -> r2 <> Loop.RShutdown ->
     Loop.chores fuel w = (Loop.RNil, batch_end w2)) /\
  (forall w2, asyncs (coarse_batch_end (Loop.st w2)) (Loop.st (batch_end w2))) /\
  (forall fuel w, asyncs (Loop.st w) (Loop.st (snd (Loop.efd_write fuel w)))) /\
  (forall f w n rest,
     Loop.halt w = false -> Loop.inp w = ("r"%string, [ASym "write"; AInt n]) :: rest -> 0 <= n ->
     Loop.efd_write (S f) w =
       (Loop.RNil, Loop.mkW (Loop.st w) rest
          (Loop.EIn ("r"%string, [ASym "write"; AInt n]) ::
           Loop.EOut (obs "sys" [ASym "write"; AInt (Loop.l_efd (Loop.st w))]) :: Loop.log w) false)) /\
  (forall f w v n rest,
     Loop.halt w = false ->
     Loop.inp w = ("r"%string, [ASym "write"; AInt (-1); ASym "eagain"]) ::
                  ("r"%string, [ASym "read"; AInt v]) ::
                  ("r"%string, [ASym "write"; AInt n]) :: rest -> 0 <= n ->
     Loop.efd_write (S (S f)) w =
       (Loop.RNil, Loop.mkW (Loop.st w) rest
          (Loop.EIn ("r"%string, [ASym "write"; AInt n]) ::
           Loop.EOut (obs "sys" [ASym "write"; AInt (Loop.l_efd (Loop.st w))]) ::
           Loop.EIn ("r"%string, [ASym "read"; AInt v]) ::
           Loop.EOut (obs "sys" [ASym "read"; AInt (Loop.l_efd (Loop.st w))]) ::
           Loop.EIn ("r"%string, [ASym "write"; AInt (-1); ASym "eagain"]) ::
           Loop.EOut (obs "sys" [ASym "write"; AInt (Loop.l_efd (Loop.st w))]) :: Loop.log w) false)) /\
  (* the loop model's own "flag clear -> nothing queued" *)
  (forall st b t, flag_ok (coarse_trigger st b t)) /\
  (forall st, flag_ok (coarse_batch_end st)) /\
  (forall s s', asyncs s s' -> flag_ok s -> flag_ok s') /\
  (forall st u lo, flag_ok st -> Loop.l_flag st = true \/ (u = [] /\ lo = []) ->
     flag_ok (Loop.set_queues st u lo (Loop.l_flag st))) /\
  (* 6. the difference: flag set with nothing queued, idle -- reachable in the fine model only *)
  (forall st, Loop.l_flag (coarse_batch_end st) = negb (queues_empty (coarse_batch_end st))) /\
  (let s := fst (run wk_fstep (init_state 1024 256) ex_late_cas) in
   wk_reachable s /\ g_ovf (w_gh s) = false /\ g_fault (w_gh s) = false /\
   map t_pc (trigs s) = [TIdle; TIdle; TIdle] /\ c_pc (con s) = CWait /\
   flag (w_sh s) = 1 /\ itemsU (w_sh s) = [] /\ itemsL (w_sh s) = [] /\
   lenU (w_sh s) = 0 /\ lenL (w_sh s) = 0 /\ eff_edge (w_sh s) = true /\
   map (fun e => tk_id (snd e)) (g_exec (w_gh s)) = [0%nat; 1%nat] /\ g_acc (w_gh s) = [0%nat; 1%nat]).
Proof.
  intro nm.
  split; [exact (wrel_init nm)|]. split; [exact (wrel_intro nm)|]. split; [exact counted_trig_start|].
  split; [exact (link_async nm)|]. split; [exact (link_async_point nm)|].
  split; [exact (link_trigger nm)|].
  split; [exact (link_batch_end nm)|]. split; [exact (link_batch_end_point nm)|].
  split; [exact (link_wait nm)|]. split; [exact (link_about_to_block nm)|].
  split; [exact loop_trigger_eq|]. split; [exact loop_trigger_state|]. split; [exact loop_async_state|].
  split; [exact loop_chores_eq|]. split; [exact loop_chores_state|]. split; [exact efd_write_asyncs|].
  split; [exact loop_efd_write_ok|]. split; [exact loop_efd_write_again|].
  split; [exact flag_ok_trigger|]. split; [exact flag_ok_batch_end|]. split; [exact flag_ok_asyncs|].
  split; [exact flag_ok_pop|]. split; [exact batch_end_flag|]. exact fine_only_state.
Qed.

Print Assumptions loop_wakeup_link.
