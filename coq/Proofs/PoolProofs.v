(* Proofs about Model/Pool.v (property C12). *)
From Coq Require Import Lia ZArith ZifyBool List Bool.
From GV Require Import Lib.Trace Model.Arith Model.Pool Proofs.ArithProofs.
Import ListNotations.
Open Scope Z_scope.

Ltac splits := repeat match goal with |- _ /\ _ => split end.

(* ------------------------------------------------------------------ *)
(* size classes *)

Lemma shiftl1 i : 0 <= i -> Z.shiftl 1 i = 2^i.
Proof. intros. apply Z.shiftl_1_l. Qed.

Lemma maxint32 : MaxInt32 = 2147483647. Proof. reflexivity. Qed.

(* Put rounds the class DOWN: the implied capacity never exceeds the donated one *)
Lemma put_idx_spec c : 1 <= c <= MaxInt32 ->
  exists i, put_idx c = Ret i /\ 0 <= i <= 31 /\ 2^i <= c.
Proof.
  intros Hc. rewrite maxint32 in Hc.
  destruct (put_class_le_cap c Hc) as (i & Hp & Hi & Hle).
  exists i. split; [|split; assumption].
  unfold put_class in Hp. unfold put_idx.
  destruct (bs_index_spec c Hc) as (k & Hk & Hk31 & Hck & _).
  rewrite Hk in *. cbn [obind] in *.
  destruct (negb (c =? Z.shiftl 1 k)) eqn:E; [|assumption].
  assert (1 <= k).
  { destruct (Z.eq_dec k 0) as [->|]; [|lia]. cbn in E. cbn in Hck. lia. }
  rewrite wrapu32_id by lia. assumption.
Qed.

Lemma get_idx_spec size : 1 <= size <= MaxInt32 ->
  exists i, bs_index size = Ret i /\ 0 <= i <= 31 /\ size <= 2^i.
Proof.
  intros H. rewrite maxint32 in H.
  destruct (bs_index_spec size H) as (i & Hi & Hr & Hle & _). eauto.
Qed.

(* ------------------------------------------------------------------ *)
(* how many intervals of a list contain byte x of allocation id *)

Definition covers (v : iv) (id x : Z) : Z :=
  if (vid v =? id) && (vlo v <=? x) && (x <? vhi v) then 1 else 0.

Fixpoint cover (l : list iv) (id x : Z) : Z :=
  match l with
  | [] => 0
  | v :: l' => covers v id x + cover l' id x
  end.

Lemma covers_range v id x : 0 <= covers v id x <= 1.
Proof. unfold covers. destruct (_ && _); lia. Qed.

Lemma cover_nonneg l id x : 0 <= cover l id x.
Proof. induction l as [|v l IH]; cbn [cover]; [lia|]. pose proof (covers_range v id x). lia. Qed.

Lemma cover_app l1 l2 id x : cover (l1 ++ l2) id x = cover l1 id x + cover l2 id x.
Proof. induction l1 as [|v l1 IH]; cbn [cover app]; lia. Qed.

Lemma cover_in_le l v id x : In v l -> covers v id x <= cover l id x.
Proof.
  induction l as [|w l IH]; intros Hin; [destruct Hin|].
  cbn [cover]. destruct Hin as [->|Hin].
  - pose proof (cover_nonneg l id x). lia.
  - specialize (IH Hin). pose proof (covers_range w id x). lia.
Qed.

Lemma cover_nth_two l : forall i j a b id x, i <> j ->
  nth_error l i = Some a -> nth_error l j = Some b ->
  covers a id x + covers b id x <= cover l id x.
Proof.
  induction l as [|v l IH]; intros i j a b id x Hij Hi Hj.
  - destruct i; discriminate.
  - cbn [cover]. destruct i as [|i], j as [|j]; cbn [nth_error] in *.
    + congruence.
    + injection Hi as ->. apply nth_error_In in Hj. pose proof (cover_in_le l b id x Hj). lia.
    + injection Hj as ->. apply nth_error_In in Hi. pose proof (cover_in_le l a id x Hi). lia.
    + assert (i <> j) by congruence. specialize (IH i j a b id x H Hi Hj).
      pose proof (covers_range v id x). lia.
Qed.

Lemma cover_other_id l id x : (forall v, In v l -> vid v <> id) -> cover l id x = 0.
Proof.
  induction l as [|v l IH]; intros H; [reflexivity|].
  cbn [cover]. rewrite IH by (intros w Hw; apply H; right; assumption).
  unfold covers. specialize (H v (or_introl eq_refl)).
  destruct (Z.eqb_spec (vid v) id); [contradiction|]. reflexivity.
Qed.

Lemma cover_filter_le {A} (f : A -> iv) (p : A -> bool) l id x :
  cover (map f (filter p l)) id x <= cover (map f l) id x.
Proof.
  induction l as [|a l IH]; cbn [filter map cover]; [lia|].
  destruct (p a); cbn [map cover]; pose proof (covers_range (f a) id x); lia.
Qed.

Lemma covers_1 v id x : vid v = id -> vlo v <= x < vhi v -> covers v id x = 1.
Proof. intros H1 H2. unfold covers. destruct ((vid v =? id) && (vlo v <=? x) && (x <? vhi v)) eqn:E; lia. Qed.

Lemma overlap_common a b : iv_overlap a b = true ->
  exists x, covers a (vid a) x = 1 /\ covers b (vid a) x = 1.
Proof.
  unfold iv_overlap. intros H.
  exists (Z.max (vlo a) (vlo b)). split; apply covers_1; lia.
Qed.

Lemma inside_covers a b id x : iv_inside a b = true -> covers a id x <= covers b id x.
Proof.
  unfold iv_inside, covers. intros H.
  destruct ((vid a =? id) && (vlo a <=? x) && (x <? vhi a)) eqn:E1;
  destruct ((vid b =? id) && (vlo b <=? x) && (x <? vhi b)) eqn:E2; lia.
Qed.

(* ------------------------------------------------------------------ *)
(* ledger: release *)

Lemma owns_release led c v : existsb (own_match c v) led = true ->
  exists led', release c v led = Some led'.
Proof.
  induction led as [|o led IH]; cbn [existsb release]; intros H; [discriminate|].
  destruct (own_match c v o) eqn:E; [eauto|].
  cbn [orb] in H. destruct (IH H) as (l' & ->). eauto.
Qed.

Lemma release_cover c v led led' id x : vlo v <= vhi v ->
  release c v led = Some led' ->
  cover (map snd led) id x = cover (map snd led') id x + covers v id x.
Proof.
  intros Hv. revert led'. induction led as [|o led IH]; cbn [release]; intros led' H; [discriminate|].
  destruct (own_match c v o) eqn:E.
  - injection H as <-. cbn [map cover snd].
    unfold own_match, iv_inside in E. unfold covers; cbn [vid vlo vhi].
    destruct ((vid (snd o) =? id) && (vlo (snd o) <=? x) && (x <? vhi (snd o))) eqn:E0;
    destruct ((vid (snd o) =? id) && (vlo (snd o) <=? x) && (x <? vlo v)) eqn:E1;
    destruct ((vid (snd o) =? id) && (vhi v <=? x) && (x <? vhi (snd o))) eqn:E2;
    destruct ((vid v =? id) && (vlo v <=? x) && (x <? vhi v)) eqn:E3; lia.
  - destruct (release c v led) as [r|] eqn:Er; [|discriminate].
    injection H as <-. cbn [map cover]. rewrite (IH r eq_refl). lia.
Qed.

(* every interval left after a release lies inside an interval owned before *)
Lemma release_in c v led led' : vlo v <= vhi v ->
  release c v led = Some led' ->
  forall o', In o' led' -> exists o, In o led /\ vid (snd o') = vid (snd o) /\
             vlo (snd o) <= vlo (snd o') /\ vhi (snd o') <= vhi (snd o).
Proof.
  intros Hv. revert led'. induction led as [|o led IH]; cbn [release]; intros led' H o' Hin; [discriminate|].
  destruct (own_match c v o) eqn:E.
  - injection H as <-. unfold own_match, iv_inside in E.
    destruct Hin as [<-|[<-|Hin]]; cbn [snd vid vlo vhi].
    + exists o. split; [left; reflexivity|]. lia.
    + exists o. split; [left; reflexivity|]. lia.
    + exists o'. split; [right; assumption|]. lia.
  - destruct (release c v led) as [r|] eqn:Er; [|discriminate].
    injection H as <-. destruct Hin as [<-|Hin].
    + exists o. split; [left; reflexivity|]. lia.
    + destruct (IH r eq_refl o' Hin) as (o0 & Hi0 & Hrest).
      exists o0. split; [right; assumption|assumption].
Qed.

Lemma owns_in led c v : existsb (own_match c v) led = true ->
  exists o, In o led /\ fst o = c /\ iv_inside v (snd o) = true.
Proof.
  intros H. apply existsb_exists in H. destruct H as (o & Hin & Hm).
  unfold own_match in Hm. exists o. split; [assumption|]. lia.
Qed.

(* ------------------------------------------------------------------ *)
(* pool entries: take_entry *)

Lemma take_entry_spec ser l e rest : take_entry ser l = Some (e, rest) ->
  eser e = ser /\ In e l /\ (forall x, In x rest -> In x l) /\
  (forall id x, cover (map entry_iv l) id x = covers (entry_iv e) id x + cover (map entry_iv rest) id x).
Proof.
  revert rest. induction l as [|a l IH]; cbn [take_entry]; intros rest H; [discriminate|].
  destruct (Z.eqb_spec (eser a) ser) as [Heq|Hne].
  - injection H as <- <-. splits; auto.
    + left; reflexivity.
    + intros; right; assumption.
  - destruct (take_entry ser l) as [[x r]|] eqn:Et; [|discriminate].
    injection H as <- <-. destruct (IH r eq_refl) as (Hs & Hin & Hsub & Hcov).
    splits; auto.
    + right; assumption.
    + intros y [<-|Hy]; [left; reflexivity|right; auto].
    + intros id z. cbn [map cover]. rewrite Hcov. lia.
Qed.

(* ------------------------------------------------------------------ *)
(* the invariant behind exclusivity *)

Definition items (st : state) : list iv := map snd (ledger st) ++ map entry_iv (entries st).

Definition in_alloc (st : state) (v : iv) : Prop :=
  exists sz, In (vid v, sz) (allocs st) /\ 0 <= vlo v /\ vhi v <= sz.

Record inv (st : state) : Prop := mkInv {
  inv_cover : forall id x, cover (items st) id x <= 1;
  inv_led : forall o, In o (ledger st) -> in_alloc st (snd o);
  inv_ent : forall e, In e (entries st) -> in_alloc st (entry_iv e) /\ 0 <= ecls e <= 31;
  inv_ids : forall id sz, In (id, sz) (allocs st) -> id < next_id st
}.

Lemma inv_init : inv init.
Proof. constructor; cbn; intros; try contradiction; lia. Qed.

Lemma in_alloc_id st v : inv st -> in_alloc st v -> vid v < next_id st.
Proof. intros I (sz & Hin & _). apply (inv_ids st I) in Hin. lia. Qed.

Lemma items_ids st v : inv st -> In v (items st) -> vid v < next_id st.
Proof.
  intros I Hin. unfold items in Hin. apply in_app_or in Hin. destruct Hin as [H|H];
  apply in_map_iff in H; destruct H as (a & <- & Ha).
  - apply in_alloc_id; [assumption|]. apply (inv_led st I). assumption.
  - apply in_alloc_id; [assumption|]. apply (inv_ent st I). assumption.
Qed.

(* a fresh allocation handed to client c keeps the invariant *)
Lemma inv_alloc_for st c sz : inv st -> inv (alloc_for st c sz).
Proof.
  intros I. constructor; unfold alloc_for, items; cbn [allocs next_id entries ledger map app cover snd].
  - intros id x. fold (items st).
    destruct (Z.eq_dec id (next_id st)) as [->|Hne].
    + rewrite (cover_other_id (items st)).
      * pose proof (covers_range (mkIv (next_id st) 0 sz) (next_id st) x). lia.
      * intros v Hv. pose proof (items_ids st v I Hv). lia.
    + pose proof (inv_cover st I id x). unfold covers; cbn [vid].
      destruct (Z.eqb_spec (next_id st) id); [congruence|]. cbn [andb]. lia.
  - intros o [<-|Ho].
    + exists sz. cbn. split; [left; reflexivity|lia].
    + destruct (inv_led st I o Ho) as (s & Hin & Hb). exists s. split; [right; assumption|assumption].
  - intros e He. destruct (inv_ent st I e He) as ((s & Hin & Hb) & Hc).
    split; [|assumption]. exists s. split; [right; assumption|assumption].
  - intros id s [H|H].
    + injection H as <- <-. lia.
    + apply (inv_ids st I) in H. lia.
Qed.

Lemma cover_items st id x :
  cover (items st) id x = cover (map snd (ledger st)) id x + cover (map entry_iv (entries st)) id x.
Proof. unfold items. apply cover_app. Qed.

Lemma entry_region_iv e size :
  region_iv (mkRegion (eid e) (eoff e) size (Z.shiftl 1 (ecls e))) = entry_iv e.
Proof. reflexivity. Qed.

(* Get keeps the invariant (no discipline needed) *)
Lemma get_inv st c size choice : inv st -> inv (fst (get st c size choice)).
Proof.
  intros I. unfold get.
  destruct (size <=? 0); [assumption|].
  destruct (size >? MaxInt32); [apply inv_alloc_for; assumption|].
  destruct (bs_index size) as [idx|]; [|assumption].
  destruct ((idx <? 0) || (32 <=? idx)); [assumption|].
  destruct (choice <? 0); [apply inv_alloc_for; assumption|].
  destruct (take_entry choice (entries st)) as [[e rest]|] eqn:Et; [|assumption].
  destruct (Z.eqb_spec (ecls e) idx) as [<-|]; [|assumption].
  cbn [fst]. destruct (take_entry_spec _ _ _ _ Et) as (_ & Hin & Hsub & Hcov).
  constructor; cbn [allocs next_id entries ledger].
  - intros id x. pose proof (inv_cover st I id x) as Hc. rewrite cover_items in *.
    cbn [ledger entries map cover snd]. rewrite entry_region_iv. rewrite Hcov in Hc. lia.
  - intros o [<-|Ho]; cbn [snd].
    + rewrite entry_region_iv. destruct (inv_ent st I e Hin) as ((s & Ha & Hb) & _). exists s. auto.
    + destruct (inv_led st I o Ho) as (s & Ha & Hb). exists s. auto.
  - intros e' He'. destruct (inv_ent st I e' (Hsub e' He')) as ((s & Ha & Hb) & Hc). split; [exists s; auto|assumption].
  - apply (inv_ids st I).
Qed.

Lemma inv_bump st : inv st -> inv (bump st).
Proof. intros [A B C D]. constructor; assumption. Qed.

Lemma put_inv st c r : inv st -> op_ok st (OPut c r) -> inv (fst (put st c r)).
Proof.
  intros I [Hlen Hown]. unfold put.
  destruct (put_noop r) eqn:En; [apply inv_bump; assumption|].
  destruct Hown as [Hown|Hown]; [discriminate Hown|].
  assert (Hc : 1 <= rcap r <= MaxInt32) by (unfold put_noop in En; lia).
  destruct (put_idx_spec (rcap r) Hc) as (idx & -> & Hidx & Hle).
  destruct ((idx <? 0) || (32 <=? idx)) eqn:Eb; [lia|].
  unfold owns in Hown.
  destruct (owns_release _ _ _ Hown) as (led' & Hrel). rewrite Hrel. cbn [fst].
  assert (Hv : vlo (region_iv r) <= vhi (region_iv r)) by (cbn; lia).
  set (e := mkEntry idx (rid r) (roff r) (nput st) r).
  assert (Hins : iv_inside (entry_iv e) (region_iv r) = true).
  { unfold iv_inside, entry_iv, region_iv, e; cbn [vid vlo vhi eid eoff ecls]. rewrite shiftl1 by lia. lia. }
  destruct (owns_in _ _ _ Hown) as (o & Ho & Hoc & Hoins).
  destruct (inv_led st I o Ho) as (s & Hs & Hsb).
  constructor; cbn [allocs next_id entries ledger].
  - intros id x. pose proof (inv_cover st I id x) as Hcv. rewrite cover_items in *.
    cbn [ledger entries]. rewrite map_app, cover_app. cbn [map cover].
    rewrite (release_cover _ _ _ _ id x Hv Hrel) in Hcv.
    pose proof (inside_covers _ _ id x Hins). lia.
  - intros o' Ho'. destruct (release_in _ _ _ _ Hv Hrel o' Ho') as (o0 & Hi0 & Hid & Hlo & Hhi).
    destruct (inv_led st I o0 Hi0) as (s0 & Hs0 & Hb0). exists s0. rewrite Hid. split; [assumption|lia].
  - intros e' He'. apply in_app_or in He'. destruct He' as [He'|[<-|[]]].
    + apply (inv_ent st I). assumption.
    + split; [|cbn; lia]. exists s. unfold iv_inside in *. cbn [vid vlo vhi entry_iv region_iv e eid eoff ecls] in *.
      replace (rid r) with (vid (snd o)) by lia. split; [assumption|lia].
  - apply (inv_ids st I).
Qed.

Lemma gc_inv st keep : inv st -> inv (gc st keep).
Proof.
  intros I. constructor; unfold gc; cbn [allocs next_id entries ledger].
  - intros id x. pose proof (inv_cover st I id x) as Hc. rewrite cover_items in *. cbn [ledger entries].
    pose proof (cover_filter_le entry_iv (fun e => existsb (Z.eqb (eser e)) keep) (entries st) id x). lia.
  - apply (inv_led st I).
  - intros e He. apply filter_In in He. apply (inv_ent st I). tauto.
  - apply (inv_ids st I).
Qed.

Lemma step_inv st o : inv st -> op_ok st o -> inv (fst (step st o)).
Proof.
  intros I Hok. destruct o as [c size choice|c r|keep|c len cap|c r]; cbn [step].
  - apply get_inv; assumption.
  - apply put_inv; assumption.
  - apply gc_inv; assumption.
  - unfold mk. destruct ((0 <=? len) && (len <=? cap)); [apply inv_alloc_for|]; assumption.
  - assumption.
Qed.

(* ------------------------------------------------------------------ *)
(* histories *)

Lemma run_cons st o rest :
  run st (o :: rest) = (fst (run (fst (step st o)) rest), snd (step st o) :: snd (run (fst (step st o)) rest)).
Proof. cbn [run]. destruct (step st o) as [st1 ev]. cbn [fst snd]. destruct (run st1 rest) as [st2 evs]. reflexivity. Qed.

Lemma final_cons st o rest : final st (o :: rest) = final (fst (step st o)) rest.
Proof. unfold final. rewrite run_cons. reflexivity. Qed.

Lemma events_cons st o rest : events st (o :: rest) = snd (step st o) :: events (fst (step st o)) rest.
Proof. unfold events. rewrite run_cons. reflexivity. Qed.

Lemma final_app st ops1 ops2 : final st (ops1 ++ ops2) = final (final st ops1) ops2.
Proof.
  revert st. induction ops1 as [|o ops1 IH]; intros st; [reflexivity|].
  cbn [app]. rewrite !final_cons. apply IH.
Qed.

Lemma events_app st ops1 ops2 : events st (ops1 ++ ops2) = (events st ops1 ++ events (final st ops1) ops2)%list.
Proof.
  revert st. induction ops1 as [|o ops1 IH]; intros st; [reflexivity|].
  cbn [app]. rewrite !events_cons, final_cons, IH. reflexivity.
Qed.

Lemma events_length st ops : List.length (events st ops) = List.length ops.
Proof.
  revert st. induction ops as [|o ops IH]; intros st; [reflexivity|].
  rewrite events_cons. cbn [List.length]. rewrite IH. reflexivity.
Qed.

Lemma disciplined_app st ops1 ops2 :
  disciplined st (ops1 ++ ops2) <-> disciplined st ops1 /\ disciplined (final st ops1) ops2.
Proof.
  revert st. induction ops1 as [|o ops1 IH]; intros st.
  - cbn. tauto.
  - cbn [app disciplined]. rewrite final_cons, IH. tauto.
Qed.

(* invariant rule: a state invariant preserved by disciplined steps, and an
   event property established by them, hold along every disciplined history *)
Lemma run_rule (I : state -> Prop) (Q : state -> op -> event -> Prop) :
  (forall st o, I st -> op_ok st o -> I (fst (step st o)) /\ Q st o (snd (step st o))) ->
  forall ops st, I st -> disciplined st ops ->
    I (final st ops) /\
    forall k o ev, nth_error ops k = Some o -> nth_error (events st ops) k = Some ev ->
      exists stk, I stk /\ op_ok stk o /\ step stk o = (fst (step stk o), ev) /\ Q stk o ev.
Proof.
  intros Hstep. induction ops as [|o ops IH]; intros st HI Hd.
  - split; [assumption|]. intros [|k]; discriminate.
  - destruct Hd as [Hok Hd]. destruct (Hstep st o HI Hok) as [HI' HQ].
    destruct (IH _ HI' Hd) as [HF HE].
    rewrite final_cons, events_cons. split; [assumption|].
    intros [|k] o' ev Ho Hev; cbn [nth_error] in *.
    + injection Ho as <-. injection Hev as <-. exists st. splits; auto. destruct (step st o); reflexivity.
    + eapply HE; eassumption.
Qed.

Lemma run_inv ops st : inv st -> disciplined st ops -> inv (final st ops).
Proof.
  intros I D.
  destruct (run_rule inv (fun _ _ _ => True) (fun s o i ok => conj (step_inv s o i ok) Logic.I) ops st I D) as [H _].
  exact H.
Qed.

(* ------------------------------------------------------------------ *)
(* exclusivity *)

(* under the invariant, the items (outstanding intervals and the implied
   regions of pooled pointers) are pairwise disjoint *)
Lemma inv_pairwise st : inv st ->
  forall i j a b, i <> j -> nth_error (items st) i = Some a -> nth_error (items st) j = Some b ->
  iv_overlap a b = false.
Proof.
  intros I i j a b Hij Ha Hb. destruct (iv_overlap a b) eqn:E; [exfalso|reflexivity].
  destruct (overlap_common a b E) as (x & Hca & Hcb).
  pose proof (cover_nth_two (items st) i j a b (vid a) x Hij Ha Hb).
  pose proof (inv_cover st I (vid a) x). lia.
Qed.

Lemma excl_fresh st sz : inv st -> excl_of st (mkIv (next_id st) 0 sz) = true.
Proof.
  intros I. unfold excl_of. apply forallb_forall. intros o Ho.
  pose proof (in_alloc_id st (snd o) I (inv_led st I o Ho)).
  unfold iv_overlap; cbn [vid]. destruct (Z.eqb_spec (vid (snd o)) (next_id st)); [lia|reflexivity].
Qed.

Lemma excl_entry st e : inv st -> In e (entries st) -> excl_of st (entry_iv e) = true.
Proof.
  intros I He. unfold excl_of. apply forallb_forall. intros o Ho.
  destruct (iv_overlap (snd o) (entry_iv e)) eqn:E; [exfalso|reflexivity].
  destruct (overlap_common _ _ E) as (x & Hca & Hcb).
  pose proof (inv_cover st I (vid (snd o)) x) as Hc. rewrite cover_items in Hc.
  pose proof (cover_in_le (map snd (ledger st)) (snd o) (vid (snd o)) x (in_map snd _ _ Ho)).
  pose proof (cover_in_le (map entry_iv (entries st)) (entry_iv e) (vid (snd o)) x (in_map entry_iv _ _ He)).
  lia.
Qed.

Definition get_event_ok (ev : event) : Prop :=
  match ev with
  | EGetFresh r x => x = true
  | EGetPool r e x => x = true
  | _ => True
  end.

Lemma get_excl st c size choice : inv st -> get_event_ok (snd (get st c size choice)).
Proof.
  intros I. unfold get.
  destruct (size <=? 0); [exact Logic.I|].
  destruct (size >? MaxInt32); [cbn; apply excl_fresh; assumption|].
  destruct (bs_index size) as [idx|]; [|exact Logic.I].
  destruct ((idx <? 0) || (32 <=? idx)); [exact Logic.I|].
  destruct (choice <? 0); [cbn; apply excl_fresh; assumption|].
  destruct (take_entry choice (entries st)) as [[e rest]|] eqn:Et; [|exact Logic.I].
  destruct (Z.eqb_spec (ecls e) idx) as [<-|]; [|exact Logic.I].
  cbn. rewrite entry_region_iv. apply excl_entry; [assumption|].
  destruct (take_entry_spec _ _ _ _ Et) as (_ & Hin & _). exact Hin.
Qed.

Definition step_event_ok (st : state) (o : op) (ev : event) : Prop :=
  get_event_ok ev /\
  match o, ev with
  | OWr c r, EWr own =>
      own = true /\ forall o', In o' (ledger st) -> fst o' <> c -> iv_overlap (snd o') (region_len_iv r) = false
  | OPut c r, EPut _ d => d = true
  | _, _ => True
  end.

Lemma in_nth_error_pos {A} (l : list A) a : In a l -> exists i, nth_error l i = Some a.
Proof. apply In_nth_error. Qed.

Lemma wr_confined st c r : inv st -> owns st c (region_len_iv r) = true ->
  forall o', In o' (ledger st) -> fst o' <> c -> iv_overlap (snd o') (region_len_iv r) = false.
Proof.
  intros I Hown o' Ho' Hc.
  destruct (iv_overlap (snd o') (region_len_iv r)) eqn:E; [exfalso|reflexivity].
  destruct (owns_in _ _ _ Hown) as (o & Ho & Hoc & Hins).
  destruct (overlap_common _ _ E) as (x & Hc1 & Hc2).
  pose proof (inside_covers _ _ (vid (snd o')) x Hins) as Hle.
  destruct (In_nth_error _ _ Ho) as (i & Hi). destruct (In_nth_error _ _ Ho') as (j & Hj).
  assert (Hij : i <> j) by (intros ->; rewrite Hi in Hj; injection Hj as ->; congruence).
  pose proof (cover_nth_two (map snd (ledger st)) i j (snd o) (snd o') (vid (snd o')) x Hij
               (map_nth_error snd _ _ Hi) (map_nth_error snd _ _ Hj)) as H2.
  pose proof (inv_cover st I (vid (snd o')) x) as H1. rewrite cover_items in H1.
  pose proof (cover_nonneg (map entry_iv (entries st)) (vid (snd o')) x).
  pose proof (covers_range (snd o) (vid (snd o')) x). lia.
Qed.

Lemma step_ok st o : inv st -> op_ok st o -> inv (fst (step st o)) /\ step_event_ok st o (snd (step st o)).
Proof.
  intros I Hok. split; [apply step_inv; assumption|].
  destruct o as [c size choice|c r|keep|c len cap|c r]; cbn [step snd].
  - split; [apply get_excl; assumption|]. destruct (snd (get st c size choice)); exact Logic.I.
  - destruct Hok as [Hlen Hown]. unfold put.
    destruct (put_noop r) eqn:En; [split; [exact Logic.I|reflexivity]|].
    destruct Hown as [Hown|Hown]; [discriminate Hown|].
    destruct (put_idx (rcap r)) as [idx|]; [|split; exact Logic.I].
    destruct ((idx <? 0) || (32 <=? idx)); [split; exact Logic.I|].
    destruct (owns_release _ _ _ Hown) as (led' & ->). split; [exact Logic.I|reflexivity].
  - split; exact Logic.I.
  - unfold mk. destruct ((0 <=? len) && (len <=? cap)); split; exact Logic.I.
  - destruct Hok as [Hl Hown]. split; [exact Logic.I|]. split; [assumption|].
    apply wr_confined; assumption.
Qed.

(* C12, byte-slice part: along every disciplined history of Get/Put/GC/make/
   write by any number of clients, outstanding memory and pooled memory are
   pairwise disjoint, every Get result shares no byte with outstanding
   memory, and a client's write stays out of every other client's memory. *)
Theorem exclusive : forall ops, disciplined init ops ->
  (forall i j a b, i <> j ->
     nth_error (items (final init ops)) i = Some a -> nth_error (items (final init ops)) j = Some b ->
     iv_overlap a b = false) /\
  (forall k ev, nth_error (events init ops) k = Some ev ->
     match ev with
     | EGetFresh r x => x = true
     | EGetPool r e x => x = true
     | _ => True
     end).
Proof.
  intros ops D.
  destruct (run_rule inv step_event_ok step_ok ops init inv_init D) as [HF HE].
  split; [apply inv_pairwise; assumption|].
  intros k ev Hev.
  assert (Hk : (k < List.length ops)%nat).
  { rewrite <- (events_length init ops). apply nth_error_Some. congruence. }
  destruct (nth_error ops k) as [o|] eqn:Ho; [|apply nth_error_None in Ho; lia].
  destruct (HE k o ev Ho Hev) as (stk & _ & _ & _ & [Hg _]). exact Hg.
Qed.

(* outstanding regions only (the ledger), stated separately *)
Corollary outstanding_disjoint : forall ops, disciplined init ops ->
  forall i j a b, i <> j ->
    nth_error (ledger (final init ops)) i = Some a -> nth_error (ledger (final init ops)) j = Some b ->
    iv_overlap (snd a) (snd b) = false.
Proof.
  intros ops D i j a b Hij Ha Hb. destruct (exclusive ops D) as [H _].
  assert (Hi : (i < List.length (map snd (ledger (final init ops))))%nat)
    by (rewrite map_length; apply nth_error_Some; congruence).
  assert (Hj : (j < List.length (map snd (ledger (final init ops))))%nat)
    by (rewrite map_length; apply nth_error_Some; congruence).
  apply (H i j); [assumption| |]; unfold items; rewrite nth_error_app1 by assumption;
    apply map_nth_error; assumption.
Qed.

(* a pointer sitting in the pool never aliases outstanding memory *)
Corollary pooled_disjoint_from_outstanding : forall ops, disciplined init ops ->
  forall o e, In o (ledger (final init ops)) -> In e (entries (final init ops)) ->
    iv_overlap (snd o) (entry_iv e) = false.
Proof.
  intros ops D o e Ho He.
  pose proof (run_inv ops init inv_init D) as I.
  pose proof (excl_entry _ e I He) as Hx. unfold excl_of in Hx.
  rewrite forallb_forall in Hx. specialize (Hx o Ho). destruct (iv_overlap (snd o) (entry_iv e)); [discriminate|reflexivity].
Qed.

(* "data held in one connection's buffers can never be overwritten through
   another's": a disciplined write by client c touches no byte owned by anyone else *)
Theorem write_confined : forall ops c r, disciplined init (ops ++ [OWr c r]) ->
  forall o', In o' (ledger (final init ops)) -> fst o' <> c ->
    iv_overlap (snd o') (region_len_iv r) = false.
Proof.
  intros ops c r D. apply disciplined_app in D. destruct D as [D1 [[Hl Hown] _]].
  apply wr_confined; [apply run_inv; [exact inv_init|assumption]|assumption].
Qed.

(* ------------------------------------------------------------------ *)
(* shape of what Get returns *)

Definition got (ev : event) : option region :=
  match ev with
  | EGetFresh r _ => Some r
  | EGetPool r _ _ => Some r
  | _ => None
  end.

Theorem get_shape : forall st c size choice r,
  got (snd (get st c size choice)) = Some r ->
  0 < size /\ rlen r = size /\ size <= rcap r /\
  (size <= MaxInt32 -> exists i, 0 <= i <= 31 /\ rcap r = 2^i /\ forall j, 0 <= j -> size <= 2^j -> i <= j) /\
  (MaxInt32 < size -> rcap r = size) /\
  (inv st -> 0 <= roff r /\ in_alloc (fst (get st c size choice)) (region_iv r)).
Proof.
  intros st c size choice r. unfold get.
  destruct (Z.leb_spec size 0) as [|Hpos]; [discriminate|].
  destruct (Z.gtb_spec size MaxInt32) as [Hbig|Hsmall].
  - cbn. intros [= <-]. cbn. splits; try lia.
    intros _. split; [lia|]. exists size. cbn. split; [left; reflexivity|lia].
  - assert (Hs : 1 <= size <= 2147483647) by (rewrite maxint32 in Hsmall; lia).
    destruct (bs_index_spec size Hs) as (i & Hi & Hr & Hle & Hmin). rewrite Hi.
    destruct ((i <? 0) || (32 <=? i)) eqn:Eb; [lia|].
    destruct (choice <? 0).
    + cbn. intros [= <-]. cbn. rewrite shiftl1 by lia. splits; try lia.
      * intros _. exists i. splits; auto; lia.
      * intros _. split; [lia|]. exists (2^i). cbn. split; [left; reflexivity|lia].
    + destruct (take_entry choice (entries st)) as [[e rest]|] eqn:Et; [|discriminate].
      destruct (Z.eqb_spec (ecls e) i) as [Hc|]; [|discriminate].
      cbn. intros [= <-]. cbn. rewrite shiftl1 by lia.
      destruct (take_entry_spec _ _ _ _ Et) as (_ & Hin & _).
      splits; try lia.
      * intros _. exists i. splits; auto; lia.
      * intros I. destruct (inv_ent st I e Hin) as ((s & Ha & Hb) & _).
        cbn in *. rewrite Hc, shiftl1 in Hb by lia. split; [lia|].
        exists s. cbn. split; [assumption|lia].
Qed.

Lemma get_nil st c size choice : size <= 0 -> get st c size choice = (st, EGetNil).
Proof. intros H. unfold get. destruct (Z.leb_spec size 0); [reflexivity|lia]. Qed.

(* ------------------------------------------------------------------ *)
(* what sits in the pool came from a Put and is handed out at most once
   (no discipline assumed) *)

Definition entry_ok (st : state) (e : entry) : Prop :=
  eid e = rid (edon e) /\ eoff e = roff (edon e) /\ 0 <= ecls e <= 31 /\
  (0 <= rcap (edon e) -> 2^(ecls e) <= rcap (edon e)) /\ eser e < nput st.

Record don (st : state) : Prop := mkDon {
  don_ok : forall e, In e (entries st) -> entry_ok st e;
  don_nodup : NoDup (map eser (entries st))
}.

Lemma take_entry_nodup ser l e rest : NoDup (map eser l) -> take_entry ser l = Some (e, rest) ->
  ~ In (eser e) (map eser rest) /\ NoDup (map eser rest).
Proof.
  revert rest. induction l as [|a l IH]; cbn [take_entry]; intros rest Hnd H; [discriminate|].
  cbn [map] in Hnd. apply NoDup_cons_iff in Hnd. destruct Hnd as [Hna Hnd].
  destruct (Z.eqb_spec (eser a) ser).
  - injection H as <- <-. auto.
  - destruct (take_entry ser l) as [[x r]|] eqn:Et; [|discriminate].
    injection H as <- <-. destruct (IH r Hnd eq_refl) as [H1 H2].
    destruct (take_entry_spec _ _ _ _ Et) as (Hs & Hin & Hsub & _).
    split.
    + cbn [map]. intros [Heq|Hi]; [|contradiction].
      apply Hna. rewrite Heq. apply in_map. assumption.
    + cbn [map]. apply NoDup_cons; [|assumption].
      intros Hi. apply Hna. apply in_map_iff in Hi. destruct Hi as (y & Hy & Hyin).
      apply in_map_iff. exists y. auto.
Qed.

Lemma NoDup_snoc {A} (l : list A) a : NoDup l -> ~ In a l -> NoDup (l ++ [a]).
Proof.
  induction l as [|b l IH]; intros Hnd Hni; cbn [app].
  - constructor; [intros []|constructor].
  - apply NoDup_cons_iff in Hnd. destruct Hnd as [Hb Hnd]. apply NoDup_cons.
    + intros Hi. apply in_app_or in Hi. destruct Hi as [Hi|[->|[]]]; [contradiction|].
      apply Hni. left; reflexivity.
    + apply IH; [assumption|]. intros Hi. apply Hni. right; assumption.
Qed.

Lemma NoDup_map_filter {A B} (f : A -> B) (p : A -> bool) l : NoDup (map f l) -> NoDup (map f (filter p l)).
Proof.
  induction l as [|a l IH]; cbn [filter map]; intros Hnd; [constructor|].
  apply NoDup_cons_iff in Hnd. destruct Hnd as [Hna Hnd].
  destruct (p a); [|apply IH; assumption].
  cbn [map]. apply NoDup_cons; [|apply IH; assumption].
  intros Hi. apply Hna. apply in_map_iff in Hi. destruct Hi as (y & Hy & Hyin).
  apply filter_In in Hyin. apply in_map_iff. exists y. tauto.
Qed.

Lemma don_init : don init.
Proof. constructor; cbn; [contradiction|constructor]. Qed.

Lemma entry_ok_nput st st' e : nput st <= nput st' -> entry_ok st e -> entry_ok st' e.
Proof. unfold entry_ok. intros. splits; try tauto. lia. Qed.

Lemma step_don st o : don st -> don (fst (step st o)) /\ nput st <= nput (fst (step st o)).
Proof.
  intros [Hok Hnd]. destruct o as [c size choice|c r|keep|c len cap|c r]; cbn [step].
  - unfold get.
    destruct (size <=? 0); [split; [constructor; assumption|cbn; lia]|].
    destruct (size >? MaxInt32); [split; [constructor; assumption|cbn; lia]|].
    destruct (bs_index size) as [idx|]; [|split; [constructor; assumption|cbn; lia]].
    destruct ((idx <? 0) || (32 <=? idx)); [split; [constructor; assumption|cbn; lia]|].
    destruct (choice <? 0); [split; [constructor; assumption|cbn; lia]|].
    destruct (take_entry choice (entries st)) as [[e rest]|] eqn:Et; [|split; [constructor; assumption|cbn; lia]].
    destruct (ecls e =? idx); [|split; [constructor; assumption|cbn; lia]].
    destruct (take_entry_spec _ _ _ _ Et) as (_ & _ & Hsub & _).
    destruct (take_entry_nodup _ _ _ _ Hnd Et) as [_ Hnd'].
    cbn [fst]. split; [|cbn; lia]. constructor; cbn [entries]; [|assumption].
    intros e' He'. apply (Hok e' (Hsub e' He')).
  - unfold put.
    assert (Hb : don (bump st)).
    { constructor; cbn [bump entries]; [|assumption].
      intros e He. eapply entry_ok_nput; [|apply Hok; assumption]. cbn. lia. }
    destruct (put_noop r) eqn:En; [split; [assumption|cbn; lia]|].
    destruct (put_idx (rcap r)) as [idx|] eqn:Ep; [|split; [assumption|cbn; lia]].
    destruct ((idx <? 0) || (32 <=? idx)) eqn:Eb; [split; [assumption|cbn; lia]|].
    assert (Hne : forall led, don (mkState (allocs st) (next_id st)
                     (entries st ++ [mkEntry idx (rid r) (roff r) (nput st) r]) led (nput st + 1))).
    { intros led. constructor; cbn [entries nput].
      - intros e He. apply in_app_or in He. destruct He as [He|[<-|[]]].
        + eapply entry_ok_nput; [|apply Hok; assumption]. cbn. lia.
        + unfold entry_ok; cbn.
          splits; try lia. intros Hnn.
          assert (Hc : 1 <= rcap r <= MaxInt32) by (unfold put_noop in En; lia).
          destruct (put_idx_spec (rcap r) Hc) as (i & Hi & Hir & Hle).
          rewrite Hi in Ep. injection Ep as <-. lia.
      - rewrite map_app. cbn [map eser].
        apply NoDup_snoc; [assumption|].
        intros Hi. apply in_map_iff in Hi. destruct Hi as (y & Hy & Hyin).
        destruct (Hok y Hyin) as (_ & _ & _ & _ & Hlt). lia. }
    destruct (release c (region_iv r) (ledger st)); (split; [apply Hne|cbn; lia]).
  - split; [|cbn; lia]. constructor; cbn [gc entries].
    + intros e He. apply filter_In in He. destruct He as [He _]. apply (Hok e He).
    + apply NoDup_map_filter. assumption.
  - unfold mk. destruct ((0 <=? len) && (len <=? cap)); (split; [constructor; assumption|cbn; lia]).
  - split; [constructor; assumption|cbn; lia].
Qed.

Lemma final_snoc st ops o : final st (ops ++ [o]) = fst (step (final st ops) o).
Proof. rewrite final_app, final_cons. reflexivity. Qed.

Lemma events_snoc st ops o : events st (ops ++ [o]) = (events st ops ++ [snd (step (final st ops) o)])%list.
Proof. rewrite events_app, events_cons. reflexivity. Qed.

(* where the entries of the next state come from *)
Lemma step_entries st o e : In e (entries (fst (step st o))) ->
  In e (entries st) \/
  exists c d, o = OPut c (edon e) /\ snd (step st o) = EPut (Some e) d /\ eser e = nput st.
Proof.
  destruct o as [c size choice|c r|keep|c len cap|c r]; cbn [step].
  - unfold get.
    destruct (size <=? 0); [auto|].
    destruct (size >? MaxInt32); [auto|].
    destruct (bs_index size) as [idx|]; [|auto].
    destruct ((idx <? 0) || (32 <=? idx)); [auto|].
    destruct (choice <? 0); [auto|].
    destruct (take_entry choice (entries st)) as [[e0 rest]|] eqn:Et; [|auto].
    destruct (ecls e0 =? idx); [|auto].
    cbn. intros H. left. apply (take_entry_spec _ _ _ _ Et). assumption.
  - unfold put.
    destruct (put_noop r); [auto|].
    destruct (put_idx (rcap r)) as [idx|]; [|auto].
    destruct ((idx <? 0) || (32 <=? idx)); [auto|].
    destruct (release c (region_iv r) (ledger st)); cbn; intros H; apply in_app_or in H;
      (destruct H as [H|[<-|[]]]; [left; assumption|right; cbn; eauto]).
  - cbn. intros H. apply filter_In in H. tauto.
  - unfold mk. destruct ((0 <=? len) && (len <=? cap)); auto.
  - auto.
Qed.

Lemma step_getpool st o r e x : don st -> snd (step st o) = EGetPool r e x ->
  In e (entries st) /\ ~ In e (entries (fst (step st o))).
Proof.
  intros [Hok Hnd]. destruct o as [c size choice|c r0|keep|c len cap|c r0]; cbn [step].
  - unfold get.
    destruct (size <=? 0); [discriminate|].
    destruct (size >? MaxInt32); [discriminate|].
    destruct (bs_index size) as [idx|]; [|discriminate].
    destruct ((idx <? 0) || (32 <=? idx)); [discriminate|].
    destruct (choice <? 0); [discriminate|].
    destruct (take_entry choice (entries st)) as [[e0 rest]|] eqn:Et; [|discriminate].
    destruct (ecls e0 =? idx); [|discriminate].
    cbn. intros [= <- <- <-].
    destruct (take_entry_spec _ _ _ _ Et) as (_ & Hin & _).
    destruct (take_entry_nodup _ _ _ _ Hnd Et) as [Hni _].
    split; [assumption|]. intros Hi. apply Hni. apply in_map. assumption.
  - unfold put.
    destruct (put_noop r0); [discriminate|].
    destruct (put_idx (rcap r0)) as [idx|]; [|discriminate].
    destruct ((idx <? 0) || (32 <=? idx)); [discriminate|].
    destruct (release c (region_iv r0) (ledger st)); discriminate.
  - discriminate.
  - unfold mk. destruct ((0 <=? len) && (len <=? cap)); discriminate.
  - discriminate.
Qed.

Record hist (ops : list op) : Prop := mkHist {
  h_don : don (final init ops);
  h_src : forall e, In e (entries (final init ops)) ->
          exists j c d, nth_error ops j = Some (OPut c (edon e)) /\
                        nth_error (events init ops) j = Some (EPut (Some e) d);
  h_unused : forall e, In e (entries (final init ops)) ->
             forall j r x, nth_error (events init ops) j <> Some (EGetPool r e x);
  h_ser : forall j r e x, nth_error (events init ops) j = Some (EGetPool r e x) ->
          eser e < nput (final init ops)
}.

Lemma nth_error_snoc_cases {A} (l : list A) a j v : nth_error (l ++ [a]) j = Some v ->
  (nth_error l j = Some v /\ (j < List.length l)%nat) \/ (j = List.length l /\ v = a).
Proof.
  intros H. destruct (Nat.lt_ge_cases j (List.length l)) as [Hlt|Hge].
  - left. rewrite nth_error_app1 in H by assumption. auto.
  - right. rewrite nth_error_app2 in H by assumption.
    destruct (j - List.length l)%nat as [|k] eqn:E; cbn in H.
    + injection H as <-. split; [lia|reflexivity].
    + destruct k; discriminate.
Qed.

Lemma nth_error_snoc_old {A} (l : list A) a j v : nth_error l j = Some v -> nth_error (l ++ [a]) j = Some v.
Proof. intros H. rewrite nth_error_app1; [assumption|]. apply nth_error_Some. congruence. Qed.

Lemma nth_error_snoc_new {A} (l : list A) a : nth_error (l ++ [a]) (List.length l) = Some a.
Proof. rewrite nth_error_app2 by lia. rewrite Nat.sub_diag. reflexivity. Qed.

Lemma hist_all ops : hist ops.
Proof.
  induction ops as [|o ops IH] using rev_ind.
  - constructor; cbn.
    + exact don_init.
    + contradiction.
    + contradiction.
    + intros [|j]; discriminate.
  - destruct IH as [Hd Hsrc Hun Hser].
    set (st := final init ops) in *.
    destruct (step_don st o Hd) as [Hd' Hmono].
    constructor; rewrite ?final_snoc, ?events_snoc; fold st.
    + assumption.
    + intros e He. destruct (step_entries st o e He) as [Hold|(c & d & -> & Hev & _)].
      * destruct (Hsrc e Hold) as (j & c & d & Hj & Hej).
        exists j, c, d. split; apply nth_error_snoc_old; assumption.
      * exists (List.length ops), c, d. split.
        -- apply nth_error_snoc_new.
        -- rewrite <- (events_length init ops), <- Hev. apply nth_error_snoc_new.
    + intros e He j r x Hj.
      apply nth_error_snoc_cases in Hj. destruct Hj as [[Hj _]|[_ Hj]].
      * destruct (step_entries st o e He) as [Hold|(c & d & _ & _ & Hs)].
        -- exact (Hun e Hold j r x Hj).
        -- pose proof (Hser j r e x Hj). lia.
      * symmetry in Hj. destruct (step_getpool st o r e x Hd Hj) as [_ Hni]. contradiction.
    + intros j r e x Hj.
      apply nth_error_snoc_cases in Hj. destruct Hj as [[Hj _]|[_ Hj]].
      * pose proof (Hser j r e x Hj). lia.
      * symmetry in Hj. destruct (step_getpool st o r e x Hd Hj) as [Hin _].
        destruct (don_ok st Hd e Hin) as (_ & _ & _ & _ & Hlt). lia.
Qed.

(* "never hands out memory beyond that slice's own capacity": whatever Get
   takes from the pool starts where a slice donated by an earlier Put of this
   history starts, does not extend beyond that slice's capacity, and that
   donation has not been handed out before.  Holds for every history, with or
   without discipline, for every slice shape. *)
Theorem get_within_donation : forall ops c size choice r e x,
  (forall c' d, In (OPut c' d) ops -> 0 <= rcap d) ->
  snd (get (final init ops) c size choice) = EGetPool r e x ->
  (exists j c' b, nth_error ops j = Some (OPut c' (edon e)) /\
                  nth_error (events init ops) j = Some (EPut (Some e) b)) /\
  rid r = rid (edon e) /\ roff r = roff (edon e) /\ rcap r <= rcap (edon e) /\
  within_donation r e = true /\
  (forall j r' x', nth_error (events init ops) j <> Some (EGetPool r' e x')).
Proof.
  intros ops c size choice r e x Hwf Hg.
  destruct (hist_all ops) as [Hd Hsrc Hun Hser].
  pose proof (step_getpool (final init ops) (OGet c size choice) r e x Hd Hg) as [Hin _].
  destruct (Hsrc e Hin) as (j & c' & b & Hj & Hej).
  destruct (don_ok _ Hd e Hin) as (Hid & Hoff & Hcls & Hcap & _).
  assert (Hnn : 0 <= rcap (edon e)) by (apply (Hwf c'); eapply nth_error_In; eassumption).
  specialize (Hcap Hnn).
  assert (Hr : rid r = eid e /\ roff r = eoff e /\ rcap r = 2^(ecls e)).
  { revert Hg. unfold get.
    destruct (size <=? 0); [discriminate|].
    destruct (size >? MaxInt32); [discriminate|].
    destruct (bs_index size) as [idx|]; [|discriminate].
    destruct ((idx <? 0) || (32 <=? idx)); [discriminate|].
    destruct (choice <? 0); [discriminate|].
    destruct (take_entry choice (entries (final init ops))) as [[e0 rest]|]; [|discriminate].
    destruct (Z.eqb_spec (ecls e0) idx) as [<-|]; [|discriminate].
    cbn. intros [= <- <- <-]. cbn. rewrite shiftl1 by (destruct Hcls; lia). auto. }
  destruct Hr as (Hr1 & Hr2 & Hr3).
  splits.
  - exists j, c', b. auto.
  - congruence.
  - congruence.
  - lia.
  - unfold within_donation, iv_inside, region_iv; cbn [vid vlo vhi]. lia.
  - apply Hun. assumption.
Qed.

(* a fresh result is a new allocation: it is part of no earlier allocation *)
Lemma ids_final ops : forall id sz, In (id, sz) (allocs (final init ops)) -> id < next_id (final init ops).
Proof.
  induction ops as [|o ops IH] using rev_ind; [cbn; contradiction|].
  rewrite final_snoc. set (st := final init ops) in *.
  destruct o as [c size choice|c r|keep|c len cap|c r]; cbn [step].
  - unfold get.
    destruct (size <=? 0); [exact IH|].
    destruct (size >? MaxInt32).
    { cbn. intros id sz [[= <- <-]|H]; [lia|]. specialize (IH id sz H). lia. }
    destruct (bs_index size) as [idx|]; [|exact IH].
    destruct ((idx <? 0) || (32 <=? idx)); [exact IH|].
    destruct (choice <? 0).
    { cbn. intros id sz [[= <- <-]|H]; [lia|]. specialize (IH id sz H). lia. }
    destruct (take_entry choice (entries st)) as [[e0 rest]|]; [|exact IH].
    destruct (ecls e0 =? idx); exact IH.
  - unfold put.
    destruct (put_noop r); [exact IH|].
    destruct (put_idx (rcap r)) as [idx|]; [|exact IH].
    destruct ((idx <? 0) || (32 <=? idx)); [exact IH|].
    destruct (release c (region_iv r) (ledger st)); exact IH.
  - exact IH.
  - unfold mk. destruct ((0 <=? len) && (len <=? cap)); [|exact IH].
    cbn. intros id sz [[= <- <-]|H]; [lia|]. specialize (IH id sz H). lia.
  - exact IH.
Qed.

Theorem get_fresh_is_new : forall ops c size choice r x,
  snd (get (final init ops) c size choice) = EGetFresh r x ->
  roff r = 0 /\ forall sz, ~ In (rid r, sz) (allocs (final init ops)).
Proof.
  intros ops c size choice r x. unfold get.
  pose proof (ids_final ops) as Hids.
  destruct (size <=? 0); [discriminate|].
  destruct (size >? MaxInt32).
  { cbn. intros [= <- _]. cbn. split; [reflexivity|]. intros sz H. specialize (Hids _ _ H). lia. }
  destruct (bs_index size) as [idx|]; [|discriminate].
  destruct ((idx <? 0) || (32 <=? idx)); [discriminate|].
  destruct (choice <? 0).
  { cbn. intros [= <- _]. cbn. split; [reflexivity|]. intros sz H. specialize (Hids _ _ H). lia. }
  destruct (take_entry choice (entries (final init ops))) as [[e0 rest]|]; [|discriminate].
  destruct (ecls e0 =? idx); discriminate.
Qed.

(* ------------------------------------------------------------------ *)
(* ring-buffer pool *)

Lemma in_snd {A B} (a : A) (b : B) l : In (a, b) l -> In b (map snd l).
Proof. intros H. change b with (snd (a, b)). apply in_map. assumption. Qed.

Record rbinv (st : rbstate) : Prop := mkRbInv {
  rb_bag_ok : forall s id, In (s, id) (rb_bag st) -> lookup id (rb_bufs st) = 0 /\ rb_unheld st id = true;
  rb_bag_nodup : NoDup (map snd (rb_bag st));
  rb_held_nodup : NoDup (map snd (rb_held st));
  rb_held_lt : forall o, In o (rb_held st) -> snd o < rb_next st;
  rb_bag_lt : forall s id, In (s, id) (rb_bag st) -> id < rb_next st
}.

Lemma rbinv_init : rbinv rb_init.
Proof. constructor; cbn; try contradiction; constructor. Qed.

Lemma unheld_not_in held id : forallb (fun o : Z * Z => negb (snd o =? id)) held = true <-> ~ In id (map snd held).
Proof.
  induction held as [|o l IH]; cbn [forallb map In]; [tauto|].
  rewrite andb_true_iff, IH. destruct (Z.eqb_spec (snd o) id); cbn; intuition congruence.
Qed.

Lemma holds_in held c id : existsb (held_by c id) held = true -> In (c, id) held.
Proof.
  intros H. apply existsb_exists in H. destruct H as ([c' id'] & Hin & Hm).
  unfold held_by in Hm. cbn in Hm. assert (c' = c /\ id' = id) as [-> ->] by lia. assumption.
Qed.

Lemma lookup_update_same id v l : lookup id (update id v l) = v \/ lookup id (update id v l) = 0.
Proof.
  induction l as [|[k w] l IH]; cbn [update lookup]; [auto|].
  destruct (Z.eqb_spec k id) as [->|Hne]; cbn [lookup].
  - rewrite Z.eqb_refl. auto.
  - destruct (Z.eqb_spec k id); [contradiction|]. assumption.
Qed.

Lemma lookup_update_other id id' v l : id' <> id -> lookup id' (update id v l) = lookup id' l.
Proof.
  intros Hne. induction l as [|[k w] l IH]; cbn [update lookup]; [reflexivity|].
  destruct (Z.eqb_spec k id) as [->|Hk]; cbn [lookup].
  - destruct (Z.eqb_spec id id'); [congruence|reflexivity].
  - rewrite IH. reflexivity.
Qed.

Lemma drop_first_spec c id held : NoDup (map snd held) -> In (c, id) held ->
  ~ In id (map snd (drop_first c id held)) /\ NoDup (map snd (drop_first c id held)) /\
  (forall o, In o (drop_first c id held) -> In o held).
Proof.
  induction held as [|o l IH]; cbn [drop_first map]; intros Hnd Hin; [contradiction|].
  apply NoDup_cons_iff in Hnd. destruct Hnd as [Hna Hnd].
  destruct (held_by c id o) eqn:E.
  - unfold held_by in E. assert (snd o = id) by lia. subst id. splits; auto. intros; right; assumption.
  - destruct Hin as [->|Hin]; [unfold held_by in E; cbn in E; lia|].
    destruct (IH Hnd Hin) as (H1 & H2 & H3).
    splits.
    + cbn [map]. intros [Heq|Hi]; [|contradiction].
      apply Hna. rewrite Heq. eapply in_snd; eassumption.
    + cbn [map]. apply NoDup_cons; [|assumption].
      intros Hi. apply Hna. apply in_map_iff in Hi. destruct Hi as (y & Hy & Hyin).
      apply in_map_iff. exists y. auto.
    + intros y [<-|Hy]; [left; reflexivity|right; auto].
Qed.

Lemma drop_first_sub c id held o : In o (drop_first c id held) -> In o held.
Proof.
  induction held as [|a l IH]; cbn [drop_first]; [auto|].
  destruct (held_by c id a); [intros; right; assumption|].
  intros [<-|H]; [left; reflexivity|right; auto].
Qed.

Lemma take_rb_spec ser l id rest : take_rb ser l = Some (id, rest) ->
  In (ser, id) l /\ (forall x, In x rest -> In x l) /\
  (NoDup (map snd l) -> ~ In id (map snd rest) /\ NoDup (map snd rest)).
Proof.
  revert rest. induction l as [|[s i] l IH]; cbn [take_rb]; intros rest H; [discriminate|].
  destruct (Z.eqb_spec s ser) as [->|Hne].
  - injection H as <- <-. splits.
    + left; reflexivity.
    + intros; right; assumption.
    + cbn [map snd]. intros Hnd. apply NoDup_cons_iff in Hnd. assumption.
  - destruct (take_rb ser l) as [[x r]|] eqn:Et; [|discriminate].
    injection H as <- <-. destruct (IH r eq_refl) as (H1 & H2 & H3). splits.
    + right; assumption.
    + intros y [<-|Hy]; [left; reflexivity|right; auto].
    + cbn [map snd]. intros Hnd. apply NoDup_cons_iff in Hnd. destruct Hnd as [Hna Hnd].
      destruct (H3 Hnd) as [H4 H5]. split.
      * intros [Heq|Hi]; [|contradiction]. apply Hna. subst i.
        eapply in_snd; eassumption.
      * apply NoDup_cons; [|assumption]. intros Hi. apply Hna.
        apply in_map_iff in Hi. destruct Hi as (y & Hy & Hyin). apply in_map_iff. exists y. auto.
Qed.

Definition rb_event_ok (ev : rbevent) : Prop :=
  match ev with
  | RGot id b x => b = 0 /\ x = true
  | RUsed own => own = true
  | RPutDone d _ => d = true
  | _ => True
  end.

Lemma rb_step_ok st o : rbinv st -> rb_op_ok st o ->
  rbinv (fst (rb_step st o)) /\ rb_event_ok (snd (rb_step st o)).
Proof.
  intros [Hbag Hbnd Hhnd Hhlt Hblt] Hok.
  assert (Hfresh_unheld : rb_unheld st (rb_next st) = true).
  { apply unheld_not_in. intros Hi. apply in_map_iff in Hi. destruct Hi as (o' & Ho' & Hin).
    specialize (Hhlt o' Hin). lia. }
  assert (Hfresh : forall c, rbinv (mkRb (rb_next st + 1) ((rb_next st, 0) :: rb_bufs st) (rb_bag st)
                                      ((c, rb_next st) :: rb_held st) (rb_nput st))).
  { intros c. constructor; cbn [rb_bag rb_bufs rb_held rb_next].
    - intros s id Hin. destruct (Hbag s id Hin) as [Hl Hu]. specialize (Hblt s id Hin).
      split.
      + cbn [lookup]. destruct (Z.eqb_spec (rb_next st) id); [lia|assumption].
      + unfold rb_unheld in *. cbn [rb_held forallb snd]. rewrite Hu.
        destruct (Z.eqb_spec (rb_next st) id); [lia|reflexivity].
    - assumption.
    - cbn [map snd]. apply NoDup_cons; [|assumption]. apply unheld_not_in. exact Hfresh_unheld.
    - intros o' [<-|Hin]; [cbn; lia|]. specialize (Hhlt o' Hin). lia.
    - intros s id Hin. specialize (Hblt s id Hin). lia. }
  destruct o as [c choice|c|c id n|c id kept|keep]; cbn [rb_step].
  - destruct (choice <? 0).
    + cbn [fst snd]. split; [apply Hfresh|]. cbn. auto.
    + destruct (take_rb choice (rb_bag st)) as [[id rest]|] eqn:Et; [|split; [constructor; assumption|exact Logic.I]].
      destruct (take_rb_spec _ _ _ _ Et) as (Hin & Hsub & Hnd). destruct (Hnd Hbnd) as [Hni Hnd'].
      destruct (Hbag _ _ Hin) as [Hl Hu]. cbn [fst snd]. split; [|cbn; auto].
      constructor; cbn [rb_bag rb_bufs rb_held rb_next].
      * intros s id' Hin'. destruct (Hbag s id' (Hsub _ Hin')) as [Hl' Hu']. split; [assumption|].
        unfold rb_unheld in *. cbn [rb_held forallb snd]. rewrite Hu'.
        destruct (Z.eqb_spec id id') as [->|]; [|reflexivity].
        exfalso. apply Hni. eapply in_snd; eassumption.
      * assumption.
      * cbn [map snd]. apply NoDup_cons; [|assumption]. apply unheld_not_in. exact Hu.
      * intros o' [<-|Hin']; [cbn; apply (Hblt _ _ Hin)|apply Hhlt; assumption].
      * intros s id' Hin'. apply (Hblt s id'). apply Hsub. assumption.
  - cbn [fst snd]. split; [apply Hfresh|exact Logic.I].
  - destruct Hok as [Hh Hn]. rewrite Hh. unfold rb_holds in Hh. cbn [fst snd]. split; [|reflexivity].
    pose proof (holds_in _ _ _ Hh) as Hin.
    constructor; cbn [rb_bag rb_bufs rb_held rb_next]; auto.
    intros s id' Hin'. destruct (Hbag s id' Hin') as [Hl Hu]. split; [|exact Hu].
    rewrite lookup_update_other; [assumption|].
    intros ->. apply unheld_not_in in Hu. apply Hu. eapply in_snd; eassumption.
  - cbn [rb_op_ok] in Hok. rewrite Hok. unfold rb_holds in Hok.
    pose proof (holds_in _ _ _ Hok) as Hin.
    destruct (drop_first_spec c id (rb_held st) Hhnd Hin) as (Hni & Hnd' & Hsub).
    assert (Hnotbag : ~ In id (map snd (rb_bag st))).
    { intros Hi. apply in_map_iff in Hi. destruct Hi as ([s i] & Hs & Hib). cbn in Hs. subst i.
      destruct (Hbag _ _ Hib) as [_ Hu]. apply unheld_not_in in Hu. apply Hu.
      eapply in_snd; eassumption. }
    destruct kept; cbn [fst snd]; (split; [|reflexivity]);
      constructor; cbn [rb_bag rb_bufs rb_held rb_next].
    + intros s id' Hin'. apply in_app_or in Hin'. destruct Hin' as [Hin'|[[= <- <-]|[]]].
      * destruct (Hbag s id' Hin') as [Hl Hu].
        assert (id' <> id).
        { intros ->. apply Hnotbag. eapply in_snd; eassumption. }
        split; [rewrite lookup_update_other; assumption|].
        apply unheld_not_in. apply unheld_not_in in Hu. intros Hi. apply Hu.
        apply in_map_iff in Hi. destruct Hi as (y & Hy & Hyin). apply in_map_iff. exists y. auto.
      * split; [|apply unheld_not_in; assumption].
        destruct (lookup_update_same id 0 (rb_bufs st)); assumption.
    + rewrite map_app. cbn [map snd]. apply NoDup_snoc; assumption.
    + assumption.
    + intros o' Ho'. apply Hhlt. apply Hsub. assumption.
    + intros s id' Hin'. apply in_app_or in Hin'. destruct Hin' as [Hin'|[[= <- <-]|[]]].
      * apply (Hblt s id'). assumption.
      * apply (Hhlt (c, id)). assumption.
    + intros s id' Hin'. destruct (Hbag s id' Hin') as [Hl Hu]. split; [assumption|].
      apply unheld_not_in. apply unheld_not_in in Hu. intros Hi. apply Hu.
      apply in_map_iff in Hi. destruct Hi as (y & Hy & Hyin). apply in_map_iff. exists y. auto.
    + assumption.
    + assumption.
    + intros o' Ho'. apply Hhlt. apply Hsub. assumption.
    + assumption.
  - cbn [fst snd]. split; [|exact Logic.I]. constructor; cbn [rb_bag rb_bufs rb_held rb_next]; auto.
    + intros s id Hin. apply filter_In in Hin. apply (Hbag s id). tauto.
    + apply NoDup_map_filter. assumption.
    + intros s id Hin. apply filter_In in Hin. apply (Hblt s id). tauto.
Qed.

Lemma rb_run_cons st o rest :
  rb_run st (o :: rest) = (fst (rb_run (fst (rb_step st o)) rest),
                           snd (rb_step st o) :: snd (rb_run (fst (rb_step st o)) rest)).
Proof. cbn [rb_run]. destruct (rb_step st o) as [st1 ev]. cbn [fst snd]. destruct (rb_run st1 rest). reflexivity. Qed.

Lemma rb_run_ok ops : forall st, rbinv st -> rb_disciplined st ops ->
  rbinv (fst (rb_run st ops)) /\ Forall rb_event_ok (snd (rb_run st ops)).
Proof.
  induction ops as [|o ops IH]; intros st I D.
  - cbn. auto.
  - destruct D as [Hok D]. destruct (rb_step_ok st o I Hok) as [I' Hev].
    rewrite rb_run_cons. cbn [fst snd]. destruct (IH _ I' D) as [HF HE]. split; [assumption|].
    constructor; assumption.
Qed.

(* C12, ring-buffer part: in every history in which a ring buffer is returned
   only by its holder and used only by its holder, whatever Get hands out is
   empty (fresh, or Reset by Put) and held by nobody else; and no ring buffer
   is ever held twice. *)
Theorem rbpool_get_empty_unshared : forall ops, rb_disciplined rb_init ops ->
  (forall k id b x, nth_error (snd (rb_run rb_init ops)) k = Some (RGot id b x) -> b = 0 /\ x = true) /\
  NoDup (map snd (rb_held (fst (rb_run rb_init ops)))).
Proof.
  intros ops D. destruct (rb_run_ok ops rb_init rbinv_init D) as [HI HE]. split.
  - intros k id b x Hk. rewrite Forall_forall in HE. apply (HE (RGot id b x)).
    eapply nth_error_In. eassumption.
  - apply (rb_held_nodup _ HI).
Qed.

(* ------------------------------------------------------------------ *)
(* the discipline hypothesis is necessary: donating the same memory twice
   (what conn.release did with the two Zone strings of a dialled IPv6
   link-local connection before the fix) makes two later Gets alias.
   Client 9 is package net (owner of the zone-cache string, 4 bytes);
   client 1 is the connection, which Puts that string's bytes twice. *)
Definition zone : region := mkRegion 0 0 4 4.
Definition zone_history : list op :=
  [OMk 9 4 4; OPut 1 zone; OPut 1 zone; OGet 2 4 0; OGet 3 4 1].

Lemma zone_history_undisciplined : ~ disciplined init zone_history.
Proof. cbn. intros (_ & (_ & [H|H]) & _); discriminate H. Qed.

Lemma double_put_aliases :
  exists r1 e1 r2 e2,
    nth_error (events init zone_history) 3 = Some (EGetPool r1 e1 false) /\
    nth_error (events init zone_history) 4 = Some (EGetPool r2 e2 false) /\
    iv_overlap (region_iv r1) (region_iv r2) = true /\
    iv_overlap (region_iv r1) (region_iv zone) = true.
Proof. vm_compute. do 4 eexists. splits; reflexivity. Qed.

(* ------------------------------------------------------------------ *)
(* non-vacuity: a disciplined history over two clients with an odd-capacity
   foreign slice, a re-sliced tail, a GC and reuse *)
Definition ex_history : list op :=
  [OGet 1 100 (-1);                              (* alloc 0: cap 128 *)
   OMk 2 10 13;                                  (* alloc 1: foreign, odd cap *)
   OPut 2 (mkRegion 1 0 10 13);                  (* stored in class 3 (8 <= 13) *)
   OPut 1 (mkRegion 0 28 72 100);                (* tail b[28:]: class 6 (64 <= 100) *)
   OWr 1 (mkRegion 0 0 28 28);                   (* the head is still owned by client 1 *)
   OGet 2 8 0;                                   (* client 2 gets the 13-byte donation back, cap 8 *)
   OGet 3 40 1;                                  (* client 3 gets the tail, cap 64 *)
   OGc [];
   OGet 1 2147483648 (-1)].

Example ex_history_disciplined : disciplined init ex_history.
Proof. cbn. repeat split; try lia; auto. Qed.

Example ex_history_events :
  events init ex_history =
  [EGetFresh (mkRegion 0 0 100 128) true; EMk (mkRegion 1 0 10 13);
   EPut (Some (mkEntry 3 1 0 0 (mkRegion 1 0 10 13))) true;
   EPut (Some (mkEntry 6 0 28 1 (mkRegion 0 28 72 100))) true;
   EWr true;
   EGetPool (mkRegion 1 0 8 8) (mkEntry 3 1 0 0 (mkRegion 1 0 10 13)) true;
   EGetPool (mkRegion 0 28 40 64) (mkEntry 6 0 28 1 (mkRegion 0 28 72 100)) true;
   EGc;
   EGetFresh (mkRegion 2 0 2147483648 2147483648) true].
Proof. vm_compute. reflexivity. Qed.

Definition ex_rb_history : list rbop :=
  [RGet 1 (-1); RUse 1 0 700; RPut 1 0 true; RGet 2 0; RMk 3; RUse 3 1 5; RPut 3 1 false; RGc []].

Example ex_rb_disciplined : rb_disciplined rb_init ex_rb_history.
Proof. cbn. repeat split; try lia; auto. Qed.

Example ex_rb_events :
  snd (rb_run rb_init ex_rb_history) =
  [RGot 0 0 true; RUsed true; RPutDone true 0; RGot 0 0 true; RMade 1; RUsed true; RPutDone true 5; RGcDone].
Proof. vm_compute. reflexivity. Qed.

(* ------------------------------------------------------------------ *)
(* the statements as exported to Properties/C12.v (definitions unfolded) *)

Theorem get_shape_hist : forall ops c size choice r,
  disciplined init ops ->
  (exists x, snd (get (final init ops) c size choice) = EGetFresh r x) \/
  (exists e x, snd (get (final init ops) c size choice) = EGetPool r e x) ->
  0 < size /\ rlen r = size /\ size <= rcap r /\
  (size <= MaxInt32 -> exists i, 0 <= i <= 31 /\ rcap r = 2^i /\ forall j, 0 <= j -> size <= 2^j -> i <= j) /\
  (MaxInt32 < size -> rcap r = size) /\
  0 <= roff r /\
  exists sz, In (rid r, sz) (allocs (fst (get (final init ops) c size choice))) /\ roff r + rcap r <= sz.
Proof.
  intros ops c size choice r D Hg.
  assert (Hgot : got (snd (get (final init ops) c size choice)) = Some r).
  { destruct Hg as [(x & ->)|(e & x & ->)]; reflexivity. }
  destruct (get_shape _ _ _ _ _ Hgot) as (H1 & H2 & H3 & H4 & H5 & H6).
  destruct (H6 (run_inv ops init inv_init D)) as (H7 & sz & Hin & Hlo & Hhi).
  splits; auto. exists sz. split; [exact Hin|exact Hhi].
Qed.

Theorem get_nonpositive : forall st c size choice, size <= 0 -> get st c size choice = (st, EGetNil).
Proof. exact get_nil. Qed.

Theorem exclusive_items : forall ops, disciplined init ops ->
  (forall i j a b, i <> j ->
     nth_error (map snd (ledger (final init ops)) ++ map entry_iv (entries (final init ops))) i = Some a ->
     nth_error (map snd (ledger (final init ops)) ++ map entry_iv (entries (final init ops))) j = Some b ->
     iv_overlap a b = false) /\
  (forall k ev, nth_error (events init ops) k = Some ev ->
     match ev with
     | EGetFresh r x => x = true
     | EGetPool r e x => x = true
     | EPut _ d => d = true
     | EWr own => own = true
     | _ => True
     end).
Proof.
  intros ops D. destruct (exclusive ops D) as [H1 H2]. split; [exact H1|].
  intros k ev Hev.
  destruct (run_rule inv step_event_ok step_ok ops init inv_init D) as [_ HE].
  assert (Hk : (k < List.length ops)%nat).
  { rewrite <- (events_length init ops). apply nth_error_Some. congruence. }
  destruct (nth_error ops k) as [o|] eqn:Ho; [|apply nth_error_None in Ho; lia].
  destruct (HE k o ev Ho Hev) as (stk & _ & _ & Hst & [Hg Hq]).
  destruct ev; try exact Logic.I; try exact Hg.
  - destruct o; try exact Hq;
      (exfalso; revert Hst; cbn [step]).
    + unfold get. destruct (size <=? 0); [discriminate|].
      destruct (size >? MaxInt32); [discriminate|].
      destruct (bs_index size) as [idx|]; [|discriminate].
      destruct ((idx <? 0) || (32 <=? idx)); [discriminate|].
      destruct (choice <? 0); [discriminate|].
      destruct (take_entry choice (entries stk)) as [[e0 rest]|]; [|discriminate].
      destruct (ecls e0 =? idx); discriminate.
    + discriminate.
    + unfold mk. destruct ((0 <=? len) && (len <=? cap)); discriminate.
    + discriminate.
  - destruct o; try exact (proj1 Hq);
      (exfalso; revert Hst; cbn [step]).
    + unfold get. destruct (size <=? 0); [discriminate|].
      destruct (size >? MaxInt32); [discriminate|].
      destruct (bs_index size) as [idx|]; [|discriminate].
      destruct ((idx <? 0) || (32 <=? idx)); [discriminate|].
      destruct (choice <? 0); [discriminate|].
      destruct (take_entry choice (entries stk)) as [[e0 rest]|]; [|discriminate].
      destruct (ecls e0 =? idx); discriminate.
    + unfold put. destruct (put_noop r); [discriminate|].
      destruct (put_idx (rcap r)) as [idx|]; [|discriminate].
      destruct ((idx <? 0) || (32 <=? idx)); [discriminate|].
      destruct (release c (region_iv r) (ledger stk)); discriminate.
    + discriminate.
    + unfold mk. destruct ((0 <=? len) && (len <=? cap)); discriminate.
Qed.

(* ------------------------------------------------------------------ *)
(* call sites: the table is well formed - every Get site is classified as a
   Get, every Put site carries a reason why the donated memory is dropped by
   its owner in the same step (or under which documented API contract), and
   nothing else (no method value, no other identifier of the pool packages)
   is used.  That the table lists exactly the call sites of the current
   source is the per-run obligation GenSites.sites_ok. *)
Open Scope string_scope.
Open Scope Z_scope.

Lemma discipline_of_sites : forall f fn callee arg w, In ((f, fn, callee, arg), w) site_table ->
  (w = GetSite /\ (callee = "byteslice.Get" \/ callee = "ringbuffer.Get")) \/
  ((exists r, w = PutOwnedDropped r \/ w = PutApiContract r) /\
   (callee = "byteslice.Put" \/ callee = "ringbuffer.Put")).
Proof.
  intros f fn callee arg w H. unfold site_table in H.
  repeat (destruct H as [H|H];
    [injection H as <- <- <- <- <-;
     first [ left; split; [reflexivity|first [left; reflexivity|right; reflexivity]]
           | right; split; [eexists; first [left; reflexivity|right; reflexivity]
                           |first [left; reflexivity|right; reflexivity]] ]
    |]).
  destruct H.
Qed.
