// drv-addr drives gnet.parseProtoAddr, the option normalisation of
// NewClient / createListeners and determineEventLoops (C16) and writes the
// trace consumed by the extracted model (family "addr").
package main

import (
	"flag"
	"fmt"
	"math/bits"
	"net/url"
	"path"
	"regexp"
	"strings"

	gnet "github.com/panjf2000/gnet/v2"

	"verifharness/tr"
)

var w *tr.Writer

// ------------------------------------------------------------------ oracle

var sevenSchemes = map[string]bool{"tcp": true, "tcp4": true, "tcp6": true, "udp": true, "udp4": true, "udp6": true, "unix": true}

const (
	reRegName  = `[A-Za-z0-9._~!$&'()*+,;=-]+`
	reIPv6     = `\[[0-9A-Fa-f:.]+(?:%[A-Za-z0-9._~%-]+)?\]`
	reHostPort = `(?:` + reRegName + `|` + reIPv6 + `)(?::[0-9]*)?`
	rePath     = `[A-Za-z0-9._/-]*`
)

var (
	reInetExact = regexp.MustCompile(`^(?i:(tcp|tcp4|tcp6|udp|udp4|udp6))://(` + reHostPort + `)$`)
	reInetEmpty = regexp.MustCompile(`^(?i:(tcp|tcp4|tcp6|udp|udp4|udp6))://$`)
	reInetPath  = regexp.MustCompile(`^(?i:(tcp|tcp4|tcp6|udp|udp4|udp6))://(` + reHostPort + `)/` + rePath + `$`)
	reOther     = regexp.MustCompile(`^([A-Za-z][A-Za-z0-9+.-]*)://(` + reHostPort + `)$`)
	reUnix      = regexp.MustCompile(`^(?i:unix)://(` + rePath + `)$`)
	reNoColon   = regexp.MustCompile(`^[^:]*$`)
)

// refClean is an independent lexical path cleaner (segment stack), the
// reference for "the cleaned path" of the property.
func refClean(p string) string {
	if p == "" {
		return "."
	}
	rooted := p[0] == '/'
	var st []string
	for _, seg := range strings.Split(p, "/") {
		switch seg {
		case "", ".":
		case "..":
			if len(st) > 0 && st[len(st)-1] != ".." {
				st = st[:len(st)-1]
			} else if !rooted {
				st = append(st, "..")
			}
		default:
			st = append(st, seg)
		}
	}
	r := strings.Join(st, "/")
	if rooted {
		return "/" + r
	}
	if r == "" {
		return "."
	}
	return r
}

func lowerASCII(s string) string {
	b := []byte(s)
	for i, c := range b {
		if 'A' <= c && c <= 'Z' {
			b[i] = c + 32
		}
	}
	return string(b)
}

func short(s string) string {
	if len(s) > 60 {
		s = s[:60]
	}
	return tr.X([]byte(s))
}

// parseOracle evaluates the clauses of C16 on the implementation's answer.
// res is "panic", "ok", or the error class.
func parseOracle(addr, res, scheme, ep string) {
	bad := func(clause, want string) {
		w.Fail("parseProtoAddr", clause+" addr="+short(addr), fmt.Sprintf("got %s %q %q, want %s", res, scheme, ep, want))
	}
	if res == "panic" {
		bad("panic", "no panic")
		return
	}
	if res == "other" {
		bad("unclassified-error", "invalid|unsupported|url error")
	}
	if res == "ok" && !sevenSchemes[scheme] {
		bad("scheme-not-supported", "one of the seven schemes")
	}
	if res == "ok" && ep == "" {
		bad("empty-endpoint", "non-empty endpoint")
	}
	// "endpoint exactly as written" on the grammar of the statement
	if m := reInetExact.FindStringSubmatch(addr); m != nil {
		if res != "ok" || scheme != lowerASCII(m[1]) || ep != m[2] {
			bad("inet-exact", "ok "+lowerASCII(m[1])+" "+m[2])
		}
	} else if reInetEmpty.MatchString(addr) {
		if res != "invalid" {
			bad("inet-empty-endpoint", "invalid")
		}
	} else if reInetPath.MatchString(addr) {
		if res != "invalid" {
			bad("inet-with-path", "invalid")
		}
	} else if m := reUnix.FindStringSubmatch(addr); m != nil {
		if m[1] == "" {
			if res != "invalid" {
				bad("unix-empty", "invalid")
			}
		} else if res != "ok" || scheme != "unix" || ep != refClean(m[1]) {
			bad("unix-clean", "ok unix "+refClean(m[1]))
		}
	} else if m := reOther.FindStringSubmatch(addr); m != nil {
		if !sevenSchemes[lowerASCII(m[1])] && res != "unsupported" {
			bad("unknown-scheme", "unsupported")
		}
	} else if reNoColon.MatchString(addr) {
		if res == "ok" || res == "unsupported" {
			bad("missing-scheme", "invalid or url error")
		}
	}
	// classification clause, with the real url.Parse / path.Join as reference
	u, err := url.Parse(strings.ReplaceAll(addr, "%", "%25"))
	want, ws, wep := "", "", ""
	switch {
	case err != nil:
		want = "urlerr"
	case u.Scheme == "":
		want = "invalid"
	case sevenSchemes[u.Scheme] && u.Scheme != "unix":
		if u.Host == "" || u.Path != "" {
			want = "invalid"
		} else {
			want, ws, wep = "ok", u.Scheme, u.Host
		}
	case u.Scheme == "unix":
		if u.Host == "" && u.Path == "" {
			want = "invalid"
		} else {
			want, ws, wep = "ok", "unix", path.Join(u.Host, u.Path)
		}
	default:
		want = "unsupported"
	}
	if res != want || scheme != ws || ep != wep {
		bad("classification", fmt.Sprintf("%s %q %q", want, ws, wep))
	}
}

func doParse(addr []byte) {
	a := string(addr)
	w.Op(tr.L("parse", tr.X(addr)))
	var s, ep, class string
	p, _ := tr.Guard(func() { s, ep, class = gnet.VerifParseProtoAddr(a) })
	res := class
	switch {
	case p:
		res = "panic"
		w.Obs(tr.L("r", "panic"))
	case class == "":
		res = "ok"
		w.Obs(tr.L("r", "ok", tr.X([]byte(s)), tr.X([]byte(ep))))
		w.Tag("ok-" + s)
	default:
		w.Obs(tr.L("r", "err", class))
		w.Tag("err-" + class)
	}
	parseOracle(a, res, s, ep)
}

func isPow2(n int) bool { return n > 0 && n&(n-1) == 0 }

const top = 1 << 62

func doNorm(who string, rbc, wbc, chunk int, et bool) {
	maxcap, defsz, _ := gnet.VerifAddrConsts()
	w.Op(tr.L("norm", who, tr.I(maxcap), tr.I(rbc), tr.I(wbc), tr.I(chunk), tr.B(et)))
	var r, wr, c int
	var e bool
	var err error
	p, _ := tr.Guard(func() {
		if who == "server" {
			r, wr, c, e, err = gnet.VerifNormServer(rbc, wbc, chunk, et)
		} else {
			r, wr, c, e, err = gnet.VerifNormClient(rbc, wbc, chunk, et)
		}
	})
	sig := fmt.Sprintf("who=%s rbc=%d wbc=%d chunk=%d et=%v", who, rbc, wbc, chunk, et)
	if p {
		w.Obs(tr.L("norm", "panic"))
		w.Tag("norm-panic")
		if rbc > top || wbc > top || chunk > top {
			w.Fail("norm", "panic-request-above-2^62 "+sig, "option normalisation panics instead of producing a power of two")
		} else {
			w.Fail("norm", "panic "+sig, "option normalisation panicked")
		}
		return
	}
	if err != nil {
		w.Obs(tr.L("norm", "error"))
		w.Fail("norm", "error "+sig, err.Error())
		return
	}
	w.Obs(tr.L("norm", tr.I(r), tr.I(wr), tr.I(c), tr.B(e)))
	capOK := func(name string, req, got int) {
		switch {
		case req <= 0:
			if got != 64*1024 || got != maxcap {
				w.Fail("norm", name+"-default "+sig, fmt.Sprintf("got %d want 65536", got))
			}
		default:
			if !isPow2(got) || got < req || got < 1024 || got < defsz {
				w.Fail("norm", name+"-pow2-ge-request "+sig, fmt.Sprintf("got %d", got))
			}
		}
	}
	capOK("rbc", rbc, r)
	capOK("wbc", wbc, wr)
	switch {
	case chunk > 0:
		if !isPow2(c) || c < chunk || !e {
			w.Fail("norm", "chunk-pow2-ge-request "+sig, fmt.Sprintf("got %d et=%v", c, e))
		}
	case et:
		if c != 1<<20 || !e {
			w.Fail("norm", "chunk-default "+sig, fmt.Sprintf("got %d et=%v", c, e))
		}
	default:
		if c != chunk || e {
			w.Fail("norm", "chunk-untouched "+sig, fmt.Sprintf("got %d et=%v", c, e))
		}
	}
}

func doLoops(mc bool, n int) {
	var r, ncpu int
	p, _ := tr.Guard(func() { r, ncpu = gnet.VerifDetermineEventLoops(mc, n) })
	if p {
		_, ncpu = gnet.VerifDetermineEventLoops(false, 1)
	}
	w.Op(tr.L("loops", tr.B(mc), tr.I(n), tr.I(ncpu)))
	if p {
		w.Obs(tr.L("loops", "panic"))
		w.Fail("determineEventLoops", fmt.Sprintf("panic mc=%v n=%d", mc, n), "panicked")
		return
	}
	w.Obs(tr.L("loops", tr.I(r)))
	want := 1
	if mc {
		want = ncpu
	}
	if n > 0 {
		want = n
	}
	if want > 256 {
		want = 256
	}
	if r < 1 || r > 256 || r != want {
		w.Fail("determineEventLoops", fmt.Sprintf("clamp mc=%v n=%d", mc, n), fmt.Sprintf("got %d want %d (range 1..256)", r, want))
	}
}

// ------------------------------------------------------------------ generator

type gen struct{ r *tr.Rand }

func (g *gen) pick(xs ...string) string { return xs[g.r.Intn(len(xs))] }

func (g *gen) mixCase(s string) string {
	b := []byte(s)
	for i, c := range b {
		if 'a' <= c && c <= 'z' && g.r.Chance(50) {
			b[i] = c - 32
		}
	}
	return string(b)
}

func (g *gen) scheme() (string, string) {
	switch x := g.r.Intn(100); {
	case x < 60:
		return g.pick("tcp", "tcp4", "tcp6", "udp", "udp4", "udp6"), "inet"
	case x < 72:
		return "unix", "unix"
	case x < 80:
		return g.mixCase(g.pick("tcp", "tcp4", "tcp6", "udp", "udp4", "udp6", "unix")), "mixedcase"
	case x < 92:
		return g.pick("http", "tcp5", "ws", "unixx", "tc", "udp7", "sctp", "t.c-p+x", "TCPX", "a", "z9"), "unknown"
	case x < 96:
		return "", "empty"
	default:
		return g.pick("4tcp", "+tcp", "t_cp", "tcp udp", "t%63p", "-", "tçp"), "malformed"
	}
}

func (g *gen) label() string {
	const al = "abcdefghijklmnopqrstuvwxyzABCDEFGHIJKLMNOPQRSTUVWXYZ0123456789"
	n := g.r.Range(1, 8)
	b := make([]byte, n)
	for i := range b {
		b[i] = al[g.r.Intn(len(al))]
	}
	if n > 2 && g.r.Chance(20) {
		b[g.r.Range(1, n-2)] = "-_~"[g.r.Intn(3)]
	}
	return string(b)
}

func (g *gen) regName() string {
	n := g.r.Range(1, 4)
	parts := make([]string, n)
	for i := range parts {
		parts[i] = g.label()
	}
	s := strings.Join(parts, ".")
	if g.r.Chance(8) {
		s += g.pick("!", "$", "&", "'", "(", ")", "*", "+", ",", ";", "=")
		s += g.label()
	}
	return s
}

func (g *gen) ipv4() string {
	oct := func() string {
		switch g.r.Intn(6) {
		case 0:
			return "0"
		case 1:
			return "255"
		case 2:
			return "256"
		default:
			return fmt.Sprint(g.r.Intn(256))
		}
	}
	return oct() + "." + oct() + "." + oct() + "." + oct()
}

func (g *gen) hexGroup() string {
	return fmt.Sprintf("%x", g.r.Intn(0x10000))
}

func (g *gen) ipv6() string {
	switch g.r.Intn(8) {
	case 0:
		return "::1"
	case 1:
		return "::"
	case 2:
		return "fe80::" + g.hexGroup()
	case 3:
		return "ff02::3"
	case 4:
		gs := make([]string, 8)
		for i := range gs {
			gs[i] = g.hexGroup()
		}
		return strings.Join(gs, ":")
	case 5:
		return "::ffff:" + g.ipv4()
	case 6:
		return strings.ToUpper("fe80::" + g.hexGroup() + ":" + g.hexGroup())
	default:
		return g.hexGroup() + "::" + g.hexGroup() + ":" + g.hexGroup()
	}
}

func (g *gen) zone() (string, string) {
	switch g.r.Intn(10) {
	case 0:
		return "eth0", "zone"
	case 1:
		return "lo0", "zone"
	case 2:
		return "25", "zone-25"
	case 3:
		return "%25", "zone-pct"
	case 4:
		return g.label() + "%" + g.label(), "zone-pct"
	case 5:
		return fmt.Sprint(g.r.Intn(100)), "zone-digits"
	case 6:
		return "en0." + fmt.Sprint(g.r.Intn(1000)), "zone"
	case 7:
		return "%", "zone-pct"
	case 8:
		return "2525%2525", "zone-pct"
	default:
		return g.label(), "zone"
	}
}

func (g *gen) port() (string, string) {
	switch x := g.r.Intn(100); {
	case x < 55:
		return ":" + fmt.Sprint(g.r.Intn(65536)), "port"
	case x < 70:
		return "", "noport"
	case x < 78:
		return ":", "emptyport"
	case x < 84:
		return ":" + g.pick("0", "65535", "65536", "99999999999", "080", "25"), "port"
	default:
		return ":" + g.pick("http", "80a", "-1", "8 0", "x", "80:", "+80", "８０"), "badport"
	}
}

func (g *gen) host() (string, []string) {
	var tags []string
	var h string
	switch x := g.r.Intn(100); {
	case x < 28:
		h = g.regName()
		tags = append(tags, "regname")
	case x < 45:
		h = g.ipv4()
		tags = append(tags, "ipv4")
	case x < 62:
		h = "[" + g.ipv6() + "]"
		tags = append(tags, "ipv6")
	case x < 84:
		z, zt := g.zone()
		h = "[" + g.ipv6() + "%" + z + "]"
		tags = append(tags, "ipv6-zone", zt)
	case x < 88:
		h = g.ipv6() // unbracketed
		tags = append(tags, "ipv6-bare")
	case x < 92:
		h = ""
		tags = append(tags, "emptyhost")
	case x < 96:
		h = g.regName() + "%" + g.pick("", "25", "zz", "41", "2")
		tags = append(tags, "host-pct")
	default:
		h = g.pick("[::1", "::1]", "[]", "[[::1]]", "[::1]x", "a b", "a\\b", "a^b", "{a}", "a|b", "`a`", "<a>", "\"a\"")
		tags = append(tags, "host-odd")
	}
	p, pt := g.port()
	tags = append(tags, pt)
	return h + p, tags
}

func (g *gen) unixPath() string {
	n := g.r.Intn(6)
	var segs []string
	for i := 0; i < n; i++ {
		switch g.r.Intn(10) {
		case 0:
			segs = append(segs, "..")
		case 1:
			segs = append(segs, ".")
		case 2:
			segs = append(segs, "")
		case 3:
			segs = append(segs, g.pick("tmp", "var", "run", "...", "..a", "a..", ".hidden"))
		default:
			segs = append(segs, g.label())
		}
	}
	p := strings.Join(segs, "/")
	switch g.r.Intn(5) {
	case 0:
		// relative
	case 1:
		p = "//" + p
	default:
		p = "/" + p
	}
	if g.r.Chance(25) {
		p += "/"
	}
	if g.r.Chance(10) {
		p += g.pick(".sock", " x", "%", "%2f", "%41", ":1", "a:b")
	}
	return p
}

func (g *gen) grammar() (string, []string) {
	sch, st := g.scheme()
	tags := []string{"scheme-" + st}
	sep := "://"
	if g.r.Chance(6) {
		sep = g.pick(":", ":/", ":///", "//", "", "::", ":\\\\")
		tags = append(tags, "sep-odd")
	}
	var body string
	if strings.EqualFold(sch, "unix") || (st == "unknown" && g.r.Chance(20)) {
		body = g.unixPath()
		tags = append(tags, "unixpath")
		if strings.Contains(body, "..") {
			tags = append(tags, "unix-dotdot")
		}
	} else {
		h, ht := g.host()
		body = h
		tags = append(tags, ht...)
		if g.r.Chance(10) {
			body += g.pick("/", "/x", "/a/b", "//", "/.", "/..")
			tags = append(tags, "inet-path")
		}
	}
	s := sch + sep + body
	if g.r.Chance(4) {
		s = sch + sep + g.pick("user@", "u:p@", "u%@", "@", "a@b@", "ü@") + body
		tags = append(tags, "userinfo")
	}
	if g.r.Chance(4) {
		s += g.pick("?", "?q=1", "?a?b", "??")
		tags = append(tags, "query")
	}
	if g.r.Chance(4) {
		s += g.pick("#", "#frag", "#%", "#\x01", "#a#b")
		tags = append(tags, "fragment")
	}
	return s, tags
}

var specials = []byte{'%', '#', '?', '@', '[', ']', ':', '/', '.', '2', '5', ' ', '\\', 0, 1, '\n', 0x1f, 0x7f, 0x80, 0xff, 0xc0, 0xc3, 0xa9, '*', '+', '-', '<', '>', '"', '^', '`', '{', '|', '}'}

func (g *gen) mutate(b []byte) []byte {
	n := g.r.Range(1, 3)
	for k := 0; k < n; k++ {
		pos := g.r.Intn(len(b) + 1)
		switch g.r.Intn(7) {
		case 0, 1: // insert a special byte
			c := specials[g.r.Intn(len(specials))]
			b = append(b[:pos:pos], append([]byte{c}, b[pos:]...)...)
		case 2: // delete
			if len(b) > 0 {
				pos = g.r.Intn(len(b))
				b = append(b[:pos:pos], b[pos+1:]...)
			}
		case 3: // flip a bit
			if len(b) > 0 {
				pos = g.r.Intn(len(b))
				b = append([]byte(nil), b...)
				b[pos] ^= 1 << uint(g.r.Intn(8))
			}
		case 4: // replace with a random byte
			if len(b) > 0 {
				pos = g.r.Intn(len(b))
				b = append([]byte(nil), b...)
				b[pos] = byte(g.r.U64())
			}
		case 5: // duplicate a slice
			if len(b) > 0 {
				i := g.r.Intn(len(b))
				j := g.r.Range(i, len(b))
				b = append(b[:pos:pos], append(append([]byte(nil), b[i:j]...), b[pos:]...)...)
			}
		default: // truncate
			b = b[:pos:pos]
		}
	}
	return b
}

// ------------------------------------------------------------------ main

func replay(path string) {
	for _, c := range tr.ReadCases(path) {
		w.Case(c.ID, "addr")
		w.Tag("replay")
		for _, op := range c.Ops {
			switch op.Name {
			case "parse":
				doParse(op.Bytes(0))
			case "norm":
				doNorm(op.Args[0], op.Int(2), op.Int(3), op.Int(4), op.Int(5) != 0)
			case "loops":
				doLoops(op.Int(0) != 0, op.Int(1))
			}
		}
		w.End()
	}
}

func capValues(rnd *tr.Rand) []int {
	vs := []int{-1 << 63, -1 << 62, -65536, -1024, -1, 0, 1, 2, 3, 1023, 1024, 1025, 65535, 65536, 65537,
		1<<20 - 1, 1 << 20, 1<<20 + 1, top - 1, top, top + 1, 1<<63 - 1}
	for k := 1; k <= 62; k++ {
		p := 1 << uint(k)
		vs = append(vs, p-1, p, p+1)
	}
	return vs
}

func main() {
	seed := flag.Uint64("seed", 1, "")
	tier := flag.String("tier", "quick", "")
	out := flag.String("out", "trace.txt", "")
	stats := flag.String("stats", "", "")
	rep := flag.String("replay", "", "")
	flag.Parse()
	w = tr.NewWriter(*out)
	defer w.Close(*stats)
	if *rep != "" {
		replay(*rep)
		return
	}
	rnd := tr.NewRand(*seed)
	g := &gen{r: rnd}
	cid := 0
	newCase := func(tag string) {
		cid++
		w.Case(fmt.Sprintf("a%d", cid), "addr")
		w.Tag(tag)
	}

	// ---- addresses
	total := 20000
	if *tier == "thorough" {
		total = 300000
	}
	for i := 0; i < total; {
		newCase("addresses")
		for j := 0; j < 100 && i < total; j++ {
			s, tags := g.grammar()
			b := []byte(s)
			if rnd.Chance(30) {
				b = g.mutate(b)
				w.Hist("mutated")
				w.Tag("mutated")
				if rnd.Chance(10) {
					b = rnd.Bytes(rnd.Intn(12)) // pure noise
					w.Hist("noise")
				}
			} else {
				w.Hist("grammar")
				for _, t := range tags {
					w.Hist(t)
					w.Tag(t)
				}
			}
			doParse(b)
			i++
		}
		w.End()
	}

	// ---- option normalisation
	vals := capValues(rnd)
	small := func() int { return rnd.Pick([]int{0, 0, -1, 1, 512, 1024, 4096, 65536, 100000}) }
	for _, who := range []string{"client", "server"} {
		newCase("norm-boundaries")
		for _, v := range vals {
			doNorm(who, v, small(), small(), rnd.Chance(50))
			doNorm(who, small(), v, small(), rnd.Chance(50))
			doNorm(who, small(), small(), v, false)
			doNorm(who, small(), small(), v, true)
			w.Hist("norm-boundary")
		}
		w.End()
	}
	ncnt := 4000
	if *tier == "thorough" {
		ncnt = 100000
	}
	rv := func() int {
		switch rnd.Intn(4) {
		case 0:
			return rnd.Pick(vals)
		case 1:
			return rnd.Range(-10, 70000)
		default:
			v := int(rnd.U64() >> uint(rnd.Intn(64)))
			if rnd.Chance(15) {
				v = -v
			}
			return v
		}
	}
	for i := 0; i < ncnt; {
		newCase("norm-random")
		for j := 0; j < 500 && i < ncnt; j++ {
			who := "client"
			if rnd.Chance(50) {
				who = "server"
			}
			a, b, c := rv(), rv(), rv()
			doNorm(who, a, b, c, rnd.Chance(50))
			w.Hist(fmt.Sprintf("norm-random-bits%02d", bits.Len64(uint64(a))/8*8))
			i++
		}
		w.End()
	}

	// ---- event loops
	newCase("loops")
	_, ncpu := gnet.VerifDetermineEventLoops(false, 1)
	lv := []int{-1 << 63, -256, -1, 0, 1, 2, ncpu - 1, ncpu, ncpu + 1, 255, 256, 257, 1000, 10000, 10001, 1 << 31, top, 1<<63 - 1}
	for _, n := range lv {
		doLoops(false, n)
		doLoops(true, n)
		w.Hist("loops-boundary")
	}
	for i := 0; i < 2000; i++ {
		n := rv()
		if rnd.Chance(50) {
			n = rnd.Range(-5, 600)
		}
		doLoops(rnd.Chance(50), n)
		w.Hist("loops-random")
	}
	w.End()
}
