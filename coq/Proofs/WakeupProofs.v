(* C03: the theorems about the wake-up protocol, in the vocabulary of the model
   (Model/Wakeup.v): wake_inv (DESIGN Appendix A.5) in every reachable sane
   state, no_lost_wakeup at quiescence, and quiescence-or-progress. *)
From GV Require Import Lib.Trace Lib.Interleave Model.Wakeup Proofs.WakeupBase Proofs.WakeupInv.
From Coq Require Import Lia Arith ZifyBool.
Open Scope Z_scope.
Open Scope list_scope.

Definition wk_reachable (s : wstate) : Prop := reachable wk_init wk_step s.

Lemma wk_run_reachable : forall thr max sched,
  wk_reachable (fst (run wk_fstep (init_state thr max) sched)).
Proof.
  intros thr max sched.
  pose proof (run_reachable wstate (tid * choice) wobs wk_fstep wk_init (init_state thr max) sched) as H.
  assert (Hi : wk_init (init_state thr max)) by (exists thr, max; reflexivity).
  specialize (H Hi).
  (* fun_step wk_fstep and wk_step are the same relation *)
  clear Hi. unfold wk_reachable.
  remember (fst (run wk_fstep (init_state thr max) sched)) as s eqn:E. clear E.
  induction H as [s Hi|s l s' R IH Hs].
  - apply reach_init. exact Hi.
  - eapply reach_step; [exact IH|]. unfold fun_step, wk_fstep in Hs. unfold wk_step.
    destruct l as [[t c] o]. exact Hs.
Qed.

(* ---- the classes of the loop's program counter ---- *)
Lemma cls_B : forall s, cls_of s = KB <-> cons_B s = true.
Proof.
  intro s. unfold cls_of, cons_B, pendB, KB, KW, KChkL, KChkU, KCas, KWr.
  destruct (c_pc (con s)); try (split; [lia|discriminate]); try (split; [reflexivity|reflexivity]).
  destruct (c_phase (con s)); try (split; reflexivity).
  destruct (c_chores (con s) || has_efd (c_evs (con s))); split; (lia || discriminate || reflexivity).
Qed.

Lemma cls_W : forall s, cls_of s = KW <-> cons_W s = true.
Proof.
  intro s. unfold cons_W. pose proof (cls_B s) as B. unfold cls_of in *.
  unfold KB, KW, KChkL, KChkU, KCas, KWr in *.
  destruct (c_pc (con s)); try (split; [lia|discriminate]); try (split; reflexivity).
  destruct (cons_B s); destruct (pendB (con s)); cbn; split; intro H; try reflexivity; try lia; try discriminate.
Qed.

Lemma cls_wr : forall s, cls_of s = KWr <-> cons_wr s = true.
Proof.
  intro s. unfold cls_of, cons_wr, KB, KW, KChkL, KChkU, KCas, KWr.
  destruct (c_pc (con s)); try (split; [lia|discriminate]); try (split; reflexivity).
  destruct (pendB (con s)); split; (lia || discriminate).
Qed.

Lemma cls_chkU : forall s, cls_of s = KChkU <-> c_pc (con s) = CChkU.
Proof.
  intro s. unfold cls_of, KB, KW, KChkL, KChkU, KCas, KWr.
  destruct (c_pc (con s)); try (split; [lia|discriminate]); try (split; reflexivity).
  destruct (pendB (con s)); split; (lia || discriminate).
Qed.

Lemma zlen_pos : forall A (l : list A), 0 < zlen l <-> l <> [].
Proof. intros A l. unfold zlen. destruct l; cbn; split; intro H; try lia; try congruence. Qed.

(* ---- wake_inv: the conjunction of Appendix A.5 in every reachable state ---- *)
Theorem wake_inv : forall s, wk_reachable s -> sane s ->
  (flag (w_sh s) = 0 \/ flag (w_sh s) = 1) /\
  (* K *)
  lenU (w_sh s) = Z.of_nat (List.length (itemsU (w_sh s))) - n_p1 QU s + d_q QU s /\
  lenL (w_sh s) = Z.of_nat (List.length (itemsL (w_sh s))) - n_p1 QL s + d_q QL s /\
  (* I0 *)
  (cons_wr s = true -> flag (w_sh s) = 1) /\
  (* I1 *)
  (flag (w_sh s) = 1 -> eff_edge (w_sh s) = true \/ 0 < n_p3 s \/ cons_wr s = true \/ cons_B s = true) /\
  (* G_W *)
  (cons_W s = true -> flag (w_sh s) = 0 -> (itemsU (w_sh s) <> [] \/ itemsL (w_sh s) <> []) ->
     eff_edge (w_sh s) = true \/ 0 < n_p123 s) /\
  (* G_chkU *)
  (c_pc (con s) = CChkU -> flag (w_sh s) = 0 -> itemsL (w_sh s) <> [] ->
     eff_edge (w_sh s) = true \/ 0 < n_p123 s).
Proof.
  intros s R Sn. destruct (winv_reachable s R Sn) as (_ & _ & AI).
  unfold AInv, view in AI. cbn [a_flag a_E a_nU a_nL a_lenU a_lenL a_p1U a_p1L a_p2 a_p3 a_dU a_dL a_cls] in AI.
  destruct AI as (F & KU & KL & I0 & I1 & GW & GC).
  splits.
  - exact F.
  - exact KU.
  - exact KL.
  - intro H. apply I0. apply cls_wr. exact H.
  - intro H. destruct (I1 H) as [X|[X|[X|X]]]; auto.
    + right; right; left. apply cls_wr. exact X.
    + right; right; right. apply cls_B. exact X.
  - intros HW H0 HN. unfold n_p123. apply GW; [apply cls_W; exact HW|exact H0|].
    pose proof (zlen_pos _ (itemsU (w_sh s))). pose proof (zlen_pos _ (itemsL (w_sh s))).
    assert (0 <= zlen (itemsU (w_sh s))) by (unfold zlen; lia).
    assert (0 <= zlen (itemsL (w_sh s))) by (unfold zlen; lia).
    destruct HN as [HN|HN]; [assert (0 < zlen (itemsU (w_sh s))) by tauto|assert (0 < zlen (itemsL (w_sh s))) by tauto]; lia.
  - intros HP H0 HN. unfold n_p123. apply GC; [apply cls_chkU; exact HP|exact H0|].
    apply zlen_pos. exact HN.
Qed.

(* ---- no lost wake-up ---- *)
Lemma idle_counts : forall s, all_idle s -> n_p1 QU s = 0 /\ n_p1 QL s = 0 /\ n_p2 s = 0 /\ n_p3 s = 0.
Proof.
  intros s H. unfold n_p1, n_p2, n_p3. splits; apply tot_all_idle; try exact H;
    try apply z_p1; try apply z_p2; try apply z_p3; intro x; reflexivity.
Qed.

Theorem no_lost_wakeup : forall s, wk_reachable s -> sane s -> quiescent s ->
  itemsU (w_sh s) = [] /\ itemsL (w_sh s) = [].
Proof.
  intros s R Sn (Hid & Hpc & HE).
  destruct (wake_inv s R Sn) as (F & _ & _ & _ & I1 & GW & _).
  destruct (idle_counts s Hid) as (A & B & C & D).
  assert (HW : cons_W s = true) by (unfold cons_W; rewrite Hpc; reflexivity).
  assert (HB : cons_B s = false) by (unfold cons_B; rewrite Hpc; reflexivity).
  assert (Hwr : cons_wr s = false) by (unfold cons_wr; rewrite Hpc; reflexivity).
  destruct F as [F|F].
  - destruct (itemsU (w_sh s)) as [|x r] eqn:EU; [destruct (itemsL (w_sh s)) as [|y r'] eqn:EL; [auto|]|].
    + exfalso. destruct (GW HW F) as [X|X]; [right; discriminate|congruence|unfold n_p123 in X; lia].
    + exfalso. destruct (GW HW F) as [X|X]; [left; discriminate|congruence|unfold n_p123 in X; lia].
  - exfalso. destruct (I1 F) as [X|[X|[X|X]]]; try congruence; lia.
Qed.

(* ---- progress: in a state that is not quiescent some thread has an enabled step ---- *)
(* (weak fairness of the Go scheduler and of the kernel then gives "eventually executed";
   fairness itself is an assumption, not a theorem) *)
Definition loop_enabled (s : wstate) : Prop :=
  c_pc (con s) <> CWait \/ eff_edge (w_sh s) = true \/ io_pend (w_env s) <> [] \/ c_msec (con s) = 0.

Lemma trig_progress : forall s t, t_pc (get_trig (trigs s) t) <> TIdle ->
  exists s1 o d, trig_step s t (CStep []) = (s1, o, d) /\ (forall e, In e o -> e <> EvStuck t).
Proof.
  intros s t H. unfold trig_step. destruct (get_trig (trigs s) t) as [p x]. cbn [t_pc t_task] in *.
  destruct p as [| |q|q| | |]; try congruence.
  - eexists _, _, _. split; [reflexivity|]. intros e [E|[]]; subst; discriminate.
  - eexists _, _, _. split; [reflexivity|]. intros e [E|[]]; subst; discriminate.
  - destruct (add_len s q 1) as [s1 v]. eexists _, _, _. split; [reflexivity|]. intros e [E|[]]; subst; discriminate.
  - destruct (flag (w_sh s) =? 0); eexists _, _, _; (split; [reflexivity|]).
    + intros e [E|[]]; subst; discriminate.
    + intros e [E|[E|[]]]; subst; discriminate.
  - destruct (efd_write (w_sh s)) as [x1 []]; eexists _, _, _; (split; [reflexivity|]).
    + intros e [E|[E|[]]]; subst; discriminate.
    + intros e [E|[]]; subst; discriminate.
    + intros e [E|[E|[]]]; subst; discriminate.
  - destruct (efd_read (w_sh s)) as [x1 v]. eexists _, _, _. split; [reflexivity|]. intros e [E|[]]; subst; discriminate.
Qed.

(* Either the state is quiescent (and then, by no_lost_wakeup, nothing is queued), or a
   producer in flight can take a step, or the loop can: it is not at epoll_wait, or
   epoll_wait has something to report (the eventfd edge or an I/O event).  A loop parked
   in epoll_wait with an empty ready set while a producer is in flight is not stuck: the
   producer is enabled. *)
Theorem quiescence_or_progress : forall s, wk_reachable s -> sane s ->
  (quiescent s /\ itemsU (w_sh s) = [] /\ itemsL (w_sh s) = []) \/
  (exists t, t_pc (get_trig (trigs s) t) <> TIdle /\
             exists s1 o d, trig_step s t (CStep []) = (s1, o, d) /\ forall e, In e o -> e <> EvStuck t) \/
  (all_idle s /\ (c_pc (con s) <> CWait \/ eff_edge (w_sh s) = true)).
Proof.
  intros s R Sn.
  assert (D : all_idle s \/ exists t, t_pc (get_trig (trigs s) t) <> TIdle).
  { unfold all_idle. induction (trigs s) as [|th r IH].
    - left. intro t. rewrite get_nil. reflexivity.
    - destruct IH as [IH|[t IH]].
      + destruct (t_pc th) eqn:E; try (right; exists O; unfold get_trig; cbn; rewrite E; discriminate).
        left. intros [|t]; [unfold get_trig; cbn; exact E|apply (IH t)].
      + right. exists (S t). exact IH. }
  destruct D as [Hid|[t Ht]].
  - destruct (c_pc (con s)) eqn:Epc; try (right; right; split; [exact Hid|left; discriminate]).
    destruct (eff_edge (w_sh s)) eqn:EE.
    + right; right. split; [exact Hid|right; reflexivity].
    + left. assert (Q : quiescent s) by (unfold quiescent; splits; assumption).
      split; [exact Q|apply no_lost_wakeup; assumption].
  - right; left. exists t. split; [exact Ht|apply trig_progress; exact Ht].
Qed.
