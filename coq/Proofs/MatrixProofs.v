(* Proofs about the compacting matrix registry (conn_matrix.go model):
   the representation invariant is preserved by addConn / delConn, lookups
   are those of a finite map (relocation is invisible), iteration visits every
   live connection once, and the shutdown iteration empties the matrix. *)
From Coq Require Import Lia ZArith ZifyBool Permutation.
From GV Require Import Lib.Trace Spec.FinMap Model.Registry Proofs.ZMapFacts.
Open Scope Z_scope.
Open Scope list_scope.

Ltac splits := repeat match goal with |- _ /\ _ => split end.
(* case analysis on every boolean test in the goal / in a hypothesis *)
Ltac dif :=
  repeat match goal with
         | |- context [if ?b then _ else _] =>
             lazymatch b with
             | context [if _ then _ else _] => fail
             | _ => destruct b eqn:?; cbn [andb orb negb]
             end
         end.
(* same, and turn the successful Z equality tests into substitutions *)
Ltac difs :=
  dif;
  repeat match goal with H : (_ =? _) = true |- _ => apply Z.eqb_eq in H end;
  repeat match goal with H : ?x = ?y |- _ => first [subst x | subst y] end.
Ltac dif_in H :=
  repeat match type of H with
         | context [if ?b then _ else _] => destruct b eqn:?
         end.

(* ------------------------------------------------------------------ *)
(* views of the primitive state updates                                 *)

Lemma cnt_inc_count : forall st r d r',
  cnt (inc_count st r d) r' = if r' =? r then cnt st r + d else cnt st r'.
Proof.
  intros. unfold cnt, inc_count, set_counts; cbn. rewrite zget_zset.
  destruct (Z.eqb_spec r' r); subst; reflexivity.
Qed.
Lemma cell_inc_count : forall st r d r' c', cell (inc_count st r d) r' c' = cell st r' c'.
Proof. reflexivity. Qed.
Lemma nil_inc_count : forall st r d r', row_nil (inc_count st r d) r' = row_nil st r'.
Proof. reflexivity. Qed.

Lemma cnt_set_f2g : forall st x r, cnt (set_f2g st x) r = cnt st r. Proof. reflexivity. Qed.
Lemma cell_set_f2g : forall st x r c, cell (set_f2g st x) r c = cell st r c. Proof. reflexivity. Qed.
Lemma nil_set_f2g : forall st x r, row_nil (set_f2g st x) r = row_nil st r. Proof. reflexivity. Qed.

Lemma cnt_set_heap : forall st x r, cnt (set_heap st x) r = cnt st r. Proof. reflexivity. Qed.
Lemma cell_set_heap : forall st x r c, cell (set_heap st x) r c = cell st r c. Proof. reflexivity. Qed.
Lemma nil_set_heap : forall st x r, row_nil (set_heap st x) r = row_nil st r. Proof. reflexivity. Qed.

Lemma cnt_set_next : forall st a b r, cnt (set_next st a b) r = cnt st r. Proof. reflexivity. Qed.
Lemma cell_set_next : forall st a b r c, cell (set_next st a b) r c = cell st r c. Proof. reflexivity. Qed.
Lemma nil_set_next : forall st a b r, row_nil (set_next st a b) r = row_nil st r. Proof. reflexivity. Qed.

Lemma cnt_set_dc : forall st b r, cnt (set_dc st b) r = cnt st r. Proof. reflexivity. Qed.
Lemma cell_set_dc : forall st b r c, cell (set_dc st b) r c = cell st r c. Proof. reflexivity. Qed.
Lemma nil_set_dc : forall st b r, row_nil (set_dc st b) r = row_nil st r. Proof. reflexivity. Qed.

Lemma cnt_release_row : forall st r r', cnt (release_row st r) r' = cnt st r'. Proof. reflexivity. Qed.
Lemma cell_release_row : forall st r r' c',
  cell (release_row st r) r' c' = if r' =? r then None else cell st r' c'.
Proof.
  intros. unfold cell, release_row, set_table; cbn. rewrite zget_zdel.
  destruct (r' =? r); reflexivity.
Qed.
Lemma nil_release_row : forall st r r',
  row_nil (release_row st r) r' = if r' =? r then true else row_nil st r'.
Proof.
  intros. unfold row_nil, release_row, set_table; cbn. rewrite zget_zdel.
  destruct (r' =? r); reflexivity.
Qed.

Lemma cnt_set_table : forall st x r, cnt (set_table st x) r = cnt st r. Proof. reflexivity. Qed.

(* everything but the table is the same *)
Definition frame_table (st st' : matst) : Prop :=
  m_dc st' = m_dc st /\ m_counts st' = m_counts st /\ m_row st' = m_row st /\
  m_col st' = m_col st /\ m_f2g st' = m_f2g st /\ m_heap st' = m_heap st.

Lemma frame_table_cnt : forall st st' r, frame_table st st' -> cnt st' r = cnt st r.
Proof. intros st st' r (_ & H & _). unfold cnt. rewrite H. reflexivity. Qed.

Lemma set_cell_ret : forall st r c v,
  row_nil st r = false ->
  exists st', set_cell st r c v = Ret st' /\ frame_table st st' /\
    (forall r' c', cell st' r' c' = if (r' =? r) && (c' =? c) then v else cell st r' c') /\
    (forall r', row_nil st' r' = row_nil st r').
Proof.
  intros st r c v H. unfold row_nil in H. unfold set_cell.
  destruct (zget (m_table st) r) as [rowm|] eqn:E; [|discriminate].
  eexists. split; [reflexivity|]. split; [repeat split|]. split.
  - intros r' c'. unfold cell, set_table; cbn. rewrite zget_zset.
    destruct (Z.eqb_spec r' r) as [->|N]; cbn.
    + rewrite E. destruct v; [rewrite zget_zset|rewrite zget_zdel]; destruct (c' =? c); reflexivity.
    + reflexivity.
  - intros r'. unfold row_nil, set_table; cbn. rewrite zget_zset.
    destruct (Z.eqb_spec r' r) as [->|N]; [rewrite E|]; reflexivity.
Qed.

Lemma set_cell_panic : forall st r c v, row_nil st r = true -> set_cell st r c v = Panic.
Proof.
  intros st r c v H. unfold row_nil in H. unfold set_cell.
  destruct (zget (m_table st) r); [discriminate|reflexivity].
Qed.

(* allocation of a row slice *)
Lemma cell_alloc : forall st r r' c',
  row_nil st r = true ->
  cell (set_table st (zset (m_table st) r zempty)) r' c' = cell st r' c'.
Proof.
  intros st r r' c' H. unfold cell, set_table; cbn. rewrite zget_zset.
  destruct (Z.eqb_spec r' r) as [->|N]; [|reflexivity].
  unfold row_nil in H. destruct (zget (m_table st) r); [discriminate|]. apply zget_zempty.
Qed.
Lemma nil_alloc : forall st r r',
  row_nil (set_table st (zset (m_table st) r zempty)) r' = if r' =? r then false else row_nil st r'.
Proof.
  intros. unfold row_nil, set_table; cbn. rewrite zget_zset. destruct (r' =? r); reflexivity.
Qed.

Global Hint Rewrite cnt_inc_count cell_inc_count nil_inc_count cnt_set_f2g cell_set_f2g nil_set_f2g
  cnt_set_heap cell_set_heap nil_set_heap cnt_set_next cell_set_next nil_set_next
  cnt_set_dc cell_set_dc nil_set_dc cnt_release_row cell_release_row nil_release_row
  cnt_set_table nil_alloc : mxv.

Ltac fields :=
  cbn [m_dc m_counts m_row m_col m_table m_f2g m_heap
       set_dc set_next set_counts set_table set_f2g set_heap inc_count release_row] in *.

(* ------------------------------------------------------------------ *)
Section Inv.
Variables ROW COL : Z.
Hypothesis HROW : 0 < ROW.
Hypothesis HCOL : 1 < COL.

Notation inv := (matrix_inv ROW COL).
Notation cntat := (cnt_at COL).

Lemma plt_pltb : forall r c r' c', pltb r c r' c' = true <-> plt r c r' c'.
Proof. intros. unfold plt, pltb. lia. Qed.

Lemma cell_some_live : forall st r c id, inv st -> cell st r c = Some id ->
  0 <= r /\ 0 <= c < COL /\ plt r c (m_row st) (m_col st).
Proof. intros st r c id I H. apply (inv_live _ _ _ I). congruence. Qed.

Lemma live_cell_some : forall st r c, inv st -> 0 <= r -> 0 <= c < COL ->
  plt r c (m_row st) (m_col st) -> exists id, cell st r c = Some id.
Proof.
  intros st r c I Hr Hc Hp. destruct (cell st r c) as [id|] eqn:E; [eauto|].
  exfalso. assert (cell st r c <> None) as X by (apply (inv_live _ _ _ I); auto). congruence.
Qed.

Lemma dead_cell_none : forall st r c, inv st -> ~ plt r c (m_row st) (m_col st) -> cell st r c = None.
Proof.
  intros st r c I Hp. destruct (cell st r c) as [id|] eqn:E; [|reflexivity].
  exfalso. apply Hp. eapply cell_some_live; eauto.
Qed.

Lemma cell_none_out : forall st r c, inv st ->
  ~ (0 <= r /\ 0 <= c < COL /\ plt r c (m_row st) (m_col st)) -> cell st r c = None.
Proof.
  intros st r c I Hp. destruct (cell st r c) as [id|] eqn:E; [|reflexivity].
  exfalso. apply Hp. eapply cell_some_live; eauto.
Qed.

(* lookups see exactly the cells *)
Lemma mx_get_some : forall st fd id, inv st ->
  (mx_get st fd = Some id <->
   exists r c, cell st r c = Some id /\ zget (m_heap st) id = Some (mkConn fd (mkGfd r c fd))).
Proof.
  intros st fd id I. unfold mx_get. split.
  - destruct (zget (m_f2g st) fd) as [g|] eqn:E; [|discriminate]. intro H.
    destruct (inv_f2g _ _ _ I _ _ E) as (Hfd & id' & Hc & Hh).
    rewrite Hc in H. inversion H; subst id'. exists (g_row g), (g_col g). split; [exact Hc|].
    rewrite Hh. destruct g; cbn in *; subst; reflexivity.
  - intros (r & c & Hc & Hh). destruct (inv_cell _ _ _ I _ _ _ Hc) as (fd' & Hh' & Hg).
    rewrite Hh in Hh'. inversion Hh'; subst fd'. rewrite Hg. cbn. exact Hc.
Qed.

Lemma mx_get_none_f2g : forall st fd, inv st -> mx_get st fd = None -> zget (m_f2g st) fd = None.
Proof.
  intros st fd I H. destruct (zget (m_f2g st) fd) as [g|] eqn:E; [|reflexivity].
  destruct (inv_f2g _ _ _ I _ _ E) as (_ & id & Hc & _). unfold mx_get in H. rewrite E, Hc in H. discriminate.
Qed.

Lemma cell_iff_get : forall st id, inv st ->
  ((exists r c, cell st r c = Some id) <-> exists fd, mx_get st fd = Some id).
Proof.
  intros st id I. split.
  - intros (r & c & Hc). destruct (inv_cell _ _ _ I _ _ _ Hc) as (fd & Hh & _).
    exists fd. apply mx_get_some; eauto.
  - intros (fd & H). apply mx_get_some in H; auto. destruct H as (r & c & Hc & _). eauto.
Qed.

(* ---- init ---- *)
Lemma cell_init : forall r c, cell mx_init r c = None.
Proof. intros. unfold cell, mx_init; cbn. rewrite zget_zempty. reflexivity. Qed.
Lemma cnt_init : forall r, cnt mx_init r = 0.
Proof. intros. unfold cnt, mx_init; cbn. rewrite zget_zempty. reflexivity. Qed.
Lemma nil_init : forall r, row_nil mx_init r = true.
Proof. intros. unfold row_nil, mx_init; cbn. rewrite zget_zempty. reflexivity. Qed.

Lemma inv_init : inv mx_init.
Proof.
  constructor.
  - reflexivity.
  - cbn. lia.
  - intros r c. rewrite cell_init. cbn. unfold plt. split; [congruence|lia].
  - intros r. rewrite cnt_init. cbn. unfold cnt_at. dif; lia.
  - intros r. rewrite nil_init, cnt_init. tauto.
  - intros r c id. rewrite cell_init. discriminate.
  - intros fd g. cbn. rewrite zget_zempty. discriminate.
Qed.

(* ---- addConn ---- *)
Lemma mx_add_views : forall st id fd, m_row st < ROW ->
  let r := m_row st in let c := m_col st in
  let st' := mx_add ROW COL st id fd in
  m_dc st' = m_dc st /\
  (m_row st' = (if c + 1 =? COL then r + 1 else r)) /\
  (m_col st' = (if c + 1 =? COL then 0 else c + 1)) /\
  (forall x, cnt st' x = if x =? r then cnt st r + 1 else cnt st x) /\
  (forall x, row_nil st' x = if x =? r then false else row_nil st x) /\
  (forall x y, cell st' x y = if (x =? r) && (y =? c) then Some id else cell st x y) /\
  m_f2g st' = zset (m_f2g st) fd (mkGfd r c fd) /\
  m_heap st' = zset (m_heap st) id (mkConn fd (mkGfd r c fd)).
Proof.
  intros st id fd Hrow r c st'. subst st'. unfold mx_add.
  replace (ROW <=? m_row st) with false by lia. fold r c.
  set (st1 := if row_nil st r then set_table st (zset (m_table st) r zempty) else st).
  assert (F1 : frame_table st st1) by (subst st1; destruct (row_nil st r); repeat split).
  assert (C1 : forall x y, cell st1 x y = cell st x y).
  { intros. subst st1. destruct (row_nil st r) eqn:E; [apply cell_alloc; exact E|reflexivity]. }
  assert (N1 : forall x, row_nil st1 x = if x =? r then false else row_nil st x).
  { intros. subst st1. destruct (row_nil st r) eqn:E.
    - apply nil_alloc.
    - destruct (Z.eqb_spec x r); subst; auto. }
  destruct F1 as (Fdc & Fcn & Frow & Fcol & Ff & Fh).
  set (g := mkGfd r c fd).
  set (st3 := set_f2g (set_heap st1 (zset (m_heap st1) id (mkConn fd g))) _).
  destruct (set_cell_ret st3 r c (Some id)) as (st4 & E4 & F4 & C4 & N4).
  { subst st3. autorewrite with mxv. rewrite N1. rewrite Z.eqb_refl. reflexivity. }
  rewrite E4.
  assert (K4 : forall x, cnt st4 x = cnt st x).
  { intros. rewrite (frame_table_cnt _ _ _ F4). subst st3. autorewrite with mxv. unfold cnt. rewrite Fcn. reflexivity. }
  destruct F4 as (Gdc & Gcn & Grow & Gcol & Gf & Gh).
  set (fin := if c + 1 =? COL then _ else _).
  assert (m_dc fin = m_dc st /\ m_f2g fin = zset (m_f2g st) fd g /\ m_heap fin = zset (m_heap st) id (mkConn fd g)
          /\ (forall x, cnt fin x = if x =? r then cnt st r + 1 else cnt st x)
          /\ (forall x, row_nil fin x = if x =? r then false else row_nil st x)
          /\ (forall x y, cell fin x y = if (x =? r) && (y =? c) then Some id else cell st x y)) as (A1 & A2 & A3 & A4 & A5 & A6).
  { subst fin. destruct (c + 1 =? COL); splits.
    all: try (intros x y; autorewrite with mxv; rewrite C4; subst st3; autorewrite with mxv; rewrite C1; reflexivity).
    all: try (intros x; autorewrite with mxv; rewrite ?K4; reflexivity).
    all: try (intros x; autorewrite with mxv; rewrite N4; subst st3; autorewrite with mxv; apply N1).
    all: fields; rewrite ?Gdc, ?Gf, ?Gh; subst st3; fields; rewrite ?Fdc, ?Ff, ?Fh; reflexivity. }
  splits; auto.
  - subst fin. destruct (c + 1 =? COL); reflexivity.
  - subst fin. destruct (c + 1 =? COL); reflexivity.
Qed.

Lemma mx_add_inv : forall st id fd,
  inv st -> m_row st < ROW -> mx_get st fd = None -> (forall r c, cell st r c <> Some id) ->
  inv (mx_add ROW COL st id fd) /\
  (forall fd', mx_get (mx_add ROW COL st id fd) fd' = if fd' =? fd then Some id else mx_get st fd') /\
  population COL (mx_add ROW COL st id fd) = population COL st + 1.
Proof.
  intros st id fd I Hrow Hget Hfresh.
  destruct (mx_add_views st id fd Hrow) as (Vdc & Vrow & Vcol & Vcnt & Vnil & Vcell & Vf & Vh).
  set (st' := mx_add ROW COL st id fd) in *.
  set (r := m_row st) in *. set (c := m_col st) in *.
  pose proof (inv_next _ _ _ I) as (Hr & Hc & _). fold r c in Hr, Hc.
  assert (Hf2g : zget (m_f2g st) fd = None) by (apply mx_get_none_f2g; auto).
  assert (Hnone : cell st r c = None).
  { apply dead_cell_none; auto. fold r c. unfold plt. lia. }
  assert (I' : inv st').
  { constructor.
    - rewrite Vdc. apply (inv_dc _ _ _ I).
    - rewrite Vrow, Vcol. dif; lia.
    - intros x y. rewrite Vcell, Vrow, Vcol.
      pose proof (inv_live _ _ _ I x y) as L. fold r c in L. unfold plt in *.
      destruct ((x =? r) && (y =? c)) eqn:E.
      + split; [intros _|congruence]. dif; lia.
      + rewrite L. dif; lia.
    - intros x. rewrite Vcnt, Vrow, Vcol. rewrite !(inv_cnt _ _ _ I). fold r c. unfold cnt_at. dif; lia.
    - intros x. rewrite Vnil, Vcnt. pose proof (inv_nil _ _ _ I x) as L.
      rewrite (inv_cnt _ _ _ I r). fold r c. unfold cnt_at.
      destruct (Z.eqb_spec x r); [|exact L]. split; [discriminate|]. dif; lia.
    - intros x y i. rewrite Vcell, Vf, Vh. destruct ((x =? r) && (y =? c)) eqn:E.
      + intros H. inversion H; subst i. exists fd. rewrite !zget_zset, !Z.eqb_refl.
        assert (x = r /\ y = c) as (-> & ->) by lia. auto.
      + intros H. destruct (inv_cell _ _ _ I _ _ _ H) as (fd0 & Hh & Hg).
        exists fd0. rewrite !zget_zset.
        destruct (Z.eqb_spec i id) as [->|_]; [exfalso; eapply Hfresh; eauto|].
        destruct (Z.eqb_spec fd0 fd) as [->|_]; [congruence|]. auto.
    - intros fd' g. rewrite Vf, Vh, zget_zset. destruct (Z.eqb_spec fd' fd) as [->|N].
      + intros H. inversion H; subst g. cbn. split; [reflexivity|]. exists id.
        rewrite Vcell, !Z.eqb_refl, zget_zset, Z.eqb_refl. auto.
      + intros H. destruct (inv_f2g _ _ _ I _ _ H) as (Hfd & id0 & Hc0 & Hh0).
        split; [exact Hfd|]. exists id0. rewrite Vcell, zget_zset.
        destruct ((g_row g =? r) && (g_col g =? c)) eqn:E.
        * assert (g_row g = r /\ g_col g = c) as (E1 & E2) by lia. rewrite E1, E2 in Hc0. congruence.
        * destruct (Z.eqb_spec id0 id) as [->|_]; [exfalso; eapply Hfresh; eauto|]. auto. }
  splits; auto.
  - intros fd'. unfold mx_get. rewrite Vf, zget_zset.
    destruct (Z.eqb_spec fd' fd) as [->|N].
    + cbn. rewrite Vcell, !Z.eqb_refl. reflexivity.
    + destruct (zget (m_f2g st) fd') as [g|] eqn:E; [|reflexivity].
      rewrite Vcell. destruct ((g_row g =? r) && (g_col g =? c)) eqn:E'; [|reflexivity].
      destruct (inv_f2g _ _ _ I _ _ E) as (_ & id0 & Hc0 & _).
      assert (g_row g = r /\ g_col g = c) as (E1 & E2) by lia. rewrite E1, E2 in Hc0. congruence.
  - unfold population. rewrite Vrow, Vcol. fold r c. dif; nia.
Qed.

(* ---- the backward column scan ---- *)
Definition lc_step (lo : Z) (best : option (Z * Z)) (kv : Z * Z) : option (Z * Z) :=
  if (lo <? fst kv) && (fst kv <? COL) &&
     (match best with None => true | Some b => fst b <? fst kv end)
  then Some kv else best.

Lemma last_col_unfold : forall rowm lo, last_col COL rowm lo = fold_left (lc_step lo) (zelems rowm) None.
Proof. reflexivity. Qed.

Lemma lc_fold_none : forall lo l best,
  (forall kv, In kv l -> ~ (lo < fst kv < COL)) -> fold_left (lc_step lo) l best = best.
Proof.
  induction l as [|kv l IH]; intros best H; cbn; [reflexivity|].
  rewrite IH by (intros; apply H; cbn; auto).
  unfold lc_step. assert (~ (lo < fst kv < COL)) by (apply H; cbn; auto).
  replace ((lo <? fst kv) && (fst kv <? COL)) with false by lia. reflexivity.
Qed.

Lemma lc_step_good : forall lo c v kv best,
  lo < c < COL ->
  (lo < fst kv < COL -> fst kv <= c) -> (fst kv = c -> kv = (c, v)) ->
  (match best with None => True | Some b => fst b < c \/ b = (c, v) end) ->
  (match lc_step lo best kv with None => True | Some b => fst b < c \/ b = (c, v) end) /\
  (kv = (c, v) \/ best = Some (c, v) -> lc_step lo best kv = Some (c, v)).
Proof.
  intros lo c v [k w] best Hc Hle Huniq Hbest. cbn [fst] in *. unfold lc_step. cbn [fst].
  destruct (Z.eq_dec k c) as [E|N].
  - specialize (Huniq E). inversion Huniq; subst k w.
    destruct best as [[bk bv]|]; cbn [fst] in *.
    + destruct Hbest as [Hb|Hb].
      * replace ((lo <? c) && (c <? COL) && (bk <? c)) with true by lia. auto.
      * inversion Hb; subst. replace ((lo <? c) && (c <? COL) && (c <? c)) with false by lia. auto.
    + replace ((lo <? c) && (c <? COL) && true) with true by lia. auto.
  - split.
    + destruct ((lo <? k) && (k <? COL) && _) eqn:T; [|exact Hbest].
      left. cbn. assert (k <= c) by (apply Hle; lia). lia.
    + intros [H|H]; [inversion H; congruence|]. subst best. cbn [fst].
      assert (lo < k < COL -> k <= c) by exact Hle.
      replace ((lo <? k) && (k <? COL) && (c <? k)) with false by lia. reflexivity.
Qed.

Lemma lc_fold_some : forall lo c v l best,
  lo < c < COL ->
  (forall kv, In kv l -> lo < fst kv < COL -> fst kv <= c) ->
  (forall kv, In kv l -> fst kv = c -> kv = (c, v)) ->
  (match best with None => True | Some b => fst b < c \/ b = (c, v) end) ->
  (In (c, v) l \/ best = Some (c, v)) ->
  fold_left (lc_step lo) l best = Some (c, v).
Proof.
  induction l as [|kv l IH]; intros best Hc Hle Huniq Hbest Hin; cbn.
  - destruct Hin as [[]|H]; exact H.
  - destruct (lc_step_good lo c v kv best Hc) as (G1 & G2); auto.
    { apply Hle; cbn; auto. } { apply Huniq; cbn; auto. }
    apply IH; auto.
    + intros; apply Hle; cbn; auto.
    + intros; apply Huniq; cbn; auto.
    + destruct Hin as [[H|H]|H]; [right; apply G2; auto|left; exact H|right; apply G2; auto].
Qed.

Lemma last_col_none : forall rowm lo,
  (forall c, lo < c < COL -> zget rowm c = None) -> last_col COL rowm lo = None.
Proof.
  intros rowm lo H. rewrite last_col_unfold. apply lc_fold_none.
  intros [k v] Hin Hr. apply zelems_spec in Hin. cbn in Hr. rewrite H in Hin by lia. discriminate.
Qed.

Lemma last_col_some : forall rowm lo c v,
  zget rowm c = Some v -> lo < c < COL ->
  (forall c', c < c' < COL -> zget rowm c' = None) ->
  last_col COL rowm lo = Some (c, v).
Proof.
  intros rowm lo c v Hg Hc Hmax. rewrite last_col_unfold. apply lc_fold_some; auto.
  - intros [k w] Hin Hr. cbn in *. apply zelems_spec in Hin.
    destruct (Z_le_gt_dec k c); [assumption|]. rewrite Hmax in Hin by lia. discriminate.
  - intros [k w] Hin E. cbn in E. subst k. apply zelems_spec in Hin. congruence.
  - left. apply zelems_spec. exact Hg.
Qed.

(* ---- delConn ---- *)
Lemma scan_rows_skip : forall st r cl rows1 rows2,
  (forall x, In x rows1 -> cnt st x = 0) ->
  scan_rows COL st r cl (rows1 ++ rows2) = scan_rows COL st r cl rows2.
Proof.
  induction rows1 as [|x rows1 IH]; intros rows2 H; cbn [app scan_rows]; [reflexivity|].
  rewrite (H x) by (cbn; auto). cbn. apply IH. intros; apply H; cbn; auto.
Qed.

Lemma row_nil_false_rowm : forall st x, row_nil st x = false ->
  exists rowm, zget (m_table st) x = Some rowm /\ forall y, cell st x y = zget rowm y.
Proof.
  intros st x H. unfold row_nil in H. destruct (zget (m_table st) x) as [rowm|] eqn:E; [|discriminate].
  exists rowm. split; [reflexivity|]. intros y. unfold cell. rewrite E. reflexivity.
Qed.

(* what delConn leaves behind: D = (r, cl) is the deleted position, L = (lr, lc)
   the last live position before the call, whose connection idL (descriptor fdL)
   is moved into D unless D = L *)
Definition del_post (st st' : matst) (r cl lr lc idL fd fdL : Z) : Prop :=
  let moved := negb ((r =? lr) && (cl =? lc)) in
  m_dc st' = false /\ m_row st' = lr /\ m_col st' = lc /\
  (forall x, cnt st' x = cnt st x - (if x =? lr then 1 else 0)) /\
  (forall x, row_nil st' x = if (x =? lr) && (cnt st lr =? 1) then true else row_nil st x) /\
  (forall x y, cell st' x y = if (x =? lr) && (y =? lc) then None
                              else if (x =? r) && (y =? cl) then Some idL else cell st x y) /\
  (forall x, zget (m_f2g st') x = if (x =? fdL) && moved then Some (mkGfd r cl fdL)
                                  else if x =? fd then None else zget (m_f2g st) x) /\
  (forall i, zget (m_heap st') i = if (i =? idL) && moved then Some (mkConn fdL (mkGfd r cl fdL))
                                   else zget (m_heap st) i).

Lemma rows_split : forall r lr, 0 <= r <= lr -> lr < ROW ->
  rev_append (zseq r (ROW - r)) [] =
  rev (zseq (lr + 1) (ROW - lr - 1)) ++ lr :: rev (zseq r (lr - r)).
Proof.
  intros r lr H1 H2. rewrite rev_append_nil.
  replace (ROW - r) with ((lr - r) + (1 + (ROW - lr - 1))) by lia.
  rewrite zseq_app by lia. rewrite (zseq_app (r + (lr - r))) by lia.
  rewrite !rev_app_distr. replace (r + (lr - r)) with lr by lia.
  rewrite (zseq_cons lr 1) by lia. rewrite (zseq_nil _ (1 - 1)) by lia. cbn [rev app].
  rewrite <- app_assoc. reflexivity.
Qed.

Lemma mx_del_exec : forall st id fd r cl lr lc idL fdL,
  inv st ->
  zget (m_heap st) id = Some (mkConn fd (mkGfd r cl fd)) -> cell st r cl = Some id ->
  ((0 < m_col st /\ lr = m_row st /\ lc = m_col st - 1) \/
   (m_col st = 0 /\ lr = m_row st - 1 /\ lc = COL - 1)) ->
  cell st lr lc = Some idL -> zget (m_heap st) idL = Some (mkConn fdL (mkGfd lr lc fdL)) ->
  exists st', mx_del ROW COL st id = Ret st' /\ del_post st st' r cl lr lc idL fd fdL.
Proof.
  intros st id fd r cl lr lc idL fdL I Hh Hc HL HcL HhL.
  pose proof (cell_some_live _ _ _ _ I Hc) as (Hr0 & Hcl & Hplt).
  pose proof (cell_some_live _ _ _ _ I HcL) as (Hlr0 & Hlc & HpltL).
  pose proof (inv_next _ _ _ I) as (Hrow & Hcol & Hfull).
  pose proof (inv_cnt _ _ _ I) as Hcnt.
  pose proof (inv_dc _ _ _ I) as Hdc.
  set (row := m_row st) in *. set (col := m_col st) in *.
  assert (HDL : plt r cl lr lc \/ (r = lr /\ cl = lc)) by (unfold plt in *; lia).
  unfold mx_del. rewrite Hh. cbn [c_gfd g_row g_col c_fd].
  set (st2 := inc_count (set_f2g st (zdel (m_f2g st) fd)) r (-1)).
  assert (K2 : forall x, cnt st2 x = if x =? r then cnt st r - 1 else cnt st x).
  { intros. subst st2. autorewrite with mxv. replace (cnt st r + -1) with (cnt st r - 1) by lia. reflexivity. }
  unfold release_or_clear. rewrite K2, Z.eqb_refl.
  assert (Hcond : forall s, m_row s = row -> m_col s = col -> (r <? m_row s) || (cl <? m_col s) = true).
  { intros s -> ->. unfold plt in Hplt. lia. }
  destruct (cnt st r - 1 =? 0) eqn:EA.
  - (* the row of the deleted connection becomes empty: it was the last connection *)
    assert (r = row /\ col = 1 /\ cl = 0 /\ lr = r /\ lc = 0) as (-> & Hcol1 & -> & -> & ->).
    { rewrite Hcnt in EA. unfold cnt_at, plt in *. dif_in EA; lia. }
    cbn [obind]. rewrite Hcond by reflexivity.
    autorewrite with mxv. rewrite Z.eqb_refl, Bool.orb_true_r.
    eexists. split; [reflexivity|]. unfold del_post.
    rewrite !Z.eqb_refl. cbn [andb negb].
    splits.
    + fields. exact Hdc.
    + reflexivity.
    + reflexivity.
    + intros x. autorewrite with mxv. rewrite K2. difs; lia.
    + intros x. autorewrite with mxv. subst st2. autorewrite with mxv.
      replace (cnt st row =? 1) with true by lia. dif; reflexivity.
    + intros x y. autorewrite with mxv. subst st2. autorewrite with mxv.
      destruct (Z.eqb_spec x row) as [->|N]; cbn [andb]; [|reflexivity].
      destruct (Z.eqb_spec y 0) as [->|N0]; [reflexivity|].
      symmetry. apply cell_none_out; auto. fold row col. unfold plt. lia.
    + intros x. subst st2. fields. rewrite zget_zdel. rewrite Bool.andb_false_r. reflexivity.
    + intros i. subst st2. fields. rewrite Bool.andb_false_r. reflexivity.
  - (* the row keeps other connections: clear the cell, then compact *)
    assert (Hc2 : 2 <= cnt st r) by (rewrite Hcnt in *; unfold cnt_at, plt in *; dif_in EA; dif; lia).
    assert (Hnil : row_nil st r = false).
    { destruct (row_nil st r) eqn:E; [|reflexivity]. apply (inv_nil _ _ _ I) in E. lia. }
    destruct (set_cell_ret st2 r cl None) as (st3 & E3 & F3 & C3 & N3).
    { subst st2. autorewrite with mxv. exact Hnil. }
    rewrite E3. cbn [obind].
    destruct F3 as (Fdc & Fcn & Frow & Fcol & Ff & Fh).
    rewrite Hcond by (rewrite ?Frow, ?Fcol; reflexivity).
    set (st4 := set_next st3 r cl).
    assert (Hdc4 : m_dc st4 = false) by (subst st4; fields; rewrite Fdc; subst st2; fields; exact Hdc).
    assert (N4 : forall x, row_nil st4 x = row_nil st x).
    { intros. subst st4. autorewrite with mxv. rewrite N3. subst st2. autorewrite with mxv. reflexivity. }
    assert (K4 : forall x, cnt st4 x = if x =? r then cnt st r - 1 else cnt st x).
    { intros. subst st4. autorewrite with mxv. unfold cnt at 1. rewrite Fcn. apply K2. }
    assert (C4 : forall x y, cell st4 x y = if (x =? r) && (y =? cl) then None else cell st x y).
    { intros. subst st4. autorewrite with mxv. rewrite C3. subst st2. autorewrite with mxv. reflexivity. }
    rewrite Hdc4, N4, Hnil. cbn [orb].
    assert (Hlr : lr < ROW) by (unfold plt in *; lia).
    rewrite (rows_split r lr) by (unfold plt in *; lia).
    rewrite scan_rows_skip.
    2:{ intros x Hx. apply in_rev in Hx. apply zseq_in in Hx. rewrite K4.
        replace (x =? r) with false by (unfold plt in *; lia). rewrite Hcnt. unfold cnt_at. dif; lia. }
    cbn [scan_rows].
    assert (HcntL : 1 <= cnt st lr) by (rewrite Hcnt; unfold cnt_at, plt in *; dif; lia).
    replace (cnt st4 lr =? 0) with false by (rewrite K4; dif; lia).
    assert (HnilL : row_nil st lr = false).
    { destruct (row_nil st lr) eqn:E; [|reflexivity]. apply (inv_nil _ _ _ I) in E. lia. }
    destruct (row_nil_false_rowm st4 lr) as (rowm & Erow & Crow); [rewrite N4; exact HnilL|].
    rewrite Erow.
    assert (Habove : forall c, lc < c < COL -> zget rowm c = None).
    { intros c Hc'. rewrite <- Crow, C4.
      replace ((lr =? r) && (c =? cl)) with false by (unfold plt in *; lia).
      apply cell_none_out; auto. fold row col. unfold plt in *. lia. }
    destruct HDL as [HDL|(-> & ->)].
    + (* move the last connection into the freed position *)
      rewrite (last_col_some rowm _ lc idL).
      2:{ rewrite <- Crow, C4. replace ((lr =? r) && (lc =? cl)) with false by (unfold plt in *; lia). exact HcL. }
      2:{ unfold plt in *. dif; lia. }
      2:{ exact Habove. }
      unfold relocate.
      assert (Hh4 : m_heap st4 = m_heap st) by (subst st4; fields; rewrite Fh; reflexivity).
      assert (Hf4 : m_f2g st4 = zdel (m_f2g st) fd) by (subst st4; fields; rewrite Ff; reflexivity).
      rewrite Hh4, HhL. cbn [c_gfd g_fd c_fd].
      set (g := mkGfd r cl fdL).
      set (st6 := set_f2g _ _).
      destruct (set_cell_ret st6 r cl (Some idL)) as (st7 & E7 & F7 & C7 & N7).
      { subst st6. autorewrite with mxv. rewrite N4. exact Hnil. }
      rewrite E7. cbn [obind].
      set (st8 := inc_count (inc_count st7 lr (-1)) r 1).
      assert (K8 : forall x, cnt st8 x = cnt st x - (if x =? lr then 1 else 0)).
      { intros. subst st8. autorewrite with mxv. rewrite !(frame_table_cnt _ _ _ F7).
        subst st6. autorewrite with mxv. rewrite !K4. difs; lia. }
      unfold release_or_clear. rewrite K8, Z.eqb_refl.
      assert (Hmoved : negb ((r =? lr) && (cl =? lc)) = true) by (unfold plt in *; lia).
      destruct F7 as (Gdc & Gcn & Grow & Gcol & Gf & Gh).
      assert (N8 : forall x, row_nil st8 x = row_nil st x).
      { intros. subst st8. autorewrite with mxv. rewrite N7. subst st6. autorewrite with mxv. apply N4. }
      assert (C8 : forall x y, cell st8 x y = if (x =? r) && (y =? cl) then Some idL else cell st x y).
      { intros. subst st8. autorewrite with mxv. rewrite C7. subst st6. autorewrite with mxv. rewrite C4.
        dif; reflexivity. }
      assert (Hf8 : m_f2g st8 = zset (zdel (m_f2g st) fd) fdL g).
      { subst st8. fields. rewrite Gf. subst st6. fields. rewrite Hf4. reflexivity. }
      assert (Hh8 : m_heap st8 = zset (m_heap st) idL (mkConn fdL g)).
      { subst st8. fields. rewrite Gh. subst st6. fields. reflexivity. }
      assert (Hdc8 : m_dc st8 = false).
      { subst st8. fields. rewrite Gdc. subst st6. fields. exact Hdc4. }
      destruct (cnt st lr - 1 =? 0) eqn:EL.
      * (* the last connection was alone in its row: release that row *)
        assert (lr = row /\ col = 1 /\ lc = 0) as (-> & Hcol1 & ->).
        { rewrite Hcnt in EL. unfold cnt_at, plt in *. dif_in EL; lia. }
        cbn [obind]. eexists. split; [reflexivity|]. unfold del_post. rewrite Hmoved. splits.
        -- fields. exact Hdc8.
        -- reflexivity.
        -- reflexivity.
        -- intros x. autorewrite with mxv. apply K8.
        -- intros x. autorewrite with mxv. rewrite N8. replace (cnt st row =? 1) with true by lia.
           dif; reflexivity.
        -- intros x y. autorewrite with mxv. rewrite C8.
           destruct (Z.eqb_spec x row) as [->|N]; cbn [andb]; [|reflexivity].
           destruct (Z.eqb_spec y 0) as [->|N0]; [reflexivity|].
           replace (row =? r) with false by (unfold plt in *; lia). cbn [andb].
           symmetry. apply cell_none_out; auto. fold row col. unfold plt. lia.
        -- intros x. fields. rewrite Hf8, zget_zset, zget_zdel. rewrite Bool.andb_true_r. reflexivity.
        -- intros i. fields. rewrite Hh8, zget_zset. rewrite Bool.andb_true_r. reflexivity.
      * destruct (set_cell_ret st8 lr lc None) as (st9 & E9 & F9 & C9 & N9).
        { rewrite N8. exact HnilL. }
        rewrite E9. cbn [obind]. eexists. split; [reflexivity|]. unfold del_post. rewrite Hmoved.
        destruct F9 as (Jdc & Jcn & Jrow & Jcol & Jf & Jh).
        splits.
        -- fields. rewrite Jdc. exact Hdc8.
        -- reflexivity.
        -- reflexivity.
        -- intros x. autorewrite with mxv. unfold cnt at 1. rewrite Jcn. apply K8.
        -- intros x. autorewrite with mxv. rewrite N9, N8. replace (cnt st lr =? 1) with false by lia.
           rewrite Bool.andb_false_r. reflexivity.
        -- intros x y. autorewrite with mxv. rewrite C9, C8. reflexivity.
        -- intros x. fields. rewrite Jf, Hf8, zget_zset, zget_zdel. rewrite Bool.andb_true_r. reflexivity.
        -- intros i. fields. rewrite Jh, Hh8, zget_zset. rewrite Bool.andb_true_r. reflexivity.
    + (* the deleted connection was the last one: nothing to move *)
      rewrite Z.eqb_refl. rewrite (last_col_none rowm lc) by exact Habove.
      replace (lr - lr) with 0 by lia. rewrite zseq_nil by lia. cbn [rev scan_rows].
      eexists. split; [reflexivity|]. unfold del_post. rewrite !Z.eqb_refl. cbn [andb negb].
      splits.
      * exact Hdc4.
      * reflexivity.
      * reflexivity.
      * intros x. rewrite K4. difs; lia.
      * intros x. rewrite N4. replace (cnt st lr =? 1) with false by lia.
        rewrite Bool.andb_false_r. reflexivity.
      * intros x y. rewrite C4. dif; reflexivity.
      * intros x. rewrite Bool.andb_false_r. subst st4. fields. rewrite Ff. subst st2. fields.
        apply zget_zdel.
      * intros i. rewrite Bool.andb_false_r. subst st4. fields. rewrite Fh. reflexivity.
Qed.

Lemma mx_del_inv : forall st id fd r cl,
  inv st -> zget (m_heap st) id = Some (mkConn fd (mkGfd r cl fd)) -> cell st r cl = Some id ->
  exists st', mx_del ROW COL st id = Ret st' /\ inv st' /\
    (forall fd', mx_get st' fd' = if fd' =? fd then None else mx_get st fd') /\
    population COL st' = population COL st - 1.
Proof.
  intros st id fd r cl I Hh Hc.
  pose proof (cell_some_live _ _ _ _ I Hc) as (Hr0 & Hcl & Hplt).
  pose proof (inv_next _ _ _ I) as (Hrow & Hcol & Hfull).
  set (lr := if m_col st =? 0 then m_row st - 1 else m_row st).
  set (lc := if m_col st =? 0 then COL - 1 else m_col st - 1).
  assert (HL : (0 < m_col st /\ lr = m_row st /\ lc = m_col st - 1) \/
               (m_col st = 0 /\ lr = m_row st - 1 /\ lc = COL - 1)) by (subst lr lc; dif; lia).
  destruct (live_cell_some st lr lc I) as (idL & HcL); [unfold plt in *; lia..|].
  destruct (inv_cell _ _ _ I _ _ _ HcL) as (fdL & HhL & HfL).
  destruct (inv_cell _ _ _ I _ _ _ Hc) as (fd0 & Hh0 & Hf). rewrite Hh in Hh0. inversion Hh0; subst fd0. clear Hh0.
  destruct (mx_del_exec st id fd r cl lr lc idL fdL I Hh Hc HL HcL HhL) as (st' & E & P).
  exists st'. split; [exact E|].
  destruct P as (Pdc & Prow & Pcol & Pcnt & Pnil & Pcell & Pf & Ph).
  clearbody lr lc.
  pose proof (cell_some_live _ _ _ _ I HcL) as (Hlr0 & Hlc & HpltL).
  set (row := m_row st) in *. set (col := m_col st) in *.
  assert (HDL : plt r cl lr lc \/ (r = lr /\ cl = lc)) by (unfold plt in *; lia).
  set (moved := negb ((r =? lr) && (cl =? lc))) in *.
  assert (Hsame : moved = false -> id = idL /\ fd = fdL).
  { intros M. assert (r = lr /\ cl = lc) as (-> & ->) by (subst moved; lia).
    assert (id = idL) by congruence. subst idL. split; [reflexivity|congruence]. }
  assert (Hdiff : moved = true -> id <> idL /\ fd <> fdL).
  { intros M. assert (~ (r = lr /\ cl = lc)) as N by (subst moved; lia). split; intro; subst.
    - rewrite Hh in HhL. inversion HhL. lia.
    - rewrite Hf in HfL. inversion HfL. lia. }
  (* positions other than D and L keep their connection *)
  assert (Hother : forall x y i, cell st x y = Some i -> ~ (x = r /\ y = cl) -> ~ (x = lr /\ y = lc) ->
            i <> id /\ i <> idL).
  { intros x y i Hi N1 N2. split; intro; subst i.
    - destruct (inv_cell _ _ _ I _ _ _ Hi) as (f & Hf' & _). rewrite Hh in Hf'. inversion Hf'. lia.
    - destruct (inv_cell _ _ _ I _ _ _ Hi) as (f & Hf' & _). rewrite HhL in Hf'. inversion Hf'. lia. }
  assert (Hfother : forall x g, zget (m_f2g st) x = Some g -> x <> fd -> x <> fdL ->
            ~ (g_row g = r /\ g_col g = cl) /\ ~ (g_row g = lr /\ g_col g = lc) /\ g_fd g = x /\
            exists id0, cell st (g_row g) (g_col g) = Some id0 /\
                        zget (m_heap st) id0 = Some (mkConn x g) /\ id0 <> idL).
  { intros x g Hg N1 N2. destruct (inv_f2g _ _ _ I _ _ Hg) as (Gfd & id0 & Gc & Gh).
    assert (A : ~ (g_row g = r /\ g_col g = cl)).
    { intros (E1 & E2). rewrite E1, E2 in Gc. rewrite Hc in Gc. inversion Gc; subst id0.
      rewrite Hh in Gh. inversion Gh. congruence. }
    assert (B : ~ (g_row g = lr /\ g_col g = lc)).
    { intros (E1 & E2). rewrite E1, E2 in Gc. rewrite HcL in Gc. inversion Gc; subst id0.
      rewrite HhL in Gh. inversion Gh. congruence. }
    splits; auto. exists id0. splits; auto. eapply Hother; eauto. }
  assert (HHL : (0 < col /\ lr = row /\ lc = col - 1) \/ (col = 0 /\ lr = row - 1 /\ lc = COL - 1)) by exact HL.
  assert (I' : inv st').
  { constructor.
    - exact Pdc.
    - rewrite Prow, Pcol. unfold plt in *. lia.
    - intros x y. rewrite Pcell, Prow, Pcol.
      pose proof (inv_live _ _ _ I x y) as Lv. fold row col in Lv.
      destruct ((x =? lr) && (y =? lc)) eqn:E1.
      + split; [congruence|]. unfold plt. lia.
      + destruct ((x =? r) && (y =? cl)) eqn:E2.
        * split; [intros _|congruence]. unfold plt in *. lia.
        * rewrite Lv. unfold plt in *. lia.
    - intros x. rewrite Pcnt, Prow, Pcol, (inv_cnt _ _ _ I). fold row col. unfold cnt_at, plt in *. dif; lia.
    - intros x. rewrite Pnil, Pcnt. pose proof (inv_nil _ _ _ I x) as Nl.
      pose proof (inv_cnt _ _ _ I lr) as Cl. fold row col in Cl.
      assert (1 <= cnt st lr) by (rewrite Cl; unfold cnt_at, plt in *; dif; lia).
      destruct (Z.eqb_spec x lr) as [->|N]; cbn [andb].
      + destruct (Z.eqb_spec (cnt st lr) 1) as [E1|E1]; [rewrite E1; lia|]. rewrite Nl. lia.
      + rewrite Nl. lia.
    - intros x y i. rewrite Pcell. destruct ((x =? lr) && (y =? lc)) eqn:E1; [discriminate|].
      destruct ((x =? r) && (y =? cl)) eqn:E2.
      + intros H. inversion H; subst i. assert (x = r /\ y = cl) as (-> & ->) by lia.
        assert (M : moved = true) by (subst moved; lia).
        exists fdL. rewrite Ph, Pf, M, !Z.eqb_refl. auto.
      + intros H. destruct (Hother x y i H) as (N1 & N2); [lia..|].
        destruct (inv_cell _ _ _ I _ _ _ H) as (f & Hf1 & Hf2).
        exists f. rewrite Ph, Pf.
        replace (i =? idL) with false by lia. cbn [andb].
        assert (f <> fdL) by (intro; subst f; rewrite HfL in Hf2; inversion Hf2; lia).
        assert (f <> fd) by (intro; subst f; rewrite Hf in Hf2; inversion Hf2; lia).
        replace (f =? fdL) with false by lia. replace (f =? fd) with false by lia. auto.
    - intros x g. rewrite Pf. destruct ((x =? fdL) && moved) eqn:E1.
      + assert (x = fdL /\ moved = true) as (-> & M) by lia.
        intros H. inversion H; subst g. cbn. split; [reflexivity|]. exists idL.
        rewrite Pcell, Ph, M, !Z.eqb_refl. cbn [andb].
        replace ((r =? lr) && (cl =? lc)) with false by (subst moved; lia). auto.
      + destruct (Z.eqb_spec x fd) as [->|N]; [discriminate|]. intros H.
        assert (x <> fdL).
        { intro; subst x. assert (M : moved = false) by lia. destruct (Hsame M). congruence. }
        destruct (Hfother x g H N) as (A & B & Gfd & id0 & Gc & Gh & Gn); auto.
        split; [exact Gfd|]. exists id0. rewrite Pcell, Ph.
        replace ((g_row g =? lr) && (g_col g =? lc)) with false by lia.
        replace ((g_row g =? r) && (g_col g =? cl)) with false by lia.
        replace (id0 =? idL) with false by lia. auto. }
  splits; auto.
  - intros fd'. unfold mx_get. rewrite Pf. destruct ((fd' =? fdL) && moved) eqn:E1.
    + assert (fd' = fdL /\ moved = true) as (-> & M) by lia. destruct (Hdiff M) as (_ & Nf).
      replace (fdL =? fd) with false by lia. cbn. rewrite Pcell, !Z.eqb_refl. cbn [andb].
      replace ((r =? lr) && (cl =? lc)) with false by (subst moved; lia).
      rewrite HfL. cbn. symmetry. exact HcL.
    + destruct (Z.eqb_spec fd' fd) as [->|N]; [reflexivity|].
      destruct (zget (m_f2g st) fd') as [g|] eqn:Eg; [|reflexivity].
      assert (fd' <> fdL).
      { intro; subst fd'. assert (M : moved = false) by lia. destruct (Hsame M). congruence. }
      destruct (Hfother fd' g Eg N) as (A & B & _); auto.
      rewrite Pcell.
      replace ((g_row g =? lr) && (g_col g =? lc)) with false by lia.
      replace ((g_row g =? r) && (g_col g =? cl)) with false by lia. reflexivity.
  - unfold population. rewrite Prow, Pcol. fold row col. nia.
Qed.

(* ---- loadCount ---- *)
Lemma load_prefix : forall st, inv st -> forall k : nat,
  fold_left (fun n r => n + cnt st r) (zseq 0 (Z.of_nat k)) 0 =
  if Z.of_nat k <=? m_row st then Z.of_nat k * COL else m_row st * COL + m_col st.
Proof.
  intros st I. pose proof (inv_next _ _ _ I) as (Hrow & Hcol & _).
  induction k as [|k IH].
  - cbn. dif; lia.
  - rewrite zseq_snoc by lia. rewrite fold_left_app. cbn [fold_left].
    replace (Z.of_nat (S k) - 1) with (Z.of_nat k) by lia. rewrite IH.
    rewrite (inv_cnt _ _ _ I). unfold cnt_at. replace (0 + Z.of_nat k) with (Z.of_nat k) by lia.
    dif; nia.
Qed.

Lemma mx_load_pop : forall st, inv st -> mx_load ROW st = population COL st.
Proof.
  intros st I. unfold mx_load, population. pose proof (inv_next _ _ _ I) as (Hrow & Hcol & Hfull).
  replace ROW with (Z.of_nat (Z.to_nat ROW)) at 1 by lia. rewrite load_prefix by exact I.
  rewrite Z2Nat.id by lia. dif; [|reflexivity]. assert (m_row st = ROW) by lia. rewrite Hfull by assumption. lia.
Qed.

(* ---- iteration ---- *)
Definition row_ids (st : matst) (r : Z) : list Z := flat_map (fun c => olist (cell st r c)) (zseq 0 COL).
Definition live_ids (st : matst) : list Z := flat_map (row_ids st) (zseq 0 ROW).

Lemma live_ids_in : forall st id, inv st -> (In id (live_ids st) <-> exists r c, cell st r c = Some id).
Proof.
  intros st id I. unfold live_ids, row_ids. rewrite in_flat_map. split.
  - intros (r & _ & H). apply in_flat_map in H. destruct H as (c & _ & H).
    exists r, c. destruct (cell st r c); cbn in H; [destruct H as [->|[]]; reflexivity|contradiction].
  - intros (r & c & H). pose proof (cell_some_live _ _ _ _ I H) as (Hr & Hc & Hp).
    pose proof (inv_next _ _ _ I) as (Hrow & Hcol & Hfull).
    exists r. split; [apply zseq_in; unfold plt in *; lia|]. apply in_flat_map.
    exists c. split; [apply zseq_in; lia|]. rewrite H. cbn. auto.
Qed.

Lemma live_ids_nodup : forall st, inv st -> NoDup (live_ids st).
Proof.
  intros st I. unfold live_ids. apply NoDup_flat_map.
  - apply zseq_nodup.
  - intros r _. unfold row_ids. apply NoDup_flat_map.
    + apply zseq_nodup.
    + intros c _. destruct (cell st r c); cbn; repeat constructor; auto.
    + intros c c' b _ _ H H'. destruct (cell st r c) eqn:E; cbn in H; [|contradiction].
      destruct (cell st r c') eqn:E'; cbn in H'; [|contradiction].
      destruct H as [->|[]]. destruct H' as [->|[]].
      destruct (inv_cell _ _ _ I _ _ _ E) as (f & Hf & _).
      destruct (inv_cell _ _ _ I _ _ _ E') as (f' & Hf' & _). rewrite Hf in Hf'. inversion Hf'. reflexivity.
  - intros r r' b _ _ H H'. unfold row_ids in *. apply in_flat_map in H, H'.
    destruct H as (c & _ & H). destruct H' as (c' & _ & H').
    destruct (cell st r c) eqn:E; cbn in H; [|contradiction].
    destruct (cell st r' c') eqn:E'; cbn in H'; [|contradiction].
    destruct H as [->|[]]. destruct H' as [->|[]].
    destruct (inv_cell _ _ _ I _ _ _ E) as (f & Hf & _).
    destruct (inv_cell _ _ _ I _ _ _ E') as (f' & Hf' & _). rewrite Hf in Hf'. inversion Hf'. reflexivity.
Qed.

Lemma keep_going_never : forall n, keep_going (-1) n = true.
Proof. intros. unfold keep_going. reflexivity. Qed.

(* read-only visitor *)
Lemma visit_cols_none : forall m k r st, (forall fd, del_pred m k fd = false) ->
  forall cs vis n,
  fold_left (mx_visit ROW COL m k (-1) r) cs (Ret (st, vis, n, false)) =
  Ret (st, rev (flat_map (fun c => olist (cell st r c)) cs) ++ vis,
       n + Z.of_nat (List.length (flat_map (fun c => olist (cell st r c)) cs)), false).
Proof.
  intros m k r st Hp. induction cs as [|c cs IH]; intros vis n.
  - cbn. f_equal. f_equal. f_equal. lia.
  - cbn [fold_left flat_map]. unfold mx_visit at 2. destruct (cell st r c) as [id|] eqn:E; cbn [olist app].
    + rewrite Hp. rewrite keep_going_never. cbn [negb]. rewrite IH. cbn [rev List.length].
      rewrite <- app_assoc. cbn [app]. f_equal. f_equal. f_equal. lia.
    + apply IH.
Qed.

Lemma visit_rows_none : forall m k st snap, (forall fd, del_pred m k fd = false) ->
  (forall r, zget snap r = None -> row_ids st r = []) ->
  forall rs vis n,
  exists n', fold_left (mx_visit_row ROW COL m k (-1) snap) rs (Ret (st, vis, n, false)) =
  Ret (st, rev (flat_map (row_ids st) rs) ++ vis, n', false).
Proof.
  intros m k st snap Hp Hsnap. induction rs as [|r rs IH]; intros vis n.
  - exists n. reflexivity.
  - cbn [fold_left flat_map]. unfold mx_visit_row at 2. destruct (zget snap r) eqn:E.
    + rewrite visit_cols_none by exact Hp. fold (row_ids st r).
      destruct (IH (rev (row_ids st r) ++ vis) (n + Z.of_nat (List.length (row_ids st r)))) as (n' & ->).
      exists n'. rewrite rev_app_distr, <- app_assoc. reflexivity.
    + rewrite (Hsnap r E). cbn [app]. apply IH.
Qed.

Lemma set_dc_roundtrip : forall st, m_dc st = false -> set_dc (set_dc st true) false = st.
Proof. intros [dc cs row col t f h] H. cbn in H. subst dc. reflexivity. Qed.

Lemma mx_iterate_none : forall st m k, inv st -> (forall fd, del_pred m k fd = false) ->
  mx_iterate ROW COL st m k (-1) = Ret (st, live_ids st).
Proof.
  intros st m k I Hp. unfold mx_iterate.
  destruct (visit_rows_none m k (set_dc st true) (m_table (set_dc st true)) Hp) with (rs := zseq 0 ROW) (vis := @nil Z) (n := 0)
    as (n' & E).
  { intros r H. unfold row_ids. assert (forall c, cell (set_dc st true) r c = None) as Hc.
    { intros c. unfold cell. rewrite H. reflexivity. }
    induction (zseq 0 COL) as [|c cs IH]; cbn; [reflexivity|]. rewrite Hc. exact IH. }
  rewrite E. rewrite set_dc_roundtrip by (apply (inv_dc _ _ _ I)).
  rewrite app_nil_r, rev_append_nil, rev_involutive. reflexivity.
Qed.

(* the shutdown pattern: every visited connection is removed.  Invariant of the
   traversal relative to the state st0 at its start: the cells below the cursor
   (qr, qc) have been emptied, everything else is untouched. *)
Definition iterJ (st0 st : matst) (qr qc : Z) : Prop :=
  m_dc st = true /\
  (forall x y, cell st x y = if pltb x y qr qc then None else cell st0 x y) /\
  (forall x, cnt st x = cnt st0 x - (if x <? qr then cnt st0 x else if x =? qr then Z.min qc (cnt st0 x) else 0)) /\
  (forall x, row_nil st x = true <-> cnt st x = 0) /\
  (forall fd, zget (m_f2g st) fd =
              match zget (m_f2g st0) fd with
              | Some g => if pltb (g_row g) (g_col g) qr qc then None else Some g
              | None => None end) /\
  m_heap st = m_heap st0 /\
  m_row st = (if pltb 0 0 qr qc then 0 else m_row st0) /\
  m_col st = (if pltb 0 0 qr qc then 0 else m_col st0).

Lemma cnt0_bounds : forall st0 x, inv st0 -> 0 <= cnt st0 x <= COL.
Proof.
  intros st0 x I. rewrite (inv_cnt _ _ _ I). pose proof (inv_next _ _ _ I). unfold cnt_at. dif; lia.
Qed.

(* a cell is live iff its column is below the row's count *)
Lemma live_iff_cnt : forall st0 x y, inv st0 -> 0 <= x -> 0 <= y < COL ->
  (cell st0 x y <> None <-> y < cnt st0 x).
Proof.
  intros st0 x y I Hx Hy. rewrite (inv_live _ _ _ I), (inv_cnt _ _ _ I).
  pose proof (inv_next _ _ _ I). unfold cnt_at, plt. dif; lia.
Qed.

Lemma f2g_in_range : forall st0 fd g, inv st0 -> zget (m_f2g st0) fd = Some g ->
  0 <= g_row g < ROW /\ 0 <= g_col g < COL /\ g_col g < cnt st0 (g_row g).
Proof.
  intros st0 fd g I H. destruct (inv_f2g _ _ _ I _ _ H) as (_ & id & Hc & _).
  pose proof (cell_some_live _ _ _ _ I Hc) as (A & B & C).
  pose proof (inv_next _ _ _ I). splits; try lia.
  - unfold plt in C. lia.
  - apply live_iff_cnt; auto. congruence.
Qed.

Lemma iterJ_init : forall st0, inv st0 -> iterJ st0 (set_dc st0 true) 0 0.
Proof.
  intros st0 I. unfold iterJ. splits; try reflexivity.
  - intros x y. autorewrite with mxv. destruct (pltb x y 0 0) eqn:E; [|reflexivity].
    apply cell_none_out; auto. unfold pltb in E. lia.
  - intros x. autorewrite with mxv. pose proof (cnt0_bounds st0 x I).
    pose proof (inv_cnt _ _ _ I x) as C. unfold cnt_at in C. dif; lia.
  - intros x. autorewrite with mxv. apply (inv_nil _ _ _ I).
  - intros fd. fields. destruct (zget (m_f2g st0) fd) as [g|] eqn:E; [|reflexivity].
    pose proof (f2g_in_range _ _ _ I E). replace (pltb (g_row g) (g_col g) 0 0) with false by (unfold pltb; lia).
    reflexivity.
Qed.

(* moving the cursor over cells that are empty in st0 *)
Lemma iterJ_shift : forall st0 st r c, inv st0 -> iterJ st0 st r c -> 0 <= r -> 0 <= c ->
  cnt st0 r <= c -> iterJ st0 st (r + 1) 0.
Proof.
  intros st0 st r c I (Jdc & Jcell & Jcnt & Jnil & Jf & Jh & Jrow & Jcol) Hr Hc Hle.
  pose proof (cnt0_bounds st0 r I) as Hb.
  unfold iterJ. splits; auto.
  - intros x y. rewrite Jcell.
    destruct (pltb x y r c) eqn:E1, (pltb x y (r + 1) 0) eqn:E2; try reflexivity; unfold pltb in *.
    + lia.
    + symmetry. destruct (cell st0 x y) eqn:E; [|reflexivity]. exfalso.
      pose proof (cell_some_live _ _ _ _ I E) as (A & B & _).
      assert (x = r) by lia. subst x.
      assert (y < cnt st0 r) by (apply live_iff_cnt; auto; congruence). lia.
  - intros x. rewrite Jcnt. pose proof (cnt0_bounds st0 x I). difs; lia.
  - intros fd. rewrite Jf. destruct (zget (m_f2g st0) fd) as [g|] eqn:E; [|reflexivity].
    pose proof (f2g_in_range _ _ _ I E) as (A & B & C).
    destruct (pltb (g_row g) (g_col g) r c) eqn:E1, (pltb (g_row g) (g_col g) (r + 1) 0) eqn:E2;
      try reflexivity; unfold pltb in *; [lia|].
    assert (g_row g = r) as Er by lia. rewrite Er in C. lia.
  - rewrite Jrow. pose proof (inv_cnt _ _ _ I r) as C. pose proof (inv_next _ _ _ I). unfold cnt_at in C.
    destruct (pltb 0 0 r c) eqn:E1, (pltb 0 0 (r + 1) 0) eqn:E2; try reflexivity; unfold pltb in *; try lia.
    dif_in C; lia.
  - rewrite Jcol. pose proof (inv_cnt _ _ _ I r) as C. pose proof (inv_next _ _ _ I). unfold cnt_at in C.
    destruct (pltb 0 0 r c) eqn:E1, (pltb 0 0 (r + 1) 0) eqn:E2; try reflexivity; unfold pltb in *; try lia.
    dif_in C; lia.
Qed.

Lemma pltb_self : forall r c, pltb r c r c = false.
Proof. intros. unfold pltb. lia. Qed.

Lemma visit_all_step : forall st0 st m k r c vis n,
  inv st0 -> (forall fd, del_pred m k fd = true) -> iterJ st0 st r c -> 0 <= r -> 0 <= c < COL ->
  exists st' n',
    mx_visit ROW COL m k (-1) r (Ret (st, vis, n, false)) c =
      Ret (st', olist (cell st0 r c) ++ vis, n', false) /\
    iterJ st0 st' r (c + 1).
Proof.
  intros st0 st m k r c vis n I Hp J Hr Hc.
  destruct J as (Jdc & Jcell & Jcnt & Jnil & Jf & Jh & Jrow & Jcol).
  pose proof (cnt0_bounds st0 r I) as Hb.
  unfold mx_visit. rewrite Jcell, pltb_self.
  destruct (cell st0 r c) as [id|] eqn:E.
  - (* a live connection: it is removed *)
    destruct (inv_cell _ _ _ I _ _ _ E) as (fd & Hh & Hg).
    assert (Hlive : c < cnt st0 r) by (apply live_iff_cnt; auto; congruence).
    rewrite Jh, Hh. cbn [c_fd]. rewrite Hp.
    unfold mx_del. rewrite Jh, Hh. cbn [c_gfd g_row g_col c_fd].
    set (st2 := inc_count (set_f2g st (zdel (m_f2g st) fd)) r (-1)).
    assert (Kr : cnt st r = cnt st0 r - c).
    { rewrite Jcnt, Z.eqb_refl. replace (r <? r) with false by lia. lia. }
    assert (K2 : forall x, cnt st2 x = if x =? r then cnt st r - 1 else cnt st x).
    { intros. subst st2. autorewrite with mxv. replace (cnt st r + -1) with (cnt st r - 1) by lia. reflexivity. }
    assert (Hnil : row_nil st r = false).
    { destruct (row_nil st r) eqn:N; [|reflexivity]. apply Jnil in N. lia. }
    assert (Hnext : forall s, m_row s = m_row st -> m_col s = m_col st ->
              let s' := if (r <? m_row s) || (c <? m_col s) then set_next s r c else s in
              m_row s' = (if pltb 0 0 r (c + 1) then 0 else m_row st0) /\
              m_col s' = (if pltb 0 0 r (c + 1) then 0 else m_col st0) /\
              (s' = s \/ s' = set_next s r c)).
    { intros s Hs1 Hs2. cbn zeta. rewrite Hs1, Hs2, Jrow, Jcol.
      pose proof (inv_live _ _ _ I r c) as Lv. rewrite E in Lv.
      assert (plt r c (m_row st0) (m_col st0)) as Hplt by (apply Lv; congruence).
      replace (pltb 0 0 r (c + 1)) with true by (unfold pltb; lia).
      destruct (pltb 0 0 r c) eqn:P; unfold pltb in P.
      - replace ((r <? 0) || (c <? 0)) with false by lia. rewrite Hs1, Hs2, Jrow, Jcol.
        replace (pltb 0 0 r c) with true by (unfold pltb; lia). auto.
      - assert (r = 0 /\ c = 0) as (-> & ->) by lia. unfold plt in Hplt.
        replace ((0 <? m_row st0) || (0 <? m_col st0)) with true by lia. cbn. auto. }
    unfold release_or_clear. rewrite K2, Z.eqb_refl.
    destruct (cnt st r - 1 =? 0) eqn:EA.
    + (* last connection of the row: the row slice is released *)
      cbn [obind]. set (st3 := release_row st2 r).
      destruct (Hnext st3) as (Nr & Nc & Nshape); [reflexivity..|].
      set (st4 := if (r <? m_row st3) || (c <? m_col st3) then set_next st3 r c else st3) in *.
      assert (Hdc4 : m_dc st4 = true) by (destruct Nshape as [->| ->]; exact Jdc).
      rewrite Hdc4. cbn [orb]. rewrite keep_going_never. cbn [negb olist app].
      eexists _, _. split; [reflexivity|].
      assert (V : cnt st4 = cnt st3 /\ cell st4 = cell st3 /\ row_nil st4 = row_nil st3 /\
                  m_f2g st4 = m_f2g st3 /\ m_heap st4 = m_heap st3)
        by (destruct Nshape as [->| ->]; repeat split).
      destruct V as (V1 & V2 & V3 & V4 & V5).
      unfold iterJ. rewrite V1, V2, V3, V4, V5. splits; auto.
      * intros x y. subst st3 st2. autorewrite with mxv. rewrite Jcell.
        destruct (Z.eqb_spec x r) as [->|N].
        -- destruct (pltb r y r (c + 1)) eqn:P; [reflexivity|].
           replace (pltb r y r c) with false by (unfold pltb in *; lia).
           symmetry. destruct (cell st0 r y) eqn:Ey; [|reflexivity]. exfalso.
           pose proof (cell_some_live _ _ _ _ I Ey) as (A & B & _).
           assert (y < cnt st0 r) by (apply live_iff_cnt; auto; congruence). unfold pltb in P. lia.
        -- replace (pltb x y r (c + 1)) with (pltb x y r c) by (unfold pltb; lia). reflexivity.
      * intros x. subst st3. autorewrite with mxv. rewrite K2. pose proof (cnt0_bounds st0 x I).
        destruct (Z.eqb_spec x r) as [->|N]; [rewrite Kr; dif; lia|]. rewrite Jcnt. dif; lia.
      * intros x. subst st3. autorewrite with mxv. rewrite K2.
        destruct (Z.eqb_spec x r) as [->|N]; [lia|]. subst st2. autorewrite with mxv. apply Jnil.
      * intros x. subst st3 st2. fields. rewrite zget_zdel, Jf.
        destruct (Z.eqb_spec x fd) as [->|N].
        -- rewrite Hg. cbn. replace (pltb r c r (c + 1)) with true by (unfold pltb; lia). reflexivity.
        -- destruct (zget (m_f2g st0) x) as [g|] eqn:Eg; [|reflexivity].
           destruct (pltb (g_row g) (g_col g) r c) eqn:P1, (pltb (g_row g) (g_col g) r (c + 1)) eqn:P2;
             try reflexivity; unfold pltb in *; [lia|].
           exfalso. destruct (inv_f2g _ _ _ I _ _ Eg) as (_ & id0 & Hc0 & Hh0).
           assert (g_row g = r /\ g_col g = c) as (E1 & E2) by lia. rewrite E1, E2, E in Hc0.
           inversion Hc0; subst id0. rewrite Hh in Hh0. inversion Hh0. congruence.
    + (* other connections remain in the row: the cell is cleared *)
      destruct (set_cell_ret st2 r c None) as (st3 & E3 & F3 & C3 & N3).
      { subst st2. autorewrite with mxv. exact Hnil. }
      rewrite E3. cbn [obind]. destruct F3 as (Fdc & Fcn & Frow & Fcol & Ff & Fh).
      destruct (Hnext st3) as (Nr & Nc & Nshape); [rewrite ?Frow, ?Fcol; reflexivity..|].
      set (st4 := if (r <? m_row st3) || (c <? m_col st3) then set_next st3 r c else st3) in *.
      assert (Hdc4 : m_dc st4 = true) by (destruct Nshape as [->| ->]; fields; rewrite Fdc; exact Jdc).
      rewrite Hdc4. cbn [orb]. rewrite keep_going_never. cbn [negb olist app].
      eexists _, _. split; [reflexivity|].
      assert (V : cnt st4 = cnt st3 /\ cell st4 = cell st3 /\ row_nil st4 = row_nil st3 /\
                  m_f2g st4 = m_f2g st3 /\ m_heap st4 = m_heap st3)
        by (destruct Nshape as [->| ->]; repeat split).
      destruct V as (V1 & V2 & V3 & V4 & V5).
      unfold iterJ. rewrite V1, V2, V3, V4, V5. splits; auto.
      * intros x y. rewrite C3. subst st2. autorewrite with mxv. rewrite Jcell.
        destruct ((x =? r) && (y =? c)) eqn:P.
        -- replace (pltb x y r (c + 1)) with true by (unfold pltb; lia). reflexivity.
        -- replace (pltb x y r (c + 1)) with (pltb x y r c) by (unfold pltb; lia). reflexivity.
      * intros x. unfold cnt at 1. rewrite Fcn. fold (cnt st2 x). rewrite K2. pose proof (cnt0_bounds st0 x I).
        destruct (Z.eqb_spec x r) as [->|N]; [rewrite Kr; dif; lia|]. rewrite Jcnt. dif; lia.
      * intros x. rewrite N3. unfold cnt at 1. rewrite Fcn. fold (cnt st2 x). rewrite K2.
        subst st2. autorewrite with mxv.
        destruct (Z.eqb_spec x r) as [->|N]; [rewrite Hnil; lia|]. apply Jnil.
      * intros x. rewrite Ff. subst st2. fields. rewrite zget_zdel, Jf.
        destruct (Z.eqb_spec x fd) as [->|N].
        -- rewrite Hg. cbn. replace (pltb r c r (c + 1)) with true by (unfold pltb; lia). reflexivity.
        -- destruct (zget (m_f2g st0) x) as [g|] eqn:Eg; [|reflexivity].
           destruct (pltb (g_row g) (g_col g) r c) eqn:P1, (pltb (g_row g) (g_col g) r (c + 1)) eqn:P2;
             try reflexivity; unfold pltb in *; [lia|].
           exfalso. destruct (inv_f2g _ _ _ I _ _ Eg) as (_ & id0 & Hc0 & Hh0).
           assert (g_row g = r /\ g_col g = c) as (E1 & E2) by lia. rewrite E1, E2, E in Hc0.
           inversion Hc0; subst id0. rewrite Hh in Hh0. inversion Hh0. congruence.
      * rewrite Fh. exact Jh.
  - (* an empty cell: nothing happens *)
    cbn [olist app]. exists st, n. split; [reflexivity|].
    assert (Hdead : cnt st0 r <= c).
    { destruct (Z_lt_le_dec c (cnt st0 r)) as [L|L]; [|exact L]. exfalso.
      apply (live_iff_cnt st0 r c I) in L; auto. }
    unfold iterJ. splits; auto.
    + intros x y. rewrite Jcell.
      destruct (pltb x y r c) eqn:P1, (pltb x y r (c + 1)) eqn:P2; try reflexivity; unfold pltb in *; [lia|].
      assert (x = r /\ y = c) as (-> & ->) by lia. exact E.
    + intros x. rewrite Jcnt. pose proof (cnt0_bounds st0 x I). difs; lia.
    + intros x. rewrite Jf. destruct (zget (m_f2g st0) x) as [g|] eqn:Eg; [|reflexivity].
      destruct (pltb (g_row g) (g_col g) r c) eqn:P1, (pltb (g_row g) (g_col g) r (c + 1)) eqn:P2;
        try reflexivity; unfold pltb in *; [lia|].
      exfalso. destruct (inv_f2g _ _ _ I _ _ Eg) as (_ & id0 & Hc0 & _).
      assert (g_row g = r /\ g_col g = c) as (E1 & E2) by lia. rewrite E1, E2, E in Hc0. discriminate.
    + rewrite Jrow. destruct (pltb 0 0 r c) eqn:P1, (pltb 0 0 r (c + 1)) eqn:P2; try reflexivity; unfold pltb in *; [lia|].
      assert (r = 0 /\ c = 0) as (-> & ->) by lia.
      pose proof (inv_cnt _ _ _ I 0) as C. pose proof (inv_next _ _ _ I). unfold cnt_at in C. dif_in C; lia.
    + rewrite Jcol. destruct (pltb 0 0 r c) eqn:P1, (pltb 0 0 r (c + 1)) eqn:P2; try reflexivity; unfold pltb in *; [lia|].
      assert (r = 0 /\ c = 0) as (-> & ->) by lia.
      pose proof (inv_cnt _ _ _ I 0) as C. pose proof (inv_next _ _ _ I). unfold cnt_at in C. dif_in C; lia.
Qed.

Lemma visit_all_cols : forall st0 m k r, inv st0 -> (forall fd, del_pred m k fd = true) -> 0 <= r ->
  forall (len : nat) c st vis n, iterJ st0 st r c -> 0 <= c -> c + Z.of_nat len <= COL ->
  exists st' n',
    fold_left (mx_visit ROW COL m k (-1) r) (zseq_aux len c) (Ret (st, vis, n, false)) =
      Ret (st', rev (flat_map (fun y => olist (cell st0 r y)) (zseq_aux len c)) ++ vis, n', false) /\
    iterJ st0 st' r (c + Z.of_nat len).
Proof.
  intros st0 m k r I Hp Hr. induction len as [|len IH]; intros c st vis n J Hc Hle.
  - exists st, n. split; [reflexivity|]. replace (c + Z.of_nat 0) with c by lia. exact J.
  - cbn [zseq_aux fold_left flat_map].
    destruct (visit_all_step st0 st m k r c vis n I Hp J Hr) as (st1 & n1 & E1 & J1); [lia|].
    rewrite E1. destruct (IH (c + 1) st1 (olist (cell st0 r c) ++ vis) n1 J1) as (st2 & n2 & E2 & J2); [lia..|].
    exists st2, n2. split.
    + rewrite E2. rewrite rev_app_distr, <- app_assoc. f_equal. f_equal.
      destruct (cell st0 r c); reflexivity.
    + replace (c + Z.of_nat (S len)) with (c + 1 + Z.of_nat len) by lia. exact J2.
Qed.

Lemma visit_all_rows : forall st0 m k, inv st0 -> (forall fd, del_pred m k fd = true) ->
  forall (len : nat) r st vis n, iterJ st0 st r 0 -> 0 <= r -> r + Z.of_nat len <= ROW ->
  exists st' n',
    fold_left (mx_visit_row ROW COL m k (-1) (m_table st0)) (zseq_aux len r) (Ret (st, vis, n, false)) =
      Ret (st', rev (flat_map (row_ids st0) (zseq_aux len r)) ++ vis, n', false) /\
    iterJ st0 st' (r + Z.of_nat len) 0.
Proof.
  intros st0 m k I Hp. induction len as [|len IH]; intros r st vis n J Hr Hle.
  - exists st, n. split; [reflexivity|]. replace (r + Z.of_nat 0) with r by lia. exact J.
  - cbn [zseq_aux fold_left flat_map]. unfold mx_visit_row at 2.
    pose proof (cnt0_bounds st0 r I) as Hb.
    destruct (zget (m_table st0) r) as [rowm|] eqn:Et.
    + destruct (visit_all_cols st0 m k r I Hp Hr (Z.to_nat COL) 0 st vis n J) as (st1 & n1 & E1 & J1); [lia..|].
      fold (zseq 0 COL) in E1. rewrite E1. fold (row_ids st0 r).
      assert (J1' : iterJ st0 st1 (r + 1) 0).
      { apply (iterJ_shift st0 st1 r (0 + Z.of_nat (Z.to_nat COL))); auto; lia. }
      destruct (IH (r + 1) st1 (rev (row_ids st0 r) ++ vis) n1 J1') as (st2 & n2 & E2 & J2); [lia..|].
      exists st2, n2. split.
      * rewrite E2. rewrite rev_app_distr, <- app_assoc. reflexivity.
      * replace (r + Z.of_nat (S len)) with (r + 1 + Z.of_nat len) by lia. exact J2.
    + assert (Hz : cnt st0 r = 0).
      { apply (inv_nil _ _ _ I). unfold row_nil. rewrite Et. reflexivity. }
      assert (Hrow : row_ids st0 r = []).
      { unfold row_ids. assert (forall c, cell st0 r c = None) as Hc by (intros; unfold cell; rewrite Et; reflexivity).
        induction (zseq 0 COL) as [|c cs IHc]; cbn; [reflexivity|]. rewrite Hc. exact IHc. }
      assert (J1' : iterJ st0 st (r + 1) 0) by (apply (iterJ_shift st0 st r 0); auto; lia).
      destruct (IH (r + 1) st vis n J1') as (st2 & n2 & E2 & J2); [lia..|].
      exists st2, n2. split.
      * rewrite E2, Hrow. reflexivity.
      * replace (r + Z.of_nat (S len)) with (r + 1 + Z.of_nat len) by lia. exact J2.
Qed.

(* iterate with a visitor that removes every visited connection *)
Lemma mx_iterate_all : forall st0 m k, inv st0 -> (forall fd, del_pred m k fd = true) ->
  exists st', mx_iterate ROW COL st0 m k (-1) = Ret (st', live_ids st0) /\
    inv st' /\ mat_equiv st' mx_init /\ (forall fd, mx_get st' fd = None) /\ population COL st' = 0.
Proof.
  intros st0 m k I Hp. unfold mx_iterate.
  destruct (visit_all_rows st0 m k I Hp (Z.to_nat ROW) 0 (set_dc st0 true) [] 0) as (st1 & n1 & E1 & J1);
    [apply iterJ_init; exact I|lia..|].
  fold (zseq 0 ROW) in E1. change (m_table (set_dc st0 true)) with (m_table st0). rewrite E1.
  fold (live_ids st0). rewrite app_nil_r, rev_append_nil, rev_involutive.
  eexists. split; [reflexivity|].
  replace (0 + Z.of_nat (Z.to_nat ROW)) with ROW in J1 by lia.
  destruct J1 as (Jdc & Jcell & Jcnt & Jnil & Jf & Jh & Jrow & Jcol).
  pose proof (inv_next _ _ _ I) as (Hrow & Hcol & Hfull).
  assert (Hcell : forall x y, cell (set_dc st1 false) x y = None).
  { intros. autorewrite with mxv. rewrite Jcell. destruct (pltb x y ROW 0) eqn:P; [reflexivity|].
    apply cell_none_out; auto. unfold pltb, plt in *. lia. }
  assert (Hcnt : forall x, cnt (set_dc st1 false) x = 0).
  { intros. autorewrite with mxv. rewrite Jcnt. pose proof (cnt0_bounds st0 x I).
    pose proof (inv_cnt _ _ _ I x) as C. unfold cnt_at in C. dif; dif_in C; lia. }
  assert (Hnil : forall x, row_nil (set_dc st1 false) x = true).
  { intros. autorewrite with mxv. apply Jnil. apply (Hcnt x). }
  assert (Hf : forall fd, zget (m_f2g (set_dc st1 false)) fd = None).
  { intros. fields. rewrite Jf. destruct (zget (m_f2g st0) fd) as [g|] eqn:Eg; [|reflexivity].
    pose proof (f2g_in_range _ _ _ I Eg). replace (pltb (g_row g) (g_col g) ROW 0) with true by (unfold pltb; lia).
    reflexivity. }
  assert (Hr : m_row (set_dc st1 false) = 0) by (fields; rewrite Jrow; replace (pltb 0 0 ROW 0) with true by (unfold pltb; lia); reflexivity).
  assert (Hc : m_col (set_dc st1 false) = 0) by (fields; rewrite Jcol; replace (pltb 0 0 ROW 0) with true by (unfold pltb; lia); reflexivity).
  splits.
  - constructor.
    + reflexivity.
    + rewrite Hr, Hc. lia.
    + intros x y. rewrite Hcell, Hr, Hc. unfold plt. split; [congruence|lia].
    + intros x. rewrite Hcnt, Hr, Hc. unfold cnt_at. dif; lia.
    + intros x. rewrite Hnil, Hcnt. tauto.
    + intros x y i. rewrite Hcell. discriminate.
    + intros fd g. rewrite Hf. discriminate.
  - unfold mat_equiv. rewrite Hr, Hc. splits; try reflexivity.
    + intros x. rewrite Hcnt, cnt_init. reflexivity.
    + intros x. rewrite Hnil, nil_init. reflexivity.
    + intros x y. rewrite Hcell, cell_init. reflexivity.
    + intros fd. rewrite Hf. cbn. rewrite zget_zempty. reflexivity.
  - intros fd. unfold mx_get. rewrite Hf. reflexivity.
  - unfold population. rewrite Hr, Hc. lia.
Qed.

(* beyond capacity addConn drops the connection silently: nothing but the
   connection object itself (which keeps a zero GFD) changes *)
Lemma mx_add_full : forall st id fd, m_row st = ROW ->
  mat_equiv (mx_add ROW COL st id fd) st /\
  (forall fd', mx_get (mx_add ROW COL st id fd) fd' = mx_get st fd') /\
  mx_load ROW (mx_add ROW COL st id fd) = mx_load ROW st.
Proof.
  intros st id fd H. unfold mx_add. replace (ROW <=? m_row st) with true by lia.
  splits; try reflexivity. unfold mat_equiv. splits; reflexivity.
Qed.

Lemma population_full : forall st, inv st -> (m_row st < ROW <-> population COL st < ROW * COL).
Proof.
  intros st I. pose proof (inv_next _ _ _ I) as (A & B & C). unfold population. nia.
Qed.

End Inv.
