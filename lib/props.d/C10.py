PROP = dict(
    drivers=[dict(cmd="drv-elastic", family="elastic")],
    rule="a case is one operation sequence (1..50 ops; fewer for the 64 KiB limit) on an elastic.RingBuffer (Write/"
         "WriteString/WriteByte/Read/ReadByte/Peek/Discard/Bytes/ReadFrom/WriteTo/Reset/Done) or on an elastic.Buffer "
         "(Write/Writev/Read/Peek/Discard/ReadFrom/WriteTo/Reset(max)/Release) with max_static in {1,4,64,1024,4096,65536} "
         "(plus 0/-1 = zero value, and a few odd values); the capacity of the ring the pool hands back at a lazy "
         "acquisition is chosen by the driver in `seed` cases (0, 2, small, 1024, 4096, max/2, max, 2*max, non-powers of "
         "two) and left to the stock pool in `real` cases (recorded by pointer); payload sizes from {0,1,avail-1,avail,"
         "avail+1,limit-1,limit,limit+1,cap+-1,max+-1,511..513,random}; read/peek/discard amounts from {0,1,ring-1,ring,"
         "ring+1,buffered-1,buffered,buffered+1,inside ring,inside list,negative,MaxInt32}; Writev with 0..1500 segments "
         "incl. empty ones and 1023..1025; scripted readers/writers with short transfers, data+EOF, error after partial "
         "transfer and (0,nil); observables after every op: return values, Buffered/IsEmpty/limit, ring nil?/Buffered/"
         "Cap, list Buffered/Len, Peek(-1) joined; non-trivial when it acquires lazily, returns the ring to the pool, "
         "grows, holds bytes in both parts, peeks/discards/flushes across the switch-over, or sees a short/failing "
         "reader or writer; distinct by hash of its op lines",
    trusted=["scripted io.Reader/io.Writer semantics implemented twice (Go driver, Model/Ring.v + Model/LList.v scripts)",
             "harness/export/ringbuffer_elastic_export.go (VerifSeed: a fresh builtin pool whose next Get returns the "
             "driver's ring) and harness/export/elastic_export.go (read-only accessors), overlaid at build time",
             "the number of Write calls ring.Buffer.WriteTo makes on the writer (Model/Elastic.v ring_wt_calls) is "
             "validated by the differential runs only; the theorems hold for any value of it"],
    assumptions=["rbPool.Get returns an empty (Reset) ring.Buffer of some capacity >= 0 referenced by nobody else "
                 "(exclusive ownership is C12); its capacity is an input of the model, stale bytes are never observed",
                 "the inner buffers are the models of C09 and C11 (their assumptions apply); io.Reader / io.Writer "
                 "return 0 <= n <= len(p)",
                 "Peek(n <= 0) returns at most math.MaxInt32 bytes (the package's documented convention): 'everything' "
                 "is proved for Buffered() <= MaxInt32, a prefix of MaxInt32 bytes otherwise"],
)
