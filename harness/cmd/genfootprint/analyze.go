package main

// Per-function analysis: one forward pass over the body in source order that
// records field accesses (with ownership and guards), call edges, spawn
// boundaries and user-callback sites.

import (
	"go/ast"
	"go/token"
	"go/types"
)

const (
	mRead = iota
	mWrite
	mAddr
)

const never = token.Pos(1 << 40)

type az struct {
	w       *world
	fn      *fnode
	p       *pkgInfo
	mask    uint64
	sum     *summary
	fresh   map[*types.Var]bool      // fresh locals and owned parameters
	esc     map[*types.Var]bool      // already escaped
	decl    map[*types.Var]token.Pos // declaration position of fresh vars
	guards  []guard
	loops   []ast.Node
	defers  []*ast.CallExpr
	indefer bool
}

func (w *world) summarize(fn *fnode, mask uint64) *summary {
	k := skey{fn, mask}
	if s, ok := w.sums[k]; ok {
		return s
	}
	if w.busy[k] {
		return nil // recursion: caller must be conservative
	}
	w.busy[k] = true
	a := &az{w: w, fn: fn, p: fn.pkg, mask: mask, sum: &summary{escaped: map[int]bool{}, callsParam: map[int]bool{}},
		fresh: map[*types.Var]bool{}, esc: map[*types.Var]bool{}, decl: map[*types.Var]token.Pos{}}
	for v := range w.freshLocals(fn) {
		a.fresh[v] = true
		a.decl[v] = v.Pos()
	}
	for i, pv := range fn.params {
		if mask&(1<<uint(i)) != 0 {
			a.fresh[pv] = true
			a.decl[pv] = fn.body.Pos()
		}
	}
	a.block(fn.body.List)
	a.indefer = true
	for i := len(a.defers) - 1; i >= 0; i-- {
		a.call(a.defers[i], false)
	}
	for i, pv := range fn.params {
		if mask&(1<<uint(i)) != 0 && a.esc[pv] {
			a.sum.escaped[i] = true
		}
	}
	delete(w.busy, k)
	w.sums[k] = a.sum
	return a.sum
}

// ---------------------------------------------------------------- freshness

func unparen(e ast.Expr) ast.Expr {
	for {
		if p, ok := e.(*ast.ParenExpr); ok {
			e = p.X
		} else {
			return e
		}
	}
}

func (w *world) staticCallee(p *pkgInfo, c *ast.CallExpr) *types.Func {
	switch f := unparen(c.Fun).(type) {
	case *ast.Ident:
		if o, ok := p.info.Uses[f].(*types.Func); ok {
			return o
		}
	case *ast.SelectorExpr:
		if sel := p.info.Selections[f]; sel != nil {
			if o, ok := sel.Obj().(*types.Func); ok && sel.Kind() == types.MethodVal {
				return o
			}
			return nil
		}
		if o, ok := p.info.Uses[f.Sel].(*types.Func); ok {
			return o
		}
	case *ast.IndexExpr: // generic instantiation
		if id, ok := f.X.(*ast.Ident); ok {
			if o, ok := p.info.Uses[id].(*types.Func); ok {
				return o
			}
		}
	}
	return nil
}

func funcFull(o *types.Func) string {
	if o.Pkg() == nil {
		return o.Name()
	}
	sig := o.Type().(*types.Signature)
	if r := sig.Recv(); r != nil {
		return o.Pkg().Path() + "." + recvTypeName(r.Type()) + "." + o.Name()
	}
	return o.Pkg().Path() + "." + o.Name()
}

// functions outside the analysed packages known to return an exclusively owned object
var freshExternals = map[string]bool{
	modPath + "/pkg/queue.GetTask": true,
}

func (w *world) freshExpr(p *pkgInfo, e ast.Expr, cand map[*types.Var]bool) bool {
	switch v := unparen(e).(type) {
	case *ast.CompositeLit:
		return true
	case *ast.UnaryExpr:
		if v.Op == token.AND {
			_, ok := unparen(v.X).(*ast.CompositeLit)
			return ok
		}
	case *ast.Ident:
		if v.Name == "nil" {
			return true
		}
		if o, ok := p.info.Uses[v].(*types.Var); ok && cand != nil && cand[o] {
			return true
		}
	case *ast.CallExpr:
		if id, ok := unparen(v.Fun).(*ast.Ident); ok {
			if b, ok := p.info.Uses[id].(*types.Builtin); ok && (b.Name() == "new" || b.Name() == "make") {
				return true
			}
		}
		if o := w.staticCallee(p, v); o != nil {
			if freshExternals[funcFull(o)] {
				return true
			}
			if fn := w.funcs[o.Origin()]; fn != nil {
				return w.returnsFresh(fn)
			}
		}
	}
	return false
}

func interesting(t types.Type) bool {
	switch u := t.Underlying().(type) {
	case *types.Pointer:
		_, ok := u.Elem().Underlying().(*types.Struct)
		return ok
	case *types.Struct:
		return true
	}
	return false
}

// freshLocals: local variables (and named results) all of whose assignments
// have an allocation on the right-hand side.
func (w *world) freshLocals(fn *fnode) map[*types.Var]bool {
	p := fn.pkg
	assigns := map[*types.Var][]ast.Expr{}
	bad := map[*types.Var]bool{}
	params := map[*types.Var]bool{}
	for _, pv := range fn.params {
		params[pv] = true
	}
	note := func(id *ast.Ident, rhs ast.Expr, multi bool) {
		var v *types.Var
		if o, ok := p.info.Defs[id].(*types.Var); ok && o != nil {
			v = o
		} else if o, ok := p.info.Uses[id].(*types.Var); ok {
			v = o
		}
		if v == nil || v.IsField() || v.Parent() == nil || v.Parent() == p.pkg.Scope() || params[v] || !interesting(v.Type()) {
			return
		}
		if rhs == nil && !multi {
			if _, ok := v.Type().Underlying().(*types.Struct); ok {
				assigns[v] = append(assigns[v], &ast.CompositeLit{})
			} else {
				assigns[v] = append(assigns[v], ast.NewIdent("nil"))
			}
			return
		}
		if rhs == nil {
			bad[v] = true
			return
		}
		assigns[v] = append(assigns[v], rhs)
	}
	ast.Inspect(fn.body, func(n ast.Node) bool {
		switch s := n.(type) {
		case *ast.AssignStmt:
			if len(s.Lhs) == len(s.Rhs) {
				for i, l := range s.Lhs {
					if id, ok := l.(*ast.Ident); ok {
						note(id, s.Rhs[i], false)
					}
				}
			} else if len(s.Rhs) == 1 {
				for i, l := range s.Lhs {
					if id, ok := l.(*ast.Ident); ok {
						if i == 0 {
							note(id, s.Rhs[0], false)
						} else {
							note(id, nil, true)
						}
					}
				}
			}
		case *ast.ValueSpec:
			for i, id := range s.Names {
				if len(s.Values) == len(s.Names) {
					note(id, s.Values[i], false)
				} else if len(s.Values) == 0 {
					note(id, nil, false)
				} else if i == 0 {
					note(id, s.Values[0], false)
				} else {
					note(id, nil, true)
				}
			}
		case *ast.RangeStmt:
			for _, e := range []ast.Expr{s.Key, s.Value} {
				if id, ok := e.(*ast.Ident); ok && id != nil {
					note(id, nil, true)
				}
			}
		case *ast.TypeSwitchStmt:
			if as, ok := s.Assign.(*ast.AssignStmt); ok {
				for _, l := range as.Lhs {
					if id, ok := l.(*ast.Ident); ok {
						note(id, nil, true)
					}
				}
			}
		}
		return true
	})
	cand := map[*types.Var]bool{}
	for v := range assigns {
		if !bad[v] {
			cand[v] = true
		}
	}
	// named results that are never assigned start as nil/zero: they are candidates too
	for changed := true; changed; {
		changed = false
		for v := range cand {
			for _, r := range assigns[v] {
				if !w.freshExpr(p, r, cand) {
					delete(cand, v)
					changed = true
					break
				}
			}
		}
	}
	return cand
}

func (w *world) returnsFresh(fn *fnode) bool {
	switch w.retFresh[fn] {
	case 1:
		return true
	case 2, 3:
		return false
	}
	w.retFresh[fn] = 3
	ok := false
	defer func() {
		if ok {
			w.retFresh[fn] = 1
		} else {
			w.retFresh[fn] = 2
		}
	}()
	if fn.obj == nil {
		return false
	}
	sig := fn.obj.Type().(*types.Signature)
	if sig.Results().Len() == 0 || !interesting(sig.Results().At(0).Type()) {
		return false
	}
	cand := w.freshLocals(fn)
	res0 := sig.Results().At(0)
	good, any := true, false
	var visit func(n ast.Node) bool
	visit = func(n ast.Node) bool {
		switch s := n.(type) {
		case *ast.FuncLit:
			return false
		case *ast.ReturnStmt:
			any = true
			if len(s.Results) == 0 {
				if res0.Name() == "" || !cand[res0] {
					good = false
				}
			} else if len(s.Results) == sig.Results().Len() {
				if !w.freshExpr(fn.pkg, s.Results[0], cand) {
					good = false
				}
			} else {
				good = false
			}
		}
		return true
	}
	ast.Inspect(fn.body, visit)
	if !any && (res0.Name() == "" || !cand[res0]) {
		good = false
	}
	ok = good
	return ok
}

// ---------------------------------------------------------------- paths

// pathRoot strips selectors / indexes / parens / derefs down to the root
// identifier.  inObject reports whether the addressed memory lies inside the
// object the root designates (root pointer dereferenced at most at the first hop).
func (a *az) pathRoot(e ast.Expr) (root *types.Var, inObject bool) {
	inObject = true
	hops := 0
	for {
		switch v := unparen(e).(type) {
		case *ast.Ident:
			o, _ := a.p.info.Uses[v].(*types.Var)
			if o == nil {
				o, _ = a.p.info.Defs[v].(*types.Var)
			}
			return o, inObject
		case *ast.SelectorExpr:
			sel := a.p.info.Selections[v]
			if sel == nil {
				return nil, false
			}
			// the base of this hop: if it is a pointer and not the root itself, we leave the object
			bt := a.p.info.Types[v.X].Type
			if bt != nil {
				if _, isPtr := bt.Underlying().(*types.Pointer); isPtr {
					if _, isId := unparen(v.X).(*ast.Ident); !isId {
						inObject = false
					}
				}
			}
			if sel.Indirect() && len(sel.Index()) > 1 {
				inObject = false // through an embedded pointer
			}
			e = v.X
			hops++
		case *ast.IndexExpr:
			bt := a.p.info.Types[v.X].Type
			if bt != nil {
				if _, isArr := bt.Underlying().(*types.Array); !isArr {
					inObject = false // slice / map element: separate memory
				}
			}
			e = v.X
		case *ast.StarExpr:
			if _, isId := unparen(v.X).(*ast.Ident); !isId {
				inObject = false
			}
			e = v.X
		case *ast.UnaryExpr:
			if v.Op == token.AND {
				e = v.X
				continue
			}
			return nil, false
		default:
			return nil, false
		}
	}
}

func (a *az) ownedRoot(root *types.Var, inObject bool) bool {
	// (deferred code is analysed last, when esc is final: owned only if it never escaped)
	return root != nil && inObject && a.fresh[root] && !a.esc[root]
}

func (a *az) isLocalCopy(root *types.Var, inObject bool) bool {
	if root == nil || !inObject || a.fresh[root] {
		return false
	}
	if root.Parent() == nil || root.Parent() == a.p.pkg.Scope() {
		return false
	}
	switch root.Type().Underlying().(type) {
	case *types.Struct, *types.Array:
		return true
	}
	return false
}

func (a *az) record(loc, kind string, pathExpr ast.Expr, pos token.Pos) {
	root, in := a.pathRoot(pathExpr)
	if a.isLocalCopy(root, in) {
		return
	}
	a.sum.acc = append(a.sum.acc, access{loc: loc, kind: kind, owned: a.ownedRoot(root, in),
		guards: append([]guard(nil), a.guards...), via: a.fn.name, pos: pos, root: root})
}

func kindOf(mode int) string {
	if mode == mWrite {
		return "W"
	}
	return "R"
}

// escape marks a fresh variable as published from position pos on.
func (a *az) escape(v *types.Var, pos token.Pos) {
	if v == nil || !a.fresh[v] || a.esc[v] {
		return
	}
	a.esc[v] = true
	// inside a loop that does not contain the declaration: earlier accesses of the
	// same loop body may run after this point in a previous iteration
	from := pos
	for _, lp := range a.loops {
		if !(lp.Pos() <= a.decl[v] && a.decl[v] < lp.End()) {
			if lp.Pos() < from {
				from = lp.Pos()
			}
			break
		}
	}
	for i := range a.sum.acc {
		if a.sum.acc[i].root == v && a.sum.acc[i].pos >= from {
			a.sum.acc[i].owned = false
		}
	}
}

// carriers: the fresh variables whose object becomes reachable through the value of e
func (a *az) carriers(e ast.Expr) []*types.Var {
	var out []*types.Var
	switch v := unparen(e).(type) {
	case *ast.Ident:
		if o, ok := a.p.info.Uses[v].(*types.Var); ok && a.fresh[o] {
			out = append(out, o)
		}
	case *ast.UnaryExpr:
		if v.Op == token.AND {
			// a pointer to an element of a slice/map held by the object is not a pointer into the object
			if r, in := a.pathRoot(v.X); r != nil && in && a.fresh[r] {
				out = append(out, r)
			}
			if cl, ok := unparen(v.X).(*ast.CompositeLit); ok {
				out = append(out, a.carriers(cl)...)
			}
		}
	case *ast.CompositeLit:
		for _, el := range v.Elts {
			if kv, ok := el.(*ast.KeyValueExpr); ok {
				out = append(out, a.carriers(kv.Value)...)
			} else {
				out = append(out, a.carriers(el)...)
			}
		}
	case *ast.FuncLit:
		ast.Inspect(v.Body, func(n ast.Node) bool {
			if id, ok := n.(*ast.Ident); ok {
				if o, ok := a.p.info.Uses[id].(*types.Var); ok && a.fresh[o] {
					out = append(out, o)
				}
			}
			return true
		})
	case *ast.SelectorExpr:
		if sel := a.p.info.Selections[v]; sel != nil && sel.Kind() == types.MethodVal {
			if r, _ := a.pathRoot(v.X); r != nil && a.fresh[r] {
				out = append(out, r)
			}
		}
	case *ast.TypeAssertExpr:
		return a.carriers(v.X)
	case *ast.CallExpr:
		if id, ok := unparen(v.Fun).(*ast.Ident); ok {
			if b, ok := a.p.info.Uses[id].(*types.Builtin); ok && b.Name() == "append" {
				for _, arg := range v.Args {
					out = append(out, a.carriers(arg)...)
				}
			}
		}
		if tv, ok := a.p.info.Types[v.Fun]; ok && tv.IsType() && len(v.Args) == 1 {
			return a.carriers(v.Args[0]) // conversion
		}
	case *ast.SliceExpr:
		if r, in := a.pathRoot(v.X); r != nil && in && a.fresh[r] {
			out = append(out, r)
		}
	}
	return out
}

func (a *az) escapeAll(e ast.Expr, pos token.Pos) {
	for _, v := range a.carriers(e) {
		a.escape(v, pos)
	}
}

// ---------------------------------------------------------------- expressions

func (a *az) expr(e ast.Expr, mode int) {
	switch v := e.(type) {
	case nil:
	case *ast.ParenExpr:
		a.expr(v.X, mode)
	case *ast.Ident:
		if o, ok := a.p.info.Uses[v].(*types.Var); ok {
			if n, ok := a.w.varName[o]; ok && mode != mAddr {
				a.sum.acc = append(a.sum.acc, access{loc: n, kind: kindOf(mode), guards: append([]guard(nil), a.guards...), via: a.fn.name, pos: v.Pos()})
			}
		}
	case *ast.SelectorExpr:
		sel := a.p.info.Selections[v]
		if sel == nil { // qualified identifier
			if o, ok := a.p.info.Uses[v.Sel].(*types.Var); ok {
				if n, ok := a.w.varName[o]; ok && mode != mAddr {
					a.sum.acc = append(a.sum.acc, access{loc: n, kind: kindOf(mode), guards: append([]guard(nil), a.guards...), via: a.fn.name, pos: v.Pos()})
				}
			}
			return
		}
		a.base(v.X)
		if sel.Kind() != types.FieldVal {
			return // method value: the receiver has been evaluated
		}
		a.implicitHops(v, sel)
		if mode == mAddr {
			return
		}
		if f, ok := sel.Obj().(*types.Var); ok {
			if loc, ok := a.w.fieldLoc(f); ok {
				a.record(loc, kindOf(mode), v, v.Pos())
			}
		}
	case *ast.IndexExpr:
		if tv, ok := a.p.info.Types[v.X]; ok && !tv.IsValue() {
			return // generic instantiation
		}
		a.expr(v.Index, mRead)
		a.indexBase(v.X, mode, v)
	case *ast.IndexListExpr:
	case *ast.SliceExpr:
		a.expr(v.Low, mRead)
		a.expr(v.High, mRead)
		a.expr(v.Max, mRead)
		a.expr(v.X, mRead)
	case *ast.StarExpr:
		a.expr(v.X, mRead)
	case *ast.UnaryExpr:
		if v.Op == token.AND {
			a.expr(v.X, mAddr)
			return
		}
		a.expr(v.X, mRead)
	case *ast.BinaryExpr:
		a.expr(v.X, mRead)
		a.expr(v.Y, mRead)
	case *ast.KeyValueExpr:
		a.expr(v.Value, mRead)
	case *ast.TypeAssertExpr:
		a.expr(v.X, mRead)
	case *ast.CallExpr:
		a.call(v, false)
	case *ast.FuncLit:
		a.inlineLit(v)
	case *ast.CompositeLit:
		a.complit(v)
	case *ast.BasicLit, *ast.ArrayType, *ast.MapType, *ast.ChanType, *ast.FuncType, *ast.StructType, *ast.InterfaceType, *ast.Ellipsis:
	default:
		a.sum.untrans = append(a.sum.untrans, a.w.l.relPos(e.Pos()))
	}
}

// base evaluates the base of a selector: loading a pointer is a read, naming an
// addressable struct value is only an address computation.
func (a *az) base(x ast.Expr) {
	t := a.p.info.Types[x].Type
	if t != nil {
		if _, isPtr := t.Underlying().(*types.Pointer); isPtr {
			a.expr(x, mRead)
			return
		}
		if _, isIface := t.Underlying().(*types.Interface); isIface {
			a.expr(x, mRead)
			return
		}
	}
	switch unparen(x).(type) {
	case *ast.CallExpr, *ast.TypeAssertExpr, *ast.CompositeLit:
		a.expr(x, mRead)
	default:
		a.expr(x, mAddr)
	}
}

// implicitHops records reads of embedded pointer fields traversed implicitly.
func (a *az) implicitHops(v *ast.SelectorExpr, sel *types.Selection) {
	idx := sel.Index()
	if len(idx) <= 1 {
		return
	}
	t := sel.Recv()
	for _, i := range idx[:len(idx)-1] {
		if p, ok := t.Underlying().(*types.Pointer); ok {
			t = p.Elem()
		}
		st, ok := t.Underlying().(*types.Struct)
		if !ok {
			return
		}
		f := st.Field(i)
		if _, isPtr := f.Type().Underlying().(*types.Pointer); isPtr {
			if loc, ok := a.w.fieldLoc(f); ok {
				a.record(loc, "R", v.X, v.Pos())
			}
		}
		t = f.Type()
	}
}

// indexBase handles X in X[i]: contents access on a tracked field, header read for slices/maps.
func (a *az) indexBase(x ast.Expr, mode int, whole ast.Expr) {
	t := a.p.info.Types[x].Type
	isArr := false
	if t != nil {
		switch u := t.Underlying().(type) {
		case *types.Array:
			isArr = true
		case *types.Pointer:
			_, isArr = u.Elem().Underlying().(*types.Array)
		}
	}
	if loc, ok := a.fieldOf(x); ok && mode != mAddr {
		a.record(loc+"[]", kindOf(mode), whole, x.Pos())
	} else if ix, ok := unparen(x).(*ast.IndexExpr); ok && mode != mAddr {
		// nested index: contents of contents, attribute to the innermost tracked field
		if loc, ok := a.innerField(ix); ok {
			a.record(loc+"[]", kindOf(mode), whole, x.Pos())
		}
	}
	if isArr {
		a.expr(x, mAddr)
	} else {
		a.expr(x, mRead)
	}
}

func (a *az) innerField(ix *ast.IndexExpr) (string, bool) {
	for {
		if loc, ok := a.fieldOf(ix.X); ok {
			return loc, true
		}
		nx, ok := unparen(ix.X).(*ast.IndexExpr)
		if !ok {
			return "", false
		}
		ix = nx
	}
}

// fieldOf: is x (syntactically) a tracked field or package variable?
func (a *az) fieldOf(x ast.Expr) (string, bool) {
	switch v := unparen(x).(type) {
	case *ast.SelectorExpr:
		if sel := a.p.info.Selections[v]; sel != nil {
			if sel.Kind() == types.FieldVal {
				if f, ok := sel.Obj().(*types.Var); ok {
					return a.w.fieldLoc(f)
				}
			}
			return "", false
		}
		if o, ok := a.p.info.Uses[v.Sel].(*types.Var); ok {
			n, ok := a.w.varName[o]
			return n, ok
		}
	case *ast.Ident:
		if o, ok := a.p.info.Uses[v].(*types.Var); ok {
			n, ok := a.w.varName[o]
			return n, ok
		}
	}
	return "", false
}

func (a *az) complit(cl *ast.CompositeLit) {
	t := a.p.info.Types[cl].Type
	var st *types.Struct
	if t != nil {
		st, _ = t.Underlying().(*types.Struct)
	}
	for i, el := range cl.Elts {
		val := el
		var fld *types.Var
		if kv, ok := el.(*ast.KeyValueExpr); ok {
			val = kv.Value
			if st != nil {
				if id, ok := kv.Key.(*ast.Ident); ok {
					fld, _ = a.p.info.Uses[id].(*types.Var)
				}
			}
		} else if st != nil && i < st.NumFields() {
			fld = st.Field(i)
		}
		if fld != nil {
			if loc, ok := a.w.fieldLoc(fld); ok {
				a.sum.acc = append(a.sum.acc, access{loc: loc, kind: "W", owned: true,
					guards: append([]guard(nil), a.guards...), via: a.fn.name, pos: el.Pos()})
			}
		}
		a.expr(val, mRead)
	}
}

// inlineLit analyses a function literal as part of the enclosing function
// (it runs on the same goroutine: called directly, deferred, or passed to a
// synchronous callee).
func (a *az) inlineLit(fl *ast.FuncLit) {
	saved := a.guards
	a.block(fl.Body.List)
	a.guards = saved
}
