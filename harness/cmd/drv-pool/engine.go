package main

import (
	"bytes"
	"context"
	"encoding/binary"
	"fmt"
	"io"
	"net"
	"os"
	"runtime"
	"runtime/debug"
	"sort"
	"sync"
	"sync/atomic"
	"time"

	gnet "github.com/panjf2000/gnet/v2"
	"github.com/panjf2000/gnet/v2/pkg/buffer/elastic"
	"github.com/panjf2000/gnet/v2/pkg/buffer/linkedlist"
	"github.com/panjf2000/gnet/v2/pkg/buffer/ring"
	"github.com/panjf2000/gnet/v2/pkg/logging"
	"github.com/panjf2000/gnet/v2/pkg/pool/byteslice"
	"github.com/panjf2000/gnet/v2/pkg/pool/ringbuffer"

	"verifharness/tr"
)

// ---------------------------------------------------------------- probing

// a live structure whose content must survive whatever the pools hand out
type live struct {
	kind  string
	snap  func() []byte   // current content
	spans func() [][]byte // memory it occupies (as far as the API shows it)
}

// probe drains the built-in pools after a phase that used them through the real
// call sites: everything obtained must be pairwise disjoint, disjoint from the
// memory of the live structures, and scribbling over it must not change their
// content.  Runs with one P and the GC off so that sync.Pool keeps (and the
// prober can reach) every pointer that was Put.
func probe(phase string, lives []live) {
	before := make([][]byte, len(lives))
	for i, l := range lives {
		before[i] = l.snap()
	}
	type got struct {
		b   []byte
		cls int
	}
	var all []got
	for cls := 0; cls <= 22; cls++ {
		k := 512
		if cls > 12 {
			k = 512 >> uint(cls-12)
			if k < 8 {
				k = 8
			}
		}
		for i := 0; i < k; i++ {
			b := byteslice.Get(1 << uint(cls))
			all = append(all, got{b[:cap(b)], cls})
		}
	}
	sort.Slice(all, func(i, j int) bool { return addr(all[i].b) < addr(all[j].b) })
	failed := map[string]bool{}
	fail := func(site, sig, detail string) {
		if !failed[site+sig] {
			failed[site+sig] = true
			w.Fail(site, sig, detail)
		}
	}
	for i := 1; i < len(all); i++ {
		a, b := all[i-1], all[i]
		if addr(b.b) < addr(a.b)+uintptr(len(a.b)) {
			fail("engine-probe", fmt.Sprintf("alias phase=%s class=%d", phase, a.cls),
				fmt.Sprintf("two Gets after phase %s share memory: %#x+%d (class %d) and %#x+%d (class %d): the same memory was donated twice or beyond its capacity",
					phase, addr(a.b), len(a.b), a.cls, addr(b.b), len(b.b), b.cls))
		}
	}
	for _, l := range lives {
		for _, sp := range l.spans() {
			lo, hi := addr(sp), addr(sp)+uintptr(len(sp))
			j := sort.Search(len(all), func(j int) bool { return addr(all[j].b)+uintptr(len(all[j].b)) > lo })
			if j < len(all) && overlap(addr(all[j].b), addr(all[j].b)+uintptr(len(all[j].b)), lo, hi) {
				fail("engine-probe", fmt.Sprintf("live-alias phase=%s kind=%s class=%d", phase, l.kind, all[j].cls),
					"a Get after the phase returned memory that a live "+l.kind+" still uses")
			}
		}
	}
	// ring-buffer pool
	var rbsGot []*ring.Buffer
	seen := map[*ring.Buffer]bool{}
	for i := 0; i < 64; i++ {
		r := ringbuffer.Get()
		if !r.IsEmpty() || r.Buffered() != 0 {
			fail("engine-probe", fmt.Sprintf("ring-nonempty phase=%s", phase), "a pooled ring buffer is not empty")
		}
		if seen[r] {
			fail("engine-probe", fmt.Sprintf("ring-alias phase=%s", phase), "the same ring buffer was handed out twice")
		}
		seen[r] = true
		rbsGot = append(rbsGot, r)
	}
	// scribble over everything obtained (saving and restoring the bytes), then
	// look at the live structures again
	saved := make([][]byte, len(all))
	for i, g := range all {
		saved[i] = append([]byte(nil), g.b...)
		for j := range g.b {
			g.b[j] = 0xEE
		}
	}
	for _, r := range rbsGot {
		_, _ = r.Write(bytes.Repeat([]byte{0xEE}, 100))
	}
	for i, l := range lives {
		if os.Getenv("DRV_POOL_DEBUG") != "" {
			fmt.Fprintf(os.Stderr, "live %s before=%q after=%q\n", l.kind, before[i], l.snap())
		}
		if !bytes.Equal(before[i], l.snap()) {
			fail("engine-live", fmt.Sprintf("corrupt phase=%s kind=%s", phase, l.kind),
				"content of a live "+l.kind+" changed when memory obtained from the pool was written")
		}
	}
	for i := len(all) - 1; i >= 0; i-- {
		copy(all[i].b, saved[i])
	}
	w.Hist("probe-" + phase)
}

// quiet runs f with a single P and the collector off (see probe)
func quiet(f func()) {
	oldP := runtime.GOMAXPROCS(1)
	oldGC := debug.SetGCPercent(-1)
	defer func() {
		debug.SetGCPercent(oldGC)
		runtime.GOMAXPROCS(oldP)
		runtime.GC()
	}()
	// start from empty pools
	debug.SetGCPercent(oldGC)
	runtime.GC()
	runtime.GC()
	debug.SetGCPercent(-1)
	f()
}

func pat(rnd *tr.Rand, n int) []byte { return rnd.Bytes(n) }

// ---------------------------------------------------------------- structure phases

func phaseRing(rnd *tr.Rand) []live {
	var lives []live
	for i := 0; i < 12; i++ {
		rb := ring.New([]int{0, 0, 64, 1000, 4096}[rnd.Intn(5)])
		for j := 0; j < 2+rnd.Intn(6); j++ {
			tr.Guard(func() { _, _ = rb.Write(pat(rnd, 1+rnd.Intn(1<<uint(4+rnd.Intn(11))))) })
			if rnd.Chance(50) {
				tr.Guard(func() { _, _ = rb.Read(make([]byte, 1+rnd.Intn(3000))) })
			}
			if rnd.Chance(20) {
				tr.Guard(func() { _, _ = rb.Discard(1 + rnd.Intn(500)) })
			}
		}
		if rb.IsEmpty() {
			tr.Guard(func() { _, _ = rb.Write(pat(rnd, 100)) })
		}
		lives = append(lives, live{"ring",
			func() []byte { h, t := rb.Peek(-1); return append(append([]byte(nil), h...), t...) },
			func() [][]byte { h, t := rb.Peek(-1); return [][]byte{h, t} }})
	}
	return lives
}

type scriptReader struct {
	rnd  *tr.Rand
	left int
}

func (r *scriptReader) Read(p []byte) (int, error) {
	if r.left <= 0 {
		return 0, io.EOF
	}
	n := 1 + r.rnd.Intn(len(p))
	if n > r.left {
		n = r.left
	}
	copy(p, r.rnd.Bytes(n))
	r.left -= n
	return n, nil
}

type limitWriter struct{ left int }

func (l *limitWriter) Write(p []byte) (int, error) {
	if len(p) <= l.left {
		l.left -= len(p)
		return len(p), nil
	}
	n := l.left
	l.left = 0
	return n, nil
}

func phaseLList(rnd *tr.Rand) []live {
	var lives []live
	for i := 0; i < 10; i++ {
		ll := &linkedlist.Buffer{}
		for j := 0; j < 3+rnd.Intn(10); j++ {
			tr.Guard(func() {
				switch rnd.Intn(9) {
				case 0:
					ll.PushFront(pat(rnd, 1+rnd.Intn(700)))
				case 1, 2:
					ll.PushBack(pat(rnd, 1+rnd.Intn(5000)))
				case 3:
					_, _ = ll.ReadFrom(&scriptReader{rnd, rnd.Intn(3000)})
				case 4:
					_, _ = ll.Read(make([]byte, 1+rnd.Intn(900))) // leaves a re-sliced head node
				case 5:
					_, _ = ll.Discard(1 + rnd.Intn(900))
				case 6:
					_, _ = ll.WriteTo(&limitWriter{rnd.Intn(1200)})
				case 7:
					b := ll.AllocNode(1 + rnd.Intn(300))
					copy(b, pat(rnd, len(b)))
					ll.Append(b)
				case 8:
					if b := ll.Pop(); b != nil {
						ll.FreeNode(b)
					}
				}
			})
		}
		if rnd.Chance(15) {
			ll.Reset()
		}
		if ll.IsEmpty() {
			ll.PushBack(pat(rnd, 33))
		}
		spans := func() [][]byte { bs, _ := ll.Peek(-1); return bs }
		lives = append(lives, live{"linkedlist",
			func() []byte { return bytes.Join(spans(), nil) }, spans})
	}
	return lives
}

func phaseElastic(rnd *tr.Rand) []live {
	var lives []live
	for i := 0; i < 10; i++ {
		rb := &elastic.RingBuffer{}
		for j := 0; j < 3+rnd.Intn(8); j++ {
			tr.Guard(func() {
				switch rnd.Intn(5) {
				case 0, 1:
					_, _ = rb.Write(pat(rnd, 1+rnd.Intn(6000)))
				case 2:
					_, _ = rb.Read(make([]byte, 1+rnd.Intn(9000))) // often empties it: done() returns the ring
				case 3:
					_, _ = rb.Discard(1 + rnd.Intn(9000))
				case 4:
					rb.Done()
				}
			})
		}
		if rb.IsEmpty() {
			tr.Guard(func() { _, _ = rb.Write(pat(rnd, 77)) })
		}
		lives = append(lives, live{"elastic-ring",
			func() []byte { h, t := rb.Peek(-1); return append(append([]byte(nil), h...), t...) },
			func() [][]byte { h, t := rb.Peek(-1); return [][]byte{h, t} }})
	}
	for i := 0; i < 8; i++ {
		mb, _ := elastic.New(1 << uint(6+rnd.Intn(8)))
		for j := 0; j < 3+rnd.Intn(8); j++ {
			tr.Guard(func() {
				switch rnd.Intn(6) {
				case 0, 1:
					_, _ = mb.Write(pat(rnd, 1+rnd.Intn(4000)))
				case 2:
					_, _ = mb.Writev([][]byte{pat(rnd, 1+rnd.Intn(300)), pat(rnd, 1+rnd.Intn(3000))})
				case 3:
					_, _ = mb.Read(make([]byte, 1+rnd.Intn(5000)))
				case 4:
					_, _ = mb.Discard(1 + rnd.Intn(5000))
				case 5:
					if rnd.Chance(30) {
						mb.Release()
					}
				}
			})
		}
		if mb.IsEmpty() {
			tr.Guard(func() { _, _ = mb.Write(pat(rnd, 55)) })
		}
		spans := func() [][]byte { bs, _ := mb.Peek(-1); return bs }
		lives = append(lives, live{"elastic-mixed",
			func() []byte { return bytes.Join(spans(), nil) }, spans})
	}
	return lives
}

// ---------------------------------------------------------------- engine phases

// echo server with a 4-byte length-prefixed framing.  It consumes a frame only
// once it is complete, so partial frames stay in the connection's inbound
// buffer (elastic ring from rbPool; Peek across ring+read buffer takes the
// bsPool "cache" path), and it answers through Write / Writev / AsyncWrite.
type echoServer struct {
	gnet.BuiltinEventEngine
	eng      gnet.Engine
	booted   chan struct{}
	mode     int32
	closed   int32
	datagram bool
}

func (s *echoServer) OnBoot(e gnet.Engine) gnet.Action {
	s.eng = e
	close(s.booted)
	return gnet.None
}

func (s *echoServer) OnClose(c gnet.Conn, _ error) gnet.Action {
	atomic.AddInt32(&s.closed, 1)
	return gnet.None
}

func (s *echoServer) OnTraffic(c gnet.Conn) gnet.Action {
	if s.datagram {
		buf, _ := c.Next(-1)
		_, _ = c.Write(buf)
		return gnet.None
	}
	for {
		hdr, err := c.Peek(4)
		if err != nil {
			return gnet.None
		}
		n := int(binary.BigEndian.Uint32(hdr))
		if n > 1<<20 {
			return gnet.Close
		}
		var frame []byte
		switch atomic.AddInt32(&s.mode, 1) % 4 {
		case 0:
			buf, err := c.Peek(4 + n)
			if err != nil {
				return gnet.None
			}
			frame = append([]byte(nil), buf...)
			_, _ = c.Discard(4 + n)
		case 3:
			// the same frame consumed by several partial Discards after one Peek (the Peek that spans the
			// leftover ring and the fresh read buffer keeps a pooled scratch slice until it is discarded)
			buf, err := c.Peek(4 + n)
			if err != nil {
				return gnet.None
			}
			frame = append([]byte(nil), buf...)
			_, _ = c.Discard(2)
			_, _ = c.Discard(1)
			_, _ = c.Discard(1)
			if n > 1 {
				_, _ = c.Discard(n - 1)
				_, _ = c.Discard(1)
			} else {
				_, _ = c.Discard(n)
			}
		case 1:
			if c.InboundBuffered() < 4+n {
				return gnet.None
			}
			buf, err := c.Next(4 + n)
			if err != nil {
				return gnet.None
			}
			frame = append([]byte(nil), buf...)
		default:
			if c.InboundBuffered() < 4+n {
				return gnet.None
			}
			frame = make([]byte, 4+n)
			if _, err := io.ReadFull(c, frame); err != nil {
				return gnet.Close
			}
		}
		switch atomic.LoadInt32(&s.mode) % 3 {
		case 0:
			_, _ = c.Write(frame)
		case 1:
			_, _ = c.Writev([][]byte{frame[:4], frame[4:]})
		default:
			_ = c.AsyncWrite(frame, nil)
		}
	}
}

func frameOf(rnd *tr.Rand, n int) []byte {
	f := make([]byte, 4+n)
	binary.BigEndian.PutUint32(f, uint32(n))
	copy(f[4:], rnd.Bytes(n))
	return f
}

// a plain net client: sends frames in fragments, reads the echoes back
func chat(conn net.Conn, rnd *tr.Rand, frames int, stream bool) error {
	defer conn.Close()
	_ = conn.SetDeadline(time.Now().Add(700 * time.Millisecond))
	for i := 0; i < frames; i++ {
		f := frameOf(rnd, 1+rnd.Intn(1<<uint(3+rnd.Intn(11))))
		if stream {
			cut := 1 + rnd.Intn(len(f)-1)
			if _, err := conn.Write(f[:cut]); err != nil {
				return err
			}
			time.Sleep(time.Duration(rnd.Intn(3)) * time.Millisecond)
			if _, err := conn.Write(f[cut:]); err != nil {
				return err
			}
		} else if _, err := conn.Write(f); err != nil {
			return err
		}
		back := make([]byte, len(f))
		if stream {
			if _, err := io.ReadFull(conn, back); err != nil {
				return err
			}
		} else if _, err := conn.Read(back); err != nil {
			return err
		}
		if !bytes.Equal(back, f) {
			return fmt.Errorf("echo differs")
		}
	}
	return nil
}

// linkLocal finds an interface with an IPv6 link-local address (for %zone addresses)
func linkLocal() (ip net.IP, zone string) {
	ifs, _ := net.Interfaces()
	for _, ifi := range ifs {
		if ifi.Flags&net.FlagLoopback != 0 || ifi.Flags&net.FlagUp == 0 {
			continue
		}
		as, _ := ifi.Addrs()
		for _, a := range as {
			if n, ok := a.(*net.IPNet); ok && n.IP.To4() == nil && n.IP.IsLinkLocalUnicast() {
				return n.IP, ifi.Name
			}
		}
	}
	return nil, ""
}

// zoneProbe reads package net's cached name of the link-local interface the
// way every address of a new connection gets it (zoneCache.name(index)): a
// datagram from a link-local source is received on a wildcard socket and the
// Zone of its source address is returned.  Both sockets are opened beforehand:
// a lookup of the zone *by name* would refresh the cache and hide the damage.
type zoneProbe struct {
	pc  net.PacketConn
	snd net.Conn
}

func newZoneProbe(ip net.IP, zone string) *zoneProbe {
	pc, err := net.ListenPacket("udp6", "[::]:0")
	if err != nil {
		return nil
	}
	port := pc.LocalAddr().(*net.UDPAddr).Port
	snd, err := net.Dial("udp6", fmt.Sprintf("[%s%%%s]:%d", ip, zone, port))
	if err != nil {
		pc.Close()
		return nil
	}
	return &zoneProbe{pc, snd}
}

func (z *zoneProbe) name() string {
	if _, err := z.snd.Write([]byte{1}); err != nil {
		return "send-error"
	}
	_ = z.pc.SetReadDeadline(time.Now().Add(300 * time.Millisecond))
	var buf [8]byte
	_, a, err := z.pc.ReadFrom(buf[:])
	if err != nil {
		return "recv-error"
	}
	return a.(*net.UDPAddr).Zone
}

func (z *zoneProbe) close() { z.pc.Close(); z.snd.Close() }

var portSeq int32

func nextPort() int { return 20000 + os.Getpid()%20000 + int(atomic.AddInt32(&portSeq, 1)) }

type clientEvents struct {
	gnet.BuiltinEventEngine
	got chan []byte
}

func (e *clientEvents) OnTraffic(c gnet.Conn) gnet.Action {
	b, _ := c.Next(-1)
	select {
	case e.got <- append([]byte(nil), b...):
	default:
	}
	return gnet.None
}

// runEngine runs one engine scenario to completion (server stopped, client
// stopped, every connection released).  Returns false when the scenario cannot
// run here (e.g. no link-local interface).
func runEngine(phase string, rnd *tr.Rand) bool {
	ip, zone := linkLocal()
	var proto, addr, dialNet, dialAddr string
	port := nextPort()
	switch phase {
	case "tcp4":
		proto, addr, dialNet, dialAddr = "tcp", fmt.Sprintf("127.0.0.1:%d", port), "tcp", fmt.Sprintf("127.0.0.1:%d", port)
	case "unix":
		p := fmt.Sprintf("/var/tmp/drv-pool-%d-%d.sock", os.Getpid(), port)
		defer os.Remove(p)
		proto, addr, dialNet, dialAddr = "unix", p, "unix", p
	case "udp4":
		proto, addr, dialNet, dialAddr = "udp", fmt.Sprintf("127.0.0.1:%d", port), "udp", fmt.Sprintf("127.0.0.1:%d", port)
	case "tcp6zone", "enroll6", "accept6zone", "udp6zone":
		if ip == nil {
			return false
		}
		proto = "tcp6"
		dialNet = "tcp6"
		if phase == "udp6zone" {
			proto, dialNet = "udp6", "udp6"
		}
		addr = fmt.Sprintf("[%s%%%s]:%d", ip, zone, port)
		dialAddr = addr
	default:
		return false
	}
	srv := &echoServer{booted: make(chan struct{}), datagram: proto == "udp" || proto == "udp6"}
	errc := make(chan error, 1)
	go func() {
		errc <- gnet.Run(srv, proto+"://"+addr, gnet.WithNumEventLoop(2), gnet.WithLogLevel(logging.FatalLevel),
			gnet.WithReusePort(true))
	}()
	select {
	case <-srv.booted:
	case err := <-errc:
		w.Hist("engine-start-failed-" + phase)
		_ = err
		return false
	case <-time.After(3 * time.Second):
		return false
	}
	stream := proto != "udp" && proto != "udp6"
	switch phase {
	case "tcp4", "unix", "udp4", "accept6zone", "udp6zone":
		// plain clients; the gnet side only accepts (remote addresses of accepted
		// link-local peers carry a zone made by socket.SockaddrToTCPOrUnixAddr)
		var wg sync.WaitGroup
		for i := 0; i < 4; i++ {
			wg.Add(1)
			r := tr.NewRand(rnd.U64())
			go func() {
				defer wg.Done()
				conn, err := net.DialTimeout(dialNet, dialAddr, 2*time.Second)
				if err != nil {
					return
				}
				_ = chat(conn, r, 6, stream)
			}()
		}
		wg.Wait()
	case "tcp6zone":
		// gnet client dialling a link-local address: both addresses of the
		// connection carry the zone string of package net's zone cache
		ev := &clientEvents{got: make(chan []byte, 64)}
		cli, err := gnet.NewClient(ev, gnet.WithLogLevel(logging.FatalLevel))
		if err == nil && cli.Start() == nil {
			for i := 0; i < 3; i++ {
				c, err := cli.Dial(dialNet, dialAddr)
				if err != nil {
					continue
				}
				f := frameOf(rnd, 20+rnd.Intn(200))
				_, _ = c.Write(f)
				select {
				case <-ev.got:
				case <-time.After(500 * time.Millisecond):
				}
				_ = c.Close()
			}
			time.Sleep(30 * time.Millisecond)
			_ = cli.Stop()
		}
	case "enroll6":
		// an established net.Conn to a link-local address handed to a gnet client
		ev := &clientEvents{got: make(chan []byte, 64)}
		cli, err := gnet.NewClient(ev, gnet.WithLogLevel(logging.FatalLevel))
		if err == nil && cli.Start() == nil {
			for i := 0; i < 2; i++ {
				nc, err := net.DialTimeout(dialNet, dialAddr, 2*time.Second)
				if err != nil {
					continue
				}
				c, err := cli.Enroll(nc)
				if err != nil {
					nc.Close()
					continue
				}
				f := frameOf(rnd, 20+rnd.Intn(200))
				_, _ = c.Write(f)
				select {
				case <-ev.got:
				case <-time.After(500 * time.Millisecond):
				}
				_ = c.Close()
				nc.Close()
			}
			time.Sleep(30 * time.Millisecond)
			_ = cli.Stop()
		}
	}
	time.Sleep(20 * time.Millisecond)
	// Engine.Stop polls every 500 ms; gnet.Run returns as soon as the engine is down
	go func() {
		ctx, cancel := context.WithTimeout(context.Background(), 3*time.Second)
		_ = srv.eng.Stop(ctx)
		cancel()
	}()
	select {
	case <-errc:
	case <-time.After(3 * time.Second):
		w.Hist("engine-stop-timeout-" + phase)
	}
	return true
}

var enginePhases = []string{"ring", "llist", "elastic", "tcp4", "unix", "udp4", "accept6zone", "tcp6zone", "enroll6", "udp6zone"}

// engine executes `op engine <phase> <seed>`: the phase, then the probe.
func engine(phase string, seed uint64) {
	w.Op(tr.L("engine", phase, tr.U64(seed)))
	w.Obs(tr.L("engine", phase))
	rnd := tr.NewRand(seed)
	quiet(func() {
		var lives []live
		ran := true
		switch phase {
		case "ring":
			lives = phaseRing(rnd)
		case "llist":
			lives = phaseLList(rnd)
		case "elastic":
			lives = phaseElastic(rnd)
		default:
			ran = runEngine(phase, rnd)
			if ip, zone := linkLocal(); ran && ip != nil {
				if zp := newZoneProbe(ip, zone); zp != nil {
					defer zp.close()
					lives = append(lives, live{"net-zonecache",
						func() []byte { return []byte(zp.name()) },
						func() [][]byte { return nil }})
				}
			}
		}
		if !ran {
			w.Hist("engine-skipped-" + phase)
			return
		}
		w.Tag("engine-" + phase)
		probe(phase, lives)
		runtime.KeepAlive(lives)
	})
}
