(* C01 / C02 progress, part 2: the mutually recursive procedures. *)
From Coq Require Import Lia ZArith ZifyBool.
From GV Require Import Lib.Trace Model.Loop Spec.LoopSpec Proofs.LoopDataLib Proofs.LoopProgressBlock.
Open Scope string_scope.
Open Scope list_scope.
Open Scope Z_scope.

Section ET.
Variable et : bool.
Notation QINV := (Inv ustep (qstep et) tt (q0 et)).
Notation RQ := (RQ et).

Ltac qoign := apply qign_out_ign; repeat split; reflexivity.
Ltac dsync := eapply Q_desync; eassumption.

(* the close callback is announced *)
Lemma RQ_close : forall W ops rf u p b s cid e,
  RQ W ops QNone rf u (p, b) s ->
  c_opened (getc s cid) = true -> alookup (c_fd (getc s cid)) (l_reg s) <> None ->
  exists x', qstep et (p, b) (EOut (obs "cb" [ASym "close"; AInt cid; e])) = Some x' /\
  RQ (cid :: W) ops QNone rf u x' (set_reg s (aremove (c_fd (getc s cid)) (l_reg s))).
Proof.
  intros W ops rf u p b s cid e HR Ho Hr.
  set (p' := mkP (p_et p) (p_want_w p) (p_last p) (p_owed p) (p_dirty p) (cid :: p_dead p)).
  set (b' := if et then match r_full b with
                        | Some c => if c =? cid then mkR (r_cap b) None (r_cur b) else b
                        | None => b end else b).
  exists (p', b'). split.
  { unfold qstep, rdx, obs. cbn [fst snd prog_step]. subst b'. destruct et; [|reflexivity].
    cbn [rd_step]. destruct (r_full b) as [c|]; [destruct (c =? cid)|]; reflexivity. }
  pose proof (RQ_dead_add _ _ _ _ _ _ _ _ _ cid HR) as HD. fold p' in HD.
  destruct HD as [R1 R2 R3 R4 R5 R6 R7 R8 R9 R10 R11 R12 R13]. cbn [fst snd] in *.
  assert (Hdc : pdead p' cid = true) by (unfold pdead, p'; cbn [p_dead]; rewrite zmem_cons, Z.eqb_refl; reflexivity).
  constructor; cbn [fst snd set_reg l_reg l_next l_et]; auto.
  - intros c. rewrite getc_set_reg. intros Ho0. rewrite alookup_aremove.
    destruct (Z.eqb_spec (c_fd (getc s c)) (c_fd (getc s cid))) as [Ef|Nf].
    + right. split; [reflexivity|].
      destruct (R5 _ Ho0) as [A|[A B]]; [|right; exact B].
      destruct (R5 _ Ho) as [C|[C _]]; [|congruence].
      rewrite Ef in A. rewrite A in C. inversion C. left. reflexivity.
    + destruct (R5 _ Ho0) as [A|[A B]]; [left; exact A|right; split; [exact A|right; exact B]].
  - intros fd c H. apply in_aremove in H. destruct H as [H N]. destruct (R6 _ _ H) as [A B]. split; [exact A|].
    rewrite alookup_aremove. replace (fd =? c_fd (getc s cid)) with false by lia. exact B.
  - intros fd c H D. apply in_aremove in H. destruct H as [H N]. rewrite getc_set_reg. eauto.
  - intros c [<-|H]; rewrite getc_set_reg, alookup_aremove.
    + rewrite Z.eqb_refl. auto.
    + destruct (R8 _ H) as (A & B & C). rewrite B. destruct (_ =? _); auto.
  - intros fd c H. apply in_aremove in H. destruct H as [H N]. rewrite getc_set_reg. eauto.
  - intros Het. subst b'. rewrite Het. destruct (R12 Het) as [A|(c & A & B & C & D)].
    + left. rewrite A. exact A.
    + rewrite B. destruct (Z.eqb_spec c cid) as [->|N]; [left; reflexivity|].
      right. exists c. rewrite getc_set_reg. repeat split; auto. intros [E|E]; [congruence|auto].
Qed.

Lemma RQ_release : forall W ops rf u x s cid,
  RQ (cid :: W) ops QNone rf u x s ->
  RQ W ops (QNoReg (c_fd (getc s cid))) rf u x (setc s cid (c_release (getc s cid))).
Proof.
  intros W ops rf u [p b] s cid [R1 R2 R3 R4 R5 R6 R7 R8 R9 R10 R11 R12 R13]. cbn [fst snd] in *.
  destruct (R8 cid (or_introl eq_refl)) as (Hdead & Hnr & Hlt).
  assert (Hrel : c_opened (c_release (getc s cid)) = false) by (unfold c_release; destruct (c_udp (getc s cid)); reflexivity).
  assert (Hfd : c_fd (c_release (getc s cid)) = c_fd (getc s cid)) by (unfold c_release; destruct (c_udp (getc s cid)); reflexivity).
  assert (Hud : c_udp (c_release (getc s cid)) = c_udp (getc s cid)) by (unfold c_release; destruct (c_udp (getc s cid)) eqn:Eu; cbn [c_udp]; congruence).
  constructor; cbn [fst snd setc l_reg l_next l_et]; auto.
  - intros c. rewrite getc_setc. destruct (Z.eqb_spec c cid) as [->|N]; [congruence|auto].
  - intros c. rewrite getc_setc. destruct (Z.eqb_spec c cid) as [->|N]; [congruence|].
    intros Ho. destruct (R5 _ Ho) as [A|[A [B|B]]]; [left; exact A|congruence|right; auto].
  - intros fd c H D. rewrite getc_setc. destruct (Z.eqb_spec c cid) as [->|N]; [congruence|eauto].
    destruct (R7 _ _ H D) as [A|[A|A]]; auto. discriminate.
  - intros c H. rewrite getc_setc. destruct (R8 c (or_intror H)) as (A & B & C).
    destruct (Z.eqb_spec c cid) as [->|N]; [rewrite Hfd|]; auto.
  - intros c H. rewrite getc_setc. destruct (Z.eqb_spec c cid) as [->|N]; [right; exact Hdead|auto].
  - intros c. rewrite getc_setc. destruct (Z.eqb_spec c cid) as [->|N]; [intros; congruence|auto].
  - intros fd c H. rewrite getc_setc. destruct (Z.eqb_spec c cid) as [->|N]; [intros; congruence|].
    intros A D E F _. apply (R11 fd c H A D E F). discriminate.
  - intros Het. destruct (R12 Het) as [A|(c & A & B & C & D)]; [left; exact A|].
    right. exists c. rewrite getc_setc. destruct (Z.eqb_spec c cid) as [->|N]; [exfalso; apply D; left; reflexivity|].
    repeat split; auto. intros H. apply D. right. exact H.
Qed.
