(* C10 — the elastic buffers (elastic.RingBuffer and the mixed ring/linked-list
   elastic.Buffer) behave as one FIFO byte queue.
   Statements only; proofs live in Proofs/Elastic*.v.

   Reading guide.  The model (Model/Elastic.v) transcribes
   pkg/buffer/elastic/elastic_ring_buffer.go and elastic_ring_list_buffer.go and
   uses the models of C09 (Model/Ring.v) and C11 (Model/LList.v) for the inner
   buffers.  [rstep e o] / [bstep b o] execute one method on the elastic ring
   buffer [e : option ring] / the mixed buffer [b]; operations that can reach
   instance() carry the capacity [c] the pool would hand back (an input: the
   property does not constrain it).  [rcontent] / [bcontent] (Spec/ElasticSpec.v)
   are the abstraction functions:
        bcontent b = rcontent (ring part) ++ lcontent (list part)
   and [ering_op_spec q o x q'] / [ebuf_op_spec q o x q'] say, on the FIFO byte
   list of Spec/Fifo.v only, what operation [o] returns ([x]) and leaves ([q'])
   when the queue is [q].  [rop_wf] / [bop_wf] only demand what a Go caller can
   supply: len(p) < 2^62, a pool capacity >= 0, len(p) >= 0 for Read, and
   reader / writer scripts with counts >= 0 (the io.Reader / io.Writer contract).
   Everything below quantifies over ALL finite operation sequences, static-size
   limits (any integer, in particular every max_static > 0 and the zero value),
   payload sizes, pool capacities, Writev splits and scripts. *)
From GV Require Import Lib.Trace Spec.Fifo Model.Elastic Spec.ElasticSpec
  Proofs.ElasticRing Proofs.ElasticProofs.
From GV Require Model.Ring Model.LList Spec.LListSpec.
Open Scope Z_scope.

(* ---- elastic.RingBuffer ------------------------------------------------- *)

(* Every finite operation sequence on an elastic ring buffer that starts without
   a ring (lazy acquisition with ANY pool capacities, return to the pool when
   empty after Read/Discard/ReadByte/WriteTo, Done) runs without panic and its
   observable results are those of the FIFO started empty. *)
Theorem C10_elastic_ring_refines_fifo : forall ops, Forall rop_wf ops ->
  exists e outs, run_rops None ops = Ret (e, outs) /\ ering_run fifo_empty ops outs (rcontent e).
Proof. exact elastic_ring_refines_fifo. Qed.
Print Assumptions C10_elastic_ring_refines_fifo.

(* One step from any state (no ring / any ring satisfying C09's invariant). *)
Theorem C10_elastic_ring_step : forall e o, ering_inv e -> rop_wf o ->
  exists e' x, rstep e o = Ret (e', x) /\ ering_inv e' /\ ering_op_spec (rcontent e) o x (rcontent e').
Proof. exact rstep_spec. Qed.
Print Assumptions C10_elastic_ring_step.

Theorem C10_elastic_ring_no_panic : forall ops, Forall rop_wf ops -> run_rops None ops <> Panic.
Proof. exact elastic_ring_no_panic. Qed.
Print Assumptions C10_elastic_ring_no_panic.

(* ---- elastic.Buffer ----------------------------------------------------- *)

(* Every finite operation sequence on a fresh mixed buffer with static-size
   limit m runs without panic, its observable results are those of the FIFO
   started empty, the final content is the specification's, where
   content = ring content ++ list content. *)
Theorem C10_elastic_refines_fifo : forall m ops, Forall bop_wf ops ->
  exists b outs, run_bops (mkB m None LList.empty_buffer) ops = Ret (b, outs) /\ binv b /\
    ebuf_run fifo_empty ops outs (rcontent (eb_ring b) ++ lcontent (eb_list b))%list.
Proof. exact elastic_refines_fifo. Qed.
Print Assumptions C10_elastic_refines_fifo.

(* The same from every state satisfying the invariant (any ring state of C09,
   any list state of C11, any split between the two). *)
Theorem C10_elastic_refines_fifo_from_any_state : forall ops b, binv b -> Forall bop_wf ops ->
  exists b' outs, run_bops b ops = Ret (b', outs) /\ binv b' /\
    ebuf_run (bcontent b) ops outs (bcontent b').
Proof. exact run_bops_spec. Qed.
Print Assumptions C10_elastic_refines_fifo_from_any_state.

(* One step, spelled out: no panic, invariant kept, FIFO behaviour. *)
Theorem C10_elastic_step : forall b o, binv b -> bop_wf o ->
  exists b' x, bstep b o = Ret (b', x) /\ binv b' /\ ebuf_op_spec (bcontent b) o x (bcontent b').
Proof. exact bstep_spec. Qed.
Print Assumptions C10_elastic_step.

Theorem C10_elastic_no_panic : forall m ops, Forall bop_wf ops ->
  run_bops (mkB m None LList.empty_buffer) ops <> Panic.
Proof. exact elastic_no_panic. Qed.
Print Assumptions C10_elastic_no_panic.

(* Order invariant: once the list part is non-empty, or the ring part has
   reached the static-size limit, Write / Writev / ReadFrom leave the ring part
   untouched and append exactly the accepted bytes to the list part; so the ring
   part always holds the older bytes and the switch-over never reorders or
   drops anything. *)
Theorem C10_elastic_order_invariant : forall b o b' x, binv b -> bop_wf o -> is_write o = true ->
  lcontent (eb_list b) <> [] \/ eb_max b <= zlen (rcontent (eb_ring b)) ->
  bstep b o = Ret (b', x) ->
  eb_ring b' = eb_ring b /\ lcontent (eb_list b') = (lcontent (eb_list b) ++ accepted o x)%list.
Proof. exact elastic_order_invariant. Qed.
Print Assumptions C10_elastic_order_invariant.

(* Only Write / Writev / ReadFrom add bytes; every other operation leaves a
   suffix of the content. *)
Theorem C10_elastic_consumers_shrink : forall b o b' x, binv b -> bop_wf o -> is_write o = false ->
  bstep b o = Ret (b', x) -> exists k, 0 <= k /\ bcontent b' = zdrop k (bcontent b).
Proof. exact elastic_consumers_shrink. Qed.
Print Assumptions C10_elastic_consumers_shrink.

(* Peek: 0 < n <= Buffered yields exactly the first n bytes (as the
   concatenation of the returned segments); n <= 0 (gnet calls Peek(-1) and
   Peek(0)) yields everything (up to the documented MaxInt32 convention);
   n > Buffered yields ErrShortBuffer; the buffer is unchanged. *)
Theorem C10_peek_exact : forall b n, binv b ->
  exists e segs, bstep b (BoPeek n) = Ret (b, XPeek e segs) /\
    (0 < n <= zlen (bcontent b) -> n <> LList.MaxInt32 -> e = XNil /\ List.concat segs = ztake n (bcontent b)) /\
    (n <= 0 \/ n = LList.MaxInt32 -> e = XNil /\ List.concat segs = ztake LList.MaxInt32 (bcontent b)) /\
    (n <= 0 \/ n = LList.MaxInt32 -> zlen (bcontent b) <= LList.MaxInt32 -> e = XNil /\ List.concat segs = bcontent b) /\
    (zlen (bcontent b) < n -> n <> LList.MaxInt32 -> e = XShortBuf /\ segs = []).
Proof. exact peek_exact. Qed.
Print Assumptions C10_peek_exact.

(* Discard(n) removes exactly min(n, Buffered) bytes (none for n <= 0) from the
   front and reports that number. *)
Theorem C10_discard_exact : forall b n, binv b ->
  exists b' e, bstep b (BoDiscard n) = Ret (b', XDiscard (Z.max 0 (Z.min n (zlen (bcontent b)))) e) /\
    binv b' /\ bcontent b' = zdrop n (bcontent b) /\
    bcontent b = (ztake n (bcontent b) ++ bcontent b')%list /\
    zlen (bcontent b') = zlen (bcontent b) - Z.max 0 (Z.min n (zlen (bcontent b))) /\
    (0 < n -> e = XNil).
Proof. exact discard_exact. Qed.
Print Assumptions C10_discard_exact.

(* Buffered and IsEmpty always agree with the content. *)
Theorem C10_buffered_isempty : forall b, binv b ->
  BBuffered b = zlen (bcontent b) /\ BIsEmpty b = fifo_is_empty (bcontent b) /\
  (BIsEmpty b = true <-> BBuffered b = 0) /\ (BIsEmpty b = true <-> bcontent b = []).
Proof. exact buffered_isempty. Qed.
Print Assumptions C10_buffered_isempty.

(* Write / Writev accept everything, in order, whatever the split. *)
Theorem C10_write_exact : forall b c p, binv b -> 0 <= c -> zlen p <= 2^62 ->
  exists b', bstep b (BoWrite c p) = Ret (b', XWrite (zlen p) XNil) /\ binv b' /\
    bcontent b' = (bcontent b ++ p)%list.
Proof. exact write_exact. Qed.
Print Assumptions C10_write_exact.

Theorem C10_writev_exact : forall b c bs, binv b -> 0 <= c -> Forall (fun x => zlen x <= 2^62) bs ->
  exists b', bstep b (BoWritev c bs) = Ret (b', XWrite (zlen (List.concat bs)) XNil) /\ binv b' /\
    bcontent b' = (bcontent b ++ List.concat bs)%list.
Proof. exact writev_exact. Qed.
Print Assumptions C10_writev_exact.

Theorem C10_read_exact : forall b n, binv b -> 0 <= n ->
  exists b' e, bstep b (BoRead n) = Ret (b', XRead (ztake n (bcontent b)) (Z.min n (zlen (bcontent b))) e) /\
    binv b' /\ bcontent b' = zdrop n (bcontent b) /\ (0 < n <= zlen (bcontent b) -> e = XNil).
Proof. exact read_exact. Qed.
Print Assumptions C10_read_exact.

(* ReadFrom appends exactly the k bytes the reader delivered and reports k. *)
Theorem C10_readfrom_exact : forall b c src sc, binv b -> 0 <= c -> script_ok sc ->
  exists b' k e, bstep b (BoReadFrom c src sc) = Ret (b', XReadFrom k e (zlen src - k)) /\ binv b' /\
    0 <= k <= zlen src /\ bcontent b' = (bcontent b ++ ztake k src)%list.
Proof. exact readfrom_exact. Qed.
Print Assumptions C10_readfrom_exact.

(* WriteTo hands the writer a prefix of the content, exactly that prefix leaves
   the buffer, the count is its length, a nil error means everything. *)
Theorem C10_writeto_exact : forall b sc, binv b -> script_ok sc ->
  exists b' n e, bstep b (BoWriteTo sc) = Ret (b', XWriteTo n e (ztake n (bcontent b))) /\ binv b' /\
    0 <= n <= zlen (bcontent b) /\ bcontent b' = zdrop n (bcontent b) /\ (e = XNil -> bcontent b' = []).
Proof. exact writeto_exact. Qed.
Print Assumptions C10_writeto_exact.

Theorem C10_reset_release_exact : forall b m, binv b ->
  binv (BReset b m) /\ bcontent (BReset b m) = [] /\ binv (BRelease b) /\ bcontent (BRelease b) = [].
Proof. exact reset_release_exact. Qed.
Print Assumptions C10_reset_release_exact.

(* The invariant asked for above holds in every state reachable from a fresh
   buffer (so the per-method theorems apply after any history). *)
Theorem C10_reachable_inv : forall m ops b outs, Forall bop_wf ops ->
  run_bops (mkB m None LList.empty_buffer) ops = Ret (b, outs) -> binv b.
Proof. exact reachable_inv. Qed.
Print Assumptions C10_reachable_inv.

(* ---- non-vacuity: the hypotheses hold on non-trivial runs (kernel-evaluated) ---- *)

(* limit 4; pool capacity 4: the ring fills (2 + 2 of 6 bytes), the rest goes to
   the list; Peek inside the ring / across the switch-over / everything;
   Writev with empty segments into the list; Discard across; WriteTo with the
   ring part already empty and a writer failing after 2 bytes *)
Definition ex_bops : list bop :=
  [ BoWrite 4 [1;2]; BoWrite 4 [3;4;5;6;7;8];
    BoPeek 3; BoPeek 5; BoPeek (-1); BoBuffered;
    BoWritev 4 [[]; [9]; []; [10;11]];
    BoDiscard 5; BoIsEmpty;
    BoWriteTo [(2, XErr)]; BoWriteTo []; BoIsEmpty;
    BoReadFrom 0 [20;21;22] [(2, XNil); (5, XEof)]; BoRead 2; BoRelease; BoBuffered ].

Example C10_ex_hyps : Forall bop_wf ex_bops.
Proof. repeat constructor; cbv; discriminate. Qed.

Example C10_ex_run :
  omap snd (run_bops (mkB 4 None LList.empty_buffer) ex_bops) =
    Ret [ XWrite 2 XNil; XWrite 6 XNil;
          XPeek XNil [[1;2;3]]; XPeek XNil [[1;2;3;4]; [5]]; XPeek XNil [[1;2;3;4]; [5;6;7;8]]; XInt 8;
          XWrite 3 XNil;
          XDiscard 5 XNil; XBool false;
          XWriteTo 2 XErr [6;7]; XWriteTo 4 XNil [8;9;10;11]; XBool true;
          XReadFrom 3 XNil 0; XRead [20;21] 2 XNil; XUnit; XInt 0 ].
Proof. vm_compute. reflexivity. Qed.

(* the order invariant's hypothesis on a reachable state: ring [1;2;3;4], list [5;6;7;8] *)
Example C10_ex_order :
  exists b outs, run_bops (mkB 4 None LList.empty_buffer) [BoWrite 4 [1;2]; BoWrite 4 [3;4;5;6;7;8]] = Ret (b, outs) /\
    rcontent (eb_ring b) = [1;2;3;4] /\ lcontent (eb_list b) = [5;6;7;8] /\
    lcontent (eb_list b) <> [] /\ eb_max b <= zlen (rcontent (eb_ring b)).
Proof. eexists _, _. vm_compute. repeat split; discriminate. Qed.

(* elastic ring buffer: lazy acquisition (pool capacities 2 and 0), return to the
   pool when drained, a second acquisition, a failing writer, Done *)
Definition ex_rops : list rop :=
  [ RoIsEmpty; RoRead 1; RoWrite 2 [1;2;3]; RoCap; RoRead 3; RoCap;
    RoWriteByte 0 7; RoReadFrom 0 [8;9] [(1, XNil); (1, XErr)]; RoPeek 2;
    RoWriteTo [(1, XErr)]; RoDiscard 5; RoCap; RoWriteString 4 [4]; RoDone; RoBuffered ].

Example C10_ex_ring_hyps : Forall rop_wf ex_rops.
Proof. repeat constructor; cbv; discriminate. Qed.

Example C10_ex_ring_run :
  omap snd (run_rops None ex_rops) =
    Ret [ XBool true; XRead [] 0 XEmpty; XWrite 3 XNil; XInt 4; XRead [1;2;3] 3 XNil; XInt 0;
          XWriteByte XNil; XReadFrom 2 XErr 0; XPeek2 [7;8] [];
          XWriteTo 1 XErr [7]; XDiscard 2 XNil; XInt 0; XWrite 1 XNil; XUnit; XInt 0 ].
Proof. vm_compute. reflexivity. Qed.
