(* C05 -- event-loop confinement and freedom from data races.
   Statements only; proofs in Proofs/FootprintProofs.v, definitions in
   Model/FootprintCore.v (theory, checker), Model/Footprint.v (the writers of every
   field of the current source, the closed exception list), Model/Loop.v (the loop).

   Level: proof, partial.  Assumed: the Go memory model (happens-before = program
   order + synchronisation, sync/atomic sequentially consistent), completeness of
   the static footprint extracted by harness/cmd/genfootprint (re-extracted and
   re-checked on every run: GenFootprint.v), absence of races inside dependencies
   (pkg/queue is C13; logging, buffers, ants, x/sys are boundaries), and that user
   code passes a connection / engine handle to another goroutine only through
   synchronisation.  The theorems below are about ALL executions (any number of
   goroutines, objects, steps, any interleaving); what ties them to gnet is
   (a) the generated obligations `race_free_table gen_writers exceptions
   gen_footprint = true`, `gen_writers = justified_writers`, `writers_cover ...`,
   `confined_sites gen_cbsites = true`, and (b) the dynamic search of drv-race
   (goroutine identity of every callback; API storm under the race detector). *)
From GV Require Import Lib.Trace Model.Loop Model.FootprintCore Model.Footprint Proofs.FootprintProofs.
Open Scope string_scope.
Open Scope list_scope.
Open Scope nat_scope.

(* ---- 1. the ownership discipline excludes data races ---------------------- *)

(* An execution is an interleaving of memory accesses (thread, location, kind in
   {read, write, atomic read, atomic write}) and of the two halves of
   synchronisation edges.  If a ghost owner can be assigned to every location at
   every step such that every access is made by the current owner (or takes over a
   location whose release it happens-after, or reads a frozen location it
   happens-after, or is atomic on an atomic location), and ownership is given up
   only by the owner at one of its synchronisation releases, then no two conflicting
   accesses of different threads are unordered by happens-before. *)
Theorem C05_race_free_sound :
  forall (loc : Type) (loc_dec : forall a b : loc, {a = b} + {a <> b})
         (ex : list (event loc)) (own : nat -> loc -> ostate),
    disciplined loc ex own -> ~ race loc ex.
Proof. exact race_free_sound. Qed.
Print Assumptions C05_race_free_sound.

(* ---- 2. a table the checker accepts describes only race-free executions ---- *)

(* For every list of writers ws, exception list xs and footprint table t that the
   executable checker accepts, and every execution ex -- any number of goroutines
   playing the roles of the table, any number of objects, any interleaving -- in which
   every access is an instance of a non-excepted table access of the thread's role,
   made either by the object's creator before it publishes the object or
   happens-after that publication, with single-goroutine roles (a loop, the
   acceptor, the ticker, the engine goroutine) touching only their own objects:
   the ghost owner [own_of] computed from the table satisfies the discipline, and
   the execution has no data race.
   PARTIAL with xs = exceptions: executions that perform an excepted access are not
   covered; the exceptions marked x_finding are genuine defects (theorem 6). *)
Theorem C05_table_sound : forall L xs ws t ex,
  race_free_table ws xs t = true -> writers_cover ws t = true -> conforms L xs t ex ->
  disciplined cloc ex (own_of L xs ws t ex) /\ ~ race cloc ex.
Proof. exact table_sound. Qed.
Print Assumptions C05_table_sound.

(* the hypotheses are satisfiable on a non-trivial execution (creation on a worker,
   hand-over through the task queue, loop-side writes, a concurrent Fd() call) *)
Example C05_table_sound_nonvacuous :
  race_free_table ex_ws [] ex_table = true /\ writers_cover ex_ws ex_table = true /\
  conforms ex_layout [] ex_table ex_exec /\ ~ race cloc ex_exec.
Proof. exact (conj (proj1 ex_table_ok) (conj (proj2 ex_table_ok) (conj ex_conforms ex_no_race))). Qed.

(* ---- 3. confinement: callbacks run on their loop's goroutine --------------- *)

(* The engine is N event loops, each the ONE sequential run of Poller.Polling on
   its own input (loop_history = the history of Model.Loop.polling, a function);
   an engine execution is any merge of the N histories, each event labelled with
   the loop (= goroutine) that took it.  Every callback event -- OnOpen / OnTraffic /
   OnClose (`cb`), asynchronous write / Wake / Close callbacks (`acb`), Execute
   runnables (`exec`) -- labelled k was produced by loop k's own polling run. *)
Theorem C05_callbacks_confined : forall ins g k e,
  engine_exec ins g -> In (k, e) g -> is_callback e = true ->
  In e (loop_history (nth k ins [])) /\ k < List.length ins.
Proof. exact callbacks_confined. Qed.
Print Assumptions C05_callbacks_confined.

(* One at a time: the events goroutine k takes during an engine execution are,
   in order, exactly the history of its one sequential polling run -- callbacks of
   one loop are totally ordered and cannot overlap each other -- and that order does
   not depend on how the loops interleave. *)
Theorem C05_callbacks_serial : forall ins g k,
  engine_exec ins g -> proj k g = loop_history (nth k ins []).
Proof. exact callbacks_serial. Qed.
Print Assumptions C05_callbacks_serial.

Theorem C05_callbacks_schedule_independent : forall ins g g' k,
  engine_exec ins g -> engine_exec ins g' -> proj k g = proj k g'.
Proof. exact callbacks_schedule_independent. Qed.
Print Assumptions C05_callbacks_schedule_independent.

(* Callbacks of different loops may overlap: in this execution of a two-loop engine
   loop 1 runs an Execute runnable after loop 0's OnOpen handler has started and
   before it has returned. *)
Theorem C05_loops_may_overlap :
  exists g pre mid post,
    engine_exec [ov_in0; ov_in1] g /\
    g = pre ++ [(0, EOut ("cb", [ASym "open"; AInt 0%Z]))] ++ mid ++ [(0, EIn ("hret", [ASym "none"]))] ++ post /\
    In (1, EOut ("exec", [])) mid.
Proof. exact loops_overlap. Qed.
Print Assumptions C05_loops_may_overlap.

(* ---- 4. a connection never changes loops ----------------------------------- *)

(* In the current source every writer of conn.loop is a constructor write
   (newStreamConn / newUDPConn store `loop: el` in the composite literal; no other
   assignment exists: re-checked per run by writers_justified and
   conn_loop_written_once), so in every conforming execution conn.loop is never
   written after the connection has been published. *)
Theorem C05_conn_loop_fixed :
  (class_of exceptions justified_writers "conn.loop" = CImmutable /\
   forallb w_init (writers_of "conn.loop" justified_writers) = true /\
   writers_of "conn.loop" justified_writers <> []) /\
  forall L t ex,
    race_free_table justified_writers exceptions t = true -> writers_cover justified_writers t = true ->
    conforms L exceptions t ex ->
    forall n th o k, at_ cloc ex n = Some (Acc th (o, "conn.loop") k) ->
      (exists r, pub L o = Some r /\ r < n) -> is_write k = false.
Proof. exact (conj conn_loop_class conn_loop_fixed). Qed.
Print Assumptions C05_conn_loop_fixed.

(* ---- 5. what the current source's writers imply for the fields the property
        names (computed, not declared) ---------------------------------------- *)
Theorem C05_key_classes :
  map (class_of exceptions justified_writers)
      ["conn.fd"; "conn.loop"; "conn.isDatagram"; "conn.proto"; "eventloop.poller"; "eventloop.engine";
       "conn.safeCtx"; "engine.inShutdown"; "netpoll.Poller.wakeupCall"; "connMatrix.connCount"; "connMatrix.connCounts[]";
       "conn.opened"; "conn.outboundBuffer"; "conn.remote"; "roundRobinLoadBalancer.nextIndex"] =
  [CImmutable; CImmutable; CImmutable; CImmutable; CImmutable; CImmutable;
   CAtomic; CAtomicOwned REngine; CAtomic; CAtomicOwned RLoop; CAtomicOwned RLoop;
   COwnedBy RLoop; COwnedBy RLoop; COwnedBy RLoop; COwnedBy RAcceptor].
Proof. exact key_classes. Qed.
Print Assumptions C05_key_classes.

(* ---- 6. the known defect ---------------------------------------------------- *)

(* The full statement -- the table of the current source is accepted WITHOUT the
   exceptions marked as findings -- is false (GenFootprint.v, findings_are_needed).
   The excepted accesses are Engine.CountConnections reading the load balancer's
   loop list, which engine start is still appending to when the Engine handle was
   taken in OnBoot.  As an execution: it has a data race. *)
Definition C05_full_statement (t : list row) : Prop :=
  race_free_table justified_writers (filter (fun x => negb (x_finding x)) exceptions) t = true.

Theorem C05_findings_listed :
  map x_loc (findings exceptions) = ["baseLoadBalancer.eventLoops"; "baseLoadBalancer.eventLoops[]"].
Proof. exact findings_listed. Qed.
Print Assumptions C05_findings_listed.

Theorem C05_cc_during_start_refuted : race cloc racy_exec.
Proof. exact cc_during_start_refuted. Qed.
Print Assumptions C05_cc_during_start_refuted.

(* the trace runner agrees with the claim on a well-behaved run and detects a
   foreign goroutine, an overlap and a migration *)
Example C05_runner_ok :
  run_footprint [("b", [AInt 0; AInt 7; AInt 1]); ("b", [AInt 1; AInt 9; AInt 2]); ("e", [AInt 0; AInt 7; AInt 1]);
                 ("e", [AInt 1; AInt 9; AInt 2]); ("b", [AInt 0; AInt 7; AInt 1]); ("b", [AInt 0; AInt 7; AInt 1]);
                 ("e", [AInt 0; AInt 7; AInt 1]); ("e", [AInt 0; AInt 7; AInt 1])]%Z
  = [obs "verdict" [AInt 0; AInt 0; AInt 0]]%Z.
Proof. exact run_footprint_ok. Qed.

Example C05_runner_detects :
  run_footprint [("b", [AInt 0; AInt 7; AInt 1]); ("b", [AInt 0; AInt 8; AInt 1]); ("e", [AInt 0; AInt 8; AInt 1]);
                 ("e", [AInt 0; AInt 7; AInt 1]); ("b", [AInt 1; AInt 9; AInt 1]); ("e", [AInt 1; AInt 9; AInt 1])]%Z
  = [obs "verdict" [AInt 1; AInt 1; AInt 1]]%Z.
Proof. exact run_footprint_bad. Qed.
