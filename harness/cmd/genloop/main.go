// genloop re-reads, on every run, the pieces of the event loop whose logic is a
// pure decision over an event mask or an error value, and emits them as Gallina
// values together with the obligations that they are what Model/Loop.v computes:
//
//   - conn.processIO (connection_linux.go) as a program of Model/LoopPio.v's
//     statement language, the event masks evaluated from the constants of the
//     CURRENT pkg/netpoll and x/sys/unix this tool is linked against; obligation:
//     running that program is Model.process_io for every mask, connection and world;
//   - the sentinel errors that make (*Poller).Polling return, per call site
//     (event callback, queued task), in the default and the poll_opt poller, and the
//     errno values on which epoll_wait is retried; obligation: the sets the model
//     declares and (Proofs/LoopPioSpec.v) proves its `events`/`drain_*` implement;
//   - iovMax and the poller's task/threshold constants.
//
// Anything outside the understood subset is reported as UNTRANSLATABLE (the
// obligation then counts as broken, never as discharged).
//
// usage: genloop -o GenLoop.v <repo root>
package main

import (
	"bytes"
	"flag"
	"fmt"
	"go/ast"
	"go/parser"
	"go/printer"
	"go/token"
	"os"
	"path/filepath"
	"sort"
	"strconv"
	"strings"

	"github.com/panjf2000/gnet/v2/pkg/netpoll"
	"golang.org/x/sys/unix"
)

var consts = map[string]uint64{
	"netpoll.ReadEvents":      netpoll.ReadEvents,
	"netpoll.WriteEvents":     netpoll.WriteEvents,
	"netpoll.ReadWriteEvents": netpoll.ReadWriteEvents,
	"netpoll.ErrEvents":       netpoll.ErrEvents,
	"unix.EPOLLIN":            unix.EPOLLIN,
	"unix.EPOLLPRI":           unix.EPOLLPRI,
	"unix.EPOLLOUT":           unix.EPOLLOUT,
	"unix.EPOLLERR":           unix.EPOLLERR,
	"unix.EPOLLHUP":           unix.EPOLLHUP,
	"unix.EPOLLRDHUP":         unix.EPOLLRDHUP,
}

var fset = token.NewFileSet()

func src(n ast.Node) string {
	var b bytes.Buffer
	printer.Fprint(&b, fset, n)
	return strings.Join(strings.Fields(b.String()), " ")
}

type untr struct{ name, why string }

var untranslatable []untr

func fail(name, why string) { untranslatable = append(untranslatable, untr{name, why}) }

// ---------------------------------------------------------------- processIO

type tctx struct {
	recv, ev, loop string // receiver name, event parameter name, alias of c.loop
	bad            string
}

func (t *tctx) no(n ast.Node, why string) string {
	if t.bad == "" {
		t.bad = why + ": " + src(n)
	}
	return "SRetNil"
}

func (t *tctx) mask(e ast.Expr) (uint64, bool) {
	switch v := e.(type) {
	case *ast.ParenExpr:
		return t.mask(v.X)
	case *ast.BasicLit:
		n, err := strconv.ParseUint(v.Value, 0, 64)
		return n, err == nil
	case *ast.SelectorExpr:
		if id, ok := v.X.(*ast.Ident); ok {
			n, ok := consts[id.Name+"."+v.Sel.Name]
			return n, ok
		}
	case *ast.BinaryExpr:
		if v.Op == token.OR {
			a, ok1 := t.mask(v.X)
			b, ok2 := t.mask(v.Y)
			return a | b, ok1 && ok2
		}
	}
	return 0, false
}

func isZero(e ast.Expr) bool {
	l, ok := e.(*ast.BasicLit)
	return ok && l.Value == "0"
}

func (t *tctx) cond(e ast.Expr) string {
	switch v := e.(type) {
	case *ast.ParenExpr:
		return t.cond(v.X)
	case *ast.SelectorExpr:
		if id, ok := v.X.(*ast.Ident); ok && id.Name == t.recv && v.Sel.Name == "opened" {
			return "COpened"
		}
	case *ast.BinaryExpr:
		switch v.Op {
		case token.LAND:
			return "(CAnd " + t.cond(v.X) + " " + t.cond(v.Y) + ")"
		case token.NEQ, token.EQL:
			if and, ok := v.X.(*ast.BinaryExpr); ok && and.Op == token.AND && isZero(v.Y) {
				if id, ok := and.X.(*ast.Ident); ok && id.Name == t.ev {
					if m, ok := t.mask(and.Y); ok {
						if v.Op == token.NEQ {
							return fmt.Sprintf("(CEvNZ %d)", m)
						}
						return fmt.Sprintf("(CEvZ %d)", m)
					}
				}
			}
		}
	}
	t.no(e, "condition outside the subset")
	return "COpened"
}

// el.write(c) | el.read(c) | el.close(c, io.EOF)
func (t *tctx) call(e ast.Expr) (string, bool) {
	c, ok := e.(*ast.CallExpr)
	if !ok {
		return "", false
	}
	se, ok := c.Fun.(*ast.SelectorExpr)
	if !ok {
		return "", false
	}
	x := src(se.X)
	if x != t.loop && x != t.recv+".loop" {
		return "", false
	}
	if len(c.Args) == 0 || src(c.Args[0]) != t.recv {
		return "", false
	}
	switch se.Sel.Name {
	case "write":
		return "PWrite", len(c.Args) == 1
	case "read":
		return "PRead", len(c.Args) == 1
	case "close":
		if len(c.Args) == 2 {
			switch src(c.Args[1]) {
			case "io.EOF":
				return "(PClose false)", true
			case "nil":
				return "(PClose true)", true
			}
		}
	}
	return "", false
}

func (t *tctx) stmts(l []ast.Stmt) string {
	var out []string
	for _, s := range l {
		if x := t.stmt(s); x != "" {
			out = append(out, x)
		}
	}
	return "[" + strings.Join(out, "; ") + "]"
}

func (t *tctx) stmt(s ast.Stmt) string {
	switch v := s.(type) {
	case *ast.AssignStmt:
		if len(v.Lhs) == 1 && len(v.Rhs) == 1 {
			l, r := src(v.Lhs[0]), src(v.Rhs[0])
			if v.Tok == token.DEFINE && r == t.recv+".loop" && t.loop == "" {
				t.loop = l
				return ""
			}
			if v.Tok == token.ASSIGN && l == t.recv+".isEOF" && r == "true" {
				return "SSetEOF"
			}
		}
	case *ast.ExprStmt:
		if src(v.X) == t.recv+".outboundBuffer.Release()" {
			return "SRelease"
		}
	case *ast.ReturnStmt:
		if len(v.Results) == 1 {
			if src(v.Results[0]) == "nil" {
				return "SRetNil"
			}
			if f, ok := t.call(v.Results[0]); ok {
				return "SRet " + f
			}
		}
	case *ast.IfStmt:
		if v.Else != nil {
			return t.no(s, "if with else")
		}
		if v.Init != nil {
			// if err := f(c); err != nil { return err }
			as, ok := v.Init.(*ast.AssignStmt)
			if ok && as.Tok == token.DEFINE && len(as.Lhs) == 1 && len(as.Rhs) == 1 {
				e := src(as.Lhs[0])
				if f, ok := t.call(as.Rhs[0]); ok && src(v.Cond) == e+" != nil" && len(v.Body.List) == 1 {
					if r, ok := v.Body.List[0].(*ast.ReturnStmt); ok && len(r.Results) == 1 && src(r.Results[0]) == e {
						return "STry " + f
					}
				}
			}
			return t.no(s, "if with an initialiser outside the subset")
		}
		return "SIf " + t.cond(v.Cond) + " " + t.stmts(v.Body.List)
	}
	return t.no(s, "statement outside the subset")
}

func processIO(repo string) string {
	f, err := parser.ParseFile(fset, filepath.Join(repo, "connection_linux.go"), nil, 0)
	if err != nil {
		fail("processIO_is_model", "parse error: "+err.Error())
		return "[]"
	}
	for _, d := range f.Decls {
		fd, ok := d.(*ast.FuncDecl)
		if !ok || fd.Name.Name != "processIO" || fd.Recv == nil || len(fd.Recv.List) != 1 || len(fd.Recv.List[0].Names) != 1 {
			continue
		}
		t := &tctx{recv: fd.Recv.List[0].Names[0].Name}
		var params []string
		for _, p := range fd.Type.Params.List {
			for _, n := range p.Names {
				params = append(params, n.Name)
			}
		}
		if len(params) != 3 {
			fail("processIO_is_model", "unexpected signature")
			return "[]"
		}
		t.ev = params[1]
		if params[0] != "_" || params[2] != "_" {
			// the descriptor and the flags parameter are unused on Linux; a use would be outside the subset
			fail("processIO_is_model", "processIO now uses its fd/flags parameter")
		}
		prog := t.stmts(fd.Body.List)
		if t.bad != "" {
			fail("processIO_is_model", t.bad)
		}
		return prog
	}
	fail("processIO_is_model", "conn.processIO not found in connection_linux.go")
	return "[]"
}

// ---------------------------------------------------------------- Polling

type pollSites struct {
	callback, task [][]string
	retry          []string
	returns        int // return statements in Polling
}

// errors.Is(err, errorx.X) || ...  ->  [X, ...]
func sentinels(e ast.Expr) ([]string, bool) {
	switch v := e.(type) {
	case *ast.ParenExpr:
		return sentinels(v.X)
	case *ast.BinaryExpr:
		if v.Op == token.LOR {
			a, ok1 := sentinels(v.X)
			b, ok2 := sentinels(v.Y)
			return append(a, b...), ok1 && ok2
		}
		if v.Op == token.EQL && src(v.X) == "err" {
			if se, ok := v.Y.(*ast.SelectorExpr); ok {
				return []string{se.Sel.Name}, true
			}
		}
	case *ast.CallExpr:
		if src(v.Fun) == "errors.Is" && len(v.Args) == 2 && src(v.Args[0]) == "err" {
			if se, ok := v.Args[1].(*ast.SelectorExpr); ok {
				return []string{se.Sel.Name}, true
			}
		}
	}
	return nil, false
}

func polling(repo, file, name string) pollSites {
	var ps pollSites
	f, err := parser.ParseFile(fset, filepath.Join(repo, "pkg", "netpoll", file), nil, 0)
	if err != nil {
		fail(name, "parse error: "+err.Error())
		return ps
	}
	var body *ast.BlockStmt
	for _, d := range f.Decls {
		if fd, ok := d.(*ast.FuncDecl); ok && fd.Name.Name == "Polling" && fd.Recv != nil {
			body = fd.Body
		}
	}
	if body == nil {
		fail(name, "Polling not found in "+file)
		return ps
	}
	explained := map[*ast.ReturnStmt]bool{}
	var walk func(l []ast.Stmt)
	walk = func(l []ast.Stmt) {
		for i, s := range l {
			if as, ok := s.(*ast.AssignStmt); ok && len(as.Lhs) >= 1 && len(as.Rhs) == 1 && src(as.Lhs[len(as.Lhs)-1]) == "err" {
				if c, ok := as.Rhs[0].(*ast.CallExpr); ok {
					fn := src(c.Fun)
					kind := ""
					switch {
					case fn == "callback" || strings.HasSuffix(fn, ".Callback"):
						kind = "callback"
					case strings.HasSuffix(fn, ".Exec"):
						kind = "task"
					case strings.HasSuffix(fn, "EpollWait") || fn == "epollWait":
						kind = "wait"
					}
					var set []string
					if kind != "" && kind != "wait" && i+1 < len(l) {
						if is, ok := l[i+1].(*ast.IfStmt); ok && is.Init == nil && is.Else == nil && len(is.Body.List) == 1 {
							if r, ok := is.Body.List[0].(*ast.ReturnStmt); ok && len(r.Results) == 1 && src(r.Results[0]) == "err" {
								if ss, ok := sentinels(is.Cond); ok {
									set = ss
									explained[r] = true
								} else {
									fail(name, "return condition outside the subset: "+src(is.Cond))
								}
							}
						}
					}
					sort.Strings(set)
					switch kind {
					case "callback":
						ps.callback = append(ps.callback, set)
					case "task":
						ps.task = append(ps.task, set)
					case "wait":
						// if n == 0 || (n < 0 && err == unix.EINTR) { ...; continue } else if err != nil { ...; return err }
						if i+1 < len(l) {
							if is, ok := l[i+1].(*ast.IfStmt); ok {
								ast.Inspect(is.Cond, func(n ast.Node) bool {
									if b, ok := n.(*ast.BinaryExpr); ok && b.Op == token.EQL && src(b.X) == "err" {
										if se, ok := b.Y.(*ast.SelectorExpr); ok {
											ps.retry = append(ps.retry, se.Sel.Name)
										}
									}
									return true
								})
								last := is.Body.List[len(is.Body.List)-1]
								if br, ok := last.(*ast.BranchStmt); !ok || br.Tok != token.CONTINUE {
									fail(name, "the retry branch of epoll_wait does not end in continue")
								}
								if ei, ok := is.Else.(*ast.IfStmt); ok && src(ei.Cond) == "err != nil" {
									for _, x := range ei.Body.List {
										if r, ok := x.(*ast.ReturnStmt); ok {
											explained[r] = true
										}
									}
								}
							}
						}
					}
				}
			}
			// recurse into nested blocks
			switch v := s.(type) {
			case *ast.ForStmt:
				walk(v.Body.List)
			case *ast.RangeStmt:
				walk(v.Body.List)
			case *ast.BlockStmt:
				walk(v.List)
			case *ast.IfStmt:
				walk(v.Body.List)
				for e := v.Else; e != nil; {
					switch ev := e.(type) {
					case *ast.BlockStmt:
						walk(ev.List)
						e = nil
					case *ast.IfStmt:
						walk(ev.Body.List)
						e = ev.Else
					default:
						e = nil
					}
				}
			case *ast.SwitchStmt:
				for _, c := range v.Body.List {
					walk(c.(*ast.CaseClause).Body)
				}
			}
		}
	}
	walk(body.List)
	ast.Inspect(body, func(n ast.Node) bool {
		if _, ok := n.(*ast.FuncLit); ok {
			return false
		}
		if r, ok := n.(*ast.ReturnStmt); ok {
			ps.returns++
			if !explained[r] {
				fail(name, "Polling has a return the translator cannot attribute: "+src(r))
			}
		}
		return true
	})
	return ps
}

// ---------------------------------------------------------------- accept

// the errno classification of el.accept / el.accept0: `switch err { case nil: case unix.X, ...: return nil | continue
// default: return errors.ErrAcceptSocket }` -> the tolerated errno names (lower case, sorted)
func acceptClass(repo, fn, name string) (done, retry []string) {
	f, err := parser.ParseFile(fset, filepath.Join(repo, "acceptor_unix.go"), nil, 0)
	if err != nil {
		fail(name, "parse error: "+err.Error())
		return nil, nil
	}
	for _, d := range f.Decls {
		fd, ok := d.(*ast.FuncDecl)
		if !ok || fd.Name.Name != fn || fd.Recv == nil {
			continue
		}
		var sw *ast.SwitchStmt
		ast.Inspect(fd.Body, func(n ast.Node) bool {
			if s, ok := n.(*ast.SwitchStmt); ok && sw == nil && s.Tag != nil && src(s.Tag) == "err" {
				sw = s
			}
			return sw == nil
		})
		if sw == nil {
			fail(name, "no `switch err` in "+fn)
			return nil, nil
		}
		sawDefault := false
		for _, cc := range sw.Body.List {
			c := cc.(*ast.CaseClause)
			last := ""
			if len(c.Body) > 0 {
				last = src(c.Body[len(c.Body)-1])
			}
			if c.List == nil {
				sawDefault = true
				if !strings.HasSuffix(last, "ErrAcceptSocket") || !strings.HasPrefix(last, "return ") {
					fail(name, "default branch of the accept error switch is not `return ErrAcceptSocket`: "+last)
				}
				continue
			}
			for _, v := range c.List {
				x := src(v)
				if x == "nil" {
					if len(c.Body) != 0 {
						fail(name, "case nil has a body")
					}
					continue
				}
				if !strings.HasPrefix(x, "unix.E") {
					fail(name, "case value outside the subset: "+x)
					continue
				}
				switch {
				case last == "return nil":
					done = append(done, strings.ToLower(strings.TrimPrefix(x, "unix.")))
				case last == "continue":
					retry = append(retry, strings.ToLower(strings.TrimPrefix(x, "unix.")))
				case strings.HasPrefix(last, "return ") && strings.HasSuffix(last, "ErrAcceptSocket"):
				default:
					fail(name, "branch outside the subset: "+last)
				}
			}
		}
		if !sawDefault {
			fail(name, "the accept error switch has no default branch")
		}
		sort.Strings(done)
		sort.Strings(retry)
		return done, retry
	}
	fail(name, fn+" not found in acceptor_unix.go")
	return nil, nil
}

// every mention of an errno constant (unix.E*, not the EPOLL* masks) in the loop's I/O code, per function
func errnoSites(repo string, files []string) [][2]string {
	var out [][2]string
	for _, file := range files {
		f, err := parser.ParseFile(fset, filepath.Join(repo, file), nil, 0)
		if err != nil {
			fail("errno_sites_as_modelled", "parse error: "+err.Error())
			continue
		}
		for _, d := range f.Decls {
			fd, ok := d.(*ast.FuncDecl)
			if !ok || fd.Body == nil {
				continue
			}
			name := fd.Name.Name
			if fd.Recv != nil && len(fd.Recv.List) == 1 {
				name = strings.TrimPrefix(src(fd.Recv.List[0].Type), "*") + "." + name
			}
			ast.Inspect(fd.Body, func(n ast.Node) bool {
				if se, ok := n.(*ast.SelectorExpr); ok {
					if id, ok := se.X.(*ast.Ident); ok && id.Name == "unix" && strings.HasPrefix(se.Sel.Name, "E") &&
						!strings.HasPrefix(se.Sel.Name, "EPOLL") && strings.ToUpper(se.Sel.Name) == se.Sel.Name {
						out = append(out, [2]string{name, strings.ToLower(se.Sel.Name)})
					}
				}
				return true
			})
		}
	}
	return out
}


// every request the library queues on a poller, with the priority it asks for: (file, function, priority)
func triggerSites(repo string, files []string) [][3]string {
	var out [][3]string
	for _, file := range files {
		f, err := parser.ParseFile(fset, filepath.Join(repo, file), nil, 0)
		if err != nil {
			fail("trigger_priorities_as_modelled", "parse error: "+err.Error())
			continue
		}
		for _, d := range f.Decls {
			fd, ok := d.(*ast.FuncDecl)
			if !ok || fd.Body == nil {
				continue
			}
			name := fd.Name.Name
			if fd.Recv != nil && len(fd.Recv.List) == 1 {
				name = strings.TrimPrefix(src(fd.Recv.List[0].Type), "*") + "." + name
			}
			ast.Inspect(fd.Body, func(n ast.Node) bool {
				c, ok := n.(*ast.CallExpr)
				if !ok {
					return true
				}
				se, ok := c.Fun.(*ast.SelectorExpr)
				if !ok || se.Sel.Name != "Trigger" || len(c.Args) == 0 {
					return true
				}
				prio := "?"
				if a, ok := c.Args[0].(*ast.SelectorExpr); ok && src(a.X) == "queue" {
					prio = a.Sel.Name
				}
				out = append(out, [3]string{file, name, prio})
				return true
			})
		}
	}
	return out
}

// ---------------------------------------------------------------- constants

func intConst(repo, file, name string) (int64, bool) {
	f, err := parser.ParseFile(fset, filepath.Join(repo, file), nil, 0)
	if err != nil {
		return 0, false
	}
	for _, d := range f.Decls {
		gd, ok := d.(*ast.GenDecl)
		if !ok || gd.Tok != token.CONST {
			continue
		}
		for _, sp := range gd.Specs {
			vs := sp.(*ast.ValueSpec)
			for i, n := range vs.Names {
				if n.Name == name && i < len(vs.Values) {
					if l, ok := vs.Values[i].(*ast.BasicLit); ok {
						v, err := strconv.ParseInt(l.Value, 0, 64)
						return v, err == nil
					}
				}
			}
		}
	}
	return 0, false
}

func coqStrs(l []string) string {
	q := make([]string, len(l))
	for i, s := range l {
		q[i] = `"` + s + `"`
	}
	return "[" + strings.Join(q, "; ") + "]"
}

func coqStrss(l [][]string) string {
	q := make([]string, len(l))
	for i, s := range l {
		q[i] = coqStrs(s)
	}
	return "[" + strings.Join(q, "; ") + "]"
}

func main() {
	out := flag.String("o", "GenLoop.v", "")
	flag.Parse()
	if flag.NArg() != 1 {
		fmt.Fprintln(os.Stderr, "usage: genloop -o out.v <repo>")
		os.Exit(2)
	}
	repo := flag.Arg(0)
	prog := processIO(repo)
	pd := polling(repo, "poller_epoll_default.go", "polling_default_sentinels")
	pu := polling(repo, "poller_epoll_ultimate.go", "polling_ultimate_sentinels")
	// el.accept serves a level-triggered listener (returning is enough); el.accept0 an edge-triggered one
	// (it must go on accepting after a transient failure)
	accDone, accRetry := acceptClass(repo, "accept", "accept_errors_as_modelled")
	acc0Done, acc0Retry := acceptClass(repo, "accept0", "accept_errors_as_modelled")
	iov, ok := intConst(repo, "eventloop_unix.go", "iovMax")
	if !ok {
		fail("iov_max_as_modelled", "const iovMax not found as an integer literal in eventloop_unix.go")
	}

	var b strings.Builder
	b.WriteString("(* generated by genloop from connection_linux.go, eventloop_unix.go and pkg/netpoll of the current tree; do not edit *)\n")
	b.WriteString("From GV Require Import Model.LoopPio Proofs.LoopPioSpec.\nFrom Coq Require Import Bool.\nOpen Scope string_scope.\nOpen Scope list_scope.\nOpen Scope Z_scope.\n\n")
	for _, u := range untranslatable {
		b.WriteString("(* UNTRANSLATABLE " + u.name + ": " + strings.ReplaceAll(u.why, "*)", "* )") + " *)\n")
	}
	fmt.Fprintf(&b, "\nDefinition gen_ReadEvents : Z := %d.\nDefinition gen_WriteEvents : Z := %d.\nDefinition gen_ErrEvents : Z := %d.\n",
		uint64(netpoll.ReadEvents), uint64(netpoll.WriteEvents), uint64(netpoll.ErrEvents))
	fmt.Fprintf(&b, "Definition gen_EPOLLIN : Z := %d.\nDefinition gen_EPOLLRDHUP : Z := %d.\n", uint64(unix.EPOLLIN), uint64(unix.EPOLLRDHUP))
	fmt.Fprintf(&b, "Definition gen_MaxAsyncTasksAtOneTime : Z := %d.\nDefinition gen_MaxPollEventsCap : Z := %d.\nDefinition gen_iovMax : Z := %d.\n\n",
		netpoll.MaxAsyncTasksAtOneTime, netpoll.MaxPollEventsCap, iov)
	b.WriteString("Lemma event_masks_as_modelled :\n  (gen_ReadEvents, gen_WriteEvents, gen_ErrEvents, gen_EPOLLIN, gen_EPOLLRDHUP) = (EV_IN + EV_PRI, EV_OUT, EV_ERR + EV_HUP, EV_IN, EV_RDHUP).\nProof. vm_compute. reflexivity. Qed.\n\n")
	b.WriteString("Lemma iov_max_as_modelled : gen_iovMax = Z.of_nat iov_max.\nProof. vm_compute. reflexivity. Qed.\n\n")
	b.WriteString("Lemma poller_constants_as_modelled : (gen_MaxPollEventsCap, gen_MaxAsyncTasksAtOneTime) = (default_thr, default_maxlow).\nProof. vm_compute. reflexivity. Qed.\n\n")
	b.WriteString("(* conn.processIO of the current tree *)\nDefinition gen_processIO : list pstmt :=\n  " + prog + ".\n\n")
	b.WriteString("Lemma processIO_is_model : forall fuel cid ev w, pio_run fuel gen_processIO cid ev w = process_io fuel cid ev w.\nProof. intros fuel cid ev w. unfold gen_processIO. pio_equiv. Qed.\n\n")
	for _, x := range []struct {
		n  string
		ps pollSites
	}{{"default", pd}, {"ultimate", pu}} {
		fmt.Fprintf(&b, "Definition gen_%s_callback_sites : list (list string) := %s.\n", x.n, coqStrss(x.ps.callback))
		fmt.Fprintf(&b, "Definition gen_%s_task_sites : list (list string) := %s.\n", x.n, coqStrss(x.ps.task))
		fmt.Fprintf(&b, "Definition gen_%s_wait_retry : list string := %s.\n", x.n, coqStrs(x.ps.retry))
		fmt.Fprintf(&b, "Lemma polling_%s_sentinels :\n  gen_%s_callback_sites = [polling_callback_sentinels] /\\ gen_%s_task_sites = [polling_task_sentinels; polling_task_sentinels] /\\ gen_%s_wait_retry = polling_wait_retry.\nProof. vm_compute. repeat split; reflexivity. Qed.\n\n", x.n, x.n, x.n, x.n)
	}
	fmt.Fprintf(&b, "Definition gen_accept_done : list string := %s.\nDefinition gen_accept_retry : list string := %s.\n", coqStrs(accDone), coqStrs(accRetry))
	fmt.Fprintf(&b, "Definition gen_accept0_done : list string := %s.\nDefinition gen_accept0_retry : list string := %s.\n", coqStrs(acc0Done), coqStrs(acc0Retry))
	b.WriteString("Lemma accept_errors_as_modelled :\n  gen_accept_done = accept_tolerated /\\ gen_accept_retry = [] /\\ gen_accept0_done = accept0_done /\\ gen_accept0_retry = accept0_retry.\nProof. vm_compute. repeat split; reflexivity. Qed.\n")
	sites := errnoSites(repo, []string{"eventloop_unix.go", "connection_unix.go", "connection_linux.go"})
	var ss []string
	for _, x := range sites {
		ss = append(ss, fmt.Sprintf("(%q, %q)", x[0], x[1]))
	}
	fmt.Fprintf(&b, "\nDefinition gen_errno_sites : list (string * string) := [%s].\n", strings.Join(ss, "; "))
	b.WriteString("Lemma errno_sites_as_modelled : gen_errno_sites = errno_sites.\nProof. vm_compute. reflexivity. Qed.\n")
	trig := triggerSites(repo, []string{"connection_unix.go", "eventloop_unix.go", "acceptor_unix.go", "client_unix.go"})
	var ts []string
	for _, x := range trig {
		ts = append(ts, fmt.Sprintf("(%q, %q, %q)", x[0], x[1], x[2]))
	}
	fmt.Fprintf(&b, "\nDefinition gen_trigger_priorities : list (string * string * string) := [\n  %s].\n", strings.Join(ts, ";\n  "))
	b.WriteString("Lemma trigger_priorities_as_modelled : gen_trigger_priorities = trigger_priorities.\nProof. vm_compute. reflexivity. Qed.\n")
	if err := os.WriteFile(*out, []byte(b.String()), 0o644); err != nil {
		fmt.Fprintln(os.Stderr, err)
		os.Exit(2)
	}
	fmt.Printf("genloop: processIO translated (%d bytes), polling sites default %d/%d ultimate %d/%d, %d untranslatable\n",
		len(prog), len(pd.callback), len(pd.task), len(pu.callback), len(pu.task), len(untranslatable))
}
