CHECK = dict(
    engine="registry", design_ref="4 / C14, Appendix A.3",
    text="Both registries refine a finite map fd -> connection for every finite sequence of registrations, removals and "
         "iterations: map variant for every visitor; matrix variant parametric in ROW>0, COL>1 via the dense-prefix "
         "invariant matrix_inv (relocation invisible, counts exact, rows released iff empty), read-only and shutdown "
         "iterations visit every live connection once and shutdown leaves a state indistinguishable from init. "
         "The unrestricted matrix statement is refuted (iterate that removes some connections, then addConn overwrites live "
         "entries: known finding partial-iterate-clobber) and kept as a Definition next to the _partial theorem. "
         "Differential runs of the real connMatrix in both build variants against the extracted model + Go-map oracle.",
    note="Partial: matrix theorem restricted to iterations whose visitor removes all visited connections or none. "
         "Assumes API preconditions (no duplicate registration, no removal of unregistered connections), population < ROW*COL, "
         "no int32 wrap; the model reads a row released during its own traversal as empty (exact whenever counts are exact).",
    technique="Coq refinement proof (invariant + simulation per operation, induction over op lists) + differential traces, two build variants",
)
ENGINE = dict(name="registry", path="coq/Model/Registry.v", serves_properties=["C14"],
              kind_free_text="Gallina model of conn_map.go and conn_matrix.go (parametric ROW x COL) + Spec/FinMap.v + drv-registry (map and gc_opt builds)")
