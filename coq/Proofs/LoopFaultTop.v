(* C18, part 4: the top-level procedures (el_read, el_open, el_register0, el_wake,
   process_io, el_read_udp, el_accept, dispatch, run_task, the queues, events,
   close_conns, polling) preserve the fault invariant; the theorem. *)
From GV Require Import Lib.Trace Model.Loop Spec.LoopSpec
  Proofs.LoopFaultBase Proofs.LoopFaultRel Proofs.LoopFaultProcs.
From Coq Require Import Lia.
Open Scope string_scope.
Open Scope list_scope.
Open Scope Z_scope.

Definition T := R0 [].

Lemma good_T : good T.
Proof. apply good_R0. Qed.

Lemma Inv_cb_traffic : forall L cid w,
  Inv (R0 L) w -> Inv (R0 L) (emit (obs "cb" [ASym "traffic"; AInt cid]) w).
Proof.
  intros L cid w H. eapply Inv_emit; [exact H|reflexivity|].
  intros c _ Hc. exists c. split; [|exact Hc].
  destruct Hc as [E1 [_ [_ [[E4|[x [Ex _]]] _]]]]; [|discriminate].
  cbn. rewrite E1, E4. reflexivity.
Qed.

Lemma wc_wsetc_same : forall w cid c, wc (wsetc w cid c) cid = c.
Proof. intros. unfold wc, wsetc. cbn [with_st st]. apply getc_setc_same. Qed.

Lemma is_eagain_err : is_eagain "err" = false.
Proof. reflexivity. Qed.

Lemma read_ok : forall f cid recv w r w',
  Inv T w -> (recv = 0 \/ c_opened (wc w cid) = true) ->
  el_read f cid recv w = (r, w') -> Inv T w'.
Proof.
  induction f as [|f IH]; intros cid recv w r w' H Hpre He; cbn [el_read] in He.
  { inversion He; subst. eapply Inv_any_desync; exact H. }
  destruct (negb (c_opened (wc w cid)) && (recv =? 0)) eqn:Hg; [inversion He; subst; exact H|].
  assert (Ho : c_opened (wc w cid) = true).
  { destruct (c_opened (wc w cid)); auto. destruct Hpre as [->|Hp]; [discriminate|exact Hp]. }
  clear Hg Hpre.
  destruct (sys "read" [AInt (c_fd (wc w cid)); AInt (l_bufcap (st w))] w) as [k w1] eqn:Hs.
  destruct (Inv_sys_read [] (Popen cid) (pstable_Popen [] cid) _ _ _ _ _
              (Inv_assert_open _ _ _ H Ho) Hs) as [[n [rest [-> H1]]]|[-> Ha]];
    [|inversion He; subst; apply Any_Inv; exact Ha].
  assert (Hfatal : forall rr ww, ((n =? 0) || ((n <? 0) && negb (is_eagain_arg rest))) = true ->
            el_close (S f) cid false (ghost "fail" cid [] w1) = (rr, ww) -> Inv T ww).
  { intros rr ww Hf Hc. eapply (b_close _ (block (S f))); [|right; split; reflexivity|exact Hc].
    apply Inv_fail_open. eapply Inv_read_fail; eauto. }
  unfold kres_of in He. destruct (n <? 0) eqn:Hn.
  - assert (Hn0 : (n =? 0) = false) by lia.
    destruct rest as [|[z|b|e] rest']; try (rewrite is_eagain_err in He; eapply Hfatal; [|exact He]; rewrite Hn0; reflexivity).
    destruct (is_eagain e) eqn:Hee.
    + inversion He; subst. apply (Rel_P_drop _ _ _ (Popen cid)).
      eapply Inv_read_ok; [|exact H1]. rewrite Hn0, Hn. cbn [is_eagain_arg]. unfold is_eagain in Hee. rewrite Hee. reflexivity.
    + eapply Hfatal; [|exact He]. rewrite Hn0. cbn [is_eagain_arg]. unfold is_eagain in Hee. rewrite Hee. reflexivity.
  - destruct (n =? 0) eqn:Hn0; [eapply Hfatal; [|exact He]; reflexivity|].
    assert (H2 : Inv T w1).
    { apply (Rel_P_drop _ _ _ (Popen cid)). eapply Inv_read_ok; [|exact H1]. rewrite Hn0, Hn. reflexivity. }
    match type of He with (if ?b then _ else _) = _ => destruct b end;
      [inversion He; subst; eapply Inv_any_desync; exact H2|].
    match type of He with context [handler (S f) cid ?ww] =>
      destruct (handler (S f) cid ww) as [[act rep] w4] eqn:Hh;
      assert (H4 : Inv T w4) end.
    { eapply (b_h _ (block (S f))); [|exact Hh]. apply Inv_cb_traffic.
      apply Inv_setc_data0; [|ss].
      apply good_ghost; [apply good_T|discriminate|discriminate|discriminate|exact H2]. }
    destruct act.
    + destruct (c_opened (wc w4 cid)) eqn:Ho4; cbn [negb] in He; [|inversion He; subst; exact H4].
      match type of He with context [wsetc w4 cid ?c5] => set (w5 := wsetc w4 cid c5) in * end.
      assert (H5 : Inv T w5) by (apply Inv_setc_data0; [exact H4|ss]).
      match type of He with (if ?b then _ else _) = _ => destruct b end.
      * eapply IH; [exact H5| |exact He]. right. unfold w5. rewrite wc_wsetc_same. exact Ho4.
      * match type of He with (if ?b then _ else _) = _ => destruct b end;
          [|inversion He; subst; exact H5].
        eapply Inv_trigger; [| |exact He]; [|right; right; eauto].
        apply good_ghost; [apply good_T|discriminate|discriminate|discriminate|exact H5].
    + eapply (b_close _ (block (S f))); [exact H4|left; reflexivity|exact He].
    + inversion He; subst; exact H4.
Qed.

Lemma close_ok0 : forall fuel cid e w r w', Inv T w -> el_close fuel cid e w = (r, w') -> Inv T w'.
Proof. intros. eapply (b_close _ (block fuel)); [exact H|left; reflexivity|exact H0]. Qed.

(* ------------------------------------------------------------------ *)
(* el.open: the reply loop, named *)

Section OpenLoop.
Variable cid : Z.
Fixpoint open_loop (k : nat) (data : list Z) (w : world) : bool * world :=
  match k with
  | O => (false, desync "fuel" w)
  | S k' =>
    match data with
    | [] =>
      match sys_wr cid (c_fd (wc w cid)) [] true w with
      | (KErr e, w') => if is_eagain e then (true, w') else (false, w')
      | (_, w') => (true, w')
      end
    | _ =>
      match sys_wr cid (c_fd (wc w cid)) data true w with
      | (KErr e, w') =>
          if is_eagain e then
            let c' := wc w' cid in (true, wsetc w' cid (c_set_out c' (c_out c' ++ data)))
          else (false, w')
      | (KOk n _, w') =>
          match zdrop n data with
          | [] => (true, w')
          | rest => open_loop k' rest w'
          end
      | (KNone, w') => (true, w')
      end
    end
  end.
End OpenLoop.

Lemma open_loop_ok : forall cid k data w ok w',
  Inv (Rel [] false None (Popen cid)) w -> open_loop cid k data w = (ok, w') ->
  Inv (Rel [] false (if ok then None else Some cid) PT) w'.
Proof.
  intros cid. induction k as [|k IH]; intros data w ok w' H He; cbn [open_loop] in He.
  { inversion He; subst. eapply Inv_any_desync; exact H. }
  assert (Hwr : forall src kk ww, sys_wr cid (c_fd (wc w cid)) src true w = (kk, ww) ->
            match kk with
            | KNone => AnyInv ww
            | KOk _ _ => Inv (Rel [] false None (Popen cid)) ww
            | KErr e => if is_eagain e then Inv (Rel [] false None (Popen cid)) ww
                        else Inv (Rel [] false (Some cid) PT) ww
            end).
  { intros src kk ww Hs.
    pose proof (Inv_sys_wr [] false (Popen cid) (pstable_Popen [] cid) _ _ _ _ _ _ _ H Hs) as H1.
    destruct kk as [n extra|e|]; auto.
    destruct (is_eagain e); auto. apply Inv_fail_open; exact H1. }
  destruct data as [|b data].
  - destruct (sys_wr cid (c_fd (wc w cid)) [] true w) as [kk ww] eqn:Hs.
    specialize (Hwr _ _ _ Hs). destruct kk as [n extra|e|].
    + inversion He; subst. exact (Rel_P_drop _ _ _ _ _ Hwr).
    + destruct (is_eagain e); inversion He; subst; [exact (Rel_P_drop _ _ _ _ _ Hwr)|exact Hwr].
    + inversion He; subst. apply Any_Inv; exact Hwr.
  - destruct (sys_wr cid (c_fd (wc w cid)) (b :: data) true w) as [kk ww] eqn:Hs.
    specialize (Hwr _ _ _ Hs). destruct kk as [n extra|e|].
    + destruct (zdrop n (b :: data)) eqn:Hz; [inversion He; subst; exact (Rel_P_drop _ _ _ _ _ Hwr)|].
      eapply IH; [exact Hwr|exact He].
    + destruct (is_eagain e); inversion He; subst; [|exact Hwr].
      apply Inv_setc_data0; [exact (Rel_P_drop _ _ _ _ _ Hwr)|ss].
    + inversion He; subst. apply Any_Inv; exact Hwr.
Qed.

(* the part of el.open after the connection has been marked open and announced *)
Definition open_rest (fuel : nat) (cid : Z) (w2 : world) : res * world :=
  let '(act, reply, w3) := handler fuel cid w2 in
  if negb (c_opened (wc w3 cid)) then
    match act with AShutdown => (RShutdown, w3) | _ => (RNil, w3) end
  else
  let '(ok, w4) :=
    match reply with
    | None => (true, w3)
    | Some data =>
      let c3 := wc w3 cid in
      let w3 := if c_udp c3 then w3 else ghost "sub" cid data w3 in
      if c_udp c3 && negb (c_remote c3) then
        match sys "sendto" [AInt (c_fd c3); ABytes data; bool_arg false] w3 with
        | (KErr _, w') => (false, w')
        | (_, w') => (true, w')
        end
      else if (match c_out c3 with [] => false | _ => true end) then
        (true, wsetc w3 cid (c_set_out c3 (c_out c3 ++ data)))
      else open_loop cid (S (List.length (inp w3))) data w3
    end in
  if negb ok then el_close fuel cid false w4
  else
    let c4 := wc w4 cid in
    let '(r5, w5) :=
      match c_out c4 with
      | _ :: _ => if l_et (st w4) then (RNil, w4) else epctl "mod" (c_fd c4) true false w4
      | [] => (RNil, w4)
      end in
    match r5 with
    | RNil =>
      match act with
      | ANone => (RNil, w5)
      | AClose => el_close fuel cid true w5
      | AShutdown => (RShutdown, w5)
      end
    | _ => el_close fuel cid false w5
    end.

Lemma el_open_eq : forall fuel cid w,
  el_open fuel cid w =
  open_rest fuel cid (emit (obs "cb" [ASym "open"; AInt cid]) (wsetc w cid (c_set_opened (wc w cid) true))).
Proof. reflexivity. Qed.

Lemma open_rest_ok : forall fuel cid w2 r w',
  Inv T w2 -> open_rest fuel cid w2 = (r, w') -> Inv T w'.
Proof.
  intros fuel cid w2 r w' H2 He. unfold open_rest in He.
  destruct (handler fuel cid w2) as [[act reply] w3] eqn:Hh.
  pose proof (b_h _ (block fuel) _ _ _ _ _ H2 Hh) as H3.
  destruct (c_opened (wc w3 cid)) eqn:Ho3; cbn [negb] in He;
    [|destruct act; inversion He; subst; exact H3].
  match type of He with (let '(_, _) := ?X in _) = _ => destruct X as [ok w4] eqn:Hrep end.
  assert (H4 : Inv (Rel [] false (if ok then None else Some cid) PT) w4).
  { destruct reply as [data|]; [|inversion Hrep; subst; exact H3].
    cbv zeta in Hrep.
    match type of Hrep with context [sys "sendto" _ ?ww] => set (w3' := ww) in * end.
    assert (H3' : Inv T w3' /\ wc w3' cid = wc w3 cid).
    { unfold w3'. destruct (c_udp (wc w3 cid)); [auto|]. split.
      - apply good_ghost; [apply good_T|discriminate|discriminate|discriminate|exact H3].
      - unfold wc. rewrite st_ghost. reflexivity. }
    destruct H3' as [H3' Hwc].
    destruct (c_udp (wc w3 cid) && negb (c_remote (wc w3 cid))).
    - destruct (sys "sendto" [AInt (c_fd (wc w3 cid)); ABytes data; bool_arg false] w3') as [k ww] eqn:Hs.
      assert (Inv T ww) by (eapply good_sys; [apply good_T| |exact H3'|exact Hs]; plain_sys_tac).
      destruct k; inversion Hrep; subst; try assumption. apply Rel_dm_drop; assumption.
    - destruct (match c_out (wc w3 cid) with [] => false | _ :: _ => true end).
      + inversion Hrep; subst. apply Inv_setc_data0; [exact H3'|]. rewrite <- Hwc. ss.
      + eapply open_loop_ok; [|exact Hrep]. apply Inv_assert_open; [exact H3'|]. rewrite Hwc; exact Ho3. }
  destruct ok; cbn [negb] in He;
    [|eapply (b_close _ (block fuel)); [exact H4|right; split; reflexivity|exact He]].
  match type of He with (let '(_, _) := ?X in _) = _ => destruct X as [r5 w5] eqn:H5e end.
  assert (H5 : Inv T w5).
  { destruct (c_out (wc w4 cid)); [inversion H5e; subst; exact H4|].
    destruct (l_et (st w4)); [inversion H5e; subst; exact H4|].
    eapply good_epctl; [apply good_T|exact H4|exact H5e]. }
  destruct r5; try (eapply close_ok0; [exact H5|exact He]).
  destruct act; try (inversion He; subst; exact H5).
  eapply close_ok0; [exact H5|exact He].
Qed.

(* ------------------------------------------------------------------ *)
(* el.register0 *)

Definition Pre0 (cid : Z) : list Z -> lstate -> Prop := fun C s =>
  cid < l_next s /\ c_opened (getc s cid) = false /\ zmem cid C = false /\ ~ In cid (regs (tasks s)).

Definition Pre1 (cid : Z) (c0 : conn) : list Z -> lstate -> Prop := fun C s =>
  Pre0 cid C s /\ getc s cid = c0 /\ alookup (c_fd c0) (l_reg s) = None.

Lemma ext_proj : forall s b t,
  l_next (ext s b t) = l_next s /\ l_reg (ext s b t) = l_reg s /\
  (forall x, getc (ext s b t) x = getc s x) /\
  (forall x, In x (regs (tasks (ext s b t))) <-> In x (regs (tasks s)) \/ In x (regs [t])).
Proof.
  intros s b t. unfold ext.
  assert (E : tasks (set_flag (enqueue s b t) true) = tasks (enqueue s b t)) by reflexivity.
  rewrite E. split; [|split; [|split]].
  - unfold set_flag, enqueue. destruct (b && _); reflexivity.
  - unfold set_flag, enqueue. destruct (b && _); reflexivity.
  - intros x. unfold set_flag, enqueue. destruct (b && _); reflexivity.
  - intros x. apply regs_enqueue_perm.
Qed.

Lemma pstable_Pre1 : forall cid c0, pstable [] (Pre1 cid c0).
Proof.
  intros cid c0 C s l s' HR [[P1 [P2 [P3 P4]]] [P5 P6]] Ha.
  apply apply_async_cases in Ha.
  destruct Ha as [[b [t [Hb ->]]]|[b [cb [c [Hc ->]]]]].
  - destruct (ext_proj s b t) as [E1 [E2 [E3 E4]]].
    unfold Pre1, Pre0. rewrite E1, E2, !E3. repeat split; auto.
    intros Hin. apply E4 in Hin. destruct Hin as [Hin|Hin]; [auto|].
    destruct (benign_ok C s t Hb) as [_ Hr]. rewrite Hr in Hin. destruct Hin.
  - set (s1 := set_next (setc s (l_next s) c) (l_next s + 1)).
    destruct (ext_proj s1 b (TRegister (l_next s) cb)) as [E1 [E2 [E3 E4]]].
    assert (G : getc s1 cid = getc s cid).
    { unfold s1. change (getc (set_next ?a ?b) ?x) with (getc a x). apply getc_setc_other. lia. }
    unfold Pre1, Pre0. rewrite E1, E2, !E3, G. change (l_next s1) with (l_next s + 1).
    change (l_reg s1) with (l_reg s). repeat split; auto; try lia.
    intros Hin. apply E4 in Hin. change (tasks s1) with (tasks s) in Hin.
    destruct Hin as [Hin|[Hin|[]]]; [auto|lia].
Qed.

Lemma register_ok : forall fuel cid w r w',
  Inv (Rel [] false None (Pre0 cid)) w -> el_register0 fuel cid w = (r, w') -> Inv T w'.
Proof.
  intros fuel cid w r w' H He. unfold el_register0 in He.
  set (c0 := wc w cid) in *.
  destruct (fd_in_use (st w) (c_fd c0)) eqn:Hfd.
  { inversion He; subst. eapply Inv_any_desync; exact H. }
  assert (Hnone : alookup (c_fd c0) (l_reg (st w)) = None).
  { unfold fd_in_use in Hfd. destruct (alookup (c_fd c0) (l_reg (st w))); [discriminate|reflexivity]. }
  assert (H1 : Inv (Rel [] false None (Pre1 cid c0)) w).
  { eapply Inv_weaken; [exact H|]. intros c _ Hc. eapply Rel_P_weaken; [exact Hc|].
    intros _ Hp. split; [exact Hp|split; [reflexivity|exact Hnone]]. }
  destruct (epctl "add" (c_fd c0) (l_et (st w)) (l_et (st w)) w) as [r1 w1] eqn:He1.
  pose proof (good_epctl _ _ _ _ _ _ _ _ (good_Rel [] false None _ (pstable_Pre1 cid c0)) H1 He1) as H2.
  assert (Hfail : forall k w2, sys "close" [AInt (c_fd c0)] w1 = (k, w2) ->
            Inv T (wsetc w2 cid (c_release (wc w2 cid)))).
  { intros k w2 Hs.
    assert (Inv (Rel [] false None (Pre1 cid c0)) w2).
    { eapply good_sys; [apply good_Rel; apply pstable_Pre1| |exact H2|exact Hs]. plain_sys_tac. }
    eapply Inv_wsetc; [exact H0|]. intros c Hc. eapply Rel_state; [exact Hc| |intros; exact I].
    intros HR. eapply RS_release; [exact HR| |]; auto. }
  destruct r1.
  - set (w2 := with_st w1 (set_reg (st w1) (aset (c_fd c0) cid (l_reg (st w1))))) in *.
    destruct (c_udp c0 && c_remote c0) eqn:Hur.
    + inversion He; subst. eapply Inv_with_st; [exact H2|].
      intros c _ Hc. eapply Rel_state; [exact Hc| |intros; exact I].
      intros HR. destruct Hc as [_ [_ [_ [_ [[P1 _] [P5 P6]]]]]].
      apply RS_register_only; auto. rewrite P5; reflexivity.
    + rewrite el_open_eq in He.
      eapply open_rest_ok; [|exact He].
      apply good_emit; [apply good_T|plain_tac|].
      eapply (Inv_world _ _ w1); [exact H2|reflexivity|reflexivity|].
      intros c _ Hc. eapply Rel_state; [exact Hc| |intros; exact I].
      intros HR. destruct Hc as [_ [_ [_ [_ [[P1 [P2 [P3 P4]]] [P5 P6]]]]]].
      unfold wsetc, wc, w2. cbn [with_st st].
      change (getc (set_reg ?a ?b) cid) with (getc a cid).
      apply RS_register_open; auto; rewrite P5; auto.
      intros Hu Hr. rewrite Hu, Hr in Hur. discriminate.
  - destruct (sys "close" [AInt (c_fd c0)] w1) as [k w2] eqn:Hs. inversion He; subst. eapply Hfail; eauto.
  - destruct (sys "close" [AInt (c_fd c0)] w1) as [k w2] eqn:Hs. inversion He; subst. eapply Hfail; eauto.
  - destruct (sys "close" [AInt (c_fd c0)] w1) as [k w2] eqn:Hs. inversion He; subst. eapply Hfail; eauto.
Qed.

(* ------------------------------------------------------------------ *)
(* wake, processIO, UDP, accept, dispatch *)

Lemma wake_ok : forall fuel cid w r w', Inv T w -> el_wake fuel cid w = (r, w') -> Inv T w'.
Proof.
  intros fuel cid w r w' H He. unfold el_wake in He.
  match type of He with (if ?b then _ else _) = _ => destruct b end; [inversion He; subst; exact H|].
  match type of He with context [handler fuel cid ?ww] =>
    destruct (handler fuel cid ww) as [[act rep] w2] eqn:Hh;
    assert (H2 : Inv T w2) by (eapply (b_h _ (block fuel)); [|exact Hh]; apply Inv_cb_traffic; exact H) end.
  destruct act; try (inversion He; subst; exact H2).
  eapply (b_close _ (block fuel)); [exact H2|left; reflexivity|exact He].
Qed.

Lemma close_ok : forall fuel cid e w r w', Inv T w -> el_close fuel cid e w = (r, w') -> Inv T w'.
Proof. intros. eapply (b_close _ (block fuel)); [exact H|left; reflexivity|exact H0]. Qed.

Lemma write_ok : forall fuel cid sent w r w', Inv T w -> el_write fuel cid sent w = (r, w') -> Inv T w'.
Proof. intros. eapply (b_w _ (block fuel)); eauto. Qed.

Lemma process_io_ok : forall fuel cid ev w r w', Inv T w -> process_io fuel cid ev w = (r, w') -> Inv T w'.
Proof.
  intros fuel cid ev w r w' H He. unfold process_io in He.
  match type of He with (if ?b then _ else _) = _ => destruct b end.
  { eapply close_ok; [|exact He]. apply Inv_setc_data0; [exact H|ss]. }
  match type of He with (let '(_, _) := ?X in _) = _ => destruct X as [r1 w1] eqn:E1 end.
  assert (H1 : Inv T w1).
  { destruct (has ev (EV_OUT + EV_ERR + EV_HUP)); [eapply write_ok; eauto|inversion E1; subst; exact H]. }
  destruct r1; try (inversion He; subst; exact H1).
  match type of He with (let '(_, _) := ?X in _) = _ => destruct X as [r2 w2] eqn:E2 end.
  assert (H2 : Inv T w2).
  { destruct (has ev (EV_IN + EV_PRI + EV_ERR + EV_HUP)); [|inversion E2; subst; exact H1].
    eapply read_ok; [exact H1|left; reflexivity|exact E2]. }
  destruct r2; try (inversion He; subst; exact H2).
  destruct (has ev EV_RDHUP && c_opened (wc w2 cid)); [|inversion He; subst; exact H2].
  destruct (negb (has ev EV_IN)).
  - eapply close_ok; eauto.
  - eapply read_ok; [|left; reflexivity|exact He]. apply Inv_setc_data0; [exact H2|ss].
Qed.

Lemma Inv_new_conn : forall w c,
  Inv T w -> c_opened c = false ->
  Inv (Rel [] false None (Pre0 (l_next (st w))))
      (with_st w (set_next (setc (st w) (l_next (st w)) c) (l_next (st w) + 1))).
Proof.
  intros w c H Hc. eapply Inv_with_st; [exact H|].
  intros cs _ Hcs. eapply Rel_state; [exact Hcs| |].
  - intros HR. apply RS_new_conn; auto.
  - intros HR _. unfold Pre0. change (l_next (set_next ?a ?b)) with b.
    change (getc (set_next ?a ?b) ?x) with (getc a x). rewrite getc_setc_same.
    change (tasks (set_next (setc ?a ?b ?c) ?d)) with (tasks a).
    split; [lia|split; [exact Hc|split]].
    + destruct (zmem (l_next (st w)) (ft_closed cs)) eqn:E; auto.
      apply (rs_closed_lt _ _ _ HR) in E. lia.
    + intros Hin. apply in_regs in Hin. destruct Hin as [cb Hin].
      apply (rs_tasks _ _ _ HR) in Hin. cbn [task_ok] in Hin. lia.
Qed.

Lemma Pre0_drop : forall cid w, Inv (Rel [] false None (Pre0 cid)) w -> Inv T w.
Proof. intros. exact (Rel_P_drop _ _ _ _ _ H). Qed.

Lemma read_udp_ok : forall fuel fd lst w r w', Inv T w -> el_read_udp fuel fd lst w = (r, w') -> Inv T w'.
Proof.
  intros fuel fd lst w r w' H He. unfold el_read_udp in He.
  destruct (sys "recvfrom" [AInt fd; AInt (l_bufcap (st w))] w) as [k w1] eqn:Hs.
  assert (H1 : Inv T w1) by (eapply good_sys; [apply good_T| |exact H|exact Hs]; plain_sys_tac).
  destruct k as [n extra|e|]; [|destruct (is_eagain e); inversion He; subst; exact H1|inversion He; subst; exact H1].
  cbv zeta in He.
  match type of He with (if ?b then _ else _) = _ => destruct b end;
    [inversion He; subst; eapply Inv_any_desync; exact H1|].
  destruct lst.
  - match type of He with context [handler fuel ?cid ?ww] =>
      destruct (handler fuel cid ww) as [[act rep] w4] eqn:Hh;
      assert (H4 : Inv T w4) end.
    { eapply (b_h _ (block fuel)); [|exact Hh]. apply good_emit; [apply good_T|plain_tac|].
      apply Pre0_drop with (cid := l_next (st w1)). apply Inv_new_conn; auto. }
    assert (H5 : Inv T (wsetc w4 (l_next (st w1)) (c_release (wc w4 (l_next (st w1)))))).
    { eapply Inv_wsetc; [exact H4|]. intros c Hc. eapply Rel_state; [exact Hc| |intros; exact I].
      intros HR. eapply RS_release; [exact HR| |]; auto. }
    destruct act; inversion He; subst; exact H5.
  - destruct (alookup fd (l_reg (st w1))) as [cid|]; [|inversion He; subst; eapply Inv_any_desync; exact H1].
    match type of He with context [handler fuel cid ?ww] =>
      destruct (handler fuel cid ww) as [[act rep] w4] eqn:Hh;
      assert (H4 : Inv T w4) end.
    { eapply (b_h _ (block fuel)); [|exact Hh]. apply Inv_cb_traffic.
      apply Inv_setc_data0; [|ss].
      apply good_ghost; [apply good_T|discriminate|discriminate|discriminate|exact H1]. }
    destruct act; inversion He; subst; exact H4.
Qed.

Lemma accept_ok : forall fuel lfd udp w r w', Inv T w -> el_accept fuel lfd udp w = (r, w') -> Inv T w'.
Proof.
  intros fuel lfd udp w r w' H He. unfold el_accept in He.
  destruct udp; [eapply read_udp_ok; eauto|].
  destruct (sys "accept" [AInt lfd] w) as [k w1] eqn:Hs.
  assert (H1 : Inv T w1) by (eapply good_sys; [apply good_T| |exact H|exact Hs]; plain_sys_tac).
  destruct k as [nfd extra|e|].
  - destruct (fd_in_use (st w1) nfd); [inversion He; subst; eapply Inv_any_desync; exact H1|].
    eapply register_ok; [|exact He]. apply Inv_new_conn; auto.
  - match type of He with (if ?b then _ else _) = _ => destruct b end; inversion He; subst; exact H1.
  - inversion He; subst; exact H1.
Qed.

Lemma dispatch_ok : forall fuel fd ev w r w', Inv T w -> dispatch fuel fd ev w = (r, w') -> Inv T w'.
Proof.
  intros fuel fd ev w r w' H He. unfold dispatch in He.
  destruct (alookup fd (l_reg (st w))) as [cid|].
  - repeat match type of He with (if ?b then _ else _) = _ => destruct b end;
      first [solve [eapply process_io_ok; eauto] | solve [eapply read_udp_ok; eauto]].
  - destruct (alookup fd (l_listeners (st w))) as [udp|].
    + eapply accept_ok; eauto.
    + destruct (polopt (st w)); [inversion He; subst; exact H|].
      eapply good_epctl; [apply good_T|exact H|exact He].
Qed.

(* ------------------------------------------------------------------ *)
(* tasks *)

Definition task_pre (t : task) : list Z -> lstate -> Prop :=
  match t with TRegister cid _ => Pre0 cid | _ => PT end.

Lemma run_task_ok : forall fuel t w r w',
  Inv (Rel [] false None (task_pre t)) w -> run_task fuel t w = (r, w') -> Inv T w'.
Proof.
  intros fuel t w r w' H He.
  assert (H0 : Inv T w) by exact (Rel_P_drop _ _ _ _ _ H).
  destruct t; cbn [run_task task_pre] in *.
  - destruct (el_register0 fuel cid w) as [r1 w1] eqn:E. inversion He; subst.
    pose proof (register_ok _ _ _ _ _ H E) as H1.
    destruct cb; [|exact H1].
    apply good_ghost; [apply good_T|discriminate|discriminate|discriminate|exact H1].
  - destruct (negb (c_opened (wc w cid))).
    + inversion He; subst. destruct cb; [|exact H0]. apply good_emit; [apply good_T|plain_tac|exact H0].
    + destruct (conn_write fuel cid data w) as [[n ok] w1] eqn:E. inversion He; subst.
      pose proof (b_cw _ (block fuel) _ _ _ _ _ _ H0 E) as H1.
      destruct cb; [|exact H1]. apply good_emit; [apply good_T|plain_tac|exact H1].
  - destruct (negb (c_opened (wc w cid))).
    + inversion He; subst. destruct cb; [|exact H0]. apply good_emit; [apply good_T|plain_tac|exact H0].
    + destruct (conn_writev fuel cid segs w) as [[n ok] w1] eqn:E. inversion He; subst.
      pose proof (b_cwv _ (block fuel) _ _ _ _ _ _ H0 E) as H1.
      destruct cb; [|exact H1]. apply good_emit; [apply good_T|plain_tac|exact H1].
  - destruct (el_wake fuel cid w) as [r1 w1] eqn:E. inversion He; subst.
    pose proof (wake_ok _ _ _ _ _ H0 E) as H1.
    destruct cb; [|exact H1]. apply good_emit; [apply good_T|plain_tac|exact H1].
  - destruct (el_close fuel cid true w) as [r1 w1] eqn:E. inversion He; subst.
    pose proof (close_ok _ _ _ _ _ _ H0 E) as H1.
    destruct cb; [|exact H1]. apply good_emit; [apply good_T|plain_tac|exact H1].
  - eapply read_ok; [exact H0|left; reflexivity|exact He].
  - eapply write_ok; eauto.
  - inversion He; subst. apply good_emit; [apply good_T|plain_tac|exact H0].
  - inversion He; subst; exact H0.
Qed.

Lemma pop_urgent_ok : forall w t rest,
  Inv T w -> l_urgent (st w) = t :: rest ->
  Inv (Rel [] false None (task_pre t))
      (with_st w (set_queues (st w) rest (l_low (st w)) (l_flag (st w)))).
Proof.
  intros w t rest H Hu. eapply Inv_with_st; [exact H|].
  intros c _ Hc. eapply Rel_state; [exact Hc| |].
  - intros HR. apply (RS_pop_urgent _ _ _ _ _ HR Hu).
  - intros HR _. destruct (RS_pop_urgent _ _ _ _ _ HR Hu) as [_ [Hok Hnr]].
    destruct t; cbn [task_pre]; try exact I.
    cbn [task_ok] in Hok. destruct Hok as [H1 [H2 H3]].
    unfold Pre0. rewrite tasks_set_queues, getc_set_queues. repeat split; auto.
    eapply Hnr; reflexivity.
Qed.

Lemma pop_low_ok : forall w t rest,
  Inv T w -> l_low (st w) = t :: rest ->
  Inv (Rel [] false None (task_pre t))
      (with_st w (set_queues (st w) (l_urgent (st w)) rest (l_flag (st w)))).
Proof.
  intros w t rest H Hu. eapply Inv_with_st; [exact H|].
  intros c _ Hc. eapply Rel_state; [exact Hc| |].
  - intros HR. apply (RS_pop_low _ _ _ _ _ HR Hu).
  - intros HR _. destruct (RS_pop_low _ _ _ _ _ HR Hu) as [_ [Hok Hnr]].
    destruct t; cbn [task_pre]; try exact I.
    cbn [task_ok] in Hok. destruct Hok as [H1 [H2 H3]].
    unfold Pre0. rewrite tasks_set_queues, getc_set_queues. repeat split; auto.
    eapply Hnr; reflexivity.
Qed.

Lemma drain_urgent_ok : forall fuel w r w', Inv T w -> drain_urgent fuel w = (r, w') -> Inv T w'.
Proof.
  induction fuel as [|f IH]; intros w r w' H He; cbn [drain_urgent] in He.
  { inversion He; subst. eapply Inv_any_desync; exact H. }
  destruct (halt w); [inversion He; subst; exact H|].
  destruct (l_urgent (st w)) as [|t rest] eqn:Hu; [inversion He; subst; exact H|].
  destruct (run_task f t _) as [r1 w2] eqn:Hr in He.
  pose proof (run_task_ok _ _ _ _ _ (pop_urgent_ok _ _ _ H Hu) Hr) as H2.
  destruct r1; try (eapply IH; [exact H2|exact He]). inversion He; subst; exact H2.
Qed.

Lemma drain_low_ok : forall fuel k w r w', Inv T w -> drain_low fuel k w = (r, w') -> Inv T w'.
Proof.
  induction fuel as [|f IH]; intros k w r w' H He; cbn [drain_low] in He.
  { inversion He; subst. eapply Inv_any_desync; exact H. }
  destruct (halt w); [inversion He; subst; exact H|].
  destruct (k <=? 0); [inversion He; subst; exact H|].
  destruct (l_low (st w)) as [|t rest] eqn:Hu; [inversion He; subst; exact H|].
  destruct (run_task f t _) as [r1 w2] eqn:Hr in He.
  pose proof (run_task_ok _ _ _ _ _ (pop_low_ok _ _ _ H Hu) Hr) as H2.
  destruct r1; try (eapply IH; [exact H2|exact He]). inversion He; subst; exact H2.
Qed.

Lemma Inv_set_flag : forall w f, Inv T w -> Inv T (with_st w (set_flag (st w) f)).
Proof.
  intros w f H. eapply Inv_with_st; [exact H|]. intros c _ Hc.
  eapply Rel_state; [exact Hc| |intros; exact I]. intros HR. apply RS_set_flag; auto.
Qed.

Lemma chores_ok : forall fuel w r w', Inv T w -> chores fuel w = (r, w') -> Inv T w'.
Proof.
  intros fuel w r w' H He. unfold chores in He.
  destruct (drain_urgent fuel w) as [r1 w1] eqn:E1.
  pose proof (drain_urgent_ok _ _ _ _ H E1) as H1.
  assert (Hrest : forall rr ww,
    match drain_low fuel (l_maxlow (st w1)) w1 with
    | (RShutdown, w2) => (RShutdown, w2)
    | (_, w2) =>
      let s := set_flag (st w2) false in
      match l_urgent s, l_low s with
      | [], [] => (RNil, with_st w2 s)
      | _, _ =>
          let '(_, w3) := efd_write (S (List.length (inp w2))) (with_st w2 (set_flag s true)) in
          (RNil, w3)
      end
    end = (rr, ww) -> Inv T ww).
  { intros rr ww Hx.
    destruct (drain_low fuel (l_maxlow (st w1)) w1) as [r2 w2] eqn:E2.
    pose proof (drain_low_ok _ _ _ _ _ H1 E2) as H2.
    assert (Hfin : forall rr ww,
      (let s := set_flag (st w2) false in
       match l_urgent s, l_low s with
       | [], [] => (RNil, with_st w2 s)
       | _, _ =>
          let '(_, w3) := efd_write (S (List.length (inp w2))) (with_st w2 (set_flag s true)) in
          (RNil, w3)
       end) = (rr, ww) -> Inv T ww).
    { intros rr0 ww0 Hy. cbv zeta in Hy.
      assert (Hf : Inv T (with_st w2 (set_flag (st w2) false))) by (apply Inv_set_flag; exact H2).
      assert (Hft : Inv T (with_st w2 (set_flag (set_flag (st w2) false) true))).
      { eapply (Inv_world _ _ (with_st w2 (set_flag (st w2) false))); [exact Hf|reflexivity|reflexivity|].
        intros c _ Hc. cbn [with_st st] in *. eapply Rel_state; [exact Hc| |intros; exact I].
        intros HR. apply RS_set_flag; auto. }
      destruct (l_urgent (set_flag (st w2) false)), (l_low (set_flag (st w2) false));
        try (inversion Hy; subst; exact Hf);
        (destruct (efd_write _ _) as [r3 w3] eqn:E3 in Hy; inversion Hy; subst;
         eapply good_efd_write; [apply good_T|exact Hft|exact E3]). }
    destruct r2; try (eapply Hfin; exact Hx). inversion Hx; subst; exact H2. }
  destruct r1; try (eapply Hrest; exact He). inversion He; subst; exact H1.
Qed.

Lemma events_ok : forall fuel n evs dc w r dc' w',
  (List.length evs <= n)%nat -> Inv T w -> events fuel evs dc w = (r, dc', w') -> Inv T w'.
Proof.
  intros fuel. induction n as [|n IH]; intros evs dc w r dc' w' Hl H He.
  - destruct evs; [|cbn in Hl; lia]. cbn in He. inversion He; subst; exact H.
  - destruct evs as [|[fd|b|s] [|[ev|b2|s2] rest]]; cbn [events] in He;
      try (inversion He; subst; exact H).
    destruct (halt w); [inversion He; subst; exact H|].
    cbn [List.length] in Hl.
    destruct (fd =? l_efd (st w)).
    + eapply IH; [|exact H|exact He]. lia.
    + destruct (dispatch fuel fd ev w) as [r1 w1] eqn:Hd.
      pose proof (dispatch_ok _ _ _ _ _ _ H Hd) as H1.
      destruct r1; try (inversion He; subst; exact H1);
        (eapply IH; [|exact H1|exact He]; lia).
Qed.

Lemma close_conns_cases : forall f w,
  close_conns (S f) w = w \/
  exists o w1, pull_gen true w = (o, w1) /\
   ((o = None /\ close_conns (S f) w = w1) \/
    (exists cid, o = Some ("pick", [AInt cid]) /\
       close_conns (S f) w = close_conns f (snd (el_close f cid true w1))) \/
    (exists l, o = Some l /\ close_conns (S f) w = desync "expected-pick" w1)).
Proof.
  intros f w. cbn [close_conns].
  destruct (halt w); [left; reflexivity|].
  destruct (l_reg (st w)); [left; reflexivity|].
  right. destruct (pull_gen true w) as [o w1]. exists o, w1. split; [reflexivity|].
  destruct o as [ll|]; [|left; auto]. right.
  destruct ll as [ln la].
  destruct (String.eqb_spec ln "pick") as [->|Hne].
  - destruct la as [|[cid|b|s] [|a2 la]]; try (right; eexists; split; reflexivity).
    left. exists cid. split; [reflexivity|]. destruct (el_close f cid true w1); reflexivity.
  - right. exists (ln, la). split; [reflexivity|].
    destruct ln as [|a ln]; [reflexivity|].
    destruct a as [[] [] [] [] [] [] [] []]; try reflexivity.
    destruct ln as [|a ln]; [reflexivity|].
    destruct a as [[] [] [] [] [] [] [] []]; try reflexivity.
    destruct ln as [|a ln]; [reflexivity|].
    destruct a as [[] [] [] [] [] [] [] []]; try reflexivity.
    destruct ln as [|a ln]; [reflexivity|].
    destruct a as [[] [] [] [] [] [] [] []]; try reflexivity.
    destruct ln as [|a ln]; [congruence|reflexivity].
Qed.

Lemma close_conns_ok : forall fuel w, Inv T w -> Inv T (close_conns fuel w).
Proof.
  induction fuel as [|f IH]; intros w H.
  { cbn. eapply Inv_any_desync; exact H. }
  destruct (close_conns_cases f w) as [->|[o [w1 [Hp Hc]]]]; [exact H|].
  pose proof (Inv_pull_gen _ (Rel_stable [] false None PT (pstable_PT [])) _ _ _ _ H Hp) as HP.
  destruct Hc as [[-> ->]|[[cid [-> ->]]|[l [-> ->]]]].
  - apply Any_Inv; exact HP.
  - apply IH. destruct (el_close f cid true w1) as [r w2] eqn:E. cbn [snd].
    eapply close_ok; [|exact E].
    eapply Inv_weaken; [exact HP|]. intros c _ Hc. eapply after_not_r; [|exact Hc]. discriminate.
  - eapply Inv_any_desync; exact HP.
Qed.

Definition pend_step (w : world) (fc : Z * Z) : world :=
  if c_udp (wc w (snd fc)) then w else
  emit ("g", [ASym "pending"; AInt (snd fc); AInt (fst fc); AInt (zlen (c_out (wc w (snd fc))))]) w.

Definition poll_head (w : world) : world :=
  let w := emit ("g", [ASym "count"; AInt (zlen (l_reg (st w))); ABytes []]) w in
  fold_left pend_step (l_reg (st w)) w.

Lemma polling_cases : forall f w,
  let w0 := poll_head w in
  exists o w1, pull w0 = (o, w1) /\
   ((o = None /\ polling (S f) w = w1) \/
    (exists evs, o = Some ("wait", evs) /\
       polling (S f) w =
       match events f evs false w1 with
       | (RShutdown, _, w2) => close_conns f w2
       | (RAccept, _, w2) => close_conns f w2
       | (_, true, w2) =>
           match chores f w2 with
           | (RShutdown, w3) => close_conns f w3
           | (_, w3) => polling f w3
           end
       | (_, false, w2) => polling f w2
       end) \/
    (exists l, o = Some l /\ polling (S f) w = desync "expected-wait" w1)).
Proof.
  intros f w w0. cbn [polling]. change (fold_left _ _ _) with w0.
  destruct (pull w0) as [o w1]. exists o, w1. split; [reflexivity|].
  destruct o as [l|]; [|left; auto]. right.
  destruct l as [ln la].
  destruct (String.eqb_spec ln "wait") as [->|Hne].
  - left. exists la. split; reflexivity.
  - right. exists (ln, la). split; [reflexivity|].
    destruct ln as [|a ln]; [reflexivity|].
    destruct a as [[] [] [] [] [] [] [] []]; try reflexivity.
    destruct ln as [|a ln]; [reflexivity|].
    destruct a as [[] [] [] [] [] [] [] []]; try reflexivity.
    destruct ln as [|a ln]; [reflexivity|].
    destruct a as [[] [] [] [] [] [] [] []]; try reflexivity.
    destruct ln as [|a ln]; [reflexivity|].
    destruct a as [[] [] [] [] [] [] [] []]; try reflexivity.
    destruct ln as [|a ln]; [congruence|reflexivity].
Qed.

Lemma pend_fold_ok : forall l w, Inv T w -> Inv T (fold_left pend_step l w).
Proof.
  induction l as [|fc l IH]; intros w H; [exact H|]. cbn [fold_left]. apply IH.
  unfold pend_step. destruct (c_udp (wc w (snd fc))); [exact H|].
  apply good_emit; [apply good_T|plain_tac|exact H].
Qed.

Lemma poll_head_ok : forall w, Inv T w -> Inv T (poll_head w).
Proof.
  intros w H. unfold poll_head. apply pend_fold_ok.
  apply (good_ghost T "count" (zlen (l_reg (st w))) [] w); try discriminate; auto. apply good_T.
Qed.

Lemma polling_ok : forall fuel w, Inv T w -> Inv T (polling fuel w).
Proof.
  induction fuel as [|f IH]; intros w H.
  { cbn. eapply Inv_any_desync; exact H. }
  destruct (polling_cases f w) as [o [w1 [Hp Hc]]].
  pose proof (poll_head_ok w H) as H0.
  pose proof (Inv_pull _ (Rel_stable [] false None PT (pstable_PT [])) _ _ _ H0 Hp) as HP.
  destruct Hc as [[-> ->]|[[evs [-> ->]]|[l [-> ->]]]].
  - apply Any_Inv; exact HP.
  - assert (H1 : Inv T w1).
    { eapply Inv_weaken; [exact HP|]. intros c _ Hc. eapply after_not_r; [|exact Hc]. discriminate. }
    destruct (events f evs false w1) as [[r dc] w2] eqn:He.
    pose proof (events_ok f _ _ _ _ _ _ _ (le_n _) H1 He) as H2.
    assert (Hch : Inv T (match chores f w2 with
                         | (RShutdown, w3) => close_conns f w3
                         | (_, w3) => polling f w3 end)).
    { destruct (chores f w2) as [r3 w3] eqn:Hc3.
      pose proof (chores_ok _ _ _ _ H2 Hc3) as H3.
      destruct r3; try (apply IH; exact H3). apply close_conns_ok; exact H3. }
    destruct r; try (apply close_conns_ok; exact H2);
      (destruct dc; [exact Hch|apply IH; exact H2]).
  - eapply Inv_any_desync; exact HP.
Qed.

(* ------------------------------------------------------------------ *)
(* the theorem *)

Lemma RS_init : forall s, l_conns s = [] -> l_reg s = [] -> l_urgent s = [] -> l_low s = [] ->
  RS [] [] s.
Proof.
  intros s Hc Hr Hu Hl.
  assert (Hg : forall cid, getc s cid = dummy_conn) by (intros; unfold getc; rewrite Hc; reflexivity).
  constructor; intros; rewrite ?Hg, ?Hr in *; cbn in *; try discriminate; try contradiction; auto.
  - unfold tasks in H. rewrite Hu, Hl in H. destruct H.
  - unfold tasks. rewrite Hu, Hl. constructor.
Qed.

Theorem fault_holds : forall i t, run_history i = Some t -> fault_ok t = true.
Proof.
  intros i t Hr. unfold run_history in Hr.
  destruct (init_world i) as [w0|] eqn:Hi; [|discriminate]. inversion Hr; subst t; clear Hr.
  apply (Inv_good T). apply (polling_ok (init_fuel i) w0).
  unfold init_world in Hi.
  destruct i as [|[nm args] rest]; [discriminate|].
  repeat match type of Hi with
  | Some _ = Some _ => inversion Hi; subst; clear Hi
  | None = Some _ => discriminate Hi
  | (let '(_, _) := ?x in _) = _ => destruct x
  | context [match ?x with _ => _ end] => destruct x
  end.
  unfold Inv. cbn [log rev runs st]. intros _.
  split; [reflexivity|split; [reflexivity|split; [|split; [left; reflexivity|exact I]]]].
  apply RS_init; reflexivity.
Qed.
