(* Model of pkg/queue/lock_free_queue.go (Michael-Scott queue) as an
   interleaving system: a heap of nodes with fresh allocation (no reuse: the
   garbage-collector assumption), the shared words head, tail, length, and any
   number of threads, each a program counter over the exact statement sequence
   of Enqueue / Dequeue.  One step = one atomic load / CAS / add of sync/atomic
   (assumed sequentially consistent) followed by the thread-local computation
   up to the next atomic operation.  A most-general client drives it: an idle
   thread may start Enqueue v or Dequeue at any time.

   Ghost components (never read by the code being modelled): g_chain, the
   append-only list of linked nodes; g_h / g_t, the positions of head / tail in
   it; g_hist, the history with linearization events (Spec/AtomicQueue.v).
   No proofs in this file. *)
From GV Require Export Lib.Trace Spec.AtomicQueue.
From Coq Require Import Arith.
Open Scope Z_scope.

Definition node_id := nat.
Definition tid := nat.
Definition ptr := option node_id.          (* None = nil *)

Record node := mkNode { n_val : Z; n_next : ptr }.

(* int32 wrap-around of atomic.AddInt32 *)
Definition wrap_i32 (z : Z) : Z := (z + 2147483648) mod 4294967296 - 2147483648.

(*  Enqueue(task):                               Dequeue():
      n := &node{value: task}      (start)       retry:
    retry:                                   D1    head := load(&q.head)
 E1   tail := load(&q.tail)                  D2    tail := load(&q.tail)
 E2   next := load(&tail.next)               D3    next := load(&head.next)
 E3   if tail == load(&q.tail) {             D4    if head == load(&q.head) {
        if next == nil {                             if head == tail {
 E4       if cas(&tail.next, next, n) {                if next == nil { return nil }
 E5         cas(&q.tail, tail, n)            D5        cas(&q.tail, tail, next)
 E6         atomic.AddInt32(&q.length, 1)            } else {
            return                                     task := next.value
          }                                  D6        if cas(&q.head, head, next) {
        } else {                             D7          atomic.AddInt32(&q.length, -1)
 E7       cas(&q.tail, tail, next)                       return task
        }                                              }
      }                                              }
      goto retry                                   }
                                                   goto retry                     *)
Inductive pc := Idle | E1 | E2 | E3 | E4 | E5 | E6 | E7 | D1 | D2 | D3 | D4 | D5 | D6 | D7 | Crashed.

Record thread := mkThread {
  t_pc : pc;
  t_val : Z;          (* argument of the current Enqueue *)
  l_n : ptr; l_tail : ptr; l_next : ptr; l_head : ptr;   (* the locals n, tail, next, head *)
  l_task : Z          (* the local task (a non-nil *Task, identified by an integer) *)
}.

Definition idle_thread : thread := mkThread Idle 0 None None None None 0.

Record gstate := mkG {
  heap : list node;          (* node_id -> node, allocation order *)
  head : ptr; tail : ptr; len : Z;
  threads : list thread;     (* tid -> thread; absent = idle *)
  g_chain : list node_id; g_h : nat; g_t : nat; g_hist : list event
}.

Definition init_state : gstate :=
  mkG [mkNode 0 None] (Some O) (Some O) 0 [] [O] O O [].

Definition get_thread (ths : list thread) (t : tid) : thread := nth t ths idle_thread.

Fixpoint set_thread (ths : list thread) (t : tid) (x : thread) : list thread :=
  match t, ths with
  | O, [] => [x]
  | O, _ :: r => x :: r
  | S t', [] => idle_thread :: set_thread [] t' x
  | S t', y :: r => y :: set_thread r t' x
  end.

Fixpoint set_next (h : list node) (p : node_id) (nx : ptr) : list node :=
  match p, h with
  | _, [] => []
  | O, nd :: r => mkNode (n_val nd) nx :: r
  | S p', nd :: r => nd :: set_next r p' nx
  end.

Definition ptr_eqb (a b : ptr) : bool :=
  match a, b with
  | None, None => true
  | Some x, Some y => Nat.eqb x y
  | _, _ => false
  end.

Definition is_nil (p : ptr) : bool := match p with None => true | Some _ => false end.

(* ---- labels ---- *)
Inductive choice := CStep | CEnq (v : Z) | CDeq.

Inductive loc := LHead | LTail | LLen | LNext (n : node_id).

Inductive aobs :=
| OLd (l : loc) (v : ptr)
| OCas (l : loc) (old new : ptr) (ok : bool)
| OAdd (l : loc) (delta newv : Z)
| OStart
| OStuck
| OPanic.

Inductive ret := RNone | REnq | RDeq (r : option Z) | RPanic.

Definition sobs := (aobs * ret)%type.   (* what one step shows: the atomic operation and, if the call returned, its result *)

(* ---- state updates ---- *)
Definition upd_thread (s : gstate) (t : tid) (th : thread) : gstate :=
  mkG (heap s) (head s) (tail s) (len s) (set_thread (threads s) t th) (g_chain s) (g_h s) (g_t s) (g_hist s).

Definition log_ev (s : gstate) (e : event) : gstate :=
  mkG (heap s) (head s) (tail s) (len s) (threads s) (g_chain s) (g_h s) (g_t s) (e :: g_hist s).

Definition set_pc (th : thread) (p : pc) : thread :=
  mkThread p (t_val th) (l_n th) (l_tail th) (l_next th) (l_head th) (l_task th).
Definition set_l_tail (th : thread) (v : ptr) : thread :=
  mkThread (t_pc th) (t_val th) (l_n th) v (l_next th) (l_head th) (l_task th).
Definition set_l_next (th : thread) (v : ptr) : thread :=
  mkThread (t_pc th) (t_val th) (l_n th) (l_tail th) v (l_head th) (l_task th).
Definition set_l_head (th : thread) (v : ptr) : thread :=
  mkThread (t_pc th) (t_val th) (l_n th) (l_tail th) (l_next th) v (l_task th).
Definition set_l_task (th : thread) (v : Z) : thread :=
  mkThread (t_pc th) (t_val th) (l_n th) (l_tail th) (l_next th) (l_head th) v.

Definition crash (s : gstate) (t : tid) (th : thread) (o : aobs) : gstate * sobs :=
  (upd_thread s t (set_pc th Crashed), (o, RPanic)).

(* cas(&q.tail, old, new): shared by E5, E7, D5 *)
Definition cas_tail (s : gstate) (old new : ptr) : gstate * bool :=
  if ptr_eqb (tail s) old
  then (mkG (heap s) (head s) new (len s) (threads s) (g_chain s) (g_h s) (S (g_t s)) (g_hist s), true)
  else (s, false).

Definition add_len (s : gstate) (d : Z) : gstate :=
  mkG (heap s) (head s) (tail s) (wrap_i32 (len s + d)) (threads s) (g_chain s) (g_h s) (g_t s) (g_hist s).

(* ---- the step function: thread t performs its next atomic operation ---- *)
Definition tstep (s : gstate) (t : tid) (c : choice) : gstate * sobs :=
  let th := get_thread (threads s) t in
  match t_pc th, c with
  | Idle, CEnq v =>
      let n := List.length (heap s) in
      let s1 := mkG (heap s ++ [mkNode v None]) (head s) (tail s) (len s) (threads s)
                    (g_chain s) (g_h s) (g_t s) (CallEnq t n v :: g_hist s) in
      (upd_thread s1 t (mkThread E1 v (Some n) None None None 0), (OStart, RNone))
  | Idle, CDeq =>
      (upd_thread (log_ev s (CallDeq t)) t (mkThread D1 0 None None None None 0), (OStart, RNone))
  | E1, CStep =>
      (upd_thread s t (set_pc (set_l_tail th (tail s)) E2), (OLd LTail (tail s), RNone))
  | E2, CStep =>
      match l_tail th with
      | None => crash s t th OPanic
      | Some p =>
          match nth_error (heap s) p with
          | None => crash s t th OPanic
          | Some nd => (upd_thread s t (set_pc (set_l_next th (n_next nd)) E3), (OLd (LNext p) (n_next nd), RNone))
          end
      end
  | E3, CStep =>
      let th' := if ptr_eqb (l_tail th) (tail s)
                 then (if is_nil (l_next th) then set_pc th E4 else set_pc th E7)
                 else set_pc th E1 in
      (upd_thread s t th', (OLd LTail (tail s), RNone))
  | E4, CStep =>
      match l_tail th with
      | None => crash s t th OPanic
      | Some p =>
          match nth_error (heap s) p with
          | None => crash s t th OPanic
          | Some nd =>
              if ptr_eqb (n_next nd) (l_next th)
              then
                let s1 := mkG (set_next (heap s) p (l_n th)) (head s) (tail s) (len s) (threads s)
                              (match l_n th with Some n => g_chain s ++ [n] | None => g_chain s end)
                              (g_h s) (g_t s)
                              (match l_n th with Some n => LinEnq t n (t_val th) :: g_hist s | None => g_hist s end) in
                (upd_thread s1 t (set_pc th E5), (OCas (LNext p) (l_next th) (l_n th) true, RNone))
              else (upd_thread s t (set_pc th E1), (OCas (LNext p) (l_next th) (l_n th) false, RNone))
          end
      end
  | E5, CStep =>
      let '(s1, ok) := cas_tail s (l_tail th) (l_n th) in
      (upd_thread s1 t (set_pc th E6), (OCas LTail (l_tail th) (l_n th) ok, RNone))
  | E6, CStep =>
      let s1 := add_len s 1 in
      (upd_thread (log_ev s1 (RetEnq t)) t (set_pc th Idle), (OAdd LLen 1 (len s1), REnq))
  | E7, CStep =>
      let '(s1, ok) := cas_tail s (l_tail th) (l_next th) in
      (upd_thread s1 t (set_pc th E1), (OCas LTail (l_tail th) (l_next th) ok, RNone))
  | D1, CStep =>
      (upd_thread s t (set_pc (set_l_head th (head s)) D2), (OLd LHead (head s), RNone))
  | D2, CStep =>
      (upd_thread s t (set_pc (set_l_tail th (tail s)) D3), (OLd LTail (tail s), RNone))
  | D3, CStep =>
      match l_head th with
      | None => crash s t th OPanic
      | Some p =>
          match nth_error (heap s) p with
          | None => crash s t th OPanic
          | Some nd =>
              (* ghost: the load returned nil while head is still this node:
                 the abstract queue is empty at this instant *)
              let s1 := if ptr_eqb (l_head th) (head s) && is_nil (n_next nd)
                        then log_ev s (EmptyAt t) else s in
              (upd_thread s1 t (set_pc (set_l_next th (n_next nd)) D4), (OLd (LNext p) (n_next nd), RNone))
          end
      end
  | D4, CStep =>
      let o := OLd LHead (head s) in
      if ptr_eqb (l_head th) (head s) then
        if ptr_eqb (l_head th) (l_tail th) then
          if is_nil (l_next th)
          then (upd_thread (log_ev s (RetDeq t None)) t (set_pc th Idle), (o, RDeq None))
          else (upd_thread s t (set_pc th D5), (o, RNone))
        else
          match l_next th with
          | None => crash s t th o                      (* next.value on a nil pointer *)
          | Some nx =>
              match nth_error (heap s) nx with
              | None => crash s t th o
              | Some nd => (upd_thread s t (set_pc (set_l_task th (n_val nd)) D6), (o, RNone))
              end
          end
      else (upd_thread s t (set_pc th D1), (o, RNone))
  | D5, CStep =>
      let '(s1, ok) := cas_tail s (l_tail th) (l_next th) in
      (upd_thread s1 t (set_pc th D1), (OCas LTail (l_tail th) (l_next th) ok, RNone))
  | D6, CStep =>
      if ptr_eqb (head s) (l_head th)
      then
        let s1 := mkG (heap s) (l_next th) (tail s) (len s) (threads s) (g_chain s) (S (g_h s)) (g_t s)
                      (match l_next th with Some nx => LinDeq t nx (l_task th) :: g_hist s | None => g_hist s end) in
        (upd_thread s1 t (set_pc th D7), (OCas LHead (l_head th) (l_next th) true, RNone))
      else (upd_thread s t (set_pc th D1), (OCas LHead (l_head th) (l_next th) false, RNone))
  | D7, CStep =>
      let s1 := add_len s (-1) in
      (upd_thread (log_ev s1 (RetDeq t (Some (l_task th)))) t (set_pc th Idle),
       (OAdd LLen (-1) (len s1), RDeq (Some (l_task th))))
  | _, _ => (s, (OStuck, RNone))
  end.

(* Length() and IsEmpty(): one atomic load of q.length each *)
Definition q_length (s : gstate) : Z := len s.
Definition q_isempty (s : gstate) : bool := len s =? 0.

(* ---- ghost abstraction: the items on the chain after head ---- *)
Definition val_of (s : gstate) (n : node_id) : Z :=
  match nth_error (heap s) n with Some nd => n_val nd | None => 0 end.

Definition absq_items (s : gstate) : list item :=
  map (fun n => (n, val_of s n)) (skipn (S (g_h s)) (g_chain s)).

Definition absq (s : gstate) : list Z := map snd (absq_items s).

(* the same queue computed from the concrete state only (no ghost): follow the next
   pointers from head; the first node is the dummy *)
Fixpoint walk (h : list node) (fuel : nat) (p : ptr) : list node_id :=
  match fuel with
  | O => []
  | S f => match p with
           | None => []
           | Some n => match nth_error h n with
                       | None => []
                       | Some nd => n :: walk h f (n_next nd)
                       end
           end
  end.

Definition queue_of_heap (s : gstate) : list Z :=
  map (val_of s) (List.tl (walk (heap s) (List.length (heap s)) (head s))).

(* contribution of a thread to the lag of the length counter *)
Definition lag (th : thread) : Z :=
  match t_pc th with
  | E5 | E6 => -1          (* enqueue linked, not yet counted *)
  | D7 => 1                (* dequeue unlinked, not yet counted *)
  | _ => 0
  end.

Definition total_lag (s : gstate) : Z := fold_right (fun th a => lag th + a) 0 (threads s).

Definition quiescent (s : gstate) : Prop := forall t, t_pc (get_thread (threads s) t) = Idle.

Definition quiescent_b (s : gstate) : bool :=
  forallb (fun th => match t_pc th with Idle => true | _ => false end) (threads s).

(* ---- the invariant of Appendix A.4, as a predicate on states ---- *)
Definition chain_inv (s : gstate) : Prop :=
  let C := g_chain s in
  NoDup C /\
  (* next-pointers follow the chain; the last node's next is nil *)
  (forall i n, nth_error C i = Some n ->
     exists nd, nth_error (heap s) n = Some nd /\ n_next nd = nth_error C (S i)) /\
  (* head and tail point into the chain: head before-or-at tail, tail last or last-but-one *)
  head s = nth_error C (g_h s) /\ tail s = nth_error C (g_t s) /\
  (g_h s <= g_t s)%nat /\ (g_t s < List.length C)%nat /\ (List.length C <= g_t s + 2)%nat.

(* ---- the labelled transition system ---- *)
Definition ms_init (s : gstate) : Prop := s = init_state.
Definition ms_label := ((tid * choice) * sobs)%type.
Definition ms_step (s : gstate) (l : ms_label) (s' : gstate) : Prop :=
  tstep s (fst (fst l)) (snd (fst l)) = (s', snd l).

(* the same step function with the scheduler's choice as one argument (Lib/Interleave.run) *)
Definition ms_fstep (s : gstate) (a : tid * choice) : gstate * sobs := tstep s (fst a) (snd a).

(* ---- trace runner: family "msqueue" ---- *)
Open Scope string_scope.

Definition ptr_arg (p : ptr) : arg :=
  match p with None => ASym "nil" | Some n => AInt (Z.of_nat n) end.

Definition loc_args (l : loc) : list arg :=
  match l with
  | LHead => [ASym "head"]
  | LTail => [ASym "tail"]
  | LLen => [ASym "len"]
  | LNext n => [ASym "next"; AInt (Z.of_nat n)]
  end.

Definition obs_lines (t : Z) (o : sobs) : list line :=
  (match fst o with
   | OLd l v => [obs "ld" (AInt t :: loc_args l ++ [ptr_arg v])]
   | OCas l old new ok => [obs "cas" (AInt t :: loc_args l ++ [ptr_arg old; ptr_arg new; bool_arg ok])]
   | OAdd l d v => [obs "add" (AInt t :: loc_args l ++ [AInt d; AInt v])]
   | OStart => []
   | OStuck => [obs "stuck" [AInt t]]
   | OPanic => []
   end) ++
  (match snd o with
   | RNone => []
   | REnq => [obs "ret" [AInt t; ASym "enq"]]
   | RDeq None => [obs "ret" [AInt t; ASym "deq"; ASym "nil"]]
   | RDeq (Some v) => [obs "ret" [AInt t; ASym "deq"; AInt v]]
   | RPanic => [obs "ret" [AInt t; ASym "panic"]]
   end).

Definition ms_line (s : gstate) (l : line) : gstate * list line :=
  match l with
  | ("start", [AInt t; ASym k; AInt v]) =>
      if sym_eqb k "enq" then let '(s', o) := tstep s (Z.to_nat t) (CEnq v) in (s', obs_lines t o)
      else (s, [obs "stuck" [AInt t]])
  | ("start", [AInt t; ASym k]) =>
      if sym_eqb k "deq" then let '(s', o) := tstep s (Z.to_nat t) CDeq in (s', obs_lines t o)
      else (s, [obs "stuck" [AInt t]])
  | ("step", [AInt t]) => let '(s', o) := tstep s (Z.to_nat t) CStep in (s', obs_lines t o)
  | ("len", []) => (s, [obs "len" [AInt (q_length s)]])
  | ("isempty", []) => (s, [obs "isempty" [bool_arg (q_isempty s)]])
  | ("stress", _) => (s, [])
  | _ => (s, [obs "unknown" []])
  end.

Fixpoint ms_lines (s : gstate) (ls : list line) : list line :=
  match ls with
  | [] => []
  | l :: r => let '(s', out) := ms_line s l in out ++ ms_lines s' r
  end.

Definition run_msqueue : runner := fun ls => ms_lines init_state ls.
