(* C01 / C02: the two data-integrity theorems of the event-loop model, re-exported for
   the statement files.  Proofs: LoopDataIn.v + LoopDataInTop.v (inbound),
   LoopDataOut.v + LoopDataOutTop.v (outbound), over the shared LoopDataLib.v. *)
From GV Require Import Lib.Trace Model.Loop Spec.LoopSpec.
From GV Require Proofs.LoopDataInTop Proofs.LoopDataOutTop.

Definition inbound_holds : forall i t, run_history i = Some t -> inbound_ok t = true :=
  LoopDataInTop.inbound_holds.

Definition outbound_holds : forall i t, run_history i = Some t -> outbound_ok t = true :=
  LoopDataOutTop.outbound_holds.
