(* C10 proofs, part 4: one simulation step of the mixed buffer, arbitrary finite
   operation sequences, and the theorems of the property. *)
From Coq Require Import Lia ZArith ZifyBool List Bool.
From GV Require Import Lib.Trace Spec.Fifo Proofs.FifoLemmas Model.Elastic Spec.ElasticSpec
  Proofs.ElasticRing Proofs.ElasticList Proofs.ElasticBuf.
From GV Require Model.Ring Model.LList Spec.LListSpec.
Import ListNotations.
Open Scope Z_scope.

(* one simulation step *)
Lemma bstep_spec b o : binv b -> bop_wf o ->
  exists b' x, bstep b o = Ret (b', x) /\ binv b' /\ ebuf_op_spec (bcontent b) o x (bcontent b').
Proof.
  intros Hi Hwf. destruct o; cbn [bstep bop_wf] in *.
  - destruct Hwf as (Hc & Hp). destruct (BWrite_ok b c p Hi Hc Hp) as (b' & H & I & _ & C & _). rewrite H. cbn [omap].
    eexists _, _. splits; [reflexivity|exact I|]. cbn. auto.
  - destruct Hwf as (Hc & Hp). destruct (BWritev_ok b c bs Hi Hc Hp) as (b' & H & I & _ & C & _). rewrite H. cbn [omap].
    eexists _, _. splits; [reflexivity|exact I|]. cbn. auto.
  - destruct (BRead_ok b n Hi Hwf) as (b' & e & H & I & _ & C & E). rewrite H. cbn [omap].
    eexists _, _. splits; [reflexivity|exact I|]. cbn [ebuf_op_spec]. unfold fifo_take, fifo_len. rewrite C. auto.
  - destruct (BPeek_ok b n Hi) as (e & segs & H & C). rewrite H. cbn [omap].
    eexists _, _. splits; [reflexivity|exact Hi|]. cbn [ebuf_op_spec]. unfold fifo_peek, fifo_len. auto.
  - destruct (BDiscard_ok b n Hi) as (b' & e & H & I & _ & C & E). rewrite H. cbn [omap].
    eexists _, _. splits; [reflexivity|exact I|]. cbn [ebuf_op_spec fifo_take fst snd]. auto.
  - destruct Hwf as (Hc & Hsc). destruct (BReadFrom_ok b c src sc Hi Hc Hsc) as (b' & k & e & H & I & _ & Hk & C & _).
    rewrite H. cbn [omap]. eexists _, _. splits; [reflexivity|exact I|]. cbn [ebuf_op_spec]. exists k. auto.
  - destruct (BWriteTo_ok b sc Hi Hwf) as (b' & n & e & H & I & _ & C & Hn & E). rewrite H. cbn [omap].
    eexists _, _. splits; [reflexivity|exact I|]. cbn [ebuf_op_spec]. unfold fifo_take, fifo_len. rewrite C.
    splits; auto; try lia. rewrite <- C. exact E.
  - destruct (BReset_ok b maxStaticBytes Hi) as (I & C). eexists _, _. splits; [reflexivity|exact I|]. cbn. exact C.
  - destruct (BRelease_ok b Hi) as (I & C). eexists _, _. splits; [reflexivity|exact I|]. cbn. exact C.
  - eexists _, _. splits; [reflexivity|exact Hi|]. cbn. split; [|reflexivity]. apply BBuffered_ok. exact Hi.
  - eexists _, _. splits; [reflexivity|exact Hi|]. cbn. split; [|reflexivity]. apply BIsEmpty_ok. exact Hi.
Qed.

(* the static-size limit only ever changes through Reset *)
Lemma bstep_max b o b' x : binv b -> bop_wf o -> bstep b o = Ret (b', x) ->
  eb_max b' = match o with BoReset m => if m >? 0 then m else eb_max b | _ => eb_max b end.
Proof.
  intros Hi Hwf Hs. destruct o; cbn [bstep bop_wf] in *.
  - destruct Hwf as (Hc & Hp). destruct (BWrite_ok b c p Hi Hc Hp) as (b1 & H & _ & M & _). rewrite H in Hs. cbn in Hs. congruence.
  - destruct Hwf as (Hc & Hp). destruct (BWritev_ok b c bs Hi Hc Hp) as (b1 & H & _ & M & _). rewrite H in Hs. cbn in Hs. congruence.
  - destruct (BRead_ok b n Hi Hwf) as (b1 & e & H & _ & M & _). rewrite H in Hs. cbn in Hs. congruence.
  - destruct (BPeek_ok b n Hi) as (e & segs & H & _). rewrite H in Hs. cbn in Hs. congruence.
  - destruct (BDiscard_ok b n Hi) as (b1 & e & H & _ & M & _). rewrite H in Hs. cbn in Hs. congruence.
  - destruct Hwf as (Hc & Hsc). destruct (BReadFrom_ok b c src sc Hi Hc Hsc) as (b1 & k & e & H & _ & M & _).
    rewrite H in Hs. cbn in Hs. congruence.
  - destruct (BWriteTo_ok b sc Hi Hwf) as (b1 & n & e & H & _ & M & _). rewrite H in Hs. cbn in Hs. congruence.
  - injection Hs as <- _. reflexivity.
  - injection Hs as <- _. reflexivity.
  - injection Hs as <- _. reflexivity.
  - injection Hs as <- _. reflexivity.
Qed.

(* arbitrary finite operation sequences from any state satisfying the invariant *)
Lemma run_bops_spec ops : forall b, binv b -> Forall bop_wf ops ->
  exists b' outs, run_bops b ops = Ret (b', outs) /\ binv b' /\
    ebuf_run (bcontent b) ops outs (bcontent b').
Proof.
  induction ops as [|o ops IH]; intros b Hi Hwf; cbn [run_bops].
  - exists b, []. splits; trivial. constructor.
  - inversion Hwf as [|? ? Ho Hops]; subst.
    destruct (bstep_spec b o Hi Ho) as (b1 & x & Hs & I1 & S1). rewrite Hs. cbn [obind].
    destruct (IH b1 I1 Hops) as (b2 & xs & Hr & I2 & S2). rewrite Hr. cbn [obind].
    exists b2, (x :: xs). splits; trivial. econstructor; eassumption.
Qed.

(* a fresh buffer: New(m), or the zero value (m = 0) *)
Definition fresh (m : Z) : buffer := mkB m None LList.empty_buffer.

Lemma fresh_ok m : binv (fresh m) /\ bcontent (fresh m) = [].
Proof. split; [split; [exact I|apply L_empty]|reflexivity]. Qed.

Theorem elastic_refines_fifo : forall m ops, Forall bop_wf ops ->
  exists b outs, run_bops (fresh m) ops = Ret (b, outs) /\ binv b /\
    ebuf_run fifo_empty ops outs (bcontent b).
Proof.
  intros m ops Hwf. destruct (fresh_ok m) as (Hi & Hc).
  destruct (run_bops_spec ops (fresh m) Hi Hwf) as (b & outs & Hr & I & S).
  exists b, outs. rewrite Hc in S. auto.
Qed.

Theorem elastic_no_panic : forall m ops, Forall bop_wf ops -> run_bops (fresh m) ops <> Panic.
Proof.
  intros m ops Hwf. destruct (elastic_refines_fifo m ops Hwf) as (b & outs & Hr & _). rewrite Hr. discriminate.
Qed.

(* ------------------------------------------------------------------ *)
(* the order invariant: once the list part is in use (or the ring part is at
   the limit) write-type operations leave the ring part alone and append to
   the list part -- the ring part only ever holds the older bytes            *)

Lemma to_list_iff b : binv b ->
  (to_list b = true <-> lcontent (eb_list b) <> [] \/ eb_max b <= zlen (rcontent (eb_ring b))).
Proof.
  intros (Hr & Hl). unfold to_list. rewrite (L_IsEmpty _ Hl), (RBuffered_ok _ Hr).
  rewrite orb_true_iff, negb_true_iff, fifo_is_empty_false. split; intros [H|H]; auto; right; lia.
Qed.

Theorem elastic_order_invariant : forall b o b' x, binv b -> bop_wf o -> is_write o = true ->
  lcontent (eb_list b) <> [] \/ eb_max b <= zlen (rcontent (eb_ring b)) ->
  bstep b o = Ret (b', x) ->
  eb_ring b' = eb_ring b /\ lcontent (eb_list b') = (lcontent (eb_list b) ++ accepted o x)%list.
Proof.
  intros b o b' x Hi Hwf Hw Hcond Hs. apply (to_list_iff b Hi) in Hcond.
  destruct o; cbn [is_write] in Hw; try discriminate; cbn [bstep bop_wf accepted] in *.
  - destruct Hwf as (Hc & Hp). destruct (BWrite_ok b c p Hi Hc Hp) as (b1 & H & _ & _ & _ & O).
    rewrite H in Hs. cbn in Hs. injection Hs as <- <-. apply O. exact Hcond.
  - destruct Hwf as (Hc & Hp). destruct (BWritev_ok b c bs Hi Hc Hp) as (b1 & H & _ & _ & _ & O).
    rewrite H in Hs. cbn in Hs. injection Hs as <- <-. apply O. exact Hcond.
  - destruct Hwf as (Hc & Hsc). destruct (BReadFrom_ok b c src sc Hi Hc Hsc) as (b1 & k & e & H & _ & _ & _ & _ & O).
    rewrite H in Hs. cbn in Hs. injection Hs as <- <-. cbn [accepted]. apply O. exact Hcond.
Qed.

(* operations that are not write-type never add to either part *)
Theorem elastic_consumers_shrink : forall b o b' x, binv b -> bop_wf o -> is_write o = false ->
  bstep b o = Ret (b', x) -> exists k, 0 <= k /\ bcontent b' = zdrop k (bcontent b).
Proof.
  intros b o b' x Hi Hwf Hw Hs. destruct (bstep_spec b o Hi Hwf) as (b1 & x1 & Hs1 & _ & Sp).
  rewrite Hs in Hs1. injection Hs1 as <- <-. pose proof (zlen_nonneg (bcontent b)) as Hq.
  destruct o; cbn [is_write] in Hw; try discriminate; destruct x; cbn [ebuf_op_spec] in Sp; try contradiction.
  - destruct Sp as (Ht & _). unfold fifo_take in Ht. injection Ht as _ ->. exists (Z.max 0 n). split; [lia|].
    unfold zdrop. f_equal. lia.
  - destruct Sp as (-> & _). exists 0. split; [lia|]. rewrite zdrop_nonpos by lia. reflexivity.
  - destruct Sp as (_ & Hd & _). cbn [fifo_take snd] in Hd. exists (Z.max 0 n). split; [lia|].
    rewrite Hd. unfold zdrop. f_equal. lia.
  - destruct Sp as (Ht & Hn & _). unfold fifo_take in Ht. injection Ht as _ ->. exists n. split; [lia|reflexivity].
  - exists (zlen (bcontent b)). split; [lia|]. rewrite Sp, zdrop_all by lia. reflexivity.
  - exists (zlen (bcontent b)). split; [lia|]. rewrite Sp, zdrop_all by lia. reflexivity.
  - destruct Sp as (_ & ->). exists 0. split; [lia|]. rewrite zdrop_nonpos by lia. reflexivity.
  - destruct Sp as (_ & ->). exists 0. split; [lia|]. rewrite zdrop_nonpos by lia. reflexivity.
Qed.

(* ------------------------------------------------------------------ *)
(* the methods gnet's event loop calls, spelled out on the content      *)

Theorem peek_exact : forall b n, binv b ->
  exists e segs, bstep b (BoPeek n) = Ret (b, XPeek e segs) /\
    (0 < n <= zlen (bcontent b) -> n <> LList.MaxInt32 -> e = XNil /\ List.concat segs = ztake n (bcontent b)) /\
    (n <= 0 \/ n = LList.MaxInt32 -> e = XNil /\ List.concat segs = ztake LList.MaxInt32 (bcontent b)) /\
    (n <= 0 \/ n = LList.MaxInt32 -> zlen (bcontent b) <= LList.MaxInt32 -> e = XNil /\ List.concat segs = bcontent b) /\
    (zlen (bcontent b) < n -> n <> LList.MaxInt32 -> e = XShortBuf /\ segs = []).
Proof.
  intros b n Hi. destruct (BPeek_ok b n Hi) as (e & segs & H & C1 & C2 & C3).
  exists e, segs. cbn [bstep]. rewrite H. cbn [omap]. splits; auto.
  intros Hn Hle. destruct (C1 Hn) as (-> & Hc). split; [reflexivity|]. rewrite Hc. apply ztake_all. exact Hle.
Qed.

Theorem discard_exact : forall b n, binv b ->
  exists b' e, bstep b (BoDiscard n) = Ret (b', XDiscard (Z.max 0 (Z.min n (zlen (bcontent b)))) e) /\
    binv b' /\ bcontent b' = zdrop n (bcontent b) /\
    bcontent b = (ztake n (bcontent b) ++ bcontent b')%list /\
    zlen (bcontent b') = zlen (bcontent b) - Z.max 0 (Z.min n (zlen (bcontent b))) /\
    (0 < n -> e = XNil).
Proof.
  intros b n Hi. destruct (BDiscard_ok b n Hi) as (b' & e & H & I & _ & C & E).
  exists b', e. cbn [bstep]. rewrite H. cbn [omap]. pose proof (zlen_nonneg (bcontent b)) as Hq.
  replace (zlen (ztake n (bcontent b))) with (Z.max 0 (Z.min n (zlen (bcontent b)))) by zl.
  splits; auto.
  - rewrite C. symmetry. apply ztake_zdrop_id.
  - rewrite C. zl.
Qed.

Theorem buffered_isempty : forall b, binv b ->
  BBuffered b = zlen (bcontent b) /\ BIsEmpty b = fifo_is_empty (bcontent b) /\
  (BIsEmpty b = true <-> BBuffered b = 0) /\ (BIsEmpty b = true <-> bcontent b = []).
Proof.
  intros b Hi. rewrite (BBuffered_ok b Hi), (BIsEmpty_ok b Hi). splits; auto.
  - rewrite fifo_is_empty_nil. split; [intros ->; reflexivity|apply zlen_zero_nil].
  - apply fifo_is_empty_nil.
Qed.

Theorem write_exact : forall b c p, binv b -> 0 <= c -> zlen p <= max_len ->
  exists b', bstep b (BoWrite c p) = Ret (b', XWrite (zlen p) XNil) /\ binv b' /\
    bcontent b' = (bcontent b ++ p)%list.
Proof.
  intros b c p Hi Hc Hp. destruct (BWrite_ok b c p Hi Hc Hp) as (b' & H & I & _ & C & _).
  exists b'. cbn [bstep]. rewrite H. auto.
Qed.

Theorem writev_exact : forall b c bs, binv b -> 0 <= c -> Forall (fun x => zlen x <= max_len) bs ->
  exists b', bstep b (BoWritev c bs) = Ret (b', XWrite (zlen (List.concat bs)) XNil) /\ binv b' /\
    bcontent b' = (bcontent b ++ List.concat bs)%list.
Proof.
  intros b c bs Hi Hc Hp. destruct (BWritev_ok b c bs Hi Hc Hp) as (b' & H & I & _ & C & _).
  exists b'. cbn [bstep]. rewrite H. auto.
Qed.

Theorem read_exact : forall b n, binv b -> 0 <= n ->
  exists b' e, bstep b (BoRead n) = Ret (b', XRead (ztake n (bcontent b)) (Z.min n (zlen (bcontent b))) e) /\
    binv b' /\ bcontent b' = zdrop n (bcontent b) /\ (0 < n <= zlen (bcontent b) -> e = XNil).
Proof.
  intros b n Hi Hn. destruct (BRead_ok b n Hi Hn) as (b' & e & H & I & _ & C & E).
  exists b', e. cbn [bstep]. rewrite H. cbn [omap]. pose proof (zlen_nonneg (bcontent b)) as Hq.
  replace (zlen (ztake n (bcontent b))) with (Z.min n (zlen (bcontent b))) by zl. auto.
Qed.

Theorem readfrom_exact : forall b c src sc, binv b -> 0 <= c -> script_ok sc ->
  exists b' k e, bstep b (BoReadFrom c src sc) = Ret (b', XReadFrom k e (zlen src - k)) /\ binv b' /\
    0 <= k <= zlen src /\ bcontent b' = (bcontent b ++ ztake k src)%list.
Proof.
  intros b c src sc Hi Hc Hsc. destruct (BReadFrom_ok b c src sc Hi Hc Hsc) as (b' & k & e & H & I & _ & Hk & C & _).
  exists b', k, e. cbn [bstep]. rewrite H. auto.
Qed.

Theorem writeto_exact : forall b sc, binv b -> script_ok sc ->
  exists b' n e, bstep b (BoWriteTo sc) = Ret (b', XWriteTo n e (ztake n (bcontent b))) /\ binv b' /\
    0 <= n <= zlen (bcontent b) /\ bcontent b' = zdrop n (bcontent b) /\ (e = XNil -> bcontent b' = []).
Proof.
  intros b sc Hi Hsc. destruct (BWriteTo_ok b sc Hi Hsc) as (b' & n & e & H & I & _ & C & Hn & E).
  exists b', n, e. cbn [bstep]. rewrite H. auto.
Qed.

Theorem reset_release_exact : forall b m, binv b ->
  binv (BReset b m) /\ bcontent (BReset b m) = [] /\ binv (BRelease b) /\ bcontent (BRelease b) = [].
Proof.
  intros b m Hi. destruct (BReset_ok b m Hi). destruct (BRelease_ok b Hi). auto.
Qed.

(* every state reached from a fresh buffer satisfies the invariant the
   theorems above ask for *)
Theorem reachable_inv : forall m ops b outs, Forall bop_wf ops ->
  run_bops (fresh m) ops = Ret (b, outs) -> binv b.
Proof.
  intros m ops b outs Hwf Hr. destruct (elastic_refines_fifo m ops Hwf) as (b' & outs' & Hr' & I & _).
  rewrite Hr in Hr'. injection Hr' as <- <-. exact I.
Qed.
