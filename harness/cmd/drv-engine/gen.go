package main

import (
	"flag"
	"fmt"
	"os"
	"runtime"
	"sort"
	"strings"
	"time"

	gnet "github.com/panjf2000/gnet/v2"
	"github.com/panjf2000/gnet/v2/pkg/logging"
	"github.com/panjf2000/gnet/v2/pkg/vunix"

	"verifharness/tr"
)

// runner executes ops on one harness and writes them to the trace
type runner struct {
	x   *X
	w   *tr.Writer
	rnd *tr.Rand
}

func (r *runner) do(name string, args ...string) tr.Line {
	t0 := time.Now()
	out, obs := r.x.do(tr.L(name, args...))
	if os.Getenv("VERIF_TIMING") != "" {
		fmt.Fprintf(os.Stderr, "   %s %v %v\n", name, args, time.Since(t0))
	}
	r.w.Op(out)
	for _, o := range obs {
		r.w.Obs(o)
	}
	return out
}

// par launches the given calls on their goroutines without waiting in between; every op
// still gets its own window in the trace (the calls of a batch do not influence each other).
func (r *runner) par(ops []tr.Line) {
	r.w.Op(tr.L("par", tr.I(len(ops))))
	x := r.x
	x.settleAll()
	pre := x.window(false)
	old := settleSkip
	settleSkip = true
	outs := make([]tr.Line, len(ops))
	for i, op := range ops {
		outs[i], _ = x.doNoWindow(op)
	}
	settleSkip = old
	x.waitFor(time.Second, func() bool {
		for _, op := range ops {
			if op.Name == "call" && x.busy[op.Int(0)] && !x.blockingCall(op) {
				return false
			}
		}
		return true
	})
	x.settleAll()
	evs := append(pre, x.window(false)...)
	used := make([]bool, len(evs))
	for i, op := range outs {
		r.w.Op(op)
		for j, e := range evs {
			if used[j] {
				continue
			}
			mine := op.Name == "call" && len(e.Args) > 2 && e.Args[0] == "U" && e.Args[1] == op.Args[0]
			if mine || (i == 0 && e.Args[0] != "U") {
				used[j] = true
				r.w.Obs(e)
				if mine {
					break
				}
			}
		}
	}
}

var settleSkip bool
var statsPath string

func (x *X) doNoWindow(op tr.Line) (tr.Line, []tr.Line) {
	if op.Name == "call" {
		return x.doCall(op), nil
	}
	return op, nil
}

func (x *X) blockingCall(op tr.Line) bool {
	return len(op.Args) > 2 && (op.Args[1] == "stop" || op.Args[1] == "pkgstop") && op.Args[len(op.Args)-1] == "0"
}

// ---------------------------------------------------------------- one case

func runCase(w *tr.Writer, id string, cfg caseCfg, body func(r *runner)) {
	x := newX(cfg)
	vunix.SetHooks(x)
	w.Case(id, "engine", cfg.header()...)
	w.Op(cfg.cfgOp())
	r := &runner{x: x, w: w}
	t0 := time.Now()
	// watchdog: a case that does not finish; show where everything is blocked, keep the cases
	// completed so far, report the stuck one and stop generating
	wd := time.AfterFunc(40*time.Second, func() {
		buf := make([]byte, 1<<20)
		n := runtime.Stack(buf, true)
		fmt.Fprintf(os.Stderr, "drv-engine: case %s stuck for 40 s, dropped; goroutines:\n%s\n", id, buf[:n])
		if d := os.Getenv("VERIF_STUCK_DIR"); d != "" {
			os.WriteFile(fmt.Sprintf("%s/stuck-%d-%s.txt", d, os.Getpid(), id), buf[:n], 0o644)
		}
		// "returns within a bounded time" / "Stop ... without cancelling the shutdown": a case that never
		// completes on a tree where every other case does is reported, with the ops issued so far
		w.Fail("case-stuck", "watchdog", "the case did not complete within 40 s (engine or control call never returned); goroutine dump on stderr")
		w.End()
		w.Close(statsPath)
		os.Exit(0)
	})
	defer wd.Stop()
	panicked, msg := tr.Guard(func() { body(r) })
	if os.Getenv("VERIF_TIMING") != "" {
		fmt.Fprintf(os.Stderr, "%s body %v\n", id, time.Since(t0))
	}
	if panicked {
		w.Fail("harness", "panic", msg)
	}
	x.cleanup()
	time.Sleep(2 * time.Millisecond)
	x.oracles(w)
	vunix.SetHooks(nil)
	w.Hist("mode-" + map[bool]string{true: "client", false: "server"}[cfg.client] + "-" + cfg.proto +
		map[bool]string{true: "-reactor", false: "-reuseport"}[cfg.reactor()] + fmt.Sprintf("-%dloops", cfg.nloops) +
		map[bool]string{true: "-et", false: "-lt"}[cfg.et] + map[bool]string{true: "-ticker", false: ""}[cfg.ticker] +
		fmt.Sprintf("-%dlis", cfg.nlis))
	w.End()
}

func replayCase(w *tr.Writer, c tr.Case) {
	cfg := cfgFrom(c.Cfg)
	runCase(w, c.ID, cfg, func(r *runner) {
		ops := c.Ops
		for i := 0; i < len(ops); i++ {
			op := ops[i]
			switch op.Name {
			case "cfg":
			case "par":
				n := 0
				if len(op.Args) > 0 {
					n = op.Int(0)
				}
				if i+n >= len(ops) {
					n = len(ops) - i - 1
				}
				r.par(ops[i+1 : i+1+n])
				i += n
			default:
				r.do(op.Name, op.Args...)
			}
		}
		for _, op := range ops {
			if op.Name != "cfg" {
				w.Tag("replay-" + op.Name)
			}
		}
	})
}

// ---------------------------------------------------------------- generators

var acts = []string{"none", "close", "shutdown"}

func genCfg(rnd *tr.Rand) caseCfg {
	c := caseCfg{nusers: 4, nlis: 1}
	c.proto = rnd.PickS([]string{"tcp", "tcp", "tcp", "unix", "udp"})
	c.nloops = rnd.Pick([]int{1, 2, 2, 4})
	c.reuseport = rnd.Chance(50)
	c.ticker = rnd.Chance(40)
	c.et = rnd.Chance(40) && c.proto != "udp"
	if rnd.Chance(25) && c.proto != "udp" {
		c.nlis = 2
	}
	return c
}

// liveConns returns the connections the harness believes open: cid, loop
func (r *runner) liveConns() [][2]int {
	x := r.x
	x.mu.Lock()
	defer x.mu.Unlock()
	var out [][2]int
	for _, c := range x.conns {
		if c.cid >= 0 && c.opened > 0 && c.closed == 0 {
			out = append(out, [2]int{c.cid, c.li})
		}
	}
	sort.Slice(out, func(i, j int) bool { return out[i][0] < out[j][0] })
	return out
}

// handles returns the loops whose EventLoop handle the harness holds (as [cid, loop] pairs, cid unused)
func (r *runner) handles() [][2]int {
	r.x.mu.Lock()
	defer r.x.mu.Unlock()
	var out [][2]int
	for li := range r.x.loopHandle {
		if li >= 0 {
			out = append(out, [2]int{0, li})
		}
	}
	sort.Slice(out, func(i, j int) bool { return out[i][1] < out[j][1] })
	return out
}

func (r *runner) returned() bool {
	r.x.mu.Lock()
	defer r.x.mu.Unlock()
	return r.x.returned
}

func (r *runner) connectSome(n int) {
	for i := 0; i < n && !r.returned(); i++ {
		a := "none"
		ca := "none"
		if r.rnd.Chance(12) {
			a = "close"
			ca = r.rnd.PickS([]string{"none", "close"})
		}
		r.do("connect", "0", a, "0", ca)
	}
}

func (r *runner) trafficSome(n int) {
	for i := 0; i < n && !r.returned(); i++ {
		lc := r.liveConns()
		if len(lc) == 0 {
			return
		}
		c := lc[r.rnd.Intn(len(lc))]
		switch k := r.rnd.Intn(10); {
		case k < 6:
			r.do("traffic", tr.I(c[0]), tr.I(c[1]), "none", "0", "none")
		case k < 7:
			r.do("traffic", tr.I(c[0]), tr.I(c[1]), "close", "0", r.rnd.PickS([]string{"none", "close"}))
		case k < 8:
			r.do("traffic", tr.I(c[0]), tr.I(c[1]), "none", "1", r.rnd.PickS([]string{"none", "close"}))
		default:
			r.do("peerclose", tr.I(c[0]), tr.I(c[1]), r.rnd.PickS([]string{"none", "close"}))
		}
	}
}

// source issues one shutdown request; returns its name
func (r *runner) source(avoidLoop int) string {
	cfg := r.x.cfg
	lc := r.liveConns()
	var usable [][2]int
	for _, c := range lc {
		if c[1] != avoidLoop {
			usable = append(usable, c)
		}
	}
	var cands []string
	cands = append(cands, "stop-live", "stop-expired", "pkgstop")
	if len(usable) > 0 {
		cands = append(cands, "ontraffic", "ontraffic", "onclose-peer", "onclose-action", "ontraffic-wfail")
	}
	if avoidLoop < 0 && cfg.proto != "udp" {
		cands = append(cands, "onopen", "onopen-wfail")
	}
	if cfg.ticker && !r.x.pinT {
		cands = append(cands, "ontick", "ontick")
	}
	if cfg.proto == "udp" && avoidLoop < 0 {
		cands = []string{"stop-live", "stop-expired", "pkgstop", "datagram", "datagram"}
		if cfg.ticker {
			cands = append(cands, "ontick")
		}
	}
	src := r.rnd.PickS(cands)
	pick := func() [2]int { return usable[r.rnd.Intn(len(usable))] }
	switch src {
	case "stop-live":
		r.do("call", "0", "stop", "0")
	case "stop-expired":
		r.do("call", "0", "stop", "1")
	case "pkgstop":
		r.do("call", "0", "pkgstop", "1", tr.B(r.rnd.Chance(50)))
	case "ontraffic":
		c := pick()
		r.do("traffic", tr.I(c[0]), tr.I(c[1]), "shutdown", "0", "none")
	case "ontraffic-wfail":
		c := pick()
		r.do("traffic", tr.I(c[0]), tr.I(c[1]), "shutdown", "1", r.rnd.PickS([]string{"none", "close"}))
	case "onclose-peer":
		c := pick()
		r.do("peerclose", tr.I(c[0]), tr.I(c[1]), "shutdown")
	case "onclose-action":
		c := pick()
		r.do("traffic", tr.I(c[0]), tr.I(c[1]), "close", "0", "shutdown")
	case "onopen":
		r.do("connect", "0", "shutdown", "0", "none")
	case "onopen-wfail":
		r.do("connect", "0", "shutdown", "1", "none")
	case "ontick":
		r.do("tick", "shutdown")
	case "datagram":
		r.do("datagram", "0", "shutdown")
	}
	r.w.Tag("source-" + src)
	return src
}

func (r *runner) afterShutdown() {
	r.do("poke")
	if r.rnd.Chance(50) {
		r.do("call", "1", "validate")
		r.do("call", "1", "stop", tr.B(r.rnd.Chance(50)))
		r.do("call", "2", "count")
	}
	r.do("probe")
	r.do("finish")
}

func genShutdown(rnd *tr.Rand, w *tr.Writer, id string) {
	if rnd.Chance(12) {
		genClientShutdown(rnd, w, id)
		return
	}
	cfg := genCfg(rnd)
	runCase(w, id, cfg, func(r *runner) {
		r.rnd = rnd
		if rnd.Chance(6) {
			r.do("boot", "shutdown")
			w.Tag("source-onboot")
			r.do("poke")
			r.do("finish")
			return
		}
		r.do("boot", "none")
		if cfg.ticker && rnd.Chance(50) {
			r.do("tick", "none")
		}
		if cfg.proto == "udp" {
			for i := rnd.Intn(3); i > 0; i-- {
				r.do("datagram", "0", "none")
			}
			moment := rnd.PickS([]string{"idle", "idle", "onshutdown", "closepollers"})
			w.Tag("moment-" + moment)
			switch moment {
			case "idle":
				r.source(-1)
			case "onshutdown":
				r.do("pin", "R:onshutdown")
				r.source(-1)
				r.do("datagram", "0", "none")
				r.do("release", "R:onshutdown")
			case "closepollers":
				r.do("pin", "R:closepollers")
				r.source(-1)
				r.do("probe")
				r.do("release", "R:closepollers")
			}
			r.afterShutdown()
			return
		}
		r.connectSome(rnd.Intn(5))
		r.trafficSome(rnd.Intn(4))
		if rnd.Chance(30) {
			r.do("probe")
		}
		lc := r.liveConns()
		moments := []string{"idle", "idle", "onshutdown", "closepollers"}
		if len(lc) > 0 {
			moments = append(moments, "active", "active")
		}
		if cfg.nloops == 1 && cfg.reactor() {
			moments = append(moments, "accepting")
		}
		if cfg.ticker {
			moments = append(moments, "ticking")
		}
		moment := rnd.PickS(moments)
		w.Tag("moment-" + moment)
		switch moment {
		case "idle":
			r.source(-1)
		case "active":
			// a callback of one connection is in progress when the request arrives
			c := lc[rnd.Intn(len(lc))]
			r.do("pin", "L", tr.I(c[1]))
			inner := rnd.PickS([]string{"none", "none", "close", "shutdown"})
			r.do("traffic", tr.I(c[0]), tr.I(c[1]), inner, "0", "none")
			if inner != "shutdown" || rnd.Chance(50) {
				r.source(c[1])
			} else {
				w.Tag("source-ontraffic")
			}
			r.do("release", "L", tr.I(c[1]))
		case "accepting":
			// a connection is being opened when the request arrives
			r.do("pin", "L", "0")
			r.do("connect", "0", rnd.PickS([]string{"none", "close"}), "0", "none")
			r.source(0)
			r.do("release", "L", "0")
		case "onshutdown":
			// the engine is cancelled and OnShutdown is running: loops still serve
			r.do("pin", "R:onshutdown")
			src := r.source(-1)
			// every loop still serves and accepts if the request came from outside the loops
			if rnd.Chance(70) && strings.HasPrefix(src, "stop") || src == "pkgstop" {
				r.do("connect", "0", "none", "0", "none")
			}
			r.trafficSome(rnd.Intn(2))
			if rnd.Chance(30) {
				r.do("call", "3", "stop", "0")
			}
			r.do("release", "R:onshutdown")
		case "closepollers":
			// every loop has exited, Wait has returned, inShutdown is not yet set
			r.do("pin", "R:closepollers")
			r.source(-1)
			r.do("probe")
			if rnd.Chance(50) {
				r.do("call", "3", "stop", "0")
			}
			r.do("release", "R:closepollers")
		case "ticking":
			r.do("pin", "T")
			r.do("tick", rnd.PickS([]string{"none", "shutdown"}))
			r.source(-1)
			r.do("release", "T")
		}
		r.afterShutdown()
	})
}

func genClientShutdown(rnd *tr.Rand, w *tr.Writer, id string) {
	cfg := caseCfg{client: true, nloops: rnd.Pick([]int{1, 2}), ticker: rnd.Chance(40), et: rnd.Chance(40), proto: "tcp", nlis: 1, nusers: 4}
	runCase(w, id, cfg, func(r *runner) {
		r.rnd = rnd
		r.do("boot", rnd.PickS([]string{"none", "none", "shutdown"}))
		for i := rnd.Intn(4); i > 0; i-- {
			// (a Shutdown answered by a client's handler makes that one loop leave while the client goes on: a later
			// Dial that the load balancer gives to the dead loop never returns -- the stranding of the recorded
			// finding register-stranded-when-loop-exited; no further Dial is issued after such an answer)
			a := rnd.PickS([]string{"none", "none", "none", "close", "shutdown"})
			r.do("call", "0", "dial", "0", a, "0", "none")
			if a == "shutdown" {
				w.Tag("client-onopen-shutdown")
				break
			}
		}
		r.trafficSome(rnd.Intn(3))
		if rnd.Chance(30) {
			// a handler of the client answers Shutdown before anybody calls Stop: its loop leaves, the client is NOT
			// stopped yet -- Client.Stop still has everything to do (OnShutdown, the other loops, the pollers)
			if lc := r.liveConns(); len(lc) > 0 {
				c := lc[rnd.Intn(len(lc))]
				r.do("traffic", tr.I(c[0]), tr.I(c[1]), "shutdown", "0", "none")
				w.Tag("client-handler-shutdown-before-stop")
				r.do("probe")
			}
		}
		if cfg.ticker && rnd.Chance(50) {
			r.do("tick", "none")
		}
		moment := rnd.PickS([]string{"idle", "idle", "onshutdown"})
		w.Tag("moment-client-" + moment)
		if moment == "onshutdown" {
			r.do("pin", "R:onshutdown")
			r.do("clientstop")
			r.trafficSome(1)
			r.do("release", "R:onshutdown")
		} else {
			r.do("clientstop")
		}
		w.Tag("source-client.stop")
		r.do("poke")
		r.do("call", "1", "validate")
		r.do("finish")
	})
}

// ---- control focus

// openAct: what OnOpen of a registered / dialled connection answers.  Whatever it is -- the connection is kept, closed
// at once, or the engine is asked to shut down -- the registration delivers its one result
func (r *runner) openAct() string {
	return r.rnd.PickS([]string{"none", "none", "none", "close", "close", "shutdown"})
}

func (r *runner) randCalls(n int, withRegister bool) {
	cfg := r.x.cfg
	for i := 0; i < n; i++ {
		g := tr.I(r.rnd.Intn(3))
		lc := r.handles()
		k := r.rnd.Intn(14)
		switch {
		case k == 0:
			r.do("call", g, "validate")
		case k == 1:
			r.do("call", g, "count")
		case k == 2:
			r.do("call", g, "dup")
		case k == 3:
			r.do("call", g, "duplistener", tr.B(r.rnd.Chance(60)))
		case k == 4:
			r.do("call", g, "register", "none", "0", "1", "none", "0", "none")
		case k == 5 && withRegister:
			r.do("call", g, "register", "addr", "0", "1", r.openAct(), "0", "none")
		case k == 6 && withRegister:
			r.do("call", g, "register", "addr", "0", "0", "none", "0", "none")
		case k == 7 && withRegister:
			r.do("call", g, "register", "conn", "0", r.rnd.PickS([]string{"1", "1", "0"}), r.openAct(), "0", "none")
		case k == 8 && len(lc) > 0:
			r.do("call", g, "elregister", tr.I(lc[0][1]), tr.B(r.rnd.Chance(50)), "1", r.openAct(), "0", "none")
		case k == 9 && len(lc) > 0:
			r.do("call", g, "elenroll", tr.I(lc[0][1]), tr.B(r.rnd.Chance(40)), r.rnd.PickS([]string{"1", "1", "0"}), r.openAct(), "0", "none")
		case k == 10 && len(lc) > 0:
			r.x.execN++
			r.do("call", g, "execute", tr.I(lc[0][1]), tr.B(r.rnd.Chance(40)), tr.I(r.x.execN))
		case k == 11 && cfg.ticker:
			r.do("tick", "none")
		default:
			r.do("call", g, "validate")
		}
	}
}

func (r *runner) batch(n int, allowStop bool) {
	var ops []tr.Line
	gs := r.rnd.Intn(4) + 1
	for g := 0; g < gs && g < n; g++ {
		var op tr.Line
		switch r.rnd.Intn(7) {
		case 0:
			op = tr.L("call", tr.I(g), "validate")
		case 1:
			op = tr.L("call", tr.I(g), "count")
		case 2:
			op = tr.L("call", tr.I(g), "dup")
		case 3:
			op = tr.L("call", tr.I(g), "duplistener", tr.B(r.rnd.Chance(50)))
		case 4:
			op = tr.L("call", tr.I(g), "register", "none", "0", "1", "none", "0", "none")
		case 5:
			if allowStop {
				op = tr.L("call", tr.I(g), "stop", "1")
			} else {
				op = tr.L("call", tr.I(g), "count")
			}
		default:
			op = tr.L("call", tr.I(g), "validate")
		}
		ops = append(ops, op)
	}
	r.par(ops)
}

// genClientControl: the client's own control calls in every state of the client: Dial before Start
// (refused: no event loop), Dial while running, Client.Stop, then Dial and a further Client.Stop on the
// stopped client (both refused, nothing touched)
func genClientControl(rnd *tr.Rand, w *tr.Writer, id string) {
	cfg := caseCfg{client: true, nloops: rnd.Pick([]int{1, 2}), ticker: rnd.Chance(30), et: rnd.Chance(40), proto: "tcp", nlis: 1, nusers: 4}
	w.Hist("variant-client")
	runCase(w, id, cfg, func(r *runner) {
		r.rnd = rnd
		w.Tag("phase-client")
		for i := rnd.Intn(3); i > 0; i-- {
			r.do("call", tr.I(rnd.Intn(2)), "dial", "0", "none", "0", "none")
			w.Tag("client-dial-before-start")
		}
		if rnd.Chance(15) {
			// a client that is never started at all
			r.do("finish")
			return
		}
		r.do("boot", "none")
		for i := rnd.Intn(3); i > 0; i-- {
			r.do("call", tr.I(rnd.Intn(2)), "dial", "0", "none", "0", "none")
		}
		r.trafficSome(rnd.Intn(2))
		if rnd.Chance(40) {
			// a handler answers Shutdown: one loop leaves, the client is still to be stopped -- the first Client.Stop
			// is not "already in shutdown"
			if lc := r.liveConns(); len(lc) > 0 {
				c := lc[rnd.Intn(len(lc))]
				r.do("traffic", tr.I(c[0]), tr.I(c[1]), "shutdown", "0", "none")
				w.Tag("client-handler-shutdown-before-stop")
				r.do("probe")
			}
		}
		r.do("call", "2", "clistop") // not stopped yet: not issued (disabled)
		r.do("clientstop")
		r.do("poke")
		for i := rnd.Range(1, 4); i > 0; i-- {
			if rnd.Chance(50) {
				r.do("call", tr.I(rnd.Intn(3)), "dial", "0", "none", "0", "none")
				w.Tag("client-dial-after-stop")
			} else {
				r.do("call", tr.I(rnd.Intn(3)), "clistop")
				w.Tag("client-stop-twice")
			}
		}
		r.do("call", "1", "validate")
		r.do("probe")
		r.do("finish")
	})
}

func genControl(rnd *tr.Rand, w *tr.Writer, id string) {
	if rnd.Chance(10) {
		genClientControl(rnd, w, id)
		return
	}
	cfg := genCfg(rnd)
	if cfg.proto == "udp" && rnd.Chance(60) {
		cfg.proto = "tcp"
	}
	variant := rnd.PickS([]string{"zero", "onboot", "running", "running", "running", "stopping", "stopping"})
	w.Hist("variant-" + variant)
	runCase(w, id, cfg, func(r *runner) {
		r.rnd = rnd
		w.Tag("phase-" + variant)
		switch variant {
		case "zero":
			// a handle that never belonged to an engine
			r.randCalls(rnd.Range(2, 6), false)
			r.do("call", "0", "stop", tr.B(rnd.Chance(50)))
			r.batch(4, true)
			r.do("call", "1", "pkgstop", "0", "1")
			r.do("finish")
		case "onboot":
			// the handle captured in OnBoot, used before start has completed
			r.do("pin", "R:boot")
			r.do("boot", "none")
			r.do("call", "0", "validate")
			r.do("call", "0", "count")
			r.do("call", "1", "register", "addr", "0", "1", "none", "0", "none")
			r.do("call", "1", "dup")
			if rnd.Chance(50) {
				r.batch(4, false)
			}
			stopped := rnd.Chance(60)
			if stopped {
				r.do("call", "2", "stop", "1")
				if rnd.Chance(50) {
					r.do("call", "3", "stop", "0")
				}
				r.batch(3, true)
			}
			r.do("release", "R:boot")
			if !stopped {
				r.connectSome(rnd.Intn(2))
				r.randCalls(rnd.Intn(4), true)
				r.do("call", "2", "stop", "0")
			}
			r.do("call", "0", "validate")
			r.do("call", "0", "stop", "0")
			r.do("finish")
		case "running":
			r.do("boot", "none")
			if cfg.proto != "udp" {
				r.connectSome(rnd.Intn(4))
			}
			r.randCalls(rnd.Range(3, 9), true)
			r.batch(4, false)
			r.do("probe")
			if rnd.Chance(50) {
				r.do("call", "3", "stop", "1")
			} else if rnd.Chance(50) {
				r.do("call", "3", "pkgstop", "1", "1")
			} else {
				r.do("call", "3", "stop", "0")
			}
			r.randCalls(rnd.Range(2, 5), true)
			r.batch(4, true)
			r.do("call", "0", "stop", "0")
			r.do("call", "0", "pkgstop", "1", "0")
			r.do("probe")
			r.do("finish")
		case "stopping":
			r.do("boot", "none")
			if cfg.proto != "udp" {
				r.connectSome(rnd.Intn(3))
			}
			r.randCalls(rnd.Intn(3), true)
			pin := rnd.PickS([]string{"R:onshutdown", "R:closepollers"})
			w.Tag("pin-" + pin)
			r.do("pin", pin)
			r.do("call", "3", "stop", "1")
			// during shutdown: every call is still accepted
			r.do("call", "0", "validate")
			r.do("call", "0", "count")
			r.do("call", "1", "dup")
			r.do("call", "1", "register", "none", "0", "1", "none", "0", "none")
			if pin == "R:onshutdown" {
				r.randCalls(rnd.Intn(4), true)
			}
			r.batch(4, true)
			for g := 0; g < rnd.Intn(3)+1; g++ {
				r.do("call", tr.I(g), "stop", "0")
			}
			if rnd.Chance(40) {
				r.do("expire", "0")
			}
			r.do("probe")
			r.do("release", pin)
			r.randCalls(rnd.Range(2, 5), true)
			r.batch(4, true)
			r.do("call", "0", "stop", "0")
			r.do("probe")
			r.do("finish")
		}
	})
}

// ---------------------------------------------------------------- main

func main() {
	seed := flag.Uint64("seed", 1, "")
	tier := flag.String("tier", "quick", "")
	out := flag.String("out", "trace.txt", "")
	stats := flag.String("stats", "", "")
	rep := flag.String("replay", "", "")
	focus := flag.String("focus", "shutdown", "control | shutdown")
	ncases := flag.Int("n", 0, "")
	flag.Parse()
	logging.SetDefaultLoggerAndFlusher(nopLogger{}, nil)
	gnet.VerifEngSetShutdownPollInterval(2 * time.Millisecond)
	w := tr.NewWriter(*out)
	statsPath = *stats
	defer w.Close(*stats)
	if *rep != "" {
		for _, c := range tr.ReadCases(*rep) {
			replayCase(w, c)
		}
		return
	}
	n := *ncases
	if n == 0 {
		n = 600
		if *tier == "thorough" {
			n = 4000
		}
	}
	budget := 32 * time.Second
	if *tier == "thorough" {
		budget = 12 * time.Minute
	}
	t0 := time.Now()
	for i := 0; i < n && time.Since(t0) < budget; i++ {
		rnd := tr.NewRand(*seed*1000003 + uint64(i))
		id := fmt.Sprintf("%s%d", strings.ToUpper((*focus)[:1]), i)
		if *focus == "control" {
			genControl(rnd, w, id)
		} else {
			genShutdown(rnd, w, id)
		}
	}
	_ = os.Stdout
}
