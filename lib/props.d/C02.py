import os, sys
sys.path.insert(0, os.path.dirname(os.path.dirname(os.path.abspath(__file__))))
from loopfam import drv, RULE, TRUSTED, ASSUME, GENS

PROP = dict(gens=GENS, drivers=[drv("stream"), drv("client", n=40), drv("multi", n=30), drv("stream", n=40, tags="verif poll_opt")], sites=['^loop-stuck$', '^outbound-', '^engine-start$', '^harness$'], rule=RULE, trusted=TRUSTED, assumptions=ASSUME)
