(* C07: descriptor ownership of the event-loop model, for every input stream.
   Corollary of Proofs/LoopATop.v (product_holds), and the refutation of the statement
   without the stale-event exemption. *)
From GV Require Import Lib.Trace Model.Loop Spec.LoopSpec
  Proofs.LoopInv Proofs.LoopAState Proofs.LoopATop.
Open Scope string_scope.
Open Scope list_scope.
Open Scope Z_scope.

Theorem fd_safety_partial : forall i t,
  run_history i = Some t -> fd_ok_but_stale_del (statics i) t = true.
Proof.
  intros i t H. unfold fd_ok_but_stale_del. rewrite check_runs.
  assert (Hp := product_holds i t H). unfold pst0 in Hp.
  apply runs_pstep_fd in Hp.
  destruct (runs fd_step_stale (mkFd [] (statics i) None) t); congruence.
Qed.

(* a ready event for a descriptor nobody registered: the reactor answers with
   epoll_ctl(DEL) on a number the loop does not own *)
Definition stale_input : list line := [
  ("cfg", [AInt 0; AInt 0; AInt 64; AInt 3; AInt 1024; AInt 10]);
  ("wait", [AInt 99; AInt 1]);
  ("r", [ASym "epctl"; AInt (-1); ASym "enoent"]);
  ("wait", [])
].

Theorem fd_safety_refuted :
  ~ (forall i t, run_history i = Some t -> fd_ok (statics i) t = true).
Proof.
  intros H.
  assert (Hx : exists t, run_history stale_input = Some t /\ fd_ok (statics stale_input) t = false).
  { eexists. split; [vm_compute; reflexivity|vm_compute; reflexivity]. }
  destruct Hx as [t [H1 H2]]. rewrite (H _ _ H1) in H2. discriminate.
Qed.

(* non-vacuity: on that very run the ledger with the exemption holds and has seen the call *)
Example ex_stale_partial :
  match run_history stale_input with
  | Some t => (fd_ok_but_stale_del (statics stale_input) t,
               existsb (fun e => match e with EOut ("sys", _) => true | _ => false end) t)
  | None => (false, false)
  end = (true, true).
Proof. vm_compute. reflexivity. Qed.

(* the ledger is not trivially true: a write on a descriptor that was closed is rejected *)
Example ex_fd_rejects :
  fd_ok_but_stale_del [3]
    [EIn ("accepted", [AInt 5]);
     EOut (obs "sys" [ASym "close"; AInt 5]); EIn ("r", [ASym "close"; AInt 0]);
     EOut (obs "sys" [ASym "wr"; AInt 5])] = false.
Proof. vm_compute. reflexivity. Qed.
