(* One-step unfolding equations of the mutual block of Model/Loop.v (el_close ... hcall),
   the named inner loop of el_open and el_open in three parts.  Every lemma is proved by
   `reflexivity`: the right-hand sides are the text of Model/Loop.v (the first part of this
   file was produced by cutting each `| S f => ...` branch out of the model; if the model
   text changes, the failing lemma shows which body to paste again). *)
From GV Require Import Lib.Trace Model.Loop.
Open Scope string_scope.
Open Scope list_scope.
Open Scope Z_scope.

Lemma el_close_S : forall f (cid : Z) (err_nil : bool) (w : world),
  el_close (S f) cid err_nil w =
  (
    let c := wc w cid in
    if negb (c_opened c) || (match alookup (c_fd c) (l_reg (st w)) with None => true | Some _ => false end)
    then (RNil, w)
    else
      let w1 := with_st w (set_reg (st w) (aremove (c_fd c) (l_reg (st w)))) in
      let w2 := emit (obs "cb" [ASym "close"; AInt cid; err_sym err_nil]) w1 in
      let '(act, _, w3) := handler f cid w2 in
      let w4 := close_drain f cid w3 in
      let c4 := wc w4 cid in
      let w5 := wsetc w4 cid (c_release c4) in
      let '(r0, w6) := epctl "del" (c_fd c4) false false w5 in
      let '(k1, w7) := sys "close" [AInt (c_fd c4)] w6 in
      let bad := match r0, k1 with RNil, KErr _ => true | RNil, _ => false | _, _ => true end in
      if bad then (RErr, w7)
      else match act with
           | ANone => (RNil, w7)
           | AClose => el_close f cid true w7
           | AShutdown => (RShutdown, w7)
           end).
Proof. reflexivity. Qed.

Lemma el_close_O : forall (cid : Z) (err_nil : bool) (w : world),
  el_close O cid err_nil w = ((RErr, desync "fuel" w)).
Proof. reflexivity. Qed.

Lemma close_drain_S : forall f (cid : Z) (w : world),
  close_drain (S f) cid w =
  (
    let c := wc w cid in
    match c_out c with
    | [] => w
    | _ =>
      match sys_wr cid (c_fd c) (c_out c) false w with
      | (KOk n _, w1) =>
          let c1 := wc w1 cid in
          close_drain f cid (wsetc w1 cid (c_set_out c1 (zdrop n (c_out c1))))
      | (_, w1) => w1
      end
    end).
Proof. reflexivity. Qed.

Lemma close_drain_O : forall (cid : Z) (w : world),
  close_drain O cid w = (desync "fuel" w).
Proof. reflexivity. Qed.

Lemma conn_write_S : forall f (cid : Z) (data : list Z) (w : world),
  conn_write (S f) cid data w =
  (
    let c := wc w cid in
    let n := zlen data in
    if negb (c_opened c) then ((0, false), w) else
    let w := ghost "sub" cid data w in
    match c_out c with
    | _ :: _ => ((n, true), wsetc w cid (c_set_out c (c_out c ++ data)))
    | [] =>
      let '(rn, ok, w1) := conn_write_loop f cid data n w in
      if ok then ((rn, true), w1)
      else let '(_, w2) := el_close f cid false w1 in ((rn, false), w2)
    end).
Proof. reflexivity. Qed.

Lemma conn_write_O : forall (cid : Z) (data : list Z) (w : world),
  conn_write O cid data w = (((0, false), desync "fuel" w)).
Proof. reflexivity. Qed.

Lemma conn_write_loop_S : forall f (cid : Z) (data : list Z) (n : Z) (w : world),
  conn_write_loop (S f) cid data n w =
  (
    let c := wc w cid in
    let et := l_et (st w) in
    match sys_wr cid (c_fd c) data true w with
    | (KErr e, w1) =>
        if is_eagain e then
          let c1 := wc w1 cid in
          let w2 := wsetc w1 cid (c_set_out c1 (c_out c1 ++ data)) in
          if et then ((n, true), w2)
          else let '(r, w3) := epctl "mod" (c_fd c) true et w2 in
               ((n, match r with RNil => true | _ => false end), w3)
        else ((0, false), w1)
    | (KOk sent _, w1) =>
        let rest := zdrop sent data in
        match rest with
        | [] => ((n, true), w1)
        | _ =>
          if et then conn_write_loop f cid rest n w1
          else
            let c1 := wc w1 cid in
            let w2 := wsetc w1 cid (c_set_out c1 (c_out c1 ++ rest)) in
            let '(r, w3) := epctl "mod" (c_fd c) true et w2 in
            ((n, match r with RNil => true | _ => false end), w3)
        end
    | (KNone, w1) => ((n, true), w1)
    end).
Proof. reflexivity. Qed.

Lemma conn_write_loop_O : forall (cid : Z) (data : list Z) (n : Z) (w : world),
  conn_write_loop O cid data n w = (((0, false), desync "fuel" w)).
Proof. reflexivity. Qed.

Lemma conn_writev_loop_S : forall f (cid : Z) (segs : list (list Z)) (n : Z) (w : world),
  conn_writev_loop (S f) cid segs n w =
  (
    let c := wc w cid in
    let et := l_et (st w) in
    let iov := firstn iov_max segs in
    match sys_wr cid (c_fd c) (List.concat iov) true w with
    | (KErr e, w1) =>
        if is_eagain e then
          let c1 := wc w1 cid in
          let w2 := wsetc w1 cid (c_set_out c1 (c_out c1 ++ List.concat segs)) in
          if et then ((n, true), w2)
          else let '(r, w3) := epctl "mod" (c_fd c) true et w2 in
               ((n, match r with RNil => true | _ => false end), w3)
        else ((0, false), w1)
    | (KOk sent _, w1) =>
        let rest := drop_sent sent segs in
        match List.concat rest with
        | [] => ((n, true), w1)
        | _ =>
          if et then conn_writev_loop f cid rest n w1
          else
            let c1 := wc w1 cid in
            let w2 := wsetc w1 cid (c_set_out c1 (c_out c1 ++ List.concat rest)) in
            let '(r, w3) := epctl "mod" (c_fd c) true et w2 in
            ((n, match r with RNil => true | _ => false end), w3)
        end
    | (KNone, w1) => ((n, true), w1)
    end).
Proof. reflexivity. Qed.

Lemma conn_writev_loop_O : forall (cid : Z) (segs : list (list Z)) (n : Z) (w : world),
  conn_writev_loop O cid segs n w = (((0, false), desync "fuel" w)).
Proof. reflexivity. Qed.

Lemma conn_writev_S : forall f (cid : Z) (segs : list (list Z)) (w : world),
  conn_writev (S f) cid segs w =
  (
    let c := wc w cid in
    let data := List.concat segs in
    let n := zlen data in
    if negb (c_opened c) then ((0, false), w) else
    let w := ghost "sub" cid data w in
    match c_out c with
    | _ :: _ => ((n, true), wsetc w cid (c_set_out c (c_out c ++ data)))
    | [] =>
      match segs with
      | [] =>      (* gio.Writev with no segments performs no system call *)
          ((n, true), w)
      | _ =>
      let '(rn, ok, w1) := conn_writev_loop f cid segs n w in
      if ok then ((rn, true), w1)
      else let '(_, w2) := el_close f cid false w1 in ((rn, false), w2)
      end
    end).
Proof. reflexivity. Qed.

Lemma conn_writev_O : forall (cid : Z) (segs : list (list Z)) (w : world),
  conn_writev O cid segs w = (((0, false), desync "fuel" w)).
Proof. reflexivity. Qed.

Lemma el_write_S : forall f (cid : Z) (sent : Z) (w : world),
  el_write (S f) cid sent w =
  (
    let c := wc w cid in
    let et := l_et (st w) in
    if negb (c_opened c) then (RNil, w) else
    match c_out c with
    | [] => (RNil, w)
    | _ =>
      match sys_wr cid (c_fd c) (c_out c) false w with
      | (KNone, w1) => (RNil, w1)
      | (KErr e, w1) =>
          if is_eagain e then (RNil, w1) else el_close f cid false w1
      | (KOk n _, w1) =>
          let c1 := wc w1 cid in
          let out' := zdrop n (c_out c1) in
          let w2 := wsetc w1 cid (c_set_out c1 out') in
          let sent' := sent + n in
          match out' with
          | [] => if et then (RNil, w2) else epctl "mod" (c_fd c) false false w2
          | _ =>
            if et then
              if sent' <? l_chunk (st w2) then el_write f cid sent' w2
              else trigger false (TWrite0 cid) (ghost "rearm-write" cid [] w2)
            else (RNil, w2)
          end
      end
    end).
Proof. reflexivity. Qed.

Lemma el_write_O : forall (cid : Z) (sent : Z) (w : world),
  el_write O cid sent w = ((RErr, desync "fuel" w)).
Proof. reflexivity. Qed.

Lemma handler_S : forall f (cid : Z) (w : world),
  handler (S f) cid w =
  (
    match pull w with
    | (None, w1) => ((ANone, None), w1)
    | (Some ("hret", a :: rest), w1) =>
        ((action_of a, match rest with ABytes b :: _ => Some b | _ => None end), w1)
    | (Some ("h", ASym call :: args), w1) =>
        let w2 := hcall f cid call args w1 in handler f cid w2
    | (Some _, w1) => ((ANone, None), desync "expected-h" w1)
    end).
Proof. reflexivity. Qed.

Lemma handler_O : forall (cid : Z) (w : world),
  handler O cid w = (((ANone, None), desync "fuel" w)).
Proof. reflexivity. Qed.

Lemma hcall_S : forall f (cid : Z) (call : string) (args : list arg) (w : world),
  hcall (S f) cid call args w =
  (
  let c := wc w cid in
  let total := zlen (c_in c) + zlen (c_buf c) in
  let hr (vals : list arg) (w : world) := emit (obs "hr" (AInt cid :: ASym call :: vals)) w in
  (* the connection the call targets: `on <cid'>` prefix is handled by the caller *)
  if sym_eqb call "read" then
    match args with
    | [AInt n] =>
        (* conn.Read into a buffer of n bytes *)
        match c_in c with
        | [] =>
            let got := ztake n (c_buf c) in
            let w1 := wsetc w cid (c_set_buf c (zdrop n (c_buf c))) in
            hr [ABytes got; ASym (if (zlen got =? 0) && (0 <? n) then "short" else "nil")] w1
        | _ =>
            let a := ztake n (c_in c) in
            let in' := zdrop n (c_in c) in
            if zlen a =? n then hr [ABytes a; ASym "nil"] (wsetc w cid (c_set_in c in'))
            else
              let m := n - zlen a in
              let b := ztake m (c_buf c) in
              hr [ABytes (a ++ b); ASym "nil"]
                 (wsetc w cid (c_set_buf (c_set_in c in') (zdrop m (c_buf c))))
        end
    | _ => desync "h-read-args" w
    end
  else if sym_eqb call "next" then
    match args with
    | [AInt n] =>
        if n >? total then hr [ABytes []; ASym "short"] w
        else
          let n := if n <=? 0 then total else n in
          let all := c_in c ++ c_buf c in
          let got := ztake n all in
          let in' := zdrop n (c_in c) in
          let m := n - zlen (c_in c) in
          let buf' := if m >? 0 then zdrop m (c_buf c) else c_buf c in
          hr [ABytes got; ASym "nil"] (wsetc w cid (c_set_buf (c_set_in c in') buf'))
    | _ => desync "h-next-args" w
    end
  else if sym_eqb call "peek" then
    match args with
    | [AInt n] =>
        if n >? total then hr [ABytes []; ASym "short"] w
        else
          let n := if n <=? 0 then total else n in
          hr [ABytes (ztake n (c_in c ++ c_buf c)); ASym "nil"] w
    | _ => desync "h-peek-args" w
    end
  else if sym_eqb call "discard" then
    match args with
    | [AInt n] =>
        if (n >=? total) || (n <=? 0) then
          hr [AInt total] (wsetc w cid (c_set_buf (c_set_in c []) []))
        else
          match c_in c with
          | [] => hr [AInt n] (wsetc w cid (c_set_buf c (zdrop n (c_buf c))))
          | _ =>
            let inl := zlen (c_in c) in
            if n <? inl then hr [AInt n] (wsetc w cid (c_set_in c (zdrop n (c_in c))))
            else hr [AInt n] (wsetc w cid (c_set_buf (c_set_in c []) (zdrop (n - inl) (c_buf c))))
          end
    | _ => desync "h-discard-args" w
    end
  else if sym_eqb call "writeto" then
    (* WriteTo a writer that accepts at most `lim` more bytes in total (lim < 0: everything) and
       reports an error when it cannot take a whole Write *)
    let lim := match args with AInt n :: _ => n | _ => -1 end in
    if (lim <? 0) || (total <=? lim) then
      hr [ABytes (c_in c ++ c_buf c); AInt total; ASym "nil"]
         (wsetc w cid (c_set_buf (c_set_in c []) []))
    else if lim <? zlen (c_in c) then
      hr [ABytes (ztake lim (c_in c)); AInt lim; ASym "err"]
         (wsetc w cid (c_set_in c (zdrop lim (c_in c))))
    else
      let b := lim - zlen (c_in c) in
      hr [ABytes (c_in c ++ ztake b (c_buf c)); AInt lim; ASym "err"]
         (wsetc w cid (c_set_buf (c_set_in c []) (zdrop b (c_buf c))))
  else if sym_eqb call "inbuf" then hr [AInt total] w
  else if sym_eqb call "outbuf" then hr [AInt (zlen (c_out c))] w
  else if sym_eqb call "write" then
    match args with
    | [ABytes d] =>
        if c_udp c then
          if negb (c_remote c) && negb (c_opened c) then hr [AInt 0; ASym "err"] w else
          let '(k, w1) := sys "sendto" [AInt (c_fd c); ABytes d; bool_arg (c_remote c)] w in
          match k with
          | KErr _ => hr [AInt 0; ASym "err"] w1
          | _ => hr [AInt (zlen d); ASym "nil"] w1
          end
        else
          let '(n, ok, w1) := conn_write f cid d w in hr [AInt n; err_sym ok] w1
    | _ => desync "h-write-args" w
    end
  else if sym_eqb call "writev" then
    if c_udp c then hr [AInt 0; ASym "err"] w
    else let '(n, ok, w1) := conn_writev f cid (segs_of args) w in hr [AInt n; err_sym ok] w1
  else if sym_eqb call "flush" then
    if c_udp c then hr [ASym "nil"] w else
    if negb (c_opened c) then hr [ASym "err"] w else
    let '(r, w1) := el_write f cid 0 w in
    match r with
    | RNil =>
        let c1 := wc w1 cid in
        if negb (l_et (st w1)) && c_opened c1 && (match c_out c1 with [] => false | _ => true end) then
          let '(r2, w2) := epctl "mod" (c_fd c1) true false w1 in
          hr [ASym (match r2 with RNil => "nil" | _ => "err" end)] w2
        else hr [ASym "nil"] w1
    | RShutdown => hr [ASym "shutdown"] w1
    | _ => hr [ASym "err"] w1
    end
  else if sym_eqb call "readfrom" then
    match args with
    | [ABytes d] => hr [AInt (zlen d); ASym "nil"] (wsetc (ghost "sub" cid d w) cid (c_set_out c (c_out c ++ d)))
    | _ => desync "h-readfrom-args" w
    end
  else if sym_eqb call "asyncwrite" then
    match args with
    | [ABytes d; cb] =>
        if c_udp c then
          (* AsyncWrite on a datagram connection sends at once, without looking at `opened`
             (it may run on any goroutine): on a closed connected-UDP connection that is a send on
             a released descriptor -- marked, it is a recorded finding *)
          let w := if negb (c_remote c) && negb (c_opened c) then ghost "staleudp" cid [] w else w in
          let '(k, w1) := sys "sendto" [AInt (c_fd c); ABytes d; bool_arg (c_remote c)] w in
          let w2 := if flag_of cb then emit (obs "acb" [ASym "write"; AInt (-1); ASym "nil"]) w1 else w1 in
          hr [ASym (match k with KErr _ => "err" | _ => "nil" end)] w2
        else
          let '(r, w1) := trigger false (TAsyncWrite cid d (flag_of cb)) w in
          hr [ASym (match r with RNil => "nil" | _ => "err" end)] w1
    | _ => desync "h-asyncwrite-args" w
    end
  else if sym_eqb call "asyncwritev" then
    match args with
    | cb :: segs =>
        if c_udp c then hr [ASym "err"] w
        else
          let '(r, w1) := trigger false (TAsyncWritev cid (segs_of segs) (flag_of cb)) w in
          hr [ASym (match r with RNil => "nil" | _ => "err" end)] w1
    | _ => desync "h-asyncwritev-args" w
    end
  else if sym_eqb call "wake" then
    match args with
    | [cb] => let '(r, w1) := trigger true (TWake cid (flag_of cb)) w in
              hr [ASym (match r with RNil => "nil" | _ => "err" end)] w1
    | _ => desync "h-wake-args" w
    end
  else if sym_eqb call "close" then
    match args with
    | [cb] => let '(r, w1) := trigger true (TClose cid (flag_of cb)) w in
              hr [ASym (match r with RNil => "nil" | _ => "err" end)] w1
    | _ => desync "h-close-args" w
    end
  else if sym_eqb call "elclose" then
    (* EventLoop.Close(c) called directly from the callback; optional target cid *)
    let target := match args with [AInt t] => t | _ => cid end in
    let '(r, w1) := el_close f target true w in
    hr [ASym (match r with RNil => "nil" | RShutdown => "shutdown" | _ => "err" end)] w1
  else if sym_eqb call "on" then
    (* `h on <cid'> <call> args...` : act on another connection of this loop *)
    match args with
    | AInt t :: ASym call' :: args' =>
        (* script contract: a handler only holds connections that are open *)
        if c_opened (wc w t) then hcall f t call' args' w else desync "on-closed-target" w
    | _ => desync "h-on-args" w
    end
  else desync "h-unknown" w).
Proof. reflexivity. Qed.

Lemma hcall_O : forall (cid : Z) (call : string) (args : list arg) (w : world),
  hcall O cid call args w = (desync "fuel" w).
Proof. reflexivity. Qed.

Definition open_loop (cid : Z) :=
  fix open_loop (k : nat) (data : list Z) (w : world) : bool * world :=
           match k with
           | O => (false, desync "fuel" w)
           | S k' =>
             match data with
             | [] =>
               (* unix.Write is still called once with an empty slice *)
               match sys_wr cid (c_fd (wc w cid)) [] true w with
               | (KErr e, w') => if is_eagain e then (true, w') else (false, w')
               | (_, w') => (true, w')
               end
             | _ =>
             match sys_wr cid (c_fd (wc w cid)) data true w with
             | (KErr e, w') =>
                 if is_eagain e then
                   let c' := wc w' cid in (true, wsetc w' cid (c_set_out c' (c_out c' ++ data)))
                 else (false, w')
             | (KOk n _, w') =>
                 match zdrop n data with
                 | [] => (true, w')
                 | rest => open_loop k' rest w'
                 end
             | (KNone, w') => (true, w')
             end
             end
           end.

Definition open_reply (cid : Z) (reply : option (list Z)) (w3 : world) : bool * world :=
    match reply with
    | None => (true, w3)
    | Some data =>
      let c3 := wc w3 cid in
      let w3 := if c_udp c3 then w3 else ghost "sub" cid data w3 in
      if c_udp c3 && negb (c_remote c3) then
        match sys "sendto" [AInt (c_fd c3); ABytes data; bool_arg false] w3 with
        | (KErr _, w') => (false, w')
        | (_, w') => (true, w')
        end
      else if (match c_out c3 with [] => false | _ => true end) then
        (true, wsetc w3 cid (c_set_out c3 (c_out c3 ++ data)))
      else
        (open_loop cid) (S (List.length (inp w3))) data w3
    end.

Definition open_tail (fuel : nat) (cid : Z) (act : action) (ok : bool) (w4 : world) : res * world :=
  if negb ok then el_close fuel cid false w4      (* the reply could not be written: close, report through OnClose *)
  else
    let c4 := wc w4 cid in
    let '(r5, w5) :=
      match c_out c4 with
      | _ :: _ => if l_et (st w4) then (RNil, w4) else epctl "mod" (c_fd c4) true false w4
      | [] => (RNil, w4)
      end in
    match r5 with
    | RNil =>
      match act with
      | ANone => (RNil, w5)
      | AClose => el_close fuel cid true w5
      | AShutdown => (RShutdown, w5)
      end
    | _ => el_close fuel cid false w5             (* write interest could not be registered: close *)
    end.

Lemma el_open_parts : forall (fuel : nat) (cid : Z) (w : world),
  el_open fuel cid w =
  (let c := wc w cid in
   let w1 := wsetc w cid (c_set_opened c true) in
   let w2 := emit (obs "cb" [ASym "open"; AInt cid]) w1 in
   let '(act, reply, w3) := handler fuel cid w2 in
   if negb (c_opened (wc w3 cid)) then
     match act with
     | AShutdown => (RShutdown, w3)
     | _ => (RNil, w3)
     end
   else
     let '(ok, w4) := open_reply cid reply w3 in
     open_tail fuel cid act ok w4).
Proof. reflexivity. Qed.
