package main

import (
	"fmt"
	"runtime"
	"unsafe"

	"github.com/panjf2000/gnet/v2/pkg/pool/byteslice"

	"verifharness/tr"
)

const maxInt32 = 1<<31 - 1

// one interval of memory a client owns (direct oracle: address ranges)
type owned struct {
	client int
	lo, hi uintptr
	pat    byte
	keep   []byte // keeps the memory alive and gives access for the canary
	unsafe bool   // the slice extends beyond the memory that was donated: never written by the driver
}

// a pointer the driver has put into the pool and not seen coming back
type donated struct {
	serial int
	ptr    uintptr
	dcap   int
	keep   []byte
}

type worker struct{ ch chan func() }

type iso struct {
	pool     *byteslice.Pool // nil: the package-level built-in pool
	handles  [][]byte
	ledger   []owned
	mirror   []donated
	grave    []donated
	nput     int
	nroot    int
	disc     bool // history disciplined so far (the direct oracle only judges such histories)
	workers  []*worker
	hugeLeft *int
}

func addr(b []byte) uintptr { return uintptr(unsafe.Pointer(unsafe.SliceData(b))) }

func newISO(poolKind string, g int, hugeLeft *int) *iso {
	s := &iso{disc: true, hugeLeft: hugeLeft}
	if poolKind == "own" {
		s.pool = &byteslice.Pool{}
	} else {
		// the built-in pool is shared with earlier cases: empty it
		runtime.GC()
		runtime.GC()
	}
	if g < 1 {
		g = 1
	}
	for i := 0; i < g; i++ {
		wk := &worker{ch: make(chan func())}
		s.workers = append(s.workers, wk)
		go func() {
			runtime.LockOSThread() // spread the clients over OS threads / Ps
			for f := range wk.ch {
				f()
			}
		}()
	}
	return s
}

func (s *iso) stop() {
	for _, wk := range s.workers {
		close(wk.ch)
	}
}

// runOn executes f on the goroutine of client c and waits: sync.Pool calls are
// atomic, so the execution is the linear history being logged.
func (s *iso) runOn(c int, f func()) (panicked bool) {
	if c < 0 {
		c = -c
	}
	wk := s.workers[c%len(s.workers)]
	done := make(chan bool)
	wk.ch <- func() {
		p, _ := tr.Guard(f)
		done <- p
	}
	return <-done
}

func (s *iso) get(size int) []byte {
	if s.pool != nil {
		return s.pool.Get(size)
	}
	return byteslice.Get(size)
}

func (s *iso) put(b []byte) {
	if s.pool != nil {
		s.pool.Put(b)
		return
	}
	byteslice.Put(b)
}

func (s *iso) handle(h int) []byte {
	if h < 0 || h >= len(s.handles) {
		return nil
	}
	return s.handles[h]
}

func overlap(alo, ahi, blo, bhi uintptr) bool {
	return alo < bhi && blo < ahi && alo < ahi && blo < bhi
}

func (s *iso) exclusive(lo, hi uintptr) bool {
	for _, o := range s.ledger {
		if overlap(o.lo, o.hi, lo, hi) {
			return false
		}
	}
	return true
}

// covering returns some ledger interval overlapping [lo,hi)
func (s *iso) covering(lo, hi uintptr) *owned {
	for i := range s.ledger {
		if overlap(s.ledger[i].lo, s.ledger[i].hi, lo, hi) {
			return &s.ledger[i]
		}
	}
	return nil
}

func (s *iso) owns(c int, lo, hi uintptr) int {
	for i, o := range s.ledger {
		if o.client == c && o.lo <= lo && hi <= o.hi && o.keep != nil {
			return i
		}
	}
	return -1
}

const fillAll = 1 << 20

// paint writes the owner's pattern over [lo,hi) of o
func paint(o *owned, lo, hi uintptr) {
	if len(o.keep) > fillAll || o.unsafe { // huge allocations carry no canary (touching 2 GiB per op is too slow)
		return
	}
	base := addr(o.keep)
	b := o.keep[lo-base : hi-base]
	for i := range b {
		b[i] = o.pat
	}
}

func intact(o *owned, lo, hi uintptr) bool {
	if o.keep == nil || hi <= lo {
		return true
	}
	if len(o.keep) > fillAll || o.unsafe {
		return true
	}
	base := addr(o.keep)
	for _, x := range o.keep[lo-base : hi-base] {
		if x != o.pat {
			return false
		}
	}
	return true
}

func (s *iso) grant(c int, b []byte, within bool) {
	full := b[:cap(b)]
	s.nroot++
	o := owned{client: c, lo: addr(full), hi: addr(full) + uintptr(cap(b)), pat: byte(1 + s.nroot%250), keep: full, unsafe: !within}
	if cap(b) > 0 {
		paint(&o, o.lo, o.hi)
	}
	s.ledger = append([]owned{o}, s.ledger...)
}

func (s *iso) sizeAllowed(n int) bool {
	if n <= 64<<20 {
		return true
	}
	if *s.hugeLeft <= 0 {
		return false
	}
	*s.hugeLeft--
	return true
}

// exec runs one op line on the implementation and emits its op/obs/fail lines.
func (s *iso) exec(op tr.Line) {
	switch op.Name {
	case "mk":
		c, ln, cp := op.Int(0), op.Int(1), op.Int(2)
		if !s.sizeAllowed(cp) {
			return
		}
		w.Op(tr.L("mk", tr.I(c), tr.I(ln), tr.I(cp)))
		var b []byte
		if s.runOn(c, func() { b = make([]byte, ln, cp) }) {
			s.handles = append(s.handles, nil)
			w.Obs(tr.L("mk", "panic"))
			return
		}
		s.handles = append(s.handles, b)
		s.grant(c, b, true)
		w.Obs(tr.L("mk", tr.I(len(b)), tr.I(cap(b))))
		w.Hist("mk")
	case "sub":
		c, h, lo, hi, mx := op.Int(0), op.Int(1), op.Int(2), op.Int(3), op.Int(4)
		w.Op(tr.L("sub", tr.I(c), tr.I(h), tr.I(lo), tr.I(hi), tr.I(mx)))
		b := s.handle(h)
		var r []byte
		p, _ := tr.Guard(func() {
			if mx < 0 {
				r = b[lo:hi]
			} else {
				r = b[lo:hi:mx]
			}
		})
		if p {
			s.handles = append(s.handles, nil)
			w.Obs(tr.L("sub", "panic"))
			return
		}
		s.handles = append(s.handles, r)
		w.Obs(tr.L("sub", tr.I(len(r)), tr.I(cap(r))))
	case "get":
		s.execGet(op.Int(0), op.Int(1))
	case "put":
		s.execPut(op.Int(0), op.Int(1))
	case "wr":
		c, h := op.Int(0), op.Int(1)
		w.Op(tr.L("wr", tr.I(c), tr.I(h)))
		b := s.handle(h)
		lo, hi := addr(b), addr(b)+uintptr(len(b))
		i := -1
		if b != nil {
			i = s.owns(c, lo, hi)
		}
		if i >= 0 {
			if s.disc && !intact(&s.ledger[i], lo, hi) {
				w.Fail("canary", "overwritten-before-write", fmt.Sprintf("client %d handle %d: owned bytes changed under the owner", c, h))
			}
			paint(&s.ledger[i], lo, hi)
			w.Obs(tr.L("wr", "1"))
		} else {
			s.disc = false
			w.Tag("undisciplined")
			if u := s.covering(lo, hi); u == nil || !u.unsafe {
				for j := range b {
					b[j] = 0xAA
				}
			}
			w.Obs(tr.L("wr", "0"))
		}
	case "gc":
		n := op.Int(0)
		w.Op(tr.L("gc", tr.I(n)))
		for i := 0; i < n; i++ {
			runtime.GC()
		}
		if n >= 2 {
			s.grave = append(s.grave, s.mirror...)
			s.mirror = nil
		}
		w.Tag("gc")
		w.Hist(fmt.Sprintf("gc-%d", n))
	}
}

func class(n int) int {
	i := 0
	for (1 << i) < n {
		i++
	}
	return i
}

func (s *iso) execGet(c, size int) {
	if !s.sizeAllowed(size) {
		return
	}
	var b []byte
	panicked := s.runOn(c, func() { b = s.get(size) })
	if panicked {
		w.Op(tr.L("get", tr.I(c), tr.I(size), "-1"))
		s.handles = append(s.handles, nil)
		w.Obs(tr.L("get", "panic"))
		return
	}
	if b == nil {
		w.Op(tr.L("get", tr.I(c), tr.I(size), "-1"))
		s.handles = append(s.handles, nil)
		w.Obs(tr.L("get", "nil"))
		if size > 0 && s.disc {
			w.Fail("get", fmt.Sprintf("nil-for-positive size=%d", size), "Get returned nil for a positive size")
		}
		w.Hist("get-nil")
		return
	}
	p, cp := addr(b), cap(b)
	lo, hi := p, p+uintptr(cp)
	// which donated pointer came back?  (address comparison; among several
	// donations of the same address prefer the one whose capacity fits the class)
	k := -1
	for i, d := range s.mirror {
		if d.ptr == p {
			if k < 0 {
				k = i
			}
			if cp <= d.dcap && d.dcap < 2*cp {
				k = i
				break
			}
		}
	}
	choice, within, dcap := -1, true, -1
	if k >= 0 {
		d := s.mirror[k]
		choice, dcap = d.serial, d.dcap
		within = cp <= d.dcap
		s.mirror = append(s.mirror[:k:k], s.mirror[k+1:]...)
		w.Tag("pooled-reuse")
	}
	excl := s.exclusive(lo, hi)
	w.Op(tr.L("get", tr.I(c), tr.I(size), tr.I(choice)))
	w.Obs(tr.L("get", tr.I(len(b)), tr.I(cp), tr.B(excl), tr.B(within)))
	w.Hist(fmt.Sprintf("get-class-%02d", class(size)))
	if size > maxInt32 {
		w.Tag("huge")
	}
	if s.disc {
		if len(b) != size || cp < size {
			w.Fail("get", fmt.Sprintf("shape size=%d len=%d cap=%d", size, len(b), cp), "length/capacity of the slice handed out")
		}
		if !excl {
			w.Fail("get", fmt.Sprintf("alias size=%d class=%d", size, class(size)), "Get handed out memory that is still outstanding")
		}
		if !within {
			w.Fail("get", fmt.Sprintf("beyond-donation size=%d cap=%d donated=%d", size, cp, dcap), "Get handed out memory beyond the capacity of the slice that was Put")
		}
		if k < 0 {
			for _, d := range append(append([]donated{}, s.mirror...), s.grave...) {
				if overlap(d.ptr, d.ptr+uintptr(d.dcap), lo, hi) {
					w.Fail("get", fmt.Sprintf("overlaps-donation size=%d class=%d", size, class(size)), "a slice that is not a recognised donation overlaps donated memory")
					break
				}
			}
		}
	}
	if !within {
		// keep only the part that really was donated: a slice (or a re-slice) reaching
		// into a neighbouring heap object would crash the collector
		n := len(b)
		if n > dcap {
			n = dcap
		}
		b = b[:n:dcap]
	}
	s.handles = append(s.handles, b)
	s.grant(c, b, true)
}

func (s *iso) execPut(c, h int) {
	w.Op(tr.L("put", tr.I(c), tr.I(h)))
	b := s.handle(h)
	cp := cap(b)
	serial := s.nput
	s.nput++
	noop := cp == 0 || cp > maxInt32
	disc := true
	if !noop {
		lo, hi := addr(b), addr(b)+uintptr(cp)
		i := s.owns(c, lo, hi)
		if i < 0 {
			disc = false
			s.disc = false
			w.Tag("undisciplined")
		} else {
			o := s.ledger[i]
			if s.disc && !intact(&o, lo, hi) {
				w.Fail("canary", "overwritten-before-put", fmt.Sprintf("client %d handle %d: owned bytes changed under the owner", c, h))
			}
			before := owned{client: c, lo: o.lo, hi: lo, pat: o.pat, keep: o.keep}
			after := owned{client: c, lo: hi, hi: o.hi, pat: o.pat, keep: o.keep}
			nl := append([]owned{}, s.ledger[:i]...)
			nl = append(nl, before, after)
			nl = append(nl, s.ledger[i+1:]...)
			s.ledger = nl
		}
		s.mirror = append(s.mirror, donated{serial: serial, ptr: addr(b), dcap: cp, keep: b[:cp:cp]})
		switch {
		case cp&(cp-1) == 0:
			w.Hist("put-pow2")
		default:
			w.Hist("put-oddcap")
			w.Tag("odd-cap")
		}
	} else {
		w.Hist("put-noop")
	}
	if s.runOn(c, func() { s.put(b) }) {
		w.Obs(tr.L("put", "panic"))
		return
	}
	w.Obs(tr.L("put", tr.B(disc)))
}

// finish: every byte still owned must still carry its owner's pattern
func (s *iso) finish() {
	if s.disc {
		for i := range s.ledger {
			o := &s.ledger[i]
			if !intact(o, o.lo, o.hi) {
				w.Fail("canary", "overwritten-at-end", fmt.Sprintf("client %d: owned bytes changed under the owner", o.client))
				break
			}
		}
	}
	s.stop()
}
