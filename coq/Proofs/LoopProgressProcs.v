(* C01 / C02 progress, part 2: the mutually recursive procedures. *)
From Coq Require Import Lia ZArith ZifyBool.
From GV Require Import Lib.Trace Model.Loop Spec.LoopSpec Proofs.LoopDataLib Proofs.LoopProgressBlock.
Open Scope string_scope.
Open Scope list_scope.
Open Scope Z_scope.

Section ET.
Variable et : bool.
Notation QINV := (Inv ustep (qstep et) tt (q0 et)).

Section ND.
Variable nd : list Z.
Notation RQ := (RQ et nd).

Ltac qoign := apply qign_out_ign; repeat split; reflexivity.
Ltac dsync := eapply Q_desync; eassumption.

(* assertions under which a connection may be closed: only that connection is exempt *)
Definition okx (xa : qxa) (cid : Z) : Prop :=
  (forall c0, exempt xa c0 -> c0 = cid) /\ (forall c0, xa <> QRegd c0).

Lemma okx_none : forall cid, okx QNone cid.
Proof. intros cid. split; [intros c0 []|discriminate]. Qed.
Lemma okx_x : forall cid, okx (QX cid) cid.
Proof. intros cid. split; [cbn; auto|discriminate]. Qed.
Lemma okx_xf : forall cid fd, okx (QXf cid fd) cid.
Proof. intros cid fd. split; [cbn; auto|discriminate]. Qed.

(* the close callback is announced *)
Lemma RQ_close : forall W ops rf u p b s cid e xa, okx xa cid ->
  RQ W ops xa rf u (p, b) s ->
  c_opened (getc s cid) = true -> alookup (c_fd (getc s cid)) (l_reg s) <> None ->
  exists x', qstep et (p, b) (EOut (obs "cb" [ASym "close"; AInt cid; e])) = Some x' /\
  RQ (cid :: W) ops QNone rf u x' (set_reg s (aremove (c_fd (getc s cid)) (l_reg s))).
Proof.
  intros W ops rf u p b s cid e xa Hxa HR Ho Hr.
  set (p' := mkP (p_et p) (p_want_w p) (p_last p) (p_owed p) (p_dirty p) (cid :: p_dead p)).
  set (b' := if et then match r_full b with
                        | Some c => if c =? cid then mkR (r_cap b) None (r_cur b) else b
                        | None => b end else b).
  exists (p', b'). split.
  { unfold qstep, rdx, obs. cbn [fst snd prog_step]. subst b'. destruct et; [|reflexivity].
    cbn [rd_step]. destruct (r_full b) as [c|]; [destruct (c =? cid)|]; reflexivity. }
  pose proof (RQ_dead_add _ _ _ _ _ _ _ _ _ _ cid HR) as HD. fold p' in HD.
  assert (Hnr : forall c, xa <> QRegd c) by (exact (proj2 Hxa)).
  destruct HD as [R1 R2 R3 R4 R5 R6 R7 R8 R9 R10 R11 R12 R13]. cbn [fst snd] in *.
  assert (Hdc : pdead p' cid = true) by (unfold pdead, p'; cbn [p_dead]; rewrite zmem_cons, Z.eqb_refl; reflexivity).
  constructor; cbn [fst snd set_reg l_reg l_next l_et]; auto.
  - intros c. rewrite getc_set_reg. intros Ho0. rewrite alookup_aremove.
    destruct (Z.eqb_spec (c_fd (getc s c)) (c_fd (getc s cid))) as [Ef|Nf].
    + right. split; [reflexivity|].
      destruct (R5 _ Ho0) as [A|[A B]]; [|right; exact B].
      destruct (R5 _ Ho) as [C|[C _]]; [|congruence].
      rewrite Ef in A. rewrite A in C. inversion C. left. reflexivity.
    + destruct (R5 _ Ho0) as [A|[A B]]; [left; exact A|right; split; [exact A|right; exact B]].
  - intros fd c H. apply in_aremove in H. destruct H as [H N]. destruct (R6 _ _ H) as (A & B & C). split; [exact A|].
    rewrite alookup_aremove, getc_set_reg. replace (fd =? c_fd (getc s cid)) with false by lia. auto.
  - intros fd c H D. apply in_aremove in H. destruct H as [H N]. rewrite getc_set_reg.
    destruct (R7 _ _ H D) as [A|[A|A]]; auto. exfalso. eapply Hnr; eauto.
  - intros c [<-|H]; rewrite getc_set_reg, alookup_aremove.
    + rewrite Z.eqb_refl. auto.
    + destruct (R8 _ H) as (A & B & C). rewrite B. destruct (_ =? _); auto.
  - intros fd c H. apply in_aremove in H. destruct H as [H N]. rewrite getc_set_reg. intros A D E F _.
    apply (R11 fd c H A D E F). intros Ex. apply (proj1 Hxa) in Ex. subst c. rewrite Hdc in D. discriminate.
  - intros Het. subst b'. rewrite Het. destruct (R12 Het) as [A|(c & A & B & C & D)].
    + left. rewrite A. exact A.
    + rewrite B. destruct (Z.eqb_spec c cid) as [->|N]; [left; reflexivity|].
      right. exists c. rewrite getc_set_reg. repeat split; auto. intros [E|E]; [congruence|auto].
  - exact I.
Qed.

Lemma RQ_release : forall W ops rf u x s cid,
  RQ (cid :: W) ops QNone rf u x s ->
  RQ W ops (QNoReg (c_fd (getc s cid))) rf u x (setc s cid (c_release (getc s cid))).
Proof.
  intros W ops rf u [p b] s cid [R1 R2 R3 R4 R5 R6 R7 R8 R9 R10 R11 R12 R13]. cbn [fst snd] in *.
  destruct (R8 cid (or_introl eq_refl)) as (Hdead & Hnr & Hlt).
  assert (Hrel : c_opened (c_release (getc s cid)) = false) by (unfold c_release; destruct (c_udp (getc s cid)); reflexivity).
  assert (Hfd : c_fd (c_release (getc s cid)) = c_fd (getc s cid)) by (unfold c_release; destruct (c_udp (getc s cid)); reflexivity).
  assert (Hud : c_udp (c_release (getc s cid)) = c_udp (getc s cid)) by (unfold c_release; destruct (c_udp (getc s cid)) eqn:Eu; cbn [c_udp]; congruence).
  constructor; cbn [fst snd setc l_reg l_next l_et]; auto.
  - intros c. rewrite getc_setc. destruct (Z.eqb_spec c cid) as [->|N]; [congruence|auto].
  - intros c. rewrite getc_setc. destruct (Z.eqb_spec c cid) as [->|N]; [congruence|].
    intros Ho. destruct (R5 _ Ho) as [A|[A [B|B]]]; [left; exact A|congruence|right; auto].
  - intros fd c H. destruct (R6 _ _ H) as (A & B & C). rewrite getc_setc.
    destruct (Z.eqb_spec c cid) as [->|N]; [rewrite Hfd|]; auto.
  - intros fd c H D. rewrite getc_setc. destruct (Z.eqb_spec c cid) as [->|N]; [congruence|eauto].
    destruct (R7 _ _ H D) as [A|[A|A]]; auto. discriminate.
  - intros c H. rewrite getc_setc. destruct (R8 c (or_intror H)) as (A & B & C).
    destruct (Z.eqb_spec c cid) as [->|N]; [rewrite Hfd|]; auto.
  - intros c k H. destruct (R9 _ _ H) as (A & B). split; [exact A|].
    unfold opsem in *. rewrite getc_setc. destruct (Z.eqb_spec c cid) as [->|N]; [|exact B].
    rewrite Hfd, Hud, Hrel. destruct k; [destruct B as [B1 B2]; auto|tauto].
  - intros c. rewrite getc_setc. destruct (Z.eqb_spec c cid) as [->|N]; [intros; congruence|auto].
  - intros fd c H. rewrite getc_setc. destruct (Z.eqb_spec c cid) as [->|N]; [intros; congruence|].
    intros A D E F _. apply (R11 fd c H A D E F). cbn. tauto.
  - intros Het. destruct (R12 Het) as [A|(c & A & B & C & D)]; [left; exact A|].
    right. exists c. rewrite getc_setc. destruct (Z.eqb_spec c cid) as [->|N]; [exfalso; apply D; left; reflexivity|].
    repeat split; auto. intros H. apply D. right. exact H.
Qed.

Record MQ (f : nat) : Prop := mkMQ {
  mq_close : forall cid e w r w' W ops rf xa, okx xa cid -> (nd = [] \/ nd = [cid]) ->
      QINV (RQ W ops xa rf) w -> el_close f cid e w = (r, w') -> QINV (RQ W ops QNone rf) w';
  mq_drain : forall cid w W ops rf, In cid W -> QINV (RQ W ops QNone rf) w -> QINV (RQ W ops QNone rf) (close_drain f cid w);
  mq_write : forall cid d w r w' W ops rf, (nd = [] \/ nd = [cid]) -> QINV (RQ W ops QNone rf) w -> conn_write f cid d w = (r, w') -> QINV (RQ W ops QNone rf) w';
  mq_wloop : forall cid d n w r w' W ops rf fd o, QINV (RQ W ops (QE cid fd o) rf) w ->
      conn_write_loop f cid d n w = (r, w') ->
      exists xa, okx xa cid /\ (snd r = true -> xa = QNone) /\ QINV (RQ W ops xa rf) w';
  mq_wvloop : forall cid sg n w r w' W ops rf fd o, QINV (RQ W ops (QE cid fd o) rf) w ->
      conn_writev_loop f cid sg n w = (r, w') ->
      exists xa, okx xa cid /\ (snd r = true -> xa = QNone) /\ QINV (RQ W ops xa rf) w';
  mq_writev : forall cid sg w r w' W ops rf, (nd = [] \/ nd = [cid]) -> QINV (RQ W ops QNone rf) w -> conn_writev f cid sg w = (r, w') -> QINV (RQ W ops QNone rf) w';
  mq_elwrite : forall cid sent w r w' W ops rf xa, xa = QNone \/ (xa = QX cid /\ l_et (st w) = true) ->
      (nd = [] \/ nd = [cid]) ->
      QINV (RQ W ops xa rf) w -> el_write f cid sent w = (r, w') -> QINV (RQ W ops QNone rf) w';
  mq_handler : forall cid w r w' W ops rf, nd = [] -> QINV (RQ W ops QNone rf) w -> handler f cid w = (r, w') -> QINV (RQ W ops QNone rf) w';
  mq_hcall : forall cid call args w W ops rf, nd = [] -> QINV (RQ W ops QNone rf) w -> QINV (RQ W ops QNone rf) (hcall f cid call args w)
}.

(* dropping the exemption of a connection for which nothing is demanded *)
Lemma Q_unexempt_if : forall W ops rf w c,
  (forall u p b, RQ W ops (QX c) rf u (p, b) (st w) ->
     forall fd, In (fd, c) (l_reg (st w)) -> c_udp (wc w c) = false -> pdead p c = false -> clean nd p c ->
     c_out (wc w c) <> [] -> served et p fd c) ->
  QINV (RQ W ops (QX c) rf) w -> QINV (RQ W ops QNone rf) w.
Proof. intros W ops rf w c H HI. eapply (Q_unexempt et nd W ops (QX c) rf w c); [cbn; auto|discriminate|exact H|exact HI]. Qed.

Lemma Q_unexempt_dead : forall W ops rf w c, In c W ->
  QINV (RQ W ops (QX c) rf) w -> QINV (RQ W ops QNone rf) w.
Proof.
  intros W ops rf w c Hin HI. apply (Q_unexempt_if W ops rf w c); [|exact HI].
  intros u p b HR fd _ _ D. destruct (q_W _ _ _ _ _ _ _ _ _ HR c Hin) as [A _]. cbn [fst] in A. congruence.
Qed.

Lemma Q_unexempt_empty : forall W ops rf w c, c_out (wc w c) = [] ->
  QINV (RQ W ops (QX c) rf) w -> QINV (RQ W ops QNone rf) w.
Proof. intros W ops rf w c He HI. apply (Q_unexempt_if W ops rf w c); [|exact HI]. intros u p b HR fd _ _ _ _ N. congruence. Qed.

Lemma Q_unexempt_closed : forall W ops rf w c, c_opened (wc w c) = false ->
  QINV (RQ W ops (QX c) rf) w -> QINV (RQ W ops QNone rf) w.
Proof.
  intros W ops rf w c Ho HI. apply (Q_unexempt_if W ops rf w c); [|exact HI].
  intros u p b HR fd Hin Hu D _ _. unfold wc in *.
  destruct (q_regop _ _ _ _ _ _ _ _ _ HR fd c Hin D) as [A|[A|A]]; [congruence|congruence|discriminate].
Qed.

(* one connection's c_out changes while it is exempt *)
Lemma Q_set_out_x : forall W ops rf w c o,
  (c_out (wc w c) = [] -> o = []) ->
  QINV (RQ W ops (QX c) rf) w -> QINV (RQ W ops (QX c) rf) (wsetc w c (c_set_out (wc w c) o)).
Proof.
  intros W ops rf w c o Ho HI. eapply Inv_wsetc; [exact HI|]. intros [] [p b] _ HR. unfold wc in *.
  apply RQ_setc; auto; cbn [c_set_out c_opened c_udp c_out c_fd].
  - intros A B D E. apply Ho. apply (q_nop _ _ _ _ _ _ _ _ _ HR); assumption.
  - intros fd _ _ _ _ _ G. exfalso. apply G. reflexivity.
  - discriminate.
  - discriminate.
Qed.

Lemma close_drain_S : forall f, MQ f -> forall cid w W ops rf, In cid W ->
  QINV (RQ W ops QNone rf) w -> QINV (RQ W ops QNone rf) (close_drain (S f) cid w).
Proof.
  intros f M cid w W ops rf Hin HI. cbn [close_drain].
  destruct (c_out (wc w cid)) as [|b0 l0] eqn:Eout; [exact HI|]. rewrite <- Eout.
  pose proof (Q_exempt _ _ _ _ _ _ cid HI) as HX.
  destruct (sys_wr cid _ _ false w) as [k w1] eqn:Es.
  pose proof (Q_sys_wr_gen et nd W ops rf (QX cid) (QX cid) (QX cid) (QX cid) cid _ _ _ _ _ _
    ltac:(intros bs w0 _ H0; refine (Q_hand _ _ _ _ (QX cid) _ cid bs _ _ H0); intros _; left; reflexivity)
    ltac:(intros w0 _ H0; exact (Q_owed _ _ _ _ _ _ "eagain" cid _ (or_introl eq_refl) H0))
    ltac:(intros w0 _ H0; exact (Q_fail _ _ _ _ _ _ cid _ H0)) HX Es) as H1.
  destruct k as [n extra|e|].
  - destruct H1 as [_ H1]. apply (mq_drain _ M); [exact Hin|].
    apply (Q_unexempt_dead W ops rf _ cid); [exact Hin|]. apply Q_set_out_x; [|exact H1]. intros ->. apply zdrop_nil.
  - assert (H1' : QINV (RQ W ops (QX cid) rf) w1) by (destruct (is_eagain e); exact H1).
    apply (Q_unexempt_dead W ops rf _ cid); assumption.
  - apply Q_dead. exact H1.
Qed.

Lemma Q_ops_weaken : forall W ops ops' xa rf w, (forall c, In c ops' -> In c ops) ->
  QINV (RQ W ops xa rf) w -> QINV (RQ W ops' xa rf) w.
Proof.
  intros W ops ops' xa rf w Hs HI. eapply Q_weaken; [|exact HI]. intros u x HR.
  destruct HR as [R1 R2 R3 R4 R5 R6 R7 R8 R9 R10 R11 R12 R13]. constructor; auto.
Qed.

Lemma Q_ops_add : forall W ops xa rf w c, c_opened (wc w c) = true ->
  QINV (RQ W ops xa rf) w -> QINV (RQ W ((c, Some (c_fd (wc w c))) :: ops) xa rf) w.
Proof.
  intros W ops xa rf w c Ho HI. eapply Q_weaken; [|exact HI]. intros u x HR.
  pose proof (q_opn _ _ _ _ _ _ _ _ _ HR c Ho) as Hlt.
  destruct HR as [R1 R2 R3 R4 R5 R6 R7 R8 R9 R10 R11 R12 R13]. constructor; auto.
  intros c0 k [E|H]; [inversion E; subst; unfold wc, opsem in *; auto|auto].
Qed.

(* ------------------------------------------------------------------ *)
(* the write loops *)

Lemma Q_reanchor : forall W ops rf c fd o w,
  QINV (RQ W ops (QE c fd o) rf) w -> QINV (RQ W ops (QE c (c_fd (wc w c)) o) rf) w.
Proof.
  intros W ops rf c fd o w HI. eapply (Q_xa_weaken et nd W ops (QE c fd o)); [intros; discriminate|intros c0 []| |exact HI].
  intros u x HR. pose proof (q_x _ _ _ _ _ _ _ _ _ HR) as X. cbn [qsem] in *. unfold wc. tauto.
Qed.

(* the buffer of a connection inside a write is filled: it is exempt until somebody answers for it *)
Lemma Q_fill_x : forall W ops rf c fd o out w,
  QINV (RQ W ops (QE c fd o) rf) w ->
  QINV (RQ W ops (QXf c fd) rf) (wsetc w c (c_set_out (wc w c) out)).
Proof.
  intros W ops rf c fd o out w HI. eapply Inv_wsetc; [exact HI|]. intros [] [p b] _ HR. unfold wc.
  pose proof (q_x _ _ _ _ _ _ _ _ _ HR) as X. cbn [qsem fst] in X. destruct X as (X1 & X2 & X3 & X4 & X5).
  assert (HR1 : RQ W ops (QXf c fd) rf tt (p, b) (st w)).
  { eapply RQ_xa_weaken; [exact HR|discriminate|intros c0 []|]. cbn [qsem fst]. auto. }
  apply RQ_setc; auto; cbn [c_set_out c_opened c_udp c_fd c_out].
  - intros A _ D _. destruct X5 as [E|E]; [congruence|]. unfold pdead in D. congruence.
  - intros fd0 _ _ _ _ _ G. exfalso. apply G. reflexivity.
  - discriminate.
  - discriminate.
Qed.

Lemma Q_fill_et : forall W ops rf c fd out w, l_et (st w) = true ->
  QINV (RQ W ops (QE c fd true) rf) w ->
  QINV (RQ W ops QNone rf) (wsetc w c (c_set_out (wc w c) out)).
Proof.
  intros W ops rf c fd out w Hb HI.
  pose proof (Q_fill_x _ _ _ _ _ _ out _ HI) as H1.
  (* redo it keeping the owed flag *)
  clear H1. eapply Inv_wsetc; [exact HI|]. intros [] [p b] _ HR. unfold wc.
  pose proof (q_x _ _ _ _ _ _ _ _ _ HR) as X. cbn [qsem fst] in X. destruct X as (X1 & X2 & X3 & X4 & X5).
  assert (HR1 : RQ W ops (QXf c fd) rf tt (p, b) (st w)).
  { eapply RQ_xa_weaken; [exact HR|discriminate|intros c0 []|]. cbn [qsem fst]. auto. }
  eapply (RQ_unexempt et nd _ _ (QXf c fd) _ _ _ _ _ c); [|cbn; auto|discriminate|].
  - apply RQ_setc; auto; cbn [c_set_out c_opened c_udp c_fd c_out].
    + intros A _ D _. destruct X5 as [E|E]; [congruence|]. unfold pdead in D. congruence.
    + intros fd0 _ _ _ _ _ G. exfalso. apply G. reflexivity.
    + discriminate.
    + discriminate.
  - intros fd0 _ _ _ _ _. unfold served. destruct (q_et _ _ _ _ _ _ _ _ _ HR) as [E _]. rewrite <- E, Hb. auto.
Qed.

(* write interest registered for an exempt connection (level-triggered) *)
Lemma Q_arm_x : forall W ops rf c fd op e w r w', op_code op <> 2 -> l_et (st w) = false ->
  QINV (RQ W ops (QXf c fd) rf) w -> epctl op fd true e w = (r, w') ->
  QINV (RQ W ops (match r with RNil => QNone | _ => QXf c fd end) rf) w'.
Proof.
  intros W ops rf c fd op e w r w' Hop Hb HI E.
  pose proof (Q_epctl_arm _ _ _ _ _ _ _ _ _ _ _ _ Hop HI E) as H.
  pose proof (epctl_et _ _ _ _ _ _ _ E) as Hm.
  eapply Inv_weaken; [|exact H]. intros [] [p b] Hh [HR Hw]. cbn [fst] in Hw.
  destruct r; try exact HR.
  eapply (RQ_unexempt et nd _ _ (QXf c fd) _ _ _ _ _ c); [exact HR|cbn; auto|discriminate|].
  intros fd0 Hin _ _ _ _. unfold served.
  destruct (q_et _ _ _ _ _ _ _ _ _ HR) as [E1 _]. assert (Het : et = false) by congruence. rewrite Het.
  pose proof (q_x _ _ _ _ _ _ _ _ _ HR) as X. cbn [qsem] in X. destruct X as (_ & X2 & _).
  destruct (q_reglt _ _ _ _ _ _ _ _ _ HR _ _ Hin) as (_ & _ & F). rewrite F in X2. subst fd0.
  apply Hw; auto.
Qed.

Lemma Q_qe_drop : forall W ops rf c fd o w, QINV (RQ W ops (QE c fd o) rf) w -> QINV (RQ W ops QNone rf) w.
Proof. intros W ops rf c fd o w HI. eapply (Q_xa_drop et nd W ops (QE c fd o)); [intros c0 []|discriminate|exact HI]. Qed.


Lemma st_wsetc_et : forall w c c', l_et (st (wsetc w c c')) = l_et (st w).
Proof. reflexivity. Qed.

(* the common tail of both loops after the kernel took part of the data or said EAGAIN:
   the rest is appended to the outbound buffer and, level-triggered, write interest requested *)
Lemma loop_tail : forall W ops rf cid fd o (b : bool) (n : Z) out w1 (r : Z * bool) w',
  l_et (st w1) = b -> (b = true -> o = true) ->
  QINV (RQ W ops (QE cid fd o) rf) w1 ->
  (if b then ((n, true), wsetc w1 cid (c_set_out (wc w1 cid) out))
   else let '(r3, w3) := epctl "mod" fd true b (wsetc w1 cid (c_set_out (wc w1 cid) out)) in
        ((n, match r3 with RNil => true | _ => false end), w3)) = (r, w') ->
  exists xa, okx xa cid /\ (snd r = true -> xa = QNone) /\ QINV (RQ W ops xa rf) w'.
Proof.
  intros W ops rf cid fd o b n out w1 r w' Hb Ho H1 E. destruct b.
  - inversion E; subst. exists QNone. split; [apply okx_none|]. split; [auto|].
    rewrite (Ho eq_refl) in H1. eapply Q_fill_et; eauto.
  - destruct (epctl "mod" _ true false _) as [r3 w3] eqn:E3. inversion E; subst.
    pose proof (Q_fill_x _ _ _ _ _ _ out _ H1) as H2.
    assert (Hop : op_code "mod" <> 2) by (cbn; discriminate).
    pose proof (Q_arm_x W ops rf cid fd "mod" false (wsetc w1 cid (c_set_out (wc w1 cid) out)) _ _ Hop Hb H2 E3) as H3.
    destruct r3.
    + exists QNone. split; [apply okx_none|]. split; [auto|exact H3].
    + exists (QXf cid fd). split; [apply okx_xf|]. split; [discriminate|exact H3].
    + exists (QXf cid fd). split; [apply okx_xf|]. split; [discriminate|exact H3].
    + exists (QXf cid fd). split; [apply okx_xf|]. split; [discriminate|exact H3].
Qed.

Lemma conn_write_loop_S : forall f, MQ f -> forall cid d n w r w' W ops rf fd o,
  QINV (RQ W ops (QE cid fd o) rf) w -> conn_write_loop (S f) cid d n w = (r, w') ->
  exists xa, okx xa cid /\ (snd r = true -> xa = QNone) /\ QINV (RQ W ops xa rf) w'.
Proof.
  intros f M cid d n w r w' W ops rf fd0 o HI0 E. cbn [conn_write_loop] in E.
  pose proof (Q_reanchor _ _ _ _ _ _ _ HI0) as HI. clear HI0. set (fd := c_fd (wc w cid)) in *.
  destruct (sys_wr cid _ d true w) as [k w1] eqn:Es.
  pose proof (Q_sys_wr_E _ _ _ _ _ _ _ _ _ _ _ _ _ _ HI Es) as H1.
  pose proof (sys_wr_et _ _ _ _ _ _ _ Es) as Hm1.
  destruct k as [sent extra|e|].
  - destruct H1 as [Hn H1].
    destruct (zdrop sent d) as [|b0 l0] eqn:Ed.
    { inversion E; subst. exists QNone. split; [apply okx_none|]. split; [auto|]. eapply Q_qe_drop; exact H1. }
    rewrite <- Ed in *.
    destruct (l_et (st w)) eqn:Eb; [eapply (mq_wloop _ M); eauto|].
    eapply (loop_tail W ops rf cid fd false false n _ w1); [congruence|discriminate|exact H1|exact E].
  - destruct (is_eagain e).
    + eapply (loop_tail W ops rf cid fd true (l_et (st w)) n _ w1); [exact Hm1|auto|exact H1|].
      destruct (l_et (st w)); exact E.
    + inversion E; subst. exists QNone. split; [apply okx_none|]. split; [auto|]. eapply Q_qe_drop; exact H1.
  - inversion E; subst. exists QNone. split; [apply okx_none|]. split; [auto|]. apply Q_dead. exact H1.
Qed.

Lemma conn_writev_loop_S : forall f, MQ f -> forall cid sg n w r w' W ops rf fd o,
  QINV (RQ W ops (QE cid fd o) rf) w -> conn_writev_loop (S f) cid sg n w = (r, w') ->
  exists xa, okx xa cid /\ (snd r = true -> xa = QNone) /\ QINV (RQ W ops xa rf) w'.
Proof.
  intros f M cid sg n w r w' W ops rf fd0 o HI0 E. cbn [conn_writev_loop] in E.
  pose proof (Q_reanchor _ _ _ _ _ _ _ HI0) as HI. clear HI0. set (fd := c_fd (wc w cid)) in *.
  destruct (sys_wr cid _ _ true w) as [k w1] eqn:Es.
  pose proof (Q_sys_wr_E _ _ _ _ _ _ _ _ _ _ _ _ _ _ HI Es) as H1.
  pose proof (sys_wr_et _ _ _ _ _ _ _ Es) as Hm1.
  destruct k as [sent extra|e|].
  - destruct H1 as [Hn H1].
    destruct (List.concat (drop_sent sent sg)) as [|b0 l0] eqn:Ed.
    { inversion E; subst. exists QNone. split; [apply okx_none|]. split; [auto|]. eapply Q_qe_drop; exact H1. }
    rewrite <- Ed in *.
    destruct (l_et (st w)) eqn:Eb; [eapply (mq_wvloop _ M); eauto|].
    eapply (loop_tail W ops rf cid fd false false n _ w1); [congruence|discriminate|exact H1|exact E].
  - destruct (is_eagain e).
    + eapply (loop_tail W ops rf cid fd true (l_et (st w)) n _ w1); [exact Hm1|auto|exact H1|].
      destruct (l_et (st w)); exact E.
    + inversion E; subst. exists QNone. split; [apply okx_none|]. split; [auto|]. eapply Q_qe_drop; exact H1.
  - inversion E; subst. exists QNone. split; [apply okx_none|]. split; [auto|]. apply Q_dead. exact H1.
Qed.

(* ------------------------------------------------------------------ *)
(* conn.write / conn.writev / el.write *)

Lemma wc_wsetc : forall w cid c, wc (wsetc w cid c) cid = c.
Proof. intros. unfold wc, wsetc. cbn [st with_st]. rewrite getc_setc, Z.eqb_refl. reflexivity. Qed.

(* appending to a non-empty outbound buffer of an open connection *)
Lemma Q_append : forall W ops rf cid d w, c_opened (wc w cid) = true -> c_out (wc w cid) <> [] ->
  QINV (RQ W ops QNone rf) w ->
  QINV (RQ W ops QNone rf) (wsetc w cid (c_set_out (wc w cid) (c_out (wc w cid) ++ d))).
Proof.
  intros W ops rf cid d w Ho Hne HI. eapply Inv_wsetc; [exact HI|]. intros [] [p b] _ HR. unfold wc in *.
  apply RQ_setc; auto; cbn [c_set_out c_opened c_udp c_fd c_out]; try discriminate.
  - intros A. congruence.
  - intros fd Hin A D E _ G. apply (q_main _ _ _ _ _ _ _ _ _ HR fd cid Hin A D E Hne G).
Qed.

Lemma Q_enter_qe : forall W ops rf cid w, c_opened (wc w cid) = true -> c_out (wc w cid) = [] ->
  QINV (RQ W ops QNone rf) w -> QINV (RQ W ops (QE cid (c_fd (wc w cid)) false) rf) w.
Proof.
  intros W ops rf cid w Ho He HI. apply Q_xa_set; [|exact HI]. intros u x HR. cbn [qsem]. unfold wc in *.
  pose proof (q_opn _ _ _ _ _ _ _ _ _ HR cid Ho). repeat split; auto. discriminate.
Qed.

Lemma conn_write_S : forall f, MQ f -> forall cid d w r w' W ops rf, (nd = [] \/ nd = [cid]) ->
  QINV (RQ W ops QNone rf) w -> conn_write (S f) cid d w = (r, w') -> QINV (RQ W ops QNone rf) w'.
Proof.
  intros f M cid d w r w' W ops rf Hnd HI E. cbn [conn_write] in E.
  destruct (c_opened (wc w cid)) eqn:Eo; cbn [negb] in E; [|inversion E; subst; exact HI].
  assert (H1 : QINV (RQ W ops QNone rf) (ghost "sub" cid d w)) by (apply Q_emit; [qoign|exact HI]).
  destruct (c_out (wc w cid)) as [|b0 l0] eqn:Eout.
  - assert (H1' : QINV (RQ W ops (QE cid (c_fd (wc w cid)) false) rf) (ghost "sub" cid d w)).
    { rewrite <- (wc_ghost "sub" cid d w cid). apply Q_enter_qe; rewrite ?wc_ghost; auto. }
    destruct (conn_write_loop f cid d (zlen d) _) as [[rn ok] w1] eqn:El.
    destruct (mq_wloop _ M _ _ _ _ _ _ _ _ _ _ _ H1' El) as (xa & Hok & Hxa & H2). cbn [snd] in Hxa.
    destruct ok; [inversion E; subst; rewrite (Hxa eq_refl) in H2; exact H2|].
    destruct (el_close f cid false w1) as [r2 w2] eqn:Ec. inversion E; subst.
    eapply (mq_close _ M); eauto.
  - inversion E; subst.
    pose proof (Q_append W ops rf cid d (ghost "sub" cid d w)) as HA. rewrite !wc_ghost in HA.
    rewrite Eout in HA. apply HA; [exact Eo|discriminate|exact H1].
Qed.

Lemma conn_writev_S : forall f, MQ f -> forall cid sg w r w' W ops rf, (nd = [] \/ nd = [cid]) ->
  QINV (RQ W ops QNone rf) w -> conn_writev (S f) cid sg w = (r, w') -> QINV (RQ W ops QNone rf) w'.
Proof.
  intros f M cid sg w r w' W ops rf Hnd HI E. cbn [conn_writev] in E.
  destruct (c_opened (wc w cid)) eqn:Eo; cbn [negb] in E; [|inversion E; subst; exact HI].
  assert (H1 : QINV (RQ W ops QNone rf) (ghost "sub" cid (List.concat sg) w)) by (apply Q_emit; [qoign|exact HI]).
  destruct (c_out (wc w cid)) as [|b0 l0] eqn:Eout.
  - destruct sg as [|s0 sg']; [inversion E; subst; exact H1|].
    assert (H1' : QINV (RQ W ops (QE cid (c_fd (wc w cid)) false) rf) (ghost "sub" cid (List.concat (s0 :: sg')) w)).
    { rewrite <- (wc_ghost "sub" cid (List.concat (s0 :: sg')) w cid). apply Q_enter_qe; rewrite ?wc_ghost; auto. }
    destruct (conn_writev_loop f cid _ _ _) as [[rn ok] w1] eqn:El.
    destruct (mq_wvloop _ M _ _ _ _ _ _ _ _ _ _ _ H1' El) as (xa & Hok & Hxa & H2). cbn [snd] in Hxa.
    destruct ok; [inversion E; subst; rewrite (Hxa eq_refl) in H2; exact H2|].
    destruct (el_close f cid false w1) as [r2 w2] eqn:Ec. inversion E; subst.
    eapply (mq_close _ M); eauto.
  - inversion E; subst.
    pose proof (Q_append W ops rf cid (List.concat sg) (ghost "sub" cid (List.concat sg) w)) as HA. rewrite !wc_ghost in HA.
    rewrite Eout in HA. apply HA; [exact Eo|discriminate|exact H1].
Qed.

Lemma el_write_S : forall f, MQ f -> forall cid sent w r w' W ops rf xa,
  xa = QNone \/ (xa = QX cid /\ l_et (st w) = true) -> (nd = [] \/ nd = [cid]) ->
  QINV (RQ W ops xa rf) w -> el_write (S f) cid sent w = (r, w') -> QINV (RQ W ops QNone rf) w'.
Proof.
  intros f M cid sent w r w' W ops rf xa Hxa Hnd HI E. cbn [el_write] in E.
  assert (Hxa' : xa = QNone \/ xa = QX cid) by tauto.
  destruct (c_opened (wc w cid)) eqn:Eo; cbn [negb] in E.
  2:{ inversion E; subst. destruct Hxa' as [->| ->]; [exact HI|]. eapply Q_unexempt_closed; eauto. }
  destruct (c_out (wc w cid)) as [|b0 l0] eqn:Eout.
  { inversion E; subst. destruct Hxa' as [->| ->]; [exact HI|]. eapply Q_unexempt_empty; eauto. }
  rewrite <- Eout in E. set (fd := c_fd (wc w cid)) in *.
  destruct (l_et (st w)) eqn:Eb.
  - (* edge-triggered: the connection is exempt while the kernel is asked *)
    assert (Ha : QINV (RQ W ops (QX cid) rf) w) by (destruct Hxa' as [->| ->]; [apply Q_exempt; exact HI|exact HI]).
    destruct (sys_wr cid _ _ false w) as [k w1] eqn:Es.
    pose proof (sys_wr_et _ _ _ _ _ _ _ Es) as Hm1.
    pose proof (Q_sys_wr_gen et nd W ops rf (QX cid) (QX cid) QNone QNone cid fd (c_out (wc w cid)) false w k w1
      ltac:(intros bs w0 _ H0; refine (Q_hand _ _ _ _ (QX cid) _ cid bs _ _ H0); intros _; left; reflexivity)
      ltac:(intros w0 Hm H0; apply Q_owed_x; [left; reflexivity|congruence|exact H0])
      ltac:(intros w0 _ H0; apply Q_fail_x; exact H0) Ha Es) as H1.
    destruct k as [n extra|e|].
    + destruct H1 as [Hn H1].
      assert (H2 : QINV (RQ W ops (QX cid) rf) (wsetc w1 cid (c_set_out (wc w1 cid) (zdrop n (c_out (wc w1 cid)))))).
      { apply Q_set_out_x; [|exact H1]. intros ->. apply zdrop_nil. }
      destruct (zdrop n (c_out (wc w1 cid))) as [|b1 l1] eqn:Ed.
      * inversion E; subst. eapply Q_unexempt_empty; [|exact H2]. rewrite wc_wsetc. reflexivity.
      * rewrite <- Ed in *. destruct (_ <? _).
        { eapply (mq_elwrite _ M); [right; split; [reflexivity|]|exact Hnd|exact H2|exact E]. rewrite st_wsetc_et. congruence. }
        { eapply Q_trigger; [| |exact E]; [reflexivity|].
          apply Q_owed_x; [right; reflexivity|rewrite st_wsetc_et; congruence|exact H2]. }
    + destruct (is_eagain e); [inversion E; subst; exact H1|].
      eapply (mq_close _ M); [apply okx_none|exact Hnd|exact H1|exact E].
    + inversion E; subst. apply Q_dead. exact H1.
  - (* level-triggered *)
    assert (HI0 : QINV (RQ W ops QNone rf) w) by (destruct Hxa as [->|[_ C]]; [exact HI|discriminate]).
    assert (Ha : QINV (RQ W ops (QOf cid fd) rf) w).
    { apply Q_xa_set; [|exact HI0]. intros u x HR. cbn [qsem]. unfold wc in *.
      pose proof (q_opn _ _ _ _ _ _ _ _ _ HR cid Eo). auto. }
    destruct (sys_wr cid _ _ false w) as [k w1] eqn:Es.
    pose proof (sys_wr_et _ _ _ _ _ _ _ Es) as Hm1.
    assert (Hdrop : forall w0, QINV (RQ W ops (QOf cid fd) rf) w0 -> QINV (RQ W ops QNone rf) w0).
    { intros w0 H0. eapply (Q_xa_drop et nd W ops (QOf cid fd)); [intros c0 []|discriminate|exact H0]. }
    pose proof (Q_sys_wr_gen et nd W ops rf (QOf cid fd) (QOf cid fd) QNone QNone cid fd (c_out (wc w cid)) false w k w1
      ltac:(intros bs w0 Hm H0; refine (Q_hand _ _ _ _ (QOf cid fd) _ cid bs _ _ H0); intros C; congruence)
      ltac:(intros w0 _ H0; apply Hdrop; exact (Q_owed _ _ _ _ (QOf cid fd) _ "eagain" cid _ (or_introl eq_refl) H0))
      ltac:(intros w0 _ H0; apply Hdrop; apply Q_fail; exact H0) Ha Es) as H1.
    destruct k as [n extra|e|].
    + destruct H1 as [Hn H1].
      assert (H2 : QINV (RQ W ops (QOf cid fd) rf) (wsetc w1 cid (c_set_out (wc w1 cid) (zdrop n (c_out (wc w1 cid)))))).
      { eapply Inv_wsetc; [exact H1|]. intros [] [p b] _ HR. unfold wc in *.
        apply RQ_setc; auto; cbn [c_set_out c_opened c_udp c_fd c_out]; try discriminate.
        - intros A B D F. rewrite (q_nop _ _ _ _ _ _ _ _ _ HR cid A B D F). apply zdrop_nil.
        - intros fd0 Hin A D F G _. apply (q_main _ _ _ _ _ _ _ _ _ HR fd0 cid Hin A D F); [|intros []].
          intros C. rewrite C, zdrop_nil in G. congruence. }
      destruct (zdrop n (c_out (wc w1 cid))) as [|b1 l1] eqn:Ed.
      * (* the buffer is empty: write interest is withdrawn *)
        assert (H3 : QINV (RQ W ops (QEf cid fd) rf) (wsetc w1 cid (c_set_out (wc w1 cid) []))).
        { eapply (Q_xa_weaken et nd W ops (QOf cid fd)); [intros; discriminate|intros c0 []| |exact H2].
          intros u x HR. pose proof (q_x _ _ _ _ _ _ _ _ _ HR) as X. cbn [qsem] in *.
          destruct X as (X1 & X2 & X3). repeat split; auto.
          change (c_out (wc (wsetc w1 cid (c_set_out (wc w1 cid) [])) cid) = []). rewrite wc_wsetc. reflexivity. }
        eapply Q_xa_drop; [| |eapply Q_epctl_free; [|exact H3|exact E]].
        { intros c0 []. } { intros; discriminate. }
        intros u p b s HR c Hin Hu D Hne. pose proof (q_x _ _ _ _ _ _ _ _ _ HR) as X. cbn [qsem] in X.
        destruct X as (X1 & X2 & X3 & X4).
        destruct (q_reglt _ _ _ _ _ _ _ _ _ HR _ _ Hin) as (_ & L1 & _).
        destruct (q_reg _ _ _ _ _ _ _ _ _ HR cid X4) as [B|[B _]]; rewrite X3 in B; [|congruence].
        assert (c = cid) by congruence. subst c. congruence.
      * rewrite <- Ed in *. inversion E; subst. apply Hdrop. exact H2.
    + destruct (is_eagain e); [inversion E; subst; exact H1|].
      eapply (mq_close _ M); [apply okx_none|exact Hnd|exact H1|exact E].
    + inversion E; subst. apply Q_dead. exact H1.
Qed.

End ND.

(* ------------------------------------------------------------------ *)
(* between different sets of connections treated as clean *)

Notation RQn := (LoopProgressBlock.RQ et).

Lemma RQ_nd_weaken : forall nd nd' W ops xa rf u x s, (forall c, In c nd' -> In c nd) ->
  RQn nd W ops xa rf u x s -> RQn nd' W ops xa rf u x s.
Proof.
  intros nd nd' W ops xa rf u x s Hs [R1 R2 R3 R4 R5 R6 R7 R8 R9 R10 R11 R12 R13]. constructor; auto.
  - intros c A B D [E|E]; apply (R10 c A B D); [left; exact E|right; auto].
  - intros fd c H A D [E|E]; apply (R11 fd c H A D); [left; exact E|right; auto].
Qed.

(* a doomed connection can be treated as clean *)
Lemma RQ_nd_dead : forall W ops xa rf u x s c, pdead (fst x) c = true ->
  RQn [] W ops xa rf u x s -> RQn [c] W ops xa rf u x s.
Proof.
  intros W ops xa rf u x s c Hd [R1 R2 R3 R4 R5 R6 R7 R8 R9 R10 R11 R12 R13]. constructor; auto.
  - intros c0 A B D [E|[->|[]]]; [apply (R10 c0 A B D); left; exact E|congruence].
  - intros fd c0 H A D [E|[->|[]]]; [apply (R11 fd c0 H A D); left; exact E|congruence].
Qed.

(* an exempt open connection can be treated as clean *)
Lemma RQ_nd_exempt : forall W ops rf u x s c, c_opened (getc s c) = true ->
  RQn [] W ops (QX c) rf u x s -> RQn [c] W ops (QX c) rf u x s.
Proof.
  intros W ops rf u x s c Ho [R1 R2 R3 R4 R5 R6 R7 R8 R9 R10 R11 R12 R13]. constructor; auto.
  - intros c0 A B D [E|[->|[]]]; [apply (R10 c0 A B D); left; exact E|congruence].
  - intros fd c0 H A D [E|[->|[]]]; [apply (R11 fd c0 H A D); left; exact E|].
    intros _ G. exfalso. apply G. reflexivity.
Qed.

Definition MQa (f : nat) : Prop := forall nd, MQ nd f.

Lemma el_close_S : forall f, MQa f -> forall nd cid e w r w' W ops rf xa, okx xa cid -> (nd = [] \/ nd = [cid]) ->
  QINV (RQn nd W ops xa rf) w -> el_close (S f) cid e w = (r, w') -> QINV (RQn nd W ops QNone rf) w'.
Proof.
  intros f M nd cid e w r w' W ops rf xa Hxa Hnd HI E. cbn [el_close] in E.
  assert (Hnoop : c_opened (wc w cid) = false \/ alookup (c_fd (wc w cid)) (l_reg (st w)) = None ->
                  QINV (RQn nd W ops QNone rf) w).
  { intros Hg. apply (Q_unexempt et nd W ops xa rf w cid (proj1 Hxa) (proj2 Hxa)); [|exact HI].
    intros u p b HR fd Hin Hu D _ _. exfalso. unfold wc in *.
    assert (Hq : forall A, xa = QRegd cid -> A) by (intros A Q; exfalso; eapply (proj2 Hxa); eauto).
    destruct (q_regop _ _ _ _ _ _ _ _ _ HR fd cid Hin D) as [A|[A|A]]; [|congruence|apply Hq; exact A].
    destruct (q_reg _ _ _ _ _ _ _ _ _ HR cid A) as [B|[B C]].
    - destruct Hg; congruence.
    - destruct (q_W _ _ _ _ _ _ _ _ _ HR cid C) as [D' _]. cbn [fst] in *. congruence. }
  destruct (c_opened (wc w cid)) eqn:Eo; cbn [negb orb] in E; [|inversion E; subst; apply Hnoop; auto].
  destruct (alookup (c_fd (wc w cid)) (l_reg (st w))) as [rc|] eqn:Er; [|inversion E; subst; apply Hnoop; auto].
  clear Hnoop.
  set (w2 := emit _ (with_st w _)) in E.
  assert (H2 : QINV (RQn [] (cid :: W) ops QNone rf) w2).
  { subst w2. eapply Inv_set_emit; [exact HI|reflexivity|].
    intros [] [p b] _ HR. cbn [ustep]. unfold wc in *.
    destruct (RQ_close nd _ _ _ _ _ _ _ cid (err_sym e) xa Hxa HR Eo) as [x' [Ex HR']]; [congruence|].
    exists x'. split; [exact Ex|]. eapply RQ_nd_weaken; [|exact HR']. intros c []. }
  clearbody w2.
  destruct (handler f cid w2) as [[act rep] w3] eqn:Eh.
  pose proof (mq_handler _ _ (M []) _ _ _ _ _ _ _ eq_refl H2 Eh) as H3.
  assert (HinW : In cid (cid :: W)) by (left; reflexivity).
  pose proof (mq_drain _ _ (M []) cid _ _ _ _ HinW H3) as H4.
  set (w4 := close_drain f cid w3) in *. clearbody w4.
  set (fd4 := c_fd (wc w4 cid)) in *.
  assert (H5 : QINV (RQn nd W ops (QNoReg fd4) rf) (wsetc w4 cid (c_release (wc w4 cid)))).
  { eapply Inv_wsetc; [exact H4|]. intros [] x _ HR.
    assert (HRn : RQn nd (cid :: W) ops QNone rf tt x (st w4)).
    { destruct Hnd as [->| ->]; [exact HR|]. apply RQ_nd_dead; [|exact HR].
      apply (q_W _ _ _ _ _ _ _ _ _ HR cid HinW). }
    apply RQ_release. exact HRn. }
  assert (Hfree : forall u p b s, RQn nd W ops (QNoReg fd4) rf u (p, b) s ->
     forall c, In (fd4, c) (l_reg s) -> c_udp (getc s c) = false -> pdead p c = false -> c_out (getc s c) <> [] -> False).
  { intros u p b s HR c Hin _ _ _. pose proof (q_x _ _ _ _ _ _ _ _ _ HR) as X. cbn [qsem] in X.
    eapply noreg_free; eauto. }
  destruct (epctl "del" _ false false _) as [r0 w6] eqn:E6.
  pose proof (Q_epctl_free _ _ _ _ _ _ _ _ _ _ _ _ _ Hfree H5 E6) as H6.
  destruct (sys "close" _ w6) as [k1 w7] eqn:E7.
  pose proof (Q_sys_close _ _ _ _ _ _ _ _ _ _ Hfree H6 E7) as H7.
  assert (H7' : QINV (RQn nd W ops QNone rf) w7)
    by (eapply (Q_xa_drop et nd W ops (QNoReg fd4)); [| |exact H7]; [intros c []|intros; discriminate]).
  destruct (match r0 with RNil => _ | _ => true end); [inversion E; subst; exact H7'|].
  destruct act; [inversion E; subst; exact H7'| |inversion E; subst; exact H7'].
  eapply (mq_close _ _ (M nd)); [apply okx_none|exact Hnd|exact H7'|exact E].
Qed.

(* ------------------------------------------------------------------ *)
(* ReadFrom and Flush *)

Notation RQ0 := (LoopProgressBlock.RQ et []).

Lemma Q_hr_readfrom : forall W ops rf cid vals w c',
  c_fd c' = c_fd (wc w cid) -> c_opened c' = c_opened (wc w cid) -> c_udp c' = c_udp (wc w cid) ->
  QINV (RQ0 W ops QNone rf) w ->
  QINV (RQ0 W ops QNone rf) (emit (obs "hr" (AInt cid :: ASym "readfrom" :: vals)) (wsetc w cid c')).
Proof.
  intros W ops rf cid vals w c' Hf Ho Hu HI. eapply Inv_wsetc_emit; [exact HI|reflexivity|].
  intros [] [p b] _ HR. cbn [ustep]. eexists. split; [apply qstep_hr; reflexivity|]. unfold wc in *.
  set (p' := mkP (p_et p) (p_want_w p) (p_last p) (p_owed p) (cid :: p_dirty p) (p_dead p)).
  assert (Hcl : forall c0, clean [] p' c0 -> c0 <> cid /\ clean [] p c0).
  { intros c0 [H|[]]. unfold pdirty, p' in H. cbn [p_dirty] in H. rewrite zmem_cons in H. apply orb_false_elim in H.
    destruct H as [A B]. split; [lia|left; exact B]. }
  assert (HR' : RQ0 W ops QNone rf tt (p', b) (st w)).
  { eapply RQ_prog; [exact HR|reflexivity|exact (q_last _ _ _ _ _ _ _ _ _ HR)|auto| | | |exact I].
    - exact (q_regop _ _ _ _ _ _ _ _ _ HR).
    - intros c0 A B D E. apply (q_nop _ _ _ _ _ _ _ _ _ HR c0 A B D). apply (Hcl _ E).
    - intros fd c0 H A D E F G. apply (q_main _ _ _ _ _ _ _ _ _ HR fd c0 H A D); auto. apply (Hcl _ E). }
  apply RQ_setc; auto; try discriminate.
  - intros _ _ _ E. exfalso. destruct (Hcl _ E). congruence.
  - intros fd _ _ _ E. exfalso. destruct (Hcl _ E). congruence.
Qed.

(* a successful Flush: the connection is clean again; it must be served like every other one *)
Lemma Q_hr_flush_nil : forall (R : unit -> progst * rdst -> lstate -> Prop) nd1 W ops ops0 xa1 rf cid w,
  (forall c, In c ops0 -> In c ops) ->
  (forall c, ~ exempt xa1 c) -> (forall c, xa1 <> QRegd c) ->
  (forall u p b, halt w = false -> R u (p, b) (st w) ->
     RQn nd1 W ops xa1 rf u (p, b) (st w) /\
     (c_opened (wc w cid) = false -> c_udp (wc w cid) = false -> pdead p cid = false -> c_out (wc w cid) = []) /\
     (forall fd, In (fd, cid) (l_reg (st w)) -> c_udp (wc w cid) = false -> pdead p cid = false ->
        c_out (wc w cid) <> [] -> served et p fd cid) /\
     (forall c, In c nd1 -> c = cid)) ->
  QINV R w ->
  QINV (RQ0 W ops0 QNone rf) (emit (obs "hr" [AInt cid; ASym "flush"; ASym "nil"]) w).
Proof.
  intros R nd1 W ops ops0 xa1 rf cid w Hsub N1 N2 Hc HI. eapply Inv_emit; [exact HI|reflexivity|].
  intros [] [p b] Hh HR0. cbn [ustep]. eexists. split; [apply qstep_hr; reflexivity|].
  destruct (Hc _ _ _ Hh HR0) as (HR & C1 & C2 & Hnd). unfold wc in *.
  set (p' := mkP (p_et p) (p_want_w p) (p_last p) (p_owed p) (zrem cid (p_dirty p)) (p_dead p)).
  assert (Hcl : forall c0, c0 <> cid -> clean [] p' c0 -> clean nd1 p c0).
  { intros c0 N [H|[]]. left. unfold pdirty, p' in *. cbn [p_dirty] in H. rewrite zmem_zrem in H.
    replace (c0 =? cid) with false in H by lia. exact H. }
  destruct HR as [R1 R2 R3 R4 R5 R6 R7 R8 R9 R10 R11 R12 R13]. cbn [fst snd] in *.
  constructor; cbn [fst snd]; auto.
  - intros fd c H D. destruct (R7 _ _ H D) as [A|[A|A]]; auto. exfalso. eapply N2; eauto.
  - intros c fd H. apply (R9 c fd). apply Hsub. exact H.
  - intros c A B D E. destruct (Z.eq_dec c cid) as [->|N]; [apply C1; auto|]. apply (R10 c A B D). apply Hcl; auto.
  - intros fd c H A D E F _. destruct (Z.eq_dec c cid) as [->|N]; [apply C2; auto|].
    assert (M0 : served et p fd c) by (apply (R11 fd c H A D); auto; apply N1). exact M0.
  - exact I.
Qed.

Lemma Q_nd_ops_drop : forall nd1 W ops ops' xa rf w, (forall c, In c ops -> In c ops') ->
  QINV (RQn nd1 W ops' xa rf) w -> QINV (RQ0 W ops xa rf) w.
Proof.
  intros nd1 W ops ops' xa rf w Hs HI. eapply Q_weaken; [|exact HI]. intros u x HR.
  apply (RQ_nd_weaken nd1 []); [intros c []|].
  destruct HR as [R1 R2 R3 R4 R5 R6 R7 R8 R9 R10 R11 R12 R13]. constructor; auto.
Qed.

Lemma handler_S : forall f, MQa f -> forall cid w r w' W ops rf,
  QINV (RQ0 W ops QNone rf) w -> handler (S f) cid w = (r, w') -> QINV (RQ0 W ops QNone rf) w'.
Proof.
  intros f M cid w r w' W ops rf HI E. rewrite handler_eq in E.
  destruct (pull w) as [[[name args]|] w1] eqn:Ep.
  - pose proof (Q_pull _ _ _ _ _ _ _ _ _ _ HI Ep) as H1.
    destruct (String.eqb name "hret").
    { destruct args; inversion E; subst; [eapply Q_desync; exact H1|exact H1]. }
    destruct (String.eqb name "h"); [|inversion E; subst; eapply Q_desync; exact H1].
    destruct args as [|[?|?|call] args']; try (inversion E; subst; eapply Q_desync; exact H1).
    eapply (mq_handler _ _ (M [])); [reflexivity| |exact E]. apply (mq_hcall _ _ (M [])); [reflexivity|exact H1].
  - inversion E; subst. eapply Q_pull; eauto.
Qed.

Ltac chain_next :=
  match goal with |- context [if sym_eqb ?c ?lit then _ else _] =>
    let E := fresh "Ec" in destruct (sym_eqb c lit) eqn:E;
    [apply String.eqb_eq in E; subst c|] end.
Ltac qoign := apply qign_out_ign; repeat split; reflexivity.
Ltac hrq := apply Q_emit; [qoign|].
Ltac dsq := eapply Q_desync; eassumption.

Lemma Q_same0 : forall W ops rf w c c',
  c_fd c' = c_fd (wc w c) -> c_opened c' = c_opened (wc w c) -> c_udp c' = c_udp (wc w c) ->
  c_out c' = c_out (wc w c) ->
  QINV (RQ0 W ops QNone rf) w -> QINV (RQ0 W ops QNone rf) (wsetc w c c').
Proof. intros. apply Q_wsetc_same; auto. Qed.


Lemma hcall_flush : forall f, MQa f -> forall cid w W ops rf,
  QINV (RQ0 W ops QNone rf) w ->
  QINV (RQ0 W ops QNone rf)
    (if c_udp (wc w cid) then emit (obs "hr" [AInt cid; ASym "flush"; ASym "nil"]) w else
     if negb (c_opened (wc w cid)) then emit (obs "hr" [AInt cid; ASym "flush"; ASym "err"]) w else
     let '(r, w1) := el_write f cid 0 w in
     match r with
     | RNil =>
         if negb (l_et (st w1)) && c_opened (wc w1 cid) && (match c_out (wc w1 cid) with [] => false | _ => true end) then
           let '(r2, w2) := epctl "mod" (c_fd (wc w1 cid)) true false w1 in
           emit (obs "hr" [AInt cid; ASym "flush"; ASym (match r2 with RNil => "nil" | _ => "err" end)]) w2
         else emit (obs "hr" [AInt cid; ASym "flush"; ASym "nil"]) w1
     | RShutdown => emit (obs "hr" [AInt cid; ASym "flush"; ASym "shutdown"]) w1
     | _ => emit (obs "hr" [AInt cid; ASym "flush"; ASym "err"]) w1
     end).
Proof.
  intros f M cid w W ops rf HI.
  destruct (c_udp (wc w cid)) eqn:Eu.
  { eapply (Q_hr_flush_nil _ [] W ops ops QNone rf cid w); [auto|intros c []|discriminate| |exact HI].
    intros u p b _ HR. split; [exact HR|]. repeat split; try congruence. intros c []. }
  destruct (c_opened (wc w cid)) eqn:Eo; cbn [negb]; [|hrq; exact HI].
  set (ops' := (cid, Some (c_fd (wc w cid))) :: ops).
  assert (Hsub : forall c, In c ops -> In c ops') by (intros c H; right; exact H).
  pose proof (Q_ops_add [] _ _ _ _ _ cid Eo HI) as HIo. fold ops' in HIo.
  destruct (el_write f cid 0 w) as [r w1] eqn:Ew.
  pose proof (ef_elwrite _ (EF_all f) _ _ _ _ _ Ew) as Hm1.
  set (nd1 := if l_et (st w) then [cid] else []).
  assert (Hnd1 : forall c, In c nd1 -> c = cid).
  { subst nd1. destruct (l_et (st w)); intros c H; [destruct H as [H|[]]; auto|destruct H]. }
  assert (H1 : QINV (RQn nd1 W ops' QNone rf) w1).
  { subst nd1. destruct (l_et (st w)) eqn:Eb.
    - eapply (mq_elwrite _ _ (M [cid])); [right; split; [reflexivity|exact Eb]|right; reflexivity| |exact Ew].
      eapply Q_weaken; [|apply (Q_exempt et [] _ _ _ _ cid HIo)]. intros u x HR. apply RQ_nd_exempt; [exact Eo|exact HR].
    - eapply (mq_elwrite _ _ (M [])); [left; reflexivity|left; reflexivity|exact HIo|exact Ew]. }
  assert (Hdrop : forall w0, QINV (RQn nd1 W ops' QNone rf) w0 -> QINV (RQ0 W ops QNone rf) w0).
  { intros w0 H0. eapply Q_nd_ops_drop; [exact Hsub|exact H0]. }
  destruct r; try (hrq; apply Hdrop; exact H1).
  destruct (negb (l_et (st w1)) && c_opened (wc w1 cid) && _) eqn:Et.
  - (* level-triggered, still open, bytes left: ask for writability *)
    apply andb_prop in Et. destruct Et as [Et Et3]. apply andb_prop in Et. destruct Et as [Et1 Et2].
    assert (Eb1 : l_et (st w1) = false) by (destruct (l_et (st w1)); [discriminate|reflexivity]).
    assert (Eb : l_et (st w) = false) by congruence.
    assert (H1' : QINV (RQ0 W ops' QNone rf) w1) by (subst nd1; rewrite Eb in H1; exact H1).
    set (fd1 := c_fd (wc w1 cid)).
    assert (H1o : QINV (RQ0 W ops' (QOf cid fd1) rf) w1).
    { apply Q_xa_set; [|exact H1']. intros u x HR. cbn [qsem]. unfold wc in *.
      pose proof (q_opn _ _ _ _ _ _ _ _ _ HR cid Et2). auto. }
    destruct (epctl "mod" _ true false w1) as [r2 w2] eqn:E2.
    assert (Hop : op_code "mod" <> 2) by (cbn; discriminate).
    pose proof (Q_epctl_arm et [] _ _ _ _ _ _ _ _ _ _ Hop H1o E2) as H2.
    pose proof (epctl_et _ _ _ _ _ _ _ E2) as Hm2.
    destruct r2.
    + eapply (Q_hr_flush_nil _ [] W ops' ops (QOf cid fd1) rf cid w2); [exact Hsub|intros c []|discriminate| |exact H2].
      intros u p b Hh [HR Hw]. split; [exact HR|]. cbn [fst] in Hw.
      pose proof (q_x _ _ _ _ _ _ _ _ _ HR) as X. cbn [qsem] in X. destruct X as (X1 & X2 & X3). unfold wc.
      repeat split; [congruence| |intros c []].
      intros fd0 Hin _ _ _. unfold served.
      destruct (q_et _ _ _ _ _ _ _ _ _ HR) as [E1 _]. assert (Het : et = false) by congruence. rewrite Het.
      destruct (q_reglt _ _ _ _ _ _ _ _ _ HR _ _ Hin) as (_ & _ & F). rewrite F in X2. subst fd0.
      apply Hw; auto.
    + hrq; apply (Q_nd_ops_drop [] W ops ops'); [exact Hsub|];
      eapply (Q_xa_drop et [] W ops' (QOf cid fd1)); [intros c []|discriminate|];
      (eapply Inv_weaken; [|exact H2]); intros h x _ [HR _]; exact HR.
    + hrq; apply (Q_nd_ops_drop [] W ops ops'); [exact Hsub|];
      eapply (Q_xa_drop et [] W ops' (QOf cid fd1)); [intros c []|discriminate|];
      (eapply Inv_weaken; [|exact H2]); intros h x _ [HR _]; exact HR.
    + hrq; apply (Q_nd_ops_drop [] W ops ops'); [exact Hsub|];
      eapply (Q_xa_drop et [] W ops' (QOf cid fd1)); [intros c []|discriminate|];
      (eapply Inv_weaken; [|exact H2]); intros h x _ [HR _]; exact HR.
  - (* nothing to register: the Flush succeeded *)
    eapply (Q_hr_flush_nil _ nd1 W ops' ops QNone rf cid w1); [exact Hsub|intros c []|discriminate| |exact H1].
    intros u p b _ HR. split; [exact HR|]. unfold wc in *. split; [|split; [|exact Hnd1]].
    + intros A _ D. destruct (q_ops _ _ _ _ _ _ _ _ _ HR cid _ (or_introl eq_refl)) as (_ & (_ & [B|B])); cbn [fst] in *; congruence.
    + intros fd0 Hin A D Hne.
      destruct (l_et (st w1)) eqn:Eb1.
      * assert (Eb : l_et (st w) = true) by congruence. subst nd1. rewrite Eb in HR.
        apply (q_main _ _ _ _ _ _ _ _ _ HR fd0 cid Hin A D); [right; left; reflexivity|exact Hne|intros []].
      * cbn [negb andb] in Et. destruct (c_opened (getc (st w1) cid)) eqn:Eo1.
        { cbn [andb] in Et. destruct (c_out (getc (st w1) cid)); [congruence|discriminate]. }
        { destruct (q_ops _ _ _ _ _ _ _ _ _ HR cid _ (or_introl eq_refl)) as (_ & (_ & [B|B])); cbn [fst] in *; congruence. }
Qed.

Lemma Q_sys0 : forall W ops rf name args w k w',
  out_ign ustep (qstep et) (obs "sys" (ASym name :: args)) ->
  QINV (RQ0 W ops QNone rf) w -> sys name args w = (k, w') -> QINV (RQ0 W ops QNone rf) w'.
Proof. intros. eapply Q_sys; eauto. Qed.

Lemma hcall_S : forall f, MQa f -> forall cid call args w W ops rf,
  QINV (RQ0 W ops QNone rf) w -> QINV (RQ0 W ops QNone rf) (hcall (S f) cid call args w).
Proof.
  intros f M cid call args w W ops rf HI. cbn [hcall].
  chain_next.
  { destruct args as [|[n|?|?] [|]]; try dsq.
    destruct (c_in (wc w cid)); [hrq; apply Q_same0; auto|].
    destruct (_ =? n); hrq; apply Q_same0; auto. }
  chain_next.
  { destruct args as [|[n|?|?] [|]]; try dsq.
    destruct (n >? _); [hrq; exact HI|]. hrq; apply Q_same0; auto. }
  chain_next.
  { destruct args as [|[n|?|?] [|]]; try dsq. destruct (n >? _); hrq; exact HI. }
  chain_next.
  { destruct args as [|[n|?|?] [|]]; try dsq.
    destruct (_ || _); [hrq; apply Q_same0; auto|].
    destruct (c_in (wc w cid)); [hrq; apply Q_same0; auto|].
    destruct (n <? _); hrq; apply Q_same0; auto. }
  chain_next.
  { (* writeto *)
    destruct (_ || _); [hrq; apply Q_same0; auto|].
    destruct (_ <? _); hrq; apply Q_same0; auto. }
  chain_next.
  { hrq. exact HI. }
  chain_next.
  { hrq. exact HI. }
  chain_next.
  { (* write *)
    destruct args as [|[?|d|?] [|]]; try dsq.
    destruct (c_udp (wc w cid)).
    - destruct (_ && _); [hrq; exact HI|].
      destruct (sys "sendto" _ w) as [k w1] eqn:Es.
      assert (H1 : QINV (RQ0 W ops QNone rf) w1) by (eapply Q_sys0; [|exact HI|exact Es]; qoign).
      destruct k; hrq; exact H1.
    - destruct (conn_write f cid d w) as [[n ok] w1] eqn:Ew.
      hrq. eapply (mq_write _ _ (M [])); [left; reflexivity|exact HI|exact Ew]. }
  chain_next.
  { destruct (c_udp (wc w cid)); [hrq; exact HI|].
    destruct (conn_writev f cid (segs_of args) w) as [[n ok] w1] eqn:Ew.
    hrq. eapply (mq_writev _ _ (M [])); [left; reflexivity|exact HI|exact Ew]. }
  chain_next.
  { exact (hcall_flush f M cid w W ops rf HI). }
  chain_next.
  { (* readfrom *)
    destruct args as [|[?|d|?] [|]]; try dsq.
    pose proof (Q_hr_readfrom W ops rf cid [AInt (zlen d); ASym "nil"] (ghost "sub" cid d w)
                  (c_set_out (wc w cid) (c_out (wc w cid) ++ d))) as HR. rewrite !wc_ghost in HR.
    apply HR; auto. apply Q_emit; [qoign|exact HI]. }
  chain_next.
  { (* asyncwrite *)
    destruct args as [|[?|d|?] [|cb [|]]]; try dsq.
    destruct (c_udp (wc w cid)).
    - set (w0 := if negb (c_remote (wc w cid)) && negb (c_opened (wc w cid)) then _ else w).
      assert (H0 : QINV (RQ0 W ops QNone rf) w0).
      { subst w0. destruct (_ && _); [apply Q_emit; [qoign|exact HI]|exact HI]. }
      destruct (sys "sendto" _ w0) as [k w1] eqn:Es.
      assert (H1 : QINV (RQ0 W ops QNone rf) w1) by (eapply Q_sys0; [|exact H0|exact Es]; qoign).
      hrq. destruct (flag_of cb); [apply Q_emit; [qoign|exact H1]|exact H1].
    - destruct (trigger false _ w) as [r w1] eqn:Et.
      hrq. eapply Q_trigger; [|exact HI|exact Et]; reflexivity. }
  chain_next.
  { destruct args as [|cb segs]; try dsq.
    destruct (c_udp (wc w cid)); [hrq; exact HI|].
    destruct (trigger false _ w) as [r w1] eqn:Et.
    hrq. eapply Q_trigger; [|exact HI|exact Et]; reflexivity. }
  chain_next.
  { destruct args as [|cb [|]]; try dsq.
    destruct (trigger true _ w) as [r w1] eqn:Et.
    hrq. eapply Q_trigger; [|exact HI|exact Et]; reflexivity. }
  chain_next.
  { destruct args as [|cb [|]]; try dsq.
    destruct (trigger true _ w) as [r w1] eqn:Et.
    hrq. eapply Q_trigger; [|exact HI|exact Et]; reflexivity. }
  chain_next.
  { destruct (el_close f _ true w) as [r w1] eqn:Ecl.
    hrq. eapply (mq_close _ _ (M [])); [apply okx_none|left; reflexivity|exact HI|exact Ecl]. }
  chain_next.
  { destruct args as [|[t|?|?] [|[?|?|call'] args']]; try dsq.
    destruct (c_opened (wc w t)); [|dsq].
    apply (mq_hcall _ _ (M [])); [reflexivity|exact HI]. }
  dsq.
Qed.

Lemma MQa_all : forall f, MQa f.
Proof.
  induction f as [|f IH]; intros nd.
  - constructor; intros; cbn in *;
      try match goal with E : (_, _) = (_, _) |- _ => inversion E; subst end;
      try (eexists; split; [apply okx_none|split; [reflexivity|]]); eapply Q_desync; eassumption.
  - constructor.
    + intros. eapply el_close_S; eauto.
    + apply close_drain_S. exact (IH nd).
    + apply conn_write_S. exact (IH nd).
    + apply conn_write_loop_S. exact (IH nd).
    + apply conn_writev_loop_S. exact (IH nd).
    + apply conn_writev_S. exact (IH nd).
    + apply el_write_S. exact (IH nd).
    + intros cid w r w' W ops rf ->. apply handler_S. exact IH.
    + intros cid call args w W ops rf ->. apply hcall_S. exact IH.
Qed.

End ET.
