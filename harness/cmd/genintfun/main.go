// genintfun translates straight-line integer functions of the current gnet
// source into Gallina over Z (with the fixed-width wraps written out) and
// emits, for each, the obligation that it equals the hand-written model.
//
// usage: genintfun -o Gen.v  file.go:Func:Model.name[:argtypes] ...
//
// Supported subset: parameters of integer type; statements `if c { ... }`
// whose body ends in return/panic or is a single assignment, `x := e`,
// `x = e`, `x op= e`, `return e`, `panic(..)`, `x := f(args)` for another
// translated function; expressions over + - * / % & | ^ << >> comparisons
// && || !, integer literals, named constants (evaluated), conversions
// int/uint/uint32/uint64/int32, bits.Len/Len32/Len64.  Anything else makes
// the function "untranslatable", which the check reports as a broken
// obligation (never silently skipped).
package main

import (
	"flag"
	"fmt"
	"go/ast"
	"go/constant"
	"go/parser"
	"go/token"
	"go/types"
	"os"
	"strings"
)

type env struct {
	vars   map[string]string // variable -> Go type name
	consts map[string]string // constant -> decimal literal
	funcs  map[string]string // translated function name -> Gallina name
	rets   map[string]string // function name -> result type
}

type untranslatable struct{ msg string }

func fail(format string, a ...interface{}) { panic(untranslatable{fmt.Sprintf(format, a...)}) }

func wrapOf(t string) string {
	switch t {
	case "int", "int64":
		return "wrap64"
	case "uint", "uint64", "uintptr":
		return "wrapu64"
	case "uint32":
		return "wrapu32"
	case "int32":
		return "wrap32"
	case "uint16":
		return "wrapu16"
	case "uint8", "byte":
		return "wrapu8"
	case "untyped":
		return ""
	}
	fail("unsupported integer type %s", t)
	return ""
}

func lit(v string) string {
	if strings.HasPrefix(v, "-") {
		return "(" + v + ")"
	}
	return v
}

// expr returns (gallina, type); bool expressions have type "bool".
func (e *env) expr(x ast.Expr) (string, string) {
	switch v := x.(type) {
	case *ast.ParenExpr:
		return e.expr(v.X)
	case *ast.BasicLit:
		if v.Kind != token.INT {
			fail("non-integer literal %s", v.Value)
		}
		c := constant.MakeFromLiteral(v.Value, token.INT, 0)
		return lit(c.ExactString()), "untyped"
	case *ast.Ident:
		if t, ok := e.vars[v.Name]; ok {
			return v.Name, t
		}
		if c, ok := e.consts[v.Name]; ok {
			return lit(c), "untyped"
		}
		if v.Name == "true" || v.Name == "false" {
			return v.Name, "bool"
		}
		fail("unknown identifier %s", v.Name)
	case *ast.UnaryExpr:
		s, t := e.expr(v.X)
		switch v.Op {
		case token.SUB:
			if t == "untyped" {
				return "(- " + s + ")", t
			}
			return "(" + wrapOf(t) + " (- " + s + "))", t
		case token.NOT:
			return "(negb " + s + ")", "bool"
		}
		fail("unary %s", v.Op)
	case *ast.BinaryExpr:
		l, lt := e.expr(v.X)
		r, rt := e.expr(v.Y)
		t := lt
		if t == "untyped" {
			t = rt
		}
		w := func(s string) string {
			if t == "untyped" {
				return "(" + s + ")"
			}
			return "(" + wrapOf(t) + " (" + s + "))"
		}
		switch v.Op {
		case token.ADD:
			return w(l + " + " + r), t
		case token.SUB:
			return w(l + " - " + r), t
		case token.MUL:
			return w(l + " * " + r), t
		case token.QUO:
			if rt != "untyped" {
				fail("division by a non-constant")
			}
			return "(Z.quot " + l + " " + r + ")", t
		case token.REM:
			if rt != "untyped" {
				fail("remainder by a non-constant")
			}
			return "(Z.rem " + l + " " + r + ")", t
		case token.AND:
			return "(Z.land " + l + " " + r + ")", t
		case token.OR:
			return "(Z.lor " + l + " " + r + ")", t
		case token.XOR:
			return "(Z.lxor " + l + " " + r + ")", t
		case token.SHL:
			if lt == "untyped" {
				// constant shifted by a variable takes the type of the context: int
				return "(wrap64 (Z.shiftl " + l + " " + r + "))", "int"
			}
			return "(" + wrapOf(lt) + " (Z.shiftl " + l + " " + r + "))", lt
		case token.SHR:
			return "(Z.shiftr " + l + " " + r + ")", lt
		case token.EQL:
			return "(" + l + " =? " + r + ")", "bool"
		case token.NEQ:
			return "(negb (" + l + " =? " + r + "))", "bool"
		case token.LSS:
			return "(" + l + " <? " + r + ")", "bool"
		case token.LEQ:
			return "(" + l + " <=? " + r + ")", "bool"
		case token.GTR:
			return "(" + l + " >? " + r + ")", "bool"
		case token.GEQ:
			return "(" + l + " >=? " + r + ")", "bool"
		case token.LAND:
			return "(" + l + " && " + r + ")", "bool"
		case token.LOR:
			return "(" + l + " || " + r + ")", "bool"
		}
		fail("binary %s", v.Op)
	case *ast.CallExpr:
		if len(v.Args) == 1 {
			if id, ok := v.Fun.(*ast.Ident); ok {
				switch id.Name {
				case "int", "uint", "uint32", "uint64", "int32", "int64", "uint16", "uint8", "byte":
					s, _ := e.expr(v.Args[0])
					return "(" + wrapOf(id.Name) + " " + s + ")", id.Name
				}
			}
			if sel, ok := v.Fun.(*ast.SelectorExpr); ok {
				if p, ok := sel.X.(*ast.Ident); ok && p.Name == "bits" {
					switch sel.Sel.Name {
					case "Len", "Len32", "Len64", "Len16", "Len8":
						s, _ := e.expr(v.Args[0])
						return "(bits_len " + s + ")", "int"
					}
				}
			}
		}
		fail("call in expression position")
	}
	fail("expression %T", x)
	return "", ""
}

func (e *env) boolExpr(x ast.Expr) string {
	s, t := e.expr(x)
	if t != "bool" {
		fail("condition is not boolean")
	}
	return s
}

func terminates(b []ast.Stmt) bool {
	if len(b) == 0 {
		return false
	}
	switch s := b[len(b)-1].(type) {
	case *ast.ReturnStmt:
		return true
	case *ast.ExprStmt:
		if c, ok := s.X.(*ast.CallExpr); ok {
			if id, ok := c.Fun.(*ast.Ident); ok && id.Name == "panic" {
				return true
			}
		}
	}
	return false
}

// stmts translates a statement list to a Gallina term of type outcome T.
func (e *env) stmts(ss []ast.Stmt, ind string) string {
	if len(ss) == 0 {
		fail("function falls off its end")
	}
	rest := ss[1:]
	switch s := ss[0].(type) {
	case *ast.ReturnStmt:
		if len(s.Results) != 1 {
			fail("return arity")
		}
		v, _ := e.expr(s.Results[0])
		return ind + "Ret " + v
	case *ast.ExprStmt:
		if c, ok := s.X.(*ast.CallExpr); ok {
			if id, ok := c.Fun.(*ast.Ident); ok && id.Name == "panic" {
				return ind + "Panic"
			}
		}
		fail("expression statement")
	case *ast.AssignStmt:
		return e.assign(s, ind) + "\n" + e.stmts(rest, ind)
	case *ast.IfStmt:
		if s.Else != nil {
			fail("else branch")
		}
		pre := ""
		if s.Init != nil {
			a, ok := s.Init.(*ast.AssignStmt)
			if !ok {
				fail("if-init")
			}
			pre = e.assign(a, ind) + "\n"
		}
		c := e.boolExpr(s.Cond)
		if terminates(s.Body.List) {
			sub := e.clone()
			th := sub.stmts(s.Body.List, "")
			return pre + ind + "if " + c + " then " + th + " else\n" + e.stmts(rest, ind)
		}
		if len(s.Body.List) == 1 {
			if a, ok := s.Body.List[0].(*ast.AssignStmt); ok && a.Tok != token.DEFINE && len(a.Lhs) == 1 {
				id, ok := a.Lhs[0].(*ast.Ident)
				if !ok {
					fail("assignment target")
				}
				sub := e.clone()
				rhs := sub.assignRHS(a)
				return pre + ind + "let " + id.Name + " := if " + c + " then " + rhs + " else " + id.Name + " in\n" + e.stmts(rest, ind)
			}
		}
		fail("if body is neither terminating nor a single assignment")
	}
	fail("statement %T", ss[0])
	return ""
}

func (e *env) clone() *env {
	v := map[string]string{}
	for k, t := range e.vars {
		v[k] = t
	}
	return &env{vars: v, consts: e.consts, funcs: e.funcs, rets: e.rets}
}

func (e *env) assignRHS(a *ast.AssignStmt) string {
	id := a.Lhs[0].(*ast.Ident)
	switch a.Tok {
	case token.ASSIGN, token.DEFINE:
		v, _ := e.expr(a.Rhs[0])
		return v
	default:
		ops := map[token.Token]token.Token{token.OR_ASSIGN: token.OR, token.AND_ASSIGN: token.AND,
			token.ADD_ASSIGN: token.ADD, token.SUB_ASSIGN: token.SUB, token.SHL_ASSIGN: token.SHL,
			token.SHR_ASSIGN: token.SHR, token.MUL_ASSIGN: token.MUL, token.XOR_ASSIGN: token.XOR}
		op, ok := ops[a.Tok]
		if !ok {
			fail("assignment operator %s", a.Tok)
		}
		v, _ := e.expr(&ast.BinaryExpr{X: id, Op: op, Y: a.Rhs[0]})
		return v
	}
}

func (e *env) assign(a *ast.AssignStmt, ind string) string {
	if len(a.Lhs) != 1 || len(a.Rhs) != 1 {
		fail("multi-assignment")
	}
	id, ok := a.Lhs[0].(*ast.Ident)
	if !ok {
		fail("assignment target")
	}
	// x := f(args) for a translated function: monadic bind
	if c, ok := a.Rhs[0].(*ast.CallExpr); ok {
		if fn, ok := c.Fun.(*ast.Ident); ok {
			if g, ok := e.funcs[fn.Name]; ok {
				var args []string
				for _, x := range c.Args {
					s, _ := e.expr(x)
					args = append(args, s)
				}
				e.vars[id.Name] = e.rets[fn.Name]
				return ind + "obind (" + g + " " + strings.Join(args, " ") + ") (fun " + id.Name + " =>"
			}
		}
	}
	rhs := e.assignRHS(a)
	if a.Tok == token.DEFINE {
		_, t := e.expr(a.Rhs[0])
		if t == "untyped" {
			t = "int"
		}
		e.vars[id.Name] = t
	}
	return ind + "let " + id.Name + " := " + rhs + " in"
}

func typeName(x ast.Expr) string {
	if id, ok := x.(*ast.Ident); ok {
		return id.Name
	}
	fail("parameter type")
	return ""
}

func main() {
	out := flag.String("o", "Gen.v", "")
	imports := flag.String("imports", "From GV Require Import Lib.Trace Model.Arith.", "")
	flag.Parse()
	var b strings.Builder
	b.WriteString("(* generated by genintfun from the current source; do not edit *)\n")
	b.WriteString(*imports + "\nFrom Coq Require Import ZArith Bool Lia.\nOpen Scope Z_scope.\n\n")
	b.WriteString("Ltac gen_eq := intros; first [ reflexivity | timeout 20 (unfold_all; repeat match goal with |- context[if ?c then _ else _] => destruct c eqn:? end; first [reflexivity | f_equal; lia]) ].\n\n")
	type job struct{ file, fn, model string }
	var jobs []job
	for _, a := range flag.Args() {
		p := strings.Split(a, ":")
		if len(p) < 3 {
			fmt.Fprintln(os.Stderr, "bad job", a)
			os.Exit(2)
		}
		jobs = append(jobs, job{p[0], p[1], p[2]})
	}
	parsed := map[string]*ast.File{}
	consts := map[string]map[string]string{}
	fset := token.NewFileSet()
	funcs := map[string]string{}
	rets := map[string]string{}
	status := 0
	var obligations []string
	for _, j := range jobs {
		f, ok := parsed[j.file]
		if !ok {
			var err error
			f, err = parser.ParseFile(fset, j.file, nil, 0)
			if err != nil {
				fmt.Fprintln(os.Stderr, err)
				os.Exit(2)
			}
			parsed[j.file] = f
			// evaluate constants with go/types on this single file (imports faked)
			cs := map[string]string{}
			conf := types.Config{Importer: nil, Error: func(error) {}, FakeImportC: true}
			info := &types.Info{Defs: map[*ast.Ident]types.Object{}}
			conf.Check(f.Name.Name, fset, []*ast.File{f}, info)
			for id, obj := range info.Defs {
				if c, ok := obj.(*types.Const); ok && c.Val() != nil && c.Val().Kind() == constant.Int {
					cs[id.Name] = c.Val().ExactString()
				}
			}
			consts[j.file] = cs
		}
		var decl *ast.FuncDecl
		for _, d := range f.Decls {
			if fd, ok := d.(*ast.FuncDecl); ok && fd.Name.Name == j.fn && fd.Recv == nil {
				decl = fd
			}
		}
		gen := "gen_" + j.fn
		func() {
			defer func() {
				if r := recover(); r != nil {
					u, ok := r.(untranslatable)
					if !ok {
						panic(r)
					}
					fmt.Printf("UNTRANSLATABLE %s:%s %s\n", j.file, j.fn, u.msg)
					b.WriteString(fmt.Sprintf("(* UNTRANSLATABLE %s: %s *)\n\n", j.fn, u.msg))
					status = 3
				}
			}()
			if decl == nil || decl.Body == nil {
				fail("function not found")
			}
			e := &env{vars: map[string]string{}, consts: consts[j.file], funcs: funcs, rets: rets}
			var params []string
			for _, fl := range decl.Type.Params.List {
				for _, n := range fl.Names {
					t := typeName(fl.Type)
					wrapOf(t)
					e.vars[n.Name] = t
					params = append(params, "("+n.Name+" : Z)")
				}
			}
			if decl.Type.Results == nil || len(decl.Type.Results.List) != 1 {
				fail("result arity")
			}
			rt := typeName(decl.Type.Results.List[0].Type)
			coqT := "Z"
			if rt == "bool" {
				coqT = "bool"
			} else {
				wrapOf(rt)
			}
			body := e.stmts(decl.Body.List, "  ")
			closers := strings.Repeat(")", strings.Count(body, "obind ("))
			_ = closers
			// each obind opens "(fun x =>" which must be closed at the end
			nb := strings.Count(body, "(fun ")
			body += strings.Repeat(")", nb)
			b.WriteString(fmt.Sprintf("Definition %s %s : outcome %s :=\n%s.\n\n", gen, strings.Join(params, " "), coqT, body))
			var names []string
			for _, fl := range decl.Type.Params.List {
				for _, n := range fl.Names {
					names = append(names, n.Name)
				}
			}
			ob := fmt.Sprintf("%s_ok", gen)
			b.WriteString(fmt.Sprintf("Ltac unfold_all ::= unfold %s, %s.\n", gen, j.model))
			b.WriteString(fmt.Sprintf("Lemma %s : forall %s, %s %s = %s %s.\nProof. gen_eq. Qed.\n\n",
				ob, strings.Join(names, " "), gen, strings.Join(names, " "), j.model, strings.Join(names, " ")))
			obligations = append(obligations, ob)
			funcs[j.fn] = gen
			rets[j.fn] = rt
			fmt.Printf("TRANSLATED %s:%s obligation %s\n", j.file, j.fn, ob)
		}()
	}
	// the tactic hook must exist before its first redefinition
	text := strings.Replace(b.String(), "Ltac gen_eq :=", "Ltac unfold_all := idtac.\nLtac gen_eq :=", 1)
	if err := os.WriteFile(*out, []byte(text), 0o644); err != nil {
		fmt.Fprintln(os.Stderr, err)
		os.Exit(2)
	}
	os.Exit(status)
}
