(* C01 inbound integrity: the history of every run of the event-loop model satisfies
   the inbound checker.  Invariant: for every connection the checker does not skip, its
   [rest] is c_in ++ c_buf of the model. *)
From Coq Require Import Lia ZArith ZifyBool.
From GV Require Import Lib.Trace Model.Loop Spec.LoopSpec Proofs.LoopDataLib.
Open Scope string_scope.
Open Scope list_scope.
Open Scope Z_scope.

(* ------------------------------------------------------------------ *)
(* the relation between the checker state and the model state *)

Definition ustep (u : unit) (e : ev) : option unit := Some u.

Notation IINV := (Inv ustep in_step tt (mkIn [] [] None)).

(* side assertions that hold across a single system call *)
Inductive xasrt := XNone | XOpen (cid : Z) | XReg (cid fd : Z) | XLt (cid : Z) | XRegd (cid : Z).

Definition xsem (xa : xasrt) (s : lstate) : Prop :=
  match xa with
  | XNone => True
  | XOpen cid => c_opened (getc s cid) = true
  | XReg cid fd => cid < l_next s /\ c_fd (getc s cid) = fd /\ alookup fd (l_reg s) = None
  | XLt cid => cid < l_next s
  | XRegd cid => cid < l_next s /\ alookup (c_fd (getc s cid)) (l_reg s) = Some cid
  end.

Definition live (x : inst) (cid : Z) : Prop := zmem cid (i_closed x) = false.

(* W: connections inside el_close (unregistered, not yet released);
   ex: connections whose c_buf may be non-empty (callback in progress);
   owed: a delivery waiting for its OnTraffic *)
Record RIn (W : list Z) (ex : Z -> Prop) (owed : option Z) (xa : xasrt)
           (u : unit) (x : inst) (s : lstate) : Prop := mkRIn {
  ri_owed : i_owed x = owed;
  ri_rest : forall cid, live x cid ->
      getd [] cid (i_rest x) = c_in (getc s cid) ++ c_buf (getc s cid);
  ri_opn : forall cid, c_opened (getc s cid) = true -> cid < l_next s;
  ri_task : forall cid cb, In (TRegister cid cb) (tasks s) -> cid < l_next s;
  ri_buf : forall cid, live x cid -> ~ ex cid -> c_buf (getc s cid) = [];
  ri_reg : forall cid, c_opened (getc s cid) = true ->
      alookup (c_fd (getc s cid)) (l_reg s) = Some cid \/
      (alookup (c_fd (getc s cid)) (l_reg s) = None /\ In cid W);
  ri_nop : forall cid, live x cid -> c_opened (getc s cid) = false ->
      c_in (getc s cid) = [] /\ c_buf (getc s cid) = [];
  ri_x : xsem xa s;
  ri_W : forall cid, In cid W -> zmem cid (i_closed x) = true
}.

Definition ex_none : Z -> Prop := fun _ => False.
Definition ex_one (c : Z) : Z -> Prop := fun x => x = c.
Definition ex_all : Z -> Prop := fun _ => True.

Lemma in_step_in : forall x l, in_step x (EIn l) = Some x.
Proof. reflexivity. Qed.

Lemma RIn_in_ign : forall W ex owed xa, in_ign ustep in_step (fun _ => True) (RIn W ex owed xa).
Proof. intros W ex owed xa h x s l h' x' _ HR E1 E2. inversion E1. rewrite in_step_in in E2. inversion E2. subst. exact HR. Qed.

(* state changes that keep every connection and the registry *)
Lemma RIn_frame : forall W ex owed xa u x s s',
  RIn W ex owed xa u x s ->
  (forall cid, getc s' cid = getc s cid) -> l_reg s' = l_reg s -> l_next s' = l_next s ->
  (forall cid cb, In (TRegister cid cb) (tasks s') -> In (TRegister cid cb) (tasks s)) ->
  RIn W ex owed xa u x s'.
Proof.
  intros W ex owed xa u x s s' [R1 R2 R3 R4 R5 R6 R7 R8 R9] Hc Hr Hn Ht.
  constructor; intros; rewrite ?Hc, ?Hr, ?Hn in *; eauto.
  destruct xa; cbn [xsem] in *; rewrite ?Hc, ?Hr, ?Hn; auto.
Qed.

Lemma RIn_enq : forall W ex owed xa, enq_ok (RIn W ex owed xa).
Proof.
  intros W ex owed xa h x s b t HR Ht. eapply RIn_frame; [exact HR| | | |].
  - intros. apply getc_enqueue.
  - apply l_reg_enqueue.
  - apply l_next_enqueue.
  - intros cid cb Hin. apply tasks_enqueue in Hin. destruct Hin as [E|Hin]; [subst t; cbn in Ht; discriminate Ht|exact Hin].
Qed.

Lemma RIn_flag : forall W ex owed xa, flag_ok (RIn W ex owed xa).
Proof. intros W ex owed xa h x s f HR. eapply RIn_frame; [exact HR| | | |]; auto. Qed.

(* a fresh connection at l_next *)
Lemma RIn_fresh : forall W ex owed xa u x s c,
  RIn W ex owed xa u x s -> c_opened c = false -> c_in c = [] -> c_buf c = [] ->
  RIn W ex owed xa u x (set_next (setc s (l_next s) c) (l_next s + 1)).
Proof.
  intros W ex owed xa u x s c [R1 R2 R3 R4 R5 R6 R7 R8 R9] Ho Hi Hb.
  constructor; cbn [set_next setc l_next l_reg].
  - exact R1.
  - intros cid Hl. rewrite getc_set_next, getc_setc.
    destruct (Z.eqb_spec cid (l_next s)) as [->|N]; [|auto].
    rewrite Hi, Hb. rewrite R2 by assumption.
    destruct (c_opened (getc s (l_next s))) eqn:Eo.
    + apply R3 in Eo. lia.
    + destruct (R7 _ Hl Eo) as [-> ->]. reflexivity.
  - intros cid. rewrite getc_set_next, getc_setc.
    destruct (Z.eqb_spec cid (l_next s)) as [->|N]; [lia|]. intros H. apply R3 in H. lia.
  - intros cid cb H. apply R4 in H. lia.
  - intros cid. rewrite getc_set_next, getc_setc. destruct (Z.eqb_spec cid (l_next s)) as [->|N]; auto.
  - intros cid. rewrite getc_set_next, getc_setc.
    destruct (Z.eqb_spec cid (l_next s)) as [->|N]; [congruence|]. auto.
  - intros cid. rewrite getc_set_next, getc_setc. destruct (Z.eqb_spec cid (l_next s)) as [->|N]; auto.
  - destruct xa as [|cid|cid fd|cid|cid]; cbn [xsem] in *; cbn [set_next setc l_next l_reg]; rewrite ?getc_set_next, ?getc_setc; auto.
    + destruct (Z.eqb_spec cid (l_next s)) as [->|N]; [|exact R8]. apply R3 in R8. lia.
    + destruct R8 as (A & B & C). destruct (Z.eqb_spec cid (l_next s)) as [->|N]; [lia|].
      repeat split; auto. lia.
    + lia.
    + destruct R8 as (A & B). destruct (Z.eqb_spec cid (l_next s)) as [->|N]; [lia|]. split; [lia|exact B].
  - exact R9.
Qed.

Lemma RIn_pull_ok : forall W ex owed xa, pull_ok ustep in_step (RIn W ex owed xa).
Proof.
  intros W ex owed xa. split.
  - intros. rewrite in_step_in. discriminate.
  - intros h x s l s' h' x' HR Ea _ Es. rewrite in_step_in in Es. inversion Es; subst x'.
    destruct h, h'.
    apply apply_async_cases in Ea. destruct Ea as [(b & t & Ht & ->)|(b & c & cb & Hc & ->)].
    + apply RIn_flag. apply RIn_enq; assumption.
    + destruct Hc as (Ho & Hi & _ & Hb & _).
      pose proof (RIn_fresh _ _ _ _ _ _ _ c HR Ho Hi Hb) as HF.
      destruct HF as [R1 R2 R3 R4 R5 R6 R7 R8 R9].
      constructor; intros; rewrite ?getc_set_flag, ?getc_enqueue in *; cbn [set_flag set_queues l_reg l_next];
        rewrite ?l_reg_enqueue, ?l_next_enqueue in *; eauto.
      * rewrite tasks_set_flag in H. apply tasks_enqueue in H. destruct H as [H|H].
        { inversion H; subst. cbn [set_next l_next]. lia. }
        { apply R4 in H. exact H. }
      * destruct xa; cbn [xsem] in *; rewrite ?getc_set_flag, ?getc_enqueue; cbn [set_flag set_queues l_reg l_next];
          rewrite ?l_reg_enqueue, ?l_next_enqueue; auto.
Qed.

(* ------------------------------------------------------------------ *)
(* primitives *)

Notation RI W ex := (RIn W ex None XNone).

Ltac oign := split; [reflexivity | intros ? ?; split; reflexivity].

Lemma I_emit : forall W ex owed xa l w, out_ign ustep in_step l ->
  IINV (RIn W ex owed xa) w -> IINV (RIn W ex owed xa) (emit l w).
Proof. intros. apply Inv_emit_ign; assumption. Qed.

Lemma I_pull : forall W ex owed xa picks w o w',
  IINV (RIn W ex owed xa) w -> pull_gen picks w = (o, w') -> IINV (RIn W ex owed xa) w'.
Proof. intros. eapply Inv_pull_ign; eauto using RIn_pull_ok, RIn_in_ign. Qed.

Lemma I_sys : forall W ex owed xa name args w k w',
  IINV (RIn W ex owed xa) w -> sys name args w = (k, w') -> IINV (RIn W ex owed xa) w'.
Proof.
  intros. eapply (Inv_sys ustep in_step tt _ (fun _ => True)); eauto using RIn_pull_ok, RIn_in_ign. oign.
Qed.

Lemma I_epctl : forall W ex owed xa op fd rw et w r w',
  IINV (RIn W ex owed xa) w -> epctl op fd rw et w = (r, w') -> IINV (RIn W ex owed xa) w'.
Proof.
  intros. eapply (Inv_epctl ustep in_step tt _ (fun _ => True)); eauto using RIn_pull_ok, RIn_in_ign. oign.
Qed.

Lemma I_trigger : forall W ex owed xa b t w r w', is_reg_task t = false ->
  IINV (RIn W ex owed xa) w -> trigger b t w = (r, w') -> IINV (RIn W ex owed xa) w'.
Proof.
  intros. eapply (Inv_trigger ustep in_step tt _ (fun _ => True));
    eauto using RIn_pull_ok, RIn_in_ign, RIn_enq, RIn_flag; intros; oign.
Qed.

Lemma I_efd_write : forall W ex owed xa fuel w r w',
  IINV (RIn W ex owed xa) w -> efd_write fuel w = (r, w') -> IINV (RIn W ex owed xa) w'.
Proof.
  intros. eapply (Inv_efd_write ustep in_step tt _ (fun _ => True));
    eauto using RIn_pull_ok, RIn_in_ign; intros; oign.
Qed.

Lemma I_sys_wr : forall W ex owed xa cid fd src exact w k w',
  IINV (RIn W ex owed xa) w -> sys_wr cid fd src exact w = (k, w') -> IINV (RIn W ex owed xa) w'.
Proof.
  intros. eapply (Inv_sys_wr_ign ustep in_step tt _ (fun _ => True));
    eauto using RIn_pull_ok, RIn_in_ign; intros; oign.
Qed.

Lemma I_desync : forall R R' what w, IINV R w -> IINV R' (desync what w).
Proof. intros. apply Inv_dead. eapply Inv_desync. eassumption. Qed.

(* one connection changes, the checker state does not *)
Lemma RIn_setc : forall W ex owed u x s cid c',
  RIn W ex owed XNone u x s ->
  c_fd c' = c_fd (getc s cid) -> c_opened c' = c_opened (getc s cid) ->
  (live x cid -> c_in c' = c_in (getc s cid) /\ c_buf c' = c_buf (getc s cid)) ->
  RIn W ex owed XNone u x (setc s cid c').
Proof.
  intros W ex owed u x s cid c' [R1 R2 R3 R4 R5 R6 R7 R8 R9] Hf Ho Hl.
  constructor; cbn [setc l_next l_reg].
  - exact R1.
  - intros cid0 L. rewrite getc_setc. destruct (Z.eqb_spec cid0 cid) as [->|N]; [|auto].
    destruct (Hl L) as [-> ->]. auto.
  - intros cid0. rewrite getc_setc. destruct (Z.eqb_spec cid0 cid) as [->|N]; [|auto]. rewrite Ho. auto.
  - exact R4.
  - intros cid0 L. rewrite getc_setc. destruct (Z.eqb_spec cid0 cid) as [->|N]; [|auto].
    destruct (Hl L) as [_ ->]. auto.
  - intros cid0. rewrite getc_setc. destruct (Z.eqb_spec cid0 cid) as [->|N]; [|auto]. rewrite Ho, Hf. auto.
  - intros cid0 L. rewrite getc_setc. destruct (Z.eqb_spec cid0 cid) as [->|N]; [|auto].
    destruct (Hl L) as [-> ->]. rewrite Ho. auto.
  - exact I.
  - exact R9.
Qed.

(* one connection consumes: its rest in the checker changes with it *)
Lemma RIn_upd : forall W ex owed u x s cid c' r',
  RIn W ex owed XNone u x s ->
  c_fd c' = c_fd (getc s cid) -> c_opened c' = c_opened (getc s cid) ->
  (live x cid -> r' = c_in c' ++ c_buf c') ->
  (c_buf (getc s cid) = [] -> c_buf c' = []) ->
  (c_in (getc s cid) = [] -> c_buf (getc s cid) = [] -> c_in c' = [] /\ c_buf c' = []) ->
  RIn W ex owed XNone u (mkIn (aset cid r' (i_rest x)) (i_closed x) (i_owed x)) (setc s cid c').
Proof.
  intros W ex owed u x s cid c' r' [R1 R2 R3 R4 R5 R6 R7 R8 R9] Hf Ho Hr Hb Hn.
  constructor; unfold live in *; cbn [setc l_next l_reg i_rest i_closed i_owed].
  - exact R1.
  - intros cid0 L. rewrite getc_setc, getd_aset. destruct (Z.eqb_spec cid0 cid) as [->|N]; auto.
  - intros cid0. rewrite getc_setc. destruct (Z.eqb_spec cid0 cid) as [->|N]; [|auto]. rewrite Ho. auto.
  - exact R4.
  - intros cid0 L. rewrite getc_setc. destruct (Z.eqb_spec cid0 cid) as [->|N]; auto.
  - intros cid0. rewrite getc_setc. destruct (Z.eqb_spec cid0 cid) as [->|N]; [|auto]. rewrite Ho, Hf. auto.
  - intros cid0 L. rewrite getc_setc. destruct (Z.eqb_spec cid0 cid) as [->|N]; [|auto].
    rewrite Ho. intros E. destruct (R7 _ L E). auto.
  - exact I.
  - exact R9.
Qed.

(* the checker on a handler-visible value *)
Definition consuming (call : string) : bool :=
  sym_eqb call "read" || sym_eqb call "next" || sym_eqb call "writeto".
Definition checked (call : string) : bool :=
  consuming call || sym_eqb call "peek" || sym_eqb call "discard" || sym_eqb call "inbuf".

Lemma I_hr_other : forall W ex call cid vals w, checked call = false ->
  IINV (RI W ex) w -> IINV (RI W ex) (emit (obs "hr" (AInt cid :: ASym call :: vals)) w).
Proof.
  intros W ex call cid vals w Hc HI. eapply Inv_emit; [exact HI|reflexivity|].
  intros [] x _ HR. cbn [ustep]. exists x. split; [|exact HR].
  unfold checked, consuming in Hc. apply orb_false_elim in Hc. destruct Hc as [Hc H4].
  apply orb_false_elim in Hc. destruct Hc as [Hc H3]. apply orb_false_elim in Hc. destruct Hc as [Hc H2].
  cbn [in_step obs]. destruct (zmem cid (i_closed x)); [reflexivity|].
  rewrite Hc, H2, H3, H4. reflexivity.
Qed.

Lemma I_hr_consume : forall W ex call cid b vals w c',
  consuming call = true ->
  c_fd c' = c_fd (wc w cid) -> c_opened c' = c_opened (wc w cid) ->
  is_prefix b (c_in (wc w cid) ++ c_buf (wc w cid)) = true ->
  c_in c' ++ c_buf c' = zdrop (zlen b) (c_in (wc w cid) ++ c_buf (wc w cid)) ->
  (c_buf (wc w cid) = [] -> c_buf c' = []) ->
  IINV (RI W ex) w ->
  IINV (RI W ex) (emit (obs "hr" (AInt cid :: ASym call :: ABytes b :: vals)) (wsetc w cid c')).
Proof.
  intros W ex call cid b vals w c' Hc Hf Ho Hp Hd Hb HI.
  eapply Inv_wsetc_emit; [exact HI|reflexivity|].
  intros [] x _ HR. cbn [ustep]. unfold wc in *. cbn [in_step obs].
  destruct (zmem cid (i_closed x)) eqn:Ez.
  - exists x. split; [reflexivity|]. apply RIn_setc; auto. unfold live. congruence.
  - unfold consuming in Hc. rewrite Hc.
    rewrite (ri_rest _ _ _ _ _ _ _ HR cid Ez). rewrite Hp.
    eexists. split; [reflexivity|].
    replace (i_owed x) with (i_owed x) by reflexivity.
    apply RIn_upd; auto.
    intros E1 E2. rewrite E1, E2 in Hd. cbn [app] in Hd. rewrite zdrop_nil in Hd.
    apply app_eq_nil in Hd. exact Hd.
Qed.

Lemma I_hr_discard : forall W ex cid n w c',
  c_fd c' = c_fd (wc w cid) -> c_opened c' = c_opened (wc w cid) ->
  0 <= n <= zlen (c_in (wc w cid) ++ c_buf (wc w cid)) ->
  c_in c' ++ c_buf c' = zdrop n (c_in (wc w cid) ++ c_buf (wc w cid)) ->
  (c_buf (wc w cid) = [] -> c_buf c' = []) ->
  IINV (RI W ex) w ->
  IINV (RI W ex) (emit (obs "hr" [AInt cid; ASym "discard"; AInt n]) (wsetc w cid c')).
Proof.
  intros W ex cid n w c' Hf Ho Hn Hd Hb HI.
  eapply Inv_wsetc_emit; [exact HI|reflexivity|].
  intros [] x _ HR. cbn [ustep]. unfold wc in *. cbn [in_step obs].
  destruct (zmem cid (i_closed x)) eqn:Ez.
  - exists x. split; [reflexivity|]. apply RIn_setc; auto. unfold live. congruence.
  - cbn. rewrite (ri_rest _ _ _ _ _ _ _ HR cid Ez).
    replace ((0 <=? n) && (n <=? zlen (c_in (getc (st w) cid) ++ c_buf (getc (st w) cid)))) with true by lia.
    eexists. split; [reflexivity|].
    apply RIn_upd; auto.
    intros E1 E2. rewrite E1, E2 in Hd. cbn [app] in Hd. rewrite zdrop_nil in Hd.
    apply app_eq_nil in Hd. exact Hd.
Qed.

Lemma I_hr_peek : forall W ex cid b vals w,
  is_prefix b (c_in (wc w cid) ++ c_buf (wc w cid)) = true ->
  IINV (RI W ex) w ->
  IINV (RI W ex) (emit (obs "hr" (AInt cid :: ASym "peek" :: ABytes b :: vals)) w).
Proof.
  intros W ex cid b vals w Hp HI. eapply Inv_emit; [exact HI|reflexivity|].
  intros [] x _ HR. cbn [ustep]. exists x. split; [|exact HR]. unfold wc in *. cbn [in_step obs].
  destruct (zmem cid (i_closed x)) eqn:Ez; [reflexivity|]. cbn.
  rewrite (ri_rest _ _ _ _ _ _ _ HR cid Ez). rewrite Hp. reflexivity.
Qed.

Lemma I_hr_inbuf : forall W ex cid w,
  IINV (RI W ex) w ->
  IINV (RI W ex) (emit (obs "hr" [AInt cid; ASym "inbuf"; AInt (zlen (c_in (wc w cid)) + zlen (c_buf (wc w cid)))]) w).
Proof.
  intros W ex cid w HI. eapply Inv_emit; [exact HI|reflexivity|].
  intros [] x _ HR. cbn [ustep]. exists x. split; [|exact HR]. unfold wc in *. cbn [in_step obs].
  destruct (zmem cid (i_closed x)) eqn:Ez; [reflexivity|]. cbn.
  rewrite (ri_rest _ _ _ _ _ _ _ HR cid Ez). rewrite zlen_app, Z.eqb_refl. reflexivity.
Qed.

(* ------------------------------------------------------------------ *)
(* the mutually recursive procedures *)

Record MBI (f : nat) : Prop := mkMBI {
  mb_close : forall cid e w r w' W ex, IINV (RI W ex) w -> el_close f cid e w = (r, w') -> IINV (RI W ex) w';
  mb_drain : forall cid w W ex, IINV (RI W ex) w -> IINV (RI W ex) (close_drain f cid w);
  mb_write : forall cid d w r w' W ex, IINV (RI W ex) w -> conn_write f cid d w = (r, w') -> IINV (RI W ex) w';
  mb_wloop : forall cid d n w r w' W ex, IINV (RI W ex) w -> conn_write_loop f cid d n w = (r, w') -> IINV (RI W ex) w';
  mb_wvloop : forall cid sg n w r w' W ex, IINV (RI W ex) w -> conn_writev_loop f cid sg n w = (r, w') -> IINV (RI W ex) w';
  mb_writev : forall cid sg w r w' W ex, IINV (RI W ex) w -> conn_writev f cid sg w = (r, w') -> IINV (RI W ex) w';
  mb_elwrite : forall cid sent w r w' W ex, IINV (RI W ex) w -> el_write f cid sent w = (r, w') -> IINV (RI W ex) w';
  mb_handler : forall cid w r w' W ex, IINV (RI W ex) w -> handler f cid w = (r, w') -> IINV (RI W ex) w';
  mb_hcall : forall cid call args w W ex, IINV (RI W ex) w -> IINV (RI W ex) (hcall f cid call args w)
}.

Lemma I_hr_consume_nil : forall W ex call cid vals w,
  consuming call = true ->
  IINV (RI W ex) w ->
  IINV (RI W ex) (emit (obs "hr" (AInt cid :: ASym call :: ABytes [] :: vals)) w).
Proof.
  intros W ex call cid vals w Hc HI. eapply Inv_emit; [exact HI|reflexivity|].
  intros [] x _ HR. cbn [ustep]. cbn [in_step obs].
  destruct (zmem cid (i_closed x)) eqn:Ez; [exists x; split; [reflexivity|exact HR]|].
  unfold consuming in Hc. rewrite Hc. rewrite is_prefix_nil. eexists. split; [reflexivity|].
  destruct HR as [R1 R2 R3 R4 R5 R6 R7 R8 R9].
  constructor; unfold live in *; cbn [i_rest i_closed i_owed]; auto.
  intros cid0 L. rewrite getd_aset. destruct (Z.eqb_spec cid0 cid) as [->|N]; auto.
  change (zlen []) with 0. rewrite zdrop_neg by lia. auto.
Qed.

Lemma I_wsetc_same : forall W ex w cid c',
  c_fd c' = c_fd (wc w cid) -> c_opened c' = c_opened (wc w cid) ->
  c_in c' = c_in (wc w cid) -> c_buf c' = c_buf (wc w cid) ->
  IINV (RI W ex) w -> IINV (RI W ex) (wsetc w cid c').
Proof.
  intros W ex w cid c' Hf Ho Hi Hb HI. eapply Inv_wsetc; [exact HI|].
  intros [] x _ HR. apply RIn_setc; auto.
Qed.

Ltac dsync := eapply I_desync; eassumption.
Ltac hc_other :=
  unfold checked, consuming;
  repeat match goal with Hx : sym_eqb _ _ = false |- _ => rewrite Hx; clear Hx end; reflexivity.
Ltac hro := apply I_hr_other; [hc_other|].
Ltac chain_next :=
  match goal with |- context [if sym_eqb ?c ?lit then _ else _] =>
    let E := fresh "Ec" in destruct (sym_eqb c lit) eqn:E;
    [apply String.eqb_eq in E; subst c|] end.

Lemma hcall_S : forall f, MBI f -> forall cid call args w W ex,
  IINV (RI W ex) w -> IINV (RI W ex) (hcall (S f) cid call args w).
Proof.
  intros f M cid call args w W ex HI. cbn [hcall].
  chain_next.
  { (* read *)
    destruct args as [|[n|?|?] [|]]; try dsync.
    destruct (c_in (wc w cid)) as [|a0 l0] eqn:Ein.
    - apply I_hr_consume; auto; cbn [c_set_buf c_in c_buf c_fd c_opened]; rewrite ?Ein; cbn [app].
      + apply is_prefix_ztake.
      + rewrite zdrop_zlen_ztake. reflexivity.
      + intros ->. apply zdrop_nil.
    - rewrite <- Ein. destruct (zlen (ztake n (c_in (wc w cid))) =? n) eqn:En.
      + apply I_hr_consume; auto; cbn [c_set_in c_in c_buf c_fd c_opened].
        * rewrite (read_take_in n _ (c_buf (wc w cid))) by lia. apply is_prefix_ztake.
        * rewrite (read_take_in n _ (c_buf (wc w cid))) by lia. rewrite zdrop_zlen_ztake.
          apply read_drop_in. lia.
      + apply I_hr_consume; auto; cbn [c_set_in c_set_buf c_in c_buf c_fd c_opened].
        * rewrite read_take. apply is_prefix_ztake.
        * rewrite read_take, zdrop_zlen_ztake. apply read_drop.
        * intros ->. apply zdrop_nil. }
  chain_next.
  { (* next *)
    destruct args as [|[n|?|?] [|]]; try dsync.
    destruct (n >? _) eqn:Egt.
    - apply I_hr_consume_nil; [reflexivity|exact HI].
    - set (k := if n <=? 0 then _ else n).
      apply I_hr_consume; auto; cbn [c_set_in c_set_buf c_in c_buf c_fd c_opened].
      + apply is_prefix_ztake.
      + rewrite zdrop_zlen_ztake, zdrop_app.
        destruct (k - zlen (c_in (wc w cid)) >? 0) eqn:Em; [reflexivity|].
        rewrite (zdrop_neg _ (k - _)) by lia. reflexivity.
      + intros ->. destruct (_ >? 0); [apply zdrop_nil|reflexivity]. }
  chain_next.
  { (* peek *)
    destruct args as [|[n|?|?] [|]]; try dsync.
    destruct (n >? _) eqn:Egt.
    - apply I_hr_peek; [apply is_prefix_nil|exact HI].
    - apply I_hr_peek; [apply is_prefix_ztake|exact HI]. }
  chain_next.
  { (* discard *)
    destruct args as [|[n|?|?] [|]]; try dsync.
    pose proof (zlen_nonneg _ (c_in (wc w cid))) as P1. pose proof (zlen_nonneg _ (c_buf (wc w cid))) as P2.
    destruct (_ || _) eqn:Eall.
    - apply I_hr_discard; auto; cbn [c_set_in c_set_buf c_in c_buf c_fd c_opened app].
      + rewrite zlen_app. lia.
      + rewrite zdrop_all; [reflexivity|]. rewrite zlen_app. lia.
    - destruct (c_in (wc w cid)) as [|a0 l0] eqn:Ein.
      + apply I_hr_discard; auto; cbn [c_set_in c_set_buf c_in c_buf c_fd c_opened]; rewrite ?Ein; cbn [app].
        * change (zlen (@nil Z)) with 0 in Eall. lia.
        * reflexivity.
        * intros ->. apply zdrop_nil.
      + rewrite <- Ein in *. destruct (n <? zlen (c_in (wc w cid))) eqn:Elt.
        * apply I_hr_discard; auto; cbn [c_set_in c_set_buf c_in c_buf c_fd c_opened app].
          { rewrite zlen_app. lia. }
          { rewrite zdrop_app. rewrite (zdrop_neg _ (n - _)) by lia. reflexivity. }
        * apply I_hr_discard; auto; cbn [c_set_in c_set_buf c_in c_buf c_fd c_opened app].
          { rewrite zlen_app. lia. }
          { rewrite zdrop_app. rewrite (zdrop_all _ n (c_in _)) by lia. reflexivity. }
          { intros ->. apply zdrop_nil. } }
  chain_next.
  { (* writeto: everything / part of the ring / the ring and part of the read buffer *)
    set (lim := match args with AInt n :: _ => n | _ => -1 end).
    pose proof (zlen_nonneg _ (c_in (wc w cid))) as P1. pose proof (zlen_nonneg _ (c_buf (wc w cid))) as P2.
    destruct (_ || _) eqn:Eall.
    - apply I_hr_consume; auto; cbn [c_set_in c_set_buf c_in c_buf c_fd c_opened app].
      + apply is_prefix_refl.
      + rewrite zdrop_all by lia. reflexivity.
    - destruct (lim <? zlen (c_in (wc w cid))) eqn:Elt.
      + assert (El : zlen (ztake lim (c_in (wc w cid))) = lim) by (rewrite zlen_ztake; lia).
        apply I_hr_consume; auto; cbn [c_set_in c_set_buf c_in c_buf c_fd c_opened app].
        * rewrite (read_take_in lim _ (c_buf (wc w cid)) El). apply is_prefix_ztake.
        * rewrite El. apply read_drop_in. exact El.
      + assert (Et : c_in (wc w cid) ++ ztake (lim - zlen (c_in (wc w cid))) (c_buf (wc w cid)) =
                     ztake lim (c_in (wc w cid) ++ c_buf (wc w cid))).
        { rewrite ztake_app, (ztake_all _ lim (c_in _)) by lia. reflexivity. }
        apply I_hr_consume; auto; cbn [c_set_in c_set_buf c_in c_buf c_fd c_opened app].
        * rewrite Et. apply is_prefix_ztake.
        * rewrite Et, zdrop_zlen_ztake, zdrop_app, (zdrop_all _ lim (c_in _)) by lia. reflexivity.
        * intros ->. apply zdrop_nil. }
  chain_next.
  { apply I_hr_inbuf. exact HI. }
  chain_next.
  { hro. exact HI. }
  chain_next.
  { (* write *)
    destruct args as [|[?|d|?] [|]]; try dsync.
    destruct (c_udp (wc w cid)).
    - destruct (_ && _); [hro; exact HI|].
      destruct (sys "sendto" _ w) as [k w1] eqn:Es.
      pose proof (I_sys _ _ _ _ _ _ _ _ _ HI Es) as H1.
      destruct k; hro; exact H1.
    - destruct (conn_write f cid d w) as [[n ok] w1] eqn:Ew.
      hro. eapply (mb_write _ M); eauto. }
  chain_next.
  { (* writev *)
    destruct (c_udp (wc w cid)); [hro; exact HI|].
    destruct (conn_writev f cid (segs_of args) w) as [[n ok] w1] eqn:Ew.
    hro. eapply (mb_writev _ M); eauto. }
  chain_next.
  { (* flush *)
    destruct (c_udp (wc w cid)); [hro; exact HI|].
    destruct (negb _); [hro; exact HI|].
    destruct (el_write f cid 0 w) as [r w1] eqn:Ew.
    pose proof (mb_elwrite _ M _ _ _ _ _ _ _ HI Ew) as H1.
    destruct r; try (hro; exact H1).
    destruct (_ && _); [|hro; exact H1].
    destruct (epctl "mod" _ true false w1) as [r2 w2] eqn:Ee.
    hro. eapply I_epctl; eauto. }
  chain_next.
  { (* readfrom *)
    destruct args as [|[?|d|?] [|]]; try dsync.
    hro. apply I_wsetc_same; rewrite ?wc_ghost; auto. apply I_emit; [oign|exact HI]. }
  chain_next.
  { (* asyncwrite *)
    destruct args as [|[?|d|?] [|cb [|]]]; try dsync.
    destruct (c_udp (wc w cid)).
    - set (w0 := if negb (c_remote (wc w cid)) && negb (c_opened (wc w cid)) then _ else w).
      assert (H0 : IINV (RI W ex) w0).
      { subst w0. destruct (_ && _); [apply I_emit; [oign|exact HI]|exact HI]. }
      destruct (sys "sendto" _ w0) as [k w1] eqn:Es.
      pose proof (I_sys _ _ _ _ _ _ _ _ _ H0 Es) as H1.
      hro. destruct (flag_of cb); [apply I_emit; [oign|exact H1]|exact H1].
    - destruct (trigger false _ w) as [r w1] eqn:Et.
      hro. eapply I_trigger; [|exact HI|exact Et]; reflexivity. }
  chain_next.
  { (* asyncwritev *)
    destruct args as [|cb segs]; try dsync.
    destruct (c_udp (wc w cid)); [hro; exact HI|].
    destruct (trigger false _ w) as [r w1] eqn:Et.
    hro. eapply I_trigger; [|exact HI|exact Et]; reflexivity. }
  chain_next.
  { (* wake *)
    destruct args as [|cb [|]]; try dsync.
    destruct (trigger true _ w) as [r w1] eqn:Et.
    hro. eapply I_trigger; [|exact HI|exact Et]; reflexivity. }
  chain_next.
  { (* close *)
    destruct args as [|cb [|]]; try dsync.
    destruct (trigger true _ w) as [r w1] eqn:Et.
    hro. eapply I_trigger; [|exact HI|exact Et]; reflexivity. }
  chain_next.
  { (* elclose *)
    destruct (el_close f _ true w) as [r w1] eqn:Ecl.
    hro. eapply (mb_close _ M); eauto. }
  chain_next.
  { (* on *)
    destruct args as [|[t|?|?] [|[?|?|call'] args']]; try dsync.
    destruct (c_opened (wc w t)); [|dsync].
    apply (mb_hcall _ M). exact HI. }
  dsync.
Qed.

Lemma zmem_cons : forall x y l, zmem x (y :: l) = (x =? y) || zmem x l.
Proof. reflexivity. Qed.

(* the close callback is announced: the connection leaves the registry and is skipped from now on *)
Lemma RIn_close : forall W ex u x s cid,
  RIn W ex None XNone u x s ->
  c_opened (getc s cid) = true -> alookup (c_fd (getc s cid)) (l_reg s) <> None ->
  RIn (cid :: W) ex None XNone u (mkIn (i_rest x) (cid :: i_closed x) None)
      (set_reg s (aremove (c_fd (getc s cid)) (l_reg s))).
Proof.
  intros W ex u x s cid [R1 R2 R3 R4 R5 R6 R7 R8 R9] Ho Hr.
  constructor; unfold live in *; cbn [set_reg l_reg l_next i_rest i_closed i_owed]; try rewrite zmem_cons.
  - reflexivity.
  - intros cid0 L. rewrite zmem_cons in L. apply orb_false_elim in L. destruct L as [_ L]. rewrite getc_set_reg. auto.
  - intros cid0. rewrite getc_set_reg. auto.
  - exact R4.
  - intros cid0 L. rewrite zmem_cons in L. apply orb_false_elim in L. destruct L as [_ L]. rewrite getc_set_reg. auto.
  - intros cid0. rewrite getc_set_reg. intros Ho0. rewrite alookup_aremove.
    destruct (Z.eqb_spec (c_fd (getc s cid0)) (c_fd (getc s cid))) as [Ef|Nf].
    + right. split; [reflexivity|].
      destruct (R6 _ Ho0) as [A|[A B]]; [|right; exact B].
      destruct (R6 _ Ho) as [C|[C _]]; [|congruence].
      rewrite Ef in A. rewrite A in C. inversion C. left. reflexivity.
    + destruct (R6 _ Ho0) as [A|[A B]]; [left; exact A|right; split; [exact A|right; exact B]].
  - intros cid0 L. rewrite zmem_cons in L. apply orb_false_elim in L. destruct L as [_ L]. rewrite getc_set_reg. auto.
  - exact I.
  - intros cid0 [->|Hin]; rewrite zmem_cons; [rewrite Z.eqb_refl; reflexivity|]. rewrite (R9 _ Hin). apply orb_true_r.
Qed.

Lemma RIn_release : forall W ex u x s cid,
  RIn (cid :: W) ex None XNone u x s ->
  RIn W ex None XNone u x (setc s cid (c_release (getc s cid))).
Proof.
  intros W ex u x s cid [R1 R2 R3 R4 R5 R6 R7 R8 R9].
  assert (Hc : zmem cid (i_closed x) = true) by (apply R9; left; reflexivity).
  assert (Hrel : c_opened (c_release (getc s cid)) = false) by (unfold c_release; destruct (c_udp _); reflexivity).
  assert (Hfd : c_fd (c_release (getc s cid)) = c_fd (getc s cid)) by (unfold c_release; destruct (c_udp _); reflexivity).
  constructor; unfold live in *; cbn [setc l_reg l_next].
  - exact R1.
  - intros cid0 L. rewrite getc_setc. destruct (Z.eqb_spec cid0 cid) as [->|N]; [congruence|auto].
  - intros cid0. rewrite getc_setc. destruct (Z.eqb_spec cid0 cid) as [->|N]; [congruence|auto].
  - exact R4.
  - intros cid0 L. rewrite getc_setc. destruct (Z.eqb_spec cid0 cid) as [->|N]; [congruence|auto].
  - intros cid0. rewrite getc_setc. destruct (Z.eqb_spec cid0 cid) as [->|N]; [congruence|].
    intros Ho0. destruct (R6 _ Ho0) as [A|[A [B|B]]]; [left; exact A|congruence|right; auto].
  - intros cid0 L. rewrite getc_setc. destruct (Z.eqb_spec cid0 cid) as [->|N]; [congruence|auto].
  - exact I.
  - intros cid0 Hin. apply R9. right. exact Hin.
Qed.

Lemma el_close_S : forall f, MBI f -> forall cid e w r w' W ex,
  IINV (RI W ex) w -> el_close (S f) cid e w = (r, w') -> IINV (RI W ex) w'.
Proof.
  intros f M cid e w r w' W ex HI E. cbn [el_close] in E.
  destruct (c_opened (wc w cid)) eqn:Eo; cbn [negb orb] in E; [|inversion E; subst; exact HI].
  destruct (alookup (c_fd (wc w cid)) (l_reg (st w))) as [rc|] eqn:Er; [|inversion E; subst; exact HI].
  set (w2 := emit _ (with_st w _)) in E.
  assert (H2 : IINV (RI (cid :: W) ex) w2).
  { subst w2. eapply Inv_set_emit; [exact HI|reflexivity|].
    intros [] x _ HR. cbn [ustep]. cbn [in_step obs]. rewrite (ri_owed _ _ _ _ _ _ _ HR).
    eexists. split; [reflexivity|]. unfold wc in *. apply RIn_close; auto. congruence. }
  clearbody w2.
  destruct (handler f cid w2) as [[act rep] w3] eqn:Eh.
  pose proof (mb_handler _ M _ _ _ _ _ _ H2 Eh) as H3.
  pose proof (mb_drain _ M cid _ _ _ H3) as H4.
  set (w4 := close_drain f cid w3) in *. clearbody w4.
  assert (H5 : IINV (RI W ex) (wsetc w4 cid (c_release (wc w4 cid)))).
  { eapply Inv_wsetc; [exact H4|]. intros [] x _ HR. apply RIn_release. exact HR. }
  destruct (epctl "del" _ false false _) as [r0 w6] eqn:E6.
  pose proof (I_epctl _ _ _ _ _ _ _ _ _ _ _ H5 E6) as H6.
  destruct (sys "close" _ w6) as [k1 w7] eqn:E7.
  pose proof (I_sys _ _ _ _ _ _ _ _ _ H6 E7) as H7.
  destruct (match r0 with RNil => _ | _ => true end); [inversion E; subst; exact H7|].
  destruct act; [inversion E; subst; exact H7| |inversion E; subst; exact H7].
  eapply (mb_close _ M); eauto.
Qed.

Lemma close_drain_S : forall f, MBI f -> forall cid w W ex,
  IINV (RI W ex) w -> IINV (RI W ex) (close_drain (S f) cid w).
Proof.
  intros f M cid w W ex HI. cbn [close_drain].
  destruct (c_out (wc w cid)) as [|b0 l0] eqn:Eout; [exact HI|]. rewrite <- Eout.
  destruct (sys_wr cid _ _ false w) as [k w1] eqn:Es.
  pose proof (I_sys_wr _ _ _ _ _ _ _ _ _ _ _ HI Es) as H1.
  destruct k; try exact H1.
  apply (mb_drain _ M). apply I_wsetc_same; auto.
Qed.

Lemma conn_write_loop_S : forall f, MBI f -> forall cid d n w r w' W ex,
  IINV (RI W ex) w -> conn_write_loop (S f) cid d n w = (r, w') -> IINV (RI W ex) w'.
Proof.
  intros f M cid d n w r w' W ex HI E. cbn [conn_write_loop] in E.
  destruct (sys_wr cid _ d true w) as [k w1] eqn:Es.
  pose proof (I_sys_wr _ _ _ _ _ _ _ _ _ _ _ HI Es) as H1.
  destruct k as [sent extra|e|].
  - destruct (zdrop sent d) as [|b0 l0] eqn:Ed; [inversion E; subst; exact H1|]. rewrite <- Ed in E.
    destruct (l_et (st w)).
    + eapply (mb_wloop _ M); eauto.
    + destruct (epctl "mod" _ true false _) as [r3 w3] eqn:E3. inversion E; subst.
      eapply I_epctl; [|exact E3]. apply I_wsetc_same; auto.
  - destruct (is_eagain e); [|inversion E; subst; exact H1].
    assert (H2 : IINV (RI W ex) (wsetc w1 cid (c_set_out (wc w1 cid) (c_out (wc w1 cid) ++ d))))
      by (apply I_wsetc_same; auto).
    destruct (l_et (st w)); [inversion E; subst; exact H2|].
    destruct (epctl "mod" _ true false _) as [r3 w3] eqn:E3. inversion E; subst.
    eapply I_epctl; eauto.
  - inversion E; subst; exact H1.
Qed.

Lemma conn_writev_loop_S : forall f, MBI f -> forall cid sg n w r w' W ex,
  IINV (RI W ex) w -> conn_writev_loop (S f) cid sg n w = (r, w') -> IINV (RI W ex) w'.
Proof.
  intros f M cid sg n w r w' W ex HI E. cbn [conn_writev_loop] in E.
  destruct (sys_wr cid _ _ true w) as [k w1] eqn:Es.
  pose proof (I_sys_wr _ _ _ _ _ _ _ _ _ _ _ HI Es) as H1.
  destruct k as [sent extra|e|].
  - destruct (List.concat (drop_sent sent sg)) as [|b0 l0] eqn:Ed; [inversion E; subst; exact H1|]. rewrite <- Ed in E.
    destruct (l_et (st w)).
    + eapply (mb_wvloop _ M); eauto.
    + destruct (epctl "mod" _ true false _) as [r3 w3] eqn:E3. inversion E; subst.
      eapply I_epctl; [|exact E3]. apply I_wsetc_same; auto.
  - destruct (is_eagain e); [|inversion E; subst; exact H1].
    assert (H2 : IINV (RI W ex) (wsetc w1 cid (c_set_out (wc w1 cid) (c_out (wc w1 cid) ++ List.concat sg))))
      by (apply I_wsetc_same; auto).
    destruct (l_et (st w)); [inversion E; subst; exact H2|].
    destruct (epctl "mod" _ true false _) as [r3 w3] eqn:E3. inversion E; subst.
    eapply I_epctl; eauto.
  - inversion E; subst; exact H1.
Qed.

Lemma conn_write_S : forall f, MBI f -> forall cid d w r w' W ex,
  IINV (RI W ex) w -> conn_write (S f) cid d w = (r, w') -> IINV (RI W ex) w'.
Proof.
  intros f M cid d w r w' W ex HI E. cbn [conn_write] in E.
  destruct (negb (c_opened (wc w cid))); [inversion E; subst; exact HI|].
  assert (H1 : IINV (RI W ex) (ghost "sub" cid d w)) by (apply I_emit; [oign|exact HI]).
  destruct (c_out (wc w cid)) as [|b0 l0] eqn:Eout.
  - destruct (conn_write_loop f cid d (zlen d) _) as [[rn ok] w1] eqn:El.
    pose proof (mb_wloop _ M _ _ _ _ _ _ _ _ H1 El) as H2.
    destruct ok; [inversion E; subst; exact H2|].
    destruct (el_close f cid false w1) as [r2 w2] eqn:Ec. inversion E; subst.
    eapply (mb_close _ M); eauto.
  - inversion E; subst. apply I_wsetc_same; rewrite ?wc_ghost; auto.
Qed.

Lemma conn_writev_S : forall f, MBI f -> forall cid sg w r w' W ex,
  IINV (RI W ex) w -> conn_writev (S f) cid sg w = (r, w') -> IINV (RI W ex) w'.
Proof.
  intros f M cid sg w r w' W ex HI E. cbn [conn_writev] in E.
  destruct (negb (c_opened (wc w cid))); [inversion E; subst; exact HI|].
  assert (H1 : IINV (RI W ex) (ghost "sub" cid (List.concat sg) w)) by (apply I_emit; [oign|exact HI]).
  destruct (c_out (wc w cid)) as [|b0 l0] eqn:Eout.
  - destruct sg as [|s0 sg']; [inversion E; subst; exact H1|].
    destruct (conn_writev_loop f cid _ _ _) as [[rn ok] w1] eqn:El.
    pose proof (mb_wvloop _ M _ _ _ _ _ _ _ _ H1 El) as H2.
    destruct ok; [inversion E; subst; exact H2|].
    destruct (el_close f cid false w1) as [r2 w2] eqn:Ec. inversion E; subst.
    eapply (mb_close _ M); eauto.
  - inversion E; subst. apply I_wsetc_same; rewrite ?wc_ghost; auto.
Qed.

Lemma el_write_S : forall f, MBI f -> forall cid sent w r w' W ex,
  IINV (RI W ex) w -> el_write (S f) cid sent w = (r, w') -> IINV (RI W ex) w'.
Proof.
  intros f M cid sent w r w' W ex HI E. cbn [el_write] in E.
  destruct (negb (c_opened (wc w cid))); [inversion E; subst; exact HI|].
  destruct (c_out (wc w cid)) as [|b0 l0] eqn:Eout; [inversion E; subst; exact HI|]. rewrite <- Eout in E.
  destruct (sys_wr cid _ _ false w) as [k w1] eqn:Es.
  pose proof (I_sys_wr _ _ _ _ _ _ _ _ _ _ _ HI Es) as H1.
  destruct k as [n extra|e|].
  - assert (H2 : IINV (RI W ex) (wsetc w1 cid (c_set_out (wc w1 cid) (zdrop n (c_out (wc w1 cid))))))
      by (apply I_wsetc_same; auto).
    destruct (zdrop n (c_out (wc w1 cid))) as [|b1 l1] eqn:Ed.
    + destruct (l_et (st w)); [inversion E; subst; exact H2|]. eapply I_epctl; eauto.
    + rewrite <- Ed in *. destruct (l_et (st w)); [|inversion E; subst; exact H2].
      destruct (_ <? _).
      * eapply (mb_elwrite _ M); eauto.
      * eapply I_trigger; [| |exact E]; [reflexivity|]. apply I_emit; [oign|exact H2].
  - destruct (is_eagain e); [inversion E; subst; exact H1|]. eapply (mb_close _ M); eauto.
  - inversion E; subst; exact H1.
Qed.

Lemma handler_S : forall f, MBI f -> forall cid w r w' W ex,
  IINV (RI W ex) w -> handler (S f) cid w = (r, w') -> IINV (RI W ex) w'.
Proof.
  intros f M cid w r w' W ex HI E. rewrite handler_eq in E.
  destruct (pull w) as [[[name args]|] w1] eqn:Ep.
  - pose proof (I_pull _ _ _ _ _ _ _ _ HI Ep) as H1.
    destruct (String.eqb name "hret").
    { destruct args; inversion E; subst; [dsync|exact H1]. }
    destruct (String.eqb name "h"); [|inversion E; subst; dsync].
    destruct args as [|[?|?|call] args']; try (inversion E; subst; dsync).
    eapply (mb_handler _ M); [|exact E]. apply (mb_hcall _ M). exact H1.
  - inversion E; subst. eapply I_pull; eauto.
Qed.

Lemma MBI_all : forall f, MBI f.
Proof.
  induction f as [|f IH].
  - constructor; intros; cbn in *;
      try match goal with E : (_, _) = (_, _) |- _ => inversion E; subst end; dsync.
  - constructor.
    + apply el_close_S; exact IH.
    + apply close_drain_S; exact IH.
    + apply conn_write_S; exact IH.
    + apply conn_write_loop_S; exact IH.
    + apply conn_writev_loop_S; exact IH.
    + apply conn_writev_S; exact IH.
    + apply el_write_S; exact IH.
    + apply handler_S; exact IH.
    + apply hcall_S; exact IH.
Qed.
