(* Model of the wake-up protocol of pkg/netpoll/poller_epoll_{default,ultimate}.go
   (Trigger / Polling) as an interleaving system on top of the ATOMIC-QUEUE
   SPECIFICATION of the two task queues (justified by C13: Properties/C13.v,
   C13_linearizable and C13_length_lag).

   Each queue is (items, length).  Enqueue is split into its two atomic halves
   "link" (the item becomes visible to dequeuers: the successful CAS on
   tail.next) and "count" (atomic.AddInt32(&q.length, 1)); Dequeue into
   "unlink" (successful CAS on head) and "decount" (AddInt32(-1)), or the single
   observation "empty" (load of head.next = nil; with one dequeuer this is the
   linearization point of a Dequeue that returns nil).  All other atomic
   operations inside Enqueue / Dequeue are invisible at this level (CTau).

   Shared words: wakeupCall (flag), the eventfd as a counter plus an
   edge-triggered readiness bit in the epoll ready set:
     write: counter+1 > 2^64-2 -> EAGAIN, otherwise counter++, bit set
            (also when the counter was already non-zero);
     read:  counter = 0 -> EAGAIN, otherwise returns and resets the counter
            (the bit is not touched, but a pending bit with counter 0 is not
            reported: epoll re-polls the file when it delivers);
     epoll_wait: reports the eventfd iff bit && counter > 0; clears the bit.

   Threads: tid 0 is the event loop (consumer) running Polling; tids >= 1 are
   producers running Trigger.  trigs[t] is the state of the Trigger call in
   flight on thread t; trigs[0] is the Trigger the loop itself executes from
   inside a task or an I/O callback (re-entrancy).  One step = one scheduling
   point (atomic operation, queue linearization point or system call) followed
   by the thread-local computation up to the next scheduling point.

   Ghost components (the g_ fields) are never read by the modelled code.
   No proofs in this file. *)
From GV Require Export Lib.Trace.
From Coq Require Import Arith.
Open Scope Z_scope.

Definition tid := nat.

Inductive qid := QU | QL.                       (* urgentAsyncTaskQueue | asyncTaskQueue *)

(* what a task body does besides re-triggering: nothing, el.wake(c), el.close(c) *)
Inductive kind := KPlain | KWake (c : Z) | KClose (c : Z).

(* a request: priority, body, whether it has an AsyncCallback, and the script
   (index into the script table) of the Trigger calls its body performs *)
Record tspec := mkSpec { sp_high : bool; sp_kind : kind; sp_cb : bool; sp_script : nat }.

Record task := mkTask { tk_id : nat; tk_prod : tid; tk_spec : tspec }.

Definition dummy_task : task := mkTask O O (mkSpec true KPlain false O).

(*  Trigger(priority, fn, param):
        task := queue.GetTask(); task.Exec, task.Param = fn, param      (start)
 TLen   if priority > HighPriority && urgent.Length() >= threshold {    (load of urgent.length; high priority skips it)
 TEnq L     asyncTaskQueue.Enqueue(task)                                 link
 TCnt L                                                                  count
        } else {
 TEnq U     urgentAsyncTaskQueue.Enqueue(task)
 TCnt U }
 TCas   if atomic.CompareAndSwapInt32(&p.wakeupCall, 0, 1) {
          for {
 TWr        _, err = unix.Write(p.efd, b)
            if err == unix.EAGAIN {
 TRd          _, _ = unix.Read(p.efd, p.efdBuf); continue }
            break } }
        return os.NewSyscallError("write", err)                                        *)
Inductive tpc := TIdle | TLen | TEnq (q : qid) | TCnt (q : qid) | TCas | TWr | TRd.

Record trig := mkTrig { t_pc : tpc; t_task : task }.

Definition idle_trig : trig := mkTrig TIdle dummy_task.

(*  Polling(callback):
        msec := -1
        for {
 CWait    n, err := unix.EpollWait(p.fd, el.events, msec)
          if n == 0 || (n < 0 && err == EINTR) { msec = -1; runtime.Gosched(); continue }
          msec = 0
          for i := 0; i < n; i++ {                                      (PhEvents)
            if fd == p.efd { doChores = true } else { callback(fd, ev) }       callback may call Trigger: CTrig
          }
          if doChores {
            doChores = false
 CDeq U     task := urgent.Dequeue()                                     unlink | empty (CEmp: head re-read, return nil)
 CDec U     for ; task != nil; task = urgent.Dequeue() {                  decount, then
              task.Exec(task.Param); queue.PutTask(task) }                (PhUrgent)  body may call Trigger: CTrig
            for i := 0; i < MaxAsyncTasksAtOneTime; i++ {
 CDeq L       if task = async.Dequeue(); task == nil { break }
 CDec L       task.Exec(task.Param); queue.PutTask(task) }                (PhLow)
 CStore     atomic.StoreInt32(&p.wakeupCall, 0)
 CChkL      if (!async.IsEmpty() ||                                       load of async.length
 CChkU          !urgent.IsEmpty()) &&                                     load of urgent.length (short-circuit)
 CCas           atomic.CompareAndSwapInt32(&p.wakeupCall, 0, 1) {
              for {
 CWr            _, err = unix.Write(p.efd, b)
                if err == unix.EAGAIN {
 CRd              _, _ = unix.Read(p.efd, p.efdBuf); continue }
                break } } }
        }                                                                               *)
Inductive cpc := CWait | CDeq (q : qid) | CEmp (q : qid) | CDec (q : qid) | CStore | CChkL | CChkU | CCas | CWr | CRd | CTrig.

Inductive phase := PhEvents | PhUrgent | PhLow.

(* a delivered epoll event: the eventfd, or I/O source k whose callback runs script sc *)
Inductive pev := PEfd | PIo (k : Z) (sc : nat).

Record cons := mkCons {
  c_pc : cpc;
  c_msec : Z;                 (* the local msec: -1 or 0 *)
  c_todo : list tspec;        (* Trigger calls the current task body / callback still has to make *)
  c_evs : list pev;           (* events of the current batch not yet looked at *)
  c_chores : bool;            (* the local doChores *)
  c_phase : phase;            (* where the body being executed was called from *)
  c_low : Z;                  (* the loop variable i of the low-priority loop *)
  c_held : task               (* the task between unlink and decount *)
}.

Record shared := mkSh {
  itemsU : list task; itemsL : list task; lenU : Z; lenL : Z;
  flag : Z;                   (* wakeupCall *)
  efd_cnt : Z; edge : bool
}.

Record env := mkEnv {
  e_thr : Z;                          (* highPriorityEventsThreshold *)
  e_max : Z;                          (* MaxAsyncTasksAtOneTime *)
  io_pend : list (Z * nat);           (* I/O sources that became ready since the last epoll_wait, with callback script *)
  scripts : list (nat * list tspec);  (* script table *)
  closed : list Z                     (* connections closed by a KClose task *)
}.

Record ghost := mkGh {
  g_next : nat;                       (* next request id = number of Trigger calls begun *)
  g_begun : list task;                (* newest first *)
  g_linkU : list task; g_linkL : list task;      (* everything ever linked, oldest first *)
  g_exec : list (qid * task);         (* executed tasks with the queue they came from, oldest first *)
  g_cb : list nat;                    (* ids whose AsyncCallback was invoked, oldest first *)
  g_traffic : list (nat * Z);         (* (wake task id, connection) for which OnTraffic was invoked *)
  g_acc : list nat;                   (* ids whose Trigger returned nil *)
  g_rej : list nat;                   (* ids whose Trigger returned an error *)
  g_ovf : bool;                       (* an int32 length counter left the int32 range *)
  g_fault : bool                      (* an eventfd write failed with an error other than EAGAIN *)
}.

Record wstate := mkW { w_env : env; w_sh : shared; trigs : list trig; con : cons; w_gh : ghost }.

Definition init_state (thr max : Z) : wstate :=
  mkW (mkEnv thr max [] [] [])
      (mkSh [] [] 0 0 0 0 false)
      []
      (mkCons CWait (-1) [] [] false PhEvents 0 dummy_task)
      (mkGh O [] [] [] [] [] [] [] [] false false).

(* ---- record updates ---- *)
Definition set_env (s : wstate) (e : env) : wstate := mkW e (w_sh s) (trigs s) (con s) (w_gh s).
Definition set_sh (s : wstate) (x : shared) : wstate := mkW (w_env s) x (trigs s) (con s) (w_gh s).
Definition set_trigs (s : wstate) (x : list trig) : wstate := mkW (w_env s) (w_sh s) x (con s) (w_gh s).
Definition set_con (s : wstate) (x : cons) : wstate := mkW (w_env s) (w_sh s) (trigs s) x (w_gh s).
Definition set_gh (s : wstate) (x : ghost) : wstate := mkW (w_env s) (w_sh s) (trigs s) (con s) x.

Definition get_trig (ths : list trig) (t : tid) : trig := nth t ths idle_trig.

Fixpoint put_trig (ths : list trig) (t : tid) (x : trig) : list trig :=
  match t, ths with
  | O, [] => [x]
  | O, _ :: r => x :: r
  | S t', [] => idle_trig :: put_trig [] t' x
  | S t', y :: r => y :: put_trig r t' x
  end.

Definition set_trig (s : wstate) (t : tid) (x : trig) : wstate := set_trigs s (put_trig (trigs s) t x).

Definition items (q : qid) (x : shared) : list task := match q with QU => itemsU x | QL => itemsL x end.
Definition qlen (q : qid) (x : shared) : Z := match q with QU => lenU x | QL => lenL x end.

Definition sh_items (x : shared) (q : qid) (l : list task) : shared :=
  match q with
  | QU => mkSh l (itemsL x) (lenU x) (lenL x) (flag x) (efd_cnt x) (edge x)
  | QL => mkSh (itemsU x) l (lenU x) (lenL x) (flag x) (efd_cnt x) (edge x)
  end.
Definition sh_qlen (x : shared) (q : qid) (v : Z) : shared :=
  match q with
  | QU => mkSh (itemsU x) (itemsL x) v (lenL x) (flag x) (efd_cnt x) (edge x)
  | QL => mkSh (itemsU x) (itemsL x) (lenU x) v (flag x) (efd_cnt x) (edge x)
  end.
Definition sh_flag (x : shared) (v : Z) : shared :=
  mkSh (itemsU x) (itemsL x) (lenU x) (lenL x) v (efd_cnt x) (edge x).
Definition sh_efd (x : shared) (c : Z) (e : bool) : shared :=
  mkSh (itemsU x) (itemsL x) (lenU x) (lenL x) (flag x) c e.

Definition c_set_pc (c : cons) (p : cpc) : cons :=
  mkCons p (c_msec c) (c_todo c) (c_evs c) (c_chores c) (c_phase c) (c_low c) (c_held c).
Definition c_set_msec (c : cons) (m : Z) : cons :=
  mkCons (c_pc c) m (c_todo c) (c_evs c) (c_chores c) (c_phase c) (c_low c) (c_held c).
Definition c_set_todo (c : cons) (l : list tspec) : cons :=
  mkCons (c_pc c) (c_msec c) l (c_evs c) (c_chores c) (c_phase c) (c_low c) (c_held c).
Definition c_set_evs (c : cons) (l : list pev) : cons :=
  mkCons (c_pc c) (c_msec c) (c_todo c) l (c_chores c) (c_phase c) (c_low c) (c_held c).
Definition c_set_chores (c : cons) (b : bool) : cons :=
  mkCons (c_pc c) (c_msec c) (c_todo c) (c_evs c) b (c_phase c) (c_low c) (c_held c).
Definition c_set_phase (c : cons) (p : phase) : cons :=
  mkCons (c_pc c) (c_msec c) (c_todo c) (c_evs c) (c_chores c) p (c_low c) (c_held c).
Definition c_set_low (c : cons) (i : Z) : cons :=
  mkCons (c_pc c) (c_msec c) (c_todo c) (c_evs c) (c_chores c) (c_phase c) i (c_held c).
Definition c_set_held (c : cons) (x : task) : cons :=
  mkCons (c_pc c) (c_msec c) (c_todo c) (c_evs c) (c_chores c) (c_phase c) (c_low c) x.

Definition set_cpc (s : wstate) (p : cpc) : wstate := set_con s (c_set_pc (con s) p).

Definition gh_begin (g : ghost) (x : task) : ghost :=
  mkGh (S (g_next g)) (x :: g_begun g) (g_linkU g) (g_linkL g) (g_exec g) (g_cb g) (g_traffic g) (g_acc g) (g_rej g) (g_ovf g) (g_fault g).
Definition gh_link (g : ghost) (q : qid) (x : task) : ghost :=
  match q with
  | QU => mkGh (g_next g) (g_begun g) (g_linkU g ++ [x]) (g_linkL g) (g_exec g) (g_cb g) (g_traffic g) (g_acc g) (g_rej g) (g_ovf g) (g_fault g)
  | QL => mkGh (g_next g) (g_begun g) (g_linkU g) (g_linkL g ++ [x]) (g_exec g) (g_cb g) (g_traffic g) (g_acc g) (g_rej g) (g_ovf g) (g_fault g)
  end.
Definition gh_exec (g : ghost) (q : qid) (x : task) (cb : list nat) (tr : list (nat * Z)) : ghost :=
  mkGh (g_next g) (g_begun g) (g_linkU g) (g_linkL g) (g_exec g ++ [(q, x)]) (g_cb g ++ cb) (g_traffic g ++ tr) (g_acc g) (g_rej g) (g_ovf g) (g_fault g).
Definition gh_ret (g : ghost) (id : nat) (ok : bool) : ghost :=
  mkGh (g_next g) (g_begun g) (g_linkU g) (g_linkL g) (g_exec g) (g_cb g) (g_traffic g)
       (if ok then g_acc g ++ [id] else g_acc g) (if ok then g_rej g else g_rej g ++ [id]) (g_ovf g) (g_fault g).
Definition gh_ovf (g : ghost) (b : bool) : ghost :=
  mkGh (g_next g) (g_begun g) (g_linkU g) (g_linkL g) (g_exec g) (g_cb g) (g_traffic g) (g_acc g) (g_rej g) (g_ovf g || b) (g_fault g).
Definition gh_fault (g : ghost) : ghost :=
  mkGh (g_next g) (g_begun g) (g_linkU g) (g_linkL g) (g_exec g) (g_cb g) (g_traffic g) (g_acc g) (g_rej g) (g_ovf g) true.

Definition e_set_io (e : env) (l : list (Z * nat)) : env := mkEnv (e_thr e) (e_max e) l (scripts e) (closed e).
Definition e_set_scripts (e : env) (l : list (nat * list tspec)) : env := mkEnv (e_thr e) (e_max e) (io_pend e) l (closed e).
Definition e_set_closed (e : env) (l : list Z) : env := mkEnv (e_thr e) (e_max e) (io_pend e) (scripts e) l.

(* ---- int32 and eventfd arithmetic ---- *)
Definition wrap32 (z : Z) : Z := (z + 2147483648) mod 4294967296 - 2147483648.
Definition in_i32 (z : Z) : bool := (-2147483648 <=? z) && (z <? 2147483648).
Definition efd_max : Z := 18446744073709551614.      (* 2^64 - 2 *)

(* atomic.AddInt32(&q.length, d) *)
Definition add_len (s : wstate) (q : qid) (d : Z) : wstate * Z :=
  let v := qlen q (w_sh s) + d in
  (set_gh (set_sh s (sh_qlen (w_sh s) q (wrap32 v))) (gh_ovf (w_gh s) (negb (in_i32 v))), wrap32 v).

Definition eff_edge (x : shared) : bool := edge x && (efd_cnt x >? 0).

(* ---- labels ---- *)
Inductive wres := WOk | WAgain | WErr.

Inductive ev :=
| EvBegin (t : tid) (id : nat)
| EvLd (t : tid) (q : qid) (v : Z)
| EvLink (t : tid) (q : qid) (id : nat)
| EvAdd (t : tid) (q : qid) (d v : Z)
| EvUnlink (q : qid)
| EvEmpty (q : qid)
| EvCas (t : tid) (ok : bool)
| EvStore
| EvWrite (t : tid) (r : wres)
| EvRead (t : tid) (v : Z)              (* value read; -1 = EAGAIN *)
| EvWait (msec : Z) (l : list Z)        (* delivered events in order: -1 = eventfd, k = I/O source *)
| EvIocb (k : Z)
| EvExec (id : nat)
| EvCb (id : nat)
| EvTraffic (c : Z)
| EvRet (t : tid) (ok : bool)
| EvEnv
| EvStuck (t : tid).

Definition wobs := list ev.

Inductive choice :=
| CStep (order : list Z)     (* one scheduling point; for epoll_wait: the order in which the kernel delivered *)
| CTau                       (* one atomic operation inside Enqueue/Dequeue that is not a linearization point *)
| CFault                     (* the eventfd write fails with an error other than EAGAIN *)
| CStart (sp : tspec)        (* an idle producer calls Trigger *)
| CPreload (v : Z)           (* environment: somebody adds v to the eventfd *)
| CIo (k : Z) (sc : nat)     (* environment: I/O source k becomes ready *)
| CScript (k : nat) (l : list tspec).   (* environment: define script k *)

(* ---- scripts ---- *)
Fixpoint lookup_script (tbl : list (nat * list tspec)) (k : nat) : list tspec :=
  match tbl with
  | [] => []
  | (k', l) :: r => if Nat.eqb k k' then l else lookup_script r k
  end.

Definition zmem (c : Z) (l : list Z) : bool := existsb (Z.eqb c) l.

(* ---- Trigger ---- *)
(* task := GetTask(); ...; up to the first scheduling point *)
Definition start_trig (s : wstate) (t : tid) (sp : tspec) : wstate * wobs :=
  let x := mkTask (g_next (w_gh s)) t sp in
  let s1 := set_gh s (gh_begin (w_gh s) x) in
  (set_trig s1 t (mkTrig (if sp_high sp then TEnq QU else TLen) x), [EvBegin t (tk_id x)]).

Definition ret_trig (s : wstate) (t : tid) (ok : bool) : wstate :=
  let th := get_trig (trigs s) t in
  set_trig (set_gh s (gh_ret (w_gh s) (tk_id (t_task th)) ok)) t idle_trig.

(* eventfd write of the value 1 *)
Definition efd_write (x : shared) : shared * wres :=
  if efd_cnt x + 1 >? efd_max then (x, WAgain) else (sh_efd x (efd_cnt x + 1) true, WOk).

Definition efd_read (x : shared) : shared * Z :=
  if efd_cnt x =? 0 then (x, -1) else (sh_efd x 0 (edge x), efd_cnt x).

(* one scheduling point of the Trigger call in flight on thread t;
   the boolean tells whether the call returned *)
Definition trig_step (s : wstate) (t : tid) (c : choice) : wstate * wobs * bool :=
  let th := get_trig (trigs s) t in
  let x := t_task th in
  match t_pc th, c with
  | TLen, CStep _ =>
      let v := lenU (w_sh s) in
      let q := if v >=? e_thr (w_env s) then QL else QU in
      (set_trig s t (mkTrig (TEnq q) x), [EvLd t QU v], false)
  | TEnq q, CStep _ =>
      let s1 := set_sh s (sh_items (w_sh s) q (items q (w_sh s) ++ [x])) in
      let s2 := set_gh s1 (gh_link (w_gh s1) q x) in
      (set_trig s2 t (mkTrig (TCnt q) x), [EvLink t q (tk_id x)], false)
  | TEnq _, CTau => (s, [], false)
  | TCnt _, CTau => (s, [], false)
  | TCnt q, CStep _ =>
      let '(s1, v) := add_len s q 1 in
      (set_trig s1 t (mkTrig TCas x), [EvAdd t q 1 v], false)
  | TCas, CStep _ =>
      if flag (w_sh s) =? 0
      then (set_trig (set_sh s (sh_flag (w_sh s) 1)) t (mkTrig TWr x), [EvCas t true], false)
      else (ret_trig s t true, [EvCas t false; EvRet t true], true)
  | TWr, CStep _ =>
      let '(x1, r) := efd_write (w_sh s) in
      match r with
      | WAgain => (set_trig s t (mkTrig TRd x), [EvWrite t WAgain], false)
      | _ => (ret_trig (set_sh s x1) t true, [EvWrite t WOk; EvRet t true], true)
      end
  | TWr, CFault =>
      (ret_trig (set_gh s (gh_fault (w_gh s))) t false, [EvWrite t WErr; EvRet t false], true)
  | TRd, CStep _ =>
      let '(x1, v) := efd_read (w_sh s) in
      (set_trig (set_sh s x1) t (mkTrig TWr x), [EvRead t v], false)
  | _, _ => (s, [EvStuck t], false)
  end.

(* ---- the event loop ---- *)
(* the rest of the event batch, up to the next scheduling point *)
Fixpoint run_evs (evs : list pev) (s : wstate) : wstate * wobs :=
  match evs with
  | [] =>
      let c := c_set_evs (con s) [] in
      if c_chores c
      then (set_con s (c_set_pc (c_set_phase (c_set_chores c false) PhUrgent) (CDeq QU)), [])
      else (set_con s (c_set_pc c CWait), [])
  | PEfd :: r => run_evs r (set_con s (c_set_chores (con s) true))
  | PIo k sc :: r =>
      match lookup_script (scripts (w_env s)) sc with
      | [] => let '(s1, o) := run_evs r s in (s1, EvIocb k :: o)
      | sp :: todo =>
          let c := c_set_pc (c_set_phase (c_set_todo (c_set_evs (con s) r) todo) PhEvents) CTrig in
          let '(s1, o) := start_trig (set_con s c) O sp in
          (s1, EvIocb k :: o)
      end
  end.

(* after a Trigger made by the loop thread returned, or a body without Trigger calls *)
Definition resume (s : wstate) : wstate * wobs :=
  match c_todo (con s) with
  | sp :: todo => start_trig (set_con s (c_set_pc (c_set_todo (con s) todo) CTrig)) O sp
  | [] =>
      match c_phase (con s) with
      | PhEvents => run_evs (c_evs (con s)) s
      | PhUrgent => (set_cpc s (CDeq QU), [])
      | PhLow => if c_low (con s) <? e_max (w_env s) then (set_cpc s (CDeq QL), []) else (set_cpc s CStore, [])
      end
  end.

(* task.Exec(task.Param) for the task just dequeued from q, up to the next scheduling point *)
Definition exec_task (s : wstate) (q : qid) (x : task) : wstate * wobs :=
  let sp := tk_spec x in
  let id := tk_id x in
  let cbs := if sp_cb sp then [id] else [] in
  let '(e1, trs, o1) :=
    match sp_kind sp with
    | KPlain => (w_env s, [], [])
    | KWake c => if zmem c (closed (w_env s)) then (w_env s, [], []) else (w_env s, [(id, c)], [EvTraffic c])
    | KClose c => (e_set_closed (w_env s) (c :: closed (w_env s)), [], [])
    end in
  let s1 := set_gh (set_env s e1) (gh_exec (w_gh s) q x cbs trs) in
  let c := c_set_todo (con s1) (lookup_script (scripts e1) (sp_script sp)) in
  let c := match q with
           | QU => c_set_phase c PhUrgent
           | QL => c_set_low (c_set_phase c PhLow) (c_low c + 1)
           end in
  let '(s2, o2) := resume (set_con s1 c) in
  (s2, EvExec id :: o1 ++ (if sp_cb sp then [EvCb id] else []) ++ o2).

(* which pending I/O events the kernel delivered, in the order given *)
Fixpoint take_io (k : Z) (l : list (Z * nat)) : option ((Z * nat) * list (Z * nat)) :=
  match l with
  | [] => None
  | (k', sc) :: r =>
      if Z.eqb k k' then Some ((k', sc), r)
      else match take_io k r with
           | Some (e, r') => Some (e, (k', sc) :: r')
           | None => None
           end
  end.

Fixpoint pick_io (order : list Z) (pend : list (Z * nat)) : list (Z * nat) :=
  match order with
  | [] => pend
  | k :: r => match take_io k pend with
              | Some (e, pend') => e :: pick_io r pend'
              | None => pick_io r pend
              end
  end.

(* number of I/O tokens before the eventfd token (-1) in the delivered order *)
Fixpoint efd_pos (order : list Z) : option nat :=
  match order with
  | [] => None
  | k :: r => if k =? -1 then Some O else match efd_pos r with Some n => Some (S n) | None => None end
  end.

Definition io_evs (l : list (Z * nat)) : list pev := map (fun e => PIo (fst e) (snd e)) l.

Definition arrange (order : list Z) (pend : list (Z * nat)) (eff : bool) : list pev :=
  let ios := io_evs (pick_io order pend) in
  if eff then
    match efd_pos order with
    | Some n => firstn n ios ++ PEfd :: skipn n ios
    | None => ios ++ [PEfd]
    end
  else ios.

Definition pev_code (e : pev) : Z := match e with PEfd => -1 | PIo k _ => k end.

(* one scheduling point of the event loop *)
Definition cons_step (s : wstate) (c : choice) : wstate * wobs :=
  let cn := con s in
  match c_pc cn, c with
  | CWait, CStep order =>
      let evs := arrange order (io_pend (w_env s)) (eff_edge (w_sh s)) in
      let s1 := set_env (set_sh s (sh_efd (w_sh s) (efd_cnt (w_sh s)) false)) (e_set_io (w_env s) []) in
      let o := EvWait (c_msec cn) (map pev_code evs) in
      match evs with
      | [] => (set_con s1 (c_set_msec cn (-1)), [o])
      | _ => let '(s2, o2) := run_evs evs (set_con s1 (c_set_phase (c_set_msec cn 0) PhEvents)) in (s2, o :: o2)
      end
  | CDeq _, CTau => (s, [])
  | CDeq q, CStep _ =>
      match items q (w_sh s) with
      | [] => (set_cpc s (CEmp q), [EvEmpty q])
      | x :: r =>
          (set_con (set_sh s (sh_items (w_sh s) q r)) (c_set_pc (c_set_held cn x) (CDec q)), [EvUnlink q])
      end
  | CEmp q, CTau =>         (* the validating re-read of head; Dequeue returns nil *)
      match q with
      | QU => if 0 <? e_max (w_env s)
              then (set_con s (c_set_pc (c_set_low cn 0) (CDeq QL)), [])
              else (set_con s (c_set_pc (c_set_low cn 0) CStore), [])
      | QL => (set_cpc s CStore, [])
      end
  | CDec q, CStep _ =>
      let '(s1, v) := add_len s q (-1) in
      let '(s2, o) := exec_task s1 q (c_held cn) in
      (s2, EvAdd O q (-1) v :: o)
  | CStore, CStep _ => (set_cpc (set_sh s (sh_flag (w_sh s) 0)) CChkL, [EvStore])
  | CChkL, CStep _ =>
      let v := lenL (w_sh s) in
      (set_cpc s (if v =? 0 then CChkU else CCas), [EvLd O QL v])
  | CChkU, CStep _ =>
      let v := lenU (w_sh s) in
      (set_cpc s (if v =? 0 then CWait else CCas), [EvLd O QU v])
  | CCas, CStep _ =>
      if flag (w_sh s) =? 0
      then (set_cpc (set_sh s (sh_flag (w_sh s) 1)) CWr, [EvCas O true])
      else (set_cpc s CWait, [EvCas O false])
  | CWr, CStep _ =>
      let '(x1, r) := efd_write (w_sh s) in
      match r with
      | WAgain => (set_cpc s CRd, [EvWrite O WAgain])
      | _ => (set_cpc (set_sh s x1) CWait, [EvWrite O WOk])
      end
  | CWr, CFault => (set_cpc (set_gh s (gh_fault (w_gh s))) CWait, [EvWrite O WErr])
  | CRd, CStep _ =>
      let '(x1, v) := efd_read (w_sh s) in
      (set_cpc (set_sh s x1) CWr, [EvRead O v])
  | CTrig, _ =>
      let '(s1, o, done) := trig_step s O c in
      if done then let '(s2, o2) := resume s1 in (s2, o ++ o2) else (s1, o)
  | _, _ => (s, [EvStuck O])
  end.

(* ---- environment ---- *)
Definition env_step (s : wstate) (c : choice) : wstate * wobs :=
  match c with
  | CPreload v =>
      if (0 <? v) && (efd_cnt (w_sh s) + v <=? efd_max)
      then (set_sh s (sh_efd (w_sh s) (efd_cnt (w_sh s) + v) true), [EvEnv])
      else (s, [EvEnv])
  | CIo k sc =>
      if (k <? 0) || existsb (fun e => Z.eqb (fst e) k) (io_pend (w_env s))
      then (s, [EvEnv])
      else (set_env s (e_set_io (w_env s) (io_pend (w_env s) ++ [(k, sc)])), [EvEnv])
  | CScript k l => (set_env s (e_set_scripts (w_env s) ((k, l) :: scripts (w_env s))), [EvEnv])
  | _ => (s, [EvEnv])
  end.

(* ---- the step function: thread t makes choice c ---- *)
Definition wstep (s : wstate) (t : tid) (c : choice) : wstate * wobs :=
  match c with
  | CPreload _ | CIo _ _ | CScript _ _ => env_step s c
  | CStart sp =>
      match t, t_pc (get_trig (trigs s) t) with
      | S _, TIdle => start_trig s t sp
      | _, _ => (s, [EvStuck t])
      end
  | _ =>
      match t with
      | O => cons_step s c
      | S _ => let '(s1, o, _) := trig_step s t c in (s1, o)
      end
  end.

(* ---- the labelled transition system ---- *)
Definition wk_init (s : wstate) : Prop := exists thr max, s = init_state thr max.
Definition wk_label := ((tid * choice) * wobs)%type.
Definition wk_step (s : wstate) (l : wk_label) (s' : wstate) : Prop :=
  wstep s (fst (fst l)) (snd (fst l)) = (s', snd l).
Definition wk_fstep (s : wstate) (a : tid * choice) : wstate * wobs := wstep s (fst a) (snd a).

(* ---- classification of program counters (DESIGN Appendix A.5) ---- *)
(* P1(q): linked, not yet counted *)
Definition w_p1 (q : qid) (th : trig) : Z :=
  match t_pc th, q with TCnt QU, QU | TCnt QL, QL => 1 | _, _ => 0 end.
(* P2: counted, before the CAS *)
Definition w_p2 (th : trig) : Z := match t_pc th with TCas => 1 | _ => 0 end.
(* P3: CAS won, eventfd write not yet done *)
Definition w_p3 (th : trig) : Z := match t_pc th with TWr | TRd => 1 | _ => 0 end.

Definition tot (w : trig -> Z) (ths : list trig) : Z := fold_right (fun th a => w th + a) 0 ths.

Definition n_p1 (q : qid) (s : wstate) : Z := tot (w_p1 q) (trigs s).
Definition n_p2 (s : wstate) : Z := tot w_p2 (trigs s).
Definition n_p3 (s : wstate) : Z := tot w_p3 (trigs s).
Definition n_p123 (s : wstate) : Z := n_p1 QU s + n_p1 QL s + n_p2 s + n_p3 s.

(* the loop between unlink and decount on q *)
Definition d_q (q : qid) (s : wstate) : Z :=
  match c_pc (con s), q with CDec QU, QU | CDec QL, QL => 1 | _, _ => 0 end.

Definition has_efd (l : list pev) : bool := existsb (fun e => match e with PEfd => true | _ => false end) l.

(* B: the loop has chores pending or in progress and has not yet stored 0 *)
Definition cons_B (s : wstate) : bool :=
  match c_pc (con s) with
  | CDeq _ | CEmp _ | CDec _ | CStore => true
  | CTrig => match c_phase (con s) with
             | PhEvents => c_chores (con s) || has_efd (c_evs (con s))
             | _ => true
             end
  | _ => false
  end.

(* W: waiting, or running I/O callbacks with no chores pending *)
Definition cons_W (s : wstate) : bool :=
  match c_pc (con s) with
  | CWait => true
  | CTrig => negb (cons_B s)
  | _ => false
  end.

Definition cons_wr (s : wstate) : bool :=
  match c_pc (con s) with CWr | CRd => true | _ => false end.

Definition all_idle (s : wstate) : Prop := forall t, t_pc (get_trig (trigs s) t) = TIdle.

(* nobody in flight, the loop at epoll_wait, nothing for it to report *)
Definition quiescent (s : wstate) : Prop :=
  all_idle s /\ c_pc (con s) = CWait /\ eff_edge (w_sh s) = false.

Definition quiescent_b (s : wstate) : bool :=
  forallb (fun th => match t_pc th with TIdle => true | _ => false end) (trigs s) &&
  (match c_pc (con s) with CWait => true | _ => false end) &&
  negb (eff_edge (w_sh s)).

Definition sane (s : wstate) : Prop := g_ovf (w_gh s) = false /\ g_fault (w_gh s) = false.

(* ---- trace runner: family "wakeup" ---- *)
Open Scope string_scope.

Definition q_sym (q : qid) : arg := ASym (match q with QU => "U" | QL => "L" end).
Definition t_arg (t : tid) : arg := AInt (Z.of_nat t).
Definition n_arg (n : nat) : arg := AInt (Z.of_nat n).

Definition ev_line (e : ev) : list line :=
  match e with
  | EvBegin t id => [obs "begin" [t_arg t; n_arg id]]
  | EvLd t q v => [obs "ld" [t_arg t; q_sym q; AInt v]]
  | EvLink t q id => [obs "link" [t_arg t; q_sym q; n_arg id]]
  | EvAdd t q d v => [obs "add" [t_arg t; q_sym q; AInt d; AInt v]]
  | EvUnlink q => [obs "unlink" [AInt 0; q_sym q]]
  | EvEmpty q => [obs "empty" [AInt 0; q_sym q]]
  | EvCas t ok => [obs "cas" [t_arg t; AInt 0; AInt 1; bool_arg ok]]
  | EvStore => [obs "st" [AInt 0; AInt 0]]
  | EvWrite t r => [obs "write" [t_arg t; ASym (match r with WOk => "ok" | WAgain => "eagain" | WErr => "err" end)]]
  | EvRead t v => [obs "read" [t_arg t; AInt v]]
  | EvWait m l => [obs "wait" (AInt m :: map AInt l)]
  | EvIocb k => [obs "iocb" [AInt k]]
  | EvExec id => [obs "exec" [n_arg id]]
  | EvCb id => [obs "cb" [n_arg id]]
  | EvTraffic c => [obs "traffic" [AInt c]]
  | EvRet t ok => [obs "ret" [t_arg t; ASym (if ok then "nil" else "err")]]
  | EvEnv => []
  | EvStuck t => [obs "stuck" [t_arg t]]
  end.

Definition obs_lines (o : wobs) : list line := flat_map ev_line o.

(* a request on a trace line: high kind conn cb script *)
Definition parse_spec (a : list arg) : option (tspec * list arg) :=
  match a with
  | AInt h :: AInt k :: AInt c :: AInt cb :: AInt sc :: r =>
      Some (mkSpec (negb (h =? 0)%Z)
                   (if (k =? 1)%Z then KWake c else if (k =? 2)%Z then KClose c else KPlain)
                   (negb (cb =? 0)%Z) (Z.to_nat sc), r)
  | _ => None
  end.

Fixpoint parse_specs (fuel : nat) (a : list arg) : list tspec :=
  match fuel with
  | O => []
  | S f => match parse_spec a with
           | Some (sp, r) => sp :: parse_specs f r
           | None => []
           end
  end.

Fixpoint ints (a : list arg) : list Z :=
  match a with
  | AInt z :: r => z :: ints r
  | _ :: r => ints r
  | [] => []
  end.

(* an unmanaged Trigger call: runs to completion without interleaving *)
Fixpoint run_call (fuel : nat) (s : wstate) (t : tid) : wstate :=
  match fuel with
  | O => s
  | S f => let '(s1, _, done) := trig_step s t (CStep []) in if done then s1 else run_call f s1 t
  end.

Definition wk_line (s : wstate) (l : line) : wstate * list line :=
  match l with
  | ("cfg", [AInt thr; AInt max]) => (init_state thr max, [])
  | ("script", AInt k :: r) =>
      let '(s1, _) := wstep s O (CScript (Z.to_nat k) (parse_specs (List.length r) r)) in (s1, [])
  | ("io", [AInt k; AInt sc]) => let '(s1, _) := wstep s O (CIo k (Z.to_nat sc)) in (s1, [])
  | ("preload", [AInt v]) => let '(s1, _) := wstep s O (CPreload v) in (s1, [])
  | ("start", AInt t :: r) =>
      match parse_spec r with
      | Some (sp, _) => let '(s1, o) := wstep s (Z.to_nat t) (CStart sp) in (s1, obs_lines o)
      | None => (s, [obs "unknown" []])
      end
  | ("call", AInt t :: r) =>
      match parse_spec r, Z.to_nat t with
      | Some (sp, _), S t' =>
          match t_pc (get_trig (trigs s) (S t')) with
          | TIdle => let '(s1, _) := start_trig s (S t') sp in (run_call 16 s1 (S t'), [])
          | _ => (s, [obs "stuck" [AInt t]])
          end
      | _, _ => (s, [obs "unknown" []])
      end
  | ("step", AInt t :: r) => let '(s1, o) := wstep s (Z.to_nat t) (CStep (ints r)) in (s1, obs_lines o)
  | ("tau", [AInt t]) =>
      let '(s1, o) := wstep s (Z.to_nat t) CTau in (s1, obs_lines o)
  | ("fault", [AInt t]) => let '(s1, o) := wstep s (Z.to_nat t) CFault in (s1, obs_lines o)
  | ("check", []) =>
      (s, [obs "check" [bool_arg (quiescent_b s && match io_pend (w_env s) with [] => true | _ => false end);
                        AInt (Z.of_nat (List.length (g_exec (w_gh s))));
                        AInt (lenU (w_sh s)); AInt (lenL (w_sh s)); AInt (flag (w_sh s))]])
  | ("stress", _) => (s, [])
  | _ => (s, [obs "unknown" []])
  end.

Fixpoint wk_lines (s : wstate) (ls : list line) : list line :=
  match ls with
  | [] => []
  | l :: r => let '(s', out) := wk_line s l in out ++ wk_lines s' r
  end.

Definition run_wakeup : runner := fun ls => wk_lines (init_state 1024 256) ls.
