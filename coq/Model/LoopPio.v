(* A small statement language for the event-dispatch decision logic of the
   loop (conn.processIO in connection_linux.go) and its interpreter over the
   procedures of Model/Loop.v.  The translator harness/cmd/genloop reads the
   CURRENT source of processIO, emits it as a value of `pstmt` (with the event
   masks evaluated from the constants of the current pkg/netpoll and x/sys/unix)
   and states the obligation that running that program is `process_io` of the
   model, for every event mask, connection and world.  No proofs in this file. *)
From GV Require Export Model.Loop.
Open Scope string_scope.
Open Scope list_scope.
Open Scope Z_scope.

Inductive pcond :=
| CEvNZ (mask : Z)            (* ev&mask != 0 *)
| CEvZ (mask : Z)             (* ev&mask == 0 *)
| COpened                     (* c.opened *)
| CAnd (a b : pcond).

Inductive pcall := PWrite | PRead | PClose (nil_err : bool).   (* el.write(c) | el.read(c) | el.close(c, nil / io.EOF) *)

Inductive pstmt :=
| SIf (c : pcond) (body : list pstmt)
| SRelease                    (* c.outboundBuffer.Release() *)
| SSetEOF                     (* c.isEOF = true *)
| STry (f : pcall)            (* if err := f(c); err != nil { return err } *)
| SRet (f : pcall)            (* return f(c) *)
| SRetNil.                    (* return nil *)

Fixpoint pcond_eval (c : pcond) (cid ev : Z) (w : world) : bool :=
  match c with
  | CEvNZ m => has ev m
  | CEvZ m => negb (has ev m)
  | COpened => c_opened (wc w cid)
  | CAnd a b => pcond_eval a cid ev w && pcond_eval b cid ev w
  end.

Definition pcall_run (fuel : nat) (f : pcall) (cid : Z) (w : world) : res * world :=
  match f with
  | PWrite => el_write fuel cid 0 w
  | PRead => el_read fuel cid 0 w
  | PClose e => el_close fuel cid e w
  end.

(* None = fell through to the next statement, Some r = returned r *)
Fixpoint pstmt_run (fuel : nat) (cid ev : Z) (s : pstmt) (w : world) : option res * world :=
  match s with
  | SIf c body =>
      if pcond_eval c cid ev w then
        (fix go (l : list pstmt) (w : world) : option res * world :=
           match l with
           | [] => (None, w)
           | x :: r =>
               match pstmt_run fuel cid ev x w with
               | (Some r0, w1) => (Some r0, w1)
               | (None, w1) => go r w1
               end
           end) body w
      else (None, w)
  | SRelease => (None, wsetc w cid (c_set_out (wc w cid) []))
  | SSetEOF => (None, wsetc w cid (c_set_eof (wc w cid) true))
  | STry f =>
      match pcall_run fuel f cid w with
      | (RNil, w1) => (None, w1)
      | (r, w1) => (Some r, w1)
      end
  | SRet f => let '(r, w1) := pcall_run fuel f cid w in (Some r, w1)
  | SRetNil => (Some RNil, w)
  end.

Fixpoint pstmts_run (fuel : nat) (cid ev : Z) (l : list pstmt) (w : world) : option res * world :=
  match l with
  | [] => (None, w)
  | x :: r =>
      match pstmt_run fuel cid ev x w with
      | (Some r0, w1) => (Some r0, w1)
      | (None, w1) => pstmts_run fuel cid ev r w1
      end
  end.

(* a Go function body that runs off its end cannot have result type error, so the
   translator always ends the program with a return; None is mapped to nil *)
Definition pio_run (fuel : nat) (prog : list pstmt) (cid ev : Z) (w : world) : res * world :=
  match pstmts_run fuel cid ev prog w with
  | (Some r, w1) => (r, w1)
  | (None, w1) => (RNil, w1)
  end.

(* what the model declares about the poller, checked against the source by genloop *)
Definition polling_callback_sentinels : list string := ["ErrAcceptSocket"; "ErrEngineShutdown"].
Definition polling_task_sentinels : list string := ["ErrEngineShutdown"].
(* errno values of accept4 that el.accept / el.accept0 tolerate (sorted); anything else is ErrAcceptSocket *)
Definition accept_tolerated : list string := ["eagain"; "econnaborted"; "econnreset"; "eintr"].
(* el.accept0 (main reactor, edge-triggered listener; not part of the loop model): the queue is drained
   until EAGAIN, so a transient failure must be followed by another accept4, not by a return *)
Definition accept0_done : list string := ["eagain"].
Definition accept0_retry : list string := ["econnaborted"; "econnreset"; "eintr"].
(* where the loop's I/O code mentions an errno: the model's `is_eagain` tests, one per site, in source order *)
Definition errno_sites : list (string * string) :=
  [("eventloop.read", "eagain"); ("eventloop.write", "eagain"); ("eventloop.readUDP", "eagain");
   ("conn.open", "eagain"); ("conn.write", "eagain"); ("conn.writev", "eagain")].
Definition polling_wait_retry : list string := ["EINTR"].
(* what OpenPoller / Polling use for the two queue limits; drv-loop passes the values of the
   current pkg/netpoll in the cfg line of every case *)
Definition default_thr : Z := 1024.
Definition default_maxlow : Z := 256.

(* every request the library queues on a poller, with the priority it asks for (file, function, priority),
   in source order; the model's apply_async / trigger calls use these (Proofs/LoopPioSpec.v) *)
Definition trigger_priorities : list (string * string * string) := [
  ("connection_unix.go", "conn.AsyncWrite", "HighPriority");
  ("connection_unix.go", "conn.AsyncWritev", "HighPriority");
  ("connection_unix.go", "conn.Wake", "LowPriority");
  ("connection_unix.go", "conn.CloseWithCallback", "LowPriority");
  ("connection_unix.go", "conn.Close", "LowPriority");
  ("eventloop_unix.go", "eventloop.Execute", "LowPriority");
  ("eventloop_unix.go", "eventloop.enroll", "LowPriority");
  ("eventloop_unix.go", "eventloop.read", "LowPriority");
  ("eventloop_unix.go", "eventloop.write", "HighPriority");
  ("eventloop_unix.go", "eventloop.ticker", "LowPriority");
  ("acceptor_unix.go", "eventloop.accept0", "HighPriority");
  ("client_unix.go", "Client.Stop", "HighPriority");
  ("client_unix.go", "Client.EnrollContext", "HighPriority")].

Definition is_low_of (fn : string) : bool :=
  match find (fun x => String.eqb (snd (fst x)) fn) trigger_priorities with
  | Some (_, _, p) => String.eqb p "LowPriority"
  | None => false
  end.
