import os, sys
sys.path.insert(0, os.path.dirname(os.path.dirname(os.path.abspath(__file__))))
from loopfam import drv, RULE, TRUSTED, ASSUME, GENS

PROP = dict(gens=GENS, drivers=[drv("stream", n=60), drv("fault", n=60), drv("client", n=40), drv("multi", n=30), drv("stream", n=40, tags="verif gc_opt"), drv("fault", n=40, tags="verif poll_opt")], sites=['^loop-stuck$', '^lifecycle$', '^count-connections$', '^async-callback$', '^shutdown$', '^engine-start$'], rule=RULE, trusted=TRUSTED, assumptions=ASSUME)
