package main

// Integration part of C15: real gnet servers with N event loops.  The export
// hook VerifRecordLB reports the loop every eventLoops.next call returned; every
// OnOpen/OnTraffic/OnClose records the loop the connection is attached to
// (conn.loop.idx, and the public c.EventLoop() handle) and the goroutine it
// runs on.  Oracle: the loop `next` chose is the loop of every callback of that
// connection, one goroutine per loop; plus the policy itself on the live
// sequence of accepts (cyclic / crc32 mod N / minimal count at quiescence).

import (
	"bufio"
	"context"
	"fmt"
	"hash/crc32"
	"net"
	"os"
	"path/filepath"
	"runtime"
	"strconv"
	"strings"
	"sync"
	"sync/atomic"
	"time"

	gnet "github.com/panjf2000/gnet/v2"
	"github.com/panjf2000/gnet/v2/pkg/logging"

	"verifharness/tr"
)

type nopLogger struct{}

func (nopLogger) Debugf(string, ...interface{}) {}
func (nopLogger) Infof(string, ...interface{})  {}
func (nopLogger) Warnf(string, ...interface{})  {}
func (nopLogger) Errorf(string, ...interface{}) {}
func (nopLogger) Fatalf(string, ...interface{}) {}

var _ logging.Logger = nopLogger{}

func goid() int64 {
	var buf [64]byte
	n := runtime.Stack(buf[:], false)
	f := strings.Fields(string(buf[:n]))
	if len(f) < 2 {
		return -1
	}
	id, _ := strconv.ParseInt(f[1], 10, 64)
	return id
}

type lbServer struct {
	gnet.BuiltinEventEngine
	name   string
	pol    string
	nloops int

	mu       sync.Mutex
	fails    map[string]string
	order    []string
	infra    []string
	checks   map[string]int
	assigned map[string][]int // remote address string -> loops chosen by next, oldest first
	seq      []int            // every loop chosen by next, in order
	loopGo   map[int]int64    // loop idx -> goroutine id of its callbacks
	quiet    bool             // counts are quiescent: the least-connections snapshot is exact
	booted   chan struct{}
	eng      gnet.Engine
	open     int64
	closed   int64
}

func (s *lbServer) fail(sig, detail string) {
	s.mu.Lock()
	if _, ok := s.fails[sig]; !ok {
		s.fails[sig] = detail
		s.order = append(s.order, sig)
	}
	s.mu.Unlock()
}

func (s *lbServer) infraErr(format string, a ...interface{}) {
	s.mu.Lock()
	if len(s.infra) < 5 {
		s.infra = append(s.infra, fmt.Sprintf(format, a...))
	}
	s.mu.Unlock()
}

// called by the export hook for every eventLoops.next (under its own lock)
func (s *lbServer) record(remote string, idx int, counts []int32) {
	s.mu.Lock()
	defer s.mu.Unlock()
	s.checks["next"]++
	n := len(counts)
	if idx < 0 || idx >= n {
		s.failLocked("next-returned-unregistered-loop", fmt.Sprintf("idx=%d n=%d", idx, n))
	}
	switch s.pol {
	case "rr":
		if k := len(s.seq); k > 0 && idx != (s.seq[k-1]+1)%n {
			s.failLocked("live-rr-not-cyclic", fmt.Sprintf("prev=%d got=%d", s.seq[k-1], idx))
		}
	case "hash":
		if want := int(crc32.ChecksumIEEE([]byte(remote))) % n; idx != want {
			s.failLocked("live-hash-not-crc32-mod-size", remote)
		}
	case "lc":
		if s.quiet && idx >= 0 && idx < n {
			for i, c := range counts {
				if c < counts[idx] {
					s.failLocked("live-lc-not-minimal", fmt.Sprintf("picked %d of %v, loop %d is smaller", idx, counts, i))
					break
				}
			}
			s.checks["lc-quiescent"]++
		}
	}
	s.seq = append(s.seq, idx)
	s.assigned[remote] = append(s.assigned[remote], idx)
}

func (s *lbServer) failLocked(sig, detail string) {
	if _, ok := s.fails[sig]; !ok {
		s.fails[sig] = detail
		s.order = append(s.order, sig)
	}
}

func (s *lbServer) OnBoot(e gnet.Engine) gnet.Action {
	s.eng = e
	gnet.VerifRecordLB(e, s.record)
	close(s.booted)
	return gnet.None
}

type lbCtx struct {
	loop   int
	remote string
}

// where: callback name; first: OnOpen (takes the assignment from the hook's record)
func (s *lbServer) observe(where string, c gnet.Conn, first bool) {
	li, lh, g := gnet.VerifLoopIndex(c), gnet.VerifEventLoopIndex(c.EventLoop()), goid()
	s.mu.Lock()
	defer s.mu.Unlock()
	s.checks[where]++
	var want int
	if first {
		remote := "<nil>"
		if a := c.RemoteAddr(); a != nil {
			remote = a.String()
		}
		q := s.assigned[remote]
		if len(q) == 0 {
			s.failLocked(where+" connection-without-next", remote)
			return
		}
		want = q[0]
		s.assigned[remote] = q[1:]
		c.SetContext(&lbCtx{loop: want, remote: remote})
	} else {
		x, ok := c.Context().(*lbCtx)
		if !ok {
			s.failLocked(where+" no-context", "")
			return
		}
		want = x.loop
	}
	if li != want || lh != want {
		s.failLocked(where+" callback-on-another-loop-than-next-returned", fmt.Sprintf("next=%d conn.loop=%d EventLoop()=%d", want, li, lh))
	}
	if g0, ok := s.loopGo[li]; !ok {
		for l2, g2 := range s.loopGo {
			if g2 == g {
				s.failLocked(where+" two-loops-one-goroutine", fmt.Sprintf("loops %d and %d", l2, li))
			}
		}
		s.loopGo[li] = g
	} else if g0 != g {
		s.failLocked(where+" loop-callbacks-on-different-goroutines", fmt.Sprintf("loop %d: goroutines %d and %d", li, g0, g))
	}
}

func (s *lbServer) OnOpen(c gnet.Conn) ([]byte, gnet.Action) {
	atomic.AddInt64(&s.open, 1)
	s.observe("OnOpen", c, true)
	return []byte("hi\n"), gnet.None
}

func (s *lbServer) OnTraffic(c gnet.Conn) gnet.Action {
	s.observe("OnTraffic", c, false)
	data, _ := c.Next(-1)
	_, _ = c.Write(data)
	return gnet.None
}

func (s *lbServer) OnClose(c gnet.Conn, _ error) gnet.Action {
	s.observe("OnClose", c, false)
	atomic.AddInt64(&s.closed, 1)
	return gnet.None
}

func freePort() int {
	ln, err := net.Listen("tcp4", "127.0.0.1:0")
	if err != nil {
		return 0
	}
	defer ln.Close()
	return ln.Addr().(*net.TCPAddr).Port
}

type lbClient struct {
	c  net.Conn
	rd *bufio.Reader
}

func (s *lbServer) dial(network, addr string, i int, dir string) (*lbClient, error) {
	var c net.Conn
	var err error
	if network == "unix" {
		var laddr *net.UnixAddr
		if i%4 != 0 || s.pol != "hash" { // unbound clients all have the remote address "" (one loop under hash)
			laddr = &net.UnixAddr{Name: filepath.Join(dir, fmt.Sprintf("c%d.sock", i)), Net: "unix"}
		}
		c, err = net.DialUnix("unix", laddr, &net.UnixAddr{Name: addr, Net: "unix"})
	} else {
		c, err = (&net.Dialer{Timeout: 20 * time.Second}).Dial(network, addr)
	}
	if err != nil {
		return nil, err
	}
	cl := &lbClient{c, bufio.NewReader(c)}
	_ = c.SetDeadline(time.Now().Add(20 * time.Second))
	if l, err := cl.rd.ReadString('\n'); err != nil || l != "hi\n" { // OnOpen has run
		c.Close()
		return nil, fmt.Errorf("greeting: %q %v", l, err)
	}
	return cl, nil
}

func (cl *lbClient) echo() error {
	_ = cl.c.SetDeadline(time.Now().Add(20 * time.Second))
	if _, err := cl.c.Write([]byte("ping\n")); err != nil {
		return err
	}
	l, err := cl.rd.ReadString('\n')
	if err != nil || l != "ping\n" {
		return fmt.Errorf("echo: %q %v", l, err)
	}
	return nil
}

func (s *lbServer) waitClosed(n int64) {
	deadline := time.Now().Add(20 * time.Second)
	for time.Now().Before(deadline) && atomic.LoadInt64(&s.closed) < n {
		time.Sleep(time.Millisecond)
	}
}

func runLBServer(name, pol, network string, nloops, conns int, rnd *tr.Rand) *lbServer {
	s := &lbServer{name: name, pol: pol, nloops: nloops, fails: map[string]string{}, checks: map[string]int{},
		assigned: map[string][]int{}, loopGo: map[int]int64{}, booted: make(chan struct{})}
	dir, err := os.MkdirTemp("/var/tmp", "verif-c15-")
	if err != nil {
		s.infraErr("mkdtemp: %v", err)
		return s
	}
	defer os.RemoveAll(dir)
	var gaddr, daddr string
	if network == "unix" {
		daddr = filepath.Join(dir, "srv.sock")
		gaddr = "unix://" + daddr
	} else {
		daddr = fmt.Sprintf("127.0.0.1:%d", freePort())
		gaddr = "tcp://" + daddr
	}
	lbOpt := map[string]gnet.LoadBalancing{"rr": gnet.RoundRobin, "lc": gnet.LeastConnections, "hash": gnet.SourceAddrHash}[pol]
	done := make(chan error, 1)
	go func() {
		done <- gnet.Run(s, gaddr, gnet.WithLogger(nopLogger{}), gnet.WithNumEventLoop(nloops), gnet.WithLoadBalancing(lbOpt))
	}()
	select {
	case <-s.booted:
	case err := <-done:
		s.infraErr("server did not start: %v", err)
		return s
	case <-time.After(20 * time.Second):
		s.infraErr("server boot timeout")
		return s
	}
	defer func() {
		ctx, cancel := context.WithTimeout(context.Background(), 20*time.Second)
		defer cancel()
		_ = s.eng.Stop(ctx)
		select {
		case <-done:
		case <-time.After(20 * time.Second):
			s.infraErr("server did not stop")
		}
	}()
	// phase 1: sequential, quiescent: every accept sees settled connection counts
	s.mu.Lock()
	s.quiet = true
	s.mu.Unlock()
	var held []*lbClient
	total := int64(0)
	for i := 0; i < 40; i++ {
		cl, err := s.dial(network, daddr, i, dir)
		if err != nil {
			s.infraErr("dial: %v", err)
			return s
		}
		total++
		if err := cl.echo(); err != nil {
			s.infraErr("echo: %v", err)
		}
		held = append(held, cl)
		if rnd.Chance(35) && len(held) > 0 {
			j := rnd.Intn(len(held))
			before := atomic.LoadInt64(&s.closed)
			held[j].c.Close()
			held = append(held[:j], held[j+1:]...)
			s.waitClosed(before + 1)
		}
	}
	s.mu.Lock()
	s.quiet = false
	s.mu.Unlock()
	// phase 2: concurrent churn
	var wg sync.WaitGroup
	var idx int64 = 1000
	for k := 0; k < 6; k++ {
		wg.Add(1)
		seed := rnd.U64()
		go func() {
			defer wg.Done()
			r := tr.NewRand(seed)
			for {
				i := int(atomic.AddInt64(&idx, 1))
				if i > 1000+conns {
					return
				}
				cl, err := s.dial(network, daddr, i, dir)
				if err != nil {
					s.infraErr("dial %d: %v", i, err)
					continue
				}
				atomic.AddInt64(&total, 1)
				for n := r.Intn(3); n > 0; n-- {
					if err := cl.echo(); err != nil {
						s.infraErr("echo %d: %v", i, err)
						break
					}
				}
				cl.c.Close()
			}
		}()
	}
	wg.Wait()
	for _, cl := range held {
		if err := cl.echo(); err != nil {
			s.infraErr("late echo: %v", err)
		}
		cl.c.Close()
	}
	s.waitClosed(atomic.LoadInt64(&total))
	if o, c := atomic.LoadInt64(&s.open), atomic.LoadInt64(&s.closed); o != c || o != atomic.LoadInt64(&total) {
		s.infraErr("opened %d closed %d of %d", o, c, total)
	}
	s.mu.Lock()
	if len(s.loopGo) > nloops {
		s.failLocked("more-loops-than-configured", fmt.Sprintf("%d > %d", len(s.loopGo), nloops))
	}
	s.mu.Unlock()
	return s
}

var lbScenarios = map[string]struct {
	pol, network string
	nloops       int
}{
	"rr-tcp-4":    {"rr", "tcp4", 4},
	"rr-tcp-3":    {"rr", "tcp4", 3},
	"lc-tcp-3":    {"lc", "tcp4", 3},
	"hash-tcp-5":  {"hash", "tcp4", 5},
	"hash-unix-4": {"hash", "unix", 4},
	"lc-unix-2":   {"lc", "unix", 2},
}

var lbScenarioNames = []string{"rr-tcp-4", "rr-tcp-3", "lc-tcp-3", "hash-tcp-5", "hash-unix-4", "lc-unix-2"}

// runScenario runs one live scenario and reports into the current trace case.
func runScenario(name string, conns int, rnd *tr.Rand) {
	sc, ok := lbScenarios[name]
	if !ok {
		w.Fail("integration-infra", name, "unknown scenario")
		return
	}
	var s *lbServer
	for attempt := 0; attempt < 2; attempt++ {
		s = runLBServer(name, sc.pol, sc.network, sc.nloops, conns, rnd)
		if len(s.infra) == 0 {
			break
		}
	}
	w.Tag("integration-" + name)
	for k, n := range s.checks {
		w.Stats.Hist["int-"+name+"/"+k] += n
	}
	w.Stats.Hist["int-"+name+"/loops-seen"] += len(s.loopGo)
	for _, sig := range s.order {
		w.Fail("integration", name+" "+sig, s.fails[sig])
	}
	for _, e := range s.infra {
		w.Fail("integration-infra", name, e)
	}
}

func integration(seed uint64, tier string) {
	rnd := tr.NewRand(seed ^ 0xC15)
	conns := 200
	if tier == "thorough" {
		conns = 2000
	}
	for _, name := range lbScenarioNames {
		cid++
		w.Case(fmt.Sprintf("int%d-%s", cid, name), "lb", "integration="+name)
		w.Op(tr.L("int", name))
		runScenario(name, conns, rnd)
		w.End()
	}
}
