CHECK = dict(
    engine="arith", design_ref="4 / C20",
    text="Full proof over the whole int64 range (Ceil/Floor/Closest/IsPowerOfTwo, size-class index, GFD pack/unpack) "
         "on a model that the translator regenerates from the source each run (obligation Gen.f = Model.f), plus "
         "differential execution of the real functions against the extracted model and a closed-form oracle.",
    note="Assumes math/bits.Len = log2+1 and 64-bit int; translator genintfun and the Go harness are trusted; "
         "GFD model is hand-written and tied by differential runs only.",
    technique="Coq proof (bit-level lemmas, lia) + go/ast translator obligations + differential traces",
)
ENGINE = dict(name="arith", path="coq/Model/Arith.v", serves_properties=["C20"],
              kind_free_text="Gallina model of pkg/math, byteslice.index, internal/gfd + genintfun translator + drv-arith")
