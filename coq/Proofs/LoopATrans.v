(* Preservation of the C04/C07 relation (Proofs/LoopAState.v) by each kind of state
   change of the loop model.  Pure facts: no worlds, no fuel. *)
From GV Require Import Lib.Trace Model.Loop Spec.LoopSpec Proofs.LoopInv Proofs.LoopAState.
From Coq Require Import Lia Permutation.
Open Scope string_scope.
Open Scope list_scope.
Open Scope Z_scope.

Lemma regcids_app : forall a b, regcids (a ++ b) = regcids a ++ regcids b.
Proof. intros. unfold regcids. apply flat_map_app. Qed.

Lemma zmem_true : forall x l, zmem x l = true <-> In x l.
Proof.
  intros x l. unfold zmem. rewrite existsb_exists. split.
  - intros [y [Hi He]]. assert (x = y) by lia. subst; auto.
  - intros Hi. exists x. split; [auto|lia].
Qed.

Lemma zmem_zrem : forall x y l, zmem x (zrem y l) = zmem x l && negb (y =? x).
Proof.
  intros x y l. induction l as [|z l IH]; [reflexivity|].
  unfold zrem in *. cbn [filter]. destruct (y =? z) eqn:E; cbn [negb].
  - rewrite IH. unfold zmem. cbn [existsb]. destruct (x =? z) eqn:E2; [|reflexivity].
    assert (y =? x = true) by lia. rewrite H. cbn. rewrite Bool.andb_false_r. reflexivity.
  - unfold zmem in *. cbn [existsb]. rewrite IH. destruct (x =? z) eqn:E2; [|reflexivity].
    assert (y =? x = false) by lia. rewrite H. cbn. destruct (existsb (fun y0 => x =? y0) l); reflexivity.
Qed.

Ltac rdestr H :=
  let Ro := fresh "Ro" in let Rc := fresh "Rc" in let Rr := fresh "Rr" in
  let Rcnt := fresh "Rcnt" in let Rnm := fresh "Rnm" in let Rnr := fresh "Rnr" in
  let RL := fresh "RL" in let RLn := fresh "RLn" in let Rf := fresh "Rf" in
  let Rp := fresh "Rp" in let Rpn := fresh "Rpn" in let Ru := fresh "Ru" in let Rn := fresh "Rn" in
  destruct H as [Ro Rc Rr Rcnt Rnm Rnr RL RLn Rf Rp Rpn Ru Rn].

(* ------------------------------------------------------------------ *)
(* changes that leave connections, registry and counter alone (queues, flag) *)

Lemma RelQ_view : forall L P P' N q c s s',
  (forall cid, getc s' cid = getc s cid) -> l_reg s' = l_reg s -> l_next s' = l_next s ->
  l_listeners s' = l_listeners s -> l_efd s' = l_efd s ->
  Permutation (promised P' s') (promised P s) ->
  RelQ L P N q c s -> RelQ L P' N q c s'.
Proof.
  intros L P P' N q [m cs] s s' Hg Hr Hn Hl He Hp [HR HF]. cbn [fst snd] in *.
  assert (Hin : forall k, In k (promised P' s') <-> In k (promised P s)).
  { intros k; split; apply Permutation_in; [exact Hp|apply Permutation_sym; exact Hp]. }
  assert (Hh : forall k, holder L P' s' k <-> holder L P s k).
  { intros k. unfold holder. rewrite Hg, Hin. tauto. }
  split; cbn [fst snd].
  - rdestr HR. constructor; unfold regs in *; try rewrite Hr; try rewrite Hn; try rewrite Hl; auto.
    + intros cid. rewrite Hg. auto.
    + intros cid. rewrite Hg. auto.
    + intros fd cid. rewrite Hg. auto.
    + intros cid. rewrite Hg, Hin. auto.
    + intros cid. rewrite Hg, Hin. auto.
    + eapply Permutation_NoDup; [apply Permutation_sym; exact Hp|exact Rpn].
    + intros cid. rewrite Hg. auto.
    + intros cid. rewrite Hin. auto.
  - destruct HF as [HF|[H1 H2 H3 H4]]; [left; exact HF|right].
    constructor; auto.
    + rewrite He, Hl. exact H2.
    + intros cid Hc. rewrite Hg. apply H3. apply Hh. exact Hc.
    + intros c1 c2 Hc1 Hc2. rewrite !Hg. apply H4; apply Hh; auto.
Qed.

Lemma RelQ_set_queues_perm : forall L P P' N q c s u lo f,
  Permutation (P' ++ regcids (u ++ lo)) (promised P s) ->
  RelQ L P N q c s -> RelQ L P' N q c (set_queues s u lo f).
Proof.
  intros L P P' N q c s u lo f Hp H.
  eapply RelQ_view; [| | | | | |exact H]; try reflexivity. exact Hp.
Qed.

Lemma RelQ_set_flag : forall L P N q c s f, RelQ L P N q c s -> RelQ L P N q c (set_flag s f).
Proof. intros. unfold set_flag. eapply RelQ_set_queues_perm; eauto. apply Permutation_refl. Qed.

Lemma promised_enqueue : forall P s b t,
  Permutation (promised P (enqueue s b t)) (regcids [t] ++ promised P s).
Proof.
  intros P s b t. unfold promised, enqueue, tasks.
  destruct (b && (zlen (l_urgent s) >=? l_thr s)); cbn [l_urgent l_low set_queues].
  - rewrite !regcids_app.
    rewrite (app_assoc P). rewrite (app_assoc (P ++ regcids (l_urgent s))).
    eapply Permutation_trans; [apply Permutation_app_comm|].
    rewrite <- !app_assoc. apply Permutation_refl.
  - rewrite !regcids_app. rewrite <- !app_assoc.
    rewrite (app_assoc P).
    eapply Permutation_trans; [apply Permutation_app_swap_app|].
    rewrite <- !app_assoc. apply Permutation_refl.
Qed.

Definition plain_task (t : task) : Prop := regcids [t] = [].

Lemma RelQ_enqueue : forall L P N q c s b t,
  plain_task t -> RelQ L P N q c s -> RelQ L P N q c (enqueue s b t).
Proof.
  intros L P N q c s b t Ht H.
  eapply RelQ_view; [| | | | | |exact H]; try (unfold enqueue; destruct (b && _); reflexivity).
  eapply Permutation_trans; [apply promised_enqueue|]. rewrite Ht. apply Permutation_refl.
Qed.

Lemma RelQ_enqueue_reg : forall L P N q c s b cid cb,
  RelQ L (cid :: P) N q c s -> RelQ L P N q c (enqueue s b (TRegister cid cb)).
Proof.
  intros L P N q c s b cid cb H.
  eapply RelQ_view; [| | | | | |exact H]; try (unfold enqueue; destruct (b && _); reflexivity).
  eapply Permutation_trans; [apply promised_enqueue|]. apply Permutation_refl.
Qed.

(* popping the head of a queue: a TRegister moves to P *)
Definition pop_P (t : task) (P : list Z) : list Z := regcids [t] ++ P.

Lemma RelQ_pop_urgent : forall L P N q c s t rest,
  l_urgent s = t :: rest -> RelQ L P N q c s ->
  RelQ L (pop_P t P) N q c (set_queues s rest (l_low s) (l_flag s)).
Proof.
  intros L P N q c s t rest Hu H. eapply RelQ_set_queues_perm; [|exact H].
  unfold promised, tasks, pop_P. rewrite Hu.
  change (t :: rest) with ([t] ++ rest). rewrite <- !app_assoc, !regcids_app.
  rewrite !app_assoc. apply Permutation_app_tail. apply Permutation_app_tail.
  apply Permutation_app_comm.
Qed.

Lemma RelQ_pop_low : forall L P N q c s t rest,
  l_low s = t :: rest -> RelQ L P N q c s ->
  RelQ L (pop_P t P) N q c (set_queues s (l_urgent s) rest (l_flag s)).
Proof.
  intros L P N q c s t rest Hu H. eapply RelQ_set_queues_perm; [|exact H].
  unfold promised, tasks, pop_P. rewrite Hu.
  change (t :: rest) with ([t] ++ rest). rewrite !regcids_app.
  rewrite <- !app_assoc.
  eapply Permutation_trans; [|apply Permutation_app_head; apply Permutation_app_swap_app].
  apply Permutation_app_swap_app.
Qed.

(* ------------------------------------------------------------------ *)
(* updating one connection record *)

Lemma RelQ_setc : forall L P N q c s cid c',
  c_fd c' = c_fd (getc s cid) -> c_udp c' = c_udp (getc s cid) ->
  (c_remote c' = c_remote (getc s cid) \/ c_remote c' = false) ->
  (c_opened c' = c_opened (getc s cid) \/ (c_opened c' = false /\ In cid L)) ->
  RelQ L P N q c s -> RelQ L P N q c (setc s cid c').
Proof.
  intros L P N q [m cs] s cid c' Hfd Hudp Hrem Hop [HR HF]. cbn [fst snd] in *.
  assert (Hg : forall k, getc (setc s cid c') k = if k =? cid then c' else getc s k)
    by (intros; apply getc_setc).
  assert (Hfdk : forall k, c_fd (getc (setc s cid c') k) = c_fd (getc s k)).
  { intros k. rewrite Hg. destruct (k =? cid) eqn:E; [|reflexivity].
    assert (k = cid) by lia. subst. exact Hfd. }
  assert (Hopk : forall k, c_opened (getc (setc s cid c') k) = true -> c_opened (getc s k) = true).
  { intros k. rewrite Hg. destruct (k =? cid) eqn:E; [|auto].
    assert (k = cid) by lia. subst. intros Ht. destruct Hop as [Ho|[Ho _]]; congruence. }
  rdestr HR.
  assert (HinL : In cid L -> c_opened (getc s cid) = true -> False -> False) by tauto.
  split; cbn [fst snd].
  - constructor; auto; change (regs (setc s cid c')) with (regs s);
      change (l_next (setc s cid c')) with (l_next s);
      change (promised P (setc s cid c')) with (promised P s);
      change (l_listeners (setc s cid c')) with (l_listeners s).
    + intros k Hk. rewrite Hfdk. apply Ro. apply Hopk. exact Hk.
    + intros k. rewrite Hg. destruct (k =? cid) eqn:E; [|auto].
      assert (k = cid) by lia. subst k. intros Hc.
      destruct Hop as [Ho|[_ Hi]]; [apply Rc; congruence|]. rewrite (RL _ Hi). congruence.
    + intros fd k Hk. destruct (Rr _ _ Hk) as [H1 H2]. rewrite Hfdk. split; [exact H1|].
      rewrite Hg. destruct (k =? cid) eqn:E; [|exact H2].
      assert (k = cid) by lia. subst k.
      destruct Hop as [Ho|[_ Hi]]; [congruence|]. exfalso.
      destruct (Ro _ H2) as [[_ Hnone]|[Hni _]]; [|tauto].
      unfold regs in *. rewrite H1 in Hnone. congruence.
    + intros k Hk. destruct (Rf _ Hk) as [H1 H2]. split; [|exact H2].
      rewrite Hg. destruct (k =? cid) eqn:E; [|exact H1].
      assert (k = cid) by lia. subst k. destruct Hop as [Ho|[Ho _]]; congruence.
    + intros k Hk. destruct (Rp _ Hk) as [H1 [H2 H3]]. rewrite Hg.
      destruct (k =? cid) eqn:E; [|auto].
      assert (k = cid) by lia. subst k. split; [|split; [exact H2|]].
      * destruct Hop as [Ho|[Ho _]]; congruence.
      * rewrite Hudp. destruct Hrem as [Hr|Hr]; rewrite Hr; [exact H3|apply Bool.andb_false_r].
    + intros k. rewrite Hfdk. rewrite Hg. destruct (k =? cid) eqn:E; [|apply Ru].
      assert (k = cid) by lia. subst k. rewrite Hudp. intros Hu Hr.
      destruct Hrem as [Hr'|Hr']; [|congruence]. apply Ru; congruence.
  - destruct HF as [HF|[H1 H2 H3 H4]]; [left; exact HF|right].
    assert (Hh : forall k, holder L P (setc s cid c') k -> holder L P s k).
    { intros k [Hk|Hk]; [left; apply Hopk; exact Hk|right; exact Hk]. }
    constructor; auto.
    + intros k Hk. rewrite Hfdk. apply H3. apply Hh. exact Hk.
    + intros c1 c2 Hc1 Hc2. rewrite !Hfdk. apply H4; apply Hh; auto.
Qed.

(* the usual case: a field other than fd/opened/udp/remote *)
Lemma RelQ_setc_same : forall L P N q c s cid c',
  c_fd c' = c_fd (getc s cid) -> c_udp c' = c_udp (getc s cid) ->
  c_remote c' = c_remote (getc s cid) -> c_opened c' = c_opened (getc s cid) ->
  RelQ L P N q c s -> RelQ L P N q c (setc s cid c').
Proof. intros. apply RelQ_setc; auto. Qed.

(* conn.release of a connection that is not open, or of one inside el_close *)
Lemma RelQ_release : forall L P N q c s cid,
  c_opened (getc s cid) = false \/ In cid L ->
  RelQ L P N q c s -> RelQ L P N q c (setc s cid (c_release (getc s cid))).
Proof.
  intros L P N q c s cid Hc H. apply RelQ_setc; auto.
  - unfold c_release. destruct (c_udp (getc s cid)); reflexivity.
  - unfold c_release. destruct (c_udp (getc s cid)) eqn:E; cbn; auto.
  - unfold c_release. destruct (c_udp (getc s cid)); cbn; auto.
  - assert (Ho : c_opened (c_release (getc s cid)) = false)
      by (unfold c_release; destruct (c_udp (getc s cid)); reflexivity).
    rewrite Ho. destruct Hc as [Hc|Hc]; [left; congruence|right; auto].
Qed.

(* ------------------------------------------------------------------ *)
(* el.close: unregistering and announcing *)

Lemma getc_set_reg : forall s r cid, getc (set_reg s r) cid = getc s cid.
Proof. reflexivity. Qed.

Lemma RelQ_close_start : forall L P N m cs s cid,
  RelQ L P N None (m, cs) s -> c_opened (getc s cid) = true ->
  regs s (c_fd (getc s cid)) <> None ->
  ph m cid = POpen /\
  RelQ (cid :: L) P N None (aset cid PClosed m, cs)
       (set_reg s (aremove (c_fd (getc s cid)) (l_reg s))).
Proof.
  intros L P N m cs s cid [HR HF] Hop Hreg. cbn [fst snd] in *. rdestr HR.
  destruct (Ro _ Hop) as [[_ Hn]|[HnL [Hrc Hph]]]; [congruence|].
  split; [exact Hph|].
  set (fd := c_fd (getc s cid)) in *.
  assert (Hregs : forall fd', regs (set_reg s (aremove fd (l_reg s))) fd' =
                              if fd' =? fd then None else regs s fd').
  { intros fd'. unfold regs. cbn [l_reg set_reg]. apply alookup_aremove. }
  split; cbn [fst snd].
  - constructor;
      change (promised P (set_reg s (aremove fd (l_reg s)))) with (promised P s);
      change (l_next (set_reg s (aremove fd (l_reg s)))) with (l_next s);
      change (l_listeners (set_reg s (aremove fd (l_reg s)))) with (l_listeners s).
    + intros k. rewrite getc_set_reg. intros Hk. rewrite Hregs. destruct (Z.eq_dec k cid) as [->|Hne].
      * left. split; [left; reflexivity|]. fold fd. rewrite Z.eqb_refl. reflexivity.
      * destruct (Ro _ Hk) as [[Hi Hn]|[Hni [Hr Hp]]].
        -- left. split; [right; exact Hi|]. rewrite Hn. destruct (_ =? fd); reflexivity.
        -- right. split; [intros [Hc|Hc]; [congruence|tauto]|].
           rewrite ph_aset. assert (k =? cid = false) by lia. rewrite H. split; [|exact Hp].
           destruct (c_fd (getc s k) =? fd) eqn:E; [|exact Hr].
           assert (c_fd (getc s k) = fd) by lia. unfold regs in *. rewrite H0 in Hr. congruence.
    + intros k. rewrite getc_set_reg. intros Hk. rewrite ph_aset.
      destruct (k =? cid) eqn:E; [congruence|]. apply Rc; exact Hk.
    + intros fd' k. rewrite Hregs, getc_set_reg. destruct (fd' =? fd); [discriminate|]. apply Rr.
    + rewrite count_open_aset; auto. rewrite Hph. cbn [isopen l_reg set_reg].
      rewrite (zlen_aremove fd cid); auto. lia.
    + apply nodup_aset; auto.
    + cbn [l_reg set_reg]. apply nodup_aremove; auto.
    + intros k [<-|Hi]; rewrite ph_aset; [rewrite Z.eqb_refl; reflexivity|].
      destruct (k =? cid); [reflexivity|apply RL; exact Hi].
    + constructor; auto.
    + intros k. rewrite getc_set_reg. intros Hk.
      destruct (Rf _ Hk) as [H1 [H2 H3]]. split; [exact H1|]. split; [|exact H3].
      rewrite ph_aset. destruct (k =? cid) eqn:E; [|exact H2].
      assert (k = cid) by lia. subst. congruence.
    + intros k. rewrite getc_set_reg. intros Hk.
      destruct (Rp _ Hk) as [H1 [H2 H3]]. split; [exact H1|]. split; [|exact H3].
      rewrite ph_aset. destruct (k =? cid) eqn:E; [|exact H2].
      assert (k = cid) by lia. subst. congruence.
    + exact Rpn.
    + intros k. rewrite getc_set_reg. apply Ru.
    + intros k Hk. destruct (Rn _ Hk) as [H1 H2]. split; [|exact H2].
      rewrite ph_aset. destruct (k =? cid) eqn:E; [|exact H1].
      assert (k = cid) by lia. subst. congruence.
  - destruct HF as [HF|[H1 H2 H3 H4]]; [left; exact HF|right].
    assert (Hh : forall k, holder (cid :: L) P (set_reg s (aremove fd (l_reg s))) k -> holder L P s k).
    { intros k [Hk|[[<-|Hk]|Hk]]; unfold holder; auto. }
    constructor; auto.
    intros k Hk. rewrite getc_set_reg. apply H3. apply Hh. exact Hk.
Qed.

(* the close(2) result: the descriptor leaves the ledger, the connection leaves L *)
Lemma RelQ_close_result_L : forall L P N m cs s cid fd n,
  RelQ (cid :: L) P N (Some ("close", fd)) (m, cs) s ->
  c_opened (getc s cid) = false -> c_fd (getc s cid) = fd ->
  RelQ L P N None (m, if f_dead cs then cs else fd_result cs n) s.
Proof.
  intros L P N m cs s cid fd n [HR HF] Hop Hfd. cbn [fst snd] in *. rdestr HR.
  inversion RLn as [|? ? HniL HndL]; subst.
  split; cbn [fst snd].
  - constructor; auto.
    + intros k Hk. destruct (Ro _ Hk) as [[[->|Hi] Hn]|[Hni Hr]]; [congruence|left; auto|].
      right. split; [|exact (proj2 (conj I Hr))]. intros Hc. apply Hni. right. exact Hc.
    + intros k Hk. apply RL. right. exact Hk.
  - destruct HF as [HF|[H1 H2 H3 H4]]; [left; rewrite HF; exact HF|].
    destruct (f_dead cs) eqn:Hd; [left; exact Hd|right].
    unfold fd_result. rewrite H1. cbn.
    assert (Hc : holder (c_fd (getc s cid) :: nil) nil s 0 -> True) by auto.
    assert (Hcid : holder (cid :: L) P s cid) by (right; left; left; reflexivity).
    assert (Hh : forall k, holder L P s k -> holder (cid :: L) P s k /\ k <> cid).
    { intros k [Hk|[Hk|Hk]].
      - split; [left; exact Hk|congruence].
      - split; [right; left; right; exact Hk|congruence].
      - split; [right; right; exact Hk|]. intros ->.
        destruct (Rp _ Hk) as [_ [Hp _]]. rewrite (RL cid) in Hp; [discriminate|left; reflexivity]. }
    constructor; auto.
    + intros k Hk. destruct (Hh _ Hk) as [Hk1 Hk2]. cbn [f_owned mkFd].
      rewrite zmem_zrem, (H3 _ Hk1). cbn.
      destruct (c_fd (getc s cid) =? c_fd (getc s k)) eqn:E; [|reflexivity].
      exfalso. apply Hk2. apply H4; auto. lia.
    + intros c1 c2 Hc1 Hc2. apply H4; apply Hh; auto.
Qed.

Lemma RelQ_close_result_P : forall L P N m cs s cid fd n,
  RelQ L (cid :: P) N (Some ("close", fd)) (m, cs) s ->
  c_fd (getc s cid) = fd ->
  RelQ L P (cid :: N) None (m, if f_dead cs then cs else fd_result cs n) s.
Proof.
  intros L P N m cs s cid fd n [HR HF] Hfd. cbn [fst snd] in *. rdestr HR.
  change (promised (cid :: P) s) with (cid :: promised P s) in *.
  inversion Rpn as [|? ? HniP HndP]; subst.
  destruct (Rp cid (or_introl eq_refl)) as [Hcop [Hcph _]].
  split; cbn [fst snd].
  - constructor; auto.
    + intros k Hk. destruct (Rf _ Hk) as [H1 [H2 [H3 H4]]]. repeat split; auto.
      * intros Hc. apply H3. right. exact Hc.
      * intros [<-|Hc]; [apply H3; left; reflexivity|tauto].
    + intros k Hk. apply Rp. right. exact Hk.
    + intros k [<-|Hk]; [split; auto|].
      destruct (Rn _ Hk) as [H1 H2]. split; [exact H1|]. intros Hc. apply H2. right. exact Hc.
  - destruct HF as [HF|[H1 H2 H3 H4]]; [left; rewrite HF; exact HF|].
    destruct (f_dead cs) eqn:Hd; [left; exact Hd|right].
    unfold fd_result. rewrite H1. cbn.
    assert (Hh : forall k, holder L P s k -> holder L (cid :: P) s k /\ k <> cid).
    { intros k [Hk|[Hk|Hk]].
      - split; [left; exact Hk|congruence].
      - split; [right; left; exact Hk|]. intros ->. rewrite (RL _ Hk) in Hcph. discriminate.
      - split; [right; right; right; exact Hk|]. intros ->. tauto. }
    assert (Hcid : holder L (cid :: P) s cid) by (right; right; left; reflexivity).
    constructor; auto.
    + intros k Hk. destruct (Hh _ Hk) as [Hk1 Hk2]. cbn [f_owned mkFd].
      rewrite zmem_zrem, (H3 _ Hk1). cbn.
      destruct (c_fd (getc s cid) =? c_fd (getc s k)) eqn:E; [|reflexivity].
      exfalso. apply Hk2. apply H4; auto. lia.
    + intros c1 c2 Hc1 Hc2. apply H4; apply Hh; auto.
Qed.

(* any other result line *)
Lemma RelQ_plain_result : forall L P N m cs s nm fd n,
  sym_eqb nm "close" = false -> sym_eqb nm "accept" = false ->
  RelQ L P N (Some (nm, fd)) (m, cs) s ->
  RelQ L P N None (m, if f_dead cs then cs else fd_result cs n) s.
Proof.
  intros L P N m cs s nm fd n Hc Ha [HR HF]. split; [exact HR|]. cbn [fst snd] in *.
  destruct HF as [HF|[H1 H2 H3 H4]]; [left; rewrite HF; exact HF|].
  destruct (f_dead cs) eqn:Hd; [left; exact Hd|right].
  unfold fd_result. rewrite H1, Hc, Ha. cbn. constructor; auto.
Qed.

Lemma Rst_drop_N : forall L P N m s k, Rst L P (k :: N) m s -> Rst L P N m s.
Proof.
  intros L P N m s k H. rdestr H. constructor; auto.
  - intros c Hc. destruct (Rf _ Hc) as [H1 [H2 [H3 H4]]]. repeat split; auto.
    intros Hi. apply H4. right. exact Hi.
  - intros c Hc. apply Rn. right. exact Hc.
Qed.

Lemma RelQ_drop_N : forall L P N q c s k, RelQ L P (k :: N) q c s -> RelQ L P N q c s.
Proof. intros L P N q c s k [H1 H2]. split; [eapply Rst_drop_N; eauto|exact H2]. Qed.

(* ------------------------------------------------------------------ *)
(* registration + OnOpen (top level: nothing is inside el_close) *)

Lemma RelQ_open : forall P N m cs s cid fd0,
  RelQ [] (cid :: P) N None (m, cs) s ->
  c_fd (getc s cid) = fd0 -> regs s fd0 = None ->
  ph m cid = PNew /\
  RelQ [] P N None (aset cid POpen m, cs)
       (setc (set_reg s (aset fd0 cid (l_reg s))) cid (c_set_opened (getc s cid) true)).
Proof.
  intros P N m cs s cid fd0 [HR HF] Hfd Hnone. cbn [fst snd] in *. rdestr HR.
  change (promised (cid :: P) s) with (cid :: promised P s) in *.
  inversion Rpn as [|? ? HniP HndP]; subst.
  destruct (Rp cid (or_introl eq_refl)) as [Hcop [Hcph Hcur]].
  split; [exact Hcph|].
  set (fd0 := c_fd (getc s cid)) in *.
  set (s' := setc (set_reg s (aset fd0 cid (l_reg s))) cid (c_set_opened (getc s cid) true)).
  assert (Hg : forall k, getc s' k = if k =? cid then c_set_opened (getc s cid) true else getc s k).
  { intros k. unfold s'. rewrite getc_setc. reflexivity. }
  assert (Hregs : forall fd', regs s' fd' = if fd' =? fd0 then Some cid else regs s fd').
  { intros fd'. unfold regs, s'. cbn [l_reg setc set_reg]. apply alookup_aset. }
  assert (Hfdk : forall k, c_fd (getc s' k) = c_fd (getc s k)).
  { intros k. rewrite Hg. destruct (k =? cid) eqn:E; [|reflexivity].
    assert (k = cid) by lia. subst. reflexivity. }
  assert (Hopk : forall k, c_opened (getc s' k) = true -> k = cid \/ (k <> cid /\ c_opened (getc s k) = true)).
  { intros k. rewrite Hg. destruct (k =? cid) eqn:E; [left; lia|right; split; [lia|auto]]. }
  assert (Hlt : cid < l_next s).
  { destruct (Z_lt_le_dec cid (l_next s)) as [Hl|Hl]; [exact Hl|].
    destruct (Rf _ Hl) as [_ [_ [Hx _]]]. exfalso. apply Hx. left. reflexivity. }
  split; cbn [fst snd].
  - constructor;
      change (promised P s') with (promised P s);
      change (l_next s') with (l_next s);
      change (l_listeners s') with (l_listeners s).
    + intros k Hk. right. split; [tauto|]. rewrite Hfdk, Hregs, ph_aset.
      destruct (Hopk _ Hk) as [->|[Hne Ho]].
      * fold fd0. rewrite !Z.eqb_refl. auto.
      * destruct (Ro _ Ho) as [[[] _]|[_ [Hr Hp]]].
        assert (k =? cid = false) by lia. rewrite H. split; [|exact Hp].
        destruct (c_fd (getc s k) =? fd0) eqn:E; [|exact Hr].
        assert (c_fd (getc s k) = fd0) by lia. unfold regs in *. congruence.
    + intros k. rewrite Hg, ph_aset. destruct (k =? cid); [discriminate|apply Rc].
    + intros fd' k. rewrite Hregs, Hfdk. destruct (fd' =? fd0) eqn:E.
      * intros Hs. inversion Hs; subst k. split; [unfold fd0; lia|]. rewrite Hg, Z.eqb_refl. reflexivity.
      * intros Hs. destruct (Rr _ _ Hs) as [H1 H2]. split; [exact H1|]. rewrite Hg.
        destruct (k =? cid) eqn:E2; [reflexivity|exact H2].
    + rewrite count_open_aset; auto. rewrite Hcph. cbn [isopen]. unfold s'. cbn [l_reg setc set_reg].
      unfold aset. rewrite aremove_id; [|exact Hnone]. rewrite zlen_cons. lia.
    + apply nodup_aset; auto.
    + unfold s'. cbn [l_reg setc set_reg]. apply nodup_aset; auto.
    + intros k [].
    + constructor.
    + intros k Hk. destruct (Rf _ Hk) as [H1 [H2 [H3 H4]]].
      rewrite Hg, ph_aset. assert (k =? cid = false) by lia. rewrite H. repeat split; auto.
      intros Hc. apply H3. right. exact Hc.
    + intros k Hk. assert (k <> cid) by (intros ->; tauto).
      rewrite Hg, ph_aset. assert (k =? cid = false) by lia. rewrite H0. apply Rp. right. exact Hk.
    + exact HndP.
    + intros k. rewrite Hfdk, Hg. destruct (k =? cid) eqn:E; [|apply Ru].
      assert (k = cid) by lia. subst k. cbn [c_udp c_remote c_set_opened]. intros Hu Hr.
      rewrite Hu, Hr in Hcur. discriminate.
    + intros k Hk. destruct (Rn _ Hk) as [H1 H2].
      assert (k <> cid) by (intros ->; apply H2; left; reflexivity).
      rewrite ph_aset. assert (k =? cid = false) by lia. rewrite H0. split; [exact H1|].
      intros Hc. apply H2. right. exact Hc.
  - destruct HF as [HF|[H1 H2 H3 H4]]; [left; exact HF|right].
    assert (Hh : forall k, holder [] P s' k -> holder [] (cid :: P) s k).
    { intros k [Hk|[[]|Hk]].
      - destruct (Hopk _ Hk) as [->|[_ Ho]]; [right; right; left; reflexivity|left; exact Ho].
      - right; right; right; exact Hk. }
    constructor; auto.
    + intros k Hk. rewrite Hfdk. apply H3. apply Hh. exact Hk.
    + intros c1 c2 Hc1 Hc2. rewrite !Hfdk. apply H4; apply Hh; auto.
Qed.

(* ------------------------------------------------------------------ *)
(* a new connection record under the next identity *)

Definition new_state (s : lstate) (c : conn) : lstate :=
  set_next (setc s (l_next s) c) (l_next s + 1).

Lemma getc_new_state : forall s c k,
  getc (new_state s c) k = if k =? l_next s then c else getc s k.
Proof. intros. unfold new_state. change (getc (set_next ?x ?n) k) with (getc x k). apply getc_setc. Qed.

Lemma Rst_newconn : forall L P N m s c (toP : bool),
  Rst L P N m s -> c_opened c = false ->
  (if toP then c_udp c && c_remote c = false
   else c_udp c = true -> c_remote c = true -> In (c_fd c) (map fst (l_listeners s))) ->
  Rst L (if toP then l_next s :: P else P) (if toP then N else l_next s :: N) m (new_state s c).
Proof.
  intros L P N m s c toP HR Hop Hc. rdestr HR.
  set (cid := l_next s) in *.
  assert (Hg := getc_new_state s c).
  destruct (Rf cid (Z.le_refl _)) as [Hf1 [Hf2 [Hf3 Hf4]]].
  assert (HprP : forall P0, promised P0 (new_state s c) = promised P0 s) by reflexivity.
  constructor; change (regs (new_state s c)) with (regs s);
    change (l_reg (new_state s c)) with (l_reg s);
    change (l_listeners (new_state s c)) with (l_listeners s);
    change (l_next (new_state s c)) with (cid + 1); rewrite ?HprP; auto.
  - intros k. rewrite Hg. fold cid. destruct (k =? cid); [congruence|apply Ro].
  - intros k. rewrite Hg. fold cid. destruct (k =? cid) eqn:E; [|apply Rc].
    assert (k = cid) by lia. subst. intros _. congruence.
  - intros fd k Hk. destruct (Rr _ _ Hk) as [H1 H2]. rewrite Hg. fold cid.
    destruct (k =? cid) eqn:E; [|auto]. assert (k = cid) by lia. subst. congruence.
  - intros k Hk. assert (Hk' : cid <= k) by lia. destruct (Rf _ Hk') as [H1 [H2 [H3 H4]]].
    rewrite Hg. fold cid. assert (k =? cid = false) by lia. rewrite H.
    destruct toP; repeat split; auto.
    + change (promised (cid :: P) s) with (cid :: promised P s). intros [Hx|Hx]; [lia|tauto].
    + intros [Hx|Hx]; [lia|tauto].
  - destruct toP.
    + change (promised (cid :: P) s) with (cid :: promised P s).
      intros k [<-|Hk]; rewrite Hg; fold cid.
      * rewrite Z.eqb_refl. auto.
      * destruct (k =? cid) eqn:E; [assert (k = cid) by lia; subst; tauto|apply Rp; exact Hk].
    + intros k Hk. rewrite Hg. fold cid.
      destruct (k =? cid) eqn:E; [assert (k = cid) by lia; subst; tauto|apply Rp; exact Hk].
  - destruct toP; [|exact Rpn].
    change (promised (cid :: P) s) with (cid :: promised P s). constructor; auto.
  - intros k. rewrite Hg. fold cid. destruct (k =? cid) eqn:E; [|apply Ru].
    destruct toP; [|exact Hc]. intros Hu Hr. rewrite Hu, Hr in Hc. discriminate.
  - destruct toP.
    + intros k Hk. destruct (Rn _ Hk) as [H1 H2]. split; [exact H1|].
      change (promised (cid :: P) s) with (cid :: promised P s).
      intros [<-|Hx]; tauto.
    + intros k [<-|Hk]; [split; auto|apply Rn; exact Hk].
Qed.

Lemma Led_newconn : forall L P N m q cs s c (toP : bool),
  Rst L P N m s -> Led L P q cs s -> c_opened c = false ->
  (toP = true -> zmem (c_fd c) (f_owned cs) = true /\
                 forall k, holder L P s k -> c_fd (getc s k) <> c_fd c) ->
  Led L (if toP then l_next s :: P else P) q cs (new_state s c).
Proof.
  intros L P N m q cs s c toP HR [H1 H2 H3 H4] Hop Hc. rdestr HR.
  set (cid := l_next s) in *.
  assert (Hg := getc_new_state s c).
  destruct (Rf cid (Z.le_refl _)) as [Hf1 [Hf2 [Hf3 Hf4]]].
  assert (HnL : ~ In cid L) by (intros Hi; rewrite (RL _ Hi) in Hf2; discriminate).
  assert (Hh : forall k, holder L (if toP then cid :: P else P) (new_state s c) k ->
                (toP = true /\ k = cid) \/ (k <> cid /\ holder L P s k)).
  { intros k Hk. destruct (Z.eq_dec k cid) as [->|Hne].
    - left. split; [|reflexivity]. destruct toP; [reflexivity|]. exfalso.
      destruct Hk as [Hk|[Hk|Hk]]; [|tauto|tauto].
      rewrite Hg in Hk. fold cid in Hk. rewrite Z.eqb_refl in Hk. congruence.
    - right. split; [exact Hne|]. unfold holder in *. rewrite Hg in Hk. fold cid in Hk.
      assert (k =? cid = false) by lia. rewrite H in Hk.
      destruct Hk as [Hk|[Hk|Hk]]; auto.
      destruct toP; [|auto]. change (promised (cid :: P) (new_state s c)) with (cid :: promised P s) in Hk.
      destruct Hk as [Hk|Hk]; [congruence|auto]. }
  assert (Hfd : forall k, k <> cid -> c_fd (getc (new_state s c) k) = c_fd (getc s k)).
  { intros k Hk. rewrite Hg. fold cid. assert (k =? cid = false) by lia. rewrite H. reflexivity. }
  assert (Hfc : c_fd (getc (new_state s c) cid) = c_fd c).
  { rewrite Hg. fold cid. rewrite Z.eqb_refl. reflexivity. }
  constructor; auto.
  - intros k Hk. destruct (Hh _ Hk) as [[Ht ->]|[Hne Hk']].
    + rewrite Hfc. apply Hc. exact Ht.
    + rewrite Hfd; auto.
  - intros c1 c2 Hc1 Hc2.
    destruct (Hh _ Hc1) as [[Ht1 ->]|[Hne1 Hk1]]; destruct (Hh _ Hc2) as [[Ht2 ->]|[Hne2 Hk2]]; auto.
    + rewrite Hfc, Hfd; auto. intros He. exfalso. destruct (Hc Ht1) as [_ Hx]. apply (Hx _ Hk2). auto.
    + rewrite Hfc, Hfd; auto. intros He. exfalso. destruct (Hc Ht2) as [_ Hx]. apply (Hx _ Hk1). auto.
    + rewrite !Hfd; auto.
Qed.

(* a descriptor handed to the loop: not owned before (else the ledger goes dead) *)
Lemma Led_fresh : forall L P q cs s fd,
  f_dead cs = false -> Led L P q cs s ->
  f_dead (fresh_fd cs fd) = true \/
  (f_dead (fresh_fd cs fd) = false /\ Led L P q (fresh_fd cs fd) s /\
   zmem fd (f_owned (fresh_fd cs fd)) = true /\
   forall k, holder L P s k -> c_fd (getc s k) <> fd).
Proof.
  intros L P q cs s fd Hd [H1 H2 H3 H4]. unfold fresh_fd.
  destruct (owns cs fd) eqn:Ho; [left; reflexivity|right].
  split; [reflexivity|]. unfold owns in Ho. apply Bool.orb_false_iff in Ho. destruct Ho as [Ho1 Ho2].
  split; [|split].
  - constructor; auto. intros k Hk. cbn [f_owned mkFd]. unfold zmem in *. cbn [existsb].
    rewrite (H3 _ Hk). apply Bool.orb_true_r.
  - cbn [f_owned mkFd]. unfold zmem. cbn [existsb]. rewrite Z.eqb_refl. reflexivity.
  - intros k Hk He. rewrite <- He, (H3 _ Hk) in Ho1. discriminate.
Qed.

Lemma RelQ_newconn_fresh : forall L P N q m cs s c,
  RelQ L P N q (m, cs) s -> c_opened c = false -> c_udp c && c_remote c = false ->
  RelQ L (l_next s :: P) N q (m, if f_dead cs then cs else fresh_fd cs (c_fd c)) (new_state s c).
Proof.
  intros L P N q m cs s c [HR HF] Hop Hc. cbn [fst snd] in *.
  split; cbn [fst snd]; [apply (Rst_newconn L P N m s c true); auto|].
  destruct HF as [HF|HF]; [left; rewrite HF; exact HF|].
  destruct (f_dead cs) eqn:Hd; [left; exact Hd|].
  destruct (Led_fresh L P q cs s (c_fd c) Hd HF) as [Hx|[Hx1 [Hx2 [Hx3 Hx4]]]]; [left; exact Hx|right].
  apply (Led_newconn L P N m q _ s c true); auto.
Qed.

(* ------------------------------------------------------------------ *)
(* requests of other goroutines met while pulling input *)

Lemma frame_queues : forall s s1 b t f, frame s s1 -> frame s (set_flag (enqueue s1 b t) f).
Proof.
  intros s s1 b t f H. unfold frame in *. unfold enqueue.
  destruct (b && (zlen (l_urgent s1) >=? l_thr s1)); exact H.
Qed.

Lemma plain_cases : forall t, (forall c cb, t <> TRegister c cb) -> plain_task t.
Proof. intros t H. destruct t; try reflexivity. exfalso. eapply H; eauto. Qed.

Lemma apply_async_cases : forall s ln la s',
  apply_async s (ln, la) = Some s' ->
  ((ln = "async" \/ ln = "stop") /\ exists b t, plain_task t /\ s' = set_flag (enqueue s b t) true) \/
  (ln = "accepted" /\ exists fd, la = [AInt fd] /\
     s' = set_flag (enqueue (new_state s (mkConn fd false false [] [] [] false true)) false
                            (TRegister (l_next s) false)) true) \/
  ((ln = "enroll" \/ ln = "dial") /\ exists fd udp b, la = [AInt fd; AInt udp] /\
     s' = set_flag (enqueue (new_state s (mkConn fd false false [] [] [] (udp =? 1) false)) b
                            (TRegister (l_next s) true)) true).
Proof.
  intros s ln la s' H.
  destruct (String.eqb_spec ln "async") as [->|N1].
  - left. split; [auto|]. cbv beta iota zeta delta [apply_async] in H.
    destruct la as [|[z|b|k] la]; try discriminate.
    destruct la as [|[cid|b|k2] rest]; try discriminate.
    destruct (sym_eqb k "write").
    { destruct rest as [|[z|d|k2] rest]; try discriminate.
      destruct rest as [|cb rest]; try discriminate. destruct rest; try discriminate.
      inversion H. eexists _, _. split; [|reflexivity]. reflexivity. }
    destruct (sym_eqb k "writev").
    { destruct rest as [|cb segs]; try discriminate.
      inversion H. eexists _, _. split; [|reflexivity]. reflexivity. }
    destruct (sym_eqb k "wake").
    { destruct rest as [|cb rest]; try discriminate. destruct rest; try discriminate.
      inversion H. eexists _, _. split; [|reflexivity]. reflexivity. }
    destruct (sym_eqb k "close").
    { destruct rest as [|cb rest]; try discriminate. destruct rest; try discriminate.
      inversion H. eexists _, _. split; [|reflexivity]. reflexivity. }
    destruct (sym_eqb k "exec"); [|discriminate].
    inversion H. eexists _, _. split; [|reflexivity]. reflexivity.
  - destruct (String.eqb_spec ln "accepted") as [->|N2].
    + right. left. split; [reflexivity|].
      destruct la as [|[fd|b|k] la]; try discriminate. destruct la; try discriminate.
      cbv beta iota zeta delta [apply_async] in H. inversion H. eexists. split; reflexivity.
    + destruct (String.eqb_spec ln "enroll") as [->|N3].
      * right. right. split; [left; reflexivity|].
        destruct la as [|[fd|b|k] la]; try discriminate.
        destruct la as [|[udp|b|k] la]; try discriminate. destruct la; try discriminate.
        cbv beta iota zeta delta [apply_async] in H. inversion H. eexists _, _, _. split; reflexivity.
      * destruct (String.eqb_spec ln "stop") as [->|N4].
        -- left. split; [auto|]. destruct la; try discriminate.
           cbv beta iota zeta delta [apply_async] in H. inversion H. eexists _, _. split; [|reflexivity]. reflexivity.
        -- destruct (String.eqb_spec ln "dial") as [->|N5].
           ++ right. right. split; [right; reflexivity|].
              destruct la as [|[fd|b|k] la]; try discriminate.
              destruct la as [|[udp|b|k] la]; try discriminate. destruct la; try discriminate.
              cbv beta iota zeta delta [apply_async] in H. inversion H. eexists _, _, _. split; reflexivity.
           ++ exfalso. assert (Hn : apply_async s (ln, la) = None) by (unfold apply_async; sdef ln).
              congruence.
Qed.

Lemma RelQ_async : forall L P N q c s l s',
  RelQ L P N q c s -> apply_async s l = Some s' ->
  exists c', pstep c (EIn l) = Some c' /\ RelQ L P N q c' s' /\ fst c' = fst c /\ frame s s'.
Proof.
  intros L P N q [m cs] s [ln la] s' HR Ha.
  destruct (pstep_in m cs (ln, la)) as [cs' [Hfd Hp]].
  exists (m, cs'). split; [exact Hp|]. cbn [fst].
  destruct (apply_async_cases _ _ _ _ Ha) as [[Hl [b [t [Ht ->]]]]|[[-> [fd [-> ->]]]|[Hl [fd [udp [b [-> ->]]]]]]].
  - assert (cs' = cs).
    { rewrite fd_in_other in Hfd; [congruence| | | |]; destruct Hl; subst; discriminate. }
    subst cs'. split; [|split; [reflexivity|apply frame_queues, frame_refl]].
    apply RelQ_set_flag, RelQ_enqueue; auto.
  - rewrite fd_in_accepted in Hfd. inversion Hfd; subst cs'.
    split; [|split; [reflexivity|apply frame_queues, frame_new_conn]].
    apply RelQ_set_flag, RelQ_enqueue_reg.
    apply (RelQ_newconn_fresh L P N q m cs s (mkConn fd false false [] [] [] false true)); auto.
  - assert (Hfd' : Some cs' = Some (if f_dead cs then cs else fresh_fd cs fd)).
    { rewrite <- Hfd. destruct Hl; subst ln; [apply fd_in_enroll|apply fd_in_dial]. }
    inversion Hfd'; subst cs'.
    split; [|split; [reflexivity|apply frame_queues, frame_new_conn]].
    apply RelQ_set_flag, RelQ_enqueue_reg.
    apply (RelQ_newconn_fresh L P N q m cs s (mkConn fd false false [] [] [] (udp =? 1) false)); auto.
    cbn. apply Bool.andb_false_r.
Qed.
