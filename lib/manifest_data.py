import glob, os, runpy

NOTES = ("Machine-checked proof in Coq 8.16.1 on hand-written executable models; every run re-checks the theorems, "
         "regenerates translator obligations from /repo, and replays implementation traces through the extracted model. "
         "See DESIGN.md.")

ALL = ["C%02d" % i for i in range(1, 21)]
# properties whose machinery has been completed and verified by the orchestrator
READY = [l.strip() for l in open(os.path.join(os.path.dirname(os.path.abspath(__file__)), "ready.list")) if l.strip()]
CHECKS, ENGINES = {}, []
_seen = {}
for _f in sorted(glob.glob(os.path.join(os.path.dirname(os.path.abspath(__file__)), "manifest.d", "C*.py"))):
    if os.path.basename(_f)[:-3] not in READY:
        continue
    _m = runpy.run_path(_f)
    CHECKS[os.path.basename(_f)[:-3]] = _m["CHECK"]
    _e = _m.get("ENGINE")
    if _e:
        if _e["name"] in _seen:
            _seen[_e["name"]]["serves_properties"] = sorted(set(_seen[_e["name"]]["serves_properties"]) | set(_e["serves_properties"]))
        else:
            _seen[_e["name"]] = _e
            ENGINES.append(_e)

_WIP = "not yet built (work in progress; planned per DESIGN.md section 9)"
_REASONS = {}
NOT_APPLICABLE = {p: _REASONS.get(p, _WIP) for p in ALL if p not in CHECKS}
