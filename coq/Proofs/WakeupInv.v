(* The inductive invariant of the wake-up protocol (DESIGN Appendix A.5):
   K /\ I0 /\ I1 /\ G_W /\ G_chkU, stated on the abstract view of a state, the
   abstract steps that preserve it, and the proof that every step of the model
   (every producer step, every loop step, the loop's re-entrant Trigger calls,
   environment steps) is one of those abstract steps.  Unbounded producers,
   requests, batch limit. *)
From GV Require Import Lib.Trace Lib.Interleave Model.Wakeup Proofs.WakeupBase.
From Coq Require Import Lia Arith ZifyBool.
Open Scope Z_scope.
Open Scope list_scope.

(* ---- the invariant on views ---- *)
Definition AInv (v : aview) : Prop :=
  (a_flag v = 0 \/ a_flag v = 1) /\
  (* K: C13's length_lag, one dequeuer *)
  a_lenU v = a_nU v - a_p1U v + a_dU v /\
  a_lenL v = a_nL v - a_p1L v + a_dL v /\
  (* I0: only the loop resets the flag *)
  (a_cls v = KWr -> a_flag v = 1) /\
  (* I1: a set flag is backed by a pending edge, a thread that still has to write, or the loop not having stored 0 yet *)
  (a_flag v = 1 -> a_E v = true \/ 0 < a_p3 v \/ a_cls v = KWr \/ a_cls v = KB) /\
  (* G_W *)
  (a_cls v = KW -> a_flag v = 0 -> 0 < a_nU v + a_nL v ->
     a_E v = true \/ 0 < a_p1U v + a_p1L v + a_p2 v + a_p3 v) /\
  (* G_chkU *)
  (a_cls v = KChkU -> a_flag v = 0 -> 0 < a_nL v ->
     a_E v = true \/ 0 < a_p1U v + a_p1L v + a_p2 v + a_p3 v).

(* ---- abstract steps ---- *)
Inductive astep : aview -> aview -> Prop :=
| A_nop : forall v, astep v v
| A_linkU : forall f E nU nL lU lL a b c d dU dL k,
    astep (mkA f E nU nL lU lL a b c d dU dL k) (mkA f E (nU + 1) nL lU lL (a + 1) b c d dU dL k)
| A_linkL : forall f E nU nL lU lL a b c d dU dL k,
    astep (mkA f E nU nL lU lL a b c d dU dL k) (mkA f E nU (nL + 1) lU lL a (b + 1) c d dU dL k)
| A_countU : forall f E nU nL lU lL a b c d dU dL k,
    astep (mkA f E nU nL lU lL a b c d dU dL k) (mkA f E nU nL (lU + 1) lL (a - 1) b (c + 1) d dU dL k)
| A_countL : forall f E nU nL lU lL a b c d dU dL k,
    astep (mkA f E nU nL lU lL a b c d dU dL k) (mkA f E nU nL lU (lL + 1) a (b - 1) (c + 1) d dU dL k)
| A_caswin : forall E nU nL lU lL a b c d dU dL k,
    astep (mkA 0 E nU nL lU lL a b c d dU dL k) (mkA 1 E nU nL lU lL a b (c - 1) (d + 1) dU dL k)
| A_caslose : forall f E nU nL lU lL a b c d dU dL k, f <> 0 ->
    astep (mkA f E nU nL lU lL a b c d dU dL k) (mkA f E nU nL lU lL a b (c - 1) d dU dL k)
| A_writeok : forall f E nU nL lU lL a b c d dU dL k,
    astep (mkA f E nU nL lU lL a b c d dU dL k) (mkA f true nU nL lU lL a b c (d - 1) dU dL k)
| A_drop : forall f E E' nU nL lU lL a b c d dU dL k, (0 < d \/ k = KWr) -> (E' = true -> E = true) ->
    astep (mkA f E nU nL lU lL a b c d dU dL k) (mkA f E' nU nL lU lL a b c d dU dL k)
| A_raise : forall f E nU nL lU lL a b c d dU dL k,
    astep (mkA f E nU nL lU lL a b c d dU dL k) (mkA f true nU nL lU lL a b c d dU dL k)
| A_wait : forall f E nU nL lU lL a b c d dU dL,
    astep (mkA f E nU nL lU lL a b c d dU dL KW) (mkA f false nU nL lU lL a b c d dU dL (if E then KB else KW))
| A_unlinkU : forall f E nU nL lU lL a b c d,
    astep (mkA f E nU nL lU lL a b c d 0 0 KB) (mkA f E (nU - 1) nL lU lL a b c d 1 0 KB)
| A_unlinkL : forall f E nU nL lU lL a b c d,
    astep (mkA f E nU nL lU lL a b c d 0 0 KB) (mkA f E nU (nL - 1) lU lL a b c d 0 1 KB)
| A_decU : forall f E nU nL lU lL a b c d,
    astep (mkA f E nU nL lU lL a b c d 1 0 KB) (mkA f E nU nL (lU - 1) lL a b c d 0 0 KB)
| A_decL : forall f E nU nL lU lL a b c d,
    astep (mkA f E nU nL lU lL a b c d 0 1 KB) (mkA f E nU nL lU (lL - 1) a b c d 0 0 KB)
| A_store : forall f E nU nL lU lL a b c d dU dL,
    astep (mkA f E nU nL lU lL a b c d dU dL KB) (mkA 0 E nU nL lU lL a b c d dU dL KChkL)
| A_chkL : forall f E nU nL lU lL a b c d dU dL,
    astep (mkA f E nU nL lU lL a b c d dU dL KChkL) (mkA f E nU nL lU lL a b c d dU dL (if lL =? 0 then KChkU else KCas))
| A_chkU : forall f E nU nL lU lL a b c d dU dL,
    astep (mkA f E nU nL lU lL a b c d dU dL KChkU) (mkA f E nU nL lU lL a b c d dU dL (if lU =? 0 then KW else KCas))
| A_ccaswin : forall E nU nL lU lL a b c d dU dL,
    astep (mkA 0 E nU nL lU lL a b c d dU dL KCas) (mkA 1 E nU nL lU lL a b c d dU dL KWr)
| A_ccaslose : forall f E nU nL lU lL a b c d dU dL, f <> 0 ->
    astep (mkA f E nU nL lU lL a b c d dU dL KCas) (mkA f E nU nL lU lL a b c d dU dL KW)
| A_cwrite : forall f E nU nL lU lL a b c d dU dL,
    astep (mkA f E nU nL lU lL a b c d dU dL KWr) (mkA f true nU nL lU lL a b c d dU dL KW).

Lemma astep_preserves : forall v v', WF v -> WF v' -> AInv v -> astep v v' -> AInv v'.
Proof.
  intros v v' W W' I S.
  destruct S; unfold AInv, WF in *;
    cbn [a_flag a_E a_nU a_nL a_lenU a_lenL a_p1U a_p1L a_p2 a_p3 a_dU a_dL a_cls] in *;
    unfold KW, KB, KChkL, KChkU, KCas, KWr in *;
    try exact I.
  all: destruct I as (F & KU & KL & I0 & I1 & GW & GC).
  all: destruct W as (W1 & W2 & W3 & W4 & W5 & W6 & W7 & W8 & W9).
  all: destruct W' as (V1 & V2 & V3 & V4 & V5 & V6 & V7 & V8 & V9).
  all: clear V7 V8 V9 W7 W8.
  all: try (destruct F as [F|F]; try subst f; try discriminate F).
  all: try (destruct E; [|]); try (destruct E'; [|]).
  all: try match goal with |- context [if ?b then _ else _] => destruct b eqn:? end.
  all: splits.
  all: intros; lia.
Qed.

(* ---- the concrete steps are abstract steps ---- *)

(* a state update that leaves con alone leaves d and the class alone *)
Lemma d_cls_con : forall s s', con s' = con s ->
  d_q QU s' = d_q QU s /\ d_q QL s' = d_q QL s /\ cls_of s' = cls_of s.
Proof. intros s s' H. unfold d_q, cls_of. rewrite H. auto. Qed.

Lemma sane_add_len : forall s q d s1 v, add_len s q d = (s1, v) -> g_ovf (w_gh s1) = false ->
  g_ovf (w_gh s) = false /\ v = qlen q (w_sh s) + d /\
  w_sh s1 = sh_qlen (w_sh s) q (qlen q (w_sh s) + d) /\ trigs s1 = trigs s /\ con s1 = con s /\
  w_env s1 = w_env s /\ g_fault (w_gh s1) = g_fault (w_gh s).
Proof.
  intros s q d s1 v H Ho. unfold add_len in H. inv H. cbn in Ho.
  apply orb_false_elim in Ho. destruct Ho as [Ho1 Ho2]. apply negb_false_iff in Ho2.
  rewrite (wrap32_small _ Ho2). cbn. splits; auto.
Qed.

Ltac view_eq := unfold view; cbn [w_sh trigs con set_sh set_trig set_trigs set_con set_gh set_env set_cpc
  flag eff_edge edge efd_cnt itemsU itemsL lenU lenL sh_items sh_qlen sh_flag sh_efd items qlen].

Lemma eff_edge_write : forall x x1, efd_write x = (x1, WOk) -> 0 <= efd_cnt x ->
  eff_edge x1 = true /\ itemsU x1 = itemsU x /\ itemsL x1 = itemsL x /\ lenU x1 = lenU x /\ lenL x1 = lenL x /\
  flag x1 = flag x /\ 0 <= efd_cnt x1.
Proof.
  intros x x1 H Hc. unfold efd_write in H. destruct (efd_cnt x + 1 >? efd_max); [discriminate|]. inv H.
  unfold eff_edge; cbn. splits; auto; lia.
Qed.

Lemma efd_write_res : forall x, snd (efd_write x) = WOk \/ (snd (efd_write x) = WAgain /\ fst (efd_write x) = x).
Proof. intro x. unfold efd_write. destruct (efd_cnt x + 1 >? efd_max); cbn; auto. Qed.

Lemma efd_read_frame : forall x x1 v, efd_read x = (x1, v) ->
  itemsU x1 = itemsU x /\ itemsL x1 = itemsL x /\ lenU x1 = lenU x /\ lenL x1 = lenL x /\ flag x1 = flag x /\
  (eff_edge x1 = true -> eff_edge x = true) /\ (0 <= efd_cnt x -> 0 <= efd_cnt x1).
Proof.
  intros x x1 v H. unfold efd_read in H. destruct (efd_cnt x =? 0) eqn:E; inv H; cbn; splits; auto.
  - unfold eff_edge; cbn. rewrite andb_false_r. discriminate.
  - lia.
Qed.

(* the eventfd counter never goes negative *)
Definition cnt_ok (s : wstate) : Prop := 0 <= efd_cnt (w_sh s).

(* one scheduling point of a Trigger call *)
Lemma trig_step_astep : forall s t c s1 o done,
  trig_step s t c = (s1, o, done) -> sane s1 -> cnt_ok s ->
  sane s /\ cnt_ok s1 /\ con s1 = con s /\ w_env s1 = w_env s /\
  (done = true -> t_pc (get_trig (trigs s1) t) = TIdle) /\
  (forall t', t' <> t -> get_trig (trigs s1) t' = get_trig (trigs s) t') /\
  astep (view s) (view s1).
Proof.
  intros s t c s1 o done H [So Sf] Hc. unfold trig_step in H.
  destruct (get_trig (trigs s) t) as [p x] eqn:Eth. cbn [t_pc t_task] in H.
  assert (Wth : forall w : trig -> Z, w (get_trig (trigs s) t) = w (mkTrig p x)) by (intro w; rewrite Eth; reflexivity).
  destruct p as [| |q|q| | |]; destruct c as [order| | |sp|v|k sc|k l];
    try (inv H; splits; [split; assumption|exact Hc|reflexivity|reflexivity|discriminate|reflexivity|apply A_nop]).
  - (* TLen *)
    inv H. splits; [split; assumption|exact Hc|reflexivity|reflexivity|discriminate| |].
    + intros t' Hne. cbn. apply get_put_other; congruence.
    + replace (view (set_trig s t _)) with (view s); [apply A_nop|].
      symmetry. unfold view. rewrite !n_p1_set, n_p2_set, n_p3_set, !Wth.
      destruct (d_cls_con s (set_trig s t {| t_pc := TEnq (if lenU (w_sh s) >=? e_thr (w_env s) then QL else QU); t_task := x |}) eq_refl) as (A & B & C).
      rewrite A, B, C. cbn [w_sh set_trig set_trigs]. unfold w_p1, w_p2, w_p3; cbn [t_pc].
      destruct (lenU (w_sh s) >=? e_thr (w_env s)); f_equal; lia.
  - (* TEnq: link *)
    inv H. splits; [split; assumption|exact Hc|reflexivity|reflexivity|discriminate| |].
    + intros t' Hne. cbn. apply get_put_other; congruence.
    + unfold view. rewrite !n_p1_set, n_p2_set, n_p3_set.
      cbn [trigs set_gh set_sh]. rewrite !Wth.
      match goal with |- astep _ (mkA _ _ _ _ _ _ _ _ _ _ ?du ?dl ?k) =>
        replace du with (d_q QU s) by reflexivity; replace dl with (d_q QL s) by reflexivity;
        replace k with (cls_of s) by reflexivity end.
      unfold n_p1, n_p2, n_p3. cbn [trigs set_gh set_sh w_sh set_trig set_trigs].
      unfold w_p1, w_p2, w_p3; cbn [t_pc].
      destruct q; cbn [sh_items items flag eff_edge edge efd_cnt itemsU itemsL lenU lenL].
      * rewrite zlen_app1.
        replace (tot (w_p1 QU) (trigs s) - 0 + 1) with (tot (w_p1 QU) (trigs s) + 1) by lia.
        replace (tot (w_p1 QL) (trigs s) - 0 + 0) with (tot (w_p1 QL) (trigs s)) by lia.
        replace (tot w_p2 (trigs s) - 0 + 0) with (tot w_p2 (trigs s)) by lia.
        replace (tot w_p3 (trigs s) - 0 + 0) with (tot w_p3 (trigs s)) by lia.
        apply A_linkU.
      * rewrite zlen_app1.
        replace (tot (w_p1 QL) (trigs s) - 0 + 1) with (tot (w_p1 QL) (trigs s) + 1) by lia.
        replace (tot (w_p1 QU) (trigs s) - 0 + 0) with (tot (w_p1 QU) (trigs s)) by lia.
        replace (tot w_p2 (trigs s) - 0 + 0) with (tot w_p2 (trigs s)) by lia.
        replace (tot w_p3 (trigs s) - 0 + 0) with (tot w_p3 (trigs s)) by lia.
        apply A_linkL.
  - (* TCnt: count *)
    destruct (add_len s q 1) as [s2 v] eqn:Ea. inv H.
    cbn [set_trig set_trigs w_gh] in So, Sf.
    destruct (sane_add_len _ _ _ _ _ Ea So) as (So0 & Ev & Esh & Etr & Econ & Eenv & Ef).
    splits; [split; [exact So0|rewrite <- Ef; exact Sf]| | | |discriminate| |].
    + unfold cnt_ok. cbn. rewrite Esh. destruct q; exact Hc.
    + cbn. exact Econ.
    + cbn. exact Eenv.
    + intros t' Hne. cbn. rewrite Etr. apply get_put_other; congruence.
    + unfold view. rewrite !n_p1_set, n_p2_set, n_p3_set. rewrite Etr, !Wth.
      destruct (d_cls_con s (set_trig s2 t {| t_pc := TCas; t_task := x |}) Econ) as (A & B & C).
      rewrite A, B, C.
      rewrite (n_p1_trigs s s2 QU Etr), (n_p1_trigs s s2 QL Etr), (n_p2_trigs s s2 Etr), (n_p3_trigs s s2 Etr).
      cbn [w_sh set_trig set_trigs]. rewrite Esh.
      unfold w_p1, w_p2, w_p3; cbn [t_pc].
      destruct q; cbn [sh_qlen qlen flag eff_edge edge efd_cnt itemsU itemsL lenU lenL].
      * replace (n_p1 QU s - 1 + 0) with (n_p1 QU s - 1) by lia.
        replace (n_p1 QL s - 0 + 0) with (n_p1 QL s) by lia.
        replace (n_p2 s - 0 + 1) with (n_p2 s + 1) by lia.
        replace (n_p3 s - 0 + 0) with (n_p3 s) by lia.
        apply A_countU.
      * replace (n_p1 QL s - 1 + 0) with (n_p1 QL s - 1) by lia.
        replace (n_p1 QU s - 0 + 0) with (n_p1 QU s) by lia.
        replace (n_p2 s - 0 + 1) with (n_p2 s + 1) by lia.
        replace (n_p3 s - 0 + 0) with (n_p3 s) by lia.
        apply A_countL.
  - (* TCas *)
    destruct (flag (w_sh s) =? 0) eqn:Ef; inv H.
    + splits; [split; assumption|exact Hc|reflexivity|reflexivity|discriminate| |].
      * intros t' Hne. cbn. apply get_put_other; congruence.
      * unfold view. rewrite !n_p1_set, n_p2_set, n_p3_set.
        cbn [trigs set_sh]. rewrite !Wth.
        match goal with |- astep _ (mkA _ _ _ _ _ _ _ _ _ _ ?du ?dl ?k) =>
          replace du with (d_q QU s) by reflexivity; replace dl with (d_q QL s) by reflexivity;
          replace k with (cls_of s) by reflexivity end.
        unfold n_p1, n_p2, n_p3. cbn [trigs set_sh w_sh set_trig set_trigs].
        unfold w_p1, w_p2, w_p3; cbn [t_pc].
        cbn [sh_flag flag eff_edge edge efd_cnt itemsU itemsL lenU lenL].
        replace (flag (w_sh s)) with 0 by lia.
        replace (tot (w_p1 QU) (trigs s) - 0 + 0) with (tot (w_p1 QU) (trigs s)) by lia.
        replace (tot (w_p1 QL) (trigs s) - 0 + 0) with (tot (w_p1 QL) (trigs s)) by lia.
        replace (tot w_p2 (trigs s) - 1 + 0) with (tot w_p2 (trigs s) - 1) by lia.
        replace (tot w_p3 (trigs s) - 0 + 1) with (tot w_p3 (trigs s) + 1) by lia.
        apply A_caswin.
    + unfold ret_trig in *. cbn [set_trig set_trigs set_gh w_gh gh_ret g_ovf g_fault] in So, Sf.
      splits; [split; assumption|exact Hc|reflexivity|reflexivity| | |].
      * intros _. cbn. apply get_put_same.
      * intros t' Hne. cbn. apply get_put_other; congruence.
      * unfold view. rewrite !n_p1_set, n_p2_set, n_p3_set.
        cbn [trigs set_gh]. rewrite !Wth.
        match goal with |- astep _ (mkA _ _ _ _ _ _ _ _ _ _ ?du ?dl ?k) =>
          replace du with (d_q QU s) by reflexivity; replace dl with (d_q QL s) by reflexivity;
          replace k with (cls_of s) by reflexivity end.
        unfold n_p1, n_p2, n_p3. cbn [trigs set_gh w_sh set_trig set_trigs].
        unfold w_p1, w_p2, w_p3; cbn [t_pc idle_trig].
        replace (tot (w_p1 QU) (trigs s) - 0 + 0) with (tot (w_p1 QU) (trigs s)) by lia.
        replace (tot (w_p1 QL) (trigs s) - 0 + 0) with (tot (w_p1 QL) (trigs s)) by lia.
        replace (tot w_p2 (trigs s) - 1 + 0) with (tot w_p2 (trigs s) - 1) by lia.
        replace (tot w_p3 (trigs s) - 0 + 0) with (tot w_p3 (trigs s)) by lia.
        apply A_caslose. lia.
  - (* TWr, step *)
    destruct (efd_write (w_sh s)) as [x1 r] eqn:Ew.
    destruct (efd_write_res (w_sh s)) as [R|[R R']]; rewrite Ew in *; cbn [fst snd] in *; subst r.
    + inv H. unfold ret_trig in *. cbn [set_trig set_trigs set_gh set_sh w_gh gh_ret g_ovf g_fault] in So, Sf.
      destruct (eff_edge_write _ _ Ew Hc) as (E1 & E2 & E3 & E4 & E5 & E6 & E7).
      splits; [split; assumption|exact E7|reflexivity|reflexivity| | |].
      * intros _. cbn. apply get_put_same.
      * intros t' Hne. cbn. apply get_put_other; congruence.
      * unfold view. rewrite !n_p1_set, n_p2_set, n_p3_set.
        cbn [trigs set_gh set_sh]. rewrite !Wth.
        match goal with |- astep _ (mkA _ _ _ _ _ _ _ _ _ _ ?du ?dl ?k) =>
          replace du with (d_q QU s) by reflexivity; replace dl with (d_q QL s) by reflexivity;
          replace k with (cls_of s) by reflexivity end.
        unfold n_p1, n_p2, n_p3. cbn [trigs set_gh set_sh w_sh set_trig set_trigs].
        unfold w_p1, w_p2, w_p3; cbn [t_pc idle_trig].
        rewrite E1, E2, E3, E4, E5, E6.
        replace (tot (w_p1 QU) (trigs s) - 0 + 0) with (tot (w_p1 QU) (trigs s)) by lia.
        replace (tot (w_p1 QL) (trigs s) - 0 + 0) with (tot (w_p1 QL) (trigs s)) by lia.
        replace (tot w_p2 (trigs s) - 0 + 0) with (tot w_p2 (trigs s)) by lia.
        replace (tot w_p3 (trigs s) - 1 + 0) with (tot w_p3 (trigs s) - 1) by lia.
        apply A_writeok.
    + inv H. splits; [split; assumption|exact Hc|reflexivity|reflexivity|discriminate| |].
      * intros t' Hne. cbn. apply get_put_other; congruence.
      * replace (view (set_trig s t _)) with (view s); [apply A_nop|].
        symmetry. unfold view. rewrite !n_p1_set, n_p2_set, n_p3_set, !Wth.
        destruct (d_cls_con s (set_trig s t {| t_pc := TRd; t_task := x |}) eq_refl) as (A & B & C).
        rewrite A, B, C. cbn [w_sh set_trig set_trigs]. unfold w_p1, w_p2, w_p3; cbn [t_pc]. f_equal; lia.
  - (* TWr, fault: excluded *)
    inv H. unfold ret_trig in Sf. cbn in Sf. discriminate.
  - (* TRd *)
    destruct (efd_read (w_sh s)) as [x1 v] eqn:Er. inv H.
    destruct (efd_read_frame _ _ _ Er) as (E2 & E3 & E4 & E5 & E6 & E1 & E7).
    splits; [split; assumption|exact (E7 Hc)|reflexivity|reflexivity|discriminate| |].
    + intros t' Hne. cbn. apply get_put_other; congruence.
    + unfold view. rewrite !n_p1_set, n_p2_set, n_p3_set.
      cbn [trigs set_sh]. rewrite !Wth.
      match goal with |- astep _ (mkA _ _ _ _ _ _ _ _ _ _ ?du ?dl ?k) =>
        replace du with (d_q QU s) by reflexivity; replace dl with (d_q QL s) by reflexivity;
        replace k with (cls_of s) by reflexivity end.
      unfold n_p1, n_p2, n_p3. cbn [trigs set_sh w_sh set_trig set_trigs].
      unfold w_p1, w_p2, w_p3; cbn [t_pc].
      rewrite E2, E3, E4, E5, E6.
      replace (tot (w_p1 QU) (trigs s) - 0 + 0) with (tot (w_p1 QU) (trigs s)) by lia.
      replace (tot (w_p1 QL) (trigs s) - 0 + 0) with (tot (w_p1 QL) (trigs s)) by lia.
      replace (tot w_p2 (trigs s) - 0 + 0) with (tot w_p2 (trigs s)) by lia.
      replace (tot w_p3 (trigs s) - 1 + 1) with (tot w_p3 (trigs s)) by lia.
      apply A_drop; [|exact E1].
      left. pose proof (tot_ge w_p3 (trigs s) t nn_p3 z_p3) as G. rewrite Wth in G. unfold w_p3 in G at 1; cbn in G. lia.
Qed.
