package main

// Loading and type-checking the gnet module from source, offline.
//
// Module-local packages are parsed and checked here (their ASTs and types.Info
// are kept); everything else (stdlib, x/sys, zap, ants, ...) goes through the
// go/importer "source" importer, which resolves module paths with `go list`.

import (
	"fmt"
	"go/ast"
	"go/build"
	"go/importer"
	"go/parser"
	"go/token"
	"go/types"
	"os"
	"path/filepath"
	"sort"
	"strings"
)

const modPath = "github.com/panjf2000/gnet/v2"

type pkgInfo struct {
	path  string // import path
	short string // "" for the root package, else e.g. "netpoll"
	dir   string
	files []*ast.File
	info  *types.Info
	pkg   *types.Package
}

type loader struct {
	root string
	fset *token.FileSet
	ctx  build.Context
	pkgs map[string]*pkgInfo
	ext  types.ImporterFrom
	errs []string
}

var sharedFset = token.NewFileSet()
var sharedExt types.ImporterFrom

func newLoader(root string, tags []string) *loader {
	ctx := build.Default
	ctx.GOOS, ctx.GOARCH, ctx.CgoEnabled = "linux", "amd64", false
	ctx.BuildTags = tags
	if sharedExt == nil {
		bd := build.Default
		bd.GOOS, bd.GOARCH, bd.CgoEnabled = "linux", "amd64", false
		build.Default = bd
		sharedExt = importer.ForCompiler(sharedFset, "source", nil).(types.ImporterFrom)
	}
	return &loader{root: root, fset: sharedFset, ctx: ctx, pkgs: map[string]*pkgInfo{}, ext: sharedExt}
}

func (l *loader) Import(path string) (*types.Package, error) { return l.ImportFrom(path, l.root, 0) }

func (l *loader) ImportFrom(path, dir string, mode types.ImportMode) (*types.Package, error) {
	if path == modPath || strings.HasPrefix(path, modPath+"/") {
		p, err := l.load(path)
		if err != nil {
			return nil, err
		}
		return p.pkg, nil
	}
	return l.ext.ImportFrom(path, l.root, 0)
}

func (l *loader) load(path string) (*pkgInfo, error) {
	if p, ok := l.pkgs[path]; ok {
		if p.pkg == nil {
			return nil, fmt.Errorf("import cycle through %s", path)
		}
		return p, nil
	}
	rel := strings.TrimPrefix(strings.TrimPrefix(path, modPath), "/")
	dir := filepath.Join(l.root, rel)
	p := &pkgInfo{path: path, dir: dir}
	if rel != "" {
		p.short = filepath.Base(rel)
	}
	l.pkgs[path] = p
	ents, err := os.ReadDir(dir)
	if err != nil {
		return nil, err
	}
	var names []string
	for _, e := range ents {
		n := e.Name()
		if e.IsDir() || !strings.HasSuffix(n, ".go") || strings.HasSuffix(n, "_test.go") {
			continue
		}
		if ok, _ := l.ctx.MatchFile(dir, n); ok {
			names = append(names, n)
		}
	}
	sort.Strings(names)
	for _, n := range names {
		f, err := parser.ParseFile(l.fset, filepath.Join(dir, n), nil, 0)
		if err != nil {
			return nil, err
		}
		p.files = append(p.files, f)
	}
	p.info = &types.Info{
		Uses:       map[*ast.Ident]types.Object{},
		Defs:       map[*ast.Ident]types.Object{},
		Selections: map[*ast.SelectorExpr]*types.Selection{},
		Types:      map[ast.Expr]types.TypeAndValue{},
		Implicits:  map[ast.Node]types.Object{},
		Instances:  map[*ast.Ident]types.Instance{},
	}
	conf := types.Config{Importer: l, Error: func(err error) { l.errs = append(l.errs, err.Error()) }}
	pkg, _ := conf.Check(path, l.fset, p.files, p.info)
	p.pkg = pkg
	if pkg == nil {
		return nil, fmt.Errorf("type-check of %s produced nothing", path)
	}
	return p, nil
}

// relPos renders a position as repo-relative file:line.
func (l *loader) relPos(pos token.Pos) string {
	p := l.fset.Position(pos)
	r, err := filepath.Rel(l.root, p.Filename)
	if err != nil {
		r = p.Filename
	}
	return fmt.Sprintf("%s:%d", filepath.ToSlash(r), p.Line)
}
