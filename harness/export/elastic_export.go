//go:build verif

//verif:target pkg/buffer/elastic/export_verif.go

package elastic

import (
	"github.com/panjf2000/gnet/v2/pkg/buffer/linkedlist"
	"github.com/panjf2000/gnet/v2/pkg/buffer/ring"
)

// VerifRing exposes the lazily acquired ring.Buffer (nil while the elastic
// ring buffer holds none) to the C10 driver, which observes whether and when
// it is acquired from / returned to the pool.
func (b *RingBuffer) VerifRing() *ring.Buffer { return b.rb }

// VerifRingBuffer / VerifListBuffer / VerifMaxStatic expose the two halves and
// the static-size limit of the mixed buffer (read-only use by the driver).
func (mb *Buffer) VerifRingBuffer() *RingBuffer { return &mb.ringBuffer }

func (mb *Buffer) VerifListBuffer() *linkedlist.Buffer { return &mb.listBuffer }

func (mb *Buffer) VerifMaxStatic() int { return mb.maxStaticBytes }
