// drv-sockaddr drives pkg/socket/sockaddr.go (+ the listen-side conversion of
// sock_posix.go through GetTCPSockAddr/GetUDPSockAddr) for C17 and writes the
// trace consumed by the extracted model (family "sockaddr").  The second half
// (integration.go) runs real gnet servers and compares the addresses gnet
// reports inside every callback with the peer's own view, under churn.
package main

import (
	"bytes"
	"flag"
	"fmt"
	"net"
	osexec "os/exec"
	"runtime"
	"strconv"
	"strings"

	"golang.org/x/sys/unix"

	"github.com/panjf2000/gnet/v2/pkg/buffer/linkedlist"
	"github.com/panjf2000/gnet/v2/pkg/pool/byteslice"
	"github.com/panjf2000/gnet/v2/pkg/socket"

	"verifharness/tr"
)

var (
	w      *tr.Writer
	ifaces []net.Interface
)

const big = 0xFFFFFF

// ---------------------------------------------------------------- encoding

func ipArg(ip net.IP) string {
	if ip == nil {
		return "nil"
	}
	return tr.X(ip)
}

func parseIP(tok string) net.IP {
	if tok == "nil" {
		return nil
	}
	b := tr.L("", tok).Bytes(0)
	ip := make(net.IP, len(b)) // non-nil even when empty
	copy(ip, b)
	return ip
}

type otherAddr struct{}

func (otherAddr) Network() string { return "other" }
func (otherAddr) String() string  { return "other" }

func saArgs(sa unix.Sockaddr) []string {
	switch s := sa.(type) {
	case nil:
		return []string{"nil"}
	case *unix.SockaddrInet4:
		return []string{"sa4", tr.I(s.Port), tr.X(s.Addr[:])}
	case *unix.SockaddrInet6:
		return []string{"sa6", tr.I(s.Port), tr.U64(uint64(s.ZoneId)), tr.X(s.Addr[:])}
	case *unix.SockaddrUnix:
		return []string{"unix", tr.X([]byte(s.Name))}
	}
	return []string{"other"}
}

func parseSA(a []string) unix.Sockaddr {
	l := tr.L("", a...)
	switch a[0] {
	case "nil":
		return nil
	case "sa4":
		sa := &unix.SockaddrInet4{Port: l.Int(1)}
		copy(sa.Addr[:], l.Bytes(2))
		return sa
	case "sa6":
		z, _ := strconv.ParseUint(a[2], 10, 64)
		sa := &unix.SockaddrInet6{Port: l.Int(1), ZoneId: uint32(z)}
		copy(sa.Addr[:], l.Bytes(3))
		return sa
	case "unix":
		return &unix.SockaddrUnix{Name: string(l.Bytes(1))}
	}
	return &unix.SockaddrNetlink{}
}

func naArgs(a net.Addr) []string {
	switch v := a.(type) {
	case nil:
		return []string{"nil"}
	case *net.IPAddr:
		if v == nil {
			return []string{"nilptr"}
		}
		return []string{"ip", ipArg(v.IP), "0", tr.X([]byte(v.Zone))}
	case *net.TCPAddr:
		if v == nil {
			return []string{"nilptr"}
		}
		return []string{"tcp", ipArg(v.IP), tr.I(v.Port), tr.X([]byte(v.Zone))}
	case *net.UDPAddr:
		if v == nil {
			return []string{"nilptr"}
		}
		return []string{"udp", ipArg(v.IP), tr.I(v.Port), tr.X([]byte(v.Zone))}
	case *net.UnixAddr:
		if v == nil {
			return []string{"nilptr"}
		}
		return []string{"unix", tr.X([]byte(v.Name)), tr.X([]byte(v.Net))}
	}
	return []string{"other"}
}

// parseNA builds the net.Addr described by the arguments of na2sa / rt.
func parseNA(a []string) net.Addr {
	l := tr.L("", a...)
	switch a[0] {
	case "niliface":
		return nil
	case "other":
		return otherAddr{}
	case "nilptr":
		return (*net.TCPAddr)(nil)
	case "unix":
		return &net.UnixAddr{Name: string(l.Bytes(1)), Net: string(l.Bytes(2))}
	case "ip":
		return &net.IPAddr{IP: parseIP(a[1]), Zone: string(l.Bytes(3))}
	case "tcp":
		return &net.TCPAddr{IP: parseIP(a[1]), Port: l.Int(2), Zone: string(l.Bytes(3))}
	case "udp":
		return &net.UDPAddr{IP: parseIP(a[1]), Port: l.Int(2), Zone: string(l.Bytes(3))}
	}
	panic("bad net.Addr kind " + a[0])
}

// ---------------------------------------------------------------- oracle helpers

func ifByName(n string) (int, bool) {
	if n == "" {
		return 0, false
	}
	for _, i := range ifaces {
		if i.Name == n {
			return i.Index, true
		}
	}
	return 0, false
}

func ifByIndex(i int) (string, bool) {
	for _, x := range ifaces {
		if x.Index == i && i > 0 {
			return x.Name, true
		}
	}
	return "", false
}

// zone classes of the property's quantifier
const (
	zEmpty     = "none"
	zName      = "name"        // an interface name of this machine
	zIndexFree = "index-free"  // canonical decimal 0 < v < big, no such interface (by name or index)
	zIndexBig  = "index>=big"  // canonical decimal >= 0xFFFFFF, no such interface
	zIndexUsed = "index-alias" // canonical decimal that is the index of an existing interface
	zOther     = "other"       // neither: "0", leading zeros, letters, ... (not a zone of the quantifier)
)

func zoneClass(z string) (string, uint64) {
	if z == "" {
		return zEmpty, 0
	}
	if i, ok := ifByName(z); ok {
		return zName, uint64(i)
	}
	if z[0] == '0' {
		return zOther, 0
	}
	for i := 0; i < len(z); i++ {
		if z[i] < '0' || z[i] > '9' {
			return zOther, 0
		}
	}
	v, err := strconv.ParseUint(z, 10, 64)
	if err != nil {
		return zIndexBig, 0
	}
	if v <= 1<<31 {
		if _, ok := ifByIndex(int(v)); ok {
			return zIndexUsed, v
		}
	}
	if v >= big {
		return zIndexBig, v
	}
	return zIndexFree, v
}

func ipOf(a net.Addr) (net.IP, int, string, bool) {
	switch v := a.(type) {
	case *net.TCPAddr:
		return v.IP, v.Port, v.Zone, true
	case *net.UDPAddr:
		return v.IP, v.Port, v.Zone, true
	case *net.IPAddr:
		return v.IP, 0, v.Zone, true
	}
	return nil, 0, "", false
}

// ---------------------------------------------------------------- interpreter

func guardSA(f func() unix.Sockaddr) (sa unix.Sockaddr, panicked bool) {
	panicked, _ = tr.Guard(func() { sa = f() })
	return
}

func guardNA(f func() net.Addr) (a net.Addr, panicked bool) {
	panicked, _ = tr.Guard(func() { a = f() })
	return
}

func back(kind string, sa unix.Sockaddr) (net.Addr, bool) {
	if kind == "udp" {
		return guardNA(func() net.Addr { return socket.SockaddrToUDPAddr(sa) })
	}
	return guardNA(func() net.Addr { return socket.SockaddrToTCPOrUnixAddr(sa) })
}

func obsNA(a net.Addr, p bool) {
	if p {
		w.Obs(tr.L("na", "panic"))
	} else {
		w.Obs(tr.L("na", naArgs(a)...))
	}
}

func obsSA(sa unix.Sockaddr, p bool) {
	if p {
		w.Obs(tr.L("sa", "panic"))
	} else {
		w.Obs(tr.L("sa", saArgs(sa)...))
	}
}

// oracle for  net.Addr -> sockaddr -> net.Addr
func oracleRT(args []string, in net.Addr, sa unix.Sockaddr, p1 bool, out net.Addr, p2 bool) {
	kind := args[0]
	bad := func(sig, detail string) { w.Fail("rt", "kind="+kind+" "+sig, detail+" input="+strings.Join(args, " ")) }
	switch kind {
	case "nilptr":
		return // a typed nil pointer is outside the statement ("non-nil address")
	case "niliface", "other":
		if p1 || sa != nil {
			bad("unsupported-not-nil", "")
		}
		return
	case "unix":
		ua := in.(*net.UnixAddr)
		sup := ua.Net == "unix" || ua.Net == "unixgram" || ua.Net == "unixpacket"
		if p1 || p2 {
			bad("panic", "")
			return
		}
		if !sup {
			if sa != nil {
				bad("unsupported-not-nil", "net="+ua.Net)
			}
			return
		}
		o, ok := out.(*net.UnixAddr)
		if sa == nil || !ok || o == nil || o.Name != ua.Name {
			bad("unix-name-changed", fmt.Sprintf("got %v", out))
		} else if ua.Net == "unix" && o.Net != "unix" {
			// a stream address (the only kind gnet serves) must come back as the same address
			bad("unix-net-changed", fmt.Sprintf("net %q -> %q", ua.Net, o.Net))
		}
		return
	}
	ip, port, zone, _ := ipOf(in)
	if kind == "ip" {
		port = 0
	}
	if p1 || p2 {
		bad("panic", "")
		return
	}
	if ip != nil && len(ip) != 4 && len(ip) != 16 {
		if sa != nil {
			bad(fmt.Sprintf("invalid-len-not-nil len=%d", len(ip)), "")
		}
		return
	}
	if sa == nil || out == nil {
		bad("valid-gives-nil", "")
		return
	}
	oip, oport, ozone, ok := ipOf(out)
	if !ok {
		bad("wrong-type-back", fmt.Sprintf("%T", out))
		return
	}
	if oport != port {
		bad("port-changed", fmt.Sprintf("port %d -> %d", port, oport))
	}
	if ip == nil {
		if !oip.IsUnspecified() {
			bad("nil-ip-not-unspecified", oip.String())
		}
	} else if !oip.Equal(ip) {
		bad("ip-changed", fmt.Sprintf("%v -> %v", ip, oip))
	}
	cls, v := zoneClass(zone)
	switch cls {
	case zEmpty:
		if ozone != "" {
			bad("zone-appeared", ozone)
		}
	case zName:
		if ozone != zone {
			bad("zone-name-changed", fmt.Sprintf("%q -> %q", zone, ozone))
		}
		if s6, ok := sa.(*unix.SockaddrInet6); !ok || uint64(s6.ZoneId) != v {
			bad("zone-name-wrong-index", fmt.Sprintf("%q", zone))
		}
	case zIndexFree:
		if ozone != zone {
			bad("zone-index-free-changed", fmt.Sprintf("%q -> %q", zone, ozone))
		}
	case zIndexBig:
		if ozone != zone {
			w.Fail("rt", "zone-index>=big kind="+kind, fmt.Sprintf("%q -> %q", zone, ozone))
		}
	case zIndexUsed:
		n, _ := ifByIndex(int(v))
		if ozone != n && ozone != zone {
			bad("zone-index-alias-changed", fmt.Sprintf("%q -> %q", zone, ozone))
		}
	}
}

// oracle for  sockaddr -> net.Addr -> sockaddr
func oracleRTS(kind string, sa unix.Sockaddr, na net.Addr, p1 bool, sa2 unix.Sockaddr, p2 bool) {
	bad := func(sig, detail string) {
		w.Fail("rts", "kind="+kind+" "+sig, detail+" input="+strings.Join(saArgs(sa), " "))
	}
	if p1 || p2 {
		bad("panic", "")
		return
	}
	switch s := sa.(type) {
	case *unix.SockaddrInet4:
		o, ok := sa2.(*unix.SockaddrInet4)
		if !ok || o.Addr != s.Addr || o.Port != s.Port {
			bad("sa4-changed", strings.Join(saArgs(sa2), " "))
		}
	case *unix.SockaddrInet6:
		mapped := net.IP(s.Addr[:]).To4() != nil
		if mapped && s.ZoneId == 0 {
			// ::ffff:a.b.c.d without zone comes back as the IPv4 sockaddr a.b.c.d (same address up to IP.Equal)
			o, ok := sa2.(*unix.SockaddrInet4)
			if !ok || !bytes.Equal(o.Addr[:], s.Addr[12:]) || o.Port != s.Port {
				bad("sa6-v4mapped-changed", strings.Join(saArgs(sa2), " "))
			}
			return
		}
		o, ok := sa2.(*unix.SockaddrInet6)
		if !ok || o.Addr != s.Addr || o.Port != s.Port {
			bad("sa6-changed", strings.Join(saArgs(sa2), " "))
			return
		}
		if o.ZoneId != s.ZoneId {
			_, used := ifByIndex(int(s.ZoneId))
			_, named := ifByName(strconv.FormatUint(uint64(s.ZoneId), 10))
			switch {
			case !used && !named && s.ZoneId >= big:
				w.Fail("rts", "zone-index>=big kind="+kind, fmt.Sprintf("zone %d -> %d", s.ZoneId, o.ZoneId))
			case named:
				// the decimal form of the index is the *name* of another interface: ambiguous by construction
			default:
				bad("sa6-zone-changed", fmt.Sprintf("zone %d -> %d", s.ZoneId, o.ZoneId))
			}
		}
	case *unix.SockaddrUnix:
		if kind == "udp" {
			if na != nil {
				bad("udp-unix-not-nil", "")
			}
			return
		}
		o, ok := sa2.(*unix.SockaddrUnix)
		if !ok || o.Name != s.Name {
			bad("unix-changed", strings.Join(saArgs(sa2), " "))
		}
	default:
		if na != nil || sa2 != nil {
			bad("unsupported-not-nil", "")
		}
	}
}

// values the driver keeps alive across later operations (C17: "stay correct for the whole life")
type keptVal struct {
	snap     []string        // rendering at the time the value was handed out (fresh strings)
	read     func() []string // renders the live value again
	panicked bool
}

func (k keptVal) readName() string {
	if k.snap != nil {
		return k.snap[0]
	}
	return "na"
}

var kept []keptVal

// churn: other users of the byte-slice pool (every size class up to 64 bytes and a bit
// beyond), linked-list buffer nodes and further numeric-zone conversions, all of which
// write into whatever memory the pool hands them.
func churn(n int) {
	for round := 0; round < n; round++ {
		var held [][]byte
		for size := 1; size <= 64; size++ {
			b := byteslice.Get(size)
			for i := range b {
				b[i] = 'x'
			}
			held = append(held, b)
			if size%3 == 0 {
				byteslice.Put(held[0])
				held = held[1:]
			}
		}
		for _, b := range held {
			byteslice.Put(b)
		}
		var ll linkedlist.Buffer
		for _, size := range []int{5, 17, 24, 32, 33, 64} {
			ll.PushBack(bytes.Repeat([]byte{'y'}, size))
		}
		_, _ = ll.Discard(40)
		ll.Reset()
		for _, idx := range []uint32{77777, 4242, 16777000} {
			_ = socket.VerifIP6ZoneToString(idx + uint32(round))
		}
	}
}

func protoName(base string, code int) string {
	switch code {
	case 4:
		return base + "4"
	case 6:
		return base + "6"
	}
	return base
}

// exec executes one op on the implementation and emits op, obs and oracle verdicts.
func exec(name string, a []string) {
	l := tr.L(name, a...)
	switch name {
	case "if":
		return // the interface table is emitted by the driver itself
	case "to4", "to16":
		ip := net.IP(l.Bytes(0))
		w.Op(l)
		var r net.IP
		if name == "to4" {
			r = ip.To4()
		} else {
			r = ip.To16()
		}
		w.Obs(tr.L("ip", ipArg(r)))
	case "ipeq":
		w.Op(l)
		w.Obs(tr.L("b", tr.B(net.IP(l.Bytes(0)).Equal(net.IP(l.Bytes(1))))))
	case "itod":
		v, _ := strconv.ParseUint(a[0], 10, 64)
		w.Op(l)
		var s string
		if p, _ := tr.Guard(func() { s = socket.VerifItod(uint(v)) }); p {
			w.Obs(tr.L("s", "panic"))
			w.Fail("itod", fmt.Sprintf("panic v=%d", v), "")
			return
		}
		w.Obs(tr.L("s", tr.X([]byte(s))))
		if s != strconv.FormatUint(v, 10) {
			w.Fail("itod", fmt.Sprintf("not-decimal v=%d", v), fmt.Sprintf("got %q", s))
		} else if v > 0 && v < big {
			if n, i, ok := socket.VerifDtoi(s, 0); n != int(v) || i != len(s) || !ok {
				w.Fail("dtoi", fmt.Sprintf("dtoi-itod v=%d", v), fmt.Sprintf("got %d %d %v", n, i, ok))
			}
		}
	case "dtoi":
		s, i0 := string(l.Bytes(0)), l.Int(1)
		w.Op(l)
		var n, i int
		var ok bool
		if p, _ := tr.Guard(func() { n, i, ok = socket.VerifDtoi(s, i0) }); p {
			w.Obs(tr.L("d", "panic"))
			return
		}
		w.Obs(tr.L("d", tr.I(n), tr.I(i), tr.B(ok)))
	case "z2i":
		z := string(l.Bytes(0))
		w.Op(l)
		n := socket.VerifIP6ZoneToInt(z)
		w.Obs(tr.L("zi", tr.I(n)))
		if cls, v := zoneClass(z); (cls == zName || cls == zIndexFree) && uint64(n) != v {
			w.Fail("z2i", "class="+cls, fmt.Sprintf("%q -> %d", z, n))
		}
	case "i2z":
		v, _ := strconv.ParseUint(a[0], 10, 64)
		w.Op(l)
		var s string
		if p, _ := tr.Guard(func() { s = socket.VerifIP6ZoneToString(uint32(v)) }); p {
			w.Obs(tr.L("zs", "panic"))
			w.Fail("i2z", "panic", a[0])
			return
		}
		w.Obs(tr.L("zs", tr.X([]byte(s))))
		exp := strconv.FormatUint(v, 10)
		if v == 0 {
			exp = ""
		} else if n, ok := ifByIndex(int(v)); ok {
			exp = n
		}
		if s != exp {
			w.Fail("i2z", fmt.Sprintf("zone-string idx=%d", v), fmt.Sprintf("got %q want %q", s, exp))
		}
	case "ip2sa":
		ip, port, zone := parseIP(a[0]), l.Int(1), string(l.Bytes(2))
		w.Op(l)
		sa, p := guardSA(func() unix.Sockaddr { return socket.IPToSockaddr(ip, port, zone) })
		obsSA(sa, p)
		if p {
			w.Fail("ip2sa", "panic", strings.Join(a, " "))
		} else if ip != nil && len(ip) != 4 && len(ip) != 16 && sa != nil {
			w.Fail("ip2sa", fmt.Sprintf("invalid-len-not-nil len=%d", len(ip)), "")
		}
	case "na2sa":
		in := parseNA(a)
		w.Op(l)
		sa, p := guardSA(func() unix.Sockaddr { return socket.NetAddrToSockaddr(in) })
		obsSA(sa, p)
		if p && a[0] != "nilptr" {
			w.Fail("na2sa", "panic kind="+a[0], strings.Join(a, " "))
		}
	case "ua2sa":
		ua := &net.UnixAddr{Name: string(l.Bytes(0)), Net: string(l.Bytes(1))}
		w.Op(l)
		sa, t := socket.UnixAddrToSockaddr(ua)
		w.Obs(tr.L("ua", append(saArgs(sa), tr.I(t))...))
		want := map[string]int{"unix": unix.SOCK_STREAM, "unixgram": unix.SOCK_DGRAM, "unixpacket": unix.SOCK_SEQPACKET}
		if wt, ok := want[ua.Net]; ok {
			if s, ok2 := sa.(*unix.SockaddrUnix); !ok2 || s.Name != ua.Name || t != wt {
				w.Fail("ua2sa", "supported-net-wrong net="+ua.Net, "")
			}
		} else if sa != nil || t != 0 {
			w.Fail("ua2sa", "unsupported-not-nil", "net="+ua.Net)
		}
	case "sa2tcp", "sa2udp":
		sa := parseSA(a)
		w.Op(l)
		kind := "tcp"
		if name == "sa2udp" {
			kind = "udp"
		}
		na, p := back(kind, sa)
		obsNA(na, p)
		if p {
			w.Fail(name, "panic", strings.Join(a, " "))
		}
	case "rt":
		in := parseNA(a)
		w.Op(l)
		sa, p1 := guardSA(func() unix.Sockaddr { return socket.NetAddrToSockaddr(in) })
		obsSA(sa, p1)
		var out net.Addr
		var p2 bool
		if !p1 {
			out, p2 = back(a[0], sa)
			obsNA(out, p2)
		}
		oracleRT(a, in, sa, p1, out, p2)
	case "rts":
		sa := parseSA(a[1:])
		w.Op(l)
		na, p1 := back(a[0], sa)
		obsNA(na, p1)
		var sa2 unix.Sockaddr
		var p2 bool
		if !p1 {
			sa2, p2 = guardSA(func() unix.Sockaddr { return socket.NetAddrToSockaddr(na) })
			obsSA(sa2, p2)
		}
		oracleRTS(a[0], sa, na, p1, sa2, p2)
	case "lsa", "lsau":
		execLSA(name, l)
	case "int":
		w.Op(l)
		runScenario(a[0], 120, tr.NewRand(17))
	case "netns":
		w.Op(l) // marker only: the case was produced inside a private network namespace
	case "ifrename":
		// ifrename <index> <new name>: the interface is renamed under the running process (private namespace only)
		idx, nn := l.Int(0), string(l.Bytes(1))
		old, ok := ifByIndex(idx)
		if !ok || ipRun == nil || !ipRun("link", "set", "dev", old, "name", nn) {
			w.Hist("netns-rename-skipped")
			return
		}
		for k := range ifaces {
			if ifaces[k].Index == idx {
				ifaces[k].Name = nn
			}
		}
		w.Op(l)
		w.Hist("netns-rename")
	case "keep":
		sa := parseSA(a[1:])
		w.Op(l)
		na, p := back(a[0], sa)
		obsNA(na, p)
		k := keptVal{panicked: p, read: func() []string { return append([]string{"na"}, naArgs(na)...) }}
		k.snap = k.read()
		kept = append(kept, k)
	case "keepz":
		v, _ := strconv.ParseUint(a[0], 10, 64)
		w.Op(l)
		var z string
		p, _ := tr.Guard(func() { z = socket.VerifIP6ZoneToString(uint32(v)) })
		k := keptVal{panicked: p, read: func() []string { return []string{"zs", tr.X([]byte(z))} }}
		if p {
			w.Obs(tr.L("zs", "panic"))
		} else {
			k.snap = k.read()
			w.Obs(tr.L(k.snap[0], k.snap[1:]...))
		}
		kept = append(kept, k)
	case "churn":
		w.Op(l)
		churn(l.Int(0))
	case "recheck":
		w.Op(l)
		i := l.Int(0)
		if i < 0 || i >= len(kept) {
			w.Obs(tr.L("unknown"))
			return
		}
		k := kept[i]
		if k.panicked {
			w.Obs(tr.L(k.readName(), "panic"))
			return
		}
		cur := k.read()
		w.Obs(tr.L(cur[0], cur[1:]...))
		if strings.Join(cur, " ") != strings.Join(k.snap, " ") {
			w.Fail("addr-stability", "value-changed-while-alive kind="+cur[0],
				fmt.Sprintf("kept #%d was %q, now reads %q", i, strings.Join(k.snap, " "), strings.Join(cur, " ")))
		}
	default:
		panic("unknown op " + name)
	}
}

// lsa <proto> <xip> <port> <xzone>: the sockaddr gnet binds/connects for a resolved address.
// The op line that is written carries the address as net.Resolve*Addr returned it (an input of the model).
func execLSA(name string, l tr.Line) {
	code := l.Int(0)
	ip, port, zone := net.IP(l.Bytes(1)), l.Int(2), string(l.Bytes(3))
	var hostport string
	host := ""
	if len(ip) > 0 {
		host = ip.String()
	}
	if zone != "" {
		host += "%" + zone
	}
	hostport = net.JoinHostPort(host, strconv.Itoa(port))
	var (
		sa       unix.Sockaddr
		family   int
		v6only   bool
		err      error
		rip      net.IP
		rport    int
		rzone    string
		resolved bool
	)
	if name == "lsa" {
		var ta *net.TCPAddr
		sa, family, ta, v6only, err = socket.GetTCPSockAddr(protoName("tcp", code), hostport)
		if ta != nil {
			rip, rport, rzone, resolved = ta.IP, ta.Port, ta.Zone, true
		}
	} else {
		var ua *net.UDPAddr
		sa, family, ua, v6only, err = socket.GetUDPSockAddr(protoName("udp", code), hostport)
		if ua != nil {
			rip, rport, rzone, resolved = ua.IP, ua.Port, ua.Zone, true
		}
	}
	if !resolved {
		return // net.Resolve*Addr rejected the literal: nothing of gnet ran
	}
	// model input = what the resolver returned
	w.Op(tr.L("lsa", tr.I(code), tr.X(rip), tr.I(rport), tr.X([]byte(rzone))))
	if err != nil || sa == nil {
		w.Obs(tr.L("lsa", "err"))
		if len(rip) == 0 || len(rip) == 4 || len(rip) == 16 {
			w.Fail("lsa", "valid-address-rejected", hostport)
		}
		return
	}
	w.Obs(tr.L("lsa", append([]string{tr.I(family), tr.B(v6only)}, saArgs(sa)...)...))
	// oracle: the bound sockaddr denotes the reported address
	var bip net.IP
	var bport int
	var bzone uint32
	switch s := sa.(type) {
	case *unix.SockaddrInet4:
		bip, bport = s.Addr[:], s.Port
		if family != unix.AF_INET {
			w.Fail("lsa", "family-mismatch", hostport)
		}
	case *unix.SockaddrInet6:
		bip, bport, bzone = s.Addr[:], s.Port, s.ZoneId
		if family != unix.AF_INET6 {
			w.Fail("lsa", "family-mismatch", hostport)
		}
	}
	if bport != rport {
		w.Fail("lsa", "port-differs", hostport)
	}
	if len(rip) == 0 || rip.IsUnspecified() {
		if !bip.IsUnspecified() {
			w.Fail("lsa", "wildcard-differs", hostport)
		}
	} else if !bip.Equal(rip) {
		w.Fail("lsa", "ip-differs", hostport)
	}
	if idx, ok := ifByName(rzone); ok && family == unix.AF_INET6 && bzone != uint32(idx) {
		w.Fail("lsa", "zone-name-wrong-index", hostport)
	}
}

// ---------------------------------------------------------------- generator

var cid int

func newCase(prefix, tag string) {
	kept = nil
	cid++
	w.Case(fmt.Sprintf("%s%d", prefix, cid), "sockaddr")
	w.Tag(tag)
	for _, i := range ifaces {
		w.Op(tr.L("if", tr.X([]byte(i.Name)), tr.I(i.Index)))
	}
}

var boundaryPorts = []int{0, 1, 2, 79, 80, 255, 256, 257, 1023, 1024, 4095, 4096, 32767, 32768, 49151, 49152, 65279, 65280, 65534, 65535}

func zonePool() []string {
	zs := []string{"", "", "", ""}
	for _, i := range ifaces {
		zs = append(zs, i.Name, strconv.Itoa(i.Index))
	}
	zs = append(zs, "1", "4", "2", "3", "7", "10", "99", "100", "9999", "65535", "65536", "1000000",
		"16777213", "16777214", "16777215", "16777216", "99999999", "4294967295", "4294967296",
		"18446744073709551615", "18446744073709551616", "0", "00", "007", "09999", "-1", "+4", "abc", "12abc", "eth", "eth00", "lo0",
		"4 ", " 4", "4\x00", "\x004", "\x009999", "é", strings.Repeat("9", 40), strings.Repeat("z", 40))
	return zs
}

// pickZone draws a zone with a fixed class distribution (the pool itself is dominated by malformed strings).
func pickZone(r *tr.Rand, zones []string) string {
	want := zEmpty
	switch k := r.Intn(100); {
	case k < 30:
		return ""
	case k < 50:
		want = zName
	case k < 70:
		want = zIndexFree
	case k < 80:
		want = zIndexUsed
	case k < 87:
		want = zIndexBig
	default:
		want = zOther
	}
	if want == zIndexFree && r.Chance(60) {
		for {
			v := 1 + r.Intn(big-1)
			z := strconv.Itoa(v)
			if c, _ := zoneClass(z); c == zIndexFree {
				return z
			}
		}
	}
	for try := 0; try < 200; try++ {
		z := zones[r.Intn(len(zones))]
		if c, _ := zoneClass(z); c == want {
			return z
		}
	}
	return ""
}

func randIP(r *tr.Rand) (net.IP, string) {
	switch k := r.Intn(100); {
	case k < 35:
		return net.IP(r.Bytes(4)), "v4"
	case k < 50:
		b := r.Bytes(4)
		return net.IPv4(b[0], b[1], b[2], b[3]), "v4in6"
	case k < 80:
		ip := net.IP(r.Bytes(16))
		switch r.Intn(6) {
		case 0:
			ip[0], ip[1] = 0xfe, 0x80
			for i := 2; i < 8; i++ {
				ip[i] = 0
			}
		case 1: // almost v4-mapped
			for i := 0; i < 10; i++ {
				ip[i] = 0
			}
			ip[10], ip[11] = 0xff, byte(r.Pick([]int{0xff, 0xfe, 0x00}))
		case 2:
			for i := 0; i < 10; i++ {
				ip[i] = 0
			}
			ip[r.Intn(10)] = byte(r.Intn(3))
			ip[10], ip[11] = 0xff, 0xff
		}
		return ip, "v6"
	case k < 85:
		return net.IPv6loopback, "v6"
	case k < 88:
		return net.IPv6zero, "v6"
	case k < 91:
		return net.IPv4zero, "v4in6"
	case k < 94:
		return net.IP{0, 0, 0, 0}, "v4"
	case k < 97:
		return net.IP{255, 255, 255, 255}, "v4"
	default:
		return nil, "nilip"
	}
}

func randPort(r *tr.Rand) int {
	if r.Chance(40) {
		return r.Pick(boundaryPorts)
	}
	return r.Intn(65536)
}

func kindOf(r *tr.Rand) string { return []string{"tcp", "tcp", "udp", "udp", "ip"}[r.Intn(5)] }

func generate(seed uint64, tier string) {
	r := tr.NewRand(seed)
	mult := 1
	if tier == "thorough" {
		mult = 20
	}
	zones := zonePool()

	// 1. random addresses, there and back, both directions
	total := 10000 * mult
	for i := 0; i < total; {
		newCase("rt", "roundtrip-random")
		for j := 0; j < 250 && i < total; j++ {
			ip, cls := randIP(r)
			zone := pickZone(r, zones)
			zc, _ := zoneClass(zone)
			kind := kindOf(r)
			exec("rt", []string{kind, ipArg(ip), tr.I(randPort(r)), tr.X([]byte(zone))})
			w.Hist("rt-" + cls + "-zone-" + zc)
			w.Tag("rt-" + cls)
			w.Tag("zone-" + zc)
			i++
		}
		w.End()
	}
	// 1b. sockaddr -> net.Addr -> sockaddr
	zids := []uint32{0, 0, 0, 1, 2, 3, 4, 5, 9999, 65535, 65536, 16777214, 16777215, 16777216, 1 << 31, 1<<32 - 1}
	for _, i := range ifaces {
		zids = append(zids, uint32(i.Index))
	}
	total = 3000 * mult
	for i := 0; i < total; {
		newCase("rts", "roundtrip-sockaddr")
		for j := 0; j < 250 && i < total; j++ {
			kind := []string{"tcp", "udp"}[r.Intn(2)]
			ip, _ := randIP(r)
			var sa unix.Sockaddr
			switch {
			case len(ip) == 4:
				s := &unix.SockaddrInet4{Port: randPort(r)}
				copy(s.Addr[:], ip)
				sa = s
				w.Hist("rts-sa4")
			case len(ip) == 16:
				s := &unix.SockaddrInet6{Port: randPort(r), ZoneId: zids[r.Intn(len(zids))]}
				copy(s.Addr[:], ip)
				sa = s
				w.Hist("rts-sa6")
			default:
				switch r.Intn(3) {
				case 0:
					sa = &unix.SockaddrUnix{Name: string(randPath(r))}
					w.Hist("rts-unix")
				case 1:
					sa = &unix.SockaddrNetlink{}
					w.Hist("rts-other")
				default:
					sa = nil
					w.Hist("rts-nil")
				}
			}
			exec("rts", append([]string{kind}, saArgs(sa)...))
			i++
		}
		w.End()
	}
	// 2. every port 0..65535 (alternating families), plus out-of-range ints (passed through untouched)
	v4, v6 := net.IP{192, 0, 2, 2}, net.ParseIP("fd00::2")
	for base := 0; base < 65536; base += 2048 {
		newCase("port", "all-ports")
		for p := base; p < base+2048; p++ {
			ip := v4
			if p%2 == 1 {
				ip = v6
			}
			exec("rt", []string{[]string{"tcp", "udp"}[(p/2)%2], ipArg(ip), tr.I(p), "x"})
			w.Hist("port-sweep")
		}
		w.End()
	}
	newCase("port", "ports-out-of-range")
	for _, p := range []int{-1, -65536, 65536, 65537, 1 << 31, 1<<31 - 1, -1 << 31, 1 << 40} {
		exec("rt", []string{"tcp", ipArg(v4), tr.I(p), "x"})
		exec("rt", []string{"udp", ipArg(v6), tr.I(p), "x"})
		w.Hist("port-out-of-range")
	}
	w.End()
	// 3. zones: every zone string of the pool on a link-local address, and the raw zone functions
	newCase("zone", "zones")
	ll := net.ParseIP("fe80::fc:ff:fe00:1")
	for _, z := range zones {
		zc, _ := zoneClass(z)
		exec("z2i", []string{tr.X([]byte(z))})
		for _, k := range []string{"tcp", "udp", "ip"} {
			exec("rt", []string{k, ipArg(ll), "8080", tr.X([]byte(z))})
			exec("rt", []string{k, ipArg(net.IP{10, 0, 0, 1}), "8080", tr.X([]byte(z))})
			exec("rt", []string{k, "nil", "8080", tr.X([]byte(z))})
		}
		w.Hist("zone-" + zc)
		w.Tag("zone-" + zc)
	}
	for _, z := range zids {
		exec("i2z", []string{tr.U64(uint64(z))})
		exec("rts", []string{"tcp", "sa6", "443", tr.U64(uint64(z)), tr.X(ll)})
	}
	w.End()
	newCase("zone", "zone-index-sweep")
	for v := 0; v <= 300; v++ {
		exec("i2z", []string{tr.I(v)})
		exec("z2i", []string{tr.X([]byte(strconv.Itoa(v)))})
	}
	for k := 0; k < 600*mult; k++ {
		v := r.U64() >> uint(32+r.Intn(32))
		exec("i2z", []string{tr.U64(v)})
		exec("rt", []string{"tcp", ipArg(ll), "1", tr.X([]byte(strconv.FormatUint(v, 10)))})
		w.Hist("zone-random-index")
	}
	w.End()
	// 4. itod / dtoi
	for base := 0; base < 20000; base += 2500 {
		newCase("itod", "itod-sweep")
		for v := base; v < base+2500; v++ {
			exec("itod", []string{tr.I(v)})
			w.Hist("itod-small")
		}
		w.End()
	}
	newCase("itod", "itod-boundaries")
	p10 := uint64(1)
	for k := 0; k < 20; k++ {
		for _, v := range []uint64{p10 - 1, p10, p10 + 1, 9 * p10, 2*p10 - 1} {
			exec("itod", []string{tr.U64(v)})
		}
		p10 *= 10
	}
	for _, v := range []uint64{big - 2, big - 1, big, big + 1, 1<<32 - 1, 1 << 32, 1<<63 - 1, 1 << 63, 1<<64 - 1} {
		exec("itod", []string{tr.U64(v)})
	}
	for k := 0; k < 2000*mult; k++ {
		exec("itod", []string{tr.U64(r.U64() >> uint(r.Intn(64)))})
		w.Hist("itod-random")
	}
	w.End()
	newCase("dtoi", "dtoi")
	for _, s := range append(zones, "16777214x", "167772150", "1677721", "9", "99999999999999999999999") {
		for i0 := 0; i0 <= len(s)+1 && i0 < 6; i0++ {
			exec("dtoi", []string{tr.X([]byte(s)), tr.I(i0)})
		}
	}
	for k := 0; k < 3000*mult; k++ {
		n := r.Intn(12)
		b := make([]byte, n)
		for i := range b {
			switch {
			case r.Chance(85):
				b[i] = byte('0' + r.Intn(10))
			case r.Chance(50):
				b[i] = byte(r.Pick([]int{'/', ':', ' ', 'a', 0}))
			default:
				b[i] = byte(r.U64())
			}
		}
		exec("dtoi", []string{tr.X(b), tr.I(r.Intn(n + 2))})
		w.Hist("dtoi-random")
	}
	w.End()
	// 5. To4 / To16 / Equal on every length 0..20
	newCase("ip", "to4-to16")
	for n := 0; n <= 20; n++ {
		for k := 0; k < 12*mult; k++ {
			b := r.Bytes(n)
			if n == 16 && k%2 == 0 {
				for i := 0; i < 10; i++ {
					b[i] = 0
				}
				b[10], b[11] = 0xff, 0xff
				if k%4 == 0 {
					b[r.Intn(12)] ^= byte(1 << uint(r.Intn(8)))
				}
			}
			exec("to4", []string{tr.X(b)})
			exec("to16", []string{tr.X(b)})
			c := r.Bytes(r.Pick([]int{n, 4, 16, 0}))
			if n == 4 && k%3 == 0 {
				c = net.IPv4(b[0], b[1], b[2], b[3])
			}
			exec("ipeq", []string{tr.X(b), tr.X(c)})
			exec("ipeq", []string{tr.X(c), tr.X(b)})
			w.Hist(fmt.Sprintf("iplen-%02d", n))
		}
	}
	w.End()
	// 6. invalid IP lengths through every entry point, with and without zone
	newCase("inv", "invalid-ip-length")
	for n := 0; n <= 20; n++ {
		for k := 0; k < 4; k++ {
			b := r.Bytes(n)
			for _, z := range []string{"", "lo", "eth0", "9999", "junk"} {
				exec("ip2sa", []string{tr.X(b), tr.I(randPort(r)), tr.X([]byte(z))})
				exec("rt", []string{kindOf(r), tr.X(b), tr.I(randPort(r)), tr.X([]byte(z))})
			}
			w.Hist(fmt.Sprintf("ip2sa-len-%02d", n))
		}
	}
	for _, n := range []int{21, 31, 32, 64, 255, 256, 1000} {
		exec("ip2sa", []string{tr.X(r.Bytes(n)), "80", "x"})
		exec("rt", []string{"tcp", tr.X(r.Bytes(n)), "80", tr.X([]byte("lo"))})
	}
	exec("ip2sa", []string{"nil", "80", "x"})
	exec("ip2sa", []string{"nil", "80", tr.X([]byte("lo"))})
	w.End()
	// 7. unsupported networks and foreign types
	newCase("unsup", "unsupported-net")
	for _, n := range []string{"unix", "unixgram", "unixpacket", "", "tcp", "udp", "Unix", "UNIX", "unix ", " unix", "unixx", "uni", "unixgra", "unixpacke", "unixpackets", "ip", "\x00"} {
		for _, name := range []string{"", "/var/tmp/s.sock", "@abstract"} {
			exec("ua2sa", []string{tr.X([]byte(name)), tr.X([]byte(n))})
			exec("rt", []string{"unix", tr.X([]byte(name)), tr.X([]byte(n))})
			w.Hist("unixnet-" + strconv.Quote(n))
		}
	}
	exec("rt", []string{"other"})
	exec("rt", []string{"niliface"})
	exec("rt", []string{"nilptr"})
	exec("na2sa", []string{"other"})
	exec("na2sa", []string{"niliface"})
	exec("na2sa", []string{"nilptr"})
	for _, k := range []string{"sa2tcp", "sa2udp"} {
		exec(k, []string{"other"})
		exec(k, []string{"nil"})
		exec(k, []string{"unix", tr.X([]byte("/x"))})
		exec(k, []string{"unix", "x"})
	}
	exec("rts", []string{"tcp", "other"})
	exec("rts", []string{"udp", "other"})
	exec("rts", []string{"udp", "unix", tr.X([]byte("/x"))})
	w.End()
	// 8. Unix paths
	newCase("unix", "unix-paths")
	paths := [][]byte{{}, []byte("@x"), []byte("@"), []byte("/"), bytes.Repeat([]byte("p"), 107), bytes.Repeat([]byte("q"), 108),
		bytes.Repeat([]byte("r"), 109), bytes.Repeat([]byte("s"), 4096), []byte("\x00abstract"), []byte("a\x00b"), []byte("/tmp/é/ü.sock"), {0xff, 0xfe}}
	for k := 0; k < 300*mult; k++ {
		paths = append(paths, randPath(r))
	}
	for _, p := range paths {
		for _, n := range []string{"unix", "unixgram", "unixpacket"} {
			exec("rt", []string{"unix", tr.X(p), tr.X([]byte(n))})
		}
		exec("rts", []string{"tcp", "unix", tr.X(p)})
		w.Hist("unix-path")
	}
	w.End()
	// 9. listen/connect side: the sockaddr that is bound for a resolved address
	newCase("lsa", "listen-sockaddr")
	hosts := []struct {
		ip   net.IP
		zone string
	}{{nil, ""}, {net.IPv4zero, ""}, {net.IPv6zero, ""}, {net.IP{127, 0, 0, 1}, ""}, {net.IPv6loopback, ""},
		{net.ParseIP("::ffff:192.0.2.2"), ""}, {net.ParseIP("fd00::2"), ""}, {ll, "eth0"}, {ll, "lo"}, {ll, "4"}, {ll, "9999"}, {ll, "nosuch"},
		{net.ParseIP("fd00::2"), "eth0"}, {net.IP{192, 0, 2, 2}, ""}}
	for _, h := range hosts {
		for _, code := range []int{0, 4, 6} {
			for _, nm := range []string{"lsa", "lsau"} {
				exec(nm, []string{tr.I(code), tr.X(h.ip), tr.I(r.Pick(boundaryPorts)), tr.X([]byte(h.zone))})
				w.Hist("lsa-fixed")
			}
		}
	}
	for k := 0; k < 1500*mult; k++ {
		ip, cls := randIP(r)
		z := ""
		if len(ip) == 16 && ip.To4() == nil && r.Chance(40) {
			z = []string{"eth0", "lo", "4", "1", "9999", "x"}[r.Intn(6)]
		}
		exec([]string{"lsa", "lsau"}[r.Intn(2)], []string{tr.I(r.Pick([]int{0, 4, 6})), tr.X(ip), tr.I(randPort(r)), tr.X([]byte(z))})
		w.Hist("lsa-" + cls)
	}
	w.End()
	// 10. values stay what they were while the pools are churned
	genStability(r, mult)
	// 11. zone conversions among interfaces with digit-leading names (private network namespace)
	netnsPhase(r, mult)
}

// stability: values handed out earlier are re-read after pool churn and further conversions
func genStability(r *tr.Rand, mult int) {
	ll := net.ParseIP("fe80::fc:ff:fe00:1")
	zids := []uint32{0, 9999, 1234, 7, 65535, 100000, 16777214, 16777215, 1 << 31, 1<<32 - 1, 42}
	for _, i := range ifaces {
		zids = append(zids, uint32(i.Index))
	}
	for c := 0; c < 6*mult; c++ {
		newCase("stab", "addr-stability")
		n := 0
		keepOne := func() {
			switch k := r.Intn(10); {
			case k < 6:
				z := zids[r.Intn(len(zids))]
				if r.Chance(40) {
					z = uint32(1 + r.Intn(big-1))
				}
				exec("keep", []string{[]string{"tcp", "udp"}[r.Intn(2)], "sa6", tr.I(randPort(r)), tr.U64(uint64(z)), tr.X(ll)})
				w.Hist("keep-sa6")
			case k < 7:
				exec("keep", []string{"tcp", "sa4", tr.I(randPort(r)), tr.X(r.Bytes(4))})
				w.Hist("keep-sa4")
			case k < 8:
				exec("keep", []string{"tcp", "unix", tr.X(randPath(r))})
				w.Hist("keep-unix")
			default:
				exec("keepz", []string{tr.U64(uint64(zids[r.Intn(len(zids))]))})
				w.Hist("keepz")
			}
			n++
		}
		for round := 0; round < 12; round++ {
			for k := 1 + r.Intn(4); k > 0; k-- {
				keepOne()
			}
			if r.Chance(70) {
				exec("churn", []string{tr.I(1 + r.Intn(3))})
			}
			// re-read: the newest ones and a few old ones
			for k := 0; k < 4 && k < n; k++ {
				exec("recheck", []string{tr.I(n - 1 - k)})
			}
			for k := 0; k < 3; k++ {
				exec("recheck", []string{tr.I(r.Intn(n))})
			}
		}
		exec("churn", []string{"4"})
		for i := 0; i < n; i++ {
			exec("recheck", []string{tr.I(i)})
		}
		w.End()
	}
}

// netnsPhase runs the zone conversions once more inside a PRIVATE network namespace that
// contains interfaces whose names start with (or consist of) digits - names the sandbox
// itself does not have.  The goroutine is locked to an OS thread that is moved into a new
// namespace (unshare(CLONE_NEWNET)); the `ip` commands it spawns and the netlink sockets
// package net opens on this thread see that namespace only.  The thread is never unlocked,
// so it dies with the goroutine and no other goroutine ever runs in the namespace.
// Everything is best effort: without the privilege or the `ip` tool the phase is skipped
// (histogram key netns-skipped), never failed.
func netnsPhase(r *tr.Rand, mult int) {
	withNetns(func() {
		w.Hist("netns-run")
		ll := net.ParseIP("fe80::1234")
		zones := zonePool()
		for _, i := range ifaces {
			// the decimal form of every index, and digit strings around the digit-leading names
			zones = append(zones, strconv.Itoa(i.Index), i.Name+"0", "0"+i.Name)
		}
		zones = append(zones, "6", "6to", "6to4x", "12", "12a", "12abc", "8", "41", "39")
		newCase("ns", "netns-zones")
		exec("netns", []string{"digit-leading-interface-names"})
		for _, z := range zones {
			zc, _ := zoneClass(z)
			exec("z2i", []string{tr.X([]byte(z))})
			for _, k := range []string{"tcp", "udp", "ip"} {
				exec("rt", []string{k, ipArg(ll), tr.I(r.Pick(boundaryPorts)), tr.X([]byte(z))})
			}
			exec("rt", []string{"udp", ipArg(net.IP{10, 0, 0, 1}), "53", tr.X([]byte(z))})
			exec("rt", []string{"tcp", "nil", "53", tr.X([]byte(z))})
			exec("ip2sa", []string{ipArg(ll), "1", tr.X([]byte(z))})
			w.Hist("netns-zone-" + zc)
			w.Tag("netns-zone-" + zc)
		}
		for idx := 0; idx <= 45; idx++ {
			exec("i2z", []string{tr.I(idx)})
			exec("rts", []string{[]string{"tcp", "udp"}[idx%2], "sa6", "443", tr.I(idx), tr.X(ll)})
		}
		w.End()
		newCase("ns", "netns-random")
		exec("netns", []string{"digit-leading-interface-names"})
		for k := 0; k < 400*mult; k++ {
			ip, _ := randIP(r)
			exec("rt", []string{kindOf(r), ipArg(ip), tr.I(randPort(r)), tr.X([]byte(pickZone(r, zones)))})
			w.Hist("netns-random")
		}
		// listen side inside the namespace: zone names resolved by InterfaceByName only
		for _, i := range ifaces {
			exec("lsa", []string{"0", tr.X(ll), "8080", tr.X([]byte(i.Name))})
		}
		w.End()
		// an interface is renamed while the process runs: conversions made afterwards report the NEW name for its
		// index (and resolve the new name, not the old one); values handed out before keep the old name
		newCase("ns", "netns-rename")
		exec("netns", []string{"interface-renamed"})
		nk := 0
		for n, victim := range []string{"9x", "br-verif", "6to4", "12ab"} {
			idx := 0
			for _, i := range ifaces {
				if i.Name == victim {
					idx = i.Index
				}
			}
			if idx == 0 {
				continue
			}
			exec("i2z", []string{tr.I(idx)})
			exec("rts", []string{"tcp", "sa6", "443", tr.I(idx), tr.X(ll)})
			exec("keepz", []string{tr.I(idx)})
			exec("keep", []string{"udp", "sa6", "53", tr.I(idx), tr.X(ll)})
			nn := fmt.Sprintf("rn%d-%s", n, victim)
			exec("ifrename", []string{tr.I(idx), tr.X([]byte(nn))})
			exec("i2z", []string{tr.I(idx)})
			exec("rts", []string{"udp", "sa6", "443", tr.I(idx), tr.X(ll)})
			exec("rts", []string{"tcp", "sa6", "80", tr.I(idx), tr.X(ll)})
			exec("z2i", []string{tr.X([]byte(nn))})
			exec("z2i", []string{tr.X([]byte(victim))})
			exec("rt", []string{"udp", ipArg(ll), "4242", tr.X([]byte(nn))})
			exec("recheck", []string{tr.I(nk)})
			exec("recheck", []string{tr.I(nk + 1)})
			nk += 2
			w.Tag("netns-interface-renamed")
		}
		w.End()
	})
}

// withNetns runs f on a goroutine whose OS thread lives in a fresh network namespace populated
// with digit-named interfaces; `ifaces` is that namespace's table while f runs.  Returns false
// (and runs nothing) when the namespace cannot be set up.
func withNetns(f func()) (ran bool) {
	done := make(chan struct{})
	saved := ifaces
	go func() {
		defer close(done)
		runtime.LockOSThread() // deliberately no UnlockOSThread: the thread dies with this goroutine
		ipTool, err := exec_LookPath("ip")
		if err != nil {
			w.Hist("netns-skipped-no-ip-tool")
			return
		}
		if err := unix.Unshare(unix.CLONE_NEWNET); err != nil {
			w.Hist("netns-skipped-unshare-" + err.Error())
			return
		}
		run := func(args ...string) bool { return exec_Command(ipTool, args...) == nil }
		ipRun = run
		defer func() { ipRun = nil }()
		run("link", "set", "lo", "up")
		created := 0
		for _, spec := range [][]string{
			{"6to4"}, {"7"}, {"12ab"}, {"5", "index", "5"}, {"3"}, {"007"}, {"16777216"}, {"0"}, {"6in4-wan"}, {"9x"}, {"br-verif"}, {"40", "index", "40"},
		} {
			args := append([]string{"link", "add", "name", spec[0]}, spec[1:]...)
			if run(append(args, "type", "bridge")...) || run(append(args, "type", "dummy")...) {
				created++
			}
		}
		ifs, err := net.Interfaces()
		if err != nil || created == 0 {
			w.Hist("netns-skipped-no-interfaces")
			return
		}
		ifaces = ifs
		ran = true
		f()
	}()
	<-done
	ifaces = saved
	return
}

// ipRun runs the `ip` tool inside the private namespace while withNetns is active
var ipRun func(args ...string) bool

func exec_LookPath(name string) (string, error) { return osexec.LookPath(name) }

func exec_Command(name string, args ...string) error { return osexec.Command(name, args...).Run() }

func randPath(r *tr.Rand) []byte {
	n := r.Pick([]int{0, 1, 2, 5, 17, 64, 106, 107, 108, 200})
	b := make([]byte, n)
	for i := range b {
		if r.Chance(90) {
			b[i] = byte("abcdefghijklmnopqrstuvwxyz/._-@"[r.Intn(31)])
		} else {
			b[i] = byte(r.U64())
		}
	}
	return b
}

func replay(path string) {
	for _, c := range tr.ReadCases(path) {
		c := c
		body := func() {
			kept = nil
			w.Case(c.ID, "sockaddr")
			w.Tag("replay")
			for _, i := range ifaces {
				w.Op(tr.L("if", tr.X([]byte(i.Name)), tr.I(i.Index)))
			}
			for _, op := range c.Ops {
				if p, msg := tr.Guard(func() { exec(op.Name, op.Args) }); p {
					w.Fail("replay", "driver-panic op="+op.Name, msg)
				}
			}
			w.End()
		}
		inNS := false
		for _, op := range c.Ops {
			inNS = inNS || op.Name == "netns"
		}
		// a case recorded inside the private network namespace is replayed inside one
		if !inNS || !withNetns(body) {
			body()
		}
	}
}

func main() {
	seed := flag.Uint64("seed", 1, "")
	tier := flag.String("tier", "quick", "")
	out := flag.String("out", "trace.txt", "")
	stats := flag.String("stats", "", "")
	rep := flag.String("replay", "", "")
	noint := flag.Bool("nointegration", false, "skip the live-server part")
	flag.Parse()
	w = tr.NewWriter(*out)
	defer w.Close(*stats)
	ifaces, _ = net.Interfaces()
	if *rep != "" {
		replay(*rep)
		return
	}
	generate(*seed, *tier)
	if !*noint {
		integration(*seed, *tier)
	}
}
