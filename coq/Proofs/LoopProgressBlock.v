(* C01 / C02 progress: accepted output always has somebody responsible for sending it, and
   (edge-triggered) a read that filled its buffer is always followed up.  Both checkers are run
   together (product step); this file has the relation and the mutually recursive procedures. *)
From Coq Require Import Lia ZArith ZifyBool.
From GV Require Import Lib.Trace Model.Loop Spec.LoopSpec Proofs.LoopDataLib.
Open Scope string_scope.
Open Scope list_scope.
Open Scope Z_scope.

Definition ustep (u : unit) (e : ev) : option unit := Some u.

(* the trigger mode never changes *)
Lemma apply_async_et : forall s l s', apply_async s l = Some s' -> l_et s' = l_et s.
Proof.
  intros s l s' E. apply apply_async_cases in E. destruct E as [(b & t & _ & ->)|(b & c & cb & _ & ->)];
    cbn [set_flag set_queues l_et]; unfold enqueue; destruct (_ && _); reflexivity.
Qed.

Lemma pull_from_et : forall picks i s lg s' lg' o r,
  pull_from picks s lg i = (s', lg', o, r) -> l_et s' = l_et s.
Proof.
  intros picks. induction i as [|l i IH]; intros s lg s' lg' o r E; cbn [pull_from] in E.
  - inversion E; reflexivity.
  - destruct (apply_async s l) as [s1|] eqn:Ea.
    + rewrite (IH _ _ _ _ _ _ E). eapply apply_async_et; eauto.
    + destruct (negb picks && is_pick l); [eauto|inversion E; reflexivity].
Qed.

Lemma pull_gen_et : forall picks w o w', pull_gen picks w = (o, w') -> l_et (st w') = l_et (st w).
Proof.
  intros picks w o w' E. unfold pull_gen in E. destruct (halt w); [inversion E; reflexivity|].
  destruct (pull_from picks (st w) (log w) (inp w)) as [[[s lg] o'] r] eqn:Ep.
  pose proof (pull_from_et _ _ _ _ _ _ _ _ Ep) as H. destruct o'; inversion E; subst; exact H.
Qed.

Lemma sys_wr_et : forall cid fd src exact w k w', sys_wr cid fd src exact w = (k, w') -> l_et (st w') = l_et (st w).
Proof.
  intros cid fd src exact w k w' E. rewrite sys_wr_eq in E.
  destruct (pull _) as [[[nm0 args]|] w1] eqn:Ep; pose proof (pull_gen_et _ _ _ _ Ep) as H1; rewrite st_emit in H1.
  2:{ inversion E; subst; exact H1. }
  assert (Hd : forall what, l_et (st (desync what w1)) = l_et (st w)) by (intros; rewrite st_desync; exact H1).
  destruct (String.eqb nm0 "r"); [|inversion E; subst; apply Hd].
  destruct args as [|[?|?|nm] [|[off|?|?] [|[n|?|?] rest]]]; try (inversion E; subst; apply Hd).
  destruct (negb (sym_eqb nm "wr")); [inversion E; subst; apply Hd|].
  destruct (_ || _ || _); [inversion E; subst; apply Hd|].
  cbv zeta in E. destruct (n <? 0).
  - destruct rest as [|[?|?|e] ?]; inversion E; subst; rewrite ?st_ghost, ?st_emit; try exact H1.
    destruct (is_eagain e); rewrite ?st_ghost, ?st_emit; exact H1.
  - inversion E; subst. rewrite st_ghost, st_emit. exact H1.
Qed.

Lemma sysret_et : forall name w k w', sysret name w = (k, w') -> l_et (st w') = l_et (st w).
Proof.
  intros name w k w' E. rewrite sysret_eq in E.
  destruct (pull w) as [[[nm0 args]|] w1] eqn:Ep; pose proof (pull_gen_et _ _ _ _ Ep) as H1.
  2:{ inversion E; subst; exact H1. }
  assert (Hd : forall what, l_et (st (desync what w1)) = l_et (st w)) by (intros; rewrite st_desync; exact H1).
  destruct (String.eqb nm0 "r"); [|inversion E; subst; apply Hd].
  destruct args as [|[?|?|nm] [|[n|?|?] rest]]; try (inversion E; subst; apply Hd).
  destruct (negb (sym_eqb nm name)); [inversion E; subst; apply Hd|].
  destruct (n <? 0); [destruct rest as [|[?|?|?] ?]|]; inversion E; subst; exact H1.
Qed.

Lemma sys_et : forall name args w k w', sys name args w = (k, w') -> l_et (st w') = l_et (st w).
Proof. intros name args w k w' E. unfold sys in E. rewrite (sysret_et _ _ _ _ E), st_emit. reflexivity. Qed.

Lemma epctl_et : forall op fd rw e w r w', epctl op fd rw e w = (r, w') -> l_et (st w') = l_et (st w).
Proof.
  intros op fd rw e w r w' E. unfold epctl in E. destruct (sys "epctl" _ w) as [k w1] eqn:Es.
  pose proof (sys_et _ _ _ _ _ Es) as H. destruct k; inversion E; subst; exact H.
Qed.

Lemma st_desync_et : forall what w, l_et (st (desync what w)) = l_et (st w).
Proof. intros. rewrite st_desync. reflexivity. Qed.

Lemma efd_write_et : forall fuel w r w', efd_write fuel w = (r, w') -> l_et (st w') = l_et (st w).
Proof.
  induction fuel as [|f IH]; intros w r w' E; cbn [efd_write] in E.
  - inversion E; subst. apply st_desync_et.
  - destruct (sys "write" _ w) as [k w1] eqn:Es. pose proof (sys_et _ _ _ _ _ Es) as H1.
    destruct k as [? ?|e|]; try (inversion E; subst; exact H1).
    destruct (is_eagain e); [|inversion E; subst; exact H1].
    destruct (sys "read" _ w1) as [k2 w2] eqn:Es2. rewrite (IH _ _ _ E), (sys_et _ _ _ _ _ Es2). exact H1.
Qed.

Lemma trigger_et : forall b t w r w', trigger b t w = (r, w') -> l_et (st w') = l_et (st w).
Proof.
  intros b t w r w' E. unfold trigger in E.
  assert (He : l_et (enqueue (st w) b t) = l_et (st w)) by (unfold enqueue; destruct (_ && _); reflexivity).
  destruct (l_flag _); [inversion E; subst; exact He|].
  rewrite (efd_write_et _ _ _ _ E). exact He.
Qed.

(* ... nor do the mutually recursive procedures change it *)
Record EF (f : nat) : Prop := mkEF {
  ef_close : forall cid e w r w', el_close f cid e w = (r, w') -> l_et (st w') = l_et (st w);
  ef_drain : forall cid w, l_et (st (close_drain f cid w)) = l_et (st w);
  ef_write : forall cid d w r w', conn_write f cid d w = (r, w') -> l_et (st w') = l_et (st w);
  ef_wloop : forall cid d n w r w', conn_write_loop f cid d n w = (r, w') -> l_et (st w') = l_et (st w);
  ef_wvloop : forall cid sg n w r w', conn_writev_loop f cid sg n w = (r, w') -> l_et (st w') = l_et (st w);
  ef_writev : forall cid sg w r w', conn_writev f cid sg w = (r, w') -> l_et (st w') = l_et (st w);
  ef_elwrite : forall cid sent w r w', el_write f cid sent w = (r, w') -> l_et (st w') = l_et (st w);
  ef_handler : forall cid w r w', handler f cid w = (r, w') -> l_et (st w') = l_et (st w);
  ef_hcall : forall cid call args w, l_et (st (hcall f cid call args w)) = l_et (st w)
}.

Ltac et_step :=
  repeat match goal with
  | |- context [st (emit _ _)] => rewrite st_emit
  | |- context [st (ghost _ _ _ _)] => rewrite st_ghost
  | |- context [st (desync _ _)] => rewrite st_desync
  | H : sys_wr _ _ _ _ _ = (_, ?w1) |- context [l_et (st ?w1)] => rewrite (sys_wr_et _ _ _ _ _ _ _ H)
  | H : sys _ _ _ = (_, ?w1) |- context [l_et (st ?w1)] => rewrite (sys_et _ _ _ _ _ H)
  | H : epctl _ _ _ _ _ = (_, ?w1) |- context [l_et (st ?w1)] => rewrite (epctl_et _ _ _ _ _ _ _ H)
  | H : trigger _ _ _ = (_, ?w1) |- context [l_et (st ?w1)] => rewrite (trigger_et _ _ _ _ _ H)
  | H : pull _ = (_, ?w1) |- context [l_et (st ?w1)] => rewrite (pull_gen_et _ _ _ _ H)
  | |- context [l_et (st (wsetc _ _ _))] => change (l_et (st (wsetc ?w ?c ?x))) with (l_et (st w))
  | |- context [l_et (st (with_st ?w (set_reg _ _)))] => change (l_et (st (with_st w (set_reg ?s ?r)))) with (l_et s)
  end.

Ltac break_match :=
  match goal with
  | |- context [match ?x with _ => _ end] => destruct x eqn:?
  end.

Ltac et_ih M :=
  repeat match goal with
  | H : el_close _ _ _ _ = (_, ?w1) |- context [l_et (st ?w1)] => rewrite (ef_close _ M _ _ _ _ _ H)
  | H : conn_write _ _ _ _ = (_, ?w1) |- context [l_et (st ?w1)] => rewrite (ef_write _ M _ _ _ _ _ H)
  | H : conn_write_loop _ _ _ _ _ = (_, ?w1) |- context [l_et (st ?w1)] => rewrite (ef_wloop _ M _ _ _ _ _ _ H)
  | H : conn_writev_loop _ _ _ _ _ = (_, ?w1) |- context [l_et (st ?w1)] => rewrite (ef_wvloop _ M _ _ _ _ _ _ H)
  | H : conn_writev _ _ _ _ = (_, ?w1) |- context [l_et (st ?w1)] => rewrite (ef_writev _ M _ _ _ _ _ H)
  | H : el_write _ _ _ _ = (_, ?w1) |- context [l_et (st ?w1)] => rewrite (ef_elwrite _ M _ _ _ _ _ H)
  | H : handler _ _ _ = (_, ?w1) |- context [l_et (st ?w1)] => rewrite (ef_handler _ M _ _ _ _ H)
  | |- context [l_et (st (close_drain _ _ _))] => rewrite (ef_drain _ M)
  | |- context [l_et (st (hcall _ _ _ _ _))] => rewrite (ef_hcall _ M)
  | _ => progress et_step
  end.

Ltac break_snd :=
  match goal with
  | |- context [snd ?x] => lazymatch x with (_, _) => fail | _ => destruct x eqn:? end
  end.
Ltac et_crush M := repeat (first [break_match | break_snd | progress cbn [snd]]); et_ih M; repeat (break_match; et_ih M); try reflexivity; try assumption; try congruence.

Lemma EF_all : forall f, EF f.
Proof.
  induction f as [|f M].
  - constructor; intros; cbn in *;
      try match goal with E : (_, _) = (_, _) |- _ => inversion E; subst end; try reflexivity; apply st_desync_et.
  - constructor.
    + intros cid e w r w' E. replace w' with (snd (el_close (S f) cid e w)) by (rewrite E; reflexivity).
      clear E. cbn [el_close]. et_crush M.
    + intros cid w. cbn [close_drain]. et_crush M.
    + intros cid d w r w' E. replace w' with (snd (conn_write (S f) cid d w)) by (rewrite E; reflexivity).
      clear E. cbn [conn_write]. et_crush M.
    + intros cid d n w r w' E. replace w' with (snd (conn_write_loop (S f) cid d n w)) by (rewrite E; reflexivity).
      clear E. cbn [conn_write_loop]. et_crush M.
    + intros cid sg n w r w' E. replace w' with (snd (conn_writev_loop (S f) cid sg n w)) by (rewrite E; reflexivity).
      clear E. cbn [conn_writev_loop]. et_crush M.
    + intros cid sg w r w' E. replace w' with (snd (conn_writev (S f) cid sg w)) by (rewrite E; reflexivity).
      clear E. cbn [conn_writev]. et_crush M.
    + intros cid sent w r w' E. replace w' with (snd (el_write (S f) cid sent w)) by (rewrite E; reflexivity).
      clear E. cbn [el_write]. et_crush M.
    + intros cid w r w' E. replace w' with (snd (handler (S f) cid w)) by (rewrite E; reflexivity).
      clear E. rewrite handler_eq. et_crush M.
    + intros cid call args w. cbn [hcall]. et_crush M.
Qed.

(* ... nor does the size of the read buffer *)
Lemma apply_async_bc : forall s l s', apply_async s l = Some s' -> l_bufcap s' = l_bufcap s.
Proof.
  intros s l s' E. apply apply_async_cases in E. destruct E as [(b & t & _ & ->)|(b & c & cb & _ & ->)];
    cbn [set_flag set_queues l_bufcap]; unfold enqueue; destruct (_ && _); reflexivity.
Qed.

Lemma pull_from_bc : forall picks i s lg s' lg' o r,
  pull_from picks s lg i = (s', lg', o, r) -> l_bufcap s' = l_bufcap s.
Proof.
  intros picks. induction i as [|l i IH]; intros s lg s' lg' o r E; cbn [pull_from] in E.
  - inversion E; reflexivity.
  - destruct (apply_async s l) as [s1|] eqn:Ea.
    + rewrite (IH _ _ _ _ _ _ E). eapply apply_async_bc; eauto.
    + destruct (negb picks && is_pick l); [eauto|inversion E; reflexivity].
Qed.

Lemma pull_gen_bc : forall picks w o w', pull_gen picks w = (o, w') -> l_bufcap (st w') = l_bufcap (st w).
Proof.
  intros picks w o w' E. unfold pull_gen in E. destruct (halt w); [inversion E; reflexivity|].
  destruct (pull_from picks (st w) (log w) (inp w)) as [[[s lg] o'] r] eqn:Ep.
  pose proof (pull_from_bc _ _ _ _ _ _ _ _ Ep) as H. destruct o'; inversion E; subst; exact H.
Qed.

Lemma sys_wr_bc : forall cid fd src exact w k w', sys_wr cid fd src exact w = (k, w') -> l_bufcap (st w') = l_bufcap (st w).
Proof.
  intros cid fd src exact w k w' E. rewrite sys_wr_eq in E.
  destruct (pull _) as [[[nm0 args]|] w1] eqn:Ep; pose proof (pull_gen_bc _ _ _ _ Ep) as H1; rewrite st_emit in H1.
  2:{ inversion E; subst; exact H1. }
  assert (Hd : forall what, l_bufcap (st (desync what w1)) = l_bufcap (st w)) by (intros; rewrite st_desync; exact H1).
  destruct (String.eqb nm0 "r"); [|inversion E; subst; apply Hd].
  destruct args as [|[?|?|nm] [|[off|?|?] [|[n|?|?] rest]]]; try (inversion E; subst; apply Hd).
  destruct (negb (sym_eqb nm "wr")); [inversion E; subst; apply Hd|].
  destruct (_ || _ || _); [inversion E; subst; apply Hd|].
  cbv zeta in E. destruct (n <? 0).
  - destruct rest as [|[?|?|e] ?]; inversion E; subst; rewrite ?st_ghost, ?st_emit; try exact H1.
    destruct (is_eagain e); rewrite ?st_ghost, ?st_emit; exact H1.
  - inversion E; subst. rewrite st_ghost, st_emit. exact H1.
Qed.

Lemma sysret_bc : forall name w k w', sysret name w = (k, w') -> l_bufcap (st w') = l_bufcap (st w).
Proof.
  intros name w k w' E. rewrite sysret_eq in E.
  destruct (pull w) as [[[nm0 args]|] w1] eqn:Ep; pose proof (pull_gen_bc _ _ _ _ Ep) as H1.
  2:{ inversion E; subst; exact H1. }
  assert (Hd : forall what, l_bufcap (st (desync what w1)) = l_bufcap (st w)) by (intros; rewrite st_desync; exact H1).
  destruct (String.eqb nm0 "r"); [|inversion E; subst; apply Hd].
  destruct args as [|[?|?|nm] [|[n|?|?] rest]]; try (inversion E; subst; apply Hd).
  destruct (negb (sym_eqb nm name)); [inversion E; subst; apply Hd|].
  destruct (n <? 0); [destruct rest as [|[?|?|?] ?]|]; inversion E; subst; exact H1.
Qed.

Lemma sys_bc : forall name args w k w', sys name args w = (k, w') -> l_bufcap (st w') = l_bufcap (st w).
Proof. intros name args w k w' E. unfold sys in E. rewrite (sysret_bc _ _ _ _ E), st_emit. reflexivity. Qed.

Lemma epctl_bc : forall op fd rw e w r w', epctl op fd rw e w = (r, w') -> l_bufcap (st w') = l_bufcap (st w).
Proof.
  intros op fd rw e w r w' E. unfold epctl in E. destruct (sys "epctl" _ w) as [k w1] eqn:Es.
  pose proof (sys_bc _ _ _ _ _ Es) as H. destruct k; inversion E; subst; exact H.
Qed.

Lemma st_desync_bc : forall what w, l_bufcap (st (desync what w)) = l_bufcap (st w).
Proof. intros. rewrite st_desync. reflexivity. Qed.

Lemma efd_write_bc : forall fuel w r w', efd_write fuel w = (r, w') -> l_bufcap (st w') = l_bufcap (st w).
Proof.
  induction fuel as [|f IH]; intros w r w' E; cbn [efd_write] in E.
  - inversion E; subst. apply st_desync_bc.
  - destruct (sys "write" _ w) as [k w1] eqn:Es. pose proof (sys_bc _ _ _ _ _ Es) as H1.
    destruct k as [? ?|e|]; try (inversion E; subst; exact H1).
    destruct (is_eagain e); [|inversion E; subst; exact H1].
    destruct (sys "read" _ w1) as [k2 w2] eqn:Es2. rewrite (IH _ _ _ E), (sys_bc _ _ _ _ _ Es2). exact H1.
Qed.

Lemma trigger_bc : forall b t w r w', trigger b t w = (r, w') -> l_bufcap (st w') = l_bufcap (st w).
Proof.
  intros b t w r w' E. unfold trigger in E.
  assert (He : l_bufcap (enqueue (st w) b t) = l_bufcap (st w)) by (unfold enqueue; destruct (_ && _); reflexivity).
  destruct (l_flag _); [inversion E; subst; exact He|].
  rewrite (efd_write_bc _ _ _ _ E). exact He.
Qed.


Record BF (f : nat) : Prop := mkBF {
  bf_close : forall cid e w r w', el_close f cid e w = (r, w') -> l_bufcap (st w') = l_bufcap (st w);
  bf_drain : forall cid w, l_bufcap (st (close_drain f cid w)) = l_bufcap (st w);
  bf_write : forall cid d w r w', conn_write f cid d w = (r, w') -> l_bufcap (st w') = l_bufcap (st w);
  bf_wloop : forall cid d n w r w', conn_write_loop f cid d n w = (r, w') -> l_bufcap (st w') = l_bufcap (st w);
  bf_wvloop : forall cid sg n w r w', conn_writev_loop f cid sg n w = (r, w') -> l_bufcap (st w') = l_bufcap (st w);
  bf_writev : forall cid sg w r w', conn_writev f cid sg w = (r, w') -> l_bufcap (st w') = l_bufcap (st w);
  bf_elwrite : forall cid sent w r w', el_write f cid sent w = (r, w') -> l_bufcap (st w') = l_bufcap (st w);
  bf_handler : forall cid w r w', handler f cid w = (r, w') -> l_bufcap (st w') = l_bufcap (st w);
  bf_hcall : forall cid call args w, l_bufcap (st (hcall f cid call args w)) = l_bufcap (st w)
}.

Ltac bc_step :=
  repeat match goal with
  | |- context [st (emit _ _)] => rewrite st_emit
  | |- context [st (ghost _ _ _ _)] => rewrite st_ghost
  | |- context [st (desync _ _)] => rewrite st_desync
  | H : sys_wr _ _ _ _ _ = (_, ?w1) |- context [l_bufcap (st ?w1)] => rewrite (sys_wr_bc _ _ _ _ _ _ _ H)
  | H : sys _ _ _ = (_, ?w1) |- context [l_bufcap (st ?w1)] => rewrite (sys_bc _ _ _ _ _ H)
  | H : epctl _ _ _ _ _ = (_, ?w1) |- context [l_bufcap (st ?w1)] => rewrite (epctl_bc _ _ _ _ _ _ _ H)
  | H : trigger _ _ _ = (_, ?w1) |- context [l_bufcap (st ?w1)] => rewrite (trigger_bc _ _ _ _ _ H)
  | H : pull _ = (_, ?w1) |- context [l_bufcap (st ?w1)] => rewrite (pull_gen_bc _ _ _ _ H)
  | |- context [l_bufcap (st (wsetc _ _ _))] => change (l_bufcap (st (wsetc ?w ?c ?x))) with (l_bufcap (st w))
  | |- context [l_bufcap (st (with_st ?w (set_reg _ _)))] => change (l_bufcap (st (with_st w (set_reg ?s ?r)))) with (l_bufcap s)
  end.


Ltac bc_ih M :=
  repeat match goal with
  | H : el_close _ _ _ _ = (_, ?w1) |- context [l_bufcap (st ?w1)] => rewrite (bf_close _ M _ _ _ _ _ H)
  | H : conn_write _ _ _ _ = (_, ?w1) |- context [l_bufcap (st ?w1)] => rewrite (bf_write _ M _ _ _ _ _ H)
  | H : conn_write_loop _ _ _ _ _ = (_, ?w1) |- context [l_bufcap (st ?w1)] => rewrite (bf_wloop _ M _ _ _ _ _ _ H)
  | H : conn_writev_loop _ _ _ _ _ = (_, ?w1) |- context [l_bufcap (st ?w1)] => rewrite (bf_wvloop _ M _ _ _ _ _ _ H)
  | H : conn_writev _ _ _ _ = (_, ?w1) |- context [l_bufcap (st ?w1)] => rewrite (bf_writev _ M _ _ _ _ _ H)
  | H : el_write _ _ _ _ = (_, ?w1) |- context [l_bufcap (st ?w1)] => rewrite (bf_elwrite _ M _ _ _ _ _ H)
  | H : handler _ _ _ = (_, ?w1) |- context [l_bufcap (st ?w1)] => rewrite (bf_handler _ M _ _ _ _ H)
  | |- context [l_bufcap (st (close_drain _ _ _))] => rewrite (bf_drain _ M)
  | |- context [l_bufcap (st (hcall _ _ _ _ _))] => rewrite (bf_hcall _ M)
  | _ => progress bc_step
  end.

Ltac bc_crush M := repeat (first [break_match | break_snd | progress cbn [snd]]); bc_ih M; repeat (break_match; bc_ih M); try reflexivity; try assumption; try congruence.

Lemma BF_all : forall f, BF f.
Proof.
  induction f as [|f M].
  - constructor; intros; cbn in *;
      try match goal with E : (_, _) = (_, _) |- _ => inversion E; subst end; try reflexivity; apply st_desync_bc.
  - constructor.
    + intros cid e w r w' E. replace w' with (snd (el_close (S f) cid e w)) by (rewrite E; reflexivity).
      clear E. cbn [el_close]. bc_crush M.
    + intros cid w. cbn [close_drain]. bc_crush M.
    + intros cid d w r w' E. replace w' with (snd (conn_write (S f) cid d w)) by (rewrite E; reflexivity).
      clear E. cbn [conn_write]. bc_crush M.
    + intros cid d n w r w' E. replace w' with (snd (conn_write_loop (S f) cid d n w)) by (rewrite E; reflexivity).
      clear E. cbn [conn_write_loop]. bc_crush M.
    + intros cid sg n w r w' E. replace w' with (snd (conn_writev_loop (S f) cid sg n w)) by (rewrite E; reflexivity).
      clear E. cbn [conn_writev_loop]. bc_crush M.
    + intros cid sg w r w' E. replace w' with (snd (conn_writev (S f) cid sg w)) by (rewrite E; reflexivity).
      clear E. cbn [conn_writev]. bc_crush M.
    + intros cid sent w r w' E. replace w' with (snd (el_write (S f) cid sent w)) by (rewrite E; reflexivity).
      clear E. cbn [el_write]. bc_crush M.
    + intros cid w r w' E. replace w' with (snd (handler (S f) cid w)) by (rewrite E; reflexivity).
      clear E. rewrite handler_eq. bc_crush M.
    + intros cid call args w. cbn [hcall]. bc_crush M.
Qed.


Section ET.
Variable et : bool.
Variable nd : list Z.      (* connections treated as clean although a ReadFrom is outstanding *)

Definition rdx (b : rdst) (e : ev) : option rdst := if et then rd_step b e else Some b.

Definition qstep (x : progst * rdst) (e : ev) : option (progst * rdst) :=
  match prog_step (fst x) e, rdx (snd x) e with
  | Some p, Some b => Some (p, b)
  | _, _ => None
  end.

Definition q0 : progst * rdst := (mkP et [] None [] [] [], mkR 0 None None).
Notation QINV := (Inv ustep qstep tt q0).

(* lines neither checker looks at *)
Definition qign (l : line) : Prop :=
  is_desync (EOut l) = false /\ (forall p, prog_step p (EOut l) = Some p) /\ (forall b, rd_step b (EOut l) = Some b).

Lemma qign_out_ign : forall l, qign l -> out_ign ustep qstep l.
Proof.
  intros l (Hd & Hp & Hr). split; [exact Hd|]. intros h [p b]. split; [reflexivity|].
  unfold qstep, rdx. cbn [fst snd]. rewrite Hp. destruct et; [rewrite Hr|]; reflexivity.
Qed.

(* input lines: the output-progress checker only looks at results of epoll_ctl, the read checker
   only at results of read (and there only at its scratch field r_cap) *)
Lemma prog_step_in_other : forall p l, p_last p = None -> prog_step p (EIn l) = Some p.
Proof.
  intros p [name args] Hl. unfold prog_step.
  crack_goal ltac:(reflexivity). all: try reflexivity.
  all: destruct args as [|[?|?|nm] [|[n|?|?] rest]]; try reflexivity.
  all: crack_goal ltac:(reflexivity). all: try reflexivity.
  all: rewrite Hl; reflexivity.
Qed.

Lemma rd_step_in : forall b l, exists c, rd_step b (EIn l) = Some (mkR c (r_full b) (r_cur b)).
Proof.
  intros b [name args]. unfold rd_step.
  assert (Hs : exists c, Some b = Some (mkR c (r_full b) (r_cur b))) by (exists (r_cap b); destruct b; reflexivity).
  crack_goal ltac:(exact Hs). all: try exact Hs.
  all: destruct args as [|[?|?|nm] [|[n|?|?] rest]]; try exact Hs.
  all: crack_goal ltac:(exact Hs). all: try exact Hs.
  all: eexists; reflexivity.
Qed.

(* ------------------------------------------------------------------ *)
(* the relation *)

Definition pdead (p : progst) (c : Z) : bool := zmem c (p_dead p).
Definition pdirty (p : progst) (c : Z) : bool := zmem c (p_dirty p).
Definition clean (p : progst) (c : Z) : Prop := pdirty p c = false \/ In c nd.

(* side assertions *)
Inductive qxa :=
| QNone
| QOpen (c : Z)
| QReg (c fd : Z) (ub : bool)
| QLt (c : Z)
| QRegd (c : Z)
| QE (c fd : Z) (o : bool)   (* inside a write: c (on descriptor fd) has c_out = [], and (o) is owed *)
| QX (c : Z)                 (* c is exempt from the main clause until the write settles *)
| QEf (c fd : Z)             (* c is open on descriptor fd with an empty outbound buffer *)
| QNoReg (fd : Z)            (* no connection is registered under fd *)
| QOf (c fd : Z)             (* level-triggered: c is open on descriptor fd *)
| QXf (c fd : Z)             (* c (on descriptor fd) is exempt until its write interest is registered *)
| QFalse.

Definition qsem (xa : qxa) (p : progst) (s : lstate) : Prop :=
  match xa with
  | QNone => True
  | QOpen c => c_opened (getc s c) = true
  | QReg c fd ub => c < l_next s /\ c_fd (getc s c) = fd /\ alookup fd (l_reg s) = None /\ c_udp (getc s c) = ub
  | QLt c => c < l_next s
  | QRegd c => c < l_next s /\ alookup (c_fd (getc s c)) (l_reg s) = Some c
  | QE c fd o => c < l_next s /\ c_out (getc s c) = [] /\ (o = true -> zmem c (p_owed p) = true) /\
                 c_fd (getc s c) = fd /\ (c_opened (getc s c) = true \/ zmem c (p_dead p) = true)
  | QX c => True
  | QEf c fd => c < l_next s /\ c_out (getc s c) = [] /\ c_fd (getc s c) = fd /\ c_opened (getc s c) = true
  | QNoReg fd => alookup fd (l_reg s) = None
  | QOf c fd => c < l_next s /\ c_fd (getc s c) = fd /\ c_opened (getc s c) = true
  | QXf c fd => c < l_next s /\ c_fd (getc s c) = fd /\ (c_opened (getc s c) = true \/ zmem c (p_dead p) = true)
  | QFalse => False
  end.

Definition exempt (xa : qxa) (c : Z) : Prop :=
  match xa with QX c0 => c0 = c | QXf c0 _ => c0 = c | _ => False end.

Definition served (p : progst) (fd c : Z) : Prop :=
  if et then zmem c (p_owed p) = true else getd false fd (p_want_w p) = true.

(* W: connections inside el_close (announced closed, descriptor not yet closed);
   ops: connections that stay open until their close is announced;
   rf: the connection whose full read is being followed up *)
(* what is known of a connection across a call: either it stays open (on its descriptor) until its
   close is announced, or it is a datagram identity, which is never opened *)
Definition opsem (k : option Z) (p : progst) (s : lstate) (c : Z) : Prop :=
  match k with
  | Some fd => c_fd (getc s c) = fd /\ (c_opened (getc s c) = true \/ pdead p c = true)
  | None => c_udp (getc s c) = true /\ c_opened (getc s c) = false
  end.

Lemma opsem_same : forall k p p' s s' c,
  c_fd (getc s' c) = c_fd (getc s c) -> c_opened (getc s' c) = c_opened (getc s c) ->
  c_udp (getc s' c) = c_udp (getc s c) -> (pdead p c = true -> pdead p' c = true) ->
  opsem k p s c -> opsem k p' s' c.
Proof. intros k p p' s s' c Hf Ho Hu Hd. unfold opsem. rewrite Hf, Ho, Hu. destruct k; tauto. Qed.

Record RQ (W : list Z) (ops : list (Z * option Z)) (xa : qxa) (rf : option Z) (u : unit) (x : progst * rdst) (s : lstate) : Prop := mkRQ {
  q_et : l_et s = et /\ p_et (fst x) = et;
  q_last : p_last (fst x) = None;
  q_opn : forall c, c_opened (getc s c) = true -> c < l_next s;
  q_task : forall c cb, In (TRegister c cb) (tasks s) -> c < l_next s;
  q_reg : forall c, c_opened (getc s c) = true ->
      alookup (c_fd (getc s c)) (l_reg s) = Some c \/ (alookup (c_fd (getc s c)) (l_reg s) = None /\ In c W);
  q_reglt : forall fd c, In (fd, c) (l_reg s) -> c < l_next s /\ alookup fd (l_reg s) = Some c /\ c_fd (getc s c) = fd;
  q_regop : forall fd c, In (fd, c) (l_reg s) -> pdead (fst x) c = false ->
      c_opened (getc s c) = true \/ c_udp (getc s c) = true \/ xa = QRegd c;
  q_W : forall c, In c W -> pdead (fst x) c = true /\ alookup (c_fd (getc s c)) (l_reg s) = None /\ c < l_next s;
  q_ops : forall c k, In (c, k) ops -> c < l_next s /\ opsem k (fst x) s c;
  q_nop : forall c, c_opened (getc s c) = false -> c_udp (getc s c) = false ->
      pdead (fst x) c = false -> clean (fst x) c -> c_out (getc s c) = [];
  q_main : forall fd c, In (fd, c) (l_reg s) -> c_udp (getc s c) = false ->
      pdead (fst x) c = false -> clean (fst x) c -> c_out (getc s c) <> [] -> ~ exempt xa c ->
      served (fst x) fd c;
  q_rd : et = true -> r_full (snd x) = None \/
      (exists c, rf = Some c /\ r_full (snd x) = Some c /\ c_opened (getc s c) = true /\ ~ In c W);
  q_x : qsem xa (fst x) s
}.

Lemma in_alookup : forall A k (v : A) m, In (k, v) m -> alookup k m <> None.
Proof.
  induction m as [|[k0 v0] m IH]; cbn [In alookup]; [tauto|].
  intros [E|H]; [inversion E; subst; rewrite Z.eqb_refl; discriminate|].
  destruct (k =? k0); [discriminate|auto].
Qed.
Lemma alookup_in : forall A k (v : A) m, alookup k m = Some v -> In (k, v) m.
Proof.
  induction m as [|[k0 v0] m IH]; cbn [In alookup]; [discriminate|].
  destruct (Z.eqb_spec k k0) as [->|N]; [intros E; inversion E; auto|auto].
Qed.
Lemma in_aremove : forall A k k' (v : A) m, In (k, v) (aremove k' m) <-> In (k, v) m /\ k <> k'.
Proof.
  induction m as [|[k0 v0] m IH]; cbn [In aremove]; [tauto|].
  destruct (Z.eqb_spec k' k0) as [->|N]; cbn [In]; rewrite IH.
  - split; [tauto|]. intros [[E|H] Hn]; [inversion E; congruence|auto].
  - split; [intros [E|[H Hn]]; [inversion E; subst; auto|auto]|tauto].
Qed.
Lemma in_aset : forall A k k' (v v' : A) m, In (k, v) (aset k' v' m) <-> (k = k' /\ v = v') \/ (In (k, v) m /\ k <> k').
Proof.
  intros. unfold aset. cbn [In]. rewrite in_aremove. split.
  - intros [E|H]; [inversion E; auto|auto].
  - intros [[-> ->]|H]; auto.
Qed.

(* tolerance to input lines *)
Lemma RQ_in : forall W ops xa rf u x s l x',
  RQ W ops xa rf u x s -> qstep x (EIn l) = Some x' -> RQ W ops xa rf u x' s.
Proof.
  intros W ops xa rf u [p b] s l x' HR E. unfold qstep in E. cbn [fst snd] in *.
  rewrite (prog_step_in_other _ _ (q_last _ _ _ _ _ _ _ HR)) in E.
  destruct (rd_step_in b l) as [c Hc]. unfold rdx in E.
  assert (Hx : exists b', x' = (p, b') /\ r_full b' = r_full b).
  { destruct et; [rewrite Hc in E|]; inversion E; eauto. }
  destruct Hx as (b' & -> & Hf). destruct HR as [R1 R2 R3 R4 R5 R6 R7 R8 R9 R10 R11 R12 R13].
  constructor; cbn [fst snd] in *; auto. rewrite Hf. exact R12.
Qed.

Lemma RQ_in_ign : forall W ops xa rf, in_ign ustep qstep (fun _ => True) (RQ W ops xa rf).
Proof. intros W ops xa rf h x s l h' x' _ HR E1 E2. inversion E1; subst. eapply RQ_in; eauto. Qed.

Lemma qstep_in_some : forall W ops xa rf u x s l, RQ W ops xa rf u x s -> qstep x (EIn l) <> None.
Proof.
  intros W ops xa rf u [p b] s l HR. unfold qstep. cbn [fst snd].
  rewrite (prog_step_in_other _ _ (q_last _ _ _ _ _ _ _ HR)).
  destruct (rd_step_in b l) as [c Hc]. unfold rdx. destruct et; [rewrite Hc|]; discriminate.
Qed.

Lemma RQ_frame : forall W ops xa rf u x s s',
  RQ W ops xa rf u x s ->
  (forall c, getc s' c = getc s c) -> l_reg s' = l_reg s -> l_next s' = l_next s -> l_et s' = l_et s ->
  (forall c cb, In (TRegister c cb) (tasks s') -> In (TRegister c cb) (tasks s)) ->
  RQ W ops xa rf u x s'.
Proof.
  intros W ops xa rf u x s s' [R1 R2 R3 R4 R5 R6 R7 R8 R9 R10 R11 R12 R13] Hc Hr Hn He Ht.
  constructor; intros; rewrite ?Hc, ?Hr, ?Hn, ?He in *; eauto.
  - destruct (R9 _ _ H) as [A B]. split; [exact A|]. eapply opsem_same; [| | | |exact B]; rewrite ?Hc; auto.
  - destruct (R12 H) as [A|(c & A & B & C & D)]; [left; exact A|right; exists c; rewrite Hc; auto].
  - destruct xa; cbn [qsem] in *; rewrite ?Hc, ?Hr, ?Hn; auto.
Qed.

Lemma RQ_enq : forall W ops xa rf, enq_ok (RQ W ops xa rf).
Proof.
  intros W ops xa rf h x s b t HR Ht. eapply RQ_frame; [exact HR| | | | |].
  - intros. apply getc_enqueue.
  - apply l_reg_enqueue.
  - apply l_next_enqueue.
  - unfold enqueue. destruct (_ && _); reflexivity.
  - intros c cb Hin. apply tasks_enqueue in Hin. destruct Hin as [E|Hin]; [subst t; cbn in Ht; discriminate Ht|exact Hin].
Qed.

Lemma RQ_flag : forall W ops xa rf, flag_ok (RQ W ops xa rf).
Proof. intros W ops xa rf h x s f HR. eapply RQ_frame; [exact HR| | | | |]; auto. Qed.

(* a fresh connection at l_next *)
Lemma RQ_fresh : forall W ops xa rf u x s c,
  RQ W ops xa rf u x s -> c_opened c = false -> c_out c = [] ->
  RQ W ops xa rf u x (set_next (setc s (l_next s) c) (l_next s + 1)).
Proof.
  intros W ops xa rf u x s c [R1 R2 R3 R4 R5 R6 R7 R8 R9 R10 R11 R12 R13] Ho Hout.
  assert (G : forall c0, c0 < l_next s -> getc (set_next (setc s (l_next s) c) (l_next s + 1)) c0 = getc s c0).
  { intros c0 H. rewrite getc_set_next, getc_setc. destruct (Z.eqb_spec c0 (l_next s)); [lia|reflexivity]. }
  assert (Gn : getc (set_next (setc s (l_next s) c) (l_next s + 1)) (l_next s) = c).
  { rewrite getc_set_next, getc_setc, Z.eqb_refl. reflexivity. }
  constructor; cbn [set_next setc l_next l_reg l_et].
  - exact R1.
  - exact R2.
  - intros c0. destruct (Z.eq_dec c0 (l_next s)) as [->|N]; [rewrite Gn; congruence|].
    rewrite getc_set_next, getc_setc. replace (c0 =? l_next s) with false by lia. intros H. apply R3 in H. lia.
  - intros c0 cb H. apply R4 in H. lia.
  - intros c0. destruct (Z.eq_dec c0 (l_next s)) as [->|N]; [rewrite Gn; congruence|].
    rewrite getc_set_next, getc_setc. replace (c0 =? l_next s) with false by lia. auto.
  - intros fd c0 H. destruct (R6 _ _ H) as (A & B & C). rewrite (G _ A). repeat split; auto. lia.
  - intros fd c0 H D. pose proof (proj1 (R6 _ _ H)) as Hlt. rewrite (G _ Hlt). eauto.
  - intros c0 H. destruct (R8 _ H) as (A & B & C). rewrite (G _ C). repeat split; auto. lia.
  - intros c0 k H. destruct (R9 _ _ H) as (A & B). split; [lia|]. eapply opsem_same; [| | | |exact B]; rewrite ?(G _ A); auto.
  - intros c0. destruct (Z.eq_dec c0 (l_next s)) as [->|N]; [rewrite Gn; auto|].
    rewrite getc_set_next, getc_setc. replace (c0 =? l_next s) with false by lia. auto.
  - intros fd c0 H. pose proof (proj1 (R6 _ _ H)) as Hlt. rewrite (G _ Hlt). eauto.
  - intros E. destruct (R12 E) as [A|(c0 & A & B & C & D)]; [left; exact A|].
    right. exists c0. rewrite (G _ (R3 _ C)). auto.
  - destruct xa as [|c0|c0 fd ub|c0|c0|c0 fd o|c0|c0 fd|fd|c0 fd|c0 fd|]; cbn [qsem] in *; cbn [set_next setc l_next l_reg]; auto.
    + rewrite (G _ (R3 _ R13)). exact R13.
    + destruct R13 as (A & B & C & D). rewrite (G _ A). repeat split; auto. lia.
    + lia.
    + destruct R13 as (A & B). rewrite (G _ A). split; [lia|exact B].
    + destruct R13 as (A & B & C & D & E). rewrite (G _ A). repeat split; auto. lia.
    + destruct R13 as (A & B & C & D). rewrite (G _ A). repeat split; auto. lia.
    + destruct R13 as (A & B & C). rewrite (G _ A). repeat split; auto. lia.
    + destruct R13 as (A & B & C). rewrite (G _ A). repeat split; auto. lia.
Qed.

Lemma RQ_pull_ok : forall W ops xa rf, pull_ok ustep qstep (RQ W ops xa rf).
Proof.
  intros W ops xa rf. split.
  - intros h x s l HR. eapply qstep_in_some; eauto.
  - intros h x s l s' h' x' HR Ea _ Es. destruct h, h'.
    pose proof (RQ_in _ _ _ _ _ _ _ _ _ HR Es) as HR'. clear HR Es.
    apply apply_async_cases in Ea. destruct Ea as [(b & t & Ht & ->)|(b & c & cb & Hc & ->)].
    + apply RQ_flag. apply RQ_enq; assumption.
    + destruct Hc as (Ho & _ & Hout & _ & _).
      pose proof (RQ_fresh _ _ _ _ _ _ _ c HR' Ho Hout) as HF.
      apply RQ_flag.
      set (s1 := set_next (setc s (l_next s) c) (l_next s + 1)) in *.
      destruct HF as [R1 R2 R3 R4 R5 R6 R7 R8 R9 R10 R11 R12 R13].
      constructor; intros; rewrite ?getc_enqueue, ?l_reg_enqueue, ?l_next_enqueue in *; eauto.
      * unfold enqueue. destruct (_ && _); exact R1.
      * apply tasks_enqueue in H. destruct H as [H|H]; [inversion H; subst; subst s1; cbn [set_next l_next]; lia|eauto].
      * destruct (R9 _ _ H) as [A B]. split; [exact A|]. eapply opsem_same; [| | | |exact B]; rewrite ?getc_enqueue; auto.
      * destruct (R12 H) as [A|(c0 & A & B & C & D)]; [left; exact A|right; exists c0; rewrite getc_enqueue; auto].
      * destruct xa; cbn [qsem] in *; rewrite ?getc_enqueue, ?l_reg_enqueue, ?l_next_enqueue; auto.
Qed.

(* ------------------------------------------------------------------ *)
(* primitives *)

Ltac qoign := apply qign_out_ign; repeat split; reflexivity.

Lemma Q_emit : forall W ops xa rf l w, out_ign ustep qstep l ->
  QINV (RQ W ops xa rf) w -> QINV (RQ W ops xa rf) (emit l w).
Proof. intros. apply Inv_emit_ign; assumption. Qed.

Lemma Q_pull : forall W ops xa rf picks w o w',
  QINV (RQ W ops xa rf) w -> pull_gen picks w = (o, w') -> QINV (RQ W ops xa rf) w'.
Proof. intros. eapply Inv_pull_ign; eauto using RQ_pull_ok, RQ_in_ign. Qed.

Lemma Q_desync : forall R R' what w, QINV R w -> QINV R' (desync what w).
Proof. intros. apply Inv_dead. eapply Inv_desync. eassumption. Qed.
Lemma Q_dead : forall R w, QINV RF w -> QINV R w.
Proof. intros. apply Inv_dead. assumption. Qed.
Ltac dsync := eapply Q_desync; eassumption.

Lemma Q_sys : forall W ops xa rf name args w k w',
  out_ign ustep qstep (obs "sys" (ASym name :: args)) ->
  QINV (RQ W ops xa rf) w -> sys name args w = (k, w') -> QINV (RQ W ops xa rf) w'.
Proof.
  intros. eapply (Inv_sys ustep qstep tt _ (fun _ => True)); eauto using RQ_pull_ok, RQ_in_ign.
Qed.

Lemma Q_trigger : forall W ops xa rf b t w r w', is_reg_task t = false ->
  QINV (RQ W ops xa rf) w -> trigger b t w = (r, w') -> QINV (RQ W ops xa rf) w'.
Proof.
  intros. eapply (Inv_trigger ustep qstep tt _ (fun _ => True));
    eauto using RQ_pull_ok, RQ_in_ign, RQ_enq, RQ_flag; intros; qoign.
Qed.

Lemma Q_efd_write : forall W ops xa rf fuel w r w',
  QINV (RQ W ops xa rf) w -> efd_write fuel w = (r, w') -> QINV (RQ W ops xa rf) w'.
Proof.
  intros. eapply (Inv_efd_write ustep qstep tt _ (fun _ => True));
    eauto using RQ_pull_ok, RQ_in_ign; intros; qoign.
Qed.

Lemma Q_weaken : forall (R R' : unit -> progst * rdst -> lstate -> Prop) w,
  (forall u x, R u x (st w) -> R' u x (st w)) -> QINV R w -> QINV R' w.
Proof. intros R R' w H HI. eapply Inv_weaken; [|exact HI]. intros h x _ HR. apply H. exact HR. Qed.

(* changes of the checker state *)
Lemma zmem_zrem : forall x c l, zmem x (zrem c l) = if x =? c then false else zmem x l.
Proof.
  intros x c l. unfold zmem, zrem. induction l as [|y l IH]; cbn [filter existsb]; [destruct (x =? c); reflexivity|].
  destruct (Z.eqb_spec c y) as [->|N]; cbn [negb existsb].
  - rewrite IH. destruct (Z.eqb_spec x y); reflexivity.
  - rewrite IH. destruct (Z.eqb_spec x c) as [->|N2]; [|reflexivity].
    replace (c =? y) with false by lia. reflexivity.
Qed.
Lemma zmem_cons : forall x y l, zmem x (y :: l) = (x =? y) || zmem x l.
Proof. reflexivity. Qed.

(* a generic change of the progress checker's state that keeps every clause *)
Lemma RQ_prog : forall W ops xa xa' rf u p p' b s,
  RQ W ops xa rf u (p, b) s ->
  p_et p' = p_et p -> p_last p' = None ->
  (forall c, pdead p c = true -> pdead p' c = true) ->
  (forall fd c, In (fd, c) (l_reg s) -> pdead p' c = false ->
     c_opened (getc s c) = true \/ c_udp (getc s c) = true \/ xa' = QRegd c) ->
  (forall c, c_opened (getc s c) = false -> c_udp (getc s c) = false ->
     pdead p' c = false -> clean p' c -> c_out (getc s c) = []) ->
  (forall fd c, In (fd, c) (l_reg s) -> c_udp (getc s c) = false ->
     pdead p' c = false -> clean p' c -> c_out (getc s c) <> [] -> ~ exempt xa' c -> served p' fd c) ->
  qsem xa' p' s ->
  RQ W ops xa' rf u (p', b) s.
Proof.
  intros W ops xa xa' rf u p p' b s [R1 R2 R3 R4 R5 R6 R7 R8 R9 R10 R11 R12 R13] He Hl Hd Hro Hno Hm Hx.
  cbn [fst snd] in *. constructor; cbn [fst snd]; auto.
  - destruct R1. split; congruence.
  - intros c H. destruct (R8 _ H) as (A & B & C). auto.
  - intros c k H. destruct (R9 _ _ H) as (A & B). split; [exact A|]. eapply opsem_same; [| | | |exact B]; auto.
Qed.

(* one connection changes: descriptor, opened and datagram flags do not *)
Lemma RQ_setc : forall W ops xa rf u p b s c c',
  RQ W ops xa rf u (p, b) s ->
  c_fd c' = c_fd (getc s c) -> c_opened c' = c_opened (getc s c) -> c_udp c' = c_udp (getc s c) ->
  (c_opened c' = false -> c_udp c' = false -> pdead p c = false -> clean p c -> c_out c' = []) ->
  (forall fd, In (fd, c) (l_reg s) -> c_udp c' = false -> pdead p c = false -> clean p c ->
     c_out c' <> [] -> ~ exempt xa c -> served p fd c) ->
  (forall fd o, xa = QE c fd o -> c_out c' = []) ->
  (forall fd, xa = QEf c fd -> c_out c' = []) ->
  RQ W ops xa rf u (p, b) (setc s c c').
Proof.
  intros W ops xa rf u p b s c c' [R1 R2 R3 R4 R5 R6 R7 R8 R9 R10 R11 R12 R13] Hf Ho Hu Hn Hm Hx Hx2.
  cbn [fst snd] in *.
  constructor; cbn [fst snd setc l_reg l_next l_et]; auto.
  - intros c0. rewrite getc_setc. destruct (Z.eqb_spec c0 c) as [->|N]; [|auto]. rewrite Ho. auto.
  - intros c0. rewrite getc_setc. destruct (Z.eqb_spec c0 c) as [->|N]; [|auto]. rewrite Ho, Hf. auto.
  - intros fd c0 H. destruct (R6 _ _ H) as (A & B & C). rewrite getc_setc.
    destruct (Z.eqb_spec c0 c) as [->|N]; [rewrite Hf|]; auto.
  - intros fd c0 H D. rewrite getc_setc. destruct (Z.eqb_spec c0 c) as [->|N]; [|eauto]. rewrite Ho, Hu. eauto.
  - intros c0 H. rewrite getc_setc. destruct (R8 _ H) as (A & B & C).
    destruct (Z.eqb_spec c0 c) as [->|N]; [|auto]. rewrite Hf. auto.
  - intros c0 k H. destruct (R9 _ _ H) as (A & B). split; [exact A|].
    eapply opsem_same; [| | | |exact B]; auto; rewrite getc_setc; destruct (Z.eqb_spec c0 c) as [->|N]; auto.
  - intros c0. rewrite getc_setc. destruct (Z.eqb_spec c0 c) as [->|N]; [|auto]. auto.
  - intros fd c0 H. rewrite getc_setc. destruct (Z.eqb_spec c0 c) as [->|N]; [|eauto]. intros. apply (Hm fd); auto.
  - intros E. destruct (R12 E) as [A|(c0 & A & B & C & D)]; [left; exact A|right].
    exists c0. rewrite getc_setc. destruct (Z.eqb_spec c0 c) as [->|N]; [rewrite Ho|]; auto.
  - destruct xa as [|c0|c0 fd ub|c0|c0|c0 fd o|c0|c0 fd|fd|c0 fd|c0 fd|]; cbn [qsem] in *; cbn [setc l_next l_reg]; rewrite ?getc_setc; auto;
      destruct (Z.eqb_spec c0 c) as [->|N]; rewrite ?Ho, ?Hf, ?Hu; auto.
    + destruct R13 as (A & B & C & D & E). repeat split; eauto.
    + destruct R13 as (A & B & C & D). repeat split; eauto.
Qed.

Lemma Q_wsetc_same : forall W ops xa rf w c c',
  c_fd c' = c_fd (wc w c) -> c_opened c' = c_opened (wc w c) -> c_udp c' = c_udp (wc w c) ->
  c_out c' = c_out (wc w c) ->
  QINV (RQ W ops xa rf) w -> QINV (RQ W ops xa rf) (wsetc w c c').
Proof.
  intros W ops xa rf w c c' Hf Ho Hu Hout HI. eapply Inv_wsetc; [exact HI|].
  intros [] [p b] _ HR. unfold wc in *. apply RQ_setc; auto; rewrite ?Ho, ?Hu, ?Hout.
  - apply (q_nop _ _ _ _ _ _ _ HR).
  - intros fd H. apply (q_main _ _ _ _ _ _ _ HR); assumption.
  - intros fd o E. pose proof (q_x _ _ _ _ _ _ _ HR) as X. rewrite E in X. cbn [qsem] in X. tauto.
  - intros fd E. pose proof (q_x _ _ _ _ _ _ _ HR) as X. rewrite E in X. cbn [qsem] in X. tauto.
Qed.

Lemma pdead_cons : forall p c c0,
  pdead (mkP (p_et p) (p_want_w p) (p_last p) (p_owed p) (p_dirty p) (c :: p_dead p)) c0 = (c0 =? c) || pdead p c0.
Proof. reflexivity. Qed.

(* `g fail` / `cb close`: the connection is doomed *)
Lemma RQ_dead_add : forall W ops xa rf u p b s c,
  RQ W ops xa rf u (p, b) s ->
  RQ W ops xa rf u (mkP (p_et p) (p_want_w p) (p_last p) (p_owed p) (p_dirty p) (c :: p_dead p), b) s.
Proof.
  intros W ops xa rf u p b s c HR.
  set (p' := mkP (p_et p) (p_want_w p) (p_last p) (p_owed p) (p_dirty p) (c :: p_dead p)).
  assert (Hd : forall c0, pdead p c0 = true -> pdead p' c0 = true).
  { intros c0 H. unfold p'. rewrite pdead_cons, H. apply orb_true_r. }
  assert (Hd' : forall c0, pdead p' c0 = false -> pdead p c0 = false).
  { intros c0 H. destruct (pdead p c0) eqn:E; [rewrite (Hd _ E) in H; discriminate|reflexivity]. }
  eapply RQ_prog; [exact HR|reflexivity|exact (q_last _ _ _ _ _ _ _ HR)|exact Hd| | | |].
  - intros fd c0 H D. apply (q_regop _ _ _ _ _ _ _ HR fd c0 H). apply Hd'. exact D.
  - intros c0 A B D E. apply (q_nop _ _ _ _ _ _ _ HR c0 A B); [apply Hd'; exact D|exact E].
  - intros fd c0 H A D E F G. apply (q_main _ _ _ _ _ _ _ HR fd c0 H A); auto.
  - pose proof (q_x _ _ _ _ _ _ _ HR) as X. cbn [fst] in X.
    destruct xa as [|c0|c0 fd ub|c0|c0|c0 fd o|c0|c0 fd|fd|c0 fd|c0 fd|]; cbn [qsem] in *; auto.
    + destruct X as (A & B & C & D & [E|E]); repeat split; auto. right. apply (Hd c0). exact E.
    + destruct X as (A & B & [E|E]); repeat split; auto. right. apply (Hd c0). exact E.
Qed.

Lemma qstep_g : forall p b k c bs p', k <> "del" -> k <> "rearm-read" -> k <> "count" ->
  prog_step p (EOut ("g", [ASym k; AInt c; ABytes bs])) = Some p' ->
  qstep (p, b) (EOut ("g", [ASym k; AInt c; ABytes bs])) = Some (p', b).
Proof.
  intros p b k c bs p' N1 N2 N3 E. unfold qstep, rdx. cbn [fst snd]. rewrite E.
  destruct et; [|reflexivity].
  assert (Hr : rd_step b (EOut ("g", [ASym k; AInt c; ABytes bs])) = Some b).
  { unfold rd_step. crack_goal ltac:(first [reflexivity|congruence]). all: reflexivity. }
  rewrite Hr. reflexivity.
Qed.

Lemma Q_fail : forall W ops xa rf c w,
  QINV (RQ W ops xa rf) w -> QINV (RQ W ops xa rf) (ghost "fail" c [] w).
Proof.
  intros W ops xa rf c w HI. unfold ghost. eapply Inv_emit; [exact HI|reflexivity|].
  intros [] [p b] _ HR. cbn [ustep]. eexists. split; [apply qstep_g; try discriminate; reflexivity|].
  apply RQ_dead_add. exact HR.
Qed.

Lemma served_owed_add : forall p c fd c0, served p fd c0 -> served (set_owed p (c :: p_owed p)) fd c0.
Proof.
  intros p c fd c0. unfold served, set_owed. cbn [p_owed p_want_w]. destruct et; [|auto].
  intros H. rewrite zmem_cons, H. apply orb_true_r.
Qed.

(* `g eagain` / `g rearm-write`: the connection is owed *)
Definition xa_owed (xa : qxa) (c : Z) : qxa :=
  match xa with QE c0 fd o => if c0 =? c then QE c0 fd true else xa | _ => xa end.

Lemma exempt_owed : forall xa c c0, exempt (xa_owed xa c) c0 <-> exempt xa c0.
Proof. intros xa c c0. destruct xa; cbn; try tauto. destruct (_ =? _); cbn; tauto. Qed.

Lemma RQ_owed_add : forall W ops xa rf u p b s c,
  RQ W ops xa rf u (p, b) s -> RQ W ops (xa_owed xa c) rf u (set_owed p (c :: p_owed p), b) s.
Proof.
  intros W ops xa rf u p b s c HR.
  eapply RQ_prog; [exact HR|reflexivity|exact (q_last _ _ _ _ _ _ _ HR)|auto| | | |].
  - intros fd c0 H D. destruct (q_regop _ _ _ _ _ _ _ HR fd c0 H D) as [A|[A|A]]; auto.
    subst xa. auto.
  - exact (q_nop _ _ _ _ _ _ _ HR).
  - intros fd c0 H A D E F G. apply served_owed_add. apply (q_main _ _ _ _ _ _ _ HR fd c0 H A D E F).
    intro Ex. apply G. apply exempt_owed. exact Ex.
  - pose proof (q_x _ _ _ _ _ _ _ HR) as X. cbn [fst] in X.
    destruct xa as [|c0|c0 fd ub|c0|c0|c0 fd o|c0|c0 fd|fd|c0 fd|c0 fd|]; cbn [qsem xa_owed] in *; auto.
    destruct (Z.eqb_spec c0 c) as [->|N]; cbn [qsem set_owed p_owed p_dead].
    + destruct X as (A & B & C & D). repeat split; auto; try tauto. intros _. rewrite zmem_cons, Z.eqb_refl. reflexivity.
    + destruct X as (A & B & C & D). repeat split; auto; try tauto. intros Eo. rewrite zmem_cons, (C Eo). apply orb_true_r.
Qed.

(* `g hand`: the connection is no longer owed *)
Definition xa_hand (xa : qxa) (c : Z) : qxa :=
  match xa with QE c0 fd o => if c0 =? c then QE c0 fd false else xa | _ => xa end.

Lemma exempt_hand : forall xa c c0, exempt (xa_hand xa c) c0 <-> exempt xa c0.
Proof. intros xa c c0. destruct xa; cbn; try tauto. destruct (_ =? _); cbn; tauto. Qed.

Lemma RQ_owed_rem : forall W ops xa rf u p b s c,
  RQ W ops xa rf u (p, b) s ->
  (et = true -> exempt xa c \/ exists fd o, xa = QE c fd o) ->
  RQ W ops (xa_hand xa c) rf u (set_owed p (zrem c (p_owed p)), b) s.
Proof.
  intros W ops xa rf u p b s c HR Hex.
  pose proof (q_x _ _ _ _ _ _ _ HR) as X. cbn [fst] in X.
  eapply RQ_prog; [exact HR|reflexivity|exact (q_last _ _ _ _ _ _ _ HR)|auto| | | |].
  - intros fd c0 H D. destruct (q_regop _ _ _ _ _ _ _ HR fd c0 H D) as [A|[A|A]]; auto.
    subst xa. auto.
  - exact (q_nop _ _ _ _ _ _ _ HR).
  - intros fd c0 H A D E F G. unfold served, set_owed. cbn [p_owed p_want_w].
    assert (G' : ~ exempt xa c0) by (intro Ex; apply G; apply exempt_hand; exact Ex).
    pose proof (q_main _ _ _ _ _ _ _ HR fd c0 H A D E F G') as M. unfold served in M.
    destruct et eqn:Eet; [|exact M].
    rewrite zmem_zrem. destruct (Z.eqb_spec c0 c) as [->|N]; [|exact M].
    exfalso. destruct (Hex eq_refl) as [Ex|(fd0 & o & Ex)]; [tauto|].
    subst xa. cbn [qsem] in X. destruct X as (_ & B & _). congruence.
  - destruct xa as [|c0|c0 fd ub|c0|c0|c0 fd o|c0|c0 fd|fd|c0 fd|c0 fd|]; cbn [qsem xa_hand] in *; auto.
    destruct (Z.eqb_spec c0 c) as [->|N]; cbn [qsem set_owed p_owed p_dead].
    + destruct X as (A & B & C & D). repeat split; auto; try tauto. discriminate.
    + destruct X as (A & B & C & D). repeat split; auto; try tauto.
      intros Eo. rewrite zmem_zrem. replace (c0 =? c) with false by lia. auto.
Qed.

(* entering / leaving the exemption *)
Lemma RQ_xa_weaken : forall W ops xa xa' rf u x s,
  RQ W ops xa rf u x s -> (forall c, xa <> QRegd c) -> (forall c, exempt xa c -> exempt xa' c) ->
  qsem xa' (fst x) s -> RQ W ops xa' rf u x s.
Proof.
  intros W ops xa xa' rf u [p b] s HR N2 Hex X. cbn [fst] in X.
  eapply RQ_prog; [exact HR|reflexivity|exact (q_last _ _ _ _ _ _ _ HR)|auto| | | |exact X].
  - intros fd c H D. destruct (q_regop _ _ _ _ _ _ _ HR fd c H D) as [A|[A|A]]; auto. exfalso. eapply N2; eauto.
  - exact (q_nop _ _ _ _ _ _ _ HR).
  - intros fd c H A D E F G. apply (q_main _ _ _ _ _ _ _ HR fd c H A D E F). intro Ex. apply G. apply Hex. exact Ex.
Qed.

Lemma RQ_unexempt : forall W ops xa rf u p b s c,
  RQ W ops xa rf u (p, b) s -> (forall c0, exempt xa c0 -> c0 = c) -> (forall c0, xa <> QRegd c0) ->
  (forall fd, In (fd, c) (l_reg s) -> c_udp (getc s c) = false -> pdead p c = false -> clean p c ->
     c_out (getc s c) <> [] -> served p fd c) ->
  RQ W ops QNone rf u (p, b) s.
Proof.
  intros W ops xa rf u p b s c HR Hxa N2 Hs.
  eapply RQ_prog; [exact HR|reflexivity|exact (q_last _ _ _ _ _ _ _ HR)|auto| | | |exact I].
  - intros fd c0 H D. destruct (q_regop _ _ _ _ _ _ _ HR fd c0 H D) as [A|[A|A]]; auto. exfalso. eapply N2; eauto.
  - exact (q_nop _ _ _ _ _ _ _ HR).
  - intros fd c0 H A D E F _. destruct (Z.eq_dec c0 c) as [->|N]; [apply Hs; auto|].
    apply (q_main _ _ _ _ _ _ _ HR fd c0 H A D E F). intro Ex. apply N. apply Hxa. exact Ex.
Qed.

Lemma Q_unexempt : forall W ops xa rf w c, (forall c0, exempt xa c0 -> c0 = c) -> (forall c0, xa <> QRegd c0) ->
  (forall u p b, RQ W ops xa rf u (p, b) (st w) ->
     forall fd, In (fd, c) (l_reg (st w)) -> c_udp (wc w c) = false -> pdead p c = false -> clean p c ->
     c_out (wc w c) <> [] -> served p fd c) ->
  QINV (RQ W ops xa rf) w -> QINV (RQ W ops QNone rf) w.
Proof.
  intros W ops xa rf w c Hxa N2 Hs HI. eapply Q_weaken; [|exact HI]. intros u [p b] HR.
  eapply RQ_unexempt; [exact HR|exact Hxa|exact N2|]. apply (Hs u p b HR).
Qed.

Lemma Q_xa_weaken : forall W ops xa xa' rf w, (forall c, xa <> QRegd c) -> (forall c, exempt xa c -> exempt xa' c) ->
  (forall u x, RQ W ops xa rf u x (st w) -> qsem xa' (fst x) (st w)) ->
  QINV (RQ W ops xa rf) w -> QINV (RQ W ops xa' rf) w.
Proof.
  intros W ops xa xa' rf w N2 Hex Hq HI. eapply Q_weaken; [|exact HI]. intros u x HR.
  eapply RQ_xa_weaken; eauto.
Qed.

Lemma Q_exempt : forall W ops rf w c, QINV (RQ W ops QNone rf) w -> QINV (RQ W ops (QX c) rf) w.
Proof. intros. eapply Q_xa_weaken; [| | |eassumption]; cbn; try discriminate; auto. intros c0 []. Qed.

(* the three markers of sys_wr *)
Lemma Q_hand : forall W ops xa rf c bs w,
  (l_et (st w) = true -> exempt xa c \/ exists fd o, xa = QE c fd o) ->
  QINV (RQ W ops xa rf) w -> QINV (RQ W ops (xa_hand xa c) rf) (ghost "hand" c bs w).
Proof.
  intros W ops xa rf c bs w Hex HI. unfold ghost. eapply Inv_emit; [exact HI|reflexivity|].
  intros [] [p b] _ HR. cbn [ustep]. eexists. split.
  - apply qstep_g; try discriminate. reflexivity.
  - apply RQ_owed_rem; [assumption|]. intros Het. apply Hex. destruct (q_et _ _ _ _ _ _ _ HR). congruence.
Qed.

Lemma Q_owed : forall W ops xa rf k c w, k = "eagain" \/ k = "rearm-write" ->
  QINV (RQ W ops xa rf) w -> QINV (RQ W ops (xa_owed xa c) rf) (ghost k c [] w).
Proof.
  intros W ops xa rf k c w Hk HI. unfold ghost. eapply Inv_emit; [exact HI|destruct Hk; subst; reflexivity|].
  intros [] [p b] _ HR. cbn [ustep]. eexists. split.
  - apply qstep_g; try (destruct Hk; subst; discriminate). destruct Hk; subst; reflexivity.
  - apply RQ_owed_add; assumption.
Qed.

Lemma Q_sys_wr_gen : forall W ops rf (a ah ae af : qxa) cid fd src exact w k w',
  (forall bs w0, l_et (st w0) = l_et (st w) -> QINV (RQ W ops a rf) w0 -> QINV (RQ W ops ah rf) (ghost "hand" cid bs w0)) ->
  (forall w0, l_et (st w0) = l_et (st w) -> QINV (RQ W ops a rf) w0 -> QINV (RQ W ops ae rf) (ghost "eagain" cid [] w0)) ->
  (forall w0, l_et (st w0) = l_et (st w) -> QINV (RQ W ops a rf) w0 -> QINV (RQ W ops af rf) (ghost "fail" cid [] w0)) ->
  QINV (RQ W ops a rf) w -> sys_wr cid fd src exact w = (k, w') ->
  match k with
  | KOk n _ => 0 <= n /\ QINV (RQ W ops ah rf) w'
  | KErr e => if is_eagain e then QINV (RQ W ops ae rf) w' else QINV (RQ W ops af rf) w'
  | KNone => QINV RF w'
  end.
Proof.
  intros W ops rf a ah ae af cid fd src exact w k w' Hh He Hf HI E. rewrite sys_wr_eq in E.
  assert (HI0 : QINV (RQ W ops a rf) (emit (obs "sys" [ASym "wr"; AInt fd]) w))
    by (apply Q_emit; [qoign|exact HI]).
  destruct (pull _) as [[[nm0 args]|] w1] eqn:Ep.
  2:{ inversion E; subst. exact (Inv_pull ustep qstep tt _ _ _ _ _ (RQ_pull_ok _ _ _ _) HI0 Ep). }
  pose proof (Q_pull _ _ _ _ _ _ _ _ HI0 Ep) as H1.
  assert (Hm1 : l_et (st w1) = l_et (st w)) by (rewrite (pull_gen_et _ _ _ _ Ep), st_emit; reflexivity).
  destruct (String.eqb nm0 "r"); [|inversion E; subst; eapply Inv_desync; exact H1].
  destruct args as [|[?|?|nm] [|[off|?|?] [|[n|?|?] rest]]];
    try (inversion E; subst; eapply Inv_desync; exact H1).
  destruct (negb (sym_eqb nm "wr")); [inversion E; subst; eapply Inv_desync; exact H1|].
  destruct ((off <? 0) || (zlen src <? off) || (off <? n)) eqn:Ec;
    [inversion E; subst; eapply Inv_desync; exact H1|].
  cbv zeta in E.
  set (offered := if exact then src else ztake off src) in E.
  assert (H2 : QINV (RQ W ops a rf) (emit (obs "wdata" [ABytes offered]) w1))
    by (apply Q_emit; [qoign|exact H1]).
  assert (Hm2 : l_et (st (emit (obs "wdata" [ABytes offered]) w1)) = l_et (st w)) by (rewrite st_emit; exact Hm1).
  destruct (n <? 0) eqn:En.
  - destruct rest as [|[?|?|e] ?]; inversion E; subst; try (apply Hf; [exact Hm2|exact H2]).
    destruct (is_eagain e); [apply He; [exact Hm2|exact H2]|apply Hf; [exact Hm2|exact H2]].
  - inversion E; subst. split; [lia|]. apply Hh; [exact Hm2|exact H2].
Qed.

(* a write on a connection whose outbound buffer is empty (conn_write_loop, conn_writev_loop, open_loop) *)
Lemma Q_sys_wr_E : forall W ops rf o cid cfd fd src exact w k w',
  QINV (RQ W ops (QE cid cfd o) rf) w -> sys_wr cid fd src exact w = (k, w') ->
  match k with
  | KOk n _ => 0 <= n /\ QINV (RQ W ops (QE cid cfd false) rf) w'
  | KErr e => if is_eagain e then QINV (RQ W ops (QE cid cfd true) rf) w' else QINV (RQ W ops (QE cid cfd o) rf) w'
  | KNone => QINV RF w'
  end.
Proof.
  intros W ops rf o cid cfd fd src exact w k w' HI E.
  eapply (Q_sys_wr_gen W ops rf (QE cid cfd o) (QE cid cfd false) (QE cid cfd true) (QE cid cfd o)); [| | |exact HI|exact E].
  - intros bs w0 _ H0. pose proof (Q_hand _ _ _ _ cid bs _ (fun _ => or_intror (ex_intro _ cfd (ex_intro _ o eq_refl))) H0) as H.
    cbn [xa_hand] in H. rewrite Z.eqb_refl in H. exact H.
  - intros w0 _ H0. pose proof (Q_owed _ _ _ _ "eagain" cid _ (or_introl eq_refl) H0) as H.
    cbn in H. rewrite Z.eqb_refl in H. exact H.
  - intros w0 _ H0. apply Q_fail. exact H0.
Qed.

(* ------------------------------------------------------------------ *)
(* epoll_ctl: the call and its result *)

Definition op_code (op : string) : Z := if sym_eqb op "add" then 0 else if sym_eqb op "mod" then 1 else 2.

Definition with_last (p : progst) (v : option (Z * Z * bool)) : progst :=
  mkP (p_et p) (p_want_w p) v (p_owed p) (p_dirty p) (p_dead p).
Definition with_want (p : progst) (ww : list (Z * bool)) : progst :=
  mkP (p_et p) ww None (p_owed p) (p_dirty p) (p_dead p).

(* the relation while the result is awaited *)
Definition RQl (W : list Z) (ops : list (Z * option Z)) (xa : qxa) (rf : option Z) (v : Z * Z * bool) (u : unit) (x : progst * rdst) (s : lstate) : Prop :=
  exists p0, RQ W ops xa rf u (p0, snd x) s /\ fst x = with_last p0 (Some v).

Lemma prog_step_in_notr : forall p name args, name <> "r" -> prog_step p (EIn (name, args)) = Some p.
Proof.
  intros p name args N. unfold prog_step. crack_goal ltac:(first [reflexivity|congruence]). all: try reflexivity.
  all: congruence.
Qed.

Lemma apply_async_notr : forall s name args s', apply_async s (name, args) = Some s' -> name <> "r".
Proof.
  intros s name args s' E. unfold apply_async in E.
  crack_hyp E ltac:(discriminate E); discriminate.
Qed.

Lemma prog_step_epctl_res : forall p n rest v,
  p_last p = Some v ->
  prog_step p (EIn ("r", ASym "epctl" :: AInt n :: rest)) =
  Some (with_want p (let '(fd, o, rw) := v in
                     if n <? 0 then p_want_w p else if o =? 2 then aremove fd (p_want_w p) else aset fd rw (p_want_w p))).
Proof. intros p n rest [[fd o] rw] H. cbn [prog_step]. rewrite H. reflexivity. Qed.

Lemma RQl_pull_ok : forall W ops xa rf v, pull_ok ustep qstep (RQl W ops xa rf v).
Proof.
  intros W ops xa rf v. split.
  - intros h [p b] s [name args] (p0 & HR & E). cbn [fst snd] in *. subst p. unfold qstep. cbn [fst snd].
    destruct (rd_step_in b (name, args)) as [c Hc].
    assert (Hp : prog_step (with_last p0 (Some v)) (EIn (name, args)) <> None).
    { destruct (String.eqb_spec name "r") as [->|N]; [|rewrite prog_step_in_notr by exact N; discriminate].
      unfold prog_step. destruct args as [|[?|?|nm] [|[n|?|?] rest]]; try discriminate.
      all: crack_goal ltac:(discriminate). all: try discriminate.
      all: cbn [with_last p_last]; destruct v as [[? ?] ?]; discriminate. }
    destruct (prog_step _ _); [|congruence]. unfold rdx. destruct et; [rewrite Hc|]; discriminate.
  - intros h [p b] s [name args] s' h' x' (p0 & HR & E) Ea _ Es. cbn [fst snd] in *. subst p.
    pose proof (apply_async_notr _ _ _ _ Ea) as N.
    unfold qstep in Es. cbn [fst snd] in Es. rewrite prog_step_in_notr in Es by exact N.
    destruct (rdx b (EIn (name, args))) as [b'|] eqn:Eb; [|discriminate]. inversion Es; subst x'. clear Es.
    assert (Eq : qstep (p0, b) (EIn (name, args)) = Some (p0, b')).
    { unfold qstep. cbn [fst snd]. rewrite prog_step_in_notr by exact N. rewrite Eb. reflexivity. }
    exists p0. cbn [fst snd]. split; [|reflexivity].
    destruct h, h'. destruct (RQ_pull_ok W ops xa rf) as [_ P2]. eapply (P2 tt (p0, b) s (name, args) s' tt (p0, b')); eauto.
Qed.

Lemma Q_epctl : forall W ops xa rf op fd rw e w r w',
  QINV (RQ W ops xa rf) w -> epctl op fd rw e w = (r, w') ->
  QINV (fun u x s => exists p0, RQ W ops xa rf u (p0, snd x) s /\
          fst x = with_want p0 (match r with
                                | RNil => if op_code op =? 2 then aremove fd (p_want_w p0) else aset fd rw (p_want_w p0)
                                | _ => p_want_w p0 end)) w'.
Proof.
  intros W ops xa rf op fd rw e w r w' HI E. unfold epctl, sys in E.
  set (v := (fd, op_code op, rw)).
  assert (H0 : QINV (RQl W ops xa rf v) (emit (obs "sys" [ASym "epctl"; ASym op; AInt fd; bool_arg rw; bool_arg e]) w)).
  { eapply Inv_emit; [exact HI|reflexivity|].
    intros [] [p b] _ HR. cbn [ustep]. unfold qstep, rdx, obs, bool_arg. cbn [fst snd prog_step].
    replace (if et then rd_step b _ else Some b) with (Some b) by (destruct et; reflexivity).
    eexists. split; [reflexivity|]. exists p. cbn [fst snd]. split; [exact HR|].
    unfold with_last, v, op_code. destruct rw; reflexivity. }
  rewrite sysret_eq in E.
  destruct (pull _) as [[[nm0 args]|] w1] eqn:Ep.
  2:{ inversion E; subst. apply Inv_dead. exact (Inv_pull ustep qstep tt _ _ _ _ _ (RQl_pull_ok _ _ _ _ _) H0 Ep). }
  pose proof (Inv_pull ustep qstep tt _ _ _ _ _ (RQl_pull_ok _ _ _ _ _) H0 Ep) as HA. cbn [after_pull] in HA.
  assert (Hds : forall what R, QINV R (desync what w1)) by (intros; eapply Q_desync; exact HA).
  destruct (String.eqb_spec nm0 "r") as [->|N]; [|inversion E; subst; apply Hds].
  destruct args as [|[?|?|nm] [|[n|?|?] rest]]; try (inversion E; subst; apply Hds).
  unfold sym_eqb in E. destruct (String.eqb_spec nm "epctl") as [->|N]; cbn [negb] in E;
    [|inversion E; subst; apply Hds].
  assert (H1 : QINV (fun u x s => exists p0, RQ W ops xa rf u (p0, snd x) s /\
                 fst x = with_want p0 (if n <? 0 then p_want_w p0 else if op_code op =? 2 then aremove fd (p_want_w p0) else aset fd rw (p_want_w p0))) w1).
  { eapply Inv_weaken; [|exact HA]. intros h' [p' b'] _ (h & [p b] & (p0 & HR & Ex) & _ & _ & Es).
    cbn [fst snd] in *. subst p. unfold qstep in Es. cbn [fst snd] in Es.
    rewrite (prog_step_epctl_res (with_last p0 (Some v)) n rest v eq_refl) in Es.
    destruct (rd_step_in b ("r", ASym "epctl" :: AInt n :: rest)) as [c Hc].
    assert (Hb : exists b2, rdx b (EIn ("r", ASym "epctl" :: AInt n :: rest)) = Some b2 /\ r_full b2 = r_full b).
    { unfold rdx. destruct et; [rewrite Hc|]; eauto. }
    destruct Hb as (b2 & Eb & Hf). rewrite Eb in Es. inversion Es; subst p' b'. clear Es.
    exists p0. split; [|reflexivity].
    destruct HR as [R1 R2 R3 R4 R5 R6 R7 R8 R9 R10 R11 R12 R13]. constructor; cbn [fst snd] in *; auto.
    rewrite Hf. exact R12. }
  destruct (n <? 0) eqn:En.
  - assert (Hr : r <> RNil /\ w' = w1) by (destruct rest as [|[?|?|?] ?]; inversion E; (split; [discriminate|reflexivity])).
    destruct Hr as [Hr ->]. eapply Inv_weaken; [|exact H1]. intros h x _ (p0 & HR & Ex). exists p0. split; [exact HR|].
    rewrite Ex. destruct r; [congruence|reflexivity..].
  - inversion E; subst. exact H1.
Qed.

(* a change of the registered write interests *)
Lemma RQ_want : forall W ops xa rf u p0 b s ww,
  RQ W ops xa rf u (p0, b) s ->
  (et = false -> forall fd c, In (fd, c) (l_reg s) -> c_udp (getc s c) = false -> pdead p0 c = false ->
     clean p0 c -> c_out (getc s c) <> [] -> ~ exempt xa c ->
     getd false fd (p_want_w p0) = true -> getd false fd ww = true) ->
  RQ W ops xa rf u (with_want p0 ww, b) s.
Proof.
  intros W ops xa rf u p0 b s ww HR Hw.
  eapply RQ_prog; [exact HR|reflexivity|reflexivity|auto| | | |].
  - intros fd c H D. destruct (q_regop _ _ _ _ _ _ _ HR fd c H D) as [A|[A|A]]; auto.
  - exact (q_nop _ _ _ _ _ _ _ HR).
  - intros fd c H A D E F G. pose proof (q_main _ _ _ _ _ _ _ HR fd c H A D E F G) as M.
    unfold served in *. cbn [with_want p_owed p_want_w fst] in *. destruct et eqn:Eet; [exact M|].
    eapply Hw; eauto.
  - pose proof (q_x _ _ _ _ _ _ _ HR) as X. destruct xa; exact X.
Qed.

Lemma getd_aremove : forall A (d : A) k k' m, getd d k (aremove k' m) = if k =? k' then d else getd d k m.
Proof. intros. unfold getd. rewrite alookup_aremove. destruct (k =? k'); reflexivity. Qed.

(* write interest is requested: nothing can be lost, and on success the descriptor is served *)
Lemma Q_epctl_arm : forall W ops xa rf op fd e w r w', op_code op <> 2 ->
  QINV (RQ W ops xa rf) w -> epctl op fd true e w = (r, w') ->
  QINV (fun u x s => RQ W ops xa rf u x s /\
          (r = RNil -> halt w' = false -> et = false -> getd false fd (p_want_w (fst x)) = true)) w'.
Proof.
  intros W ops xa rf op fd e w r w' Hop HI E.
  pose proof (Q_epctl _ _ _ _ _ _ _ _ _ _ _ HI E) as H. eapply Inv_weaken; [|exact H].
  intros [] [p b] Hh (p0 & HR & Ex). cbn [fst snd] in *. subst p. split.
  - apply RQ_want; [exact HR|]. intros _ fd0 c _ _ _ _ _ _ G.
    destruct r; try exact G. replace (op_code op =? 2) with false by lia.
    rewrite getd_aset. destruct (fd0 =? fd); [reflexivity|exact G].
  - intros -> _ _. cbn [with_want p_want_w]. replace (op_code op =? 2) with false by lia.
    rewrite getd_aset, Z.eqb_refl. reflexivity.
Qed.

(* the descriptor concerned has no registered connection with pending output *)
Lemma Q_epctl_free : forall W ops xa rf op fd rw e w r w',
  (forall u p b s, RQ W ops xa rf u (p, b) s ->
     forall c, In (fd, c) (l_reg s) -> c_udp (getc s c) = false -> pdead p c = false -> c_out (getc s c) <> [] -> False) ->
  QINV (RQ W ops xa rf) w -> epctl op fd rw e w = (r, w') -> QINV (RQ W ops xa rf) w'.
Proof.
  intros W ops xa rf op fd rw e w r w' Hfree HI E.
  pose proof (Q_epctl _ _ _ _ _ _ _ _ _ _ _ HI E) as H. eapply Inv_weaken; [|exact H].
  intros [] [p b] Hh (p0 & HR & Ex). cbn [fst snd] in *. subst p.
  apply RQ_want; [exact HR|]. intros _ fd0 c Hin A D _ F _ G.
  destruct (Z.eq_dec fd0 fd) as [->|N]; [exfalso; eapply Hfree; eauto|].
  destruct r; try exact G. destruct (op_code op =? 2); [rewrite getd_aremove|rewrite getd_aset];
    replace (fd0 =? fd) with false by lia; exact G.
Qed.

Lemma noreg_free : forall fd (m : list (Z * Z)), alookup fd m = None -> forall c, In (fd, c) m -> False.
Proof. intros fd m H c Hin. apply in_alookup in Hin. congruence. Qed.

(* close(fd): the registration is forgotten *)
Lemma Q_sys_close : forall W ops xa rf fd w k w',
  (forall u p b s, RQ W ops xa rf u (p, b) s ->
     forall c, In (fd, c) (l_reg s) -> c_udp (getc s c) = false -> pdead p c = false -> c_out (getc s c) <> [] -> False) ->
  QINV (RQ W ops xa rf) w -> sys "close" [AInt fd] w = (k, w') -> QINV (RQ W ops xa rf) w'.
Proof.
  intros W ops xa rf fd w k w' Hfree HI E. unfold sys in E.
  eapply (Inv_sysret ustep qstep tt _ (fun _ => True)); [apply RQ_pull_ok|apply RQ_in_ign|auto| |exact E].
  eapply Inv_emit; [exact HI|reflexivity|].
  intros [] [p b] _ HR. cbn [ustep]. unfold qstep, rdx, obs. cbn [fst snd prog_step].
  replace (if et then rd_step b _ else Some b) with (Some b) by (destruct et; reflexivity).
  eexists. split; [reflexivity|].
  pose proof (RQ_want _ _ _ _ _ _ _ _ (aremove fd (p_want_w p)) HR) as HW.
  pose proof (q_last _ _ _ _ _ _ _ HR) as Hl. cbn [fst] in Hl. rewrite Hl.
  apply HW. intros _ fd0 c Hin A D _ F _ G.
  destruct (Z.eq_dec fd0 fd) as [->|N]; [exfalso; eapply Hfree; eauto|].
  rewrite getd_aremove. replace (fd0 =? fd) with false by lia. exact G.
Qed.

(* ------------------------------------------------------------------ *)
(* setting and dropping side assertions *)

Lemma Q_xa_set : forall W ops xa' rf w,
  (forall u x, RQ W ops QNone rf u x (st w) -> qsem xa' (fst x) (st w)) ->
  QINV (RQ W ops QNone rf) w -> QINV (RQ W ops xa' rf) w.
Proof. intros W ops xa' rf w H HI. eapply Q_xa_weaken; [| |exact H|exact HI]; [discriminate|intros c []]. Qed.

Lemma Q_xa_drop : forall W ops xa rf w, (forall c, ~ exempt xa c) -> (forall c, xa <> QRegd c) ->
  QINV (RQ W ops xa rf) w -> QINV (RQ W ops QNone rf) w.
Proof.
  intros W ops xa rf w N1 N2 HI. eapply Q_xa_weaken; [exact N2| | |exact HI].
  - intros c Ex. exfalso. eapply N1; eauto.
  - intros; exact I.
Qed.

(* from an exempt connection: EAGAIN / a queued write task serve it, a fatal result dooms it *)
Lemma Q_owed_x : forall W ops rf k c w, k = "eagain" \/ k = "rearm-write" -> l_et (st w) = true ->
  QINV (RQ W ops (QX c) rf) w -> QINV (RQ W ops QNone rf) (ghost k c [] w).
Proof.
  intros W ops rf k c w Hk Hb HI. unfold ghost. eapply Inv_emit; [exact HI|destruct Hk; subst; reflexivity|].
  intros [] [p b] _ HR. cbn [ustep]. eexists. split.
  - apply qstep_g; try (destruct Hk; subst; discriminate). destruct Hk; subst; reflexivity.
  - pose proof (RQ_owed_add _ _ _ _ _ _ _ _ c HR) as H1. cbn in H1.
    eapply (RQ_unexempt _ _ _ _ _ _ _ _ c); [exact H1|cbn; auto|discriminate|].
    intros fd _ _ _ _ _. unfold served. destruct (q_et _ _ _ _ _ _ _ HR) as [X _]. rewrite <- X, Hb.
    cbn [set_owed p_owed]. rewrite zmem_cons, Z.eqb_refl. reflexivity.
Qed.

Lemma Q_fail_x : forall W ops rf c w,
  QINV (RQ W ops (QX c) rf) w -> QINV (RQ W ops QNone rf) (ghost "fail" c [] w).
Proof.
  intros W ops rf c w HI. unfold ghost. eapply Inv_emit; [exact HI|reflexivity|].
  intros [] [p b] _ HR. cbn [ustep]. eexists. split.
  - apply qstep_g; try discriminate. reflexivity.
  - eapply (RQ_unexempt _ _ _ _ _ _ _ _ c); [apply RQ_dead_add; exact HR|cbn; auto|discriminate|].
    intros fd _ _ D. exfalso. rewrite pdead_cons, Z.eqb_refl in D. discriminate.
Qed.

(* ------------------------------------------------------------------ *)
(* ReadFrom and Flush *)

Lemma qstep_hr : forall p b cid call vals p',
  prog_step p (EOut ("hr", AInt cid :: ASym call :: vals)) = Some p' ->
  qstep (p, b) (EOut ("hr", AInt cid :: ASym call :: vals)) = Some (p', b).
Proof.
  intros p b cid call vals p' E. unfold qstep, rdx. cbn [fst snd]. rewrite E. destruct et; reflexivity.
Qed.

End ET.

