(* C17 — socket addresses survive conversion and are reported truthfully.
   Statements only; proofs live in Proofs/SockAddrProofs.v.
   Vocabulary (Model/SockAddr.v): an IP is a byte list, `Some ip`/`None` is a
   non-nil/nil net.IP; mk_na k ip port zone is the *net.TCPAddr (k = KTCP) or
   *net.UDPAddr (k = KUDP); back k is SockaddrToTCPOrUnixAddr resp.
   SockaddrToUDPAddr; tbl is the OS interface table (list of (name, index));
   valid_tbl tbl says it is a finite partial bijection between non-empty names
   and positive uint32 indices.  A result `Ret None` is Go's nil; `Panic` is a
   Go panic. *)
From Coq Require Import ZArith List Lia.
From GV Require Import Lib.Trace Model.SockAddr Proofs.SockAddrProofs.
Import ListNotations.
Close Scope string_scope.
Open Scope list_scope.
Open Scope Z_scope.

(* ---- there and back: net.Addr -> unix.Sockaddr -> net.Addr ---- *)

(* IPv4 (4-byte form), no zone: exact, every port *)
Theorem C17_roundtrip_v4 : forall tbl k ip port, zlen ip = 4 ->
  net_addr_to_sockaddr tbl (Some (mk_na k (Some ip) port [])) = Ret (Some (SA4 port ip)) /\
  back k tbl (Some (SA4 port ip)) = Ret (Some (mk_na k (Some ip) port [])).
Proof. exact roundtrip_v4. Qed.
Print Assumptions C17_roundtrip_v4.

(* IPv6 (not v4-mapped), no zone: exact *)
Theorem C17_roundtrip_v6 : forall tbl k ip port, zlen ip = 16 -> to4 ip = None ->
  net_addr_to_sockaddr tbl (Some (mk_na k (Some ip) port [])) = Ret (Some (SA6 port 0 ip)) /\
  back k tbl (Some (SA6 port 0 ip)) = Ret (Some (mk_na k (Some ip) port [])).
Proof. exact roundtrip_v6_nozone. Qed.
Print Assumptions C17_roundtrip_v6.

(* IPv6 with a zone that is an interface name: the sockaddr carries the index, the name comes back *)
Theorem C17_roundtrip_zone_name : forall tbl k ip port zone idx, valid_tbl tbl ->
  zlen ip = 16 -> to4 ip = None -> by_name tbl zone = Some idx ->
  net_addr_to_sockaddr tbl (Some (mk_na k (Some ip) port zone)) = Ret (Some (SA6 port idx ip)) /\
  back k tbl (Some (SA6 port idx ip)) = Ret (Some (mk_na k (Some ip) port zone)).
Proof. exact roundtrip_v6_zone_name. Qed.
Print Assumptions C17_roundtrip_zone_name.

(* IPv6 with a zone that is the decimal numeral (itod v) of an index v below
   0xFFFFFF for which no interface exists (neither by that index nor by that name) *)
Theorem C17_roundtrip_zone_index_partial : forall tbl k ip port v zone, valid_tbl tbl ->
  zlen ip = 16 -> to4 ip = None ->
  0 < v < 16777215 -> itod v = Ret zone -> by_name tbl zone = None -> by_index tbl v = None ->
  net_addr_to_sockaddr tbl (Some (mk_na k (Some ip) port zone)) = Ret (Some (SA6 port v ip)) /\
  back k tbl (Some (SA6 port v ip)) = Ret (Some (mk_na k (Some ip) port zone)).
Proof. exact roundtrip_v6_zone_index. Qed.
Print Assumptions C17_roundtrip_zone_index_partial.

(* The full statement over all uint32 indices is FALSE in the code (known finding
   zone-index-ge-big): from 0xFFFFFF on, dtoi reads the numeral as 0 and the zone is lost. *)
Definition C17_zone_index_roundtrip_full : Prop :=
  forall tbl v z, 0 < v < 4294967296 -> itod v = Ret z -> by_name tbl z = None -> by_index tbl v = None ->
    zone_to_string tbl (wrapu32 (zone_to_int tbl z)) = Ret z.
Theorem C17_zone_index_roundtrip_full_refuted : ~ C17_zone_index_roundtrip_full.
Proof. exact zone_index_roundtrip_full_refuted. Qed.
Print Assumptions C17_zone_index_roundtrip_full_refuted.

Theorem C17_zone_index_ge_big_dropped : forall tbl v z, 16777215 <= v < 2 ^ 64 -> itod v = Ret z ->
  by_name tbl z = None -> zone_to_int tbl z = 0.
Proof. exact zone_index_ge_big_dropped. Qed.
Print Assumptions C17_zone_index_ge_big_dropped.

(* the zone functions alone, both directions *)
Theorem C17_zone_name : forall tbl z idx, valid_tbl tbl -> by_name tbl z = Some idx ->
  zone_to_int tbl z = idx /\ zone_to_string tbl (wrapu32 (zone_to_int tbl z)) = Ret z.
Proof. exact zone_roundtrip_name. Qed.
Print Assumptions C17_zone_name.

Theorem C17_zone_index : forall tbl v z, 0 < v < 16777215 -> itod v = Ret z ->
  by_name tbl z = None -> by_index tbl v = None ->
  zone_to_int tbl z = v /\ zone_to_string tbl (wrapu32 (zone_to_int tbl z)) = Ret z.
Proof. exact zone_roundtrip_index. Qed.
Print Assumptions C17_zone_index.

(* dtoi (itod v) = v for every 0 < v < big, all digits consumed; general in v *)
Theorem C17_itod_dtoi : forall v, 0 < v < 16777215 ->
  exists s, itod v = Ret s /\ dtoi s 0 = (v, zlen s, true).
Proof. exact itod_dtoi. Qed.
Print Assumptions C17_itod_dtoi.

(* itod of any uint never panics, yields the canonical decimal numeral (digits only, no
   leading zero, value v) and does not depend on the contents of the pooled 32-byte buffer *)
Theorem C17_itod_decimal : forall v, 0 < v < 2 ^ 64 ->
  exists c rest, itod v = Ret (c :: rest) /\ 49 <= c <= 57 /\
                 Forall (fun d => 48 <= d <= 57) (c :: rest) /\
                 fold_left (fun a d => a * 10 + (d - 48)) (c :: rest) 0 = v.
Proof. exact itod_decimal. Qed.
Print Assumptions C17_itod_decimal.

Theorem C17_itod_buffer_irrelevant : forall b1 b2 v, List.length b1 = 32%nat -> List.length b2 = 32%nat ->
  0 <= v < 2 ^ 64 -> itod_buf b1 v = itod_buf b2 v.
Proof. exact itod_buf_irrelevant. Qed.
Print Assumptions C17_itod_buffer_irrelevant.

(* ::ffff:a.b.c.d without zone converts to the IPv4 sockaddr a.b.c.d and comes back as
   the 4-byte address: the same address up to net.IP.Equal, not byte-identical *)
Theorem C17_roundtrip_v4in6 : forall tbl k ip4 port, zlen ip4 = 4 ->
  net_addr_to_sockaddr tbl (Some (mk_na k (Some (v4_prefix ++ ip4)) port [])) = Ret (Some (SA4 port ip4)) /\
  back k tbl (Some (SA4 port ip4)) = Ret (Some (mk_na k (Some ip4) port [])) /\
  ip_equal ip4 (v4_prefix ++ ip4) = true.
Proof. exact roundtrip_v4in6. Qed.
Print Assumptions C17_roundtrip_v4in6.

(* an IPv4 address (4-byte or v4-mapped form) WITH a zone travels as the v4-mapped IPv6
   sockaddr and comes back in 16-byte form, zone intact, IP.Equal to the original *)
Theorem C17_roundtrip_v4_zone : forall tbl k ip ip4 port zone idx, valid_tbl tbl ->
  to4 ip = Some ip4 -> by_name tbl zone = Some idx ->
  net_addr_to_sockaddr tbl (Some (mk_na k (Some ip) port zone)) = Ret (Some (SA6 port idx (v4_prefix ++ ip4))) /\
  back k tbl (Some (SA6 port idx (v4_prefix ++ ip4))) = Ret (Some (mk_na k (Some (v4_prefix ++ ip4)) port zone)) /\
  ip_equal (v4_prefix ++ ip4) ip = true.
Proof. exact roundtrip_v4_zone_name. Qed.
Print Assumptions C17_roundtrip_v4_zone.

(* Unix-domain: the name survives for the three supported networks (any byte string,
   including empty, abstract and 107 bytes); the network is returned as the socket type *)
Theorem C17_roundtrip_unix : forall tbl name net,
  net = net_unix \/ net = net_unixgram \/ net = net_unixpacket ->
  net_addr_to_sockaddr tbl (Some (NUnix name net)) = Ret (Some (SAUnix name)) /\
  sockaddr_to_tcp_or_unix tbl (Some (SAUnix name)) = Ret (Some (NUnix name net_unix)) /\
  snd (unix_addr_to_sockaddr name net) =
    (if bytes_eqb net net_unix then SOCK_STREAM else if bytes_eqb net net_unixgram then SOCK_DGRAM else SOCK_SEQPACKET).
Proof. exact roundtrip_unix. Qed.
Print Assumptions C17_roundtrip_unix.

(* ports (0..65535 and in fact every int) are passed through untouched *)
Theorem C17_port_preserved : forall tbl ip port zone sa,
  ip_to_sockaddr tbl ip port zone = Some sa ->
  match sa with SA4 p _ => p = port | SA6 p _ _ => p = port | _ => False end.
Proof. exact port_preserved. Qed.
Print Assumptions C17_port_preserved.

Theorem C17_port_preserved_back : forall tbl k sa na,
  back k tbl (Some sa) = Ret (Some na) ->
  match sa, na with
  | SA4 p _, NTCP _ q _ | SA4 p _, NUDP _ q _ | SA6 p _ _, NTCP _ q _ | SA6 p _ _, NUDP _ q _ => p = q
  | SAUnix n, NUnix m _ => n = m
  | _, _ => False
  end.
Proof. exact port_preserved_back. Qed.
Print Assumptions C17_port_preserved_back.

(* ---- nil instead of a wrong address or a panic ---- *)

Theorem C17_invalid_ip_none : forall tbl ip port zone, zlen ip <> 4 -> zlen ip <> 16 ->
  ip_to_sockaddr tbl (Some ip) port zone = None /\
  net_addr_to_sockaddr tbl (Some (NTCP (Some ip) port zone)) = Ret None /\
  net_addr_to_sockaddr tbl (Some (NUDP (Some ip) port zone)) = Ret None /\
  net_addr_to_sockaddr tbl (Some (NIP (Some ip) zone)) = Ret None.
Proof. exact invalid_ip_none. Qed.
Print Assumptions C17_invalid_ip_none.

Theorem C17_valid_ip_some : forall tbl ip port zone, zlen ip = 4 \/ zlen ip = 16 ->
  exists sa, ip_to_sockaddr tbl (Some ip) port zone = Some sa.
Proof. exact valid_ip_some. Qed.
Print Assumptions C17_valid_ip_some.

Theorem C17_unsupported_net_none : forall tbl name net,
  net <> net_unix -> net <> net_unixgram -> net <> net_unixpacket ->
  unix_addr_to_sockaddr name net = (None, 0) /\
  net_addr_to_sockaddr tbl (Some (NUnix name net)) = Ret None.
Proof. exact unsupported_net_none. Qed.
Print Assumptions C17_unsupported_net_none.

Theorem C17_foreign_types_none : forall tbl,
  net_addr_to_sockaddr tbl (Some NOther) = Ret None /\
  net_addr_to_sockaddr tbl None = Ret None /\
  sockaddr_to_tcp_or_unix tbl (Some SAOther) = Ret None /\
  sockaddr_to_tcp_or_unix tbl None = Ret None /\
  sockaddr_to_udp tbl (Some SAOther) = Ret None /\
  sockaddr_to_udp tbl None = Ret None /\
  (forall name, sockaddr_to_udp tbl (Some (SAUnix name)) = Ret None).
Proof. exact foreign_types_none. Qed.
Print Assumptions C17_foreign_types_none.

(* the only panic of NetAddrToSockaddr is a typed nil pointer inside the interface
   (excluded by the property: "a non-nil address") *)
Theorem C17_no_panic : forall tbl a, a <> Some NNilPtr -> exists r, net_addr_to_sockaddr tbl a = Ret r.
Proof. exact na2sa_no_panic. Qed.
Print Assumptions C17_no_panic.

Theorem C17_no_panic_back : forall tbl k sa,
  (forall p z a, sa = Some (SA6 p z a) -> 0 <= z < 4294967296) ->
  exists r, back k tbl sa = Ret r.
Proof. exact sa2na_no_panic. Qed.
Print Assumptions C17_no_panic_back.

(* ---- back and there: the accepted sockaddr -> RemoteAddr -> sockaddr (SendTo) ---- *)

Theorem C17_sa_roundtrip_v4 : forall tbl k port addr, zlen addr = 4 ->
  exists na, back k tbl (Some (SA4 port addr)) = Ret (Some na) /\
             net_addr_to_sockaddr tbl (Some na) = Ret (Some (SA4 port addr)).
Proof. exact sa_roundtrip_v4. Qed.
Print Assumptions C17_sa_roundtrip_v4.

Theorem C17_sa_roundtrip_v6_nozone : forall tbl k port addr, valid_tbl tbl -> zlen addr = 16 -> to4 addr = None ->
  exists na, back k tbl (Some (SA6 port 0 addr)) = Ret (Some na) /\
             net_addr_to_sockaddr tbl (Some na) = Ret (Some (SA6 port 0 addr)).
Proof. exact sa_roundtrip_v6_nozone. Qed.
Print Assumptions C17_sa_roundtrip_v6_nozone.

Theorem C17_sa_roundtrip_v6_zone : forall tbl k port idx name addr, valid_tbl tbl -> zlen addr = 16 ->
  by_index tbl idx = Some name -> idx <> 0 ->
  exists na, back k tbl (Some (SA6 port idx addr)) = Ret (Some na) /\
             net_addr_to_sockaddr tbl (Some na) = Ret (Some (SA6 port idx addr)).
Proof. exact sa_roundtrip_v6_zone_name. Qed.
Print Assumptions C17_sa_roundtrip_v6_zone.

Theorem C17_sa_roundtrip_v4mapped : forall tbl k port ip4, zlen ip4 = 4 ->
  exists na, back k tbl (Some (SA6 port 0 (v4_prefix ++ ip4))) = Ret (Some na) /\
             net_addr_to_sockaddr tbl (Some na) = Ret (Some (SA4 port ip4)).
Proof. exact sa_roundtrip_v4mapped. Qed.
Print Assumptions C17_sa_roundtrip_v4mapped.

(* ---- listen side: the sockaddr gnet binds denotes the address it reports as LocalAddr ---- *)

Theorem C17_listen_v4 : forall tbl proto ip ip4 port zone, to4 ip = Some ip4 ->
  listen_sockaddr tbl proto ip port zone = Some (AF_INET, SA4 port ip4, false).
Proof. exact listen_v4. Qed.
Print Assumptions C17_listen_v4.

Theorem C17_listen_v6 : forall tbl proto ip port zone, zlen ip = 16 -> to4 ip = None ->
  listen_sockaddr tbl proto ip port zone =
    Some (AF_INET6,
          SA6 port (match interface_by_name tbl zone with Some idx => wrapu32 idx | None => 0 end) ip,
          true).
Proof. exact listen_v6. Qed.
Print Assumptions C17_listen_v6.

(* ---- what the lifetime clause needs from the conversion level ---- *)

(* the reported address depends on the (mutable) OS interface table only through a non-zero zone id *)
Theorem C17_conversion_table_independent : forall tbl1 tbl2 k sa,
  (forall p z a, sa = Some (SA6 p z a) -> z = 0) ->
  back k tbl1 sa = back k tbl2 sa.
Proof. exact conversion_table_independent. Qed.
Print Assumptions C17_conversion_table_independent.

(* addresses are written once at open and erased at release: whatever other connections
   are opened and closed (all histories of churn), a connection keeps reporting the
   conversion of the sockaddr it was accepted with and its listener's address *)
Theorem C17_store_open_reports : forall tbl st id l sa,
  store_lookup id (store_step tbl st (COpen id l sa)) = Some (l, sockaddr_to_tcp_or_unix tbl sa).
Proof. exact store_open_reports. Qed.
Print Assumptions C17_store_open_reports.

Theorem C17_store_churn_stable : forall tbl ops st id,
  Forall (fun o => op_id o <> id) ops ->
  store_lookup id (fold_left (store_step tbl) ops st) = store_lookup id st.
Proof. exact store_churn_stable. Qed.
Print Assumptions C17_store_churn_stable.

(* in the trace semantics the check replays: a value the driver keeps alive (`keep`, `keepz`)
   reads the same after ANY later operations (pool churn, more conversions, more keeps) *)
Theorem C17_kept_stable : forall ops st i d, (i < List.length (sa_kept st))%nat ->
  nth i (sa_kept (fold_left sockaddr_step ops st)) d = nth i (sa_kept st) d.
Proof. exact kept_stable. Qed.
Print Assumptions C17_kept_stable.

(* the premise that makes the value-level model of itod faithful over time: sockaddr.go gets
   one buffer from the byte-slice pool (itod) and never puts one back, so the zone string
   is the only holder of its memory (pool_sites is regenerated from the source each run:
   obligation GenSockPool.v:sockaddr_pool_sites_as_modelled) *)
Theorem C17_pool_sites_no_put : forall fn callee a d, In (fn, callee, a, d) pool_sites ->
  fn = "itod"%string /\ callee = "Get"%string /\ d = false.
Proof. exact pool_sites_no_put. Qed.
Print Assumptions C17_pool_sites_no_put.

(* ---- non-vacuity: concrete instances evaluated by the kernel ---- *)
Definition ex_tbl : list iface := [([108;111], 1); ([101;116;104;48], 4)].   (* lo=1, eth0=4 *)
Definition ex_ll : bytes := [254;128;0;0;0;0;0;0;0;252;0;255;254;0;0;1].    (* fe80::fc:ff:fe00:1 *)

Example C17_ex_valid_tbl : valid_tbl ex_tbl.
Proof.
  unfold valid_tbl, ex_tbl; cbn. repeat split; try (repeat constructor; cbn; intuition congruence); try lia.
Qed.
Example C17_ex_zone_name :
  net_addr_to_sockaddr ex_tbl (Some (NTCP (Some ex_ll) 65535 [101;116;104;48])) = Ret (Some (SA6 65535 4 ex_ll)) /\
  sockaddr_to_tcp_or_unix ex_tbl (Some (SA6 65535 4 ex_ll)) = Ret (Some (NTCP (Some ex_ll) 65535 [101;116;104;48])).
Proof. split; vm_compute; reflexivity. Qed.
Example C17_ex_zone_index_9999 :
  itod 9999 = Ret [57;57;57;57] /\
  net_addr_to_sockaddr ex_tbl (Some (NUDP (Some ex_ll) 0 [57;57;57;57])) = Ret (Some (SA6 0 9999 ex_ll)) /\
  sockaddr_to_udp ex_tbl (Some (SA6 0 9999 ex_ll)) = Ret (Some (NUDP (Some ex_ll) 0 [57;57;57;57])).
Proof. repeat split; vm_compute; reflexivity. Qed.
Example C17_ex_v4in6 :
  net_addr_to_sockaddr ex_tbl (Some (NTCP (Some (v4_prefix ++ [192;0;2;2])) 80 [])) = Ret (Some (SA4 80 [192;0;2;2])).
Proof. vm_compute; reflexivity. Qed.
Example C17_ex_invalid_len :
  net_addr_to_sockaddr ex_tbl (Some (NTCP (Some [1;2;3;4;5]) 80 [])) = Ret None /\
  net_addr_to_sockaddr ex_tbl (Some (NTCP (Some []) 80 [108;111])) = Ret None.
Proof. split; vm_compute; reflexivity. Qed.
Example C17_ex_ge_big : zone_to_int ex_tbl [49;54;55;55;55;50;49;53] = 0 /\ itod 16777215 = Ret [49;54;55;55;55;50;49;53].
Proof. split; vm_compute; reflexivity. Qed.
Example C17_ex_churn :
  store_lookup 7 (fold_left (store_step ex_tbl)
     [COpen 8 None (Some (SA4 1 [10;0;0;1])); CClose 8; COpen 9 None (Some (SAUnix [])); COpen 8 None None]
     (store_step ex_tbl [] (COpen 7 (Some (NTCP (Some [127;0;0;1]) 9000 [])) (Some (SA4 40000 [127;0;0;1])))))
  = Some (Some (NTCP (Some [127;0;0;1]) 9000 []), Ret (Some (NTCP (Some [127;0;0;1]) 40000 []))).
Proof. vm_compute; reflexivity. Qed.
Example C17_ex_kept :
  run_sockaddr [("keep"%string, [ASym "tcp"%string; ASym "sa6"%string; AInt 1; AInt 9999; ABytes ex_ll]);
                ("churn"%string, [AInt 3]);
                ("keepz"%string, [AInt 1234]);
                ("recheck"%string, [AInt 0])]
  = [("na"%string, [ASym "tcp"%string; ABytes ex_ll; AInt 1; ABytes [57;57;57;57]]);
     ("zs"%string, [ABytes [49;50;51;52]]);
     ("na"%string, [ASym "tcp"%string; ABytes ex_ll; AInt 1; ABytes [57;57;57;57]])].
Proof. vm_compute; reflexivity. Qed.
