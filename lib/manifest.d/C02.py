CHECK = dict(
    engine="loop", design_ref="4 / the connection and event-loop model (C02)",
    text="""Coq theorem outbound_ok over every input stream: kernel-accepted bytes are the front of the submitted-unhanded stream in submission order, OutboundBuffered matches; theorem out_progress_ok: whenever the loop goes back to waiting, a connection with buffered output has its write interest registered (LT) or is owed an edge / has a write task queued (ET); conn.processIO regenerated from the source and proved equal to the model's dispatch (genloop); plus replay of real engine traces and the peer-side receive oracle (incl. stuck-output detection).""",
    note="Proof is about the hand-written model coq/Model/Loop.v (kernel, handler and other goroutines are universally quantified inputs); "
         "the tie to /repo is the per-run trace correspondence through the vunix shim. Kernel stream semantics assumed (monitors in the model state the contract). Runs cover the default, gc_opt and poll_opt builds, server and client side, 1-4 loops (loop 0 modelled, the others judged by the direct oracles).",
    technique="Coq invariant proofs over a big-step interpreter of the event loop + executable trace checkers + differential replay of real engine runs",
)
ENGINE = dict(name="loop", path="coq/Model/Loop.v", serves_properties=["C02"],
              kind_free_text="Gallina model of one event loop (connection_unix/eventloop_unix/processIO/accept/task queues) + Spec/LoopSpec.v checkers + drv-loop + vunix shim")
