(* What a waiting registration waits for: its task is queued on its loop. *)
From GV Require Import Lib.Trace Lib.Interleave Model.Engine Proofs.EngineBase Proofs.EngineInv Proofs.EngineHist
  Proofs.EngineConns Proofs.EngineWorkers Proofs.EngineProgress Proofs.EngineProofs.
From Coq Require Import Lia List Bool Arith ZArith.
Import ListNotations.
Open Scope list_scope.
Local Arguments upd {A} _ _ _ : simpl nomatch.

(* ------------------------------------------------------------------ *)
(* what a waiting registration waits for *)

Definition Inv_q (s : estate) : Prop := forall k w,
  nth_error (e_workers s) k = Some w -> w_pc w = WWait -> w_opened w = false ->
  exists l cid, get_loop s (w_loop w) = Some l /\ In (TReg cid (OWorker k)) (l_q l).

(* queues only grow, except for the task a loop runs *)
Definition q_pres (s s' : estate) : Prop := forall li l,
  get_loop s li = Some l -> exists l', get_loop s' li = Some l' /\ forall t, In t (l_q l) -> In t (l_q l').

Lemma q_pres_refl : forall s s', e_loops s' = e_loops s -> q_pres s s'.
Proof. intros s s' E li l H. exists l. unfold get_loop in *. rewrite E. auto. Qed.

Lemma q_pres_upd : forall s s' i f, e_loops s' = upd i f (e_loops s) ->
  (forall l t, In t (l_q l) -> In t (l_q (f l))) -> q_pres s s'.
Proof.
  intros s s' i f E Hf li l H. unfold get_loop in *. rewrite E, nth_error_upd.
  destruct (Nat.eqb i li); rewrite H; cbn; eauto.
Qed.

Lemma q_pres_put : forall s s' i l l', get_loop s i = Some l -> e_loops s' = upd i (fun _ => l') (e_loops s) ->
  (forall t, In t (l_q l) -> In t (l_q l')) -> q_pres s s'.
Proof.
  intros s s' i l l' Hl E Hf li lx H. unfold get_loop in *. rewrite E, nth_error_upd.
  destruct (Nat.eqb_spec i li) as [->|Hne]; rewrite H; cbn; eauto.
  rewrite Hl in H. injection H as <-. eauto.
Qed.

Lemma q_pres_map : forall s s' f, e_loops s' = map f (e_loops s) ->
  (forall l, l_q (f l) = l_q l) -> q_pres s s'.
Proof.
  intros s s' f E Hf li l H. unfold get_loop in *. rewrite E, nth_error_map, H. cbn.
  eexists; split; [reflexivity|]. intros t Ht. rewrite Hf. exact Ht.
Qed.

(* workers unchanged up to w_opened going true, extended at the end by workers that do not wait *)
Definition w_pres (s s' : estate) : Prop := forall k w',
  nth_error (e_workers s') k = Some w' -> w_pc w' = WWait -> w_opened w' = false ->
  exists w, nth_error (e_workers s) k = Some w /\ w_pc w = WWait /\ w_opened w = false /\ w_loop w = w_loop w'.

Lemma Inv_q_pres : forall s s', Inv_q s -> q_pres s s' -> w_pres s s' -> Inv_q s'.
Proof.
  intros s s' HI Hq Hw k w' Hk Hp Ho.
  destruct (Hw k w' Hk Hp Ho) as [w [H1 [H2 [H3 H4]]]].
  destruct (HI k w H1 H2 H3) as [l [cid [Hl Hin]]]. rewrite H4 in Hl.
  destruct (Hq _ _ Hl) as [l' [Hl' Hsub]]. exists l', cid. auto.
Qed.

Lemma w_pres_same : forall s s', e_workers s' = e_workers s -> w_pres s s'.
Proof. intros s s' E k w' H Hp Ho. rewrite E in H. eauto. Qed.

Lemma w_pres_new : forall s s' w0, e_workers s' = e_workers s ++ [w0] -> w_pc w0 <> WWait -> w_pres s s'.
Proof.
  intros s s' w0 E Hn k w' H Hp Ho. rewrite E in H.
  destruct (Nat.ltb_spec k (List.length (e_workers s))).
  - rewrite nth_error_app1 in H by assumption. eauto.
  - rewrite nth_error_app2 in H by assumption. destruct (k - List.length (e_workers s))%nat as [|m]; cbn in H.
    + injection H as <-. congruence.
    + destruct m; discriminate.
Qed.

Lemma w_pres_signal : forall s s' o, e_workers s' = e_workers (signal s o) -> w_pres s s'.
Proof.
  intros s s' o E k w' H Hp Ho. rewrite E in H. destruct o as [|j|g]; cbn in H; eauto.
  rewrite nth_error_upd in H. destruct (Nat.eqb j k).
  - destruct (nth_error (e_workers s) k); cbn in H; [|discriminate]. injection H as <-. cbn in Ho. discriminate.
  - eauto.
Qed.

Lemma w_pres_put : forall s s' k w0, e_workers s' = upd k (fun _ => w0) (e_workers s) ->
  (w_pc w0 <> WWait \/ w_opened w0 = true) -> w_pres s s'.
Proof.
  intros s s' k w0 E Hn j w' H Hp Ho. rewrite E, nth_error_upd in H. destruct (Nat.eqb k j).
  - destruct (nth_error (e_workers s) j); cbn in H; [|discriminate]. injection H as <-.
    destruct Hn as [Hn|Hn]; congruence.
  - eauto.
Qed.

Lemma In_remove_nth : forall (q : list task) k t t', nth_error q k = Some t' -> In t q -> t <> t' -> In t (remove_nth k q).
Proof.
  induction q as [|x r IH]; intros [|k] t t' Hn Hi Hne; cbn in *; try discriminate.
  - injection Hn as ->. destruct Hi as [->|Hi]; [congruence|exact Hi].
  - destruct Hi as [->|Hi]; [left; reflexivity|right; eapply IH; eauto].
Qed.

Lemma Inv_q_run : forall s i l k tk l' s',
  Inv_q s -> get_loop s i = Some l -> nth_error (l_q l) k = Some tk ->
  (forall t, In t (l_q l) -> t <> tk -> In t (l_q l')) ->
  e_loops s' = upd i (fun _ => l') (e_loops s) ->
  (forall j w', nth_error (e_workers s') j = Some w' -> w_pc w' = WWait -> w_opened w' = false ->
     exists w, nth_error (e_workers s) j = Some w /\ w_pc w = WWait /\ w_opened w = false /\ w_loop w = w_loop w' /\
               forall cid, tk <> TReg cid (OWorker j)) ->
  Inv_q s'.
Proof.
  intros s i l k tk l' s' HI Hl Hk Hin EL HW j w' Hj Hp Ho.
  destruct (HW j w' Hj Hp Ho) as [w [H1 [H2 [H3 [H4 H5]]]]].
  destruct (HI j w H1 H2 H3) as [lw [cid [Hlw Hi]]]. rewrite H4 in Hlw.
  unfold get_loop in *. rewrite EL, nth_error_upd. destruct (Nat.eqb_spec i (w_loop w')) as [Hii|Hne].
  - rewrite <- Hii in Hlw. rewrite Hl in Hlw. injection Hlw as <-. rewrite <- Hii, Hl. cbn.
    exists l', cid. split; [reflexivity|]. apply Hin; [exact Hi|]. apply not_eq_sym. apply H5.
  - exists lw, cid. auto.
Qed.

Ltac qw_fin := frame_fin;
  first [ apply q_pres_refl; reflexivity
        | (eapply q_pres_upd; [reflexivity|]; intros; cbn; rewrite ?in_app_iff; auto)
        | (eapply q_pres_map; [reflexivity|]; intros; reflexivity)
        | apply w_pres_same; reflexivity
        | (eapply w_pres_new; [reflexivity|]; discriminate)
        | idtac ].

Lemma Inv_q_init : forall cfg nu, Inv_q (einit cfg nu).
Proof. intros cfg nu k w H. destruct k; discriminate H. Qed.

Lemma Inv_q_step : forall s t c s' evs, Inv_q s -> estep_opt s t c = Some (s', evs) -> Inv_q (push evs s').
Proof.
  intros s t c s' evs HI H.
  assert (G : Inv_q s'); [|exact G].
  destruct t; cbn in H.
  - unfold rstep in H. destruct (e_r s); destruct c; try discriminate H; cbv beta iota in H; step_cases H.
    all: eapply Inv_q_pres; [exact HI| |]; qw_fin.
  - (* a loop: the task it runs may be a registration, whose owner is then signalled *)
    unfold lstep in H. destruct (get_loop s i) as [l|] eqn:Hl; [|discriminate H].
    destruct (l_pc l) eqn:Epc.
    2: destruct c as [| | | | |io|k h| | | | | | |]; try (destruct io).
    all: step_cases H.
    all: try match goal with E : apply_cb _ _ _ _ = _ |- _ => apply apply_cb_spec in E; destruct E as [Eq _]; cbn in Eq end.
    all: try match goal with E : loop_common _ _ _ = Some _ |- _ => unfold loop_common in E; rewrite Epc in E; step_cases E end.
    all: try match goal with X : false = ?b |- _ => subst b end; try match goal with X : true = ?b |- _ => subst b end.
    all: try match goal with |- context [cancel_if ?b _] => destruct b; cbn [cancel_if] end.
    all: try match goal with |- context [if act_shut ?a then _ else _] => destruct (act_shut a) end.
    all: try (eapply Inv_q_pres; [exact HI
              |eapply q_pres_put; [exact Hl|reflexivity|intros tx Htx; cbn; rewrite ?Eq; cbn; auto]
              |apply w_pres_same; reflexivity]; fail).
    all: try match goal with E : nth_error (l_q _) ?k = Some ?tk |- _ => rename E into Enth end.
    all: eapply Inv_q_run; [exact HI|exact Hl|exact Enth| |first [reflexivity|destruct o; reflexivity]|].
    all: try (intros tx Htx Hne; cbn; rewrite ?Eq; cbn; eapply In_remove_nth; eauto).
    all: intros j w' Hj Hp Ho.
    all: try (exists w'; splits; auto; intros; discriminate).
    all: destruct o as [|jo|g]; cbn [signal e_workers set_workers set_users set_cancel set_loops] in Hj;
         try (exists w'; splits; auto; intros; discriminate).
    all: rewrite nth_error_upd in Hj; destruct (Nat.eqb_spec jo j) as [->|Hne];
         [destruct (nth_error (e_workers s) j); cbn in Hj; [|discriminate]; injection Hj as <-; cbn in Ho; discriminate
         |exists w'; splits; auto; intros; congruence].
  - unfold astep in H. step_cases H.
    all: eapply Inv_q_pres; [exact HI| |]; qw_fin.
  - unfold tstep in H. step_cases H.
    all: eapply Inv_q_pres; [exact HI| |]; qw_fin.
  - unfold ustep in H. destruct (get_user s g); [|discriminate].
    destruct u as [|ex pk|op].
    + destruct c; try discriminate H. unfold do_call in H. destruct c; step_cases H; unfold new_worker.
      all: eapply Inv_q_pres; [exact HI| |]; qw_fin.
      all: try (destruct b; qw_fin).
    + destruct c; try discriminate H; step_cases H.
      all: eapply Inv_q_pres; [exact HI| |]; qw_fin.
    + step_cases H. eapply Inv_q_pres; [exact HI| |]; qw_fin.
  - (* a worker *)
    unfold wstep in H. destruct (nth_error (e_workers s) k) as [wk|] eqn:Ek; [|discriminate H].
    step_cases H.
    all: try (eapply Inv_q_pres; [exact HI
             |first [apply q_pres_refl; reflexivity | eapply q_pres_upd; [reflexivity|]; intros; cbn; rewrite ?in_app_iff; auto]
             |eapply w_pres_put; [reflexivity|cbn; first [left; discriminate|right; reflexivity]]]; fail).
    (* the worker that has just triggered its registration *)
    intros j w Hj Hp Ho. cbn [e_workers set_workers set_next trigger set_loops] in Hj.
    rewrite nth_error_upd in Hj. destruct (Nat.eqb_spec k j) as [Hkj|Hkj].
    + subst j. rewrite Ek in Hj. cbn in Hj. injection Hj as <-. cbn [w_loop].
      match goal with E : get_loop s (w_loop wk) = Some ?lx |- _ => rename E into Hlx end.
      unfold get_loop in *. cbn [e_loops set_loops set_workers set_next trigger]. rewrite nth_error_upd, Nat.eqb_refl, Hlx. cbn.
      eexists _, (e_next s). split; [reflexivity|]. cbn. rewrite in_app_iff. right. left. reflexivity.
    + destruct (HI j w Hj Hp Ho) as [lw [cid [Hlw Hin]]].
      unfold get_loop in *. cbn [e_loops set_loops set_workers set_next trigger]. rewrite nth_error_upd.
      destruct (Nat.eqb (w_loop wk) (w_loop w)); rewrite Hlw; cbn; eexists _, cid; (split; [reflexivity|]); cbn; rewrite ?in_app_iff; auto.
Qed.

Theorem inv_q_reachable : forall s, ereachable s -> Inv_q s.
Proof.
  apply engine_invariant; [apply Inv_q_init|]. intros s t c s' evs _ HI H. eapply Inv_q_step; eauto.
Qed.

(* ------------------------------------------------------------------ *)
(* the positive half of one_result: a registration whose loop is still polling can complete *)

Lemma exec_one : forall s t c s1 evs, estep_opt s t c = Some (s1, evs) ->
  exec (fun_step estep) s [((t, c), evs)] (push evs s1).
Proof.
  intros s t c s1 evs H. change [((t, c), evs)] with ([] ++ [((t, c), evs)]).
  eapply exec_snoc; [apply exec_nil|]. unfold fun_step, estep; cbn. rewrite H. reflexivity.
Qed.

Lemma deliver_when_opened : forall s k w, ereachable s -> nth_error (e_workers s) k = Some w ->
  w_pc w = WWait -> w_opened w = true ->
  exists tr s', exec (fun_step estep) s tr s' /\ count_results k (e_hist s') = 1%Z.
Proof.
  intros s k w Hr Hk Hp Ho.
  assert (H : estep_opt s (TW k) CNone =
              Some (set_workers s (upd k (fun _ => mkWk WDone (w_loop w) true (w_res w + 1)) (e_workers s)), [(TW k, KResult true)])).
  { cbn. unfold wstep. rewrite Hk, Hp, Ho. reflexivity. }
  eexists _, _. split; [apply exec_one; exact H|].
  pose proof (ereachable_step _ _ _ _ _ Hr H) as Hr'.
  assert (Hk' : nth_error (e_workers (push [(TW k, KResult true)]
                  (set_workers s (upd k (fun _ => mkWk WDone (w_loop w) true (w_res w + 1)) (e_workers s))))) k =
                Some (mkWk WDone (w_loop w) true (w_res w + 1))).
  { cbn [push set_hist e_workers set_workers]. erewrite nth_error_upd_same; [reflexivity|exact Hk]. }
  destruct (one_result _ _ _ Hr' Hk') as [A [B C]]. rewrite A. apply C. reflexivity.
Qed.

Theorem one_result_partial : forall s k w, ereachable s -> nth_error (e_workers s) k = Some w ->
  w_pc w = WWait ->
  (forall l, get_loop s (w_loop w) = Some l -> l_pc l = LPoll) ->
  exists tr s', exec (fun_step estep) s tr s' /\ count_results k (e_hist s') = 1%Z.
Proof.
  intros s k w Hr Hk Hp Hpoll.
  destruct (w_opened w) eqn:Ho; [eapply deliver_when_opened; eauto|].
  destruct (inv_q_reachable _ Hr k w Hk Hp Ho) as [l [cid [Hl Hin]]].
  apply In_nth_error in Hin. destruct Hin as [idx Hidx].
  specialize (Hpoll l Hl).
  (* the loop runs the registration task *)
  destruct (apply_cb (TL (w_loop w)) (l_set_conns (l_set_q l (remove_nth idx (l_q l))) (l_conns (l_set_q l (remove_nth idx (l_q l))) ++ [cid])) cid h_none)
    as [[l2 ev2] d] eqn:Ecb.
  assert (H1 : exists s1 evs1, estep_opt s (TL (w_loop w)) (CRun idx h_none) = Some (s1, evs1) /\
               e_workers s1 = upd k (fun w => mkWk (w_pc w) (w_loop w) true (w_res w)) (e_workers s)).
  { cbn. unfold lstep. rewrite Hl, Hpoll, Hidx, Ecb. eexists _, _. split; [reflexivity|]. destruct d; reflexivity. }
  destruct H1 as [s1 [evs1 [H1 Hw1]]].
  pose proof (ereachable_step _ _ _ _ _ Hr H1) as Hr1.
  assert (Hk1 : nth_error (e_workers (push evs1 s1)) k = Some (mkWk WWait (w_loop w) true (w_res w))).
  { cbn [push set_hist e_workers]. rewrite Hw1. erewrite nth_error_upd_same; [|exact Hk]. rewrite Hp. reflexivity. }
  destruct (deliver_when_opened _ _ _ Hr1 Hk1 eq_refl eq_refl) as [tr [s' [He Hc]]].
  exists ([((TL (w_loop w), CRun idx h_none), evs1)] ++ tr), s'. split; [|exact Hc].
  eapply exec_app; [apply exec_one; exact H1|exact He].
Qed.

Theorem registration_queued : forall s k w, ereachable s ->
  nth_error (e_workers s) k = Some w -> w_pc w = WWait -> w_opened w = false ->
  exists l cid, get_loop s (w_loop w) = Some l /\ In (TReg cid (OWorker k)) (l_q l).
Proof. intros s k w Hr. exact (inv_q_reachable s Hr k w). Qed.
