(* Every documented source of shutdown raises `requested`; the registration that is
   stranded when its loop exits (the refuted part of one_result); what a waiting
   registration waits for; non-vacuity examples. *)
From GV Require Import Lib.Trace Lib.Interleave Model.Engine Proofs.EngineBase Proofs.EngineInv Proofs.EngineHist
  Proofs.EngineConns Proofs.EngineWorkers Proofs.EngineProgress Proofs.EngineProofs.
From Coq Require Import Lia List Bool Arith ZArith.
Import ListNotations.
Open Scope list_scope.
Local Arguments upd {A} _ _ _ : simpl nomatch.

(* ------------------------------------------------------------------ *)
(* sources of shutdown *)

(* the handler asked for a shutdown in a callback of a connection: Shutdown returned from
   OnOpen / OnTraffic, or from the OnClose that the callback caused *)
Definition cb_asks (h : hres) : bool := let '(_, sentinel, off) := after_cb h in sentinel || off.

Definition io_asks (e : ioev) : bool :=
  match e with
  | IoOpen h | IoTraffic _ h => cb_asks h
  | IoPeerClose _ ca => act_shut ca
  | IoDatagram a => act_shut a
  end.

Lemma existsb_upd_const : forall (f : loop -> bool) l i x y,
  nth_error l i = Some x -> f y = true -> existsb f (upd i (fun _ => y) l) = true.
Proof.
  induction l as [|z r IH]; intros [|i] x y H Hy; cbn in *; try discriminate.
  - rewrite Hy. reflexivity.
  - rewrite (IH _ _ _ H Hy). apply orb_true_r.
Qed.

Lemma requested_by_loop : forall s i l y, get_loop s i = Some l -> loop_unwinding y = true ->
  forall s', e_loops s' = upd i (fun _ => y) (e_loops s) -> requested s' = true.
Proof.
  intros s i l y Hl Hy s' E. unfold requested. rewrite E.
  rewrite (existsb_upd_const loop_unwinding _ _ _ _ Hl Hy). rewrite orb_true_r. reflexivity.
Qed.

Lemma apply_cb_asks : forall t l cid h l2 evs d, apply_cb t l cid h = (l2, evs, d) -> cb_asks h = true ->
  loop_unwinding l2 = true \/ d = true.
Proof.
  intros t l cid h l2 evs d H Ha. unfold apply_cb in H. unfold cb_asks in Ha.
  destruct (after_cb h) as [[cl se] off]. injection H as <- <- <-.
  destruct se; [left; destruct cl; reflexivity|right; exact Ha].
Qed.

Lemma requested_cancel : forall s, e_cancel s = true -> requested s = true.
Proof. intros s H. unfold requested. rewrite H. reflexivity. Qed.

Theorem io_shutdown_requests : forall i s e s' evs,
  lstep i s (CIo e) = Some (s', evs) -> io_asks e = true -> requested s' = true.
Proof.
  intros i s e s' evs H Ha. unfold lstep in H.
  destruct (get_loop s i) as [l|] eqn:Hl; [|discriminate H].
  destruct (l_pc l) eqn:Epc; try (unfold loop_common in H; rewrite Epc in H; discriminate H).
  destruct e; cbn in Ha; cbv beta iota in H; step_cases H.
  all: try match goal with E : apply_cb _ _ _ _ = _ |- _ => destruct (apply_cb_asks _ _ _ _ _ _ _ E Ha) as [Hu| ->] end.
  all: try (apply requested_cancel; reflexivity).
  all: try (destruct b; [apply requested_cancel; reflexivity|]).
  all: try (eapply requested_by_loop; [exact Hl|exact Hu|reflexivity]).
  all: rewrite Ha; eapply requested_by_loop; [exact Hl| |reflexivity]; reflexivity.
Qed.

Theorem register_shutdown_requests : forall i s k h s' evs l cid o,
  lstep i s (CRun k h) = Some (s', evs) -> get_loop s i = Some l -> nth_error (l_q l) k = Some (TReg cid o) ->
  cb_asks h = true -> requested s' = true.
Proof.
  intros i s k h s' evs l cid o H Hl Hk Ha. unfold lstep in H. rewrite Hl in H.
  destruct (l_pc l) eqn:Epc; try (unfold loop_common in H; rewrite Epc in H; discriminate H).
  cbv beta iota in H. rewrite Hk in H.
  destruct (apply_cb (TL i) (l_set_conns (l_set_q l (remove_nth k (l_q l))) (l_conns (l_set_q l (remove_nth k (l_q l))) ++ [cid])) cid h)
    as [[l2 ev2] d] eqn:E.
  injection H as <- <-.
  destruct (apply_cb_asks _ _ _ _ _ _ _ E Ha) as [Hu| ->].
  - assert (forall s0 o0, requested s0 = true -> requested (signal s0 o0) = true) as Hs by (intros s0 [| |] X; exact X).
    apply Hs. destruct d; cbn [cancel_if]; [apply requested_cancel; reflexivity|].
    eapply requested_by_loop; [exact Hl|exact Hu|reflexivity].
  - assert (forall s0 o0, e_cancel s0 = true -> requested (signal s0 o0) = true) as Hs
      by (intros s0 [| |] X; apply requested_cancel; exact X).
    apply Hs. reflexivity.
Qed.

(* OnTick: the exit task goes to the ticker's loop; it counts as a request as long as that
   loop has not exited (if it has, the engine is already cancelled: see exited_cancelled) *)
Lemma has_shut_enq : forall q, has_shut (q ++ [TShut]) = true.
Proof. intros. rewrite has_shut_app. apply orb_true_r. Qed.

Lemma unwinding_enq : forall l, l_pc l <> LIdle -> l_pc l <> LExited -> loop_unwinding (enq_loop l TShut) = true.
Proof.
  intros l H1 H2. unfold loop_unwinding, enq_loop; cbn. destruct (l_pc l); try congruence. apply has_shut_enq.
Qed.

Lemma existsb_upd_f : forall (f : loop -> bool) g l i x,
  nth_error l i = Some x -> f (g x) = true -> existsb f (upd i g l) = true.
Proof.
  induction l as [|z r IH]; intros [|i] x H Hy; cbn in *; try discriminate.
  - injection H as ->. rewrite Hy. reflexivity.
  - rewrite (IH _ _ H Hy). apply orb_true_r.
Qed.

Theorem tick_shutdown_requests : forall s s' evs, Inv_pc s ->
  tstep s (CTick AShut) = Some (s', evs) ->
  (if c_reactor (e_cfg s) then l_pc (e_ing s) <> LExited
   else exists l, get_loop s 0 = Some l /\ l_pc l <> LExited) ->
  requested s' = true.
Proof.
  intros s s' evs HI H Hne. unfold tstep in H. destruct (e_t s) eqn:Et; try discriminate H.
  injection H as <- <-. cbn [act_shut].
  assert (Hst : e_started s = true).
  { destruct (e_started s) eqn:Es; [reflexivity|]. destruct (ip_unstarted _ HI Es) as [_ [_ [Hx _]]]. congruence. }
  destruct (ip_started _ HI Hst) as [Hl [Hi _]].
  destruct (c_reactor (e_cfg s)) eqn:Ere.
  - unfold requested, trigger_ing; cbn. rewrite (unwinding_enq _ (Hi eq_refl) Hne). rewrite orb_true_r. reflexivity.
  - destruct Hne as [l [Hg Hne]]. unfold requested, trigger; cbn. unfold get_loop in Hg.
    rewrite (existsb_upd_f loop_unwinding _ _ _ _ Hg); [rewrite orb_true_r; reflexivity|].
    apply unwinding_enq; [|exact Hne]. exact (Forall_nth_error _ _ _ _ _ Hl Hg).
Qed.

(* Engine.Stop, gnet.Stop and Client.Stop *)
Theorem stop_requests :
  (forall s g e s' evs, get_user s g = Some UIdle -> stop_entry (phase_s s) = None ->
     estep_opt s (TU g) (CCall (KStop e)) = Some (s', evs) -> requested s' = true) /\
  (forall s g e s' evs, get_user s g = Some UIdle -> e_inall s = true ->
     estep_opt s (TU g) (CCall (KPkgStop true e)) = Some (s', evs) -> requested s' = true) /\
  (forall s s' evs, rstep s CClientStop = Some (s', evs) -> requested s' = true /\ stop_pending s' = true).
Proof.
  splits.
  - intros s g e s' evs Hu Hp H. destruct (stop_starts_shutdown _ _ _ _ _ Hu Hp H) as [Hc _]. apply requested_cancel; exact Hc.
  - intros s g e s' evs Hu Hi H. cbn [estep_opt] in H. unfold ustep in H. rewrite Hu in H. unfold do_call in H.
    rewrite Hi in H. cbn in H. destruct (e_insd s); injection H as <- <-; apply requested_cancel; reflexivity.
  - intros s s' evs H. unfold rstep in H. destruct (e_r s); try discriminate H. destruct (c_client (e_cfg s)); [|discriminate H].
    injection H as <- <-. split; [apply requested_cancel|]; reflexivity.
Qed.

(* ------------------------------------------------------------------ *)
(* the stranded registration (one_result is refuted in its "exactly one" reading) *)

Definition refute_cfg : config := mkCfg false 1 true false 1.

Definition refute_sched : list (tid * choice) :=
  [ (TR, CBoot ANone); (TR, CNone); (TR, CNone);
    (TU 0, CCall (KStop true)); (TU 0, CPollCtx);
    (TR, CNone); (TR, CNone); (TR, CNone);
    (TL 0, CRun 0 h_none); (TL 0, CNone); (TL 0, CNone);
    (TA, CRun 0 h_none); (TA, CNone); (TA, CNone);
    (TR, CNone);
    (* every loop has exited and Wait has returned; inShutdown is not yet set: Register is accepted *)
    (TU 1, CCall (KRegister TgtAddr 0)); (TW 0, CDial true); (TW 0, CTrig false);
    (TR, CNone); (TR, CNone); (TR, CNone) ].

Definition refute_state : estate := fst (run estep (einit refute_cfg 2) refute_sched).

Lemma refute_reachable : ereachable refute_state.
Proof. apply run_reachable. exists refute_cfg, 2%nat. reflexivity. Qed.

(* the state in which a registration can never complete *)
Definition stranded (s : estate) : Prop :=
  e_r s = RReturned /\
  Forall (fun l => l_pc l <> LPoll) (e_loops s) /\
  exists w, nth_error (e_workers s) 0 = Some w /\ w_pc w = WWait /\ w_opened w = false.

Lemma refute_stranded : stranded refute_state /\ returned refute_state = true /\
  e_insd refute_state = true /\ count_results 0 (e_hist refute_state) = 0%Z /\
  In (TU 1, KRes RNil) (e_hist refute_state).
Proof.
  unfold stranded. vm_compute. splits; auto.
  - repeat constructor; discriminate.
  - eexists; splits; reflexivity.
Qed.

Global Opaque refute_state.
Local Arguments nth_error : simpl never.

Lemma stranded_step : forall s t c s' evs, stranded s -> estep_opt s t c = Some (s', evs) -> stranded (push evs s').
Proof.
  intros s t c s' evs [Hr [Hl [w [Hw [Hp Ho]]]]] H. unfold stranded. cbn [push set_hist e_r e_loops e_workers].
  destruct t; cbn in H.
  - unfold rstep in H. rewrite Hr in H. destruct c; discriminate H.
  - unfold lstep in H. destruct (get_loop s i) as [l|] eqn:Hg; [|discriminate H].
    pose proof (Forall_nth_error _ _ _ _ _ Hl Hg) as Hnp.
    destruct (l_pc l) eqn:Epc; try congruence.
    all: destruct (loop_common (TL i) l c) as [[[l' e'] off]|] eqn:E; [|discriminate H].
    all: injection H as <- <-.
    all: unfold loop_common in E; rewrite Epc in E; step_cases E.
    all: try match goal with X : false = ?b |- _ => subst b end; try match goal with X : true = ?b |- _ => subst b end.
    all: cbn [e_r e_loops e_workers set_cancel set_loops]; splits; auto.
    all: try (apply Forall_upd_nth; [exact Hl|]; intros; cbn; rewrite ?Epc; discriminate).
    all: eauto.
  - unfold astep in H. step_cases H; frame_fin; splits; auto; try (eexists; splits; eauto).
    all: try (apply Forall_upd_nth; [exact Hl|]; intros x Hx Hnx; exact Hnx).
    all: try match goal with X : false = ?b |- _ => subst b end; try match goal with X : true = ?b |- _ => subst b end; cbn; splits; auto; eauto.
  - unfold tstep in H. step_cases H; frame_fin; splits; auto; try (eexists; splits; eauto).
    all: try (apply Forall_upd_nth; [exact Hl|]; intros x Hx Hnx; exact Hnx).
  - unfold ustep in H. destruct (get_user s g); [|discriminate].
    destruct u as [|ex pk|op].
    + destruct c; try discriminate H. unfold do_call in H. destruct c; step_cases H; unfold new_worker; frame_fin; splits; auto.
      all: try (apply Forall_upd_nth; [exact Hl|]; intros x Hx Hnx; exact Hnx).
      all: try (eexists; splits; [|exact Hp|exact Ho]; try exact Hw).
      all: try (rewrite nth_error_app1; [exact Hw|apply nth_error_Some; congruence]).
      all: try (destruct (e_workers s); [discriminate Hw|exact Hw]).
    + destruct c; try discriminate H; step_cases H; frame_fin; splits; auto; eauto.
    + step_cases H; frame_fin; splits; auto; eauto.
  - unfold wstep in H. destruct (nth_error (e_workers s) k) as [wk|] eqn:Ek; [|discriminate H].
    destruct (Nat.eqb_spec k 0) as [->|Hk0].
    + rewrite Hw in Ek. injection Ek as <-. rewrite Hp in H. destruct c; try discriminate H. rewrite Ho in H. discriminate H.
    + step_cases H; frame_fin; splits; auto.
      all: try (apply Forall_upd_nth; [exact Hl|]; intros x Hx Hnx; exact Hnx).
      all: eexists; splits; [|exact Hp|exact Ho]; rewrite nth_error_upd_other; auto.
Qed.

(* an accepted Register whose worker never delivers a result, in no continuation *)
Theorem one_result_refuted : exists s, ereachable s /\ returned s = true /\
  In (TU 1, KRes RNil) (e_hist s) /\
  (exists w, nth_error (e_workers s) 0 = Some w) /\
  forall tr s', exec (fun_step estep) s tr s' -> count_results 0 (e_hist s') = 0%Z.
Proof.
  exists refute_state. destruct refute_stranded as [Hst [Hret [_ [_ Hin]]]].
  split; [apply refute_reachable|]. split; [exact Hret|]. split; [exact Hin|]. split.
  - destruct Hst as [_ [_ [w [Hw _]]]]. exists w. exact Hw.
  - intros tr s' He. pose proof refute_reachable as Hre.
    assert (stranded s' /\ ereachable s') as [[_ [_ [w [Hw [Hp _]]]]] Hr'].
    { clear Hret Hin. induction He as [s|s tr s1 [[t c] o] s2 He IH Hs].
      - split; [exact Hst|exact Hre].
      - specialize (IH Hst Hre). destruct IH as [I1 I2].
        unfold fun_step, estep in Hs; cbn in Hs.
        destruct (estep_opt s1 t c) as [[s3 evs]|] eqn:E; injection Hs as <- _; [|auto].
        split; [eapply stranded_step; eauto|eapply ereachable_step; eauto]. }
    destruct (one_result _ _ _ Hr' Hw) as [A [B C]]. rewrite A.
    destruct B as [B|B]; [exact B|]. apply C in B. rewrite Hp in B. discriminate B.
Qed.


(* ------------------------------------------------------------------ *)
(* the handle captured in OnBoot of a Run that returns without starting *)

Definition never_started_state : estate :=
  fst (run estep (einit refute_cfg 1) [ (TR, CBoot AShut); (TR, CNone) ]).

Theorem never_started_refuted : exists s, ereachable s /\ returned s = true /\ e_started s = false /\
  validate (phase_s s) = RNil /\ stop_entry (phase_s s) = None /\
  dup_res (phase_s s) (c_nlis (e_cfg s)) (lis_open s) = ROsErr.
Proof.
  exists never_started_state. split; [apply run_reachable; exists refute_cfg, 1%nat; reflexivity|].
  vm_compute. repeat split.
Qed.

(* a handle that never belonged to a Run that reached OnBoot is reported as empty *)
Theorem never_started_partial : forall s, e_alloc s = false ->
  phase_s s = PEmpty /\ validate (phase_s s) = REmpty /\ stop_entry (phase_s s) = Some REmpty.
Proof. intros s H. unfold phase_s, phase_of. rewrite H. cbn. auto. Qed.

Lemma alloc_iff_booted : forall s, ereachable s -> (e_alloc s = false <-> e_r s = R0).
Proof.
  apply (engine_invariant (fun s => e_alloc s = false <-> e_r s = R0)).
  - intros. cbn. tauto.
  - intros s t c s' evs _ IH H. cbn [push set_hist e_alloc e_r].
    assert (t = TR \/ t <> TR) as [->|Hne] by (destruct t; auto; right; discriminate).
    + cbn in H. unfold rstep in H. destruct (e_r s) eqn:Er; destruct c; try discriminate H; cbv beta iota in H; step_cases H.
      all: frame_fin; split; intros X; try discriminate X; try (apply IH in X; discriminate X).
    + destruct (nonR_frame _ _ _ _ _ Hne H) as [Fr [_ [_ Fa]]]. rewrite Fr, Fa. exact IH.
Qed.
