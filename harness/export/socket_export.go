//go:build verif

//verif:target pkg/socket/export_verif_sockaddr.go

package socket

// Verif* expose the unexported zone/decimal helpers of sockaddr.go to the
// verification harness (C17).
func VerifItod(v uint) string                        { return itod(v) }
func VerifDtoi(s string, i0 int) (int, int, bool)    { return dtoi(s, i0) }
func VerifIP6ZoneToInt(zone string) int              { return ip6ZoneToInt(zone) }
func VerifIP6ZoneToString(zone uint32) string        { return ip6ZoneToString(zone) }
