(* Laws of the Z-keyed finite maps used by Model/Registry.v, and small list
   lemmas (zseq, flat_map/NoDup) shared by the registry proofs. *)
From Coq Require Import FMapPositive SetoidList Lia ZArith ZifyBool Permutation.
From GV Require Import Lib.Trace Model.Registry.
Open Scope Z_scope.
Open Scope list_scope.

Lemma zdec_zenc : forall z, zdec (zenc z) = z.
Proof. destruct z; reflexivity. Qed.
Lemma zenc_zdec : forall p, zenc (zdec p) = p.
Proof. destruct p; reflexivity. Qed.
Lemma zenc_inj : forall a b, zenc a = zenc b -> a = b.
Proof. intros a b H. rewrite <- (zdec_zenc a), <- (zdec_zenc b), H. reflexivity. Qed.

Lemma zget_zempty : forall A k, zget (@zempty A) k = None.
Proof. intros. apply PositiveMap.gempty. Qed.

Lemma zget_zset : forall A (m : zmap A) k v k',
  zget (zset m k v) k' = if k' =? k then Some v else zget m k'.
Proof.
  intros. unfold zget, zset. destruct (Z.eqb_spec k' k) as [->|N].
  - apply PositiveMap.gss.
  - apply PositiveMap.gso. intro E. apply N. apply zenc_inj. exact E.
Qed.

Lemma zget_zdel : forall A (m : zmap A) k k',
  zget (zdel m k) k' = if k' =? k then None else zget m k'.
Proof.
  intros. unfold zget, zdel. destruct (Z.eqb_spec k' k) as [->|N].
  - apply PositiveMap.grs.
  - apply PositiveMap.gro. intro E. apply N. apply zenc_inj. exact E.
Qed.

Lemma zelems_spec : forall A (m : zmap A) k v, In (k, v) (zelems m) <-> zget m k = Some v.
Proof.
  intros. unfold zelems, zget. split.
  - intro H. apply in_map_iff in H. destruct H as [[p w] [E H]]. cbn in E. inversion E; subst.
    rewrite zenc_zdec. apply PositiveMap.elements_complete. exact H.
  - intro H. apply PositiveMap.elements_correct in H. apply in_map_iff.
    exists (zenc k, v). cbn. rewrite zdec_zenc. split; [reflexivity|exact H].
Qed.

Lemma zelems_nodup : forall A (m : zmap A), NoDup (map fst (zelems m)).
Proof.
  intros. unfold zelems. rewrite map_map. cbn.
  pose proof (PositiveMap.elements_3w m) as H.
  induction H as [|x l Hx Hl IH]; cbn; constructor; auto.
  intro Hin. apply Hx. apply in_map_iff in Hin. destruct Hin as [y [E Hy]].
  apply InA_alt. exists y. split; [|exact Hy].
  unfold PositiveMap.eq_key, PositiveMap.E.eq.
  apply (f_equal zenc) in E. rewrite !zenc_zdec in E. symmetry. exact E.
Qed.

Lemma zelems_nodup_pairs : forall A (m : zmap A), NoDup (zelems m).
Proof. intros. eapply NoDup_map_inv. apply zelems_nodup. Qed.

(* ---- zseq ---- *)
Lemma zseq_aux_in : forall n a x, In x (zseq_aux n a) <-> a <= x < a + Z.of_nat n.
Proof.
  induction n as [|n IH]; intros a x; cbn [zseq_aux In].
  - lia.
  - rewrite IH. lia.
Qed.

Lemma zseq_in : forall a n x, In x (zseq a n) <-> a <= x < a + Z.max 0 n.
Proof. intros. unfold zseq. rewrite zseq_aux_in. lia. Qed.

Lemma zseq_aux_nodup : forall n a, NoDup (zseq_aux n a).
Proof.
  induction n as [|n IH]; intros a; cbn; constructor; auto.
  rewrite zseq_aux_in. lia.
Qed.
Lemma zseq_nodup : forall a n, NoDup (zseq a n).
Proof. intros. apply zseq_aux_nodup. Qed.

Lemma zseq_aux_app : forall n m a, zseq_aux (n + m) a = zseq_aux n a ++ zseq_aux m (a + Z.of_nat n).
Proof.
  induction n as [|n IH]; intros m a; cbn [zseq_aux Nat.add app].
  - f_equal. lia.
  - rewrite IH. do 3 f_equal. lia.
Qed.

Lemma zseq_app : forall a n m, 0 <= n -> 0 <= m -> zseq a (n + m) = zseq a n ++ zseq (a + n) m.
Proof.
  intros a n m Hn Hm. unfold zseq. rewrite Z2Nat.inj_add by lia. rewrite zseq_aux_app.
  do 2 f_equal. lia.
Qed.

Lemma zseq_nil : forall a n, n <= 0 -> zseq a n = [].
Proof. intros. unfold zseq. replace (Z.to_nat n) with O by lia. reflexivity. Qed.

Lemma zseq_cons : forall a n, 0 < n -> zseq a n = a :: zseq (a + 1) (n - 1).
Proof.
  intros. unfold zseq. replace (Z.to_nat n) with (S (Z.to_nat (n - 1))) by lia. reflexivity.
Qed.

Lemma zseq_snoc : forall a n, 0 < n -> zseq a n = zseq a (n - 1) ++ [a + (n - 1)].
Proof.
  intros. replace n with ((n - 1) + 1) at 1 by lia. rewrite zseq_app by lia.
  f_equal.
Qed.

(* ---- NoDup of flat_map ---- *)
Lemma NoDup_app_intro : forall A (l1 l2 : list A),
  NoDup l1 -> NoDup l2 -> (forall x, In x l1 -> In x l2 -> False) -> NoDup (l1 ++ l2).
Proof.
  induction l1 as [|a l1 IH]; intros l2 H1 H2 D; cbn; auto.
  inversion H1; subst. constructor.
  - rewrite in_app_iff. intros [H|H]; [contradiction|]. apply (D a); cbn; auto.
  - apply IH; auto. intros x Hx. apply D. cbn; auto.
Qed.

Lemma NoDup_flat_map : forall A B (f : A -> list B) (l : list A),
  NoDup l -> (forall x, In x l -> NoDup (f x)) ->
  (forall x y b, In x l -> In y l -> In b (f x) -> In b (f y) -> x = y) ->
  NoDup (flat_map f l).
Proof.
  induction l as [|a l IH]; intros Hl Hf Hd; cbn; [constructor|].
  inversion Hl; subst. apply NoDup_app_intro.
  - apply Hf. cbn; auto.
  - apply IH; auto.
    + intros. apply Hf. cbn; auto.
    + intros x y b Hx Hy. apply Hd; cbn; auto.
  - intros b Hb Hb'. apply in_flat_map in Hb'. destruct Hb' as [y [Hy Hby]].
    assert (a = y) by (apply (Hd a y b); cbn; auto). subst. contradiction.
Qed.

Lemma rev_append_nil : forall A (l : list A), rev_append l [] = rev l.
Proof. intros. rewrite rev_append_rev. apply app_nil_r. Qed.

Definition olist {A} (o : option A) : list A := match o with Some a => [a] | None => [] end.

Lemma Permutation_filter_compat : forall A (f : A -> bool) l l',
  Permutation l l' -> Permutation (filter f l) (filter f l').
Proof.
  intros A f l l' H. induction H; cbn.
  - constructor.
  - destruct (f x); auto.
  - destruct (f x), (f y); auto. apply perm_swap.
  - eapply perm_trans; eauto.
Qed.
