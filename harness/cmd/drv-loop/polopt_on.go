//go:build poll_opt

package main

// built against the poll_opt poller (poller_epoll_ultimate.go, reactor_ultimate.go)
const pollOpt = true
