(* C11 — linkedlist.Buffer is a FIFO byte queue of copied segments.
   Statements only; the model is Model/LList.v, the FIFO specification is
   Spec/LListSpec.v, proofs live in Proofs/LListProofs.v.

   Reading guide.  [run_world os init_world] runs a finite list of caller-level
   operations on a fresh buffer and returns (answers, final world); a world is
   the buffer plus the caller's own byte buffers ("cells").  [vcontent w] is
   the list of byte values a non-consuming look at the whole buffer shows.
   [op_ok] only demands len(p) >= 0 for Read and non-negative counts in
   reader / writer scripts (the io.Reader / io.Writer contract).  Every
   statement below quantifies over ALL finite operation lists, segment sizes,
   amounts and scripts. *)
From Coq Require Import Lia.
From GV Require Import Lib.Trace Model.LList Spec.LListSpec Proofs.LListProofs.
Open Scope list_scope.
Open Scope Z_scope.

(* ---- llist_refines_fifo ------------------------------------------------ *)

(* On stored (symbolic) bytes: every run of the model from the empty buffer is
   a run of the FIFO byte queue with the same answers; the queue is
   [concat segs].  Hence FIFO order, each byte at most once, only
   Read/Pop/Discard/WriteTo/Reset consume, Peek/PeekWithBytes do not. *)
Theorem C11_llist_refines_fifo : forall bos, Forall bop_ok bos ->
  fifo_run id [] bos (fst (run_buffer bos empty_buffer))
           (List.concat (segs (snd (run_buffer bos empty_buffer)))).
Proof. exact llist_refines_fifo_empty. Qed.
Print Assumptions C11_llist_refines_fifo.

(* On byte values, with the caller's memory: every run is a run of the FIFO
   over [list Z] in which a caller write to a buffer passed to PushBack /
   PushFront leaves the queue unchanged. *)
Theorem C11_llist_refines_fifo_values : forall os, Forall op_ok os ->
  wfifo_run [] [] os (fst (run_world os init_world))
            (cells (snd (run_world os init_world)))
            (map (deref (cells (snd (run_world os init_world))))
                 (List.concat (segs (buf (snd (run_world os init_world)))))).
Proof. exact world_refines_fifo_init. Qed.
Print Assumptions C11_llist_refines_fifo_values.

(* The observable operations spelled out (q = the bytes pushed and not yet
   consumed, in queue order, after ANY history os). *)
Theorem C11_read_exact : forall os, Forall op_ok os -> forall n, 0 <= n ->
  let w := snd (run_world os init_world) in
  let q := vcontent w in
  snd (step w (OBuf (BRead n))) =
    OutRead (Z.min n (zlen q)) (if (0 <? n) && (zlen q =? 0) then EEOF else ENil) (ztake n q) /\
  vcontent (fst (step w (OBuf (BRead n)))) = zdrop n q.
Proof. exact read_exact. Qed.
Print Assumptions C11_read_exact.

Theorem C11_peek_exact : forall os, Forall op_ok os -> forall n,
  let w := snd (run_world os init_world) in
  let q := vcontent w in
  exists e bss, snd (step w (OBuf (BPeek n))) = OutPeek (Ret (e, bss)) /\
    vcontent (fst (step w (OBuf (BPeek n)))) = q /\
    ((n <= 0 \/ n = MaxInt32) -> e = ENil /\ List.concat bss = ztake MaxInt32 q) /\
    (0 < n <= zlen q -> n <> MaxInt32 -> e = ENil /\ List.concat bss = ztake n q) /\
    (zlen q < n -> n <> MaxInt32 -> e = EShortBuf /\ bss = []).
Proof. exact peek_exact. Qed.
Print Assumptions C11_peek_exact.

Theorem C11_pop_exact : forall os, Forall op_ok os ->
  let w := snd (run_world os init_world) in
  let q := vcontent w in
  (q = [] /\ snd (step w (OBuf BPop)) = OutPop None /\ vcontent (fst (step w (OBuf BPop))) = []) \/
  (exists s, s <> [] /\ snd (step w (OBuf BPop)) = OutPop (Some s) /\
             q = s ++ vcontent (fst (step w (OBuf BPop)))).
Proof. exact pop_exact. Qed.
Print Assumptions C11_pop_exact.

Theorem C11_discard_exact : forall os, Forall op_ok os -> forall n,
  let w := snd (run_world os init_world) in
  let q := vcontent w in
  snd (step w (OBuf (BDiscard n))) = OutDiscard (Z.max 0 (Z.min n (zlen q))) /\
  vcontent (fst (step w (OBuf (BDiscard n)))) = zdrop n q.
Proof. exact discard_exact. Qed.
Print Assumptions C11_discard_exact.

(* WriteTo: the writer receives a prefix of the queue, exactly that prefix
   leaves the queue (nothing is lost when the writer fails or writes short
   inside a node), the count is its length, nil error means everything. *)
Theorem C11_writeto_exact : forall os, Forall op_ok os -> forall sc, script_ok sc ->
  let w := snd (run_world os init_world) in
  let q := vcontent w in
  exists k e, snd (step w (OBuf (BWriteTo sc))) = OutWriteTo (Ret (k, e, ztake k q)) /\
    vcontent (fst (step w (OBuf (BWriteTo sc)))) = zdrop k q /\
    0 <= k <= zlen q /\ (e = ENil -> k = zlen q).
Proof. exact writeto_exact. Qed.
Print Assumptions C11_writeto_exact.

Theorem C11_push_exact : forall os, Forall op_ok os -> forall p,
  let w := snd (run_world os init_world) in
  let q := vcontent w in
  vcontent (fst (step w (OPushBack p))) = q ++ p /\
  vcontent (fst (step w (OPushFront p))) = p ++ q /\
  vcontent (fst (step w (OAppend p))) = q ++ p.
Proof. exact push_exact. Qed.
Print Assumptions C11_push_exact.

(* ---- llist_counters ----------------------------------------------------- *)
Theorem C11_llist_counters : forall os, Forall op_ok os ->
  let w := snd (run_world os init_world) in
  Buffered (buf w) = zlen (vcontent w) /\
  Buffered (buf w) = zlen (List.concat (segs (buf w))) /\
  Len (buf w) = zlen (segs (buf w)).
Proof. exact llist_counters. Qed.
Print Assumptions C11_llist_counters.

(* ---- llist_isempty_iff -------------------------------------------------- *)
Theorem C11_llist_isempty_iff : forall os, Forall op_ok os ->
  let w := snd (run_world os init_world) in
  IsEmpty (buf w) = true <-> Buffered (buf w) = 0.
Proof. exact llist_isempty_iff. Qed.
Print Assumptions C11_llist_isempty_iff.

(* ---- pushback_copies ---------------------------------------------------- *)
(* After any history os the caller passes a buffer holding p to PushBack or
   PushFront, anything os1 happens, then the caller overwrites byte i of that
   buffer with v: the queue is unchanged, and every answer of every later
   operation list os2 and the final queue are the same as without the write. *)
Theorem C11_pushback_copies : forall (push : list Z -> op) os p os1 i v os2,
  push = OPushBack \/ push = OPushFront ->
  Forall op_ok os -> Forall op_ok os1 -> Forall op_ok os2 ->
  let w0 := snd (run_world os init_world) in
  let c := zlen (cells w0) in
  let w := snd (run_world (push p :: os1) w0) in
  let wm := fst (step w (OMut c i v)) in
  vcontent wm = vcontent w /\
  fst (run_world os2 wm) = fst (run_world os2 w) /\
  vcontent (snd (run_world os2 wm)) = vcontent (snd (run_world os2 w)).
Proof. exact pushback_copies. Qed.
Print Assumptions C11_pushback_copies.

(* the same for any caller buffer that was not handed over with Append *)
Theorem C11_copied_cell_writes_invisible : forall os c i v os2, Forall op_ok os -> Forall op_ok os2 ->
  let w := snd (run_world os init_world) in
  aliased_cell (cells w) c = false ->
  let wm := fst (step w (OMut c i v)) in
  buf wm = buf w /\ vcontent wm = vcontent w /\
  fst (run_world os2 wm) = fst (run_world os2 w) /\
  vcontent (snd (run_world os2 wm)) = vcontent (snd (run_world os2 w)).
Proof. exact copied_cell_writes_invisible. Qed.
Print Assumptions C11_copied_cell_writes_invisible.

(* ---- readfrom_stores_all ------------------------------------------------ *)
(* [reader_run sc src] = (every byte the reader returned, including those
   returned together with EOF or with an error; the error to report).
   ReadFrom appends exactly those bytes and reports exactly their number. *)
Theorem C11_readfrom_stores_all : forall os src sc, Forall op_ok os -> script_ok sc ->
  let w := snd (run_world os init_world) in
  let w' := fst (step w (OBuf (BReadFrom src sc))) in
  let returned := fst (reader_run sc src) in
  snd (step w (OBuf (BReadFrom src sc))) = OutReadFrom (Ret (zlen returned, snd (reader_run sc src))) /\
  vcontent w' = vcontent w ++ returned /\
  Buffered (buf w') = Buffered (buf w) + zlen returned.
Proof. exact readfrom_stores_all. Qed.
Print Assumptions C11_readfrom_stores_all.

(* ---- no panic ----------------------------------------------------------- *)
Theorem C11_llist_no_panic : forall os, Forall op_ok os ->
  Forall (fun o => is_panic o = false) (fst (run_world os init_world)).
Proof. exact llist_no_panic. Qed.
Print Assumptions C11_llist_no_panic.

(* ---- non-vacuity -------------------------------------------------------- *)
(* A history satisfying the hypotheses that reaches: a node consumed in part
   (re-slice + pushFront), an aliased Append node whose caller write IS
   visible, a PushBack node whose caller write is NOT, data returned together
   with EOF, and a writer failing after a partial transfer. *)
Definition C11_ex_ops : list op :=
  [ OPushBack [1;2;3]; OAppend [4;5]; OMut 0 0 9; OMut 1 0 7; OBuf (BRead 2);
    OBuf (BReadFrom [10;11;12] [(2, ENil); (5, EEOF)]);
    OBuf (BWriteTo [(1, EOther)]); OBuf (BWriteTo [(1, EOther)]); OBuf (BPeek (-1)) ].

Example C11_ex_ok : Forall op_ok C11_ex_ops.
Proof. repeat constructor; cbn; lia. Qed.

Example C11_ex_run :
  fst (run_world C11_ex_ops init_world) =
  [ OutNone; OutNone; OutNone; OutNone; OutRead 2 ENil [1;2];
    OutReadFrom (Ret (3, ENil));
    OutWriteTo (Ret (1, EOther, [3])); OutWriteTo (Ret (1, EOther, [7]));
    OutPeek (Ret (ENil, [[5]; [10;11]; [12]])) ] /\
  vcontent (snd (run_world C11_ex_ops init_world)) = [5;10;11;12] /\
  Len (buf (snd (run_world C11_ex_ops init_world))) = 3 /\
  Buffered (buf (snd (run_world C11_ex_ops init_world))) = 4.
Proof. vm_compute. repeat split. Qed.

(* hypotheses of pushback_copies / copied_cell_writes_invisible are satisfiable *)
Example C11_ex_copied :
  aliased_cell (cells (snd (run_world C11_ex_ops init_world))) 0 = false /\
  aliased_cell (cells (snd (run_world C11_ex_ops init_world))) 1 = true.
Proof. vm_compute. split; reflexivity. Qed.

(* reader_run on data+EOF, error after partial transfer, (0,nil), 512-byte cap *)
Example C11_ex_reader :
  reader_run [(3, EEOF)] [1;2;3] = ([1;2;3], ENil) /\
  reader_run [(0, ENil); (2, EOther)] [1;2;3] = ([1;2], EOther) /\
  reader_run [(1, ENil)] [1;2;3] = ([1], ENil) /\
  zlen (fst (reader_run [(1000, ENil); (1000, EEOF)] (repeat 7 600))) = 600.
Proof. vm_compute. repeat split. Qed.
