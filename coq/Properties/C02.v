(* C02 -- outbound stream integrity and ordering.  Statements only; proofs in Proofs/LoopData.v. *)
From GV Require Import Lib.Trace Model.Loop Spec.LoopSpec Proofs.LoopData.
Open Scope Z_scope.

(* For every input stream: the bytes the kernel accepts from a connection are always the
   front of the bytes submitted by its write operations (OnOpen reply, Write, Writev,
   ReadFrom, asynchronous writes when they are carried out) and not handed over yet --
   in submission order, nothing lost, duplicated or interleaved, however short the kernel's
   writes are and whenever it says EAGAIN; OutboundBuffered is the length of that rest. *)
Theorem C02_outbound_integrity : forall i t, run_history i = Some t -> outbound_ok t = true.
Proof. exact outbound_holds. Qed.
Print Assumptions C02_outbound_integrity.
