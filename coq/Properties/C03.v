(* C03 — asynchronous requests run exactly once: no lost wake-up of an event loop.
   Statements only; proofs live in Proofs/Wakeup*.v.
   Model: Model/Wakeup.v — the interleavings, at the granularity of single atomic operations,
   queue linearization points and eventfd/epoll system calls, of any number of producers running
   Trigger with the event loop running Polling (pkg/netpoll/poller_epoll_{default,ultimate}.go),
   on top of the atomic-queue specification of the two task queues (C13: each queue is
   (items, length) with Enqueue = link; count and Dequeue = unlink; decount | empty).
   Assumptions: sync/atomic is sequentially consistent; the queues behave as their specification
   (C13); eventfd/epoll edge semantics as written in the model (every write raises a fresh edge, a
   reported edge is reported once, write fails only with EAGAIN: g_fault = false); the int32 length
   counters stay in range (g_ovf = false); the loop keeps running (no shutdown).  sane s is
   g_ovf = false /\ g_fault = false. *)
From GV Require Import Lib.Trace Lib.Interleave Model.Wakeup
  Proofs.WakeupBase Proofs.WakeupInv Proofs.WakeupProofs Proofs.WakeupGhost Proofs.WakeupOnce.
Open Scope Z_scope.
Open Scope list_scope.

(* wake_inv: the conjunction K /\ I0 /\ I1 /\ G_W /\ G_chkU of DESIGN Appendix A.5 holds in every
   reachable state.  n_p1 q = number of Trigger calls (of producers and of the loop itself) that
   have linked into q but not yet counted, n_p2 = counted and before the CAS, n_p3 = CAS won and
   eventfd write still to do; d_q = 1 iff the loop is between unlink and decount on q;
   cons_B = the loop has chores pending or in progress and has not yet stored 0; cons_W = the loop
   is at epoll_wait or in I/O callbacks with no chores pending; cons_wr = the loop is at its own
   eventfd write. *)
Theorem C03_wake_inv : forall s, reachable wk_init wk_step s ->
  g_ovf (w_gh s) = false /\ g_fault (w_gh s) = false ->
  (flag (w_sh s) = 0 \/ flag (w_sh s) = 1) /\
  lenU (w_sh s) = Z.of_nat (List.length (itemsU (w_sh s))) - n_p1 QU s + d_q QU s /\
  lenL (w_sh s) = Z.of_nat (List.length (itemsL (w_sh s))) - n_p1 QL s + d_q QL s /\
  (cons_wr s = true -> flag (w_sh s) = 1) /\
  (flag (w_sh s) = 1 -> eff_edge (w_sh s) = true \/ 0 < n_p3 s \/ cons_wr s = true \/ cons_B s = true) /\
  (cons_W s = true -> flag (w_sh s) = 0 -> (itemsU (w_sh s) <> [] \/ itemsL (w_sh s) <> []) ->
     eff_edge (w_sh s) = true \/ 0 < n_p1 QU s + n_p1 QL s + n_p2 s + n_p3 s) /\
  (c_pc (con s) = CChkU -> flag (w_sh s) = 0 -> itemsL (w_sh s) <> [] ->
     eff_edge (w_sh s) = true \/ 0 < n_p1 QU s + n_p1 QL s + n_p2 s + n_p3 s).
Proof. exact wake_inv. Qed.
Print Assumptions C03_wake_inv.

(* no lost wake-up: in every quiescent state (no Trigger call in flight, the loop at epoll_wait,
   nothing for epoll_wait to report) both queues are empty: every published request has been taken *)
Theorem C03_no_lost_wakeup : forall s, reachable wk_init wk_step s ->
  g_ovf (w_gh s) = false /\ g_fault (w_gh s) = false ->
  (forall t, t_pc (get_trig (trigs s) t) = TIdle) /\ c_pc (con s) = CWait /\ eff_edge (w_sh s) = false ->
  itemsU (w_sh s) = [] /\ itemsL (w_sh s) = [].
Proof. exact no_lost_wakeup. Qed.
Print Assumptions C03_no_lost_wakeup.

(* quiescence or progress: a reachable state is quiescent with empty queues, or a Trigger call in
   flight has an enabled step, or nobody is in flight and the loop has an enabled step (it is not
   at epoll_wait, or epoll_wait will report the eventfd).  Under weak fairness (an assumption about
   the Go scheduler and the kernel, not a theorem) every request is therefore eventually executed. *)
Theorem C03_quiescence_or_progress : forall s, reachable wk_init wk_step s ->
  g_ovf (w_gh s) = false /\ g_fault (w_gh s) = false ->
  (((forall t, t_pc (get_trig (trigs s) t) = TIdle) /\ c_pc (con s) = CWait /\ eff_edge (w_sh s) = false) /\
   itemsU (w_sh s) = [] /\ itemsL (w_sh s) = []) \/
  (exists t, t_pc (get_trig (trigs s) t) <> TIdle /\
             exists s1 o d, trig_step s t (CStep []) = (s1, o, d) /\ forall e, In e o -> e <> EvStuck t) \/
  ((forall t, t_pc (get_trig (trigs s) t) = TIdle) /\ (c_pc (con s) <> CWait \/ eff_edge (w_sh s) = true)).
Proof. exact quiescence_or_progress. Qed.
Print Assumptions C03_quiescence_or_progress.

(* exactly once.  g_exec is the log of executed requests (with the queue each came from), g_cb the
   log of AsyncCallback invocations, g_begun the requests for which Trigger was called, g_acc the
   ids whose Trigger returned nil ("accepted without error").  In every reachable state: no request
   is executed twice; the callback log is exactly the executions of requests that have a callback,
   in order (invoked exactly once, with the execution); only issued requests are executed; and at
   quiescence every accepted request has been executed. *)
Theorem C03_exactly_once : forall s, reachable wk_init wk_step s ->
  g_ovf (w_gh s) = false /\ g_fault (w_gh s) = false ->
  NoDup (map (fun e => tk_id (snd e)) (g_exec (w_gh s))) /\
  g_cb (w_gh s) = flat_map (fun e => if sp_cb (tk_spec (snd e)) then [tk_id (snd e)] else []) (g_exec (w_gh s)) /\
  (forall e, In e (g_exec (w_gh s)) -> In (snd e) (g_begun (w_gh s))) /\
  ((forall t, t_pc (get_trig (trigs s) t) = TIdle) /\ c_pc (con s) = CWait /\ eff_edge (w_sh s) = false ->
   forall i, In i (g_acc (w_gh s)) -> In i (map (fun e => tk_id (snd e)) (g_exec (w_gh s)))).
Proof. exact exactly_once. Qed.
Print Assumptions C03_exactly_once.

(* high-priority requests issued by one goroutine are carried out in issue order: ids are issue
   numbers (the id of a request is the number of Trigger calls begun before it); if a and b were
   issued by the same thread (a producer or the loop itself), both with high priority, a before b,
   and b has been executed, then a was executed before b *)
Theorem C03_urgent_fifo_per_producer : forall s a b l1 l2 q, reachable wk_init wk_step s ->
  g_ovf (w_gh s) = false /\ g_fault (w_gh s) = false ->
  In a (g_begun (w_gh s)) -> In b (g_begun (w_gh s)) ->
  tk_prod a = tk_prod b -> sp_high (tk_spec a) = true -> sp_high (tk_spec b) = true ->
  (tk_id a < tk_id b)%nat ->
  g_exec (w_gh s) = l1 ++ (q, b) :: l2 ->
  exists q' l3 l4, l1 = l3 ++ (q', a) :: l4.
Proof. exact urgent_fifo_per_producer. Qed.
Print Assumptions C03_urgent_fifo_per_producer.

(* a Wake on an open connection results in exactly one OnTraffic: g_traffic logs (id of the wake
   request, connection) for every OnTraffic made by a wake task.  No wake request has two entries;
   every entry belongs to an executed wake request for that connection; and an executed wake
   request whose connection has not been closed has its entry.  (The task body of Wake calls
   el.wake once: connection_unix.go; el.wake ignores a connection that is no longer open.) *)
Theorem C03_wake_one_traffic : forall s, reachable wk_init wk_step s ->
  g_ovf (w_gh s) = false /\ g_fault (w_gh s) = false ->
  NoDup (map fst (g_traffic (w_gh s))) /\
  (forall i c, In (i, c) (g_traffic (w_gh s)) ->
     exists q x, In (q, x) (g_exec (w_gh s)) /\ tk_id x = i /\ sp_kind (tk_spec x) = KWake c) /\
  (forall q x c, In (q, x) (g_exec (w_gh s)) -> sp_kind (tk_spec x) = KWake c -> ~ In c (closed (w_env s)) ->
     In (tk_id x, c) (g_traffic (w_gh s))).
Proof. exact wake_one_traffic. Qed.
Print Assumptions C03_wake_one_traffic.

(* ---- non-vacuity: concrete schedules, evaluated by the kernel ---- *)
Definition hi : tspec := mkSpec true KPlain false O.
Definition st (t : nat) : tid * choice := (t, CStep []).
(* the loop's round for one queued urgent request: wait, unlink, decount+run, urgent empty (+ return),
   low empty (+ return), store 0, re-check low, re-check urgent, wait(0) *)
Definition round : list (tid * choice) :=
  [(O, CStep [-1]); st 0; st 0; st 0; (O, CTau); st 0; (O, CTau); st 0; st 0; st 0; st 0].

(* one producer, one high-priority request, the loop runs it and goes back to sleep: a quiescent,
   sane, reachable state with a non-empty execution log *)
Definition ex_one : list (tid * choice) := [(1%nat, CStart hi); st 1; st 1; st 1; st 1] ++ round.

Example C03_ex_quiescent :
  let s := fst (run wk_fstep (init_state 1024 256) ex_one) in
  reachable wk_init wk_step s /\ g_ovf (w_gh s) = false /\ g_fault (w_gh s) = false /\
  quiescent_b s = true /\ map (fun e => tk_id (snd e)) (g_exec (w_gh s)) = [O] /\ g_acc (w_gh s) = [O] /\
  flag (w_sh s) = 0 /\ itemsU (w_sh s) = [].
Proof. split; [apply wk_run_reachable|]. vm_compute. repeat split; reflexivity. Qed.

(* the race the re-check exists for: producer 2's CAS lands between the loop's store 0 and its
   re-check; the loop's own CAS fails, the loop finds nothing at wait(0), producer 2 then writes
   the eventfd and the loop runs request 1 *)
Definition ex_race : list (tid * choice) :=
  [(1%nat, CStart hi); st 1; st 1; st 1; st 1;
   (O, CStep [-1]); st 0; st 0; st 0; (O, CTau); st 0; (O, CTau);
   (2%nat, CStart hi); st 2; st 2;
   st 0;                       (* store 0 *)
   st 2;                       (* producer 2: CAS 0 -> 1 wins *)
   st 0; st 0; st 0;           (* re-check: low 0, urgent 1, the loop's CAS fails *)
   st 0;                       (* wait(0): nothing *)
   st 2] ++ round.

Example C03_ex_race :
  let r := run wk_fstep (init_state 1024 256) ex_race in
  reachable wk_init wk_step (fst r) /\
  nth 16 (snd r) [] = [EvCas 2%nat true] /\ nth 18 (snd r) [] = [EvLd O QU 1] /\
  nth 19 (snd r) [] = [EvCas O false] /\ nth 20 (snd r) [] = [EvWait 0 []] /\
  quiescent_b (fst r) = true /\ map (fun e => tk_id (snd e)) (g_exec (w_gh (fst r))) = [0%nat; 1%nat].
Proof. split; [apply wk_run_reachable|]. vm_compute. repeat split; reflexivity. Qed.

(* a dequeue overtakes a count: the urgent length is -1 while the queue is empty; the re-check takes
   that for "not empty" and the loop wakes itself up (a state in which K holds with n_p1 = 1) *)
Definition ex_overtake : list (tid * choice) :=
  [(2%nat, CStart hi); st 2; st 2; st 2; st 2; (O, CStep [-1]);
   (1%nat, CStart hi); st 1;                        (* producer 1 linked, not counted *)
   st 0; st 0; st 0; st 0;                          (* the loop runs request 0 and request 1 *)
   st 0; (O, CTau); st 0; (O, CTau); st 0; st 0; st 0; st 0; st 0].

Example C03_ex_overtake :
  let s := fst (run wk_fstep (init_state 1024 256) ex_overtake) in
  reachable wk_init wk_step s /\ lenU (w_sh s) = -1 /\ itemsU (w_sh s) = [] /\ n_p1 QU s = 1 /\
  d_q QU s = 0 /\ flag (w_sh s) = 1 /\ eff_edge (w_sh s) = true /\ c_pc (con s) = CWait.
Proof. split; [apply wk_run_reachable|]. vm_compute. repeat split; reflexivity. Qed.

(* two high-priority requests of one producer run in issue order (hypotheses of
   urgent_fifo_per_producer with a = request 0, b = request 1); a wake request on an open
   connection gives one OnTraffic, a wake after a close gives none *)
Definition wake5 : tspec := mkSpec false (KWake 5) true O.
Definition close5 : tspec := mkSpec false (KClose 5) false O.
Definition lowreq (t : nat) (sp : tspec) : list (tid * choice) := [(t, CStart sp); st t; st t; st t; st t; st t].
Definition ex_fifo : list (tid * choice) :=
  [(1%nat, CStart hi); st 1; st 1; st 1; st 1; (1%nat, CStart hi); st 1; st 1; st 1] ++
  lowreq 2 wake5 ++ lowreq 2 close5 ++ lowreq 2 wake5 ++
  [(O, CStep [-1]); st 0; st 0; st 0; st 0; st 0; st 0; st 0; st 0; st 0; st 0; st 0; (O, CTau); st 0; (O, CTau);
   st 0; st 0; st 0; st 0].

Example C03_ex_fifo_wake :
  let s := fst (run wk_fstep (init_state 1024 256) ex_fifo) in
  reachable wk_init wk_step s /\ g_ovf (w_gh s) = false /\ g_fault (w_gh s) = false /\ quiescent_b s = true /\
  map (fun e => tk_id (snd e)) (g_exec (w_gh s)) = [0; 1; 2; 3; 4]%nat /\
  g_traffic (w_gh s) = [(2%nat, 5)] /\ g_cb (w_gh s) = [2; 4]%nat /\ closed (w_env s) = [5].
Proof. split; [apply wk_run_reachable|]. vm_compute. repeat split; reflexivity. Qed.

(* outside the property, and why the assumption g_fault = false is needed: if the eventfd write of
   request 0 fails with an error other than EAGAIN, Trigger returns that error (request 0 is not
   "accepted without error"), the flag stays 1, request 1 is then accepted (its CAS fails, Trigger
   returns nil) and nobody ever wakes the loop: a quiescent state with two queued requests *)
Definition ex_fault : list (tid * choice) :=
  [(1%nat, CStart hi); st 1; st 1; st 1; (1%nat, CFault); (2%nat, CStart hi); st 2; st 2; st 2; st 0].

Example C03_ex_write_fault :
  let s := fst (run wk_fstep (init_state 1024 256) ex_fault) in
  reachable wk_init wk_step s /\ g_fault (w_gh s) = true /\ quiescent_b s = true /\
  g_rej (w_gh s) = [0%nat] /\ g_acc (w_gh s) = [1%nat] /\ g_exec (w_gh s) = [] /\
  List.length (itemsU (w_sh s)) = 2%nat /\ flag (w_sh s) = 1.
Proof. split; [apply wk_run_reachable|]. vm_compute. repeat split; reflexivity. Qed.
