(* Model of the event-loop connection registry: conn_map.go (default build) and
   conn_matrix.go (gc_opt build).  No proofs here.

   A connection object (a Go pointer to conn) is an identity [id : Z]; the mutable fields the
   registry touches (fd, gfd) live in a heap [id -> conn].  A GFD is modelled
   by the three fields the registry reads (row, column, fd); its byte packing
   is C20's business.  Go maps and slices are finite maps over Z (a trie over
   an injective encoding of Z into positive), so that the extracted model
   handles the real 256 x 65536 matrix; the matrix model is parametric in
   ROW and COL. *)
From Coq Require Import FMapPositive Sorting.Mergesort Orders.
From GV Require Export Lib.Trace Spec.FinMap.
Open Scope Z_scope.

(* ---- finite maps with Z keys ---- *)
Definition zenc (z : Z) : positive :=
  match z with Z0 => xH | Zpos p => xO p | Zneg p => xI p end.
Definition zdec (p : positive) : Z :=
  match p with xH => Z0 | xO q => Zpos q | xI q => Zneg q end.

Definition zmap (A : Type) := PositiveMap.t A.
Definition zempty {A} : zmap A := PositiveMap.empty A.
Definition zget {A} (m : zmap A) (k : Z) : option A := PositiveMap.find (zenc k) m.
Definition zset {A} (m : zmap A) (k : Z) (v : A) : zmap A := PositiveMap.add (zenc k) v m.
Definition zdel {A} (m : zmap A) (k : Z) : zmap A := PositiveMap.remove (zenc k) m.
Definition zelems {A} (m : zmap A) : list (Z * A) :=
  map (fun kv => (zdec (fst kv), snd kv)) (PositiveMap.elements m).

(* [a; a+1; ...; a+n-1] *)
Fixpoint zseq_aux (n : nat) (a : Z) : list Z :=
  match n with O => [] | S n' => a :: zseq_aux n' (a + 1) end.
Definition zseq (a n : Z) : list Z := zseq_aux (Z.to_nat n) a.

(* ---- connection objects ---- *)
Record gfdT := mkGfd { g_row : Z; g_col : Z; g_fd : Z }.
Record conn := mkConn { c_fd : Z; c_gfd : gfdT }.
Definition zero_gfd := mkGfd 0 0 0.

(* the visitor used by the harness: delConn the visited connection iff
   m > 0 and fd mod m = k (Spec.FinMap.del_pred); stop after lim visits *)
Definition keep_going (lim n : Z) : bool := negb ((0 <=? lim) && (lim <=? n)).

(* ================================================================ *)
(* conn_map.go                                                       *)

Record mapst := mkMap { mp_count : Z; mp_map : zmap Z; mp_heap : zmap conn }.

Definition mp_init : mapst := mkMap 0 zempty zempty.

Definition mp_add (st : mapst) (id fd : Z) : mapst :=
  mkMap (mp_count st + 1) (zset (mp_map st) fd id)
        (zset (mp_heap st) id (mkConn fd (mkGfd 0 0 fd))).

Definition mp_del (st : mapst) (id : Z) : outcome mapst :=
  match zget (mp_heap st) id with
  | None => Panic                                   (* nil *conn *)
  | Some c => Ret (mkMap (mp_count st - 1) (zdel (mp_map st) (c_fd c)) (mp_heap st))
  end.

Definition mp_get (st : mapst) (fd : Z) : option Z := zget (mp_map st) fd.
Definition mp_load (st : mapst) : Z := mp_count st.

(* for _, c := range cm.connMap: entries removed before they are reached are
   not produced; the visit order is unspecified in Go, here it is the order of
   the snapshot (the harness never uses an early stop with this variant and
   sorts the visit list). acc = (state, visited ids (reversed), number visited, stopped) *)
Definition mp_visit (m k lim : Z) (acc : outcome (mapst * list Z * Z * bool)) (kv : Z * Z)
  : outcome (mapst * list Z * Z * bool) :=
  match acc with
  | Panic => Panic
  | Ret (st, vis, n, stopped) =>
      if stopped then acc else
      match zget (mp_map st) (fst kv) with
      | None => acc
      | Some id =>
          let fd := match zget (mp_heap st) id with Some c => c_fd c | None => 0 end in
          let r := if del_pred m k fd then mp_del st id else Ret st in
          match r with
          | Panic => Panic
          | Ret st' => Ret (st', id :: vis, n + 1, negb (keep_going lim (n + 1)))
          end
      end
  end.

Definition mp_iterate (st : mapst) (m k lim : Z) : outcome (mapst * list Z) :=
  match fold_left (mp_visit m k lim) (zelems (mp_map st)) (Ret (st, [], 0, false)) with
  | Panic => Panic
  | Ret (st', vis, _, _) => Ret (st', rev_append vis [])
  end.

(* ================================================================ *)
(* conn_matrix.go, parametric in the matrix dimensions               *)

Record matst := mkMat {
  m_dc : bool;                 (* disableCompact *)
  m_counts : zmap Z;           (* connCounts; absent = 0 *)
  m_row : Z; m_col : Z;        (* next available position *)
  m_table : zmap (zmap Z);     (* table[r] absent = nil slice; table[r][c] absent = nil *conn *)
  m_f2g : zmap gfdT;           (* fd2gfd *)
  m_heap : zmap conn }.

Definition mx_init : matst := mkMat false zempty 0 0 zempty zempty zempty.

Definition set_dc st b := mkMat b (m_counts st) (m_row st) (m_col st) (m_table st) (m_f2g st) (m_heap st).
Definition set_next st r c := mkMat (m_dc st) (m_counts st) r c (m_table st) (m_f2g st) (m_heap st).
Definition set_counts st x := mkMat (m_dc st) x (m_row st) (m_col st) (m_table st) (m_f2g st) (m_heap st).
Definition set_table st x := mkMat (m_dc st) (m_counts st) (m_row st) (m_col st) x (m_f2g st) (m_heap st).
Definition set_f2g st x := mkMat (m_dc st) (m_counts st) (m_row st) (m_col st) (m_table st) x (m_heap st).
Definition set_heap st x := mkMat (m_dc st) (m_counts st) (m_row st) (m_col st) (m_table st) (m_f2g st) x.

Definition cnt (st : matst) (r : Z) : Z :=
  match zget (m_counts st) r with Some n => n | None => 0 end.
Definition inc_count (st : matst) (r d : Z) : matst :=
  set_counts st (zset (m_counts st) r (cnt st r + d)).
Definition cell (st : matst) (r c : Z) : option Z :=
  match zget (m_table st) r with Some rowm => zget rowm c | None => None end.
Definition row_nil (st : matst) (r : Z) : bool :=
  match zget (m_table st) r with Some _ => false | None => true end.

(* cm.table[r][c] = v   (index out of range on a nil slice panics) *)
Definition set_cell (st : matst) (r c : Z) (v : option Z) : outcome matst :=
  match zget (m_table st) r with
  | None => Panic
  | Some rowm =>
      Ret (set_table st (zset (m_table st) r
             (match v with Some id => zset rowm c id | None => zdel rowm c end)))
  end.
(* cm.table[r] = nil *)
Definition release_row (st : matst) (r : Z) : matst := set_table st (zdel (m_table st) r).

(* if cm.connCounts[r] == 0 { cm.table[r] = nil } else { cm.table[r][c] = nil } *)
Definition release_or_clear (st : matst) (r c : Z) : outcome matst :=
  if cnt st r =? 0 then Ret (release_row st r) else set_cell st r c None.

Section Matrix.
Variables ROW COL : Z.

Definition mx_add (st : matst) (id fd : Z) : matst :=
  if ROW <=? m_row st
  then set_heap st (zset (m_heap st) id (mkConn fd zero_gfd))     (* silently dropped *)
  else
    let r := m_row st in let c := m_col st in
    let st1 := if row_nil st r then set_table st (zset (m_table st) r zempty)   (* make([]*conn, COL) *)
               else st in
    let g := mkGfd r c fd in
    let st2 := set_heap st1 (zset (m_heap st1) id (mkConn fd g)) in             (* c.gfd = NewGFD(..) *)
    let st3 := set_f2g st2 (zset (m_f2g st2) fd g) in
    match set_cell st3 r c (Some id) with
    | Panic => st                                                              (* unreachable: the row was just allocated *)
    | Ret st4 =>
        let st5 := inc_count st4 r 1 in
        if c + 1 =? COL then set_next st5 (r + 1) 0 else set_next st5 r (c + 1)
    end.

(* the last non-nil column of a row strictly above [lo] (the backward column scan) *)
Definition last_col (rowm : zmap Z) (lo : Z) : option (Z * Z) :=
  fold_left (fun best kv =>
               if (lo <? fst kv) && (fst kv <? COL) &&
                  (match best with None => true | Some b => fst b <? fst kv end)
               then Some kv else best)
            (zelems rowm) None.

(* move the connection found at (row, column) into the freed position (r, cl) *)
Definition relocate (st : matst) (r cl row column id2 : Z) : outcome matst :=
  match zget (m_heap st) id2 with
  | None => Panic
  | Some c2 =>
      let g := mkGfd r cl (g_fd (c_gfd c2)) in               (* gFd.UpdateIndexes *)
      let st1 := set_heap st (zset (m_heap st) id2 (mkConn (c_fd c2) g)) in
      let st2 := set_f2g st1 (zset (m_f2g st1) (g_fd g) g) in
      obind (set_cell st2 r cl (Some id2)) (fun st3 =>
      let st4 := inc_count (inc_count st3 row (-1)) r 1 in
      obind (release_or_clear st4 row column) (fun st5 =>
      Ret (set_next st5 row column)))
  end.

Fixpoint scan_rows (st : matst) (r cl : Z) (rows : list Z) : outcome matst :=
  match rows with
  | [] => Ret st
  | row :: rest =>
      if cnt st row =? 0 then scan_rows st r cl rest else
      let cmin := if row =? r then cl else -1 in
      match zget (m_table st) row with
      | None => if cmin <? COL - 1 then Panic else scan_rows st r cl rest
      | Some rowm =>
          match last_col rowm cmin with
          | None => scan_rows st r cl rest
          | Some (column, id2) => relocate st r cl row column id2
          end
      end
  end.

Definition mx_del (st : matst) (id : Z) : outcome matst :=
  match zget (m_heap st) id with
  | None => Panic
  | Some c =>
      let r := g_row (c_gfd c) in let cl := g_col (c_gfd c) in
      let st1 := set_f2g st (zdel (m_f2g st) (c_fd c)) in
      let st2 := inc_count st1 r (-1) in
      obind (release_or_clear st2 r cl) (fun st3 =>
      let st4 := if (r <? m_row st3) || (cl <? m_col st3) then set_next st3 r cl else st3 in
      if m_dc st4 || row_nil st4 r then Ret st4
      else scan_rows st4 r cl (rev_append (zseq r (ROW - r)) []))
  end.

Definition mx_get (st : matst) (fd : Z) : option Z :=
  match zget (m_f2g st) fd with
  | None => None
  | Some g => cell st (g_row g) (g_col g)
  end.

Definition mx_load (st : matst) : Z :=
  fold_left (fun n r => n + cnt st r) (zseq 0 ROW) 0.

(* iterate: rows 0..ROW-1 that were non-nil when the loop started, columns
   0..COL-1, cells read at the moment they are reached.  (A row released in the
   middle of its own traversal is read as all-nil; Go keeps reading the old
   backing array, whose remaining cells are nil whenever the per-row count was
   exact.) *)
Definition mx_visit (m k lim : Z) (r : Z) (acc : outcome (matst * list Z * Z * bool)) (c : Z)
  : outcome (matst * list Z * Z * bool) :=
  match acc with
  | Panic => Panic
  | Ret (st, vis, n, stopped) =>
      if stopped then acc else
      match cell st r c with
      | None => acc
      | Some id =>
          let fd := match zget (m_heap st) id with Some c => c_fd c | None => 0 end in
          let res := if del_pred m k fd then mx_del st id else Ret st in
          match res with
          | Panic => Panic
          | Ret st' => Ret (st', id :: vis, n + 1, negb (keep_going lim (n + 1)))
          end
      end
  end.

Definition mx_visit_row (m k lim : Z) (snap : zmap (zmap Z))
  (acc : outcome (matst * list Z * Z * bool)) (r : Z) :=
  match zget snap r with
  | None => acc
  | Some _ => fold_left (mx_visit m k lim r) (zseq 0 COL) acc
  end.

Definition mx_iterate (st : matst) (m k lim : Z) : outcome (matst * list Z) :=
  let st0 := set_dc st true in
  match fold_left (mx_visit_row m k lim (m_table st0)) (zseq 0 ROW) (Ret (st0, [], 0, false)) with
  | Panic => Panic
  | Ret (st', vis, _, _) => Ret (set_dc st' false, rev_append vis [])
  end.

End Matrix.

(* ================================================================ *)
(* op-list semantics of both variants (what the theorems quantify over) *)

Definition mp_apply (st : mapst) (o : rop) : outcome (mapst * list (list Z)) :=
  match o with
  | OAdd id fd => Ret (mp_add st id fd, [])
  | ODel id => match mp_del st id with Ret st' => Ret (st', []) | Panic => Panic end
  | OIter m k => match mp_iterate st m k (-1) with Ret (st', vis) => Ret (st', [vis]) | Panic => Panic end
  end.
Fixpoint mp_run (st : mapst) (ops : list rop) : outcome (mapst * list (list Z)) :=
  match ops with
  | [] => Ret (st, [])
  | o :: t =>
      match mp_apply st o with
      | Panic => Panic
      | Ret (st', out) =>
          match mp_run st' t with Panic => Panic | Ret (st'', outs) => Ret (st'', (out ++ outs)%list) end
      end
  end.

Section MatrixRun.
Variables ROW COL : Z.

Definition mx_apply (st : matst) (o : rop) : outcome (matst * list (list Z)) :=
  match o with
  | OAdd id fd => Ret (mx_add ROW COL st id fd, [])
  | ODel id => match mx_del ROW COL st id with Ret st' => Ret (st', []) | Panic => Panic end
  | OIter m k => match mx_iterate ROW COL st m k (-1) with Ret (st', vis) => Ret (st', [vis]) | Panic => Panic end
  end.
Fixpoint mx_run (st : matst) (ops : list rop) : outcome (matst * list (list Z)) :=
  match ops with
  | [] => Ret (st, [])
  | o :: t =>
      match mx_apply st o with
      | Panic => Panic
      | Ret (st', out) =>
          match mx_run st' t with Panic => Panic | Ret (st'', outs) => Ret (st'', (out ++ outs)%list) end
      end
  end.

(* ---- the representation invariant of the matrix (DESIGN.md A.3), outside iteration ----
   positions are ordered lexicographically; (m_row, m_col) is the next free one *)
Definition plt (r c r' c' : Z) : Prop := r < r' \/ (r = r' /\ c < c').
Definition pltb (r c r' c' : Z) : bool := (r <? r') || ((r =? r') && (c <? c')).
(* number of live cells of row r when the live cells are exactly the positions below (row, col) *)
Definition cnt_at (row col r : Z) : Z :=
  if r <? 0 then 0 else if r <? row then COL else if r =? row then col else 0.

Record matrix_inv (st : matst) : Prop := {
  inv_dc : m_dc st = false;
  inv_next : 0 <= m_row st <= ROW /\ 0 <= m_col st < COL /\ (m_row st = ROW -> m_col st = 0);
  (* dense prefix: a cell is occupied iff it lies below the next free position *)
  inv_live : forall r c, cell st r c <> None <-> (0 <= r /\ 0 <= c < COL /\ plt r c (m_row st) (m_col st));
  (* per-row counts are exact *)
  inv_cnt : forall r, cnt st r = cnt_at (m_row st) (m_col st) r;
  (* a row slice is allocated iff its count is non-zero *)
  inv_nil : forall r, row_nil st r = true <-> cnt st r = 0;
  (* the connection in a cell stores that position in its own GFD, and fd2gfd agrees *)
  inv_cell : forall r c id, cell st r c = Some id ->
     exists fd, zget (m_heap st) id = Some (mkConn fd (mkGfd r c fd)) /\
                zget (m_f2g st) fd = Some (mkGfd r c fd);
  (* every fd2gfd entry points at the cell holding the connection with that fd *)
  inv_f2g : forall fd g, zget (m_f2g st) fd = Some g ->
     g_fd g = fd /\ exists id, cell st (g_row g) (g_col g) = Some id /\
                              zget (m_heap st) id = Some (mkConn fd g)
}.

(* number of registered connections in terms of the next free position *)
Definition population (st : matst) : Z := m_row st * COL + m_col st.

End MatrixRun.

(* two matrix states that no registry operation can tell apart (the heap of
   connection objects is not part of the registry) *)
Definition mat_equiv (a b : matst) : Prop :=
  m_dc a = m_dc b /\ m_row a = m_row b /\ m_col a = m_col b /\
  (forall r, cnt a r = cnt b r) /\ (forall r, row_nil a r = row_nil b r) /\
  (forall r c, cell a r c = cell b r c) /\ (forall fd, zget (m_f2g a) fd = zget (m_f2g b) fd).

(* ================================================================ *)
(* trace runner: family "registry"                                   *)

Module ZOrder <: TotalLeBool.
  Definition t := Z.
  Definition leb := Z.leb.
  Theorem leb_total : forall a1 a2, leb a1 a2 = true \/ leb a2 a1 = true.
  Proof. intros a b. unfold leb. destruct (Z.leb_spec a b); [left; reflexivity|right]. apply Z.leb_le. apply Z.lt_le_incl. assumption. Qed.
End ZOrder.
Module ZSort := Sort ZOrder.

Inductive rstate :=
| RNone
| RMap (st : mapst)
| RMat (ROW COL : Z) (st : matst)
| RDead.

Open Scope string_scope.

Definition id_of (o : option Z) : Z := match o with Some id => id | None => -1 end.

Definition reg_step (acc : rstate * list line) (l : line) : rstate * list line :=
  let '(s, out) := acc in
  match s with
  | RDead => acc
  | _ =>
  match l with
  | ("init", [ASym v; AInt row; AInt col]) =>
      if sym_eqb v "map" then (RMap mp_init, out)
      else if sym_eqb v "gcopt" then (RMat row col mx_init, out)
      else (RDead, obs "unknown" [] :: out)
  | ("add", [AInt id; AInt fd]) =>
      match s with
      | RMap st => (RMap (mp_add st id fd), out)
      | RMat R C st => (RMat R C (mx_add R C st id fd), out)
      | _ => (RDead, obs "unknown" [] :: out)
      end
  | ("del", [AInt id]) =>
      match s with
      | RMap st => match mp_del st id with Ret st' => (RMap st', out) | Panic => (RDead, panic_line "del" :: out) end
      | RMat R C st => match mx_del R C st id with Ret st' => (RMat R C st', out) | Panic => (RDead, panic_line "del" :: out) end
      | _ => (RDead, obs "unknown" [] :: out)
      end
  | ("get", [AInt fd]) =>
      match s with
      | RMap st => (s, obs "get" [AInt (id_of (mp_get st fd))] :: out)
      | RMat R C st => (s, obs "get" [AInt (id_of (mx_get st fd))] :: out)
      | _ => (RDead, obs "unknown" [] :: out)
      end
  | ("count", []) =>
      match s with
      | RMap st => (s, obs "count" [AInt (mp_load st)] :: out)
      | RMat R C st => (s, obs "count" [AInt (mx_load R st)] :: out)
      | _ => (RDead, obs "unknown" [] :: out)
      end
  | ("iter", [AInt m; AInt k; AInt lim]) =>
      match s with
      | RMap st => match mp_iterate st m k lim with
                   | Ret (st', vis) => (RMap st', obs "iter" (map AInt (ZSort.sort vis)) :: out)
                   | Panic => (RDead, panic_line "iter" :: out) end
      | RMat R C st => match mx_iterate R C st m k lim with
                   | Ret (st', vis) => (RMat R C st', obs "iter" (map AInt (ZSort.sort vis)) :: out)
                   | Panic => (RDead, panic_line "iter" :: out) end
      | _ => (RDead, obs "unknown" [] :: out)
      end
  | ("pos", [AInt id]) =>
      let heap := match s with RMap st => mp_heap st | RMat _ _ st => m_heap st | _ => zempty end in
      match zget heap id with
      | Some c => (s, obs "pos" [AInt (g_row (c_gfd c)); AInt (g_col (c_gfd c)); AInt (g_fd (c_gfd c))] :: out)
      | None => (RDead, panic_line "pos" :: out)
      end
  | _ => (RDead, obs "unknown" [] :: out)
  end
  end.

Definition run_registry : runner :=
  fun ls => rev_append (snd (fold_left reg_step ls (RNone, []))) [].
