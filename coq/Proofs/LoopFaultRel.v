(* C18, part 2: the relation between the state of the fault checker and the state of
   the loop (a compact lifecycle invariant: opened and not yet announced closed <->
   registered under its own descriptor), its preservation by every kind of state
   change of the model, and the lemmas for the two data system calls. *)
From GV Require Import Lib.Trace Model.Loop Spec.LoopSpec Proofs.LoopFaultBase.
From Coq Require Import Lia Permutation.
Open Scope string_scope.
Open Scope list_scope.
Open Scope Z_scope.

(* ------------------------------------------------------------------ *)
(* association lists, state projections *)

Lemma alookup_aremove : forall {A} k k' (m : list (Z * A)),
  alookup k' (aremove k m) = if k' =? k then None else alookup k' m.
Proof.
  induction m as [|[k0 v] m IH]; cbn [alookup aremove].
  - destruct (k' =? k); reflexivity.
  - destruct (k =? k0) eqn:E1.
    + rewrite IH. destruct (k' =? k) eqn:E2; [reflexivity|].
      assert (k' =? k0 = false) by lia. rewrite H. reflexivity.
    + cbn [alookup]. rewrite IH. destruct (k' =? k0) eqn:E3; [|reflexivity].
      assert (k' =? k = false) by lia. rewrite H. reflexivity.
Qed.

Lemma alookup_aset : forall {A} k k' (v : A) (m : list (Z * A)),
  alookup k' (aset k v m) = if k' =? k then Some v else alookup k' m.
Proof.
  intros. unfold aset. cbn [alookup]. destruct (k' =? k) eqn:E; [reflexivity|].
  rewrite alookup_aremove, E. reflexivity.
Qed.

Lemma getc_setc : forall s k c cid, getc (setc s k c) cid = if cid =? k then c else getc s cid.
Proof.
  intros. unfold getc, setc. cbn [l_conns]. rewrite alookup_aset.
  destruct (cid =? k); reflexivity.
Qed.

Lemma getc_setc_same : forall s k c, getc (setc s k c) k = c.
Proof. intros. rewrite getc_setc, Z.eqb_refl. reflexivity. Qed.

Lemma getc_setc_other : forall s k c cid, cid <> k -> getc (setc s k c) cid = getc s cid.
Proof. intros. rewrite getc_setc. assert (cid =? k = false) by lia. rewrite H0. reflexivity. Qed.

Definition tasks (s : lstate) : list task := l_urgent s ++ l_low s.

Fixpoint regs (ts : list task) : list Z :=
  match ts with
  | [] => []
  | TRegister cid _ :: r => cid :: regs r
  | _ :: r => regs r
  end.

Lemma regs_app : forall a b, regs (a ++ b) = regs a ++ regs b.
Proof.
  induction a as [|t a IH]; intros b; [reflexivity|].
  destruct t; cbn [regs app]; rewrite ?IH; reflexivity.
Qed.

Lemma regs_in : forall ts cid cb, In (TRegister cid cb) ts -> In cid (regs ts).
Proof.
  induction ts as [|t ts IH]; intros cid cb H; [destruct H|].
  destruct H as [->|H]; [left; reflexivity|].
  specialize (IH _ _ H). destruct t; cbn [regs]; auto. right; auto.
Qed.

Lemma in_regs : forall ts cid, In cid (regs ts) -> exists cb, In (TRegister cid cb) ts.
Proof.
  induction ts as [|t ts IH]; intros cid H; [destruct H|].
  destruct t; cbn [regs] in H;
    try (destruct (IH _ H) as [cb0 Hc]; exists cb0; right; exact Hc).
  destruct H as [->|H]; [exists cb; left; reflexivity|].
  destruct (IH _ H) as [cb' Hc]; exists cb'; right; exact Hc.
Qed.

(* ------------------------------------------------------------------ *)
(* the state part of the relation *)

Definition task_ok (C : list Z) (s : lstate) (t : task) : Prop :=
  match t with
  | TRegister cid _ => cid < l_next s /\ c_opened (getc s cid) = false /\ zmem cid C = false
  | _ => True
  end.

Record RS (L C : list Z) (s : lstate) : Prop := mkRS {
  rs_reg : forall cid, c_opened (getc s cid) = true -> zmem cid C = false ->
           alookup (c_fd (getc s cid)) (l_reg s) = Some cid;
  rs_regd : forall fd cid, alookup fd (l_reg s) = Some cid ->
           c_fd (getc s cid) = fd /\ cid < l_next s;
  rs_closing : forall cid, c_opened (getc s cid) = true -> zmem cid C = true ->
           In cid L /\ alookup (c_fd (getc s cid)) (l_reg s) = None;
  rs_L : forall cid, In cid L -> zmem cid C = true;
  rs_next : forall cid, l_next s <= cid -> c_opened (getc s cid) = false;
  rs_udp : forall cid, c_udp (getc s cid) = true -> c_remote (getc s cid) = true ->
           c_opened (getc s cid) = false;
  rs_closed_lt : forall cid, zmem cid C = true -> cid < l_next s;
  rs_tasks : forall t, In t (tasks s) -> task_ok C s t;
  rs_nodup : NoDup (regs (tasks s))
}.

Lemma zmem_cons : forall x y l, zmem x (y :: l) = (x =? y) || zmem x l.
Proof. reflexivity. Qed.

Lemma zmem_In : forall x l, zmem x l = true <-> In x l.
Proof.
  induction l as [|y l IH]; cbn [zmem existsb In]; [split; [discriminate|tauto]|].
  fold (zmem x l). rewrite Bool.orb_true_iff, IH. split; intros [H|H]; auto; [left; lia|left; lia].
Qed.

Lemma zmem_zrem : forall x y l, zmem x (zrem y l) = negb (x =? y) && zmem x l.
Proof.
  intros x y l. unfold zmem, zrem.
  induction l as [|z l IH]; cbn [filter existsb]; [rewrite Bool.andb_false_r; reflexivity|].
  destruct (y =? z) eqn:E; cbn [negb].
  - rewrite IH. destruct (x =? y) eqn:E2; cbn [negb andb]; [reflexivity|].
    assert (x =? z = false) by lia. rewrite H. reflexivity.
  - cbn [existsb]. rewrite IH.
    destruct (x =? z) eqn:E3; cbn [orb]; [|reflexivity].
    assert (x =? y = false) by lia. rewrite H. reflexivity.
Qed.

(* same connections, registry, counter; fewer or harmless tasks *)
Lemma RS_tasks_change : forall L C s s',
  RS L C s ->
  (forall cid, getc s' cid = getc s cid) -> l_reg s' = l_reg s -> l_next s' = l_next s ->
  (forall t, In t (tasks s') -> In t (tasks s) \/ task_ok C s t) ->
  NoDup (regs (tasks s')) ->
  RS L C s'.
Proof.
  intros L C s s' H Hg Hr Hn Ht Hnd. destruct H.
  constructor; try (intros; rewrite ?Hg, ?Hr, ?Hn in *; eauto; fail).
  - intros t Hin. destruct (Ht _ Hin) as [Ho|Ho]; [apply rs_tasks0 in Ho|];
      destruct t; cbn [task_ok] in *; rewrite ?Hg, ?Hn; auto.
Qed.

Lemma tasks_set_queues : forall s u lo f, tasks (set_queues s u lo f) = u ++ lo.
Proof. reflexivity. Qed.

Lemma getc_set_queues : forall s u lo f cid, getc (set_queues s u lo f) cid = getc s cid.
Proof. reflexivity. Qed.

(* pop the head of the urgent queue *)
Lemma RS_pop_urgent : forall L C s t rest,
  RS L C s -> l_urgent s = t :: rest ->
  RS L C (set_queues s rest (l_low s) (l_flag s)) /\ task_ok C s t /\
  (forall cid cb, t = TRegister cid cb -> ~ In cid (regs (rest ++ l_low s))).
Proof.
  intros L C s t rest H Hu.
  assert (Hnd := rs_nodup _ _ _ H). unfold tasks in Hnd. rewrite Hu in Hnd.
  split; [|split].
  - eapply RS_tasks_change; eauto.
    + intros t' Hin. left. unfold tasks. rewrite Hu. right. exact Hin.
    + rewrite tasks_set_queues. cbn [app] in Hnd.
      destruct t; cbn [regs] in Hnd; auto. inversion Hnd; auto.
  - apply (rs_tasks _ _ _ H). unfold tasks. rewrite Hu. left. reflexivity.
  - intros cid cb ->. cbn [app regs] in Hnd. inversion Hnd; auto.
Qed.

Lemma RS_pop_low : forall L C s t rest,
  RS L C s -> l_low s = t :: rest ->
  RS L C (set_queues s (l_urgent s) rest (l_flag s)) /\ task_ok C s t /\
  (forall cid cb, t = TRegister cid cb -> ~ In cid (regs (l_urgent s ++ rest))).
Proof.
  intros L C s t rest H Hu.
  assert (Hnd := rs_nodup _ _ _ H). unfold tasks in Hnd. rewrite Hu in Hnd.
  rewrite regs_app in Hnd.
  split; [|split].
  - eapply RS_tasks_change; eauto.
    + intros t' Hin. left. unfold tasks. rewrite Hu.
      rewrite tasks_set_queues in Hin. apply in_app_or in Hin. apply in_or_app.
      destruct Hin; [left|right; right]; auto.
    + rewrite tasks_set_queues, regs_app.
      destruct t; cbn [regs] in Hnd; auto. eapply NoDup_remove_1; eauto.
  - apply (rs_tasks _ _ _ H). unfold tasks. rewrite Hu. apply in_or_app. right. left. reflexivity.
  - intros cid cb ->. cbn [regs] in Hnd. rewrite regs_app. eapply NoDup_remove_2; eauto.
Qed.

Lemma tasks_enqueue : forall s b t t', In t' (tasks (enqueue s b t)) -> In t' (tasks s) \/ t' = t.
Proof.
  intros s b t t' H. unfold enqueue in H.
  destruct (b && (zlen (l_urgent s) >=? l_thr s)); rewrite tasks_set_queues in H; unfold tasks.
  - rewrite app_assoc in H. apply in_app_or in H. destruct H as [H|[H|[]]]; auto.
  - apply in_app_or in H. destruct H as [H|H].
    + apply in_app_or in H. destruct H as [H|[H|[]]]; auto. left. apply in_or_app; auto.
    + left. apply in_or_app; auto.
Qed.

Lemma regs_enqueue_perm : forall s b t x,
  In x (regs (tasks (enqueue s b t))) <-> In x (regs (tasks s)) \/ In x (regs [t]).
Proof.
  intros s b t x. unfold enqueue.
  destruct (b && (zlen (l_urgent s) >=? l_thr s)); rewrite tasks_set_queues; unfold tasks;
    rewrite ?regs_app, ?in_app_iff; tauto.
Qed.

Lemma NoDup_insert : forall (a b : list Z) x, NoDup (a ++ b) -> ~ In x (a ++ b) -> NoDup (a ++ x :: b).
Proof.
  intros a b x H Hn. eapply Permutation.Permutation_NoDup; [apply Permutation.Permutation_middle|].
  constructor; auto.
Qed.

Lemma NoDup_regs_enqueue : forall s b t,
  NoDup (regs (tasks s)) -> (forall cid, In cid (regs [t]) -> ~ In cid (regs (tasks s))) ->
  NoDup (regs (tasks (enqueue s b t))).
Proof.
  intros s b t Hnd Hf. unfold enqueue.
  destruct (b && (zlen (l_urgent s) >=? l_thr s)); rewrite tasks_set_queues; unfold tasks in *;
    rewrite ?regs_app in *.
  - destruct t; cbn [regs]; rewrite ?app_nil_r; auto.
    rewrite app_assoc. apply NoDup_insert; rewrite app_nil_r; auto.
    apply Hf. left; reflexivity.
  - destruct t; cbn [regs]; rewrite ?app_nil_r; auto.
    rewrite <- app_assoc. cbn [app]. apply NoDup_insert; auto. apply Hf. left; reflexivity.
Qed.

(* ------------------------------------------------------------------ *)
(* changes of the connection table *)

Definition same_static (c c' : conn) : Prop :=
  c_fd c' = c_fd c /\ c_opened c' = c_opened c /\ c_udp c' = c_udp c /\ c_remote c' = c_remote c.

Lemma same_static_refl : forall c, same_static c c.
Proof. intros c; repeat split. Qed.

Lemma RS_static_change : forall L C s s',
  RS L C s ->
  (forall cid, same_static (getc s cid) (getc s' cid)) ->
  l_reg s' = l_reg s -> l_next s' = l_next s -> tasks s' = tasks s ->
  RS L C s'.
Proof.
  intros L C s s' H Hg Hr Hn Ht. destruct H.
  assert (Hfd : forall cid, c_fd (getc s' cid) = c_fd (getc s cid)) by (intros; apply Hg).
  assert (Hop : forall cid, c_opened (getc s' cid) = c_opened (getc s cid)) by (intros; apply Hg).
  assert (Hud : forall cid, c_udp (getc s' cid) = c_udp (getc s cid)) by (intros; apply Hg).
  assert (Hrm : forall cid, c_remote (getc s' cid) = c_remote (getc s cid)) by (intros; apply Hg).
  constructor; intros; rewrite ?Hfd, ?Hop, ?Hud, ?Hrm, ?Hr, ?Hn, ?Ht in *; eauto.
  - apply rs_tasks0 in H. destruct t; cbn [task_ok] in *; rewrite ?Hop, ?Hn; auto.
Qed.

Lemma RS_setc_data : forall L C s cid c',
  RS L C s -> same_static (getc s cid) c' -> RS L C (setc s cid c').
Proof.
  intros L C s cid c' H Hs. eapply RS_static_change; eauto.
  intros x. rewrite getc_setc. destruct (x =? cid) eqn:E; [|apply same_static_refl].
  assert (x = cid) by lia. subst. exact Hs.
Qed.

Lemma RS_new_conn : forall L C s c,
  RS L C s -> c_opened c = false ->
  RS L C (set_next (setc s (l_next s) c) (l_next s + 1)).
Proof.
  intros L C s c H Hc. destruct H.
  set (s' := set_next (setc s (l_next s) c) (l_next s + 1)).
  assert (Hg : forall x, getc s' x = if x =? l_next s then c else getc s x).
  { intros x. unfold s'. change (getc (set_next ?a ?b) x) with (getc a x). apply getc_setc. }
  assert (Hr : l_reg s' = l_reg s) by reflexivity.
  assert (Hn : l_next s' = l_next s + 1) by reflexivity.
  assert (Ht : tasks s' = tasks s) by reflexivity.
  assert (Hlt : forall x, c_opened (getc s x) = true -> x < l_next s).
  { intros x Hx. destruct (Z_lt_le_dec x (l_next s)); auto. rewrite rs_next0 in Hx by lia. discriminate. }
  assert (Hsame : forall x, x < l_next s -> getc s' x = getc s x).
  { intros x Hx. rewrite Hg. assert (x =? l_next s = false) by lia. rewrite H. reflexivity. }
  assert (Hop : forall x, c_opened (getc s' x) = true -> getc s' x = getc s x).
  { intros x Hx. rewrite Hg in *. destruct (x =? l_next s); [congruence|reflexivity]. }
  constructor.
  - intros x Ho Hz. rewrite Hr. pose proof (Hop _ Ho) as E. rewrite E in *. auto.
  - intros fd x Hl. rewrite Hr in Hl. destruct (rs_regd0 _ _ Hl) as [H1 H2].
    rewrite Hsame by lia. rewrite Hn. split; auto; lia.
  - intros x Ho Hz. rewrite Hr. pose proof (Hop _ Ho) as E. rewrite E in *. auto.
  - exact rs_L0.
  - intros x Hx. rewrite Hn in Hx. rewrite Hg. assert (x =? l_next s = false) by lia.
    rewrite H. apply rs_next0. lia.
  - intros x Hu Hm. rewrite Hg in *. destruct (x =? l_next s); auto.
  - intros x Hz. rewrite Hn. apply rs_closed_lt0 in Hz. lia.
  - intros t Hin. rewrite Ht in Hin. apply rs_tasks0 in Hin.
    destruct t; cbn [task_ok] in *; auto.
    + destruct Hin as [H1 [H2 H3]]. rewrite Hsame by lia. rewrite Hn. repeat split; auto; lia.
  - rewrite Ht. exact rs_nodup0.
Qed.

Lemma RS_enqueue : forall L C s b t,
  RS L C s -> task_ok C s t ->
  (forall cid, In cid (regs [t]) -> ~ In cid (regs (tasks s))) ->
  RS L C (enqueue s b t).
Proof.
  intros L C s b t H Ht Hf. eapply RS_tasks_change; eauto.
  - intros x. unfold enqueue. destruct (b && (zlen (l_urgent s) >=? l_thr s)); reflexivity.
  - unfold enqueue. destruct (b && (zlen (l_urgent s) >=? l_thr s)); reflexivity.
  - unfold enqueue. destruct (b && (zlen (l_urgent s) >=? l_thr s)); reflexivity.
  - intros t' Hin. apply tasks_enqueue in Hin. destruct Hin as [Hin| ->]; auto.
  - apply NoDup_regs_enqueue; auto. apply (rs_nodup _ _ _ H).
Qed.

Lemma RS_set_flag : forall L C s f, RS L C s -> RS L C (set_flag s f).
Proof.
  intros L C s f H. eapply RS_tasks_change; eauto.
  apply (rs_nodup _ _ _ H).
Qed.

(* enqueue of a task that is not a registration *)
Lemma RS_enqueue_plain : forall L C s b t,
  RS L C s -> task_ok C s t -> regs [t] = [] -> RS L C (enqueue s b t).
Proof.
  intros. apply RS_enqueue; auto. intros cid Hin. rewrite H1 in Hin. destruct Hin.
Qed.

(* ------------------------------------------------------------------ *)
(* requests of other goroutines *)

Definition ext (s : lstate) (is_low : bool) (t : task) := set_flag (enqueue s is_low t) true.

Definition benign (t : task) : Prop :=
  match t with TRegister _ _ => False | TWrite0 _ => False | _ => True end.

Lemma apply_async_cases : forall s l s', apply_async s l = Some s' ->
  (exists b t, benign t /\ s' = ext s b t) \/
  (exists b cb c, c_opened c = false /\
      s' = ext (set_next (setc s (l_next s) c) (l_next s + 1)) b (TRegister (l_next s) cb)).
Proof.
  intros s l s' H. unfold apply_async in H. fold (ext s) in H.
  repeat match type of H with
  | Some _ = Some _ => inversion H; subst; clear H
  | None = Some _ => discriminate H
  | context [match ?x with _ => _ end] => destruct x
  | context [if ?x then _ else _] => destruct x
  end; try (left; do 2 eexists; split; [|reflexivity]; exact I);
  try (right; do 3 eexists; split; [|reflexivity]; reflexivity).
Qed.

Lemma benign_ok : forall C s t, benign t -> task_ok C s t /\ regs [t] = [].
Proof. intros C s t H. destruct t; cbn in *; tauto. Qed.

Lemma RS_async : forall L C s l s', RS L C s -> apply_async s l = Some s' -> RS L C s'.
Proof.
  intros L C s l s' H Ha. apply apply_async_cases in Ha.
  destruct Ha as [[b [t [Hb ->]]]|[b [cb [c [Hc ->]]]]]; unfold ext; apply RS_set_flag.
  - destruct (benign_ok C s t Hb). apply RS_enqueue_plain; auto.
  - pose proof (RS_new_conn _ _ _ c H Hc) as H1.
    apply RS_enqueue; auto.
    + cbn [task_ok]. change (l_next (set_next ?a ?b)) with b.
      change (getc (set_next ?a ?b) ?x) with (getc a x). rewrite getc_setc_same.
      repeat split; auto; try lia.
      destruct (zmem (l_next s) C) eqn:E; auto. apply (rs_closed_lt _ _ _ H) in E. lia.
    + intros cid [<-|[]] Hin. change (tasks (set_next ?a ?b)) with (tasks a) in Hin.
      change (tasks (setc ?a ?b ?c)) with (tasks a) in Hin.
      apply in_regs in Hin. destruct Hin as [cb' Hin].
      apply (rs_tasks _ _ _ H) in Hin. cbn [task_ok] in Hin. lia.
Qed.

(* what a request can do to an existing connection: nothing *)
Lemma async_getc : forall L C s l s' cid, RS L C s -> apply_async s l = Some s' ->
  c_opened (getc s cid) = true -> getc s' cid = getc s cid.
Proof.
  intros L C s l s' cid H Ha Ho. apply apply_async_cases in Ha.
  assert (Hlt : cid < l_next s).
  { destruct (Z_lt_le_dec cid (l_next s)); auto. rewrite (rs_next _ _ _ H) in Ho by lia. discriminate. }
  destruct Ha as [[b [t [Hb ->]]]|[b [cb [c [Hc ->]]]]]; unfold ext, set_flag, enqueue.
  - destruct (b && _); reflexivity.
  - match goal with |- context [if ?x then _ else _] => destruct x end;
      rewrite !getc_set_queues; change (getc (set_next ?a ?b) ?x) with (getc a x);
      apply getc_setc_other; lia.
Qed.

Lemma async_unopened : forall s l s' cid, apply_async s l = Some s' ->
  c_opened (getc s cid) = false -> c_opened (getc s' cid) = false.
Proof.
  intros s l s' cid Ha Ho. apply apply_async_cases in Ha.
  destruct Ha as [[b [t [Hb ->]]]|[b [cb [c [Hc ->]]]]]; unfold ext, set_flag, enqueue.
  - destruct (b && _); exact Ho.
  - match goal with |- context [if ?x then _ else _] => destruct x end;
      rewrite !getc_set_queues; change (getc (set_next ?a ?b) ?x) with (getc a x);
      rewrite getc_setc; destruct (cid =? l_next s); auto.
Qed.

(* ------------------------------------------------------------------ *)
(* lifecycle steps *)

(* el.close: the registry entry goes, OnClose is announced *)
Lemma RS_close : forall L C s cid,
  RS L C s -> c_opened (getc s cid) = true -> zmem cid C = false ->
  RS (cid :: L) (cid :: C) (set_reg s (aremove (c_fd (getc s cid)) (l_reg s))).
Proof.
  intros L C s cid H Ho Hz. destruct H.
  set (fd := c_fd (getc s cid)).
  assert (Hreg : alookup fd (l_reg s) = Some cid) by (apply rs_reg0; auto).
  constructor; change (getc (set_reg ?a ?b)) with (getc a); change (l_reg (set_reg ?a ?b)) with b;
    change (l_next (set_reg ?a ?b)) with (l_next a); change (tasks (set_reg ?a ?b)) with (tasks a).
  - intros x Hx Hzx. rewrite zmem_cons in Hzx. apply Bool.orb_false_iff in Hzx. destruct Hzx as [Hne Hzx].
    rewrite alookup_aremove. pose proof (rs_reg0 _ Hx Hzx) as Hrx.
    destruct (c_fd (getc s x) =? fd) eqn:E; auto.
    assert (c_fd (getc s x) = fd) by lia. rewrite H in Hrx. rewrite Hrx in Hreg. inversion Hreg; lia.
  - intros fd' x Hl. rewrite alookup_aremove in Hl. destruct (fd' =? fd); [discriminate|]. auto.
  - intros x Hx Hzx. rewrite zmem_cons in Hzx. rewrite alookup_aremove.
    destruct (x =? cid) eqn:E.
    + assert (x = cid) by lia. subst x. split; [left; reflexivity|]. fold fd. rewrite Z.eqb_refl. reflexivity.
    + cbn [orb] in Hzx. destruct (rs_closing0 _ Hx Hzx) as [H1 H2]. split; [right; exact H1|].
      rewrite H2. destruct (_ =? fd); reflexivity.
  - intros x [<-|Hx]; rewrite zmem_cons; [rewrite Z.eqb_refl; reflexivity|].
    rewrite (rs_L0 _ Hx). apply Bool.orb_true_r.
  - exact rs_next0.
  - exact rs_udp0.
  - intros x Hzx. rewrite zmem_cons in Hzx. destruct (x =? cid) eqn:E; [|apply rs_closed_lt0; exact Hzx].
    assert (x = cid) by lia. subst x.
    destruct (Z_lt_le_dec cid (l_next s)); auto. rewrite rs_next0 in Ho by lia. discriminate.
  - intros t Hin. apply rs_tasks0 in Hin. destruct t; cbn [task_ok] in *; auto.
    + destruct Hin as [H1 [H2 H3]]. repeat split; auto. rewrite zmem_cons, H3.
      destruct (cid0 =? cid) eqn:E; auto. assert (cid0 = cid) by lia. subst. congruence.
  - exact rs_nodup0.
Qed.

Lemma same_static_release : forall c,
  c_fd (c_release c) = c_fd c /\ c_opened (c_release c) = false /\ c_udp (c_release c) = c_udp c /\
  (c_udp c = true -> c_remote (c_release c) = c_remote c).
Proof. intros c. unfold c_release. destruct (c_udp c) eqn:E; cbn; auto. repeat split; auto. discriminate. Qed.

(* conn.release *)
Lemma RS_release : forall L L' C s cid,
  RS L' C s ->
  (forall x, In x L -> In x L') -> (forall x, In x L' -> x = cid \/ In x L) ->
  RS L C (setc s cid (c_release (getc s cid))).
Proof.
  intros L L' C s cid H Hsub Hsup. destruct H.
  destruct (same_static_release (getc s cid)) as [Hfd [Hop [Hud Hrm]]].
  set (s' := setc s cid (c_release (getc s cid))).
  assert (Hg : forall x, x <> cid -> getc s' x = getc s x) by (intros; apply getc_setc_other; auto).
  assert (Hgc : getc s' cid = c_release (getc s cid)) by apply getc_setc_same.
  assert (Hcase : forall x, x = cid \/ x <> cid) by (intros; lia).
  constructor; change (l_reg s') with (l_reg s); change (l_next s') with (l_next s);
    change (tasks s') with (tasks s).
  - intros x Hx Hz. destruct (Hcase x) as [->|Hne]; [rewrite Hgc in Hx; congruence|].
    rewrite Hg in * by auto. auto.
  - intros fd x Hl. destruct (rs_regd0 _ _ Hl) as [H1 H2].
    destruct (Hcase x) as [->|Hne]; [|rewrite Hg by auto; auto].
    rewrite Hgc, Hfd. split; auto.
  - intros x Hx Hz. destruct (Hcase x) as [->|Hne]; [rewrite Hgc in Hx; congruence|].
    rewrite Hg in * by auto. destruct (rs_closing0 _ Hx Hz) as [H1 H2]. split; auto.
    destruct (Hsup _ H1); auto. contradiction.
  - intros x Hx. apply rs_L0. auto.
  - intros x Hx. destruct (Hcase x) as [->|Hne]; [rewrite Hgc; auto|]. rewrite Hg by auto. auto.
  - intros x Hx Hr. destruct (Hcase x) as [->|Hne]; [rewrite Hgc; auto|]. rewrite Hg in * by auto. auto.
  - exact rs_closed_lt0.
  - intros t Hin. apply rs_tasks0 in Hin. destruct t; cbn [task_ok] in *; auto.
    + destruct Hin as [H1 [H2 H3]]. repeat split; auto.
      destruct (Hcase cid0) as [->|Hne]; [rewrite Hgc; auto|]. rewrite Hg by auto. auto.
  - exact rs_nodup0.
Qed.

(* el.register0 of a connected datagram socket with a remote (never opened) *)
Lemma RS_register_only : forall C s cid fd,
  RS [] C s -> alookup fd (l_reg s) = None -> c_fd (getc s cid) = fd -> cid < l_next s ->
  RS [] C (set_reg s (aset fd cid (l_reg s))).
Proof.
  intros C s cid fd H Hnone Hfd Hlt. destruct H.
  constructor; change (getc (set_reg ?a ?b)) with (getc a); change (l_reg (set_reg ?a ?b)) with b;
    change (l_next (set_reg ?a ?b)) with (l_next a); change (tasks (set_reg ?a ?b)) with (tasks a); auto.
  - intros x Hx Hz. rewrite alookup_aset. pose proof (rs_reg0 _ Hx Hz) as Hr.
    destruct (c_fd (getc s x) =? fd) eqn:E; auto.
    assert (c_fd (getc s x) = fd) by lia. rewrite H in Hr. congruence.
  - intros fd' x Hl. rewrite alookup_aset in Hl. destruct (fd' =? fd) eqn:E; auto.
    inversion Hl; subst x. assert (fd' = fd) by lia. subst fd'. auto.
  - intros x Hx Hz. destruct (rs_closing0 _ Hx Hz) as [[] _].
Qed.

(* el.register0 + el.open: registered and marked open in one step *)
Lemma RS_register_open : forall C s cid fd,
  RS [] C s -> alookup fd (l_reg s) = None -> c_fd (getc s cid) = fd -> cid < l_next s ->
  c_opened (getc s cid) = false -> zmem cid C = false ->
  (c_udp (getc s cid) = true -> c_remote (getc s cid) = true -> False) ->
  ~ In cid (regs (tasks s)) ->
  RS [] C (setc (set_reg s (aset fd cid (l_reg s))) cid (c_set_opened (getc s cid) true)).
Proof.
  intros C s cid fd H Hnone Hfd Hlt Hno Hz Hur Hnr. destruct H.
  set (s' := setc (set_reg s (aset fd cid (l_reg s))) cid (c_set_opened (getc s cid) true)).
  assert (Hg : forall x, x <> cid -> getc s' x = getc s x).
  { intros. unfold s'. rewrite getc_setc_other by auto. reflexivity. }
  assert (Hgc : getc s' cid = c_set_opened (getc s cid) true) by apply getc_setc_same.
  assert (Hcase : forall x, x = cid \/ x <> cid) by (intros; lia).
  constructor; change (l_reg s') with (aset fd cid (l_reg s)); change (l_next s') with (l_next s);
    change (tasks s') with (tasks s); auto.
  - intros x Hx Hzx. rewrite alookup_aset.
    destruct (Hcase x) as [->|Hne].
    + rewrite Hgc. cbn [c_set_opened c_fd]. rewrite Hfd, Z.eqb_refl. reflexivity.
    + rewrite Hg in * by auto. pose proof (rs_reg0 _ Hx Hzx) as Hr.
      destruct (c_fd (getc s x) =? fd) eqn:E; auto.
      assert (c_fd (getc s x) = fd) by lia. rewrite H in Hr. congruence.
  - intros fd' x Hl. rewrite alookup_aset in Hl. destruct (fd' =? fd) eqn:E.
    + inversion Hl; subst x. assert (fd' = fd) by lia. subst fd'.
      rewrite Hgc. cbn [c_set_opened c_fd c_opened]. auto.
    + destruct (rs_regd0 _ _ Hl) as [H1 H2].
      destruct (Hcase x) as [->|Hne]; [lia|]. rewrite Hg by auto. auto.
  - intros x Hx Hzx. destruct (Hcase x) as [->|Hne]; [congruence|].
    rewrite Hg in * by auto. destruct (rs_closing0 _ Hx Hzx) as [[] _].
  - intros x Hx. destruct (Hcase x) as [->|Hne]; [lia|]. rewrite Hg by auto. auto.
  - intros x Hx Hr. destruct (Hcase x) as [->|Hne]; [|rewrite Hg in * by auto; auto].
    rewrite Hgc in *. cbn [c_set_opened c_udp c_remote] in *. exfalso; auto.
  - intros t Hin. pose proof (rs_tasks0 _ Hin) as Ht. destruct t; cbn [task_ok] in *; auto.
    + destruct Ht as [H1 [H2 H3]].
      destruct (Hcase cid0) as [->|Hne]; [exfalso; apply Hnr; eapply regs_in; eauto|].
      rewrite Hg by auto. auto.
Qed.

(* ------------------------------------------------------------------ *)
(* the relation *)

Definition Dm (dm : option Z) (c : faultst) (s : lstate) : Prop :=
  ft_doomed c = [] \/
  exists cid, dm = Some cid /\ ft_doomed c = [cid] /\
              c_opened (getc s cid) = true /\ zmem cid (ft_closed c) = false.

(* L: connections inside their el.close; x: inside the open-reply bracket; dm: the
   connection that may be doomed; P: an extra fact about closed set and state *)
Definition Rel (L : list Z) (x : bool) (dm : option Z) (P : list Z -> lstate -> Prop)
  (c : faultst) (s : lstate) : Prop :=
  ft_owed c = false /\ ft_exempt c = x /\ RS L (ft_closed c) s /\ Dm dm c s /\ P (ft_closed c) s.

Definition PT : list Z -> lstate -> Prop := fun _ _ => True.

Definition pstable (L : list Z) (P : list Z -> lstate -> Prop) : Prop :=
  forall C s l s', RS L C s -> P C s -> apply_async s l = Some s' -> P C s'.

Lemma pstable_PT : forall L, pstable L PT.
Proof. intros L C s l s' _ _ _. exact I. Qed.

Definition Popen (cid : Z) : list Z -> lstate -> Prop := fun _ s => c_opened (getc s cid) = true.
Definition Popc (cid : Z) : list Z -> lstate -> Prop :=
  fun C s => c_opened (getc s cid) = true \/ zmem cid C = true.

Lemma pstable_Popen : forall L cid, pstable L (Popen cid).
Proof.
  intros L cid C s l s' H Hp Ha. unfold Popen in *. rewrite (async_getc _ _ _ _ _ _ H Ha Hp). exact Hp.
Qed.

Lemma pstable_Popc : forall L cid, pstable L (Popc cid).
Proof.
  intros L cid C s l s' H [Hp|Hp] Ha; [left|right; exact Hp].
  rewrite (async_getc _ _ _ _ _ _ H Ha Hp). exact Hp.
Qed.

Lemma Rel_stable : forall L x dm P, pstable L P -> stable (Rel L x dm P).
Proof.
  intros L x dm P HP c s l s' [H1 [H2 [H3 [H4 H5]]]] Ha.
  split; [exact H1|split; [exact H2|split; [|split]]].
  - eapply RS_async; eauto.
  - destruct H4 as [H4|[cid [E1 [E2 [E3 E4]]]]]; [left; auto|right].
    exists cid. repeat split; auto. rewrite (async_getc _ _ _ _ _ _ H3 Ha E3). exact E3.
  - eapply HP; eauto.
Qed.

Lemma Rel_call_blind : forall L x dm P, call_blind (Rel L x dm P).
Proof. intros L x dm P c s b H. exact H. Qed.

Lemma Rel_not_owed : forall L x dm P, not_owed (Rel L x dm P).
Proof. intros L x dm P c s H. apply H. Qed.

Lemma Rel_dm_weaken : forall L x dm P c s, Rel L x None P c s -> Rel L x dm P c s.
Proof.
  intros L x dm P c s [H1 [H2 [H3 [H4 H5]]]].
  split; [exact H1|split; [exact H2|split; [exact H3|split; [|exact H5]]]].
  destruct H4 as [H4|[cid [E _]]]; [left; exact H4|discriminate].
Qed.

Lemma Rel_P_weaken : forall L x dm (P P' : list Z -> lstate -> Prop) c s,
  Rel L x dm P c s -> (RS L (ft_closed c) s -> P (ft_closed c) s -> P' (ft_closed c) s) -> Rel L x dm P' c s.
Proof.
  intros L x dm P P' c s [H1 [H2 [H3 [H4 H5]]]] Hi.
  split; [exact H1|split; [exact H2|split; [exact H3|split; [exact H4|auto]]]].
Qed.

(* a state change that keeps every conjunct, when nothing is doomed *)
Lemma Rel_state : forall L L' x (P P' : list Z -> lstate -> Prop) c s s',
  Rel L x None P c s ->
  (RS L (ft_closed c) s -> RS L' (ft_closed c) s') ->
  (RS L (ft_closed c) s -> P (ft_closed c) s -> P' (ft_closed c) s') ->
  Rel L' x None P' c s'.
Proof.
  intros L L' x P P' c s s' [H1 [H2 [H3 [H4 H5]]]] Hr Hp.
  split; [exact H1|split; [exact H2|split; [auto|split; [|auto]]]].
  destruct H4 as [H4|[cid [E _]]]; [left; exact H4|discriminate].
Qed.

(* ------------------------------------------------------------------ *)
(* write(2)/writev(2) on a connection *)

Lemma sys_wr_cases : forall cid fd src exact w k w',
  sys_wr cid fd src exact w = (k, w') ->
  exists o w1, pull (emit (obs "sys" [ASym "wr"; AInt fd]) w) = (o, w1) /\
   ((o = None /\ k = KNone /\ w' = w1) \/
    (exists l what, o = Some l /\ k = KNone /\ w' = desync what w1 /\ sym_eqb what "fuel" = false) \/
    (exists off n rest offered, o = Some ("r", ASym "wr" :: AInt off :: AInt n :: rest) /\
       let w2 := emit (obs "wdata" [ABytes offered]) w1 in
       ((n <? 0 = true /\ is_eagain_arg rest = true /\ (exists e, k = KErr e /\ is_eagain e = true) /\
         w' = ghost "eagain" cid [] w2) \/
        (n <? 0 = true /\ is_eagain_arg rest = false /\ (exists e, k = KErr e /\ is_eagain e = false) /\
         w' = ghost "fail" cid [] w2) \/
        (n <? 0 = false /\ k = KOk n [] /\ exists b, w' = ghost "hand" cid b w2)))).
Proof.
  intros cid fd src exact w k w' Hs. unfold sys_wr in Hs.
  destruct (pull (emit (obs "sys" [ASym "wr"; AInt fd]) w)) as [o w1] eqn:Hp.
  exists o, w1. split; [reflexivity|].
  destruct o as [l|]; [|inversion Hs; subst; auto].
  right. destruct l as [ln la].
  destruct (String.eqb_spec ln "r") as [->|Hne].
  - destruct la as [|[z|b|nm] la]; try solve [inversion Hs; subst; left; do 2 eexists; repeat split; reflexivity].
    destruct la as [|[off|b|s2] la]; try solve [inversion Hs; subst; left; do 2 eexists; repeat split; reflexivity].
    destruct la as [|[n|b|s2] rest]; try solve [inversion Hs; subst; left; do 2 eexists; repeat split; reflexivity].
    destruct (sym_eqb nm "wr") eqn:Hnm; cbn [negb] in Hs; [|inversion Hs; subst; left; do 2 eexists; repeat split; reflexivity].
    apply String.eqb_eq in Hnm. subst nm.
    destruct ((off <? 0) || (zlen src <? off) || (off <? n)); [inversion Hs; subst; left; do 2 eexists; repeat split; reflexivity|].
    right. exists off, n, rest, (if exact then src else ztake off src). split; [reflexivity|].
    cbv zeta. destruct (n <? 0) eqn:Hn.
    + destruct rest as [|[z|b|e] rest']; cbn [is_eagain_arg].
      * right; left. inversion Hs; subst. repeat split; auto. exists "err". auto.
      * right; left. inversion Hs; subst. repeat split; auto. exists "err". auto.
      * right; left. inversion Hs; subst. repeat split; auto. exists "err". auto.
      * unfold is_eagain in Hs. destruct (sym_eqb e "eagain") eqn:He; inversion Hs; subst.
        -- left. repeat split; auto. exists e. auto.
        -- right; left. repeat split; auto. exists e. auto.
    + right; right. inversion Hs; subst. repeat split; auto. eexists; reflexivity.
  - left. exists (ln, la), "expected-r-wr".
    assert (Hk : (k, w') = (KNone, desync "expected-r-wr" w1)).
    { rewrite <- Hs. destruct ln as [|a ln]; [reflexivity|].
      destruct a as [[] [] [] [] [] [] [] []]; try reflexivity.
      destruct ln; [congruence|reflexivity]. }
    inversion Hk; subst. auto.
Qed.


Section SysWr.
Variables (L : list Z) (x : bool) (P : list Z -> lstate -> Prop).
Hypothesis HP : pstable L P.

(* relation right after a fatal result has been marked *)
Definition RelFail (cid : Z) (c : faultst) (s : lstate) : Prop :=
  ft_owed c = false /\ ft_exempt c = x /\ RS L (ft_closed c) s /\ P (ft_closed c) s /\
  ft_doomed c = (if x || zmem cid (ft_closed c) then [] else [cid]).

Lemma Inv_sys_wr : forall cid fd src exact w k w',
  Inv (Rel L x None P) w -> sys_wr cid fd src exact w = (k, w') ->
  match k with
  | KNone => AnyInv w'
  | KOk n _ => Inv (Rel L x None P) w'
  | KErr e => if is_eagain e then Inv (Rel L x None P) w' else Inv (RelFail cid) w'
  end.
Proof.
  intros cid fd src exact w k w' H Hs.
  destruct (sys_wr_cases _ _ _ _ _ _ _ Hs) as [o [w1 [Hp Hc]]].
  assert (H1 : Inv (Rel L x None P) (emit (obs "sys" [ASym "wr"; AInt fd]) w)).
  { eapply Inv_emit; [exact H|reflexivity|]. intros c _ Hc'. eexists. split; [reflexivity|].
    exact Hc'. }
  pose proof (Inv_pull _ (Rel_stable L x None P HP) _ _ _ H1 Hp) as HPl.
  destruct Hc as [[-> [-> ->]]|[[l [what [-> [-> [-> _]]]]]|[off [n [rest [offered [-> Hc]]]]]]].
  - exact HPl.
  - eapply Inv_desync; eauto.
  - cbv zeta in Hc.
    (* after the result line: owed iff fatal *)
    assert (H2 : Inv (fun c s => ft_owed c = ((n <? 0) && negb (is_eagain_arg rest)) /\ ft_exempt c = x /\
                        RS L (ft_closed c) s /\ P (ft_closed c) s /\ ft_doomed c = [])
                     (emit (obs "wdata" [ABytes offered]) w1)).
    { eapply Inv_emit; [exact HPl|reflexivity|].
      intros c _ [c0 [Hst [E1 [E2 [E3 [E4 E5]]]]]]. exists c. split; [reflexivity|].
      cbn in Hst. inversion Hst; subst c; clear Hst. cbn [ft_owed ft_exempt ft_closed ft_doomed].
      destruct E4 as [E4|[? [E _]]]; [|discriminate].
      split; [reflexivity|split; [exact E2|split; [exact E3|split; [exact E5|exact E4]]]]. }
    destruct Hc as [[Hn [He [[e [-> Hee]] ->]]]|[[Hn [He [[e [-> Hee]] ->]]]|[Hn [-> [b ->]]]]].
    + rewrite Hee. unfold ghost. eapply Inv_emit; [exact H2|reflexivity|].
      intros c _ [E1 [E2 [E3 [E4 E5]]]]. rewrite Hn, He in E1. cbn [andb negb] in E1.
      exists c. split; [cbn; rewrite E1; reflexivity|].
      split; [exact E1|split; [exact E2|split; [exact E3|split; [left; exact E5|exact E4]]]].
    + rewrite Hee. unfold ghost. eapply Inv_emit; [exact H2|reflexivity|].
      intros c _ [E1 [E2 [E3 [E4 E5]]]]. rewrite Hn, He in E1. cbn [andb negb] in E1.
      eexists. split; [cbn; rewrite E1; reflexivity|].
      unfold RelFail. cbn [ft_owed ft_exempt ft_closed ft_doomed]. rewrite E2, E5. auto.
    + unfold ghost. eapply Inv_emit; [exact H2|reflexivity|].
      intros c _ [E1 [E2 [E3 [E4 E5]]]]. rewrite Hn in E1. cbn [andb] in E1.
      exists c. split; [cbn; rewrite E1; reflexivity|].
      split; [exact E1|split; [exact E2|split; [exact E3|split; [left; exact E5|exact E4]]]].
Qed.

End SysWr.

Lemma Any_sys_wr : forall cid fd src exact w k w', AnyInv w -> sys_wr cid fd src exact w = (k, w') -> AnyInv w'.
Proof.
  intros cid fd src exact w k w' H Hs.
  destruct (sys_wr_cases _ _ _ _ _ _ _ Hs) as [o [w1 [Hp Hc]]].
  pose proof (Any_pull_gen _ _ _ _ (Any_emit _ _ H) Hp) as H1.
  destruct Hc as [[-> [-> ->]]|[[l [what [-> [-> [-> _]]]]]|[off [n [rest [offered [-> Hc]]]]]]]; auto.
  - apply Any_desync; auto.
  - cbv zeta in Hc.
    destruct Hc as [[Hn [He [_ ->]]]|[[Hn [He [_ ->]]]|[Hn [_ [b ->]]]]]; unfold ghost;
      repeat apply Any_emit; auto.
Qed.

(* ------------------------------------------------------------------ *)
(* read(2) on a connection *)

Section SysRead.
Variables (L : list Z) (P : list Z -> lstate -> Prop).
Hypothesis HP : pstable L P.

Definition RelRead (n : Z) (rest : list arg) (c : faultst) (s : lstate) : Prop :=
  ft_owed c = ((n =? 0) || ((n <? 0) && negb (is_eagain_arg rest))) /\ ft_exempt c = false /\
  RS L (ft_closed c) s /\ P (ft_closed c) s /\ ft_doomed c = [].

Lemma Inv_sys_read : forall fd cap w k w',
  Inv (Rel L false None P) w -> sys "read" [AInt fd; AInt cap] w = (k, w') ->
  (exists n rest, k = kres_of n rest /\ Inv (RelRead n rest) w') \/ (k = KNone /\ AnyInv w').
Proof.
  intros fd cap w k w' H Hs. unfold sys in Hs.
  pose (Rel1 := fun c s => Rel L false None P c s /\ ft_conn_call c = true).
  assert (H1 : Inv Rel1 (emit (obs "sys" [ASym "read"; AInt fd; AInt cap]) w)).
  { eapply Inv_emit; [exact H|reflexivity|].
    intros c _ Hc. eexists. split; [reflexivity|]. split; [exact Hc|reflexivity]. }
  assert (Hst1 : stable Rel1).
  { intros c s l s' [Hc Hf] Ha. split; [eapply Rel_stable; eauto|exact Hf]. }
  destruct (sysret_cases _ _ _ _ Hs) as [o [w1 [Hp Hc]]].
  pose proof (Inv_pull Rel1 Hst1 _ _ _ H1 Hp) as HPl.
  destruct Hc as [[-> [-> ->]]|[[l [what [-> [-> [-> _]]]]]|[n [rest [-> [-> ->]]]]]].
  - right. split; [reflexivity|exact HPl].
  - right. split; [reflexivity|]. eapply Inv_desync; eauto.
  - left. exists n, rest. split; [reflexivity|]. eapply Inv_weaken; [exact HPl|].
    intros c _ [c0 [Hs0 [[E1 [E2 [E3 [E4 E5]]]] Hf]]]. cbn in Hs0. rewrite Hf in Hs0.
    inversion Hs0; subst c; clear Hs0. unfold RelRead. cbn [ft_owed ft_exempt ft_closed ft_doomed].
    destruct E4 as [E4|[? [E _]]]; [|discriminate].
    split; [reflexivity|split; [exact E2|split; [exact E3|split; [exact E5|exact E4]]]].
Qed.

(* the failure marker after a fatal read *)
Lemma Inv_read_fail : forall cid n rest w,
  ((n =? 0) || ((n <? 0) && negb (is_eagain_arg rest))) = true ->
  Inv (RelRead n rest) w -> Inv (RelFail L false P cid) (ghost "fail" cid [] w).
Proof.
  intros cid n rest w Hf H. unfold ghost. eapply Inv_emit; [exact H|reflexivity|].
  intros c _ [E1 [E2 [E3 [E4 E5]]]]. rewrite Hf in E1.
  eexists. split; [cbn; rewrite E1; reflexivity|].
  unfold RelFail. cbn [ft_owed ft_exempt ft_closed ft_doomed]. rewrite E2, E5. auto.
Qed.

Lemma Inv_read_ok : forall n rest w,
  ((n =? 0) || ((n <? 0) && negb (is_eagain_arg rest))) = false ->
  Inv (RelRead n rest) w -> Inv (Rel L false None P) w.
Proof.
  intros n rest w Hf H. eapply Inv_weaken; [exact H|].
  intros c _ [E1 [E2 [E3 [E4 E5]]]]. rewrite Hf in E1.
  split; [exact E1|split; [exact E2|split; [exact E3|split; [left; exact E5|exact E4]]]].
Qed.

End SysRead.

(* a marked failure of a connection that is open: doomed unless already announced closed *)
Lemma RelFail_Rel : forall L P cid c s,
  RelFail L false P cid c s -> (RS L (ft_closed c) s -> P (ft_closed c) s -> c_opened (getc s cid) = true) ->
  Rel L false (Some cid) P c s.
Proof.
  intros L P cid c s [E1 [E2 [E3 [E4 E5]]]] Ho.
  split; [exact E1|split; [exact E2|split; [exact E3|split; [|exact E4]]]].
  cbn [orb] in E5. destruct (zmem cid (ft_closed c)) eqn:Ez; [left; exact E5|right].
  exists cid. repeat split; auto.
Qed.

Lemma RelFail_exempt : forall L P cid c s, RelFail L true P cid c s -> Rel L true None P c s.
Proof.
  intros L P cid c s [E1 [E2 [E3 [E4 E5]]]].
  split; [exact E1|split; [exact E2|split; [exact E3|split; [left; exact E5|exact E4]]]].
Qed.

Lemma RelFail_closed : forall L x P cid c s,
  RelFail L x P cid c s -> zmem cid (ft_closed c) = true -> Rel L x None P c s.
Proof.
  intros L x P cid c s [E1 [E2 [E3 [E4 E5]]]] Hz. rewrite Hz, Bool.orb_true_r in E5.
  split; [exact E1|split; [exact E2|split; [exact E3|split; [left; exact E5|exact E4]]]].
Qed.
