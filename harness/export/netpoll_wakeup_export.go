//go:build verif && linux

//verif:target pkg/netpoll/export_verif_wakeup.go

package netpoll

import "github.com/panjf2000/gnet/v2/pkg/queue"

// VerifWakeLayout exposes the shared words of the wake-up protocol of a
// poller (C03): the address of wakeupCall and the two task queues, so that the
// harness can classify the locations reported by the vatomic shim and read
// them at quiescent points.  Both poller variants have these fields.
func VerifWakeLayout(p *Poller) (flag *int32, urgent, low queue.AsyncTaskQueue, epfd int) {
	return &p.wakeupCall, p.urgentAsyncTaskQueue, p.asyncTaskQueue, p.fd
}

// VerifSetThreshold sets highPriorityEventsThreshold (OpenPoller initialises it
// to MaxPollEventsCap); the model is parametric in it.
func VerifSetThreshold(p *Poller, n int32) { p.highPriorityEventsThreshold = n }

// VerifThreshold reads it back.
func VerifThreshold(p *Poller) int32 { return p.highPriorityEventsThreshold }
