//go:build verif

//verif:target pkg/pool/byteslice/export_verif.go

package byteslice

// VerifIndex exposes the size-class function to the verification harness.
func VerifIndex(n uint32) uint32 { return index(n) }
