(* Consequences of `linearizable_log` (Spec/AtomicQueue.v) that hold for any
   history, independently of the implementation that produced it:
   the FIFO master equation  enqs = deqs ++ queue,  dequeued-at-most-once,
   never-invented, order preservation, and the bracket lemmas that locate the
   linearization event of an operation inside its call interval. *)
From GV Require Import Lib.Trace Spec.AtomicQueue Proofs.MSQueueBase.
From Coq Require Import Lia Arith.
Open Scope Z_scope.
Open Scope list_scope.

(* ---- replay ---- *)
Lemma replay_suffix : forall newer older q, replay (newer ++ older) = Some q -> exists q', replay older = Some q'.
Proof.
  induction newer as [|e newer IH]; intros older q H; cbn in H; [eauto|].
  destruct (replay (newer ++ older)) as [q0|] eqn:E; [|discriminate]. eapply IH; eauto.
Qed.

Lemma enqs_app : forall l1 l2, enqs (l1 ++ l2) = enqs l2 ++ enqs l1.
Proof.
  induction l1 as [|e l1 IH]; intro l2; cbn; [rewrite app_nil_r; reflexivity|].
  destruct e; rewrite IH; try reflexivity. rewrite app_assoc. reflexivity.
Qed.

Lemma deqs_app : forall l1 l2, deqs (l1 ++ l2) = deqs l2 ++ deqs l1.
Proof.
  induction l1 as [|e l1 IH]; intro l2; cbn; [rewrite app_nil_r; reflexivity|].
  destruct e; rewrite IH; try reflexivity. rewrite app_assoc. reflexivity.
Qed.

(* the FIFO master equation *)
Theorem replay_fifo : forall log q, replay log = Some q -> enqs log = deqs log ++ q.
Proof.
  induction log as [|e log IH]; intros q H; cbn in H.
  - injection H as <-. reflexivity.
  - destruct (replay log) as [q0|] eqn:E; [|discriminate]. specialize (IH q0 eq_refl).
    destruct e; cbn in H |- *; try (injection H as <-; exact IH).
    + injection H as <-. rewrite IH, app_assoc. reflexivity.
    + destruct q0 as [|it q0]; [discriminate|].
      destruct (item_eqb it (id, v)) eqn:B; [|discriminate]. injection H as <-.
      apply item_eqb_eq in B. subst it. rewrite IH, <- app_assoc. reflexivity.
    + destruct q0; [|discriminate]. injection H as <-. exact IH.
Qed.

Lemma replay_lindeq : forall t id v older q, replay (LinDeq t id v :: older) = Some q ->
  replay older = Some ((id, v) :: q).
Proof.
  intros t id v older q H. cbn in H. destruct (replay older) as [q0|]; [|discriminate].
  cbn in H. destruct q0 as [|it q0]; [discriminate|].
  destruct (item_eqb it (id, v)) eqn:B; [|discriminate]. injection H as <-.
  apply item_eqb_eq in B. subst it. reflexivity.
Qed.

Lemma replay_emptyat : forall t older q, replay (EmptyAt t :: older) = Some q -> replay older = Some [] /\ q = [].
Proof.
  intros t older q H. cbn in H. destruct (replay older) as [q0|]; [|discriminate].
  cbn in H. destruct q0; [|discriminate]. injection H as <-. auto.
Qed.

Lemma in_enqs : forall log id v, In (id, v) (enqs log) -> exists t, In (LinEnq t id v) log.
Proof.
  induction log as [|e log IH]; intros id v H; cbn in H; [destruct H|].
  destruct e; try (destruct (IH _ _ H) as [t' H']; exists t'; right; exact H').
  apply in_app_or in H. destruct H as [H|[H|[]]].
  - destruct (IH _ _ H) as [t' H']. exists t'. right. exact H'.
  - injection H as <- <-. exists t. left. reflexivity.
Qed.

Lemma in_deqs : forall log id v, In (id, v) (deqs log) -> exists t, In (LinDeq t id v) log.
Proof.
  induction log as [|e log IH]; intros id v H; cbn in H; [destruct H|].
  destruct e; try (destruct (IH _ _ H) as [t' H']; exists t'; right; exact H').
  apply in_app_or in H. destruct H as [H|[H|[]]].
  - destruct (IH _ _ H) as [t' H']. exists t'. right. exact H'.
  - injection H as <- <-. exists t. left. reflexivity.
Qed.

Lemma lindeq_in_deqs : forall log t id v, In (LinDeq t id v) log -> In (id, v) (deqs log).
Proof.
  induction log as [|e log IH]; intros t id v H; [destruct H|].
  destruct H as [H|H].
  - subst e. cbn. apply in_or_app. right. left. reflexivity.
  - specialize (IH _ _ _ H). destruct e; cbn; auto. apply in_or_app. left. exact IH.
Qed.

Lemma linenq_in_enqs : forall log t id v, In (LinEnq t id v) log -> In (id, v) (enqs log).
Proof.
  induction log as [|e log IH]; intros t id v H; [destruct H|].
  destruct H as [H|H].
  - subst e. cbn. apply in_or_app. right. left. reflexivity.
  - specialize (IH _ _ _ H). destruct e; cbn; auto. apply in_or_app. left. exact IH.
Qed.

Lemma nodup_app_l : forall (A : Type) (l l' : list A), NoDup (l ++ l') -> NoDup l.
Proof.
  induction l as [|x l IH]; intros l' H; [constructor|].
  cbn in H. apply NoDup_cons_iff in H. destruct H as [Hx N]. constructor.
  - intro Hin. apply Hx. apply in_or_app. left. exact Hin.
  - eapply IH; eauto.
Qed.

Lemma nodup_app_disjoint : forall (A : Type) (l l' : list A) a, NoDup (l ++ l') -> In a l -> ~ In a l'.
Proof.
  induction l as [|x l IH]; intros l' a N H Hq; [destruct H|].
  cbn in N. apply NoDup_cons_iff in N. destruct N as [Hx N]. destruct H as [->|H].
  - apply Hx. apply in_or_app. right. exact Hq.
  - eapply IH; eauto.
Qed.

(* dequeued at most once / never invented, at the level of items *)
Theorem deqs_nodup : forall log q, replay log = Some q -> NoDup (map fst (enqs log)) ->
  NoDup (map fst (deqs log)) /\ (forall it, In it (deqs log) -> In it (enqs log)) /\
  (forall it, In it (deqs log) -> ~ In (fst it) (map fst q)).
Proof.
  intros log q R N. pose proof (replay_fifo _ _ R) as F. rewrite F, map_app in N. splits.
  - eapply nodup_app_l; eauto.
  - intros it H. rewrite F. apply in_or_app. left. exact H.
  - intros it H Hq. apply (in_map fst) in H. eapply nodup_app_disjoint; eauto.
Qed.

(* order: deqs is a prefix of enqs *)
Lemma prefix_order : forall (A : Type) (pre d q l3 : list A) b,
  NoDup (d ++ q) -> d ++ q = pre ++ b :: l3 -> In b d -> exists l3', d = pre ++ b :: l3'.
Proof.
  intros A pre; induction pre as [|x pre IH]; intros d q l3 b N E Hin.
  - destruct d as [|y d]; [destruct Hin|]. cbn in E. injection E as -> _. exists d. reflexivity.
  - destruct d as [|y d]; [destruct Hin|]. cbn in E. injection E as -> E.
    cbn in N. apply NoDup_cons_iff in N. destruct N as [Hx N'].
    destruct Hin as [->|Hin].
    + exfalso. apply Hx. rewrite E. apply in_or_app. right. left. reflexivity.
    + destruct (IH d q l3 b N' E Hin) as [l3' ->]. exists l3'. reflexivity.
Qed.

Lemma deqs_split : forall log X it W, deqs log = X ++ it :: W ->
  exists n1 n2 t, log = n1 ++ LinDeq t (fst it) (snd it) :: n2 /\ deqs n2 = X /\ deqs n1 = W.
Proof.
  induction log as [|e log IH]; intros X it W H; cbn in H.
  - destruct X; discriminate.
  - assert (Hskip : (forall t id v, e <> LinDeq t id v) -> deqs log = X ++ it :: W ->
                    exists n1 n2 t, e :: log = n1 ++ LinDeq t (fst it) (snd it) :: n2 /\ deqs n2 = X /\ deqs n1 = W).
    { intros Hne H'. destruct (IH _ _ _ H') as [n1 [n2 [t [-> [A B]]]]]. exists (e :: n1), n2, t. splits; auto.
      destruct e; cbn; auto. exfalso. eapply Hne; reflexivity. }
    destruct e; try (apply Hskip; [intros; discriminate|exact H]).
    destruct W as [|w0 W0].
    + apply app_inj_tail in H. destruct H as [H1 H2]. subst it.
      exists [], log, t. cbn. splits; auto.
    + destruct (@exists_last _ (w0 :: W0)) as [W' [w EW]]; [discriminate|]. rewrite EW in *.
      rewrite app_comm_cons, app_assoc in H. apply app_inj_tail in H. destruct H as [H1 H2].
      destruct (IH _ _ _ H1) as [n1 [n2 [t' [-> [A B]]]]].
      exists (LinDeq t id v :: n1), n2, t'. splits; auto. cbn. rewrite B, H2. reflexivity.
Qed.

Lemma app_unique : forall (A : Type) (l1 l2 l1' l2' : list A) b,
  NoDup (l1 ++ b :: l2) -> l1 ++ b :: l2 = l1' ++ b :: l2' -> l1 = l1'.
Proof.
  intros A l1; induction l1 as [|x l1 IH]; intros l2 l1' l2' b N E; destruct l1' as [|y l1']; cbn in *.
  - reflexivity.
  - injection E as <- E. apply NoDup_cons_iff in N. destruct N as [Hx _]. exfalso. apply Hx.
    rewrite E. apply in_or_app. right. left. reflexivity.
  - injection E as -> E. apply NoDup_cons_iff in N. destruct N as [Hx _]. exfalso. apply Hx.
    apply in_or_app. right. left. reflexivity.
  - injection E as -> E. apply NoDup_cons_iff in N. destruct N as [_ N]. f_equal. eapply IH; eauto.
Qed.

Lemma call_ids_app : forall l1 l2, call_ids (l1 ++ l2) = call_ids l2 ++ call_ids l1.
Proof.
  induction l1 as [|e l1 IH]; intro l2; cbn; [rewrite app_nil_r; reflexivity|].
  destruct e; rewrite IH; try reflexivity. rewrite app_assoc. reflexivity.
Qed.

(* ---- the bracket automaton ---- *)
Lemma is_boundary_tid : forall t e, is_boundary t e = true -> ev_tid e = t.
Proof. intros t e H. destruct e; cbn in *; try discriminate; apply Nat.eqb_eq in H; exact H. Qed.

Lemma not_boundary_other : forall t e, ev_tid e <> t -> is_boundary t e = false.
Proof.
  intros t e H. destruct (is_boundary t e) eqn:B; [|reflexivity].
  apply is_boundary_tid in B. contradiction.
Qed.

Lemma tphase_suffix_ok : forall t newer older, tphase t (newer ++ older) <> PBad -> tphase t older <> PBad.
Proof.
  induction newer as [|e newer IH]; intros older H; cbn in H; [exact H|].
  apply IH. destruct (Nat.eqb (ev_tid e) t); [|exact H].
  intro B. rewrite B, phase_step_bad in H. apply H. reflexivity.
Qed.

Lemma phase_ret_some : forall ph t v, phase_step ph (RetDeq t (Some v)) <> PBad -> ph = PDeqTaken v.
Proof.
  intros ph t v H. destruct ph; cbn in H; try (exfalso; apply H; reflexivity).
  - destruct seen_empty; exfalso; apply H; reflexivity.
  - destruct (Z.eqb v0 v) eqn:E; [|exfalso; apply H; reflexivity]. apply Z.eqb_eq in E. congruence.
Qed.

Lemma phase_ret_none : forall ph t, phase_step ph (RetDeq t None) <> PBad -> ph = PDeqCalled true.
Proof.
  intros ph t H. destruct ph; cbn in H; try (exfalso; apply H; reflexivity).
  destruct seen_empty; [reflexivity|exfalso; apply H; reflexivity].
Qed.

Lemma phase_call_enq : forall ph t id v, phase_step ph (CallEnq t id v) <> PBad -> ph = PIdle.
Proof.
  intros ph t id v H. destruct ph; cbn in H; try reflexivity; try (exfalso; apply H; reflexivity).
  destruct seen_empty; exfalso; apply H; reflexivity.
Qed.

Lemma phase_lin_enq : forall ph t id v, phase_step ph (LinEnq t id v) <> PBad -> ph = PEnqCalled id v.
Proof.
  intros ph t id v H. destruct ph; cbn in H; try (exfalso; apply H; reflexivity).
  - destruct (Nat.eqb id0 id && Z.eqb v0 v)%bool eqn:E; [|exfalso; apply H; reflexivity].
    apply andb_prop in E. destruct E as [E1 E2]. apply Nat.eqb_eq in E1. apply Z.eqb_eq in E2. congruence.
  - destruct seen_empty; exfalso; apply H; reflexivity.
Qed.

Lemma tphase_taken : forall t log v, tphase t log = PDeqTaken v ->
  exists l1 id l2, log = l1 ++ LinDeq t id v :: l2 /\ (forall e, In e l1 -> is_boundary t e = false) /\
                   exists b, tphase t l2 = PDeqCalled b.
Proof.
  intros t log; induction log as [|e log IH]; intros v H; cbn in H; [discriminate|].
  destruct (Nat.eqb (ev_tid e) t) eqn:E.
  - apply Nat.eqb_eq in E.
    destruct (tphase t log) eqn:P, e; cbn in H; try discriminate;
      try (destruct seen_empty; discriminate).
    + destruct (Nat.eqb id id0 && Z.eqb v0 v1)%bool; discriminate.
    + cbn in E. subst t0. exists [], id, log. splits; auto.
      * destruct seen_empty; cbn in H; injection H as <-; reflexivity.
      * intros e [].
      * eauto.
    + destruct seen_empty; [destruct r|]; discriminate.
    + destruct r; [destruct (Z.eqb v0 z)|]; discriminate.
  - destruct (IH v H) as [l1 [id [l2 [-> [A B]]]]]. exists (e :: l1), id, l2. splits; auto.
    intros e' [<-|Hin]; [|apply A; exact Hin].
    apply not_boundary_other. apply Nat.eqb_neq. exact E.
Qed.

Lemma tphase_seen_empty : forall t log, tphase t log = PDeqCalled true ->
  exists l1 l2, log = l1 ++ EmptyAt t :: l2 /\ (forall e, In e l1 -> is_boundary t e = false) /\
                exists b, tphase t l2 = PDeqCalled b.
Proof.
  intros t log; induction log as [|e log IH]; intros H; cbn in H; [discriminate|].
  destruct (Nat.eqb (ev_tid e) t) eqn:E.
  - apply Nat.eqb_eq in E.
    destruct (tphase t log) eqn:P, e; cbn in H; try discriminate;
      try (destruct seen_empty; discriminate).
    + destruct (Nat.eqb id id0 && Z.eqb v v0)%bool; discriminate.
    + cbn in E. subst t0. exists [], log. splits; auto.
      * intros e [].
      * eauto.
    + destruct seen_empty; [destruct r|]; discriminate.
    + destruct r; [destruct (Z.eqb v z)|]; discriminate.
  - destruct (IH H) as [l1 [l2 [-> [A B]]]]. exists (e :: l1), l2. splits; auto.
    intros e' [<-|Hin]; [|apply A; exact Hin].
    apply not_boundary_other. apply Nat.eqb_neq. exact E.
Qed.

Lemma phase_eq_dec : forall a b : phase, {a = b} + {a <> b}.
Proof. decide equality; try apply Z.eq_dec; try apply Nat.eq_dec; try apply Bool.bool_dec. Qed.

Lemma enq_linked_between : forall t a va l3 l4,
  tphase t (l4 ++ CallEnq t a va :: l3) <> PEnqCalled a va ->
  tphase t (l4 ++ CallEnq t a va :: l3) <> PBad ->
  In (LinEnq t a va) l4.
Proof.
  intros t a va l3; induction l4 as [|e l4 IH]; intros H1 H2.
  - exfalso. cbn in H1, H2. rewrite Nat.eqb_refl in H1, H2.
    destruct (tphase t l3); cbn in H1, H2; try (apply H2; reflexivity).
    + apply H1; reflexivity.
    + destruct seen_empty; apply H2; reflexivity.
  - cbn in H1, H2. destruct (Nat.eqb (ev_tid e) t) eqn:E.
    + apply Nat.eqb_eq in E.
      destruct (phase_eq_dec (tphase t (l4 ++ CallEnq t a va :: l3)) (PEnqCalled a va)) as [P|P].
      * rewrite P in H1, H2. left.
        destruct e; cbn in H1, H2; try (exfalso; apply H2; reflexivity).
        destruct (Nat.eqb a id && Z.eqb va v)%bool eqn:B; [|exfalso; apply H2; reflexivity].
        apply andb_prop in B. destruct B as [B1 B2]. apply Nat.eqb_eq in B1. apply Z.eqb_eq in B2.
        cbn in E. subst. reflexivity.
      * right. apply IH; auto. intro B. rewrite B, phase_step_bad in H2. apply H2. reflexivity.
    + right. apply IH; auto.
Qed.

(* ---- consequences of linearizable_log, stated on the history itself ---- *)

(* A Dequeue that returns v: inside the call (no invocation/response of t in
   between) lies its linearization event, removing an item (id, v); before
   that lies the linearization event of the Enqueue that inserted (id, v), and
   before that the invocation Enqueue(v) of that very operation. *)
Theorem log_never_invented : forall log newer t v older,
  linearizable_log log -> log = newer ++ RetDeq t (Some v) :: older ->
  exists id t' l1 l2 l3 l4,
    older = l1 ++ LinDeq t id v :: l2 ++ LinEnq t' id v :: l3 ++ CallEnq t' id v :: l4 /\
    (forall e, In e l1 -> is_boundary t e = false).
Proof.
  intros log newer t v older [[q R] P] ->.
  pose proof (tphase_suffix_ok _ _ _ (P t)) as P1. cbn in P1. rewrite Nat.eqb_refl in P1.
  apply phase_ret_some in P1.
  destruct (tphase_taken _ _ _ P1) as [l1 [id [rest [-> [NB _]]]]].
  destruct (replay_suffix _ _ _ R) as [q1 R1].
  change (RetDeq t (Some v) :: l1 ++ LinDeq t id v :: rest)
    with ((RetDeq t (Some v) :: l1) ++ LinDeq t id v :: rest) in R1.
  destruct (replay_suffix _ _ _ R1) as [q3 R3].
  apply replay_lindeq in R3. pose proof (replay_fifo _ _ R3) as F.
  assert (Hin : In (id, v) (enqs rest)). { rewrite F. apply in_or_app. right. left. reflexivity. }
  destruct (in_enqs _ _ _ Hin) as [t' Hl]. apply in_split in Hl. destruct Hl as [l2 [r2 ->]].
  assert (P2 : tphase t' (LinEnq t' id v :: r2) <> PBad).
  { specialize (P t').
    apply (tphase_suffix_ok t' newer) in P.
    apply (tphase_suffix_ok t' [RetDeq t (Some v)]) in P.
    apply (tphase_suffix_ok t' l1) in P.
    apply (tphase_suffix_ok t' [LinDeq t id v]) in P.
    apply (tphase_suffix_ok t' l2) in P. exact P. }
  cbn in P2. rewrite Nat.eqb_refl in P2. apply phase_lin_enq in P2.
  apply tphase_called_in in P2. apply in_split in P2. destruct P2 as [l3 [l4 ->]].
  exists id, t', l1, l2, l3, l4. split; [reflexivity|exact NB].
Qed.

(* A Dequeue that reports "empty": inside the call there is an instant at
   which the thread observed the queue and the abstract queue was empty. *)
Theorem log_empty : forall log newer t older,
  linearizable_log log -> log = newer ++ RetDeq t None :: older ->
  exists l1 l2, older = l1 ++ EmptyAt t :: l2 /\
    (forall e, In e l1 -> is_boundary t e = false) /\
    (exists b, tphase t l2 = PDeqCalled b) /\
    replay l2 = Some [].
Proof.
  intros log newer t older [[q R] P] ->.
  pose proof (tphase_suffix_ok _ _ _ (P t)) as P1. cbn in P1. rewrite Nat.eqb_refl in P1.
  apply phase_ret_none in P1.
  destruct (tphase_seen_empty _ _ P1) as [l1 [l2 [-> [NB PB]]]].
  exists l1, l2. splits; auto.
  destruct (replay_suffix _ _ _ R) as [q1 R1].
  change (RetDeq t None :: l1 ++ EmptyAt t :: l2) with ((RetDeq t None :: l1) ++ EmptyAt t :: l2) in R1.
  destruct (replay_suffix _ _ _ R1) as [q2 R2]. apply replay_emptyat in R2. tauto.
Qed.

(* An Enqueue of a thread that is idle again (or in a later call) has been linearized. *)
Theorem log_enq_linked : forall log l4 t a va l3,
  (forall t, tphase t log <> PBad) -> log = l4 ++ CallEnq t a va :: l3 ->
  tphase t log <> PEnqCalled a va -> In (LinEnq t a va) l4.
Proof. intros log l4 t a va l3 P -> H. eapply enq_linked_between; eauto. Qed.

(* Per-producer FIFO: if one thread called Enqueue(a) before Enqueue(b) and b
   has been dequeued, then a was dequeued before b. *)
Theorem log_producer_fifo : forall log t a va b vb l3 l4 l5 n1 n2 tb wb,
  linearizable_log log -> NoDup (call_ids log) -> NoDup (map fst (enqs log)) ->
  log = l5 ++ CallEnq t b vb :: l4 ++ CallEnq t a va :: l3 ->
  log = n1 ++ LinDeq tb b wb :: n2 ->
  exists ta n3 n4, n2 = n3 ++ LinDeq ta a va :: n4.
Proof.
  intros log t a va b vb l3 l4 l5 n1 n2 tb wb [[q R] P] NC NE E1 E2.
  (* 1. a was linked between the two invocations *)
  assert (La : In (LinEnq t a va) l4).
  { pose proof (P t) as Pt. rewrite E1 in Pt. apply tphase_suffix_ok in Pt.
    assert (Pidle : tphase t (l4 ++ CallEnq t a va :: l3) = PIdle).
    { cbn in Pt. rewrite Nat.eqb_refl in Pt. eapply phase_call_enq; eauto. }
    eapply enq_linked_between; rewrite Pidle; discriminate. }
  (* 2. b was linked after its invocation *)
  assert (Db : In (b, wb) (deqs log)). { rewrite E2. eapply lindeq_in_deqs. apply in_or_app. right. left. reflexivity. }
  pose proof (replay_fifo _ _ R) as F.
  assert (Eb : In (b, wb) (enqs log)). { rewrite F. apply in_or_app. left. exact Db. }
  set (olderb := l4 ++ CallEnq t a va :: l3) in *.
  assert (Eb5 : In (b, wb) (enqs l5)).
  { rewrite E1 in Eb. rewrite enqs_app in Eb. cbn [enqs] in Eb. apply in_app_or in Eb. destruct Eb as [Eb|Eb]; [|exact Eb].
    exfalso. destruct (in_enqs _ _ _ Eb) as [t'' Hl]. apply in_split in Hl. destruct Hl as [p1 [p2 Ep]].
    assert (P2 : tphase t'' (LinEnq t'' b wb :: p2) <> PBad).
    { specialize (P t''). rewrite E1 in P. apply (tphase_suffix_ok t'' l5) in P.
      apply (tphase_suffix_ok t'' [CallEnq t b vb]) in P. rewrite Ep in P.
      apply (tphase_suffix_ok t'' p1) in P. exact P. }
    cbn in P2. rewrite Nat.eqb_refl in P2. apply phase_lin_enq in P2. apply tphase_called_in in P2.
    assert (In b (call_ids olderb)).
    { rewrite Ep. rewrite call_ids_app. apply in_or_app. left. cbn [call_ids]. eapply in_call_ids; eauto. }
    rewrite E1, call_ids_app in NC. cbn [call_ids] in NC.
    rewrite <- app_assoc in NC. apply NoDup_remove_2 in NC. apply NC. apply in_or_app. left. exact H. }
  (* 3. a precedes b in enqs, hence in deqs *)
  assert (Ea4 : In (a, va) (enqs l4)) by (eapply linenq_in_enqs; eauto).
  apply in_split in Ea4. destruct Ea4 as [e1 [e2 Ee4]].
  apply in_split in Eb5. destruct Eb5 as [f1 [f2 Ef5]].
  assert (EN : enqs log = (enqs l3 ++ e1 ++ (a, va) :: e2 ++ f1) ++ (b, wb) :: f2).
  { rewrite E1, enqs_app. cbn [enqs]. unfold olderb. rewrite enqs_app. cbn [enqs]. rewrite Ee4, Ef5.
    repeat rewrite <- app_assoc. cbn. repeat rewrite <- app_assoc. reflexivity. }
  assert (NEi : NoDup (deqs log ++ q)). { rewrite <- F. eapply NoDup_map_inv; eauto. }
  destruct (prefix_order _ _ _ _ _ _ NEi (eq_trans (eq_sym F) EN) Db) as [l3' ED].
  (* 4. locate b in deqs through its position in the log *)
  assert (ED2 : deqs log = deqs n2 ++ (b, wb) :: deqs n1).
  { rewrite E2, deqs_app. cbn [deqs]. rewrite <- app_assoc. reflexivity. }
  assert (ND : NoDup (deqs log)) by (eapply nodup_app_l; eauto).
  assert (deqs n2 = enqs l3 ++ e1 ++ (a, va) :: e2 ++ f1).
  { apply (app_unique _ (deqs n2) (deqs n1) _ l3' (b, wb)).
    - pose proof ND as ND'. rewrite ED2 in ND'. exact ND'.
    - exact (eq_trans (eq_sym ED2) ED). }
  assert (Da : In (a, va) (deqs n2)).
  { rewrite H. apply in_or_app. right. apply in_or_app. right. left. reflexivity. }
  destruct (in_deqs _ _ _ Da) as [ta Hl]. apply in_split in Hl. destruct Hl as [n3 [n4 ->]]. eauto.
Qed.

(* Drained: when the abstract queue is empty, exactly the linked items have been dequeued, in order. *)
Theorem log_drained : forall log, replay log = Some [] -> deqs log = enqs log.
Proof. intros log R. pose proof (replay_fifo _ _ R) as F. rewrite app_nil_r in F. auto. Qed.
