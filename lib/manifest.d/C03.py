CHECK = dict(
    engine="wakeup", design_ref="4 / C03, Appendix A.5",
    text="Full proof on an interleaving model of Trigger/Polling (pkg/netpoll epoll pollers) over the atomic-queue "
         "specification justified by C13 (enqueue = link; count, dequeue = unlink; decount | empty), any number of "
         "producers, requests, re-entrant Trigger calls from tasks and I/O callbacks, any batch limit and threshold: "
         "wake_inv (K, I0, I1, G_W, G_chkU of Appendix A.5) in every reachable state; no_lost_wakeup (quiescent => both "
         "queues empty); exactly_once (never executed twice, callback exactly with the execution, every accepted "
         "request executed at quiescence); urgent_fifo_per_producer; wake_one_traffic; quiescence_or_progress. Tied to "
         "the current source of both poller variants (default, poll_opt) by step-by-step correspondence of the real "
         "Trigger/Polling/lock-free queue under a cooperative scheduler (sync/atomic and the eventfd/epoll system calls "
         "routed through shims) with the extracted model under random, PCT and bounded-preemption schedules, plus a "
         "direct exactly-once oracle on managed schedules and on unmanaged stress runs with real goroutines.",
    note="Assumes sequentially consistent sync/atomic; the queues behave as their C13 specification; eventfd/epoll edge "
         "semantics as written in the model and probed on this kernel (every write raises a fresh EPOLLET edge even if the "
         "counter is non-zero, a reported edge is reported once, a pending edge with counter 0 is not reported, write "
         "fails only with EAGAIN while the poller is open: a different error poisons the poller, see C03_ex_write_fault); "
         "int32 length counters stay in range; the engine keeps running (requests still queued when the loop exits on "
         "shutdown are dropped: outside the property); scheduler/kernel fairness is assumed for 'eventually', the theorem "
         "is quiescence-or-progress. The vatomic/vsched/vunix/vsys shims, the import swaps and the driver's "
         "classification of queue-internal atomic operations are trusted.",
    technique="Coq proof (inductive invariant on an abstract view of a labelled transition system, one abstract step per "
              "program point; ghost request logs with a FIFO master equation) + differential schedule traces of both "
              "poller variants + exactly-once oracle (managed and real-goroutine stress)",
)
ENGINE = dict(name="wakeup", path="coq/Model/Wakeup.v", serves_properties=["C03"],
              kind_free_text="Gallina interleaving model of Trigger/Polling of pkg/netpoll/poller_epoll_{default,ultimate}.go "
                             "over the atomic-queue spec (Lib/Interleave.v); drv-wakeup with vatomic/vsched/vunix/vsys shims, "
                             "two build variants")
