//go:build verif

//verif:target pkg/vatomic/vatomic.go

// Package vatomic has the function and type names of sync/atomic.  A source
// file whose import of "sync/atomic" is swapped (in a scratch copy, through
// the build overlay) for
//
//	atomic "github.com/panjf2000/gnet/v2/pkg/vatomic"
//
// performs every atomic operation as a scheduling point of pkg/vsched when the
// calling goroutine is managed, and exactly as sync/atomic otherwise.
// Purely mechanical: one wrapper of the same shape per sync/atomic function.
package vatomic

import (
	"sync/atomic"
	"unsafe"

	"github.com/panjf2000/gnet/v2/pkg/vsched"
)

func LoadInt32(addr *int32) (val int32) {
	g := vsched.Current()
	if g == nil {
		return atomic.LoadInt32(addr)
	}
	g.Enter()
	val = atomic.LoadInt32(addr)
	g.Exit(vsched.Event{Op: "ld", Typ: "i32", Addr: unsafe.Pointer(addr), Val: int64(val)})
	return
}

func StoreInt32(addr *int32, val int32) {
	g := vsched.Current()
	if g == nil {
		atomic.StoreInt32(addr, val)
		return
	}
	g.Enter()
	atomic.StoreInt32(addr, val)
	g.Exit(vsched.Event{Op: "st", Typ: "i32", Addr: unsafe.Pointer(addr), New: int64(val)})
}

func AddInt32(addr *int32, delta int32) (new int32) {
	g := vsched.Current()
	if g == nil {
		return atomic.AddInt32(addr, delta)
	}
	g.Enter()
	new = atomic.AddInt32(addr, delta)
	g.Exit(vsched.Event{Op: "add", Typ: "i32", Addr: unsafe.Pointer(addr), New: int64(delta), Val: int64(new)})
	return
}

func SwapInt32(addr *int32, new int32) (old int32) {
	g := vsched.Current()
	if g == nil {
		return atomic.SwapInt32(addr, new)
	}
	g.Enter()
	old = atomic.SwapInt32(addr, new)
	g.Exit(vsched.Event{Op: "swap", Typ: "i32", Addr: unsafe.Pointer(addr), New: int64(new), Val: int64(old)})
	return
}

func CompareAndSwapInt32(addr *int32, old, new int32) (swapped bool) {
	g := vsched.Current()
	if g == nil {
		return atomic.CompareAndSwapInt32(addr, old, new)
	}
	g.Enter()
	swapped = atomic.CompareAndSwapInt32(addr, old, new)
	g.Exit(vsched.Event{Op: "cas", Typ: "i32", Addr: unsafe.Pointer(addr), Old: int64(old), New: int64(new), Ok: swapped})
	return
}

func LoadInt64(addr *int64) (val int64) {
	g := vsched.Current()
	if g == nil {
		return atomic.LoadInt64(addr)
	}
	g.Enter()
	val = atomic.LoadInt64(addr)
	g.Exit(vsched.Event{Op: "ld", Typ: "i64", Addr: unsafe.Pointer(addr), Val: int64(val)})
	return
}

func StoreInt64(addr *int64, val int64) {
	g := vsched.Current()
	if g == nil {
		atomic.StoreInt64(addr, val)
		return
	}
	g.Enter()
	atomic.StoreInt64(addr, val)
	g.Exit(vsched.Event{Op: "st", Typ: "i64", Addr: unsafe.Pointer(addr), New: int64(val)})
}

func AddInt64(addr *int64, delta int64) (new int64) {
	g := vsched.Current()
	if g == nil {
		return atomic.AddInt64(addr, delta)
	}
	g.Enter()
	new = atomic.AddInt64(addr, delta)
	g.Exit(vsched.Event{Op: "add", Typ: "i64", Addr: unsafe.Pointer(addr), New: int64(delta), Val: int64(new)})
	return
}

func SwapInt64(addr *int64, new int64) (old int64) {
	g := vsched.Current()
	if g == nil {
		return atomic.SwapInt64(addr, new)
	}
	g.Enter()
	old = atomic.SwapInt64(addr, new)
	g.Exit(vsched.Event{Op: "swap", Typ: "i64", Addr: unsafe.Pointer(addr), New: int64(new), Val: int64(old)})
	return
}

func CompareAndSwapInt64(addr *int64, old, new int64) (swapped bool) {
	g := vsched.Current()
	if g == nil {
		return atomic.CompareAndSwapInt64(addr, old, new)
	}
	g.Enter()
	swapped = atomic.CompareAndSwapInt64(addr, old, new)
	g.Exit(vsched.Event{Op: "cas", Typ: "i64", Addr: unsafe.Pointer(addr), Old: int64(old), New: int64(new), Ok: swapped})
	return
}

func LoadUint32(addr *uint32) (val uint32) {
	g := vsched.Current()
	if g == nil {
		return atomic.LoadUint32(addr)
	}
	g.Enter()
	val = atomic.LoadUint32(addr)
	g.Exit(vsched.Event{Op: "ld", Typ: "u32", Addr: unsafe.Pointer(addr), Val: int64(val)})
	return
}

func StoreUint32(addr *uint32, val uint32) {
	g := vsched.Current()
	if g == nil {
		atomic.StoreUint32(addr, val)
		return
	}
	g.Enter()
	atomic.StoreUint32(addr, val)
	g.Exit(vsched.Event{Op: "st", Typ: "u32", Addr: unsafe.Pointer(addr), New: int64(val)})
}

func AddUint32(addr *uint32, delta uint32) (new uint32) {
	g := vsched.Current()
	if g == nil {
		return atomic.AddUint32(addr, delta)
	}
	g.Enter()
	new = atomic.AddUint32(addr, delta)
	g.Exit(vsched.Event{Op: "add", Typ: "u32", Addr: unsafe.Pointer(addr), New: int64(delta), Val: int64(new)})
	return
}

func SwapUint32(addr *uint32, new uint32) (old uint32) {
	g := vsched.Current()
	if g == nil {
		return atomic.SwapUint32(addr, new)
	}
	g.Enter()
	old = atomic.SwapUint32(addr, new)
	g.Exit(vsched.Event{Op: "swap", Typ: "u32", Addr: unsafe.Pointer(addr), New: int64(new), Val: int64(old)})
	return
}

func CompareAndSwapUint32(addr *uint32, old, new uint32) (swapped bool) {
	g := vsched.Current()
	if g == nil {
		return atomic.CompareAndSwapUint32(addr, old, new)
	}
	g.Enter()
	swapped = atomic.CompareAndSwapUint32(addr, old, new)
	g.Exit(vsched.Event{Op: "cas", Typ: "u32", Addr: unsafe.Pointer(addr), Old: int64(old), New: int64(new), Ok: swapped})
	return
}

func LoadUint64(addr *uint64) (val uint64) {
	g := vsched.Current()
	if g == nil {
		return atomic.LoadUint64(addr)
	}
	g.Enter()
	val = atomic.LoadUint64(addr)
	g.Exit(vsched.Event{Op: "ld", Typ: "u64", Addr: unsafe.Pointer(addr), Val: int64(val)})
	return
}

func StoreUint64(addr *uint64, val uint64) {
	g := vsched.Current()
	if g == nil {
		atomic.StoreUint64(addr, val)
		return
	}
	g.Enter()
	atomic.StoreUint64(addr, val)
	g.Exit(vsched.Event{Op: "st", Typ: "u64", Addr: unsafe.Pointer(addr), New: int64(val)})
}

func AddUint64(addr *uint64, delta uint64) (new uint64) {
	g := vsched.Current()
	if g == nil {
		return atomic.AddUint64(addr, delta)
	}
	g.Enter()
	new = atomic.AddUint64(addr, delta)
	g.Exit(vsched.Event{Op: "add", Typ: "u64", Addr: unsafe.Pointer(addr), New: int64(delta), Val: int64(new)})
	return
}

func SwapUint64(addr *uint64, new uint64) (old uint64) {
	g := vsched.Current()
	if g == nil {
		return atomic.SwapUint64(addr, new)
	}
	g.Enter()
	old = atomic.SwapUint64(addr, new)
	g.Exit(vsched.Event{Op: "swap", Typ: "u64", Addr: unsafe.Pointer(addr), New: int64(new), Val: int64(old)})
	return
}

func CompareAndSwapUint64(addr *uint64, old, new uint64) (swapped bool) {
	g := vsched.Current()
	if g == nil {
		return atomic.CompareAndSwapUint64(addr, old, new)
	}
	g.Enter()
	swapped = atomic.CompareAndSwapUint64(addr, old, new)
	g.Exit(vsched.Event{Op: "cas", Typ: "u64", Addr: unsafe.Pointer(addr), Old: int64(old), New: int64(new), Ok: swapped})
	return
}

func LoadUintptr(addr *uintptr) (val uintptr) {
	g := vsched.Current()
	if g == nil {
		return atomic.LoadUintptr(addr)
	}
	g.Enter()
	val = atomic.LoadUintptr(addr)
	g.Exit(vsched.Event{Op: "ld", Typ: "uptr", Addr: unsafe.Pointer(addr), Val: int64(val)})
	return
}

func StoreUintptr(addr *uintptr, val uintptr) {
	g := vsched.Current()
	if g == nil {
		atomic.StoreUintptr(addr, val)
		return
	}
	g.Enter()
	atomic.StoreUintptr(addr, val)
	g.Exit(vsched.Event{Op: "st", Typ: "uptr", Addr: unsafe.Pointer(addr), New: int64(val)})
}

func AddUintptr(addr *uintptr, delta uintptr) (new uintptr) {
	g := vsched.Current()
	if g == nil {
		return atomic.AddUintptr(addr, delta)
	}
	g.Enter()
	new = atomic.AddUintptr(addr, delta)
	g.Exit(vsched.Event{Op: "add", Typ: "uptr", Addr: unsafe.Pointer(addr), New: int64(delta), Val: int64(new)})
	return
}

func SwapUintptr(addr *uintptr, new uintptr) (old uintptr) {
	g := vsched.Current()
	if g == nil {
		return atomic.SwapUintptr(addr, new)
	}
	g.Enter()
	old = atomic.SwapUintptr(addr, new)
	g.Exit(vsched.Event{Op: "swap", Typ: "uptr", Addr: unsafe.Pointer(addr), New: int64(new), Val: int64(old)})
	return
}

func CompareAndSwapUintptr(addr *uintptr, old, new uintptr) (swapped bool) {
	g := vsched.Current()
	if g == nil {
		return atomic.CompareAndSwapUintptr(addr, old, new)
	}
	g.Enter()
	swapped = atomic.CompareAndSwapUintptr(addr, old, new)
	g.Exit(vsched.Event{Op: "cas", Typ: "uptr", Addr: unsafe.Pointer(addr), Old: int64(old), New: int64(new), Ok: swapped})
	return
}

func LoadPointer(addr *unsafe.Pointer) (val unsafe.Pointer) {
	g := vsched.Current()
	if g == nil {
		return atomic.LoadPointer(addr)
	}
	g.Enter()
	val = atomic.LoadPointer(addr)
	g.Exit(vsched.Event{Op: "ld", Typ: "ptr", Addr: unsafe.Pointer(addr), ValP: val})
	return
}

func StorePointer(addr *unsafe.Pointer, val unsafe.Pointer) {
	g := vsched.Current()
	if g == nil {
		atomic.StorePointer(addr, val)
		return
	}
	g.Enter()
	atomic.StorePointer(addr, val)
	g.Exit(vsched.Event{Op: "st", Typ: "ptr", Addr: unsafe.Pointer(addr), NewP: val})
}

func SwapPointer(addr *unsafe.Pointer, new unsafe.Pointer) (old unsafe.Pointer) {
	g := vsched.Current()
	if g == nil {
		return atomic.SwapPointer(addr, new)
	}
	g.Enter()
	old = atomic.SwapPointer(addr, new)
	g.Exit(vsched.Event{Op: "swap", Typ: "ptr", Addr: unsafe.Pointer(addr), NewP: new, ValP: old})
	return
}

func CompareAndSwapPointer(addr *unsafe.Pointer, old, new unsafe.Pointer) (swapped bool) {
	g := vsched.Current()
	if g == nil {
		return atomic.CompareAndSwapPointer(addr, old, new)
	}
	g.Enter()
	swapped = atomic.CompareAndSwapPointer(addr, old, new)
	g.Exit(vsched.Event{Op: "cas", Typ: "ptr", Addr: unsafe.Pointer(addr), OldP: old, NewP: new, Ok: swapped})
	return
}

// Int32 mirrors sync/atomic.Int32.
type Int32 struct {
	_ noCopy
	v int32
}

func (x *Int32) Load() int32                        { return LoadInt32(&x.v) }
func (x *Int32) Store(val int32)                    { StoreInt32(&x.v, val) }
func (x *Int32) Swap(new int32) int32               { return SwapInt32(&x.v, new) }
func (x *Int32) Add(delta int32) int32              { return AddInt32(&x.v, delta) }
func (x *Int32) CompareAndSwap(old, new int32) bool { return CompareAndSwapInt32(&x.v, old, new) }

// Int64 mirrors sync/atomic.Int64.
type Int64 struct {
	_ noCopy
	v int64
}

func (x *Int64) Load() int64                        { return LoadInt64(&x.v) }
func (x *Int64) Store(val int64)                    { StoreInt64(&x.v, val) }
func (x *Int64) Swap(new int64) int64               { return SwapInt64(&x.v, new) }
func (x *Int64) Add(delta int64) int64              { return AddInt64(&x.v, delta) }
func (x *Int64) CompareAndSwap(old, new int64) bool { return CompareAndSwapInt64(&x.v, old, new) }

// Uint32 mirrors sync/atomic.Uint32.
type Uint32 struct {
	_ noCopy
	v uint32
}

func (x *Uint32) Load() uint32                        { return LoadUint32(&x.v) }
func (x *Uint32) Store(val uint32)                    { StoreUint32(&x.v, val) }
func (x *Uint32) Swap(new uint32) uint32              { return SwapUint32(&x.v, new) }
func (x *Uint32) Add(delta uint32) uint32             { return AddUint32(&x.v, delta) }
func (x *Uint32) CompareAndSwap(old, new uint32) bool { return CompareAndSwapUint32(&x.v, old, new) }

// Uint64 mirrors sync/atomic.Uint64.
type Uint64 struct {
	_ noCopy
	v uint64
}

func (x *Uint64) Load() uint64                        { return LoadUint64(&x.v) }
func (x *Uint64) Store(val uint64)                    { StoreUint64(&x.v, val) }
func (x *Uint64) Swap(new uint64) uint64              { return SwapUint64(&x.v, new) }
func (x *Uint64) Add(delta uint64) uint64             { return AddUint64(&x.v, delta) }
func (x *Uint64) CompareAndSwap(old, new uint64) bool { return CompareAndSwapUint64(&x.v, old, new) }

type noCopy struct{}

func (*noCopy) Lock()   {}
func (*noCopy) Unlock() {}

// Bool mirrors sync/atomic.Bool.
type Bool struct {
	_ noCopy
	v uint32
}

func b32(b bool) uint32 {
	if b {
		return 1
	}
	return 0
}

func (x *Bool) Load() bool         { return LoadUint32(&x.v) != 0 }
func (x *Bool) Store(val bool)     { StoreUint32(&x.v, b32(val)) }
func (x *Bool) Swap(new bool) bool { return SwapUint32(&x.v, b32(new)) != 0 }
func (x *Bool) CompareAndSwap(old, new bool) bool {
	return CompareAndSwapUint32(&x.v, b32(old), b32(new))
}

// Pointer mirrors sync/atomic.Pointer[T].
type Pointer[T any] struct {
	_ [0]*T
	_ noCopy
	v unsafe.Pointer
}

func (x *Pointer[T]) Load() *T       { return (*T)(LoadPointer(&x.v)) }
func (x *Pointer[T]) Store(val *T)   { StorePointer(&x.v, unsafe.Pointer(val)) }
func (x *Pointer[T]) Swap(new *T) *T { return (*T)(SwapPointer(&x.v, unsafe.Pointer(new))) }
func (x *Pointer[T]) CompareAndSwap(old, new *T) bool {
	return CompareAndSwapPointer(&x.v, unsafe.Pointer(old), unsafe.Pointer(new))
}

// Value is sync/atomic.Value itself (not a scheduling point).
type Value = atomic.Value
