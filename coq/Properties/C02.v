(* C02 -- outbound stream integrity and ordering.  Statements only; proofs in Proofs/LoopData.v and Proofs/LoopProgress.v. *)
From GV Require Import Lib.Trace Model.Loop Spec.LoopSpec Proofs.LoopData Proofs.LoopProgress.
Open Scope Z_scope.

(* For every input stream: the bytes the kernel accepts from a connection are always the
   front of the bytes submitted by its write operations (OnOpen reply, Write, Writev,
   ReadFrom, asynchronous writes when they are carried out) and not handed over yet --
   in submission order, nothing lost, duplicated or interleaved, however short the kernel's
   writes are and whenever it says EAGAIN; OutboundBuffered is the length of that rest. *)
Theorem C02_outbound_integrity : forall i t, run_history i = Some t -> outbound_ok t = true.
Proof. exact outbound_holds. Qed.
Print Assumptions C02_outbound_integrity.

(* Progress ("accepted output is eventually sent" as far as the loop is responsible for it): for
   every input stream, whenever the loop goes back to waiting, every registered stream connection
   that still has accepted bytes buffered has somebody who will send them: level-triggered, its
   current epoll registration asks for writability; edge-triggered, its last write attempt ended
   in EAGAIN (the kernel owes an edge) or a write task has been queued for it since.  Outside:
   ReadFrom not followed by Flush, and connections already doomed by a fatal result. *)
Theorem C02_outbound_progress : forall i t, run_history i = Some t -> out_progress_ok (is_et i) t = true.
Proof. exact out_progress_holds. Qed.
Print Assumptions C02_outbound_progress.
