NOTES = ("Machine-checked proof in Coq 8.16.1 on hand-written executable models; every run re-checks the theorems, "
         "regenerates translator obligations from /repo, and replays implementation traces through the extracted model. "
         "See DESIGN.md.")

ENGINES = [
    dict(name="arith", path="coq/Model/Arith.v", serves_properties=["C20"],
         kind_free_text="Gallina model of pkg/math, byteslice.index, internal/gfd + genintfun translator + drv-arith"),
]

CHECKS = {
    "C20": dict(
        engine="arith", design_ref="4 / C20",
        text="Full proof over the whole int64 range (Ceil/Floor/Closest/IsPowerOfTwo, size-class index, GFD pack/unpack) "
             "on a model that the translator regenerates from the source each run (obligation Gen.f = Model.f), plus "
             "differential execution of the real functions against the extracted model and a closed-form oracle.",
        note="Assumes math/bits.Len = log2+1 and 64-bit int; translator genintfun and the Go harness are trusted; "
             "GFD model is hand-written and tied by differential runs only.",
        technique="Coq proof (induction-free arithmetic/bit lemmas, lia) + go/ast translator obligations + differential traces",
    ),
}

_WIP = "not yet built in this round (work in progress; planned per DESIGN.md section 9)"
NOT_APPLICABLE = {p: _WIP for p in
                  ["C01", "C02", "C03", "C04", "C05", "C06", "C07", "C08", "C09", "C10", "C11", "C12", "C13",
                   "C14", "C15", "C16", "C17", "C18", "C19"]}
